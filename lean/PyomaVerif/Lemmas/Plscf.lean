import PyomaVerif.Model.Plscf
import PyomaVerif.Lemmas.Sum
import Mathlib.Tactic.Ring
import Mathlib.Tactic.Linarith
import Mathlib.Tactic.LinearCombination
import Mathlib.Tactic.NoncommRing
import Mathlib.Algebra.Field.Basic
import Mathlib.Algebra.BigOperators.Fin
import Mathlib.Data.Matrix.Mul
/-!
# Lemmas for C05 (`functions/plscf.py`)

* block sums, the rows of the companion matrix of `rmfd2ac`, eigenvector ⇄ root lemmas;
* soundness of the certificate check of `solveChecked` (and of the loops built on it);
* the normal equations of `pLSCF` in `Matrix` form and their bridge to the index-level model.
-/
open Finset
namespace PV.Plscf


theorem sum_blocks {K} [AddCommMonoid K] (n m : Nat) (f : Nat → K) :
    ∑ c ∈ range (n * m), f c = ∑ j ∈ range n, ∑ b ∈ range m, f (j * m + b) := by
  induction n with
  | zero => simp
  | succ n ih =>
    rw [Nat.succ_mul, Finset.sum_range_add, ih, Finset.sum_range_succ]

/-- `M · v`, row `r` -/
def mulVec {K} [Zero K] [Add K] [Mul K] (M : Mat K) (v : Nat → K) (r : Nat) : K :=
  sumTo M.c (fun c => M.e r c * v c)

/-- the stacked vector `[λ^p w; λ^{p-1} w; …; λ w; w]` (`p+1` blocks of `m`) -/
def blockVec {K} [Monoid K] (p m : Nat) (lam : K) (w : Nat → K) (c : Nat) : K :=
  lam ^ (p - c / m) * w (c % m)

variable {K : Type} [Field K]

theorem top_row (p m : Nat) (P : Nat → Nat → Nat → K) (v : Nat → K) (a : Nat) (ha : a < m) :
    mulVec (companionA (p + 1) m p P) v a
      = - ∑ j ∈ range p, ∑ b ∈ range m, P j a b * v (j * m + b) := by
  unfold mulVec companionA
  simp only [sumTo_eq, if_pos ha]
  rw [sum_blocks, Finset.sum_range_succ]
  have h0 : ∑ b ∈ range m, (if (p * m + b) / m < p then -P ((p * m + b) / m) a ((p * m + b) % m) else 0)
      * v (p * m + b) = 0 := by
    apply Finset.sum_eq_zero
    intro b hb
    rw [blk_div p (mem_range.mp hb)]
    simp
  rw [h0, add_zero, ← Finset.sum_neg_distrib]
  apply Finset.sum_congr rfl
  intro j hj
  rw [← Finset.sum_neg_distrib]
  apply Finset.sum_congr rfl
  intro b hb
  rw [blk_div j (mem_range.mp hb), blk_mod j (mem_range.mp hb), if_pos (mem_range.mp hj)]
  ring

theorem low_row (p m : Nat) (P : Nat → Nat → Nat → K) (v : Nat → K) (r : Nat)
    (h1 : m ≤ r) (h2 : r < (p + 1) * m) :
    mulVec (companionA (p + 1) m p P) v r = v (r - m) := by
  unfold mulVec companionA
  simp only [sumTo_eq, if_neg (not_lt.mpr h1)]
  rw [Finset.sum_eq_single (r - m)]
  · rw [if_pos (by omega)]; ring
  · intro c _ hc
    rw [if_neg (by omega)]; ring
  · intro h
    exfalso; apply h; rw [mem_range]; omega

/-- row `a` of `(λ^p·I + Σ_i λ^{p-1-i} P_i) w`, `P_i = A_p⁻¹ A_{p-1-i}` -/
def monicEval (p m : Nat) (P : Nat → Nat → Nat → K) (lam : K) (w : Nat → K) (a : Nat) : K :=
  lam ^ p * w a + ∑ i ∈ range p, lam ^ (p - 1 - i) * ∑ b ∈ range m, P i a b * w b

theorem blockVec_blk (p m : Nat) (lam : K) (w : Nat → K) (j b : Nat) (hb : b < m) :
    blockVec p m lam w (j * m + b) = lam ^ (p - j) * w b := by
  unfold blockVec
  rw [blk_div j hb, blk_mod j hb]

theorem top_sum_blockVec (p m : Nat) (P : Nat → Nat → Nat → K) (lam : K) (w : Nat → K) (a : Nat) :
    ∑ j ∈ range p, ∑ b ∈ range m, P j a b * blockVec p m lam w (j * m + b)
      = lam * ∑ i ∈ range p, lam ^ (p - 1 - i) * ∑ b ∈ range m, P i a b * w b := by
  rw [Finset.mul_sum]
  apply Finset.sum_congr rfl
  intro j hj
  have hj' := mem_range.mp hj
  have hp : p - j = (p - 1 - j) + 1 := by omega
  rw [Finset.mul_sum, Finset.mul_sum]
  apply Finset.sum_congr rfl
  intro b hb
  rw [blockVec_blk p m lam w j b (mem_range.mp hb), hp, pow_succ]
  ring

theorem comp_eig_of_monic (p m : Nat) (P : Nat → Nat → Nat → K) (lam : K) (w : Nat → K)
    (h : ∀ a < m, monicEval p m P lam w a = 0) (r : Nat) (hr : r < (p + 1) * m) :
    mulVec (companionA (p + 1) m p P) (blockVec p m lam w) r = lam * blockVec p m lam w r := by
  by_cases hrm : r < m
  · rw [top_row p m P _ r hrm, top_sum_blockVec]
    have h1 := h r hrm
    unfold monicEval at h1
    have hb : blockVec p m lam w r = lam ^ p * w r := by
      unfold blockVec
      rw [Nat.div_eq_of_lt hrm, Nat.mod_eq_of_lt hrm, Nat.sub_zero]
    rw [hb]
    linear_combination (-lam) * h1
  · have hrm' : m ≤ r := not_lt.mp hrm
    have hm : 0 < m := by
      rcases Nat.eq_zero_or_pos m with h0 | h0
      · subst h0; simp at hr
      · exact h0
    rw [low_row p m P _ r hrm' hr]
    unfold blockVec
    have hs : r % m < m := Nat.mod_lt _ hm
    have hq1' : 1 ≤ r / m := (Nat.one_le_div_iff hm).mpr hrm'
    have hrr : r - m = (r / m - 1) * m + r % m := by
      have h1 := Nat.div_add_mod r m
      have h2 : m * (r / m) = (r / m - 1) * m + m := by
        rw [Nat.mul_comm, Nat.sub_mul, Nat.one_mul, Nat.sub_add_cancel]
        exact Nat.le_mul_of_pos_left m hq1'
      omega
    have hd : (r - m) / m = r / m - 1 := by rw [hrr, blk_div _ hs]
    have hmod : (r - m) % m = r % m := by rw [hrr, blk_mod _ hs]
    have hq1 : 1 ≤ r / m := (Nat.one_le_div_iff hm).mpr hrm'
    have hq2 : r / m ≤ p := by
      have : r / m < p + 1 := (Nat.div_lt_iff_lt_mul hm).mpr hr
      omega
    rw [hd, hmod]
    have : p - (r / m - 1) = (p - r / m) + 1 := by omega
    rw [this, pow_succ]
    ring

/-- row `a` of `A(λ)·w = Σ_{k≤p} λ^k A_k w` -/
def polyEval (p m : Nat) (A : Nat → Nat → Nat → K) (lam : K) (w : Nat → K) (a : Nat) : K :=
  ∑ k ∈ range (p + 1), lam ^ k * ∑ b ∈ range m, A k a b * w b

theorem triple_swap (p m : Nat) (c : Nat → K) (e : Nat → K) (P : Nat → Nat → Nat → K) (w : Nat → K) :
    ∑ i ∈ range p, e i * ∑ b ∈ range m, (∑ t ∈ range m, c t * P i t b) * w b
      = ∑ t ∈ range m, c t * ∑ i ∈ range p, e i * ∑ b ∈ range m, P i t b * w b := by
  have h1 : ∀ i, e i * ∑ b ∈ range m, (∑ t ∈ range m, c t * P i t b) * w b
      = ∑ t ∈ range m, ∑ b ∈ range m, c t * (e i * (P i t b * w b)) := by
    intro i
    rw [Finset.sum_comm, Finset.mul_sum]
    apply Finset.sum_congr rfl
    intro b _
    rw [Finset.sum_mul, Finset.mul_sum]
    apply Finset.sum_congr rfl
    intro t _
    ring
  have h2 : ∀ t, c t * ∑ i ∈ range p, e i * ∑ b ∈ range m, P i t b * w b
      = ∑ i ∈ range p, ∑ b ∈ range m, c t * (e i * (P i t b * w b)) := by
    intro t
    rw [Finset.mul_sum]
    apply Finset.sum_congr rfl
    intro i _
    rw [Finset.mul_sum, Finset.mul_sum]
  simp only [h1, h2]
  rw [Finset.sum_comm]

theorem polyEval_eq (p m : Nat) (A P : Nat → Nat → Nat → K) (lam : K) (w : Nat → K)
    (hsolve : ∀ i < p, ∀ a < m, ∀ b < m, ∑ t ∈ range m, A p a t * P i t b = A (p - 1 - i) a b)
    (a : Nat) (ha : a < m) :
    polyEval p m A lam w a = ∑ t ∈ range m, A p a t * monicEval p m P lam w t := by
  unfold polyEval monicEval
  rw [Finset.sum_range_succ, ← Finset.sum_range_reflect]
  have h1 : ∑ j ∈ range p, lam ^ (p - 1 - j) * ∑ b ∈ range m, A (p - 1 - j) a b * w b
      = ∑ i ∈ range p, lam ^ (p - 1 - i) * ∑ b ∈ range m, (∑ t ∈ range m, A p a t * P i t b) * w b := by
    apply Finset.sum_congr rfl
    intro i hi
    congr 1
    apply Finset.sum_congr rfl
    intro b hb
    rw [hsolve i (mem_range.mp hi) a ha b (mem_range.mp hb)]
  rw [h1, triple_swap p m (fun t => A p a t) (fun i => lam ^ (p - 1 - i)) P w]
  simp only [mul_add, Finset.sum_add_distrib]
  rw [add_comm]
  congr 1
  rw [Finset.mul_sum]
  apply Finset.sum_congr rfl
  intro t _
  ring

theorem blk_lt {q p m b : Nat} (hq : q < p) (hb : b < m) : q * m + b < p * m := by
  have h1 : (q + 1) * m ≤ p * m := Nat.mul_le_mul_right m hq
  rw [Nat.succ_mul] at h1
  omega

theorem eig_blocks (p m : Nat) (P : Nat → Nat → Nat → K) (lam : K) (v : Nat → K)
    (h : ∀ r < (p + 1) * m, mulVec (companionA (p + 1) m p P) v r = lam * v r)
    (b : Nat) (hb : b < m) :
    ∀ d q, q + d = p → v (q * m + b) = lam ^ d * v (p * m + b) := by
  intro d
  induction d with
  | zero => intro q hq; simp at hq; subst hq; simp
  | succ d ih =>
    intro q hq
    have ih' := ih (q + 1) (by omega)
    have hlt : (q + 1) * m + b < (p + 1) * m := blk_lt (by omega) hb
    have hle : m ≤ (q + 1) * m + b := by rw [Nat.succ_mul]; omega
    have hr := h ((q + 1) * m + b) hlt
    rw [low_row p m P v _ hle hlt] at hr
    have hsub : (q + 1) * m + b - m = q * m + b := by rw [Nat.succ_mul]; omega
    rw [hsub, ih'] at hr
    rw [hr, pow_succ]
    ring

theorem eig_eq_blockVec (p m : Nat) (P : Nat → Nat → Nat → K) (lam : K) (v : Nat → K)
    (h : ∀ r < (p + 1) * m, mulVec (companionA (p + 1) m p P) v r = lam * v r)
    (c : Nat) (hc : c < (p + 1) * m) :
    v c = blockVec p m lam (fun b => v (p * m + b)) c := by
  have hm : 0 < m := by
    rcases Nat.eq_zero_or_pos m with h0 | h0
    · subst h0; simp at hc
    · exact h0
  have hq : c / m ≤ p := by
    have : c / m < p + 1 := (Nat.div_lt_iff_lt_mul hm).mpr hc
    omega
  have hs : c % m < m := Nat.mod_lt _ hm
  have hcc : c = (c / m) * m + c % m := by
    have := Nat.div_add_mod c m
    rw [Nat.mul_comm] at this; omega
  unfold blockVec
  have := eig_blocks p m P lam v h (c % m) hs (p - c / m) (c / m) (by omega)
  rw [← hcc] at this
  exact this

theorem eig_monic (p m : Nat) (P : Nat → Nat → Nat → K) (lam : K) (hlam : lam ≠ 0) (v : Nat → K)
    (h : ∀ r < (p + 1) * m, mulVec (companionA (p + 1) m p P) v r = lam * v r)
    (a : Nat) (ha : a < m) :
    monicEval p m P lam (fun b => v (p * m + b)) a = 0 := by
  have hr := h a (by rw [Nat.succ_mul]; omega)
  rw [top_row p m P v a ha] at hr
  have hsum : ∑ j ∈ range p, ∑ b ∈ range m, P j a b * v (j * m + b)
      = ∑ j ∈ range p, ∑ b ∈ range m, P j a b * blockVec p m lam (fun b => v (p * m + b)) (j * m + b) := by
    apply Finset.sum_congr rfl
    intro j hj
    apply Finset.sum_congr rfl
    intro b hb
    rw [← eig_eq_blockVec p m P lam v h (j * m + b)
      (blk_lt (Nat.lt_succ_of_lt (mem_range.mp hj)) (mem_range.mp hb))]
  rw [hsum, top_sum_blockVec] at hr
  have hva : v a = lam ^ p * v (p * m + a) := by
    have := eig_blocks p m P lam v h a ha p 0 (by omega)
    simpa using this
  rw [hva] at hr
  unfold monicEval
  have : lam * (lam ^ p * v (p * m + a)
      + ∑ i ∈ range p, lam ^ (p - 1 - i) * ∑ b ∈ range m, P i a b * v (p * m + b)) = 0 := by
    linear_combination (-1 : K) * hr
  rcases mul_eq_zero.mp this with h0 | h0
  · exact absurd h0 hlam
  · exact h0

theorem kernel_iff (p m : Nat) (P : Nat → Nat → Nat → K) (v : Nat → K) :
    (∀ r < (p + 1) * m, mulVec (companionA (p + 1) m p P) v r = 0) ↔ ∀ c < p * m, v c = 0 := by
  constructor
  · intro h c hc
    have hlt : c + m < (p + 1) * m := by rw [Nat.succ_mul]; omega
    have := h (c + m) hlt
    rw [low_row p m P v _ (by omega) hlt] at this
    simpa using this
  · intro h r hr
    by_cases hrm : r < m
    · rw [top_row p m P v r hrm]
      rw [neg_eq_zero]
      apply Finset.sum_eq_zero
      intro j hj
      apply Finset.sum_eq_zero
      intro b hb
      rw [h _ (blk_lt (mem_range.mp hj) (mem_range.mp hb)), mul_zero]
    · rw [low_row p m P v r (not_lt.mp hrm) hr]
      apply h
      rw [Nat.succ_mul] at hr
      omega

/-! ### the certificate of `solveChecked` -/
section cert
variable {F : Type} [Zero F] [One F] [Add F] [Sub F] [Mul F] [Div F] [DecidableEq F] [Inhabited F]

omit [One F] [Sub F] [Div F] [Inhabited F] in
theorem checkSolve_sound (n c : Nat) (A B X : Nat → Nat → F) (h : checkSolve n c A B X = true)
    (i : Nat) (hi : i < n) (j : Nat) (hj : j < c) :
    sumTo n (fun t => A i t * X t j) = B i j := by
  unfold checkSolve at h
  rw [List.all_eq_true] at h
  have h1 := h i (List.mem_range.mpr hi)
  rw [List.all_eq_true] at h1
  have h2 := h1 j (List.mem_range.mpr hj)
  exact of_decide_eq_true h2

omit [One F] in
theorem solveChecked_sound (n c : Nat) (A B X : Nat → Nat → F) (h : solveChecked n c A B = some X)
    (i : Nat) (hi : i < n) (j : Nat) (hj : j < c) :
    sumTo n (fun t => A i t * X t j) = B i j := by
  unfold solveChecked at h
  split at h
  · exact absurd h (by simp)
  · dsimp only at h
    split at h
    · rename_i hck
      injection h with h
      subst h
      exact checkSolve_sound n c A B _ hck i hi j hj
    · exact absurd h (by simp)

theorem solveAll_sound (m : Nat) (Alast : Nat → Nat → F) (rhs : Nat → Nat → Nat → F) :
    ∀ (cnt : Nat) (P : Nat → Nat → Nat → F), solveAll m Alast rhs cnt = some P →
      ∀ i < cnt, ∀ a < m, ∀ b < m, sumTo m (fun t => Alast a t * P i t b) = rhs i a b := by
  intro cnt
  induction cnt with
  | zero => intro P _ i hi; omega
  | succ k ih =>
    intro P h i hi a ha b hb
    unfold solveAll at h
    split at h
    · rename_i P0 X hP0 hX
      injection h with h
      subst h
      by_cases hik : i = k
      · subst hik
        simp only [↓reduceIte]
        exact solveChecked_sound m m Alast (rhs i) X hX a ha b hb
      · simp only [if_neg hik]
        exact ih P0 hP0 i (by omega) a ha b hb
    · exact absurd h (by simp)

omit [One F] in
theorem solveEach_sound (n c : Nat) (A : Nat → Nat → F) (B : Nat → Nat → Nat → F) :
    ∀ (cnt : Nat) (X : Nat → Nat → Nat → F), solveEach n c A B cnt = some X →
      ∀ o < cnt, ∀ i < n, ∀ j < c, sumTo n (fun t => A i t * X o t j) = B o i j := by
  intro cnt
  induction cnt with
  | zero => intro X _ o ho; omega
  | succ k ih =>
    intro X h o ho i hi j hj
    unfold solveEach at h
    split at h
    · rename_i P0 X0 hP0 hX
      injection h with h
      subst h
      by_cases hok : o = k
      · subst hok
        simp only [↓reduceIte]
        exact solveChecked_sound n c A (B o) X0 hX i hi j hj
      · simp only [if_neg hok]
        exact ih P0 hP0 o (by omega) i hi j hj
    · exact absurd h (by simp)

omit [Zero F] [One F] [Add F] [Sub F] [Mul F] [Div F] [DecidableEq F] in
theorem rd_memoArr (r c : Nat) (f : Nat → Nat → F) (i j : Nat) (hi : i < r) (hj : j < c) :
    rd (memoArr r c f) i j = f i j := by
  unfold rd memoArr
  simp [hi, hj]

end cert


/-! ### normal equations -/
section normaleq
open Matrix


theorem normal_eq_matrix {F J N C K : Type} [Fintype F] [Fintype J] [Fintype N] [Fintype C]
    [CommRing K]
    (Xr Xi : Matrix F N K) (Yr Yi : Matrix F J K) (α : Matrix J C K) (β : Matrix N C K)
    (X : Matrix N J K)
    (hr : Xr * β + Yr * α = 0) (hi : Xi * β + Yi * α = 0)
    (hX : (Xrᵀ * Xr + Xiᵀ * Xi) * X = Xrᵀ * Yr + Xiᵀ * Yi) :
    ((Yrᵀ * Yr + Yiᵀ * Yi) - (Xrᵀ * Yr + Xiᵀ * Yi)ᵀ * X) * α = 0 := by
  have h1 : (Xrᵀ * Xr + Xiᵀ * Xi) * β + (Xrᵀ * Yr + Xiᵀ * Yi) * α = 0 := by
    have : (Xrᵀ * Xr + Xiᵀ * Xi) * β + (Xrᵀ * Yr + Xiᵀ * Yi) * α
        = Xrᵀ * (Xr * β + Yr * α) + Xiᵀ * (Xi * β + Yi * α) := by
      simp only [Matrix.add_mul, Matrix.mul_add, Matrix.mul_assoc]; abel
    rw [this, hr, hi]; simp
  have h2 : (Xrᵀ * Yr + Xiᵀ * Yi)ᵀ * β + (Yrᵀ * Yr + Yiᵀ * Yi) * α = 0 := by
    have : (Xrᵀ * Yr + Xiᵀ * Yi)ᵀ * β + (Yrᵀ * Yr + Yiᵀ * Yi) * α
        = Yrᵀ * (Xr * β + Yr * α) + Yiᵀ * (Xi * β + Yi * α) := by
      simp only [Matrix.transpose_add, Matrix.transpose_mul, Matrix.transpose_transpose,
        Matrix.add_mul, Matrix.mul_add, Matrix.mul_assoc]; abel
    rw [this, hr, hi]; simp
  have hsym : (Xrᵀ * Xr + Xiᵀ * Xi)ᵀ = Xrᵀ * Xr + Xiᵀ * Xi := by
    simp only [Matrix.transpose_add, Matrix.transpose_mul, Matrix.transpose_transpose]
  -- Sᵀ = Xᵀ R
  have hS : (Xrᵀ * Yr + Xiᵀ * Yi)ᵀ = Xᵀ * (Xrᵀ * Xr + Xiᵀ * Xi) := by
    rw [← hX, Matrix.transpose_mul, hsym]
  have h3 : (Xrᵀ * Yr + Xiᵀ * Yi)ᵀ * X * α = - ((Xrᵀ * Yr + Xiᵀ * Yi)ᵀ * β) := by
    have e1 : (Xrᵀ * Yr + Xiᵀ * Yi) * α = - ((Xrᵀ * Xr + Xiᵀ * Xi) * β) :=
      eq_neg_of_add_eq_zero_right h1
    calc (Xrᵀ * Yr + Xiᵀ * Yi)ᵀ * X * α
        = Xᵀ * (((Xrᵀ * Xr + Xiᵀ * Xi) * X) * α) := by rw [hS]; simp only [Matrix.mul_assoc]
      _ = Xᵀ * ((Xrᵀ * Yr + Xiᵀ * Yi) * α) := by rw [hX]
      _ = - (Xᵀ * (Xrᵀ * Xr + Xiᵀ * Xi) * β) := by rw [e1, Matrix.mul_neg, Matrix.mul_assoc]
      _ = - ((Xrᵀ * Yr + Xiᵀ * Yi)ᵀ * β) := by rw [← hS]
  rw [Matrix.sub_mul, h3, sub_neg_eq_add, add_comm]
  exact h2


/-- real part of the linearised residual `Xo[f,:]·β[:,c] + Yo[f,:]·α[:,c]` of reference row `o`
    (`= B_o(z_f)[c] − (Sy[o,:,f]·A(z_f))[c]`) -/
def residRe (Nch n : Nat) (Om : Nat → Cx K) (Syo : Nat → Nat → Cx K) (α : Nat → Nat → K)
    (β : Nat → Nat → K) (f c : Nat) : K :=
  ∑ i ∈ range (n + 1), (Xo Om f i).re * β i c
    + ∑ J ∈ range ((n + 1) * Nch), (Yo Nch Om Syo f J).re * α J c
/-- imaginary part of the same residual -/
def residIm (Nch n : Nat) (Om : Nat → Cx K) (Syo : Nat → Nat → Cx K) (α : Nat → Nat → K)
    (β : Nat → Nat → K) (f c : Nat) : K :=
  ∑ i ∈ range (n + 1), (Xo Om f i).im * β i c
    + ∑ J ∈ range ((n + 1) * Nch), (Yo Nch Om Syo f J).im * α J c

def mXr (Nf n : Nat) (Om : Nat → Cx K) : Matrix (Fin Nf) (Fin (n + 1)) K :=
  Matrix.of fun f i => (Xo Om f i).re
def mXi (Nf n : Nat) (Om : Nat → Cx K) : Matrix (Fin Nf) (Fin (n + 1)) K :=
  Matrix.of fun f i => (Xo Om f i).im
def mYr (Nch Nf n : Nat) (Om : Nat → Cx K) (Syo : Nat → Nat → Cx K) :
    Matrix (Fin Nf) (Fin ((n + 1) * Nch)) K := Matrix.of fun f J => (Yo Nch Om Syo f J).re
def mYi (Nch Nf n : Nat) (Om : Nat → Cx K) (Syo : Nat → Nat → Cx K) :
    Matrix (Fin Nf) (Fin ((n + 1) * Nch)) K := Matrix.of fun f J => (Yo Nch Om Syo f J).im
def mOf (r c : Nat) (g : Nat → Nat → K) : Matrix (Fin r) (Fin c) K := Matrix.of fun i j => g i j

theorem per_ref (Nch Nf n : Nat) (Om : Nat → Cx K) (Syo : Nat → Nat → Cx K)
    (X : Nat → Nat → K)
    (hX : ∀ i < n + 1, ∀ J < (n + 1) * Nch,
      sumTo (n + 1) (fun t => Ro Nf Om i t * X t J) = So Nch Nf Om Syo i J)
    (α β : Nat → Nat → K)
    (hfit : ∀ f < Nf, ∀ c < Nch, residRe Nch n Om Syo α β f c = 0 ∧ residIm Nch n Om Syo α β f c = 0)
    (I : Nat) (hI : I < (n + 1) * Nch) (c : Nat) (hc : c < Nch) :
    ∑ J ∈ range ((n + 1) * Nch),
      (To Nch Nf Om Syo I J - ∑ t ∈ range (n + 1), So Nch Nf Om Syo t I * X t J) * α J c = 0 := by
  have hr : mXr Nf n Om * mOf (n + 1) Nch β + mYr Nch Nf n Om Syo * mOf ((n + 1) * Nch) Nch α = 0 := by
    ext f c
    have := (hfit f f.2 c c.2).1
    unfold residRe at this
    rw [Finset.sum_range, Finset.sum_range] at this
    simpa [Matrix.mul_apply, mXr, mYr, mOf] using this
  have hi : mXi Nf n Om * mOf (n + 1) Nch β + mYi Nch Nf n Om Syo * mOf ((n + 1) * Nch) Nch α = 0 := by
    ext f c
    have := (hfit f f.2 c c.2).2
    unfold residIm at this
    rw [Finset.sum_range, Finset.sum_range] at this
    simpa [Matrix.mul_apply, mXi, mYi, mOf] using this
  have hRo : ∀ i j : Nat, Ro Nf Om i j = ∑ f : Fin Nf, ((Xo Om f i).re * (Xo Om f j).re
      + (Xo Om f i).im * (Xo Om f j).im) := by
    intro i j; unfold Ro Cx.reConjMul; rw [sumTo_eq, Finset.sum_range]
  have hSo : ∀ i J : Nat, So Nch Nf Om Syo i J = ∑ f : Fin Nf, ((Xo Om f i).re * (Yo Nch Om Syo f J).re
      + (Xo Om f i).im * (Yo Nch Om Syo f J).im) := by
    intro i j; unfold So Cx.reConjMul; rw [sumTo_eq, Finset.sum_range]
  have hTo : ∀ I J : Nat, To Nch Nf Om Syo I J = ∑ f : Fin Nf, ((Yo Nch Om Syo f I).re * (Yo Nch Om Syo f J).re
      + (Yo Nch Om Syo f I).im * (Yo Nch Om Syo f J).im) := by
    intro i j; unfold To Cx.reConjMul; rw [sumTo_eq, Finset.sum_range]
  have hXm : ((mXr Nf n Om)ᵀ * mXr Nf n Om + (mXi Nf n Om)ᵀ * mXi Nf n Om) * mOf (n + 1) ((n + 1) * Nch) X
      = (mXr Nf n Om)ᵀ * mYr Nch Nf n Om Syo + (mXi Nf n Om)ᵀ * mYi Nch Nf n Om Syo := by
    ext i J
    have := hX i i.2 J J.2
    rw [sumTo_eq, Finset.sum_range] at this
    simp only [Matrix.mul_apply, Matrix.add_apply, Matrix.transpose_apply, mXr, mXi, mYr, mYi, mOf,
      Matrix.of_apply, ← Finset.sum_add_distrib, ← hRo, ← hSo]
    exact this
  have key := normal_eq_matrix _ _ _ _ _ _ _ hr hi hXm
  have k2 := congrFun (congrFun key ⟨I, hI⟩) ⟨c, hc⟩
  simp only [Matrix.mul_apply, Matrix.sub_apply, Matrix.add_apply, Matrix.transpose_apply,
    Matrix.zero_apply, mXr, mXi, mYr, mYi, mOf, Matrix.of_apply, ← Finset.sum_add_distrib,
    ← hSo, ← hTo] at k2
  rw [Finset.sum_range]
  simp only [Finset.sum_range (fun t => So Nch Nf Om Syo t I * X t _)]
  exact k2

/-- `M·α = 0` for an exactly fitting real coefficient pair, `M` being what `pLSCF` accumulates. -/
theorem Mmat_mul_alpha (Nch Nref Nf n : Nat) (Om : Nat → Cx K) (Sy : Nat → Nat → Nat → Cx K)
    (X : Nat → Nat → Nat → K)
    (hX : ∀ o < Nref, ∀ i < n + 1, ∀ J < (n + 1) * Nch,
      sumTo (n + 1) (fun t => Ro Nf Om i t * X o t J) = So Nch Nf Om (Sy o) i J)
    (α : Nat → Nat → K) (β : Nat → Nat → Nat → K)
    (hfit : ∀ o < Nref, ∀ f < Nf, ∀ c < Nch,
      residRe Nch n Om (Sy o) α (β o) f c = 0 ∧ residIm Nch n Om (Sy o) α (β o) f c = 0)
    (I : Nat) (hI : I < (n + 1) * Nch) (c : Nat) (hc : c < Nch) :
    sumTo ((n + 1) * Nch) (fun J => Mmat Nch Nref Nf n Om Sy X I J * α J c) = 0 := by
  unfold Mmat
  simp only [sumTo_eq]
  simp only [Finset.sum_mul]
  rw [Finset.sum_comm]
  apply Finset.sum_eq_zero
  intro o ho
  exact per_ref Nch Nf n Om (Sy o) (X o) (hX o (mem_range.mp ho)) α (β o)
    (hfit o (mem_range.mp ho)) I hI c hc

/-- uniqueness of the constrained solve: `(-G) z = g` and `g + G z' = 0` with `G` injective -/
theorem unique_block (d : Nat) (G : Nat → Nat → K) (g z z' : Nat → K)
    (h1 : ∀ I < d, ∑ J ∈ range d, (- G I J) * z J = g I)
    (h2 : ∀ I < d, g I + ∑ J ∈ range d, G I J * z' J = 0)
    (hinj : ∀ y : Nat → K, (∀ I < d, ∑ J ∈ range d, G I J * y J = 0) → ∀ J < d, y J = 0) :
    ∀ J < d, z J = z' J := by
  have := hinj (fun J => z' J - z J) (by
    intro I hI
    have e1 := h1 I hI
    have e2 := h2 I hI
    have : ∑ J ∈ range d, G I J * (z' J - z J)
        = ∑ J ∈ range d, G I J * z' J + ∑ J ∈ range d, (- G I J) * z J := by
      rw [← Finset.sum_add_distrib]
      apply Finset.sum_congr rfl
      intro J _; ring
    rw [this, e1]
    linear_combination e2)
  intro J hJ
  have h := this J hJ
  exact (sub_eq_zero.mp h).symm

theorem delta_sum (Nch : Nat) (g : Nat → K) (α : Nat → Nat → K) (off c : Nat) (hc : c < Nch)
    (hnorm : ∀ I < Nch, α (off + I) c = if I = c then 1 else 0) :
    ∑ J ∈ range Nch, g J * α (off + J) c = g c := by
  rw [Finset.sum_eq_single c]
  · rw [hnorm c hc, if_pos rfl, mul_one]
  · intro J hJ hne
    rw [hnorm J (mem_range.mp hJ), if_neg hne, mul_zero]
  · intro h; exact absurd (mem_range.mpr hc) h

theorem unique_LO (Nch n : Nat) (M Z α : Nat → Nat → K)
    (hZ : ∀ I < n * Nch, ∀ c < Nch,
      sumTo (n * Nch) (fun J => (- M (Nch + I) (Nch + J)) * Z J c) = M (Nch + I) c)
    (hM : ∀ I < (n + 1) * Nch, ∀ c < Nch, sumTo ((n + 1) * Nch) (fun J => M I J * α J c) = 0)
    (hnorm : ∀ I < Nch, ∀ c < Nch, α I c = if I = c then 1 else 0)
    (hinj : ∀ y : Nat → K, (∀ I < n * Nch, ∑ J ∈ range (n * Nch), M (Nch + I) (Nch + J) * y J = 0)
      → ∀ J < n * Nch, y J = 0) :
    ∀ I < (n + 1) * Nch, ∀ c < Nch, alphaLO Nch Z I c = α I c := by
  intro I hI c hc
  have hd : (n + 1) * Nch = Nch + n * Nch := by rw [Nat.succ_mul, Nat.add_comm]
  have hu := unique_block (n * Nch) (fun I J => M (Nch + I) (Nch + J)) (fun I => M (Nch + I) c)
    (fun J => Z J c) (fun J => α (Nch + J) c)
    (by intro I hI; have := hZ I hI c hc; rw [sumTo_eq] at this; exact this)
    (by
      intro I hI
      have := hM (Nch + I) (by omega) c hc
      rw [sumTo_eq, hd, Finset.sum_range_add] at this
      have e := delta_sum Nch (fun J => M (Nch + I) J) α 0 c hc
        (by intro I hI; simpa using hnorm I hI c hc)
      simp only [Nat.zero_add] at e
      rw [e] at this
      exact this)
    hinj
  unfold alphaLO
  by_cases h : I < Nch
  · rw [if_pos h, hnorm I h c hc]
  · rw [if_neg h]
    have := hu (I - Nch) (by omega)
    rw [this]
    congr 1; omega

theorem unique_HI (Nch n : Nat) (M Z α : Nat → Nat → K)
    (hZ : ∀ I < n * Nch, ∀ c < Nch,
      sumTo (n * Nch) (fun J => (- M I J) * Z J c) = M I (n * Nch + c))
    (hM : ∀ I < (n + 1) * Nch, ∀ c < Nch, sumTo ((n + 1) * Nch) (fun J => M I J * α J c) = 0)
    (hnorm : ∀ I < Nch, ∀ c < Nch, α (n * Nch + I) c = if I = c then 1 else 0)
    (hinj : ∀ y : Nat → K, (∀ I < n * Nch, ∑ J ∈ range (n * Nch), M I J * y J = 0)
      → ∀ J < n * Nch, y J = 0) :
    ∀ I < (n + 1) * Nch, ∀ c < Nch, alphaHI Nch n Z I c = α I c := by
  intro I hI c hc
  have hd : (n + 1) * Nch = n * Nch + Nch := Nat.succ_mul n Nch
  have hu := unique_block (n * Nch) (fun I J => M I J) (fun I => M I (n * Nch + c))
    (fun J => Z J c) (fun J => α J c)
    (by intro I hI; have := hZ I hI c hc; rw [sumTo_eq] at this; exact this)
    (by
      intro I hI
      have := hM I (by omega) c hc
      rw [sumTo_eq, hd, Finset.sum_range_add] at this
      have e := delta_sum Nch (fun J => M I (n * Nch + J)) α (n * Nch) c hc
        (by intro I hI; exact hnorm I hI c hc)
      rw [e] at this
      rw [add_comm]
      exact this)
    hinj
  unfold alphaHI
  by_cases h : I < n * Nch
  · rw [if_pos h]
    exact hu I h
  · rw [if_neg h]
    have := hnorm (I - n * Nch) (by omega) c hc
    rw [← this]
    congr 1; omega


theorem normal_eq1_matrix {F J N C K : Type} [Fintype F] [Fintype J] [Fintype N] [Fintype C]
    [CommRing K]
    (Xr Xi : Matrix F N K) (Yr Yi : Matrix F J K) (α : Matrix J C K) (β : Matrix N C K)
    (hr : Xr * β + Yr * α = 0) (hi : Xi * β + Yi * α = 0) :
    (Xrᵀ * Xr + Xiᵀ * Xi) * β + (Xrᵀ * Yr + Xiᵀ * Yi) * α = 0 := by
  have : (Xrᵀ * Xr + Xiᵀ * Xi) * β + (Xrᵀ * Yr + Xiᵀ * Yi) * α
      = Xrᵀ * (Xr * β + Yr * α) + Xiᵀ * (Xi * β + Yi * α) := by
    simp only [Matrix.add_mul, Matrix.mul_add, Matrix.mul_assoc]; abel
  rw [this, hr, hi]; simp

/-- first normal equation `Ro·β + So·α = 0` of an exactly fitting pair -/
theorem per_ref_eq1 (Nch Nf n : Nat) (Om : Nat → Cx K) (Syo : Nat → Nat → Cx K)
    (α β : Nat → Nat → K)
    (hfit : ∀ f < Nf, ∀ c < Nch, residRe Nch n Om Syo α β f c = 0 ∧ residIm Nch n Om Syo α β f c = 0)
    (i : Nat) (hi' : i < n + 1) (c : Nat) (hc : c < Nch) :
    ∑ t ∈ range (n + 1), Ro Nf Om i t * β t c
      + ∑ J ∈ range ((n + 1) * Nch), So Nch Nf Om Syo i J * α J c = 0 := by
  have hr : mXr Nf n Om * mOf (n + 1) Nch β + mYr Nch Nf n Om Syo * mOf ((n + 1) * Nch) Nch α = 0 := by
    ext f c
    have := (hfit f f.2 c c.2).1
    unfold residRe at this
    rw [Finset.sum_range, Finset.sum_range] at this
    simpa [Matrix.mul_apply, mXr, mYr, mOf] using this
  have hi : mXi Nf n Om * mOf (n + 1) Nch β + mYi Nch Nf n Om Syo * mOf ((n + 1) * Nch) Nch α = 0 := by
    ext f c
    have := (hfit f f.2 c c.2).2
    unfold residIm at this
    rw [Finset.sum_range, Finset.sum_range] at this
    simpa [Matrix.mul_apply, mXi, mYi, mOf] using this
  have hRo : ∀ i j : Nat, Ro Nf Om i j = ∑ f : Fin Nf, ((Xo Om f i).re * (Xo Om f j).re
      + (Xo Om f i).im * (Xo Om f j).im) := by
    intro i j; unfold Ro Cx.reConjMul; rw [sumTo_eq, Finset.sum_range]
  have hSo : ∀ i J : Nat, So Nch Nf Om Syo i J = ∑ f : Fin Nf, ((Xo Om f i).re * (Yo Nch Om Syo f J).re
      + (Xo Om f i).im * (Yo Nch Om Syo f J).im) := by
    intro i j; unfold So Cx.reConjMul; rw [sumTo_eq, Finset.sum_range]
  have key := normal_eq1_matrix _ _ _ _ _ _ hr hi
  have k2 := congrFun (congrFun key ⟨i, hi'⟩) ⟨c, hc⟩
  simp only [Matrix.mul_apply, Matrix.add_apply, Matrix.transpose_apply,
    Matrix.zero_apply, mXr, mXi, mYr, mYi, mOf, Matrix.of_apply, ← Finset.sum_add_distrib,
    ← hSo, ← hRo] at k2
  rw [Finset.sum_range, Finset.sum_range]
  exact k2

theorem sumTo_congr {A : Type} [AddCommMonoid A] (n : Nat) (f g : Nat → A) (h : ∀ t < n, f t = g t) :
    sumTo n f = sumTo n g := by
  rw [sumTo_eq, sumTo_eq]
  exact Finset.sum_congr rfl (fun t ht => h t (mem_range.mp ht))

end normaleq

theorem resid_lin (N d Nch : Nat) (x y : Nat → K) (α β G : Nat → Nat → K) (c : Nat) :
    ∑ i ∈ range N, x i * (∑ k ∈ range Nch, β i k * G k c)
      + ∑ J ∈ range d, y J * (∑ k ∈ range Nch, α J k * G k c)
    = ∑ k ∈ range Nch, (∑ i ∈ range N, x i * β i k + ∑ J ∈ range d, y J * α J k) * G k c := by
  simp only [Finset.mul_sum, Finset.sum_mul, add_mul, Finset.sum_add_distrib]
  rw [Finset.sum_comm, Finset.sum_comm (s := range d)]
  congr 1 <;> (apply Finset.sum_congr rfl; intro k _; apply Finset.sum_congr rfl; intro i _; ring)

/-! ### what `plscfOrder` certifies -/
/-- what a returned `plscfOrder` value certifies -/
structure OrderCert (Nch Nref Nf n : Nat) (hi : Bool) (Om : Nat → Cx K)
    (Sy : Nat → Nat → Nat → Cx K) (out : OrderOut K) (X : Nat → Nat → Nat → K) (Z : Nat → Nat → K) : Prop where
  hX : ∀ o < Nref, ∀ i < n + 1, ∀ J < (n + 1) * Nch,
      sumTo (n + 1) (fun t => Ro Nf Om i t * X o t J) = So Nch Nf Om (Sy o) i J
  hM : ∀ I < (n + 1) * Nch, ∀ J < (n + 1) * Nch, out.M I J = Mmat Nch Nref Nf n Om Sy X I J
  hZ : if hi then
        (∀ I < n * Nch, ∀ c < Nch,
          sumTo (n * Nch) (fun J => (- out.M I J) * Z J c) = out.M I (n * Nch + c))
          ∧ out.alpha = alphaHI Nch n Z
       else
        (∀ I < n * Nch, ∀ c < Nch,
          sumTo (n * Nch) (fun J => (- out.M (Nch + I) (Nch + J)) * Z J c) = out.M (Nch + I) c)
          ∧ out.alpha = alphaLO Nch Z
  hbeta : ∀ o < Nref, ∀ i < n + 1, ∀ c < Nch,
      sumTo (n + 1) (fun t => (- Ro Nf Om i t) * out.beta o t c)
        = sumTo ((n + 1) * Nch) (fun J => So Nch Nf Om (Sy o) i J * out.alpha J c)

theorem ofFn_get {A : Type} [Inhabited A] (n : Nat) (f : Fin n → A) (o : Nat) (ho : o < n) :
    (Array.ofFn f)[o]! = f ⟨o, ho⟩ := by
  simp [ho]

theorem plscfOrder_sound [DecidableEq K] [Inhabited K] (Nch Nref Nf n : Nat) (hi : Bool)
    (Om : Nat → Cx K) (Sy : Nat → Nat → Nat → Cx K) (out : OrderOut K)
    (h : plscfOrder Nch Nref Nf n hi Om Sy = some out) :
    ∃ X Z, OrderCert Nch Nref Nf n hi Om Sy out X Z := by
  unfold plscfOrder at h
  dsimp only at h
  split at h
  · exact absurd h (by simp)
  · rename_i X hXs
    split at h
    · exact absurd h (by simp)
    · rename_i Z hZs
      split at h
      · exact absurd h (by simp)
      · rename_i beta hbs
        injection h with h
        subst h
        have hR : ∀ i < n + 1, ∀ t < n + 1, rd (memoArr (n + 1) (n + 1) (Ro Nf Om)) i t = Ro Nf Om i t :=
          fun i hi t ht => rd_memoArr _ _ _ i t hi ht
        have hS : ∀ o < Nref, ∀ i < n + 1, ∀ J < (n + 1) * Nch,
            rd ((Array.ofFn (n := Nref) fun o => memoArr (n + 1) ((n + 1) * Nch) (So Nch Nf Om (Sy o.1)))[o]!) i J
              = So Nch Nf Om (Sy o) i J := by
          intro o ho i hi J hJ
          rw [ofFn_get Nref _ o ho]
          exact rd_memoArr _ _ _ i J hi hJ
        have hXc := solveEach_sound _ _ _ _ Nref X hXs
        refine ⟨X, Z, ?_, ?_, ?_, ?_⟩
        · intro o ho i hi J hJ
          have := hXc o ho i hi J hJ
          rw [hS o ho i hi J hJ] at this
          rw [← this]
          apply sumTo_congr
          intro t ht
          rw [hR i hi t ht]
        · intro I hI J hJ
          show rd (memoArr _ _ _) I J = _
          rw [rd_memoArr _ _ _ I J hI hJ]
          unfold Mmat
          apply sumTo_congr
          intro o ho
          congr 1
          apply sumTo_congr
          intro t ht
          rw [hS o ho t ht I hI]
        · cases hi
          · simp only [Bool.false_eq_true, ↓reduceIte] at hZs ⊢
            exact ⟨fun I hI c hc => solveChecked_sound _ _ _ _ Z hZs I hI c hc, trivial⟩
          · simp only [↓reduceIte] at hZs ⊢
            exact ⟨fun I hI c hc => solveChecked_sound _ _ _ _ Z hZs I hI c hc, trivial⟩
        · intro o ho i hi' c hc
          have := solveEach_sound _ _ _ _ Nref beta hbs o ho i hi' c hc
          refine Eq.trans (sumTo_congr _ _ _ (fun t ht => ?_)) (Eq.trans this (sumTo_congr _ _ _ (fun J hJ => ?_)))
          · rw [hR i hi' t ht]
          · rw [hS o ho i hi' J hJ]

/-! ### padded tables -/
theorem le_foldl_max (l : List Nat) : ∀ init : Nat, init ≤ l.foldl max init ∧ ∀ x ∈ l, x ≤ l.foldl max init := by
  induction l with
  | nil => intro init; simp
  | cons a t ih =>
    intro init
    simp only [List.foldl_cons, List.mem_cons]
    have h := ih (max init a)
    refine ⟨le_trans (le_max_left _ _) h.1, ?_⟩
    intro x hx
    rcases hx with rfl | hx
    · exact le_trans (le_max_right _ _) h.1
    · exact h.2 x hx

/-- the cell `(r, k)` of a padded table; `none` = NaN (or outside the table) -/
def cellOf {β : Type} (t : List (List (Option β))) (r k : Nat) : Option β :=
  ((t[r]?).bind (fun row => row[k]?)).join

theorem zipLongest_length {β : Type} (cols : List (List (Option β))) :
    (zipLongest cols).length = (cols.map List.length).foldl max 0 := by
  unfold zipLongest; simp

theorem col_le_rows {β : Type} (cols : List (List (Option β))) (k : Nat) (hk : k < cols.length) :
    (cols[k]).length ≤ (zipLongest cols).length := by
  rw [zipLongest_length]
  apply (le_foldl_max _ 0).2
  simp only [List.mem_map]
  exact ⟨cols[k], List.getElem_mem hk, rfl⟩

theorem cellOf_zipLongest {β : Type} (cols : List (List (Option β))) (r k : Nat) (hk : k < cols.length) :
    cellOf (zipLongest cols) r k = ((cols[k])[r]?).join := by
  unfold cellOf
  by_cases hr : r < (zipLongest cols).length
  · have hr' := hr
    rw [zipLongest_length] at hr'
    unfold zipLongest
    simp [hr', hk]
  · have h1 : (zipLongest cols)[r]? = none := by
      rw [List.getElem?_eq_none_iff]; omega
    have h2 : (cols[k])[r]? = none := by
      rw [List.getElem?_eq_none_iff]
      have := col_le_rows cols k hk
      omega
    rw [h1, h2]; rfl


theorem cellOf_padPhi {β : Type} (cols : List (List (Option β))) (t : List (List (Option β)))
    (h : padPhi cols = .ok t) (r k : Nat) (hk : k < cols.length) :
    cellOf t r k = ((cols[k])[r]?).join := by
  unfold padPhi at h
  split at h
  · rename_i hl
    rw [List.getLast?_eq_none_iff] at hl
    subst hl
    simp at hk
  · rename_i last hl
    split at h
    · rename_i hall
      injection h with h
      subst h
      rw [List.all_eq_true] at hall
      have hle : (cols[k]).length ≤ last.length := by
        have := hall cols[k] (List.getElem_mem hk)
        exact of_decide_eq_true this
      unfold cellOf
      by_cases hr : r < last.length
      · simp [hr, hk]
      · have h2 : (cols[k])[r]? = none := by
          rw [List.getElem?_eq_none_iff]; omega
        rw [h2]
        simp [hr]
    · exact absurd h (by simp)

end PV.Plscf
