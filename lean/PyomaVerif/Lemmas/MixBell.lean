import PyomaVerif.Model.EfddAll
import PyomaVerif.Lemmas.Bell
import PyomaVerif.Lemmas.Covariance
import PyomaVerif.Lemmas.EfddAll
import PyomaVerif.Props.C07
import PyomaVerif.Props.C07Bell
/-!
# Lemmas for C08MixBell: EFDD / FSDD under a real orthogonal change of the channel basis

* bridge between the vocabulary of `Lemmas/Covariance.lean` (`OrthoOn`, `cmix`, `cconj`: real `Q`,
  `Finset.sum`) and that of `Lemmas/Bell.lean` (`IsUnitaryOn`, `applyM`, `conjBy`: complex `P`,
  `sumTo`);
* the bell of `SDOF_bellandMS` for a reference shape `c·Q·φ` (`c ≠ 0` complex), stored vectors
  `Q·S_vec` and spectral array `Q·Sy·Qᵀ`: the bell of the original run times a positive constant
  (`|c|²` for FSDD, `1` for EFDD);
* `normalise (Q·v)` is a non-zero complex multiple of `Q·normalise v`, and `NaN` exactly when
  `normalise v` is;
* the part of one pass of `EFDD_mpe` after the bell (`efddTail`) does not see a positive factor
  on the bell;
* `mapM` in `Except` preserves an element-wise relation.
-/
set_option linter.unusedSectionVars false
namespace PV.MixBell
open PV PV.Fdd PV.Efdd PV.Bell PV.Cov Finset

variable {K : Type} [Field K] [LinearOrder K] [IsStrictOrderedRing K]

/-! ### bridge -/

/-- the real matrix `Q` as a complex one -/
def cQ (Q : Nat → Nat → K) : Nat → Nat → Cx K := fun i j => Cx.ofReal (Q i j)

theorem cmix_eq_applyM (n : Nat) (Q : Nat → Nat → K) (U : Nat → Nat → Cx K) (i r : Nat) :
    cmix n Q U i r = applyM n (cQ Q) (fun a => U a r) i := by
  unfold cmix applyM cQ
  rw [sumTo_eq]

theorem cconj_eq_conjBy (n : Nat) (Q : Nat → Nat → K) (Sy : Nat → Nat → Nat → Cx K) (i j l : Nat) :
    cconj n Q (fun μ ν => Sy μ ν l) i j = conjBy n (cQ Q) Sy i j l := by
  unfold cconj conjBy cQ
  rw [sumTo_eq]
  apply Finset.sum_congr rfl; intro μ _
  rw [sumTo_eq]
  apply Finset.sum_congr rfl; intro ν _
  rw [Cx.conj_ofReal]

theorem ortho_unitary (n : Nat) (Q : Nat → Nat → K) (hQ : OrthoOn n Q) : IsUnitaryOn n (cQ Q) := by
  intro j k hj hk
  have e : ∀ i ∈ range n, Cx.conj (cQ Q i j) * cQ Q i k = Cx.ofReal (Q i j * Q i k) := by
    intro i _
    unfold cQ
    rw [Cx.conj_ofReal, Cx.ofReal_mul]
  rw [Finset.sum_congr rfl e, ← Bell.ofReal_sum, hQ j hj k hk]
  split_ifs
  · exact Bell.ofReal_one
  · exact Bell.ofReal_zero

/-! ### the reference shape is read on the first `n` channels only -/

theorem cdot_congr_left (n : Nat) (x x' a : Nat → Cx K) (h : ∀ i, i < n → x i = x' i) :
    cdot n x a = cdot n x' a := by
  rw [cdot_eq, cdot_eq]
  exact sum_congr rfl (fun i hi => by rw [h i (mem_range.mp hi)])

theorem mac_congr_left (n : Nat) (x x' a : Nat → Cx K) (h : ∀ i, i < n → x i = x' i) :
    mac n x a = mac n x' a := by
  rw [mac_eq, mac_eq, cdot_congr_left n x x' a h, nrm2_congr n x x' h]

theorem quadForm_congr (n : Nat) (phi phi' : Nat → Cx K) (Sy Sy' : Nat → Nat → Nat → Cx K) (l : Nat)
    (hp : ∀ i, i < n → phi i = phi' i) (hS : ∀ i, i < n → ∀ j, j < n → Sy i j l = Sy' i j l) :
    quadForm n phi Sy l = quadForm n phi' Sy' l := by
  rw [quadForm_eq, quadForm_eq]
  apply sum_congr rfl; intro j hj
  apply sum_congr rfl; intro i hi
  rw [hp i (mem_range.mp hi), hp j (mem_range.mp hj), hS i (mem_range.mp hi) j (mem_range.mp hj)]

/-- `(c·x)ᴴ·S·(c·x) = |c|²·xᴴ·S·x` -/
theorem quadForm_smul (n : Nat) (c : Cx K) (x : Nat → Cx K) (Sy : Nat → Nat → Nat → Cx K) (l : Nat) :
    quadForm n (fun i => c * x i) Sy l = Cx.smul (Cx.normSq c) (quadForm n x Sy l) := by
  rw [Bell.smul_eq, ← Bell.conj_mul_self, quadForm_eq, quadForm_eq, mul_sum]
  apply sum_congr rfl; intro j _
  rw [mul_sum]
  apply sum_congr rfl; intro i _
  rw [Cx.conj_mul]; ring

/-! ### the bell of the mixed run -/

/-- the positive factor the bell of the mixed run carries: `|c|²` for FSDD (the reference shape
    enters `φᴴ·Sy·φ` twice), `1` otherwise -/
def bellFactor (m : Method) (c : Cx K) : K := if m = .FSDD then Cx.normSq c else 1

theorem bellFactor_pos (m : Method) (c : Cx K) (hc : c ≠ 0) : 0 < bellFactor m c := by
  unfold bellFactor
  split_ifs
  · exact lt_of_le_of_ne (Cx.normSq_nonneg c) (fun h => hc (Cx.normSq_eq_zero.mp h.symm))
  · exact zero_lt_one

theorem smul_one' (z : Cx K) : Cx.smul 1 z = z := by ext <;> simp

/-- **the bell under orthogonal mixing.**  `Sy' = Q·Sy·Qᵀ` on the first `n` channels, stored vectors
    `Q·S_vec`, the same stored values, reference shape `φ' = c·Q·φ` on the first `n` channels
    (`c ≠ 0` complex — the two unit normalisations differ by such a factor): the MAC mask is the
    same on every line, and the bell is `bellFactor m c` times the bell of the original run. -/
theorem sdofBell_mix (m : Method) (n cm nf : Nat) (dt : K) (Q : Nat → Nat → K) (hQ : OrthoOn n Q)
    (Sy Sy' : Nat → Nat → Nat → Cx K) (Sval : Nat → Nat → Nat → K)
    (Svec Svec' : Nat → Nat → Nat → Cx K) (phi phi' : Nat → Cx K) (c : Cx K) (hc : c ≠ 0)
    (hS : ∀ l i, i < n → ∀ j, j < n → Sy' i j l = cconj n Q (fun μ ν => Sy μ ν l) i j)
    (hV : ∀ csm i l, i < n → Svec' csm i l = ∑ a ∈ range n, Cx.ofReal (Q i a) * Svec csm a l)
    (hp : ∀ i, i < n → phi' i = c * ∑ a ∈ range n, Cx.ofReal (Q i a) * phi a)
    (sel DF MAClim : K) (l : Nat) :
    (∀ csm, maskAt n phi' Svec' MAClim csm l = maskAt n phi Svec MAClim csm l) ∧
    sdofBell m n cm nf dt Sy' Sval Svec' phi' sel DF MAClim l
      = Cx.smul (bellFactor m c) (sdofBell m n cm nf dt Sy Sval Svec phi sel DF MAClim l) := by
  have hU := ortho_unitary n Q hQ
  have hp' : ∀ i, i < n → phi' i = c * applyM n (cQ Q) phi i := by
    intro i hi; rw [hp i hi, applyM_eq]; rfl
  have hV' : ∀ csm i, i < n → Svec' csm i l = applyM n (cQ Q) (fun a => Svec csm a l) i := by
    intro csm i hi; rw [hV csm i l hi, applyM_eq]; rfl
  have hmask : ∀ csm, maskAt n phi' Svec' MAClim csm l = maskAt n phi Svec MAClim csm l := by
    intro csm
    simp only [maskAt]
    rw [mac_congr_left n phi' _ _ hp', mac_congr_right n _ _ _ (hV' csm),
      mac_smul_left n c hc, mac_unitary n _ hU]
  refine ⟨hmask, ?_⟩
  have hval : ∀ csm, bellVal m n Sy' Sval phi' csm l
      = Cx.smul (bellFactor m c) (bellVal m n Sy Sval phi csm l) := by
    intro csm
    cases m with
    | FSDD =>
      show quadForm n phi' Sy' l = Cx.smul (bellFactor .FSDD c) (quadForm n phi Sy l)
      rw [quadForm_congr n phi' (fun i => c * applyM n (cQ Q) phi i) Sy' (conjBy n (cQ Q) Sy) l hp'
        (fun i hi j hj => by rw [hS l i hi j hj, cconj_eq_conjBy]),
        quadForm_smul, quadForm_unitary n _ hU]
      simp [bellFactor]
    | EFDD => simp [bellFactor, bellVal, smul_one']
    | other => simp [bellFactor, bellVal, smul_one']
  simp only [sdofBell, bellAt, hmask, hval]
  split_ifs
  · rw [← sumTo_smul]
    congr 1; funext csm
    split_ifs
    · rfl
    · exact (CxL.smul_zero _).symm
  · exact (CxL.smul_zero _).symm

/-! ### the unit normalisation of the mixed first-stage shape -/

/-- the component of largest modulus vanishes iff the whole vector does -/
theorem argmax_normSq_zero (n : Nat) (hn : 0 < n) (v : Nat → Cx K) :
    (v (argmaxTo n (fun i => (v i).normSq))).normSq = 0 ↔ ∀ i, i < n → v i = 0 := by
  constructor
  · intro h i hi
    have h1 := argmaxTo_le (fun i => (v i).normSq) i hi
    simp only [h] at h1
    exact Cx.normSq_eq_zero.mp (le_antisymm h1 (Cx.normSq_nonneg _))
  · intro h
    rw [h _ (argmaxTo_lt hn _)]
    exact Bell.normSq_zero

/-- `Q·v = 0 ↔ v = 0` on the first `n` channels -/
theorem mix_zero_iff (n : Nat) (Q : Nat → Nat → K) (hQ : OrthoOn n Q) (v : Nat → Cx K) :
    (∀ i, i < n → (∑ a ∈ range n, Cx.ofReal (Q i a) * v a) = 0) ↔ ∀ i, i < n → v i = 0 := by
  constructor
  · intro h k hk
    have := adj_apply n (cQ Q) (ortho_unitary n Q hQ) v k hk
    rw [← this]
    apply sum_eq_zero
    intro i hi
    rw [applyM_eq]
    have e : (∑ j ∈ range n, cQ Q i j * v j) = 0 := h i (mem_range.mp hi)
    rw [e, mul_zero]
  · intro h i _
    apply sum_eq_zero
    intro a ha
    rw [h a (mem_range.mp ha), mul_zero]

/-- how the shapes of the two runs are related: both NaN, or the shape of the mixed run is a
    non-zero complex multiple of `Q` times the shape of the original run (and has `n` entries) -/
def MixPhi (n : Nat) (Q : Nat → Nat → K) : Option (List (Cx K)) → Option (List (Cx K)) → Prop
  | none, none => True
  | some pl, some pl' => pl.length = n ∧ pl'.length = n ∧ ∃ c : Cx K, c ≠ 0 ∧ ∀ i, i < n →
      pl'.getD i 0 = c * ∑ a ∈ range n, Cx.ofReal (Q i a) * pl.getD a 0
  | _, _ => False

theorem getD_range_map (n : Nat) (w : Nat → Cx K) (i : Nat) (hi : i < n) :
    ((List.range n).map w).getD i 0 = w i := by
  simp [List.getD_eq_getElem?_getD, List.getElem?_map, List.getElem?_range hi]

/-- **`normalise` under mixing.**  `v' = Q·v` on the first `n` channels: `normalise v'` is NaN
    exactly when `normalise v` is; otherwise it is `c·Q·normalise v` with
    `c = v[k]/v'[k']` (`k`, `k'` the positions of the components of largest modulus). -/
theorem normalise_mix (n : Nat) (hn : 0 < n) (Q : Nat → Nat → K) (hQ : OrthoOn n Q) (v v' : Nat → Cx K)
    (hv : ∀ i, i < n → v' i = ∑ a ∈ range n, Cx.ofReal (Q i a) * v a) :
    MixPhi n Q ((Fdd.normalise n v).map (fun w => (List.range n).map w))
      ((Fdd.normalise n v').map (fun w => (List.range n).map w)) := by
  have hz : (v' (argmaxTo n (fun i => (v' i).normSq))).normSq = 0
      ↔ (v (argmaxTo n (fun i => (v i).normSq))).normSq = 0 := by
    rw [argmax_normSq_zero n hn, argmax_normSq_zero n hn, ← mix_zero_iff n Q hQ v]
    constructor
    · intro h i hi; rw [← hv i hi]; exact h i hi
    · intro h i hi; rw [hv i hi]; exact h i hi
  unfold Fdd.normalise
  by_cases h0 : (v (argmaxTo n (fun i => (v i).normSq))).normSq = 0
  · simp only [h0, hz.mpr h0, if_true, Option.map_none, MixPhi]
  · have h0' : ¬ (v' (argmaxTo n (fun i => (v' i).normSq))).normSq = 0 := fun h => h0 (hz.mp h)
    simp only [h0, h0', if_false, Option.map_some, MixPhi]
    set k := argmaxTo n (fun i => (v i).normSq)
    set k' := argmaxTo n (fun i => (v' i).normSq)
    have hk : v k ≠ 0 := fun h => h0 (by rw [h]; exact Bell.normSq_zero)
    have hk' : v' k' ≠ 0 := fun h => h0' (by rw [h]; exact Bell.normSq_zero)
    refine ⟨by simp, by simp, v k / v' k', div_ne_zero hk hk', ?_⟩
    intro i hi
    rw [getD_range_map n _ i hi, hv i hi]
    have e : ∀ a ∈ range n, Cx.ofReal (Q i a) * ((List.range n).map (fun i => v i / v k)).getD a 0
        = Cx.ofReal (Q i a) * v a * (v k)⁻¹ := by
      intro a ha
      rw [getD_range_map n _ a (mem_range.mp ha), div_eq_mul_inv, mul_assoc]
    rw [sum_congr rfl e, ← Finset.sum_mul]
    field_simp

/-! ### one pass of `EFDD_mpe` after the bell -/

/-- everything one pass of the loop of `EFDD_mpe` does once `SDOFbell` is known (`efddOne` from
    `np.where(SDOFbell)` on); `pl` is the first-stage shape that is appended -/
def efddTail (E : Ext K) (ms : SyMethod) (nf : Nat) (dt : K) (sppk npmax : Nat) (pl : List (Cx K))
    (bell : Nat → Cx K) : Except String (ModeAll K) :=
  let idSV := (List.range nf).filter (fun l => ¬ ((bell l).re = 0 ∧ (bell l).im = 0))
  let corr := E.ifft nf bell
  if corr (argmaxTo (5 * nf) corr) = 0 then .error "outside-model: zero correlation"
  else
    match postFft nf (normCorr (5 * nf) corr) dt sppk npmax with
    | .error e => .error e
    | .ok p =>
      if npmax = 0 then .error "IndexError: arrays used as indices must be of integer (or boolean) type"
      else
        let delta := p.ratios.map E.log
        let s := E.fit npmax (fun k => delta.getD k 0)
        let lam := lamOf ms nf (E.log (((1 : Nat) : K) / ((100 : Nat) : K))) s
        let xi := Efdd.xiOf E.sqrt E.pi lam
        .ok ⟨p.fd.map (fun fd => Efdd.fnOf E.sqrt fd xi), xi, pl, idSV, p, delta, lam⟩

/-- `efddOne` is the band check followed by `efddTail` on the bell of `SDOF_bellandMS` -/
theorem efddOne_eq_tail (E : Ext K) (m : Method) (ms : SyMethod) (nch cm nf : Nat) (dt : K)
    (Sy : Nat → Nat → Nat → Cx K) (DF2 MAClim : K) (sppk npmax : Nat) (sel : K) (pl : List (Cx K)) :
    efddOne E m ms nch cm nf dt Sy DF2 MAClim sppk npmax sel (some pl)
      = if (m = .FSDD ∨ m = .EFDD) ∧ 0 < cm ∧
            bandHi nf (bellFreq nf dt) sel DF2 ≤ bandLo nf (bellFreq nf dt) sel DF2 then
          .error "ValueError: operands could not be broadcast together"
        else efddTail E ms nf dt sppk npmax pl
          (efddBell E m nch cm nf dt Sy (fun i => pl.getD i 0) sel DF2 MAClim) := by
  simp only [efddOne, efddTail, efddBell, memoGet_memoArr]
  rfl

/-- replace the appended shape -/
def setPhi (pl : List (Cx K)) (mo : ModeAll K) : ModeAll K := { mo with phi := pl }

/-- **the tail does not see a positive factor on the bell** (inverse transform homogeneous for
    positive factors): same exception, or the same `fn`, `xi`, bell support, extrema, fitted
    indices, decrements, `lam`; the appended shape is the one handed in. -/
theorem efddTail_smul (E : Ext K) (ms : SyMethod) (nf : Nat) (dt : K) (sppk npmax : Nat)
    (pl pl' : List (Cx K)) (B : Nat → Cx K) (s : K) (hs : 0 < s)
    (hlin : ∀ (s : K) (b : Nat → Cx K), 0 < s →
      E.ifft nf (fun l => Cx.smul s (b l)) = fun i => s * E.ifft nf b i) :
    efddTail E ms nf dt sppk npmax pl' (fun l => Cx.smul s (B l))
      = (efddTail E ms nf dt sppk npmax pl B).map (setPhi pl') := by
  have hcz : ∀ x : K, s * x = 0 ↔ x = 0 := fun x =>
    ⟨fun hx => (mul_eq_zero.mp hx).resolve_left (ne_of_gt hs), fun hx => by rw [hx, mul_zero]⟩
  have hz : ∀ z : Cx K, ((Cx.smul s z).re = 0 ∧ (Cx.smul s z).im = 0) ↔ (z.re = 0 ∧ z.im = 0) := by
    intro z
    simp only [Cx.smul_re, Cx.smul_im, hcz]
  have hnc : normCorr (5 * nf) (fun i => s * E.ifft nf B i) = normCorr (5 * nf) (E.ifft nf B) := by
    funext i; exact C07.C07_normCorr_scale _ _ s hs i
  simp only [efddTail, hlin s B hs, hnc, argmaxTo_scale hs, hz, hcz]
  generalize E.ifft nf B = C
  by_cases hC : C (argmaxTo (5 * nf) C) = 0
  · simp only [hC, if_true]; rfl
  · simp only [hC, if_false]
    cases postFft nf (normCorr (5 * nf) C) dt sppk npmax with
    | error e => rfl
    | ok p =>
      by_cases hn : npmax = 0
      · simp only [hn, if_true]; rfl
      · simp only [hn, if_false]; rfl

/-! ### `mapM` in `Except` preserves an element-wise relation -/

/-- the same exception, or related values -/
def RelExcept {α β : Type} (T : α → β → Prop) : Except String α → Except String β → Prop
  | .error e, .error e' => e = e'
  | .ok a, .ok b => T a b
  | _, _ => False

theorem mapM_rel {α α' β β' : Type} (R : α → α' → Prop) (T : β → β' → Prop)
    (f : α → Except String β) (g : α' → Except String β')
    (hfg : ∀ x y, R x y → RelExcept T (f x) (g y)) :
    ∀ (xs : List α) (ys : List α'), List.Forall₂ R xs ys →
      RelExcept (List.Forall₂ T) (xs.mapM f) (ys.mapM g) := by
  intro xs ys h
  induction h with
  | nil => simp [RelExcept, pure, Except.pure]
  | @cons x y xs ys hxy _ ih =>
    rw [List.mapM_cons, List.mapM_cons]
    have h1 := hfg x y hxy
    cases hfx : f x with
    | error e =>
      cases hgy : g y with
      | error e' => rw [hfx, hgy] at h1; exact h1
      | ok b => rw [hfx, hgy] at h1; exact h1.elim
    | ok a =>
      cases hgy : g y with
      | error e' => rw [hfx, hgy] at h1; exact h1.elim
      | ok b =>
        rw [hfx, hgy] at h1
        cases hxs : xs.mapM f with
        | error e =>
          cases hys : ys.mapM g with
          | error e' => rw [hxs, hys] at ih; exact ih
          | ok bs => rw [hxs, hys] at ih; exact ih.elim
        | ok as =>
          cases hys : ys.mapM g with
          | error e' => rw [hxs, hys] at ih; exact ih.elim
          | ok bs =>
            rw [hxs, hys] at ih
            exact List.Forall₂.cons h1 ih

end PV.MixBell
