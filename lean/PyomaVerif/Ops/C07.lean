import PyomaVerif.Codec
import PyomaVerif.Model.Efdd
import PyomaVerif.Ops.C06
open Lean PV PV.Codec PV.Fdd PV.Efdd PV.Ops.C06
namespace PV.Ops.C07

def methodOf (s : String) : Method := if s = "FSDD" then .FSDD else if s = "EFDD" then .EFDD else .other
def syMethodOf (s : String) : SyMethod := if s = "cor" then .cor else if s = "per" then .per else .other

/-- `{"op":"sdof_bell","method","nch","cm","nf","dt","Sy":[i][j][l],"Sval":[csm][l],
     "Svec":[csm][i][l],"phi","sel","DF","MAClim","old":bool}` -/
def bellOp (j : Json) : Except String Json := do
  let m := methodOf (← strOfJson (← field j "method"))
  let nch ← natOfJson (← field j "nch")
  let cm ← natOfJson (← field j "cm")
  let nf ← natOfJson (← field j "nf")
  let dt ← ratOfJson (← field j "dt")
  let Sy ← arrOf (arrOf (arrOf cxOfJson)) (← field j "Sy")
  let Sv ← arrOf (arrOf ratOfJson) (← field j "Sval")
  let Svc ← arrOf (arrOf (arrOf cxOfJson)) (← field j "Svec")
  let phi ← arrOf cxOfJson (← field j "phi")
  let sel ← ratOfJson (← field j "sel")
  let DF ← ratOfJson (← field j "DF")
  let lim ← ratOfJson (← field j "MAClim")
  let SyF : Nat → Nat → Nat → Cx Rat := fun i k l => ((Sy[i]!)[k]!)[l]!
  let SvalF : Nat → Nat → Nat → Rat := fun i k l => if i = k then (Sv[i]!)[l]! else 0
  let SvecF : Nat → Nat → Nat → Cx Rat := fun i k l => ((Svc[i]!)[k]!)[l]!
  let phiF : Nat → Cx Rat := fun i => phi[i]!
  let lo := bandLo nf (bellFreq nf dt) sel DF
  let hi := bandHi nf (bellFreq nf dt) sel DF
  let bell := (List.range nf).map (sdofBell m nch cm nf dt SyF SvalF SvecF phiF sel DF lim)
  let mask := (List.range cm).map fun csm => (List.range nf).map fun l =>
    decide (lo ≤ l ∧ l < hi) && maskAt nch phiF SvecF lim csm l
  let macs := (List.range cm).map fun csm => (List.range nf).map fun l =>
    if lo ≤ l ∧ l < hi then some (mac nch phiF (fun i => SvecF csm i l)) else none
  pure (Json.mkObj [("lo", lo), ("hi", hi), ("bell", listToJson cxToJson bell),
    ("mask", listToJson (listToJson Json.bool) mask),
    ("mac", listToJson (listToJson oratToJson) macs)])

def normCorrOp (j : Json) : Except String Json := do
  let c ← arrOf ratOfJson (← field j "corr")
  let n := c.size
  pure (Json.mkObj [("argmax", argmaxTo n (fun i => c[i]!)),
    ("x", listToJson ratToJson ((List.range (n / 2)).map (normCorr n (fun i => c[i]!))))])

/-- `{"op":"efdd_post","nf","x":[…],"dt","sppk","npmax"}` -/
def postOp (j : Json) : Except String Json := do
  let nf ← natOfJson (← field j "nf")
  let x ← arrOf ratOfJson (← field j "x")
  let dt ← ratOfJson (← field j "dt")
  let sppk ← natOfJson (← field j "sppk")
  let npmax ← natOfJson (← field j "npmax")
  if x.size ≠ 5 * nf / 2 then throw "x must have length (5*nf)//2"
  match postFft nf (fun i => x[i]!) dt sppk npmax with
  | .error e => pure (Json.mkObj [("error", Json.str e)])
  | .ok p =>
    let nl (l : List Nat) : Json := listToJson (fun (n : Nat) => (n : Json)) l
    let rl (l : List Rat) : Json := listToJson ratToJson l
    pure (Json.mkObj [("zc", nl p.zc), ("maxs", rl p.maxs), ("mins", rl p.mins), ("minmax", rl p.minmax),
      ("minmax_idx", nl p.minmaxIdx), ("fit_vals", rl p.fitVals), ("fit_idx", nl p.fitIdx),
      ("Td", rl p.Td), ("Td_mean", oratToJson p.TdMean), ("fd", oratToJson p.fd), ("ratios", rl p.ratios)])

/-- `{"op":"efdd_fit","delta":[…],"method_sy","nf","log001"}`: closed-form slope and `lam` -/
def fitOp (j : Json) : Except String Json := do
  let d ← arrOf ratOfJson (← field j "delta")
  let ms := syMethodOf (← strOfJson (← field j "method_sy"))
  let nf ← natOfJson (← field j "nf")
  let l001 ← ratOfJson (← field j "log001")
  let s := slope d.size (fun k => d[k]!)
  pure (Json.mkObj [("slope", ratToJson s), ("lam", ratToJson (lamOf ms nf l001 s))])

/-- `{"op":"efdd_xifn","lam","pi","sqrt1","fd","sqrt2"}`: `xi = lam/sqrt1`, `fn = fd/sqrt2`; the two
    square roots are evaluated by the caller in floating point at the arguments the model
    prescribes (`arg1`, `arg2` are returned for that comparison). -/
def xifnOp (j : Json) : Except String Json := do
  let lam ← ratOfJson (← field j "lam")
  let pi ← ratOfJson (← field j "pi")
  let s1 ← ratOfJson (← field j "sqrt1")
  let fd ← oratOfJson (← field j "fd")
  let s2 ← ratOfJson (← field j "sqrt2")
  let xi := xiOf (fun _ => s1) pi lam
  pure (Json.mkObj [("arg1", ratToJson (((4 : Nat) : Rat) * (pi * pi) + lam * lam)), ("xi", ratToJson xi),
    ("arg2", ratToJson (((1 : Nat) : Rat) - xi * xi)),
    ("fn", oratToJson (fd.map (fun f => fnOf (fun _ => s2) f xi)))])

def timeOp (j : Json) : Except String Json := do
  let nf ← natOfJson (← field j "nf")
  let dt ← ratOfJson (← field j "dt")
  pure (Json.mkObj [("step", ratToJson (timeStep nf dt)), ("true_step", ratToJson (trueStep nf dt)),
    ("n", (5 * nf / 2 : Nat))])

/-- `{"op":"efdd_ifft","nf","bell":[nf],"tw":[5·nf],"rs","ts":[…]}`: the model `ifftRe` of
    `np.fft.ifft(SDOFbell, n=5·nf, axis=0, norm="ortho").real` at the lags `ts`; the twiddle table
    `tw[m] = exp(2πi·m/(5·nf))` and `rs = 1/√(5·nf)` are evaluated by the caller. -/
def ifftOp (j : Json) : Except String Json := do
  let nf ← natOfJson (← field j "nf")
  let bell ← arrOf cxOfJson (← field j "bell")
  let tw ← arrOf cxOfJson (← field j "tw")
  let rs ← ratOfJson (← field j "rs")
  let ts ← arrOf natOfJson (← field j "ts")
  if bell.size ≠ nf then throw "bell must have length nf"
  if tw.size ≠ 5 * nf then throw "tw must have length 5*nf"
  pure (Json.mkObj [("vals", listToJson ratToJson
    (ts.toList.map (ifftRe nf (fun m => tw[m]!) rs (fun l => bell[l]!))))])

def ops : List (String × (Json → Except String Json)) :=
  [("sdof_bell", bellOp), ("norm_corr", normCorrOp), ("efdd_post", postOp), ("efdd_fit", fitOp), ("efdd_xifn", xifnOp),
   ("efdd_time", timeOp), ("efdd_ifft", ifftOp)]

end PV.Ops.C07
