import PyomaVerif.Codec
import PyomaVerif.Model.Fdd
open Lean PV PV.Codec PV.Fdd
namespace PV.Ops.C06

def cxOfJson (j : Json) : Except String (Cx Rat) := do
  let a ← j.getArr?
  if a.size = 2 then
    let re ← ratOfJson a[0]!
    let im ← ratOfJson a[1]!
    pure ⟨re, im⟩
  else throw "complex pair expected"

def cxToJson (z : Cx Rat) : Json := Json.arr #[ratToJson z.re, ratToJson z.im]

instance : Inhabited (Cx Rat) := ⟨⟨0, 0⟩⟩

def modeToJson (m : ModeOut Rat) : Json :=
  Json.mkObj [("lo", m.pick.lo), ("hi", m.pick.hi), ("idx", m.pick.idx), ("mx", ratToJson m.pick.mx),
    ("fn", ratToJson m.fn),
    ("phi", match m.phi with | none => Json.null | some v => listToJson cxToJson v)]

/-- `{"op":"fdd_mpe","nch","nref","freq","s1","s2","svec0":[line][chan],"sel","DF"}` -/
def fddMpeOp (j : Json) : Except String Json := do
  let nch ← natOfJson (← field j "nch")
  let nref ← natOfJson (← field j "nref")
  let freq ← arrOf ratOfJson (← field j "freq")
  let s1 ← arrOf ratOfJson (← field j "s1")
  let s2 ← arrOf ratOfJson (← field j "s2")
  let sv ← arrOf (arrOf cxOfJson) (← field j "svec0")
  let sel ← listOf ratOfJson (← field j "sel")
  let DF ← ratOfJson (← field j "DF")
  let Sval : Nat → Nat → Nat → Rat := fun i k l =>
    if i = 0 ∧ k = 0 then s1[l]! else if i = 1 ∧ k = 1 then s2[l]! else 0
  let Svec : Nat → Nat → Nat → Cx Rat := fun i k l => if i = 0 then (sv[l]!)[k]! else 0
  match fddMpe nch nref freq.size (fun i => freq[i]!) Sval Svec sel DF with
  | .error e => pure (Json.mkObj [("error", Json.str e)])
  | .ok l => pure (Json.mkObj [("modes", listToJson modeToJson l)])

/-- `{"op":"svalsvec_place","nr","nc","sq":[line][i],"U":[line][r][c]}` → `Sval[i][j][k]`, `Svec[i][j][k]` -/
def placeOp (j : Json) : Except String Json := do
  let nr ← natOfJson (← field j "nr")
  let nc ← natOfJson (← field j "nc")
  let sq ← arrOf (arrOf ratOfJson) (← field j "sq")
  let U ← arrOf (arrOf (arrOf cxOfJson)) (← field j "U")
  let nf := sq.size
  let Sval := svalPlace (fun k i => (sq[k]!)[i]!)
  let Svec := svecPlace (fun k r c => ((U[k]!)[r]!)[c]!)
  let r3 {α} (a b c : Nat) (f : Nat → Nat → Nat → α) (g : α → Json) : Json :=
    listToJson (fun i => listToJson (fun jj => listToJson (fun k => g (f i jj k)) (List.range c)) (List.range b)) (List.range a)
  pure (Json.mkObj [("Sval", r3 nc nc nf Sval ratToJson), ("Svec", r3 nr nr nf Svec cxToJson)])

def ops : List (String × (Json → Except String Json)) :=
  [("fdd_mpe", fddMpeOp), ("svalsvec_place", placeOp)]

end PV.Ops.C06
