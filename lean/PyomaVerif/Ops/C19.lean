import PyomaVerif.Codec
import PyomaVerif.Model.Geo
open Lean PV PV.Codec PV.Geo
namespace PV.Ops.C19

/-! JSON forms: cell = `null` (NaN) | `["n","p/q"]` | `["s","text"]`;
table = `{"index":[..],"cols":[..],"cells":[[cell]]}`;
names = `{"form":"table","rows":[[str|null]]}` | `{"form":"list"|"array","v":[str]}` |
`{"form":"listlist","v":[[str]]}` | `{"form":"other"}`; `ref_ind` = `null` | `[[nat]]`. -/

def cellOfJson (j : Json) : Except String Cell :=
  match j with
  | .null => pure .nan
  | .arr #[.str "n", q] => do pure (.num (← ratOfJson q))
  | .arr #[.str "s", .str s] => pure (.str s)
  | _ => throw "bad cell"

def cellToJson : Cell → Json
  | .nan => .null
  | .num q => .arr #[.str "n", ratToJson q]
  | .str s => .arr #[.str "s", .str s]

def rowsToJson (c : List (List Cell)) : Json := listToJson (listToJson cellToJson) c

def orowsToJson : Option (List (List Cell)) → Json
  | none => .null
  | some c => rowsToJson c

def tblOfJson (j : Json) : Except String Tbl := do
  let index ← listOf strOfJson (← field j "index")
  let cols ← listOf strOfJson (← field j "cols")
  let cells ← listOf (listOf cellOfJson) (← field j "cells")
  pure ⟨index, cols, cells⟩

def tblToJson (t : Tbl) : Json :=
  Json.mkObj [("index", listToJson Json.str t.index), ("cols", listToJson Json.str t.cols),
    ("cells", rowsToJson t.cells)]

def otblToJson : Option Tbl → Json
  | none => .null
  | some t => tblToJson t

def nameOfJson (j : Json) : Except String Geo.Name :=
  match j with
  | .null => pure none
  | .str s => pure (some s)
  | _ => throw "bad name"

def nameToJson : Geo.Name → Json
  | none => .null
  | some s => .str s

def namesOfJson (j : Json) : Except String NamesArg := do
  let form ← strOfJson (← field j "form")
  match form with
  | "table" => pure (.table (← listOf (listOf nameOfJson) (← field j "rows")))
  | "list" => pure (.list (← listOf strOfJson (← field j "v")))
  | "array" => pure (.array (← listOf strOfJson (← field j "v")))
  | "listlist" => pure (.listList (← listOf (listOf strOfJson) (← field j "v")))
  | "other" => pure .other
  | _ => throw "bad names form"

def refOfJson (j : Json) : Except String (Option (List (List Nat))) :=
  match j with
  | .null => pure none
  | _ => do pure (some (← listOf (listOf natOfJson) j))

def whyStr (w : Why) : String := (reprStr w).replace "PV.Geo.Why." ""

def errToJson : GeoErr → Json
  | .valueError w => Json.mkObj [("err", "ValueError"), ("why", whyStr w)]
  | .keyError => Json.mkObj [("err", "KeyError")]
  | .attributeError => Json.mkObj [("err", "AttributeError")]
  | .indexError => Json.mkObj [("err", "IndexError")]
  | .typeError => Json.mkObj [("err", "TypeError")]

def resToJson {α} (f : α → Json) : Except GeoErr α → Json
  | .ok a => Json.mkObj [("ok", f a)]
  | .error e => errToJson e

def fdOfJson (j : Json) : Except String FileDict := do
  let nm ← match (← field j "names") with
    | .null => pure none
    | x => do pure (some (← namesOfJson x))
  let tb ← listOf (fun p => do
    let a ← p.getArr?
    if h : a.size = 2 then
      pure ((← strOfJson a[0]), (← tblOfJson a[1]))
    else throw "bad sheet pair") (← field j "tbls")
  pure ⟨nm, tb⟩

def out1ToJson (o : Out1) : Json :=
  Json.mkObj [("names", listToJson nameToJson o.names), ("coordCols", listToJson Json.str o.coordCols),
    ("coord", rowsToJson o.coord), ("dir", rowsToJson o.dir), ("lines", orowsToJson o.lines),
    ("bgNodes", orowsToJson o.bgNodes), ("bgLines", orowsToJson o.bgLines), ("bgSurf", orowsToJson o.bgSurf)]

def out2ToJson (o : Out2) : Json :=
  Json.mkObj [("names", listToJson nameToJson o.names), ("pts", otblToJson o.pts), ("map", otblToJson o.map),
    ("cstr", otblToJson o.cstr), ("sign", otblToJson o.sign), ("lines", orowsToJson o.lines),
    ("surf", orowsToJson o.surf), ("bgNodes", orowsToJson o.bgNodes), ("bgLines", orowsToJson o.bgLines),
    ("bgSurf", orowsToJson o.bgSurf)]

def flattenOp (j : Json) : Except String Json := do
  let nm ← namesOfJson (← field j "names")
  let r ← refOfJson (fieldD j "ref_ind" .null)
  pure (resToJson (listToJson nameToJson) (flattenNames nm r))

def geo1Op (j : Json) : Except String Json := do
  let fd ← fdOfJson (← field j "fd")
  let r ← refOfJson (fieldD j "ref_ind" .null)
  pure (resToJson out1ToJson (checkGeo1 fd r))

def geo2Op (j : Json) : Except String Json := do
  let fd ← fdOfJson (← field j "fd")
  let r ← refOfJson (fieldD j "ref_ind" .null)
  pure (resToJson out2ToJson (checkGeo2 fd r))

def arrArgOfJson (j : Json) : Except String ArrArg := do
  pure ⟨← tblOfJson (← field j "t"), ← boolOfJson (← field j "arr")⟩

def oarrArg (j : Json) (k : String) : Except String (Option ArrArg) :=
  match fieldD j k .null with
  | .null => pure none
  | x => do pure (some (← arrArgOfJson x))

def defGeo1Op (j : Json) : Except String Json := do
  let nm ← namesOfJson (← field j "names")
  let r ← refOfJson (fieldD j "ref_ind" .null)
  let co ← tblOfJson (← field j "coord")
  let di ← arrArgOfJson (← field j "dir")
  pure (resToJson out1ToJson
    (defGeo1 nm co di (← oarrArg j "lines") (← oarrArg j "bgNodes") (← oarrArg j "bgLines") (← oarrArg j "bgSurf") r))

def defGeo2Op (j : Json) : Except String Json := do
  let nm ← namesOfJson (← field j "names")
  let r ← refOfJson (fieldD j "ref_ind" .null)
  let pt ← tblOfJson (← field j "pts")
  let mp ← tblOfJson (← field j "map")
  pure (resToJson out2ToJson
    (defGeo2 nm pt mp (← oarrArg j "cstr") (← oarrArg j "sign") (← oarrArg j "lines") (← oarrArg j "surf")
      (← oarrArg j "bgNodes") (← oarrArg j "bgLines") (← oarrArg j "bgSurf") r))

def omatToJson (m : List (List (Option Rat))) : Json := listToJson (listToJson oratToJson) m

/-- `{"phi":[..],"names":[..],"map":tbl,"cstr":tbl|null,"coord":[[cell]],"sign":[[cell]]}` →
    mapped values and displaced coordinates. -/
def mapPhiOp (j : Json) : Except String Json := do
  let phi ← listOf ratOfJson (← field j "phi")
  let names ← listOf nameOfJson (← field j "names")
  let mp ← tblOfJson (← field j "map")
  let cs ← match fieldD j "cstr" .null with
    | .null => pure none
    | x => do pure (some (← tblOfJson x))
  let coord ← listOf (listOf cellOfJson) (← field j "coord")
  let sign ← listOf (listOf cellOfJson) (← field j "sign")
  pure (resToJson (fun m => Json.mkObj [("mapped", omatToJson m), ("disp", omatToJson (displace coord m sign))])
    (mapPhi phi names mp cs))

def orowToJson (r : List (Option Rat)) : Json := listToJson oratToJson r

/-- the arguments of `c19_defgeo1` plus `"phi":[..]`, `"scale":"p/q"` → the arrows `[[start, end]]`
    of `def_geo1` followed by `plot_mode_geo1` -/
def plotGeo1Op (j : Json) : Except String Json := do
  let nm ← namesOfJson (← field j "names")
  let r ← refOfJson (fieldD j "ref_ind" .null)
  let co ← tblOfJson (← field j "coord")
  let di ← arrArgOfJson (← field j "dir")
  let phi ← listOf ratOfJson (← field j "phi")
  let sc ← ratOfJson (← field j "scale")
  pure (resToJson (listToJson fun a => Json.arr #[orowToJson a.1, orowToJson a.2])
    (defPlotGeo1 nm co di (← oarrArg j "lines") (← oarrArg j "bgNodes") (← oarrArg j "bgLines")
      (← oarrArg j "bgSurf") r phi sc))

/-- the arguments of `c19_defgeo2` plus `"phi"`, `"scale"` → the points of `def_geo2` followed by
    `plot_mode_geo2_mpl` -/
def plotGeo2Op (j : Json) : Except String Json := do
  let nm ← namesOfJson (← field j "names")
  let r ← refOfJson (fieldD j "ref_ind" .null)
  let pt ← tblOfJson (← field j "pts")
  let mp ← tblOfJson (← field j "map")
  let phi ← listOf ratOfJson (← field j "phi")
  let sc ← ratOfJson (← field j "scale")
  pure (resToJson omatToJson
    (defPlotGeo2 nm pt mp (← oarrArg j "cstr") (← oarrArg j "sign") (← oarrArg j "lines") (← oarrArg j "surf")
      (← oarrArg j "bgNodes") (← oarrArg j "bgLines") (← oarrArg j "bgSurf") r phi sc))

def ops : List (String × (Json → Except String Json)) :=
  [("c19_flatten", flattenOp), ("c19_geo1", geo1Op), ("c19_geo2", geo2Op),
   ("c19_defgeo1", defGeo1Op), ("c19_defgeo2", defGeo2Op), ("c19_mapphi", mapPhiOp),
   ("c19_plotgeo1", plotGeo1Op), ("c19_plotgeo2", plotGeo2Op)]

end PV.Ops.C19
