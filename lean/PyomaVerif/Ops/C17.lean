import PyomaVerif.Codec
import PyomaVerif.Model.Hankel
import PyomaVerif.Model.Unc
import PyomaVerif.Model.Cpx
import PyomaVerif.Ops.C02
open Lean PV PV.Codec PV.Unc
namespace PV.Ops.C17

def vecOfJson (j : Json) : Except String (Nat → Rat) := do
  let a ← arrOf ratOfJson j
  pure fun i => a.getD i 0

def vecToJson (n : Nat) (x : Nat → Rat) : Json :=
  Json.arr ((List.range n).map fun i => ratToJson (x i)).toArray

/-- `{"op":"unc_factor","Y":..,"Yref":..,"p":..,"nb":..}` → status, `H` and `T·sqrt(nb(nb−1))`
    (model run with `s0 = 1`, `s = 1`; both results are bilinear in `(Yf, Yp)`, so the exact
    `s0² = 1/N` is applied afterwards). -/
def uncFactor (j : Json) : Except String Json := do
  let Y ← matOfJson (← field j "Y")
  let Yr ← matOfJson (← field j "Yref")
  let p ← natOfJson (← field j "p")
  let nb ← natOfJson (← field j "nb")
  let N := Y.c - p - (p + 1)
  let byN (M : Mat Rat) : Mat Rat := ⟨M.r, M.c, fun i k => M.e i k / (N : Rat)⟩
  let (H, F) := buildHankUnc Y Yr p nb 1 1
  match F with
  | .zeroDiv => pure (Json.mkObj [("status", "zerodiv")])
  | .nonFinite => pure (Json.mkObj [("status", "nonfinite")])
  | .ok T =>
    pure (Json.mkObj [("status", "ok"), ("H", matToJson ratToJson (byN H)),
      ("T", matToJson ratToJson (byN T))])

/-- `{"op":"unc_vec","H":..}` → `reshape(-1, order="F")`, `reshape(-1)` -/
def uncVec (j : Json) : Except String Json := do
  let H ← matOfJson (← field j "H")
  pure (Json.mkObj [("F", vecToJson (H.r * H.c) (vecC H)), ("C", vecToJson (H.r * H.c) (vecR H))])

/-- `{"op":"unc_kron_sel","c":..,"n":..,"u":..,"v":..,"T":..}` →
    `dot(kron(eye(c), u.T), T)`, `dot(kron(v.T, eye(n)), T)` -/
def uncKronSel (j : Json) : Except String Json := do
  let c ← natOfJson (← field j "c")
  let n ← natOfJson (← field j "n")
  let u ← vecOfJson (← field j "u")
  let v ← vecOfJson (← field j "v")
  let T ← matOfJson (← field j "T")
  pure (Json.mkObj [("Ti1", matToJson ratToJson (Mat.mul (selIU c n u) T)),
    ("Ti2", matToJson ratToJson (Mat.mul (selVI c n v) T)),
    ("K1", matToJson ratToJson (selIU c n u)), ("K2", matToJson ratToJson (selVI c n v))])

/-- `{"op":"unc_vom","Vt":..,"ordmax":..}` → `V1_t[:ordmax, :].T` -/
def uncVom (j : Json) : Except String Json := do
  let Vt ← matOfJson (← field j "Vt")
  let o ← natOfJson (← field j "ordmax")
  pure (matToJson ratToJson (vom Vt o))

/-- `{"op":"unc_q","H","T","Op","Om","l","r","p","ordmax","U","Vt","sig","rs","Ki":[..]}` →
    the `inv` arguments of eq. 28 and `Q1..Q4`. -/
def uncQ (j : Json) : Except String Json := do
  let H ← matOfJson (← field j "H")
  let T ← matOfJson (← field j "T")
  let Op ← matOfJson (← field j "Op")
  let Om ← matOfJson (← field j "Om")
  let l ← natOfJson (← field j "l")
  let r ← natOfJson (← field j "r")
  let p ← natOfJson (← field j "p")
  let o ← natOfJson (← field j "ordmax")
  let U ← matOfJson (← field j "U")
  let Vt ← matOfJson (← field j "Vt")
  let sig ← vecOfJson (← field j "sig")
  let rs ← vecOfJson (← field j "rs")
  let Kis ← arrOf matOfJson (← field j "Ki")
  let V := vom Vt o
  let Uom := Mat.colSlice U 0 o
  let Ki : Nat → Mat Rat := fun ii => Kis.getD ii (zeros 0 0)
  let (Q1, Q2, Q3, Q4) := q1234 H T Op Om l r p o Uom V sig rs Ki
  let args := (List.range o).map fun ii => matToJson ratToJson (kiArg H ((p + 1) * r) (col V ii) (sig ii))
  pure (Json.mkObj [("KiArg", Json.arr args.toArray),
    ("Q1", matToJson ratToJson Q1), ("Q2", matToJson ratToJson Q2),
    ("Q3", matToJson ratToJson Q3), ("Q4", matToJson ratToJson Q4)])

/-- `{"op":"unc_var","J":..,"wr":..,"wi":..,"Q":..}` → `cov_fx[0,0]` and the per-column values -/
def uncVar (j : Json) : Except String Json := do
  let J ← matOfJson (← field j "J")
  let wr ← vecOfJson (← field j "wr")
  let wi ← vecOfJson (← field j "wi")
  let Q ← matOfJson (← field j "Q")
  let U := (ufx J wr wi Q).force
  pure (Json.mkObj [("var", ratToJson (var00 U)),
    ("cols", vecToJson Q.c (fun k => var00 (ufx J wr wi (colOf Q k)))),
    ("Ufx", matToJson ratToJson U)])

instance : One (Cpx Rat) := ⟨⟨1, 0⟩⟩

def cvecOfJson (j : Json) : Except String (Nat → Cpx Rat) := do
  let a ← arrOf PV.Ops.C02.cpxOfJson j
  pure fun i => a.getD i 0

/-- `{"op":"unc_pole","Q1","Q2","Q3","OO","Obs","l","n","ordmax","lam":[re,im],"chi":[..],"phi":[..],
    "lamc":[re,im],"pi","dt","absd","absc"}` → one `(jj, ii = n)` pass of the uncertainty loop of
    `SSI_poles`: `Pnn`, `S4_n`, the `inv` argument, `PnQ1`, `PnQ2_Q3`, `Qi`, `JaohT`, `Jfx_l`, `Ufx`,
    `cov_fx[0,0]`.  `chi = conj(l_eigvt[:, jj])`, `phi = r_eigvt[:, jj]`, `lam = lam_d[jj]`. -/
def uncPole (j : Json) : Except String Json := do
  let Q1 ← matOfJson (← field j "Q1")
  let Q2 ← matOfJson (← field j "Q2")
  let Q3 ← matOfJson (← field j "Q3")
  let OO ← matOfJson (← field j "OO")
  let Obs ← matOfJson (← field j "Obs")
  let l ← natOfJson (← field j "l")
  let n ← natOfJson (← field j "n")
  let o ← natOfJson (← field j "ordmax")
  let lam ← PV.Ops.C02.cpxOfJson (← field j "lam")
  let lamc ← PV.Ops.C02.cpxOfJson (← field j "lamc")
  let chi ← cvecOfJson (← field j "chi")
  let phi ← cvecOfJson (← field j "phi")
  let pi ← ratOfJson (← field j "pi")
  let dt ← ratOfJson (← field j "dt")
  let absd ← ratOfJson (← field j "absd")
  let absc ← ratOfJson (← field j "absc")
  let ι : Rat → Cpx Rat := Cpx.ofReal
  let P1 := pnQ1 n o Q1
  let P23 := pnQ23 n o Q2 Q3
  let Qi := qiOf ι n phi lam P1 P23
  let Ja := jaohT ι n chi phi OO Qi
  let J := jfx pi dt absd absc lamc.re lamc.im lam.re lam.im
  let U := ufxOf Cpx.re Cpx.im J Ja
  pure (Json.mkObj [
    ("Pnn", matToJson ratToJson (pnn n : Mat Rat)),
    ("S4n", matToJson ratToJson (s4n n o : Mat Rat)),
    ("ooArg", matToJson ratToJson (ooArg Obs l n)),
    ("PnQ1", matToJson ratToJson P1), ("PnQ23", matToJson ratToJson P23),
    ("Qi", matToJson PV.Ops.C02.cpxToJson Qi),
    ("JaohT", matToJson PV.Ops.C02.cpxToJson Ja),
    ("Jfx", matToJson ratToJson J),
    ("Ufx", matToJson ratToJson U),
    ("var", ratToJson (poleVar ι Cpx.re Cpx.im n o Q1 Q2 Q3 OO lam chi phi J))])

def ops : List (String × (Json → Except String Json)) :=
  [("unc_pole", uncPole), ("unc_factor", uncFactor), ("unc_vec", uncVec), ("unc_kron_sel", uncKronSel),
   ("unc_vom", uncVom), ("unc_q", uncQ), ("unc_var", uncVar)]

end PV.Ops.C17
