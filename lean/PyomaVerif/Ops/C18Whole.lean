import PyomaVerif.Codec
import PyomaVerif.Model.Indicators
import PyomaVerif.Model.RatSqrt
/-!
Driver operation for the WHOLE of `gen.MPC` (depth round 2, runner-up gap C18): the model function
`mpcEig?` (covariance, no-scatter branch, eigenvalues of the 2×2 covariance in closed form, ratio)
run over exact rationals.  The square root inside the closed-form eigenvalues is `ratSqrt` (Model/RatSqrt.lean): the
floor of the square root at 2⁻²⁰⁰ relative resolution, in integer arithmetic (the value of
`mpcEig?` for ANY square-root function is `sqrt(disc)² / (a+d)²` — `C18_mpcEig_any_sqrt`).
-/
open Lean PV PV.Codec
namespace PV.Ops.C18Whole

def cxOfJson (j : Json) : Except String (Cx Rat) := do
  let a ← arrOf ratOfJson j
  if a.size = 2 then pure ⟨a[0]!, a[1]!⟩ else throw "complex = [re, im] expected"

/-- `{"op":"c18_mpc_whole","phi":[[re,im],..]}` → `mpcEig? ratSqrt n φ`, the covariance and the two
    closed-form eigenvalues it went through -/
def mpcWholeOp (j : Json) : Except String Json := do
  let a ← arrOf cxOfJson (← field j "phi")
  let n := a.size
  let φ : Nat → Cx Rat := fun k => a[k]!
  let S := cov2 n φ
  let l := S.eigvals ratSqrt
  pure (Json.mkObj [("mpc", oratToJson (mpcEig? ratSqrt n φ)),
    ("S", listToJson ratToJson [S.a, S.b, S.d]), ("l0", ratToJson l.1), ("l1", ratToJson l.2)])

def ops : List (String × (Json → Except String Json)) :=
  [("c18_mpc_whole", mpcWholeOp)]

end PV.Ops.C18Whole
