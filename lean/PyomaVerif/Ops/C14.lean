import PyomaVerif.Codec
import PyomaVerif.Model.Prep
import PyomaVerif.Model.PrepAlgs
/-! Driver operations for C14: replay an operation list on the model of `SingleSetup` /
`MultiSetup_PreGER` and report the observed fields and the symbolic terms after every call. -/
open Lean PV PV.Codec PV.Prep
namespace PV.Ops.C14

def has (j : Json) (k : String) : Bool :=
  match j.getObjVal? k with
  | .ok _ => true
  | .error _ => false

def ftypeOf : String → FType
  | "iir" => .iir
  | "fir" => .fir
  | _ => .bad
def dtypeOf : String → DType
  | "linear" => .linear
  | "constant" => .constant
  | _ => .bad
def btypeOf : String → Except String BType
  | "lowpass" => pure .lowpass
  | "highpass" => pure .highpass
  | "bandpass" => pure .bandpass
  | "bandstop" => pure .bandstop
  | s => throw s!"btype {s}"

def decKwOf (j : Json) : Except String DecKwIn := do
  let n : Option (Option Nat) ←
    if has j "n" then do
      let v ← field j "n"
      match v with
      | .null => pure (some none)
      | _ => do let k ← natOfJson v; pure (some (some k))
    else pure none
  let ftype ← if has j "ftype" then do pure (some (ftypeOf (← strOfJson (← field j "ftype")))) else pure none
  let zp ← if has j "zero_phase" then do pure (some (← boolOfJson (← field j "zero_phase"))) else pure none
  if has j "axis" then
    let a ← natOfJson (← field j "axis")
    if a ≠ 0 then throw "axis must be 0"
  pure { n := n, ftype := ftype, axis0 := has j "axis", zeroPhase := zp, bogus := has j "bogus" }

def detKwOf (j : Json) : Except String DetKwIn := do
  let ty ← if has j "type" then do pure (some (dtypeOf (← strOfJson (← field j "type")))) else pure none
  let bp : Option (List Nat) ←
    if has j "bp" then do
      let v ← field j "bp"
      match v with
      | .arr _ => do pure (some (← listOf natOfJson v))
      | _ => do pure (some [← natOfJson v])
    else pure none
  let ow ← if has j "overwrite_data" then do pure (some (← boolOfJson (← field j "overwrite_data"))) else pure none
  pure { type := ty, bp := bp, axis0 := has j "axis", bogus := has j "bogus", overwriteData := ow }

def wnOf (j : Json) : Except String Wn := do
  let l ← listOf ratOfJson j
  match l with
  | [w] => pure (.one w)
  | [a, b] => pure (.two a b)
  | _ => throw "Wn arity"

def opOf (j : Json) : Except String Op := do
  let k ← strOfJson (← field j "k")
  match k with
  | "decimate" => do
      let q ← natOfJson (← field j "q")
      let kw ← decKwOf (fieldD j "kw" (Json.mkObj []))
      pure (.decimate q kw)
  | "detrend" => do pure (.detrend (← detKwOf (fieldD j "kw" (Json.mkObj []))))
  | "filter" => do
      let wn ← wnOf (← field j "Wn")
      let o ← natOfJson (← field j "order")
      let bt ← btypeOf (← strOfJson (← field j "btype"))
      pure (.filter wn o bt)
  | "rollback" => pure .rollback
  | "add" => pure .add
  | s => throw s!"op kind {s}"

def variantOf (j : Json) : Except String Variant :=
  match j with
  | .str "fixed" => pure Variant.fixed
  | .str "pinned" => pure Variant.pinned
  | .str "current" => pure Variant.current
  | .null => pure Variant.current
  | _ => do
      pure { helperTS := (← boolOfJson (fieldD j "helperTS" (Json.bool false)))
             helperTM := (← boolOfJson (fieldD j "helperTM" (Json.bool false)))
             staleDt := (← boolOfJson (fieldD j "staleDt" (Json.bool false)))
             forgetDatasets := (← boolOfJson (fieldD j "forgetDatasets" (Json.bool false)))
             dupKw := (← boolOfJson (fieldD j "dupKw" (Json.bool false))) }

def natsToJson (l : List Nat) : Json := listToJson (fun (n : Nat) => Json.num (n : Int)) l

def ftypeStr : FType → String | .iir => "iir" | .fir => "fir" | .bad => "bad"
def dtypeStr : DType → String | .linear => "linear" | .constant => "constant" | .bad => "bad"
def btypeStr : BType → String
  | .lowpass => "lowpass" | .highpass => "highpass" | .bandpass => "bandpass" | .bandstop => "bandstop"

def termToJson : Prep.Term → Json
  | .init i => Json.mkObj [("k", "init"), ("i", Json.num (i : Int))]
  | .dec q kw t => Json.mkObj [("k", "dec"), ("q", Json.num (q : Int)),
      ("n", match kw.n with | none => Json.null | some k => Json.num (k : Int)),
      ("ftype", ftypeStr kw.ftype), ("zero_phase", Json.bool kw.zeroPhase), ("t", termToJson t)]
  | .det ty bp t => Json.mkObj [("k", "det"), ("type", dtypeStr ty), ("bp", natsToJson bp), ("t", termToJson t)]
  | .filt fs wn o bt t => Json.mkObj [("k", "filt"), ("fs", ratToJson fs),
      ("Wn", match wn with | .one w => Json.arr #[ratToJson w] | .two a b => Json.arr #[ratToJson a, ratToJson b]),
      ("order", Json.num (o : Int)), ("btype", btypeStr bt), ("t", termToJson t)]

def errStr : Err → String
  | .typeError => "TypeError" | .valueError => "ValueError" | .zeroDivisionError => "ZeroDivisionError"
  | .indexError => "IndexError"

def sBoundToJson (b : SBound) : Json :=
  Json.mkObj [("data", termToJson b.data), ("fs", ratToJson b.fs), ("dt", ratToJson b.dt)]

def sStateToJson (outcome : String) (bound : Json) (s : SState) : Json :=
  Json.mkObj [("outcome", outcome), ("fs", ratToJson s.fs), ("dt", ratToJson s.dt),
    ("Nch", Json.num (s.Nch : Int)), ("Ndat", Json.num (s.Ndat : Int)), ("T", ratToJson s.T),
    ("data", termToJson s.data), ("initData", termToJson s.initData), ("initFs", ratToJson s.initFs),
    ("nalgs", Json.num (s.algs.length : Int)), ("bound", bound)]

def splitToJson (p : Split) : Json :=
  Json.mkObj [("ref", natsToJson p.ref), ("mov", natsToJson p.mov), ("y", termToJson p.y)]

def mBoundToJson (b : MBound) : Json :=
  Json.mkObj [("data", listToJson splitToJson b.data), ("fs", ratToJson b.fs), ("dt", ratToJson b.dt)]

def mStateToJson (outcome : String) (bound : Json) (s : MState) : Json :=
  Json.mkObj [("outcome", outcome), ("fs", ratToJson s.fs), ("dt", ratToJson s.dt),
    ("Nsetup", Json.num (s.Nsetup : Int)), ("Nchs", natsToJson s.Nchs), ("Ndats", natsToJson s.Ndats),
    ("Ts", listToJson ratToJson s.Ts), ("ref_ind", listToJson natsToJson s.refInd),
    ("datasets", listToJson termToJson s.datasets), ("data", listToJson splitToJson s.data),
    ("initDatasets", listToJson termToJson s.initDatasets), ("initFs", ratToJson s.initFs),
    ("initRefInd", listToJson natsToJson s.initRefInd),
    ("nalgs", Json.num (s.algs.length : Int)), ("bound", bound)]

/-- `{"op":"prep_single","variant":…,"n0":N,"nch":k,"fs0":"r","ops":[…]}` → the record after
    `__init__` followed by one record per call. -/
def prepSingle (j : Json) : Except String Json := do
  let v ← variantOf (fieldD j "variant" Json.null)
  let c : SCfg := { n0 := ← natOfJson (← field j "n0"), nch := ← natOfJson (← field j "nch"),
                    fs0 := ← ratOfJson (← field j "fs0") }
  let ops ← listOf opOf (← field j "ops")
  let mut s := sInit c
  let mut out : Array Json := #[sStateToJson "ok" Json.null s]
  for op in ops do
    match sStep v c s op with
    | .ok s' =>
        let b := match op, s'.bound with
          | .add, b :: _ => sBoundToJson b
          | _, _ => Json.null
        s := s'
        out := out.push (sStateToJson "ok" b s)
    | .error e => out := out.push (sStateToJson (errStr e) Json.null s)
  pure (Json.arr out)

def prepMulti (j : Json) : Except String Json := do
  let v ← variantOf (fieldD j "variant" Json.null)
  let c : MCfg := { n0 := ← listOf natOfJson (← field j "n0"), nch := ← listOf natOfJson (← field j "nch"),
                    fs0 := ← ratOfJson (← field j "fs0"),
                    refInd := ← listOf (listOf natOfJson) (← field j "ref_ind") }
  let ops ← listOf opOf (← field j "ops")
  let mut s := mInit c
  let mut out : Array Json := #[mStateToJson "ok" Json.null s]
  for op in ops do
    match mStep v c s op with
    | .ok s' =>
        let b := match op, s'.bound with
          | .add, b :: _ => mBoundToJson b
          | _, _ => Json.null
        s := s'
        out := out.push (mStateToJson "ok" b s)
    | .error e => out := out.push (mStateToJson (errStr e) Json.null s)
  pure (Json.arr out)

def specToJson (σ : Spec) : Json :=
  Json.mkObj [("terms", listToJson termToJson σ.terms), ("fs", ratToJson σ.fs)]

/-- `{"op":"prep_spec","n0":[…],"fs0":"r","ops":[…]}` → the specification fold after every prefix
    (with the active decimation factors, and whether `Op.accepted` held for the last call). -/
def prepSpec (j : Json) : Except String Json := do
  let n0 ← listOf natOfJson (← field j "n0")
  let fs0 ← ratOfJson (← field j "fs0")
  let ops ← listOf opOf (← field j "ops")
  let init : Spec := ⟨(List.range n0.length).map Prep.Term.init, fs0⟩
  let n0f : Nat → Nat := fun i => n0.getD i 0
  let mut σ := init
  let mut qs : List Nat := []
  let mut out : Array Json := #[specToJson σ]
  for op in ops do
    let acc := op.accepted (σ.terms.map (Prep.Term.len n0f)) σ.fs
    σ := specStep n0f init σ op
    qs := qsStep qs op
    out := out.push (((specToJson σ).setObjVal! "qs" (natsToJson qs)).setObjVal! "accepted" (Json.bool acc))
  pure (Json.arr out)

/-! ### `add_algorithms` by name (Model/PrepAlgs.lean) -/

def nopOf (j : Json) : Except String NOp := do
  if has j "algs" then
    let l ← listOf (listOf natOfJson) (← field j "algs")
    let algs ← l.mapM (fun p => match p with
      | [o, n] => pure ({ oid := o, name := n } : Alg)
      | _ => throw "alg = [oid, name]")
    pure (.addN algs)
  else do pure (.prep (← opOf j))

def pairsToJson (d : List (Nat × Nat)) : Json :=
  listToJson (fun (p : Nat × Nat) => Json.arr #[Json.num (p.1 : Int), Json.num (p.2 : Int)]) d

def nStateToJson {S B : Type} (baseJ : S → Json) (boundJ : B → Json) (s : NState S B) : Json :=
  Json.mkObj [("base", baseJ s.base), ("algorithms", pairsToJson s.algorithms),
    ("held", listToJson (fun (p : Nat × B) => Json.arr #[Json.num (p.1 : Int), boundJ p.2]) s.held)]

/-- `{"op":"prep_single_named", …as prep_single…, "ops":[… {"k":"add","algs":[[oid,name],…]} …]}` → after
    `__init__` and after every call: the setup (`base`), `self.algorithms` as `[[name, oid], …]` in dict order,
    and what every algorithm object holds (`[[oid, {data, fs, dt}], …]`). -/
def prepSingleNamed (j : Json) : Except String Json := do
  let v ← variantOf (fieldD j "variant" Json.null)
  let c : SCfg := { n0 := ← natOfJson (← field j "n0"), nch := ← natOfJson (← field j "nch"),
                    fs0 := ← ratOfJson (← field j "fs0") }
  let ops ← listOf nopOf (← field j "ops")
  let mut s : NState SState SBound := { base := sInit c, algorithms := [], held := [] }
  let mut out : Array Json := #[nStateToJson (sStateToJson "ok" Json.null) sBoundToJson s]
  for op in ops do
    match sStepN v c s op with
    | .ok s' =>
        s := s'
        out := out.push (nStateToJson (sStateToJson "ok" Json.null) sBoundToJson s)
    | .error e => out := out.push (nStateToJson (sStateToJson (errStr e) Json.null) sBoundToJson s)
  pure (Json.arr out)

def prepMultiNamed (j : Json) : Except String Json := do
  let v ← variantOf (fieldD j "variant" Json.null)
  let c : MCfg := { n0 := ← listOf natOfJson (← field j "n0"), nch := ← listOf natOfJson (← field j "nch"),
                    fs0 := ← ratOfJson (← field j "fs0"),
                    refInd := ← listOf (listOf natOfJson) (← field j "ref_ind") }
  let ops ← listOf nopOf (← field j "ops")
  let mut s : NState MState MBound := { base := mInit c, algorithms := [], held := [] }
  let mut out : Array Json := #[nStateToJson (mStateToJson "ok" Json.null) mBoundToJson s]
  for op in ops do
    match mStepN v c s op with
    | .ok s' =>
        s := s'
        out := out.push (nStateToJson (mStateToJson "ok" Json.null) mBoundToJson s)
    | .error e => out := out.push (nStateToJson (mStateToJson (errStr e) Json.null) mBoundToJson s)
  pure (Json.arr out)

/-- `{"op":"pre_multisetup_checked","nch":[…],"ref_ind":[[…],…]}` → `{"outcome": "ok" | exception class,
    "splits": [...]}` for datasets `init 0 … init (len nch − 1)`. -/
def preMultisetupCheckedOp (j : Json) : Except String Json := do
  let nch ← listOf natOfJson (← field j "nch")
  let refInd ← listOf (listOf natOfJson) (← field j "ref_ind")
  let terms := (List.range nch.length).map Prep.Term.init
  match preMultisetupChecked (fun i => nch.getD i 0) terms refInd with
  | .ok Y => pure (Json.mkObj [("outcome", "ok"), ("splits", listToJson splitToJson Y)])
  | .error e => pure (Json.mkObj [("outcome", errStr e), ("splits", Json.null)])

def ops : List (String × (Json → Except String Json)) :=
  [("pre_multisetup_checked", preMultisetupCheckedOp), ("prep_single", prepSingle), ("prep_multi", prepMulti), ("prep_spec", prepSpec),
   ("prep_single_named", prepSingleNamed), ("prep_multi_named", prepMultiNamed)]

end PV.Ops.C14
