import PyomaVerif.Codec
import PyomaVerif.Model.HcRun
import PyomaVerif.Generated.HcProgs
open Lean PV PV.Codec PV.Hc PV.HcFn
namespace PV.Ops.C09Run

/-! `hc_run`: the hard-criteria part of a class's `run()` (`HcFn.lrunClass` on the program regenerated from
`/repo`) on the unfiltered tables captured from a real run.  A mode-shape cell travels as
`[row, col, mpd, mpc]` (its position in the unfiltered table as identity, and the MPD / MPC values the library
computed for it, `null` = NaN / exception); it comes back as `[row, col]`. -/

def tblOf {α} (f : Json → Except String α) (j : Json) : Except String (T α) :=
  listOf (listOf (fun c => match c with | .null => pure none | _ => do let v ← f c; pure (some v))) j

def realCell (j : Json) : Except String LCell := do pure (.real (← ratOfJson j))

def cplxCell (j : Json) : Except String LCell := do
  let a ← j.getArr?
  if a.size = 2 then pure (.cplx (← ratOfJson a[0]!, ← ratOfJson a[1]!)) else throw "complex pair expected"

def shapeCell (j : Json) : Except String LCell := do
  let a ← j.getArr?
  if a.size = 4 then
    let i ← natOfJson a[0]!
    let k ← natOfJson a[1]!
    pure (.shape [((i : Rat), (k : Rat))] (← oratOfJson a[2]!) (← oratOfJson a[3]!))
  else throw "shape cell [row, col, mpd, mpc] expected"

def cellToJson : LCell → Json
  | .real x => ratToJson x
  | .cplx z => Json.arr #[ratToJson z.1, ratToJson z.2]
  | .shape v _ _ => match v with
    | [(i, k)] => Json.arr #[ratToJson i, ratToJson k]
    | _ => Json.str "?"

def tblToJson (t : T LCell) : Json :=
  listToJson (listToJson (fun x => match x with | none => Json.null | some v => cellToJson v)) t

def progOf : String → Except String ClassProg
  | "SSIdat" => pure Gen.prog_SSIdat
  | "SSIcov" => pure Gen.prog_SSIcov
  | "SSIdat_MS" => pure Gen.prog_SSIdat_MS
  | "SSIcov_MS" => pure Gen.prog_SSIcov_MS
  | "pLSCF" => pure Gen.prog_pLSCF
  | "pLSCF_MS" => pure Gen.prog_pLSCF_MS
  | s => throw s!"unknown class {s}"

def optTbl (f : Json → Except String LCell) (j : Json) (k : String) : Except String (T LCell) :=
  match fieldD j k Json.null with
  | .null => pure []
  | v => tblOf f v

def hcRunOp (j : Json) : Except String Json := do
  let P ← progOf (← strOfJson (← field j "class"))
  let conjOn ← boolOfJson (← field j "conj")
  let covOn ← boolOfJson (← field j "cov")
  let L : Lims := ⟨← ratOfJson (← field j "xi_max"), ← ratOfJson (← field j "mpc_lim"),
    ← ratOfJson (← field j "mpd_lim"), ← ratOfJson (fieldD j "cov_max" (Json.str "0"))⟩
  let fn ← optTbl realCell j "fn"
  let xi ← optTbl realCell j "xi"
  let phi ← optTbl shapeCell j "phi"
  let lam ← optTbl cplxCell j "lam"
  let fncov ← optTbl realCell j "fncov"
  let xicov ← optTbl realCell j "xicov"
  let phicov ← optTbl realCell j "phicov"
  let raw : Tbl → T LCell := fun o => match o with
    | .fn => fn | .xi => xi | .phi => phi | .lam => lam | .fncov => fncov | .xicov => xicov | .phicov => phicov
  match lrunClass P L conjOn covOn raw with
  | none => pure (Json.mkObj [("returned", Json.bool false)])
  | some res =>
    pure (Json.mkObj [("returned", Json.bool true),
      ("fields", Json.mkObj (res.map fun fx => (fx.1, match fx.2 with
        | some t => tblToJson t
        | none => Json.null)))])

def ops : List (String × (Json → Except String Json)) := [("hc_run", hcRunOp)]

end PV.Ops.C09Run
