import PyomaVerif.Codec
import PyomaVerif.Model.MsGather
/-!
Driver operation `ms_gather`: the record-level split and its hand-over, on SYMBOLIC datasets — sample `t` of
channel `c` of dataset `i` is the label `(i·10⁵ + t)·10³ + c`, so that the harness can check every entry of every
array the real code builds (`pre_multisetup` output, `build_hank` / `SD_est` arguments) against the entry of the
user's dataset it must be.

`{"op":"ms_gather","shapes":[[n0,nch],…],"ref_ind":[[…],…],"fs":"…","nxseg":…,"method":"per","pov":"…"}`
-/
open Lean PV PV.Codec PV.MsGather
namespace PV.Ops.MsGather

def label (i t c : Nat) : Nat := (i * 100000 + t) * 1000 + c

def symData (i n0 nch : Nat) : Mat Nat := ⟨n0, nch, fun t c => label i t c⟩

def natMat (m : Mat Nat) : Json := matToJson (fun (n : Nat) => toJson n) m

def shapeOfJson (j : Json) : Except String (Nat × Nat) := do
  let a ← arrOf natOfJson j
  if a.size ≠ 2 then throw "shape: [n0, nch] expected"
  pure (a[0]!, a[1]!)

def setupJson (s : Setup Nat) : Json := Json.mkObj [("ref", natMat s.ref), ("mov", natMat s.mov)]

def methodOf (s : String) : SdMethod := if s = "per" then .per else if s = "cor" then .cor else .other

def msGatherOp (j : Json) : Except String Json := do
  let shapes ← listOf shapeOfJson (← field j "shapes")
  let refInd ← listOf (listOf natOfJson) (← field j "ref_ind")
  let fs ← ratOfJson (fieldD j "fs" (Json.str "1"))
  let nxseg ← natOfJson (fieldD j "nxseg" (toJson (8 : Nat)))
  let pov ← ratOfJson (fieldD j "pov" (Json.str "1/2"))
  let method := methodOf (← strOfJson (fieldD j "method" (Json.str "per")))
  let D : List (Mat Nat) := (List.range shapes.length).map fun i =>
    let s := shapes.getD i (0, 0)
    symData i s.1 s.2
  match preMultisetupRec D refInd with
  | .error e => pure (Json.mkObj [("raise", Json.str e)])
  | .ok Y =>
    let head := match ssiMsHead Y with
      | none => Json.null
      | some h => Json.mkObj [("n_setup", toJson h.n_setup), ("n_ref", toJson h.n_ref), ("n_mov", toJson h.n_mov),
          ("n_DOF", toJson h.n_DOF)]
    let hank := (List.range Y.length).map fun kk =>
      match ssiMsHankArgs Y kk with
      | none => Json.null
      | some (a, b) => Json.mkObj [("Y_all", natMat a), ("Y_ref", natMat b)]
    let dflt : Setup Nat := ⟨⟨0, 0, fun _ _ => 0⟩, ⟨0, 0, fun _ _ => 0⟩⟩
    let calls := (sdCallsOf dflt Y fs nxseg pov method).map fun c =>
      Json.mkObj [("dt", ratToJson c.1.dt), ("nxseg", toJson c.1.nxseg), ("pov", ratToJson c.1.pov),
        ("Yall", natMat c.2.1), ("Yref", natMat c.2.2)]
    pure (Json.mkObj [("split", listToJson setupJson Y), ("head", head), ("hank", Json.arr hank.toArray),
      ("sd_calls", Json.arr calls.toArray)])

def ops : List (String × (Json → Except String Json)) := [("ms_gather", msGatherOp)]

end PV.Ops.MsGather
