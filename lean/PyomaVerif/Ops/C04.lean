import PyomaVerif.Codec
import PyomaVerif.Model.PreGER
/-!
Driver operations for C04.  Records are symbolic (`D = Nat`: every sample of a row is the
row's content id), the estimator is the table of the `SD_est` calls logged by the harness,
spectra are Gaussian rationals, `np.linalg.inv` is exact Gauss–Jordan elimination (its
contract `inv·G = 1` is re-checked exactly for every matrix it is applied to).
-/
open Lean PV PV.Codec
namespace PV.Ops.C04

abbrev CQ := CxG Rat

def cxOfJson (j : Json) : Except String CQ := do
  let a ← arrOf ratOfJson j
  if a.size ≠ 2 then throw "complex: [re, im] expected"
  pure ⟨a[0]!, a[1]!⟩

def cxToJson (z : CQ) : Json := Json.arr #[ratToJson z.re, ratToJson z.im]

def ten3OfJson (j : Json) : Except String (TenG CQ) := do
  let d ← arrOf (arrOf (arrOf cxOfJson)) j
  let n0 := d.size
  let n1 := if 0 < d.size then d[0]!.size else 0
  let n2 := if 0 < n1 then (d[0]!)[0]!.size else 0
  for r in d do
    if r.size ≠ n1 then throw "ragged axis 1"
    for c in r do
      if c.size ≠ n2 then throw "ragged axis 2"
  pure ⟨n0, n1, n2, fun i k f => ((d[i]!)[k]!)[f]!⟩

def ten3ToJson (t : TenG CQ) : Json :=
  Json.arr ((List.range t.n0).map fun i =>
    Json.arr ((List.range t.n1).map fun k =>
      Json.arr ((List.range t.n2).map fun f => cxToJson (t.e i k f)).toArray).toArray).toArray

def methodOf (s : String) : SdMethod := if s = "per" then .per else if s = "cor" then .cor else .other
def methodStr : SdMethod → String
  | .per => "per" | .cor => "cor" | .other => "other"

/-- symbolic record: `ids.length` rows, `c` samples, each sample of row `i` is `ids[i]` -/
def symMat (ids : List Nat) (c : Nat) : Mat Nat :=
  let a := ids.toArray
  ⟨a.size, c, fun i _ => a[i]!⟩

structure CallRec where
  args : SdArgs Rat
  a : List Nat
  ac : Nat
  b : List Nat
  bc : Nat
  out : SdOut Rat CQ

def callRecOfJson (j : Json) : Except String CallRec := do
  let dt ← ratOfJson (← field j "dt")
  let nx ← natOfJson (← field j "nxseg")
  let m ← strOfJson (← field j "method")
  let pov ← ratOfJson (← field j "pov")
  let a ← listOf natOfJson (← field j "a")
  let ac ← natOfJson (← field j "a_c")
  let b ← listOf natOfJson (← field j "b")
  let bc ← natOfJson (← field j "b_c")
  let freq ← listOf ratOfJson (← field j "freq")
  let S ← ten3OfJson (← field j "S")
  pure ⟨⟨dt, nx, methodOf m, pov⟩, a, ac, b, bc, ⟨freq, S⟩⟩

def recMatches (c : CallRec) (π : SdArgs Rat) (A B : Mat Nat) : Bool :=
  decide (c.args = π) && c.a == A.rowHeads && c.ac == A.c && c.b == B.rowHeads && c.bc == B.c

/-- the estimator of the driver: the logged table -/
def tableSd (tbl : List CallRec) : Estimator Rat Nat Rat CQ := fun π A B =>
  match tbl.find? (fun c => recMatches c π A B) with
  | some c => c.out
  | none => ⟨[], ⟨0, 0, 0, fun _ _ _ => 0⟩⟩

def setupOfJson (j : Json) : Except String (Setup Nat) := do
  let r ← listOf natOfJson (← field j "ref")
  let m ← listOf natOfJson (← field j "mov")
  let rc ← natOfJson (← field j "ref_c")
  let mc ← natOfJson (← field j "mov_c")
  pure ⟨symMat r rc, symMat m mc⟩

def traceToJson (c : SdArgs Rat × Mat Nat × Mat Nat) : Json :=
  Json.mkObj [("dt", ratToJson c.1.dt), ("nxseg", toJson c.1.nxseg), ("method", Json.str (methodStr c.1.method)),
    ("pov", ratToJson c.1.pov), ("a", toJson c.2.1.rowHeads), ("a_c", toJson c.2.1.c),
    ("b", toJson c.2.2.rowHeads), ("b_c", toJson c.2.2.c)]

def isLeftInv (W G : Mat CQ) : Bool :=
  let P := Mat.mul W G
  (List.range G.r).all fun i => (List.range G.r).all fun j =>
    decide (P.e i j = if i = j then (1 : CQ) else 0)

/-- `np.linalg.inv`: exact inverse, `none` if singular/non-square; the contract is re-checked. -/
def invOpt (G : Mat CQ) : Option (Mat CQ) :=
  match gaussInv G with
  | some W => if isLeftInv W G then some W else none
  | none => none

def matKey (G : Mat CQ) : List CQ :=
  (List.range G.r).flatMap fun i => (List.range G.c).map fun j => G.e i j

/-- `invOpt` with a table of already computed values (speed only: same function) -/
def memoInv (tbl : Array (Nat × Nat × List CQ × Option (Mat CQ))) (G : Mat CQ) : Option (Mat CQ) :=
  let k := matKey G
  match tbl.find? (fun e => e.1 == G.r && e.2.1 == G.c && e.2.2.1 == k) with
  | some e => e.2.2.2
  | none => invOpt G

def outToJson (trace : List (SdArgs Rat × Mat Nat × Mat Nat)) (r : Except String (SdOut Rat CQ)) : Json :=
  let tr := listToJson traceToJson trace
  match r with
  | .error e => Json.mkObj [("raise", Json.str e), ("trace", tr)]
  | .ok o =>
    let S : TenG CQ := o.S
    Json.mkObj [("freq", listToJson ratToJson o.freq), ("shape", toJson [S.n0, S.n1, S.n2]),
      ("Sy", ten3ToJson S), ("trace", tr)]

/-- `{"op":"sd_preger","fs":..,"nxseg":..,"method":..,"pov":..,"setups":[..],"calls":[..]}`;
    with `"via":"run"` the parameters go through `msRunSpectrum` (the `*_MS.run` heads). -/
def sdPreGERop (j : Json) : Except String Json := do
  let fs ← ratOfJson (← field j "fs")
  let nx ← natOfJson (← field j "nxseg")
  let m := methodOf (← strOfJson (← field j "method"))
  let pov ← ratOfJson (← field j "pov")
  let setups ← arrOf setupOfJson (← field j "setups")
  let tbl ← listOf callRecOfJson (← field j "calls")
  let via := match (fieldD j "via" (Json.str "fn")) with | .str s => s | _ => "fn"
  let n := setups.size
  let dflt : Setup Nat := ⟨symMat [] 0, symMat [] 0⟩
  let Y : Nat → Setup Nat := fun i => setups.getD i dflt
  let sd := tableSd tbl
  let trace := sdPreGERcalls fs nx pov m n Y
  -- calls the model makes that are absent from the log (their output would be an empty array)
  let unlogged := (trace.filter fun c => (tbl.find? (fun r => recMatches r c.1 c.2.1 c.2.2)).isNone).length
  -- the reference blocks the code inverts, inverted once
  let n_ref := (Y 0).ref.r
  let invTbl : Array (Nat × Nat × List CQ × Option (Mat CQ)) := Id.run do
    let mut t := #[]
    for ii in [0:n] do
      let B := (gyy sd fs nx pov m Y ii).head01 n_ref n_ref
      for ff in [0:B.n2] do
        let G := B.line ff
        t := t.push (G.r, G.c, matKey G, invOpt G)
    return t
  let inv := memoInv invTbl
  let res :=
    if via = "run" then msRunSpectrum sd inv fs ⟨nx, m, pov⟩ n Y
    else sdPreGERchecked sd inv fs nx pov m n Y
  let res := res.map fun o => ({ o with S := ⟨o.S.n0, o.S.n1, o.S.n2, o.S.e⟩ } : SdOut Rat CQ)
  pure ((outToJson trace res).setObjVal! "unlogged" (toJson unlogged))

/-- exact inverse of a complex matrix (used by the harness to test the stand-in itself) -/
def invOp (j : Json) : Except String Json := do
  let G ← matOf cxOfJson (← field j "G")
  match invOpt G with
  | some W => pure (matToJson cxToJson W)
  | none => pure Json.null

def ops : List (String × (Json → Except String Json)) :=
  [("sd_preger", sdPreGERop), ("cx_inv", invOp)]

end PV.Ops.C04
