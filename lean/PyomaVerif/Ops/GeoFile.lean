import PyomaVerif.Codec
import PyomaVerif.Model.GeoFile
import PyomaVerif.Model.GeoLines
import PyomaVerif.Ops.C19
open Lean PV PV.Codec PV.Geo
namespace PV.Ops.GeoFile
open PV.Ops.C19

def fileErrToJson : FileErr → Json
  | .geo e => errToJson e
  | .invalidType => Json.mkObj [("err", "ValueError"), ("why", "invalidType")]

/-- `{"geo_type": str, "fd": file dictionary (what read_excel_file returned), "ref_ind": null | [[nat]]}` →
    `{"ok": {"kind": "geo1" | "geo2", "g": fields}}` or the exception of `_def_geo_by_file` -/
def byFileOp (j : Json) : Except String Json := do
  let t ← strOfJson (← field j "geo_type")
  let fd ← fdOfJson (← field j "fd")
  let r ← refOfJson (fieldD j "ref_ind" .null)
  pure (match defGeoByFile t fd r with
    | .ok (.geo1 g) => Json.mkObj [("ok", out1ToJson g), ("kind", "geo1")]
    | .ok (.geo2 g) => Json.mkObj [("ok", out2ToJson g), ("kind", "geo2")]
    | .error e => fileErrToJson e)

def segsToJson (l : List Seg) : Json := listToJson (fun a => Json.arr #[orowToJson a.1, orowToJson a.2]) l

def linesToJson (l : Lines) : Json := Json.mkObj [("bg", segsToJson l.bg), ("sens", segsToJson l.sens)]

/-- the arguments of `c19_plotgeo1` → the line artists of `def_geo1` + `plot_mode_geo1`: `{"bg": [[start, end]], "sens": …}` -/
def plotLines1Op (j : Json) : Except String Json := do
  let nm ← namesOfJson (← field j "names")
  let r ← refOfJson (fieldD j "ref_ind" .null)
  let co ← tblOfJson (← field j "coord")
  let di ← arrArgOfJson (← field j "dir")
  let phi ← listOf ratOfJson (← field j "phi")
  let sc ← ratOfJson (← field j "scale")
  pure (resToJson linesToJson
    (defPlotGeo1Lines nm co di (← oarrArg j "lines") (← oarrArg j "bgNodes") (← oarrArg j "bgLines")
      (← oarrArg j "bgSurf") r phi sc))

/-- the arguments of `c19_plotgeo2` → the line artists of `def_geo2` + `plot_mode_geo2_mpl` -/
def plotLines2Op (j : Json) : Except String Json := do
  let nm ← namesOfJson (← field j "names")
  let r ← refOfJson (fieldD j "ref_ind" .null)
  let pt ← tblOfJson (← field j "pts")
  let mp ← tblOfJson (← field j "map")
  let phi ← listOf ratOfJson (← field j "phi")
  let sc ← ratOfJson (← field j "scale")
  pure (resToJson linesToJson
    (defPlotGeo2Lines nm pt mp (← oarrArg j "cstr") (← oarrArg j "sign") (← oarrArg j "lines") (← oarrArg j "surf")
      (← oarrArg j "bgNodes") (← oarrArg j "bgLines") (← oarrArg j "bgSurf") r phi sc))

def ops : List (String × (Json → Except String Json)) :=
  [("c19_by_file", byFileOp), ("c19_plotlines1", plotLines1Op), ("c19_plotlines2", plotLines2Op)]

end PV.Ops.GeoFile
