import PyomaVerif.Codec
import PyomaVerif.Model.GeoFile
import PyomaVerif.Ops.C19
open Lean PV PV.Codec PV.Geo
namespace PV.Ops.GeoFile
open PV.Ops.C19

def fileErrToJson : FileErr → Json
  | .geo e => errToJson e
  | .invalidType => Json.mkObj [("err", "ValueError"), ("why", "invalidType")]

/-- `{"geo_type": str, "fd": file dictionary (what read_excel_file returned), "ref_ind": null | [[nat]]}` →
    `{"ok": {"kind": "geo1" | "geo2", "g": fields}}` or the exception of `_def_geo_by_file` -/
def byFileOp (j : Json) : Except String Json := do
  let t ← strOfJson (← field j "geo_type")
  let fd ← fdOfJson (← field j "fd")
  let r ← refOfJson (fieldD j "ref_ind" .null)
  pure (match defGeoByFile t fd r with
    | .ok (.geo1 g) => Json.mkObj [("ok", out1ToJson g), ("kind", "geo1")]
    | .ok (.geo2 g) => Json.mkObj [("ok", out2ToJson g), ("kind", "geo2")]
    | .error e => fileErrToJson e)

def ops : List (String × (Json → Except String Json)) := [("c19_by_file", byFileOp)]

end PV.Ops.GeoFile
