import PyomaVerif.Codec
import PyomaVerif.Model.Defaults
open Lean PV PV.Codec
namespace PV.Ops.Defaults
open PV.Defaults PV.DefaultsTbl

def valToJson : Val → Json
  | .none => Json.mkObj [("k", "none")]
  | .required => Json.mkObj [("k", "required")]
  | .var => Json.mkObj [("k", "var")]
  | .bool b => Json.mkObj [("k", "bool"), ("v", Json.bool b)]
  | .int i => Json.mkObj [("k", "int"), ("v", Json.str (toString i))]
  | .float n d => Json.mkObj [("k", "float"), ("v", Json.str (ratStr ((n : Rat) / (d : Rat))))]
  | .str s => Json.mkObj [("k", "str"), ("v", Json.str s)]
  | .keys ks => Json.mkObj [("k", "keys"), ("v", listToJson Json.str ks)]

def ovalToJson : Option Val → Json
  | some v => valToJson v
  | none => Json.null

def triple (j : Json) : Except String (String × String × String) := do
  let l ← listOf strOfJson j
  match l with
  | [a, b, c] => pure (a, b, c)
  | _ => throw "expected [a, b, c]"

def pair (j : Json) : Except String (String × String) := do
  let l ← listOf strOfJson j
  match l with
  | [a, b] => pure (a, b)
  | _ => throw "expected [a, b]"

/-- `{"op":"defaults_query","method":[[cls,method,param],..],"func":[[fn,param],..],"field":[[cls,field],..],
     "sig":[[cls,method],..],"label":[fn,..]}` → the answers of the queries of `Model/Defaults.lean` the obligations of
    `Props/WiringDefaults.lean` are stated with: `methodDefault`, `funcDefault`, `rpDefault` (through the ALGORITHM
    class), `methodSig`, `labelTests` / `labelStores`. -/
def queryOp (j : Json) : Except String Json := do
  let ms ← listOf triple (fieldD j "method" (Json.arr #[]))
  let fs ← listOf pair (fieldD j "func" (Json.arr #[]))
  let rs ← listOf pair (fieldD j "field" (Json.arr #[]))
  let ss ← listOf pair (fieldD j "sig" (Json.arr #[]))
  let ls ← listOf strOfJson (fieldD j "label" (Json.arr #[]))
  pure (Json.mkObj [
    ("method", listToJson (fun (q : String × String × String) => ovalToJson (methodDefault q.1 q.2.1 q.2.2)) ms),
    ("func", listToJson (fun (q : String × String) => ovalToJson (funcDefault q.1 q.2)) fs),
    ("field", listToJson (fun (q : String × String) => ovalToJson (rpDefault q.1 q.2)) rs),
    ("sig", listToJson (fun (q : String × String) => match methodSig q.1 q.2 with
        | some l => listToJson Json.str l | none => Json.null) ss),
    ("label", listToJson (fun fn => Json.mkObj [("tests", listToJson valToJson (labelTests fn)),
        ("stores", listToJson valToJson (labelStores fn)), ("alleq", Json.bool (labelTestsAllEq fn))]) ls)])

def ops : List (String × (Json → Except String Json)) := [("defaults_query", queryOp)]

end PV.Ops.Defaults
