import PyomaVerif.Codec
import PyomaVerif.Model.Orch
import PyomaVerif.Lemmas.Orch
/-! Driver operations for C15: the orchestration model instantiated with *symbolic terms* for the
uninterpreted `run` / `mpe` / preprocessing (the harness evaluates the terms with the real
classes, stand-alone), and the PoSER validation. -/
open Lean PV PV.Codec PV.Orch
namespace PV.Ops.C15

inductive DTerm where
  | init
  | pre (q : String) (d : DTerm)
  deriving Repr, Inhabited

inductive PTerm where
  | base (id : String)
  | mpeP (cls : String) (p : PTerm) (a : String)
  deriving Repr, Inhabited

inductive RTerm where
  | run (cls : String) (p : PTerm) (d : DTerm)
  | mpe (cls : String) (p : PTerm) (b : Bound DTerm) (r : RTerm) (a : String)
  deriving Inhabited

def DTerm.toJson : DTerm → Json
  | .init => Json.str "init"
  | .pre q d => Json.arr #[Json.str "pre", Json.str q, d.toJson]

def PTerm.toJson : PTerm → Json
  | .base id => Json.arr #[Json.str "base", Json.str id]
  | .mpeP c p a => Json.arr #[Json.str "mpeP", Json.str c, p.toJson, Json.str a]

def boundToJson : Bound DTerm → Json
  | .missing => Json.str "missing"
  | .unset => Json.str "unset"
  | .set d => Json.arr #[Json.str "set", d.toJson]

def RTerm.toJson : RTerm → Json
  | .run c p d => Json.arr #[Json.str "run", Json.str c, p.toJson, d.toJson]
  | .mpe c p b r a => Json.arr #[Json.str "mpe", Json.str c, p.toJson, boundToJson b, r.toJson, Json.str a]

/-- term semantics; `unguarded` lists the classes whose `mpe` stores before it checks
    (empty = the repaired tree, which is what the theorems' `AllGuarded` describes). -/
def termSem (unguarded : List String) : Sem String PTerm DTerm RTerm String String where
  run := RTerm.run
  mpeRes := RTerm.mpe
  mpeParams := PTerm.mpeP
  guarded c := !(unguarded.contains c)
  pre := DTerm.pre

abbrev TOp := Op String PTerm String String
abbrev TState := State String PTerm DTerm RTerm

def optStr (j : Json) (k : String) : Except String (Option String) :=
  match j.getObjVal? k with
  | .ok .null => pure none
  | .ok v => do let s ← v.getStr?; pure (some s)
  | .error _ => pure none

def opOfJson (j : Json) : Except String TOp := do
  let k ← strOfJson (← field j "k")
  match k with
  | "add" =>
    let p ← optStr j "p"
    pure (.add (← strOfJson (← field j "n")) (← strOfJson (← field j "c")) (p.map PTerm.base))
  | "inject" =>
    let p ← optStr j "p"
    pure (.inject (← strOfJson (← field j "n")) (← strOfJson (← field j "c")) (p.map PTerm.base)
      (← boolOfJson (fieldD j "none" (Json.bool false))))
  | "run" => pure (.runByName (← strOfJson (← field j "n")))
  | "run_all" => pure .runAll
  | "mpe" => pure (.mpe (← strOfJson (← field j "n")) (← strOfJson (← field j "a")))
  | "pre" => pure (.pre (← strOfJson (← field j "q")))
  | "rollback" => pure .rollback
  | _ => throw s!"unknown op kind {k}"

def popt : Option PTerm → Json
  | none => Json.null
  | some p => p.toJson

/-- parameters of an `add` as they came in (the id of the base parameter set) -/
def pid : Option PTerm → Json
  | some (.base id) => Json.str id
  | some p => p.toJson
  | none => Json.null

def opToJson : TOp → Json
  | .add n c p => Json.mkObj [("k", "add"), ("n", n), ("c", c), ("p", pid p)]
  | .inject n c p b => Json.mkObj [("k", "inject"), ("n", n), ("c", c), ("p", pid p), ("none", Json.bool b)]
  | .runByName n => Json.mkObj [("k", "run"), ("n", n)]
  | .runAll => Json.mkObj [("k", "run_all")]
  | .mpe n a => Json.mkObj [("k", "mpe"), ("n", n), ("a", a)]
  | .pre q => Json.mkObj [("k", "pre"), ("q", q)]
  | .rollback => Json.mkObj [("k", "rollback")]

def excName : Exc → String
  | .valueError => "ValueError"
  | .keyError => "KeyError"
  | .attributeError => "AttributeError"

def outName : Outcome → String
  | .ok => "ok"
  | .raised e => excName e

def entryToJson (ke : String × Entry String PTerm DTerm RTerm) : Json :=
  Json.mkObj [("n", ke.1), ("c", ke.2.cls), ("p", popt ke.2.params), ("b", boundToJson ke.2.bound),
    ("r", match ke.2.result with | none => Json.null | some r => r.toJson)]

def stateToJson (o : Outcome) (s : TState) : Json :=
  Json.mkObj [("out", outName o), ("data", s.data.toJson), ("algs", Json.arr (s.algs.map entryToJson).toArray)]

def unguardedOf (j : Json) : Except String (List String) :=
  match j.getObjVal? "unguarded" with
  | .ok v => listOf strOfJson v
  | .error _ => pure []

/-- `{"op":"orch_trace","ops":[…]}` → outcome and state after every call on `SingleSetup(data, fs)`. -/
def traceOp (j : Json) : Except String Json := do
  let ops ← listOf opOfJson (← field j "ops")
  let ug ← unguardedOf j
  let tr := trace (termSem ug) ops (State.new DTerm.init)
  pure (Json.arr (tr.map fun os => stateToJson os.1 os.2).toArray)

/-- `{"op":"orch_proj","ops":[…],"n":name}` → the history as algorithm `n` sees it
    (`C15_history_independent`). -/
def projOp (j : Json) : Except String Json := do
  let ops ← listOf opOfJson (← field j "ops")
  let n ← strOfJson (← field j "n")
  let ug ← unguardedOf j
  pure (Json.arr ((proj (termSem ug) n ops (State.new DTerm.init)).map opToJson).toArray)

def algInfoOfJson (j : Json) : Except String (Poser.AlgInfo String) := do
  pure ⟨← strOfJson (← field j "c"), ← boolOfJson (← field j "r"), ← boolOfJson (← field j "f")⟩

def cfgOfJson (j : Json) : Except String (Poser.Config String) := do
  pure ⟨← listOf (listOf algInfoOfJson) (← field j "setups"), ← natOfJson (← field j "names")⟩

/-- `{"op":"poser_check","cfgs":[{"setups":[[{"c","r","f"}…]…],"names":k}…]}` → `"ok"` / exception class each. -/
def poserOp (j : Json) : Except String Json := do
  let cfgs ← listOf cfgOfJson (← field j "cfgs")
  pure (Json.arr (cfgs.map fun c =>
    match Poser.check c with
    | .ok _ => Json.str (if Poser.accepts c then "ok" else "inconsistent")
    | .error e => Json.str (excName e)).toArray)

def ops : List (String × (Json → Except String Json)) :=
  [("orch_trace", traceOp), ("orch_proj", projOp), ("poser_check", poserOp)]

end PV.Ops.C15
