import PyomaVerif.Codec
import PyomaVerif.Model.Plscf
open Lean PV PV.Codec PV.Plscf
namespace PV.Ops.C05

def cxOfJson (j : Json) : Except String (Cx Rat) := do
  let a ← j.getArr?
  if a.size = 2 then
    pure ⟨← ratOfJson a[0]!, ← ratOfJson a[1]!⟩
  else throw "complex pair expected"

def cxToJson (z : Cx Rat) : Json := Json.arr #[ratToJson z.re, ratToJson z.im]

def optOf {α} (f : Json → Except String α) (j : Json) : Except String (Option α) :=
  match j with
  | .null => pure none
  | _ => do pure (some (← f j))

def optTo {α} (f : α → Json) : Option α → Json
  | none => Json.null
  | some v => f v

instance : Inhabited (Mat Rat) := ⟨⟨0, 0, fun _ _ => 0⟩⟩

def coefsOfJson (j : Json) : Except String (Coefs Rat) := do
  let ms ← arrOf matOfJson j
  let r := if h : 0 < ms.size then ms[0].r else 0
  let c := if h : 0 < ms.size then ms[0].c else 0
  pure ⟨ms.size, r, c, fun k i t => (ms[k]!).e i t⟩

/-- `{"op":"plscf_rmfd2ac","Ad":[[[..]]],"Bn":[[[..]]]}` → `{"A":..,"C":..}` or `null`. -/
def rmfd2acOp (j : Json) : Except String Json := do
  let Ad ← coefsOfJson (← field j "Ad")
  let Bn ← coefsOfJson (← field j "Bn")
  match rmfd2ac Ad Bn with
  | none => pure Json.null
  | some (A, C) => pure (Json.mkObj [("A", matToJson ratToJson A), ("C", matToJson ratToJson C)])

def eigOfJson (j : Json) : Except String (EigIn Rat) := do
  pure ⟨← cxOfJson (← field j "lamd"), ← cxOfJson (← field j "logv"), ← listOf cxOfJson (← field j "q")⟩

def columnToJson (c : Column Rat) : Json :=
  Json.mkObj [("fn", listToJson (optTo ratToJson) c.fn), ("xi", listToJson (optTo ratToJson) c.xi),
    ("phi", listToJson (optTo (listToJson cxToJson)) c.phi), ("lam", listToJson (optTo cxToJson) c.lam)]

/-- `ac2mp_poly` with `sqrt := id`, `2π := 1`: the `fn` cells carry `|λ|²`, the `xi` cells
    `-Re λ/|λ|²`; the harness applies the square root. -/
def ac2mpOp (j : Json) : Except String Json := do
  let C ← matOfJson (← field j "C")
  let eigs ← listOf eigOfJson (← field j "eigs")
  let invdt ← ratOfJson (← field j "invdt")
  let cor ← boolOfJson (← field j "cor")
  let invTau ← ratOfJson (← field j "invtau")
  pure (columnToJson (ac2mpPoly id 1 invdt cor invTau C eigs))

def columnOfJson (j : Json) : Except String (Column Rat) := do
  pure ⟨← listOf (optOf ratOfJson) (← field j "fn"), ← listOf (optOf ratOfJson) (← field j "xi"),
        ← listOf (optOf (listOf cxOfJson)) (← field j "phi"), ← listOf (optOf cxOfJson) (← field j "lam")⟩

def tblTo {α} (f : α → Json) (t : List (List (Option α))) : Json := listToJson (listToJson (optTo f)) t

def padOp (j : Json) : Except String Json := do
  let cols ← listOf columnOfJson (← field j "cols")
  match padTables cols with
  | .error e => pure (Json.mkObj [("raises", Json.str e)])
  | .ok t => pure (Json.mkObj [("fn", tblTo ratToJson t.fn), ("xi", tblTo ratToJson t.xi),
      ("phi", tblTo (listToJson cxToJson) t.phi), ("lam", tblTo cxToJson t.lam)])

/-- one model order of `pLSCF`: `Om` the basis values, `Sy[o][c][f]`. -/
def orderOp (j : Json) : Except String Json := do
  let n ← natOfJson (← field j "n")
  let hi ← boolOfJson (← field j "hi")
  let Om ← arrOf cxOfJson (← field j "Om")
  let Sy ← arrOf (arrOf (arrOf cxOfJson)) (← field j "Sy")
  let Nref := Sy.size
  let Nch := if h : 0 < Sy.size then Sy[0].size else 0
  let Nf := Om.size
  let d := (n + 1) * Nch
  match plscfOrder Nch Nref Nf n hi (fun f => Om[f]!) (fun o c f => ((Sy[o]!)[c]!)[f]!) with
  | none => pure Json.null
  | some out =>
    pure (Json.mkObj [
      ("M", matToJson ratToJson ⟨d, d, out.M⟩),
      ("alpha", matToJson ratToJson ⟨d, Nch, out.alpha⟩),
      ("beta", Json.arr ((List.range Nref).map fun o => matToJson ratToJson ⟨n + 1, Nch, out.beta o⟩).toArray)])

def ops : List (String × (Json → Except String Json)) :=
  [("plscf_rmfd2ac", rmfd2acOp), ("plscf_ac2mp", ac2mpOp), ("plscf_pad", padOp), ("plscf_order", orderOp)]

end PV.Ops.C05
