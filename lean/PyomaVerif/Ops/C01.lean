import PyomaVerif.Codec
import PyomaVerif.Model.Realise
import PyomaVerif.Ops.C02
open Lean PV PV.Codec
namespace PV.Ops.C01
open PV.Ops.C02 (cpxOfJson cpxToJson)

def matsOf (j : Json) : Except String (List (Mat Rat)) := listOf matOfJson j

/-- `{"U":…, "sq":[…], "Q":…, "Rinv":[per order n = 0..ordmax], "l":…, "ordmax":…}` -/
def ssiFastOp (j : Json) : Except String Json := do
  let U ← matOfJson (← field j "U")
  let sq ← listOf ratOfJson (← field j "sq")
  let Q ← matOfJson (← field j "Q")
  let Rinv ← matsOf (← field j "Rinv")
  let l ← natOfJson (← field j "l")
  let ordmax ← natOfJson (← field j "ordmax")
  let Obs := (obsOf U (fun k => sq.getD k 0) ordmax).force
  let Om := (dnPart Obs l).force
  let S := (Mat.mul (Mat.transpose Q) Om).force
  let As := (List.range (ordmax + 1)).map fun n =>
    let Ri := (Rinv.getD n ⟨0, 0, fun _ _ => 0⟩)
    matToJson ratToJson (Mat.mul ⟨n, n, Ri.e⟩ (leadBlock S n))
  let Cs := (List.range (ordmax + 1)).map fun n => matToJson ratToJson (outC Obs l n)
  pure (Json.mkObj [("A", Json.arr As.toArray), ("C", Json.arr Cs.toArray), ("Obs", matToJson ratToJson Obs)])

/-- legacy `SSI`: `pinv` list holds, for each order n, the recorded pseudo-inverse of `Obs_n[:-l]` -/
def ssiLegacyOp (j : Json) : Except String Json := do
  let U ← matOfJson (← field j "U")
  let sq ← listOf ratOfJson (← field j "sq")
  let Pinv ← matsOf (← field j "pinv")
  let l ← natOfJson (← field j "l")
  let ordmax ← natOfJson (← field j "ordmax")
  let As := (List.range (ordmax + 1)).map fun n =>
    let Obsn := (obsOf U (fun k => sq.getD k 0) n).force
    let P := Pinv.getD n ⟨0, 0, fun _ _ => 0⟩
    matToJson ratToJson (legacyA ⟨n, Obsn.r - l, P.e⟩ Obsn l)
  let Cs := (List.range (ordmax + 1)).map fun n =>
    matToJson ratToJson (outC (obsOf U (fun k => sq.getD k 0) n) l n)
  pure (Json.mkObj [("A", Json.arr As.toArray), ("C", Json.arr Cs.toArray)])

def cmatOf (j : Json) : Except String (Mat (Cpx Rat)) := matOf cpxOfJson j

def ac2mpOp (j : Json) : Except String Json := do
  let C ← cmatOf (← field j "C")
  let V ← cmatOf (← field j "V")
  let lam ← listOf cpxOfJson (← field j "lam")
  let absLam ← listOf ratOfJson (← field j "abs")
  let twoPi ← ratOfJson (← field j "twopi")
  let fn := absLam.map (fun a => ratToJson (fnOf a twoPi))
  let xi := (lam.zip absLam).map (fun (z, a) => ratToJson (xiOf z a))
  let phi := (shapesOf C V).map (fun v => listToJson cpxToJson v)
  pure (Json.mkObj [("fn", Json.arr fn.toArray), ("xi", Json.arr xi.toArray), ("phi", Json.arr phi.toArray)])

/-- NaN pattern of the `SSI_poles` tables (step 1) given how many values each order produced -/
def polesTableOp (j : Json) : Except String Json := do
  let ordmax ← natOfJson (← field j "ordmax")
  let lens ← listOf natOfJson (← field j "lens")
  let t := polesTable ordmax (fun c => List.replicate (lens.getD c 0) ())
  pure (listToJson (listToJson (fun (x : Option Unit) => Json.bool x.isSome)) t)

def ops : List (String × (Json → Except String Json)) :=
  [("ssi_fast", ssiFastOp), ("ssi_legacy", ssiLegacyOp), ("ac2mp", ac2mpOp), ("poles_table", polesTableOp)]

end PV.Ops.C01
