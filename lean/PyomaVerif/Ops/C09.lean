import PyomaVerif.Codec
import PyomaVerif.Model.Hc
open Lean PV PV.Codec PV.HcFn
namespace PV.Ops.C09

def tblOf {α} (f : Json → Except String α) (j : Json) : Except String (T α) :=
  listOf (listOf (fun c => match c with | .null => pure none | _ => do let v ← f c; pure (some v))) j

def cOfJson (j : Json) : Except String C := do
  let a ← j.getArr?
  if a.size = 2 then
    let re ← ratOfJson a[0]!
    let im ← ratOfJson a[1]!
    pure (re, im)
  else throw "complex pair expected"

def tblToJson {α} (f : α → Json) (t : T α) : Json :=
  listToJson (listToJson (fun x => match x with | none => Json.null | some v => f v)) t

def maskToJson (m : List (List Bool)) : Json := listToJson (listToJson (fun b => Json.bool b)) m
def cToJson (z : C) : Json := Json.arr #[ratToJson z.1, ratToJson z.2]

def hcDampOp (j : Json) : Except String Json := do
  let t ← tblOf ratOfJson (← field j "t")
  let mx ← ratOfJson (← field j "max")
  let (f, m) := hcDamp t mx
  pure (Json.mkObj [("filt", tblToJson ratToJson f), ("mask", maskToJson m)])

def hcCovOp (j : Json) : Except String Json := do
  let t ← tblOf ratOfJson (← field j "t")
  let mx ← ratOfJson (← field j "max")
  let (f, m) := hcCov t mx
  pure (Json.mkObj [("filt", tblToJson ratToJson f), ("mask", maskToJson m)])

def hcConjOp (j : Json) : Except String Json := do
  let t ← tblOf cOfJson (← field j "t")
  let (f, m) := hcConj t
  pure (Json.mkObj [("filt", tblToJson cToJson f), ("mask", maskToJson m)])

def hcPhiOp (j : Json) : Except String Json := do
  let mpd ← tblOf ratOfJson (← field j "mpd")
  let mpc ← tblOf ratOfJson (← field j "mpc")
  let mpcLim ← ratOfJson (← field j "mpc_lim")
  let mpdLim ← ratOfJson (← field j "mpd_lim")
  let (m3, m4) := hcPhiComp mpd mpc mpcLim mpdLim
  pure (Json.mkObj [("mask_mpd", maskToJson m3), ("mask_mpc", maskToJson m4)])

def applymaskOp (j : Json) : Except String Json := do
  let t ← tblOf ratOfJson (← field j "t")
  let m ← listOf (listOf boolOfJson) (← field j "mask")
  pure (tblToJson ratToJson (applymask t m))

def ops : List (String × (Json → Except String Json)) :=
  [("hc_damp", hcDampOp), ("hc_cov", hcCovOp), ("hc_conj", hcConjOp), ("hc_phi", hcPhiOp),
   ("applymask", applymaskOp)]

end PV.Ops.C09
