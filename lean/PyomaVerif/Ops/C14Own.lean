import PyomaVerif.Codec
import PyomaVerif.Model.PrepOwn
import PyomaVerif.Ops.C14
/-! Driver operations for the buffer-identity layer of C14 (`Model/PrepOwn.lean`): replay an operation list and report,
after `__init__` and after every call, who owns the buffers of `data` / `datasets` / the initial copy and which existing
buffers the call wrote into. -/
open Lean PV PV.Codec PV.Prep
namespace PV.Ops.C14Own
open PV.Ops.C14

def ownVariantOf (j : Json) : Except String OwnVariant :=
  match j with
  | .str "current" => pure OwnVariant.current
  | .str "repaired" => pure OwnVariant.repaired
  | .null => pure OwnVariant.current
  | _ => do
      pure { forwardOverwrite := (← boolOfJson (fieldD j "forwardOverwrite" (Json.bool true)))
             deepcopyInit := (← boolOfJson (fieldD j "deepcopyInit" (Json.bool true))) }

def ownerStr : Owner → String | .user => "user" | .init => "init" | .fresh => "fresh"

/-- the writes added by the last call (newest first in both lists). -/
def newWrites (before after : List Nat) : List Nat := after.take (after.length - before.length)

def sOwnToJson (outcome : String) (prev o : SOwn) (isAdd : Bool) : Json :=
  let nw := newWrites prev.writes o.writes
  Json.mkObj [("outcome", outcome),
    ("data_owner", ownerStr (o.owner o.dataId)),
    ("data_shares_user", Json.bool (o.dataId == 0)),
    ("data_shares_init", Json.bool (o.dataId == o.initId)),
    ("init_shares_user", Json.bool (o.initId == 0)),
    ("data_same_buffer", Json.bool (o.dataId == prev.dataId)),
    ("init_same_buffer", Json.bool (o.initId == prev.initId)),
    ("data_is_prev_init", Json.bool (o.dataId == prev.initId)),
    ("wrote_prev_data", Json.bool (nw.contains prev.dataId)),
    ("wrote_user", Json.bool (nw.contains 0)),
    ("wrote_init", Json.bool (nw.contains prev.initId || nw.contains o.initId)),
    ("bound_is_data", if isAdd then Json.bool (o.boundIds.head? == some o.dataId) else Json.null),
    ("bound_owner", if isAdd then (match o.boundIds.head? with
                                   | some b => Json.str (ownerStr (o.owner b)) | none => Json.null) else Json.null)]

/-- `{"op":"prep_single_own","variant":…,"own":"current"|"repaired"|{…},"n0":N,"nch":k,"fs0":"r","ops":[…]}`. -/
def prepSingleOwn (j : Json) : Except String Json := do
  let v ← variantOf (fieldD j "variant" Json.null)
  let ov ← ownVariantOf (fieldD j "own" Json.null)
  let c : SCfg := { n0 := ← natOfJson (← field j "n0"), nch := ← natOfJson (← field j "nch"),
                    fs0 := ← ratOfJson (← field j "fs0") }
  let ops ← listOf opOf (← field j "ops")
  let mut o := sOwnInit ov c
  let mut out : Array Json := #[sOwnToJson "ok" o o false]
  for op in ops do
    let outcome := match sStep v c o.st op with | .ok _ => "ok" | .error e => errStr e
    let o' := sOwnStep ov v c o op
    out := out.push (sOwnToJson outcome o o' (op == .add))
    o := o'
  pure (Json.arr out)

def boolsToJson (l : List Bool) : Json := listToJson Json.bool l

def mOwnToJson (k : Nat) (outcome : String) (prev o : MOwn) : Json :=
  let nw := newWrites prev.writes o.writes
  Json.mkObj [("outcome", outcome),
    ("ds_owner", listToJson (fun id => Json.str (ownerStr (o.owner k id))) o.dsIds),
    ("ds_user_index", listToJson (fun (id : Nat) => if id < k then Json.num (id : Int) else Json.null) o.dsIds),
    ("ds_same_buffer", boolsToJson (List.zipWith (· == ·) o.dsIds prev.dsIds)),
    ("ds_is_prev_init", boolsToJson (List.zipWith (· == ·) o.dsIds prev.initIds)),
    ("init_same_buffer", boolsToJson (List.zipWith (· == ·) o.initIds prev.initIds)),
    ("init_owner", listToJson (fun id => Json.str (ownerStr (o.owner k id))) o.initIds),
    ("wrote_prev_ds", boolsToJson (prev.dsIds.map nw.contains)),
    ("wrote_user", boolsToJson ((List.range k).map nw.contains)),
    ("wrote_init", Json.bool (nw.any (fun w => prev.initIds.contains w || o.initIds.contains w)))]

/-- `{"op":"prep_multi_own", …as prep_multi…, "own":…}`. -/
def prepMultiOwn (j : Json) : Except String Json := do
  let v ← variantOf (fieldD j "variant" Json.null)
  let ov ← ownVariantOf (fieldD j "own" Json.null)
  let c : MCfg := { n0 := ← listOf natOfJson (← field j "n0"), nch := ← listOf natOfJson (← field j "nch"),
                    fs0 := ← ratOfJson (← field j "fs0"),
                    refInd := ← listOf (listOf natOfJson) (← field j "ref_ind") }
  let ops ← listOf opOf (← field j "ops")
  let k := c.n0.length
  let mut o := mOwnInit ov c
  let mut out : Array Json := #[mOwnToJson k "ok" o o]
  for op in ops do
    let outcome := match mStep v c o.st op with | .ok _ => "ok" | .error e => errStr e
    let o' := mOwnStep ov v c o op
    out := out.push (mOwnToJson k outcome o o')
    o := o'
  pure (Json.arr out)

def ops : List (String × (Json → Except String Json)) :=
  [("prep_single_own", prepSingleOwn), ("prep_multi_own", prepMultiOwn)]

end PV.Ops.C14Own
