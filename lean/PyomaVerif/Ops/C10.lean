import PyomaVerif.Codec
import PyomaVerif.Model.Stab
open Lean PV PV.Codec
namespace PV.Ops.C10

/-- optional complex `[re, im]`, `null` = NaN -/
def ocqOfJson (j : Json) : Except String (Option CQ) :=
  match j with
  | .null => pure none
  | _ => do
    let a ← arrOf ratOfJson j
    if a.size = 2 then pure (some (a[0]!, a[1]!)) else throw "complex expected"

def ocqToJson : Option CQ → Json
  | none => Json.null
  | some z => Json.arr #[ratToJson z.1, ratToJson z.2]

/-- `rows × cols × d` nested array -/
def ten3Of {α} [Inhabited α] (f : Json → Except String α) (j : Json) (d : Nat) : Except String (Ten3 α) := do
  let data ← arrOf (arrOf (arrOf f)) j
  let r := data.size
  let c := if h : 0 < data.size then data[0].size else 0
  pure ⟨r, c, d, fun i o k => ((data[i]!)[o]!)[k]!⟩

def omatOfJson (j : Json) : Except String (Mat NR) := matOf oratOfJson j

/-- `{"op":"sc_apply","Fn","Xi","Phi","d","ordmin","ordmax","step","err_fn","err_xi","err_phi"}`
    → `{"lab": [[0/1]]}` or `{"exc": name}` -/
def scApplyOp (j : Json) : Except String Json := do
  let Fn ← omatOfJson (← field j "Fn")
  let Xi ← omatOfJson (← field j "Xi")
  let d ← natOfJson (← field j "d")
  let Phi ← ten3Of ocqOfJson (← field j "Phi") d
  let ordmin ← natOfJson (← field j "ordmin")
  let ordmax ← natOfJson (← field j "ordmax")
  let step ← natOfJson (← field j "step")
  let eF ← ratOfJson (← field j "err_fn")
  let eX ← ratOfJson (← field j "err_xi")
  let eP ← ratOfJson (← field j "err_phi")
  match scApply Fn Xi Phi ordmin ordmax step eF eX eP with
  | .error e => pure (Json.mkObj [("exc", Json.str e)])
  | .ok Lab => pure (Json.mkObj [("lab", matToJson (fun (n : Nat) => Json.num (n : Int)) Lab)])

/-- `{"op":"sc_mac","d","x","y"}` → rational or null -/
def scMacOp (j : Json) : Except String Json := do
  let d ← natOfJson (← field j "d")
  let x ← arrOf ocqOfJson (← field j "x")
  let y ← arrOf ocqOfJson (← field j "y")
  pure (oratToJson (scMac d (fun k => x[k]!) (fun k => y[k]!)))

def ops : List (String × (Json → Except String Json)) :=
  [("sc_apply", scApplyOp), ("sc_mac", scMacOp)]

end PV.Ops.C10
