import PyomaVerif.Codec
import PyomaVerif.Model.Poles
import PyomaVerif.Ops.C02
import PyomaVerif.Ops.C05
open Lean PV PV.Codec
/-! Driver operations for `Model/Poles.lean`: `ssi_poles`, `ssi_fast_lists`, `plscf_all`, `plscf_poles`,
`ssi_legacy_lists`. -/
namespace PV.Ops.Poles
open PV.Ops.C02 (cpxOfJson cpxToJson)
open PV.Poles PV.Plscf

def cmatOf (j : Json) : Except String (Mat (Cpx Rat)) := matOf cpxOfJson j

def recOfJson (j : Json) : Except String EigRec := do
  pure { lamd := ← listOf cpxOfJson (← field j "lamd"),
         L := ← cmatOf (← field j "L"),
         V := ← cmatOf (← field j "V"),
         lamc := ← listOf cpxOfJson (← field j "lamc"),
         absc := ← listOf ratOfJson (← field j "absc"),
         absd := ← listOf ratOfJson (← field j "absd") }

def uncOfJson (j : Json) : Except String (Option UncIn) :=
  match j with
  | .null => pure none
  | _ => do
    pure (some { Q1 := ← matOfJson (← field j "Q1"), Q2 := ← matOfJson (← field j "Q2"),
                 Q3 := ← matOfJson (← field j "Q3"), OO := ← listOf matOfJson (← field j "OO"),
                 pi := ← ratOfJson (← field j "pi"), dt := ← ratOfJson (← field j "dt") })

def cqToJson (z : CQ) : Json := Json.arr #[ratToJson z.1, ratToJson z.2]

def optTo {α} (f : α → Json) : Option α → Json
  | none => Json.null
  | some v => f v

def ten3ToJson {α} (f : α → Json) (t : Ten3 α) : Json :=
  Json.arr ((List.range t.r).map fun i => Json.arr ((List.range t.c).map fun c =>
    Json.arr ((List.range t.d).map fun k => f (t.e i c k)).toArray).toArray).toArray

/-- `{"op":"ssi_poles","AA":[..],"CC":[..],"ordmax":..,"step":..,"recs":[{lamd,L,V,lamc,absc,absd}],
    "twopi":..,"unc":null|{Q1,Q2,Q3,OO:[..],pi,dt}}` → `{"raises": cls}` or the tables and the
    `eig` arguments. -/
def ssiPolesOp (j : Json) : Except String Json := do
  let AA ← listOf matOfJson (← field j "AA")
  let CC ← listOf matOfJson (← field j "CC")
  let ordmax ← natOfJson (← field j "ordmax")
  let step ← natOfJson (← field j "step")
  let recs ← listOf recOfJson (← field j "recs")
  let twoPi ← ratOfJson (← field j "twopi")
  let unc ← uncOfJson (fieldD j "unc" Json.null)
  match ssiPoles ⟨AA, CC, ordmax, step, recs, twoPi, unc⟩ with
  | .error e => pure (Json.mkObj [("raises", Json.str e)])
  | .ok T =>
    pure (Json.mkObj [
      ("fn", matToJson oratToJson T.fn), ("xi", matToJson oratToJson T.xi),
      ("phi", ten3ToJson (optTo cqToJson) T.phi), ("lam", matToJson (optTo cqToJson) T.lam),
      ("fncov", optTo (matToJson oratToJson) T.fnCov), ("xicov", optTo (matToJson oratToJson) T.xiCov),
      ("phicov", optTo (ten3ToJson oratToJson) T.phiCov),
      ("eigargs", listToJson (optTo (matToJson ratToJson)) (ssiEigArgs AA ordmax step))])

/-- `{"op":"ssi_fast_lists","U","sq","Q","Rinv":[one per pass of the loop],"l","ordmax","step"}` →
    the lists `A`, `C` of `SSI_fast` -/
def fastListsOp (j : Json) : Except String Json := do
  let U ← matOfJson (← field j "U")
  let sq ← listOf ratOfJson (← field j "sq")
  let Q ← matOfJson (← field j "Q")
  let Rinv ← listOf matOfJson (← field j "Rinv")
  let l ← natOfJson (← field j "l")
  let ordmax ← natOfJson (← field j "ordmax")
  let step ← natOfJson (← field j "step")
  if step = 0 then pure (Json.mkObj [("raises", Json.str "ValueError")]) else
  let Obs := (obsOf U (fun k => sq.getD k 0) ordmax).force
  let Ri : Nat → Mat Rat := fun k => Rinv.getD k ⟨0, 0, fun _ _ => 0⟩
  let (As, Cs) := fastLists Ri Q Obs l ordmax step
  pure (Json.mkObj [("A", listToJson (matToJson ratToJson) As), ("C", listToJson (matToJson ratToJson) Cs)])

/-- `{"op":"ssi_legacy_lists","U":<all columns of U1>,"sq":[sqrt of ALL singular values],
    "pinv":[one per pass of the loop],"br","ordmax","step"}` → `{"raises": cls}` or the lists `A`, `C` of the
    legacy `ssi.SSI`.  A recorded `pinv` result without entries travels as `[]`; its shape
    (`min(ii, len(S1)) × (H.shape[0] − Nch)`, numpy's rule) is restored here. -/
def legacyListsOp (j : Json) : Except String Json := do
  let U ← matOfJson (← field j "U")
  let sq ← listOf ratOfJson (← field j "sq")
  let Pinv ← listOf matOfJson (← field j "pinv")
  let br ← natOfJson (← field j "br")
  let ordmax ← natOfJson (← field j "ordmax")
  let step ← natOfJson (← field j "step")
  let l := U.r / (br + 1)
  let Pi : Nat → Mat Rat := fun k =>
    let P := Pinv.getD k ⟨0, 0, fun _ _ => 0⟩
    if P.r = 0 ∨ P.c = 0 then ⟨min (k * step) sq.length, U.r - l, fun _ _ => 0⟩ else P
  match legacySSI Pi U sq br ordmax step with
  | .error e => pure (Json.mkObj [("raises", Json.str e)])
  | .ok (As, Cs) =>
    pure (Json.mkObj [("A", listToJson (matToJson ratToJson) As), ("C", listToJson (matToJson ratToJson) Cs),
      ("shapesA", listToJson (fun (m : Mat Rat) => Json.arr #[Json.num m.r, Json.num m.c]) As),
      ("shapesC", listToJson (fun (m : Mat Rat) => Json.arr #[Json.num m.r, Json.num m.c]) Cs)])

def coefsToJson (c : Coefs Rat) : Json :=
  Json.arr ((List.range c.len).map fun k => matToJson ratToJson ⟨c.r, c.c, c.blk k⟩).toArray

open PV.Ops.C05 (cxOfJson cxToJson coefsOfJson eigOfJson tblTo)

/-- `{"op":"plscf_all","Sy":[o][c][f],"ordmax":..,"sgn":..,"OmOf":[[s,[..]],..]}` → `{"raises"}` or
    `{"Ad":[..],"Bn":[..]}`; `OmOf` lists what `np.exp(s*1j*omega*dt)` gives for each sign `s`. -/
def plscfAllOp (j : Json) : Except String Json := do
  let Sy ← arrOf (arrOf (arrOf cxOfJson)) (← field j "Sy")
  let ordmax ← natOfJson (← field j "ordmax")
  let sgn ← intOfJson (← field j "sgn")
  let oms ← listOf (fun p => do
    let a ← p.getArr?
    if a.size = 2 then pure (← intOfJson a[0]!, ← arrOf cxOfJson a[1]!) else throw "pair expected")
    (← field j "OmOf")
  let Nref := Sy.size
  let Nch := if h : 0 < Sy.size then Sy[0].size else 0
  let Nf := if h : 0 < Sy.size then (if h2 : 0 < Sy[0].size then Sy[0][0].size else 0) else 0
  let OmOf : Int → Nat → Cx Rat := fun s f => match oms.lookup s with
    | some a => a[f]!
    | none => ⟨0, 0⟩
  match plscfAll Nch Nref Nf ordmax sgn OmOf (fun o c f => ((Sy[o]!)[c]!)[f]!) with
  | .error e => pure (Json.mkObj [("raises", Json.str e)])
  | .ok (Ad, Bn) =>
    pure (Json.mkObj [("Ad", listToJson coefsToJson Ad), ("Bn", listToJson coefsToJson Bn)])

/-- `{"op":"plscf_poles","Ad":[..],"Bn":[..],"eigs":[[{lamd,logv,q}]],"invdt","cor","invtau"}` →
    the padded tables (`sqrt := id`, `2π := 1` as in `plscf_ac2mp`), their numpy shape and the
    matrices handed to `np.linalg.eig`. -/
def plscfPolesOp (j : Json) : Except String Json := do
  let Ad ← listOf coefsOfJson (← field j "Ad")
  let Bn ← listOf coefsOfJson (← field j "Bn")
  let eigs ← listOf (listOf eigOfJson) (← field j "eigs")
  let invdt ← ratOfJson (← field j "invdt")
  let cor ← boolOfJson (← field j "cor")
  let invTau ← ratOfJson (← field j "invtau")
  match plscfPoles id 1 invdt cor invTau Ad Bn eigs with
  | .error e => pure (Json.mkObj [("raises", Json.str e)])
  | .ok (t, As) =>
    pure (Json.mkObj [("fn", tblTo ratToJson t.fn), ("xi", tblTo ratToJson t.xi),
      ("phi", tblTo (listToJson cxToJson) t.phi), ("lam", tblTo cxToJson t.lam),
      ("shape", Json.arr #[Json.num (tblMat t.fn).r, Json.num (tblMat t.fn).c]),
      ("eigargs", listToJson (matToJson ratToJson) As)])

def ops : List (String × (Json → Except String Json)) :=
  [("ssi_poles", ssiPolesOp), ("ssi_fast_lists", fastListsOp), ("plscf_all", plscfAllOp),
   ("plscf_poles", plscfPolesOp), ("ssi_legacy_lists", legacyListsOp)]

end PV.Ops.Poles
