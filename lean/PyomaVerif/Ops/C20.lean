import PyomaVerif.Codec
import PyomaVerif.Model.PlotModel
open Lean PV PV.Codec PV.Plot
namespace PV.Ops.C20

def omatOfJson (j : Json) : Except String (Mat (Option Rat)) := matOf oratOfJson j
def imatOfJson (j : Json) : Except String (Mat Int) := matOf intOfJson j

def xyToJson (l : List (Option Rat × Nat)) : Json :=
  listToJson (fun p => Json.arr #[oratToJson p.1, toJson p.2]) l

def xxToJson (l : List (Option Rat × Option Rat)) : Json :=
  listToJson (fun p => Json.arr #[oratToJson p.1, oratToJson p.2]) l

def barToJson (l : List (Option Rat × Nat × Option Rat)) : Json :=
  listToJson (fun p => Json.arr #[oratToJson p.1, toJson p.2.1, oratToJson p.2.2]) l

/-- `{"op":"stab_markers","Fn":[[..]],"Lab":[[..]],"step":s,"hide":b,"cov":null|[[..]]}` -/
def stabOp (j : Json) : Except String Json := do
  let Fn ← omatOfJson (← field j "Fn")
  let Lab ← imatOfJson (← field j "Lab")
  let step ← natOfJson (← field j "step")
  let hide ← boolOfJson (← field j "hide")
  let cj := fieldD j "cov" Json.null
  let cov ← match cj with
    | .null => pure none
    | _ => do let c ← omatOfJson cj; pure (some c)
  let d := stabMarkers Fn Lab step hide cov
  pure (Json.mkObj [
    ("stable", xyToJson d.stable),
    ("unstable", match d.unstable with | none => Json.null | some u => xyToJson u),
    ("bars", listToJson barToJson d.bars)])

/-- `{"op":"cluster_markers","Fn":..,"Xi":..,"Lab":..,"hide":b}` -/
def clusterOp (j : Json) : Except String Json := do
  let Fn ← omatOfJson (← field j "Fn")
  let Xi ← omatOfJson (← field j "Xi")
  let Lab ← imatOfJson (← field j "Lab")
  let hide ← boolOfJson (← field j "hide")
  let d := clusterMarkers Fn Xi Lab hide
  pure (Json.mkObj [
    ("stable", xxToJson d.1),
    ("unstable", match d.2 with | none => Json.null | some u => xxToJson u)])

/-- `{"op":"cmif_curves","S":[[S[k,k,f] ..]..],"n":shape1,"nf":nf,"nSv":null|int}`
    → `{"curves":[[..]]}` or `{"raise":msg}`. -/
def cmifOp (j : Json) : Except String Json := do
  let S ← matOfJson (← field j "S")
  let n ← natOfJson (← field j "n")
  let nf ← natOfJson (← field j "nf")
  let nj := fieldD j "nSv" Json.null
  let nSv ← match nj with
    | .null => pure none
    | _ => do let v ← intOfJson nj; pure (some v)
  match cmifCurves n nf S.e nSv with
  | .ok cs => pure (Json.mkObj [("curves", listToJson (listToJson ratToJson) cs)])
  | .error e => pure (Json.mkObj [("raise", Json.str e)])

def ops : List (String × (Json → Except String Json)) :=
  [("stab_markers", stabOp), ("cluster_markers", clusterOp), ("cmif_curves", cmifOp)]

end PV.Ops.C20
