import PyomaVerif.Codec
import PyomaVerif.Model.BuildHank
open Lean PV PV.Codec PV.Unc
namespace PV.Ops.BuildHank

/-- `a + b·√d` with rational `a`, `b` (`d` any integer; for `d < 0` the root is `i·√|d|`): the scalars in
    which `1/N**0.5 = √N/N` is exact, so that the driver runs `buildHank` with the factor `1/N**0.5` INSIDE
    each stacked matrix, as the code does. -/
structure QS (d : Int) where
  a : Rat
  b : Rat
  deriving Inhabited

namespace QS
variable {d : Int}
instance : Zero (QS d) := ⟨⟨0, 0⟩⟩
instance : NatCast (QS d) := ⟨fun n => ⟨(n : Rat), 0⟩⟩
instance : Add (QS d) := ⟨fun x y => ⟨x.a + y.a, x.b + y.b⟩⟩
instance : Sub (QS d) := ⟨fun x y => ⟨x.a - y.a, x.b - y.b⟩⟩
instance : Mul (QS d) := ⟨fun x y => ⟨x.a * y.a + (d : Rat) * x.b * y.b, x.a * y.b + x.b * y.a⟩⟩
/-- `x / y = x·(c − e√d) / (c² − d e²)` -/
instance : Div (QS d) := ⟨fun x y =>
  let n := y.a * y.a - (d : Rat) * y.b * y.b
  let z : QS d := x * ⟨y.a, -y.b⟩
  ⟨z.a / n, z.b / n⟩⟩
def ofRat (x : Rat) : QS d := ⟨x, 0⟩
end QS

def qsMat {d : Int} (M : Mat Rat) : Mat (QS d) := ⟨M.r, M.c, fun i j => QS.ofRat (M.e i j)⟩

/-- a `QS` matrix as `{"r","c","a","b"}` (the two rational coefficient matrices) -/
def qsMatToJson {d : Int} (M0 : Mat (QS d)) : Json :=
  let M := M0.force
  Json.mkObj [("r", Json.num M.r), ("c", Json.num M.c),
    ("a", matToJson ratToJson ⟨M.r, M.c, fun i j => (M.e i j).a⟩),
    ("b", matToJson ratToJson ⟨M.r, M.c, fun i j => (M.e i j).b⟩)]

def errStr : HankErr → String
  | .attrUnc => "AttributeError:unc"
  | .attrMethod => "AttributeError:method"
  | .zeroDiv => "ZeroDivisionError"
  | .valueErr => "ValueError"
  | .typeErr => "TypeError"

/-- `{"op":"build_hank","Y","Yref","p","method","calc_unc":"off"|"on"|"truthy","nb","R": recorded qr output or null,"Rc": its column count}`
    → `{"status":"ok","N","hank":{r,c,a,b},"cplx","T": "none"|"nonfinite"|{r,c,a,b},"qrarg":{…}|null}` or
    `{"status":"error","exc":…}`.  Scalars are `QS N` with `rs N = √N/N` exactly; `sT = 1`, so `T` is reported times
    `sqrt(nb(nb−1))`; entries are `a + b·√N`. -/
def buildHankOp (j : Json) : Except String Json := do
  let Y ← matOfJson (← field j "Y")
  let Yr ← matOfJson (← field j "Yref")
  let p ← natOfJson (← field j "p")
  let method ← strOfJson (← field j "method")
  let cu ← strOfJson (← field j "calc_unc")
  let flag ← match cu with
    | "off" => pure UncFlag.off
    | "on" => pure UncFlag.on
    | "truthy" => pure UncFlag.truthy
    | s => throw s!"calc_unc {s}"
  let nb ← natOfJson (← field j "nb")
  let Rj := fieldD j "R" Json.null
  let Rrec0 ← if Rj.isNull then pure (⟨0, 0, fun _ _ => 0⟩ : Mat Rat) else matOfJson Rj
  -- a recorded factor with no rows still has its column count (`"Rc"`; a JSON list of no rows cannot carry it)
  let Rc ← match (fieldD j "Rc" Json.null) with
    | .null => pure Rrec0.c
    | v => natOfJson v
  let Rrec : Mat Rat := ⟨Rrec0.r, Rc, Rrec0.e⟩
  let N : Int := (Y.c : Int) - p - (p + 1)
  let rs : Int → QS N := fun n => if n = N then ⟨0, 1 / (N : Rat)⟩ else ⟨0, 0⟩
  let Yq : Mat (QS N) := qsMat Y
  let Yrq : Mat (QS N) := qsMat Yr
  let qrarg := match buildHankQrArg rs Yq Yrq p with
    | .ok A => if method = "dat" then qsMatToJson A else Json.null
    | .error _ => Json.null
  match buildHank rs (⟨1, 0⟩ : QS N) (fun _ => qsMat Rrec) Yq Yrq p method flag nb with
  | .error e => pure (Json.mkObj [("status", "error"), ("exc", errStr e)])
  | .ok o =>
    let T := match o.T with
      | .none => Json.str "none"
      | .nonFinite => Json.str "nonfinite"
      | .factor T => qsMatToJson T
    pure (Json.mkObj [("status", "ok"), ("N", Json.num (JsonNumber.fromInt N)), ("hank", qsMatToJson o.hank),
      ("cplx", Json.bool o.cplx), ("T", T), ("qrarg", qrarg)])

def ops : List (String × (Json → Except String Json)) := [("build_hank", buildHankOp)]

end PV.Ops.BuildHank
