import PyomaVerif.Codec
import PyomaVerif.Model.Hankel
import PyomaVerif.Model.Unc
import PyomaVerif.Model.Cpx
import PyomaVerif.Ops.C02
import PyomaVerif.Ops.C17
open Lean PV PV.Codec PV.Unc
namespace PV.Ops.C17Table

def cvecOf (j : Json) : Except String (Nat → Cpx Rat) := do
  let a ← arrOf PV.Ops.C02.cpxOfJson j
  pure fun i => a.getD i 0

def orderRecOf (j : Json) : Except String (OrderRec Rat (Cpx Rat)) := do
  let lamd ← arrOf PV.Ops.C02.cpxOfJson (← field j "lamd")
  let lamc ← cvecOf (← field j "lamc")
  let absd ← PV.Ops.C17.vecOfJson (← field j "absd")
  let absc ← PV.Ops.C17.vecOfJson (← field j "absc")
  let lv ← matOf PV.Ops.C02.cpxOfJson (← field j "lv")
  let rv ← matOf PV.Ops.C02.cpxOfJson (← field j "rv")
  let oo ← matOfJson (← field j "oo")
  let npoles ← natOfJson (← field j "np")
  pure ⟨npoles, fun i => lamd.getD i 0, lamc, absd, absc, lv, rv, oo⟩

def tabToJson (ordmax : Nat) (t : Nat → Nat → Option Rat) : Json :=
  matToJson oratToJson (⟨ordmax, ordmax + 1, t⟩ : Mat (Option Rat))

/-- `{"op":"unc_table","Q1","Q2","Q3","ordmax","pi","dt","orders":[{np,lamd,lamc,absd,absc,lv,rv,oo} for
    ii = 1..ordmax]}` → the tables `Fn_cov`, `Xi_cov` of `SSI_poles` (`null` = NaN), or `indexerror`. -/
def uncTable (j : Json) : Except String Json := do
  let Q1 ← matOfJson (← field j "Q1")
  let Q2 ← matOfJson (← field j "Q2")
  let Q3 ← matOfJson (← field j "Q3")
  let o ← natOfJson (← field j "ordmax")
  let pi ← ratOfJson (← field j "pi")
  let dt ← ratOfJson (← field j "dt")
  let ords ← arrOf orderRecOf (← field j "orders")
  let dflt : OrderRec Rat (Cpx Rat) := ⟨0, fun _ => 0, fun _ => 0, fun _ => 0, fun _ => 0, zeros 0 0,
    zeros 0 0, zeros 0 0⟩
  let recs : Nat → OrderRec Rat (Cpx Rat) := fun ii => ords.getD (ii - 1) dflt
  let absR : Rat → Rat := fun x => if x < 0 then -x else x
  match covTables Cpx.ofReal Cpx.re Cpx.im Cpx.conj absR pi dt o Q1 Q2 Q3 recs with
  | none => pure (Json.mkObj [("status", "indexerror")])
  | some t => pure (Json.mkObj [("status", "ok"), ("Fn_cov", tabToJson o t.fn), ("Xi_cov", tabToJson o t.xi)])

/-- `{"op":"unc_blocks","Y","Yref","p","nb"}` → `Nb`, the column ranges `[start, stop)` of `Yf`, `Yp` that
    enter block `k`, the range that enters no block, and the explicit-sum block estimates `blockEstR`
    (exact `1/N` applied afterwards, as in `unc_factor`). -/
def uncBlocks (j : Json) : Except String Json := do
  let Y ← matOfJson (← field j "Y")
  let Yr ← matOfJson (← field j "Yref")
  let p ← natOfJson (← field j "p")
  let nb ← natOfJson (← field j "nb")
  if nb = 0 then throw "nb = 0"
  let N := Y.c - p - (p + 1)
  let Nb := N / nb
  let Yf := hankYf Y p 1
  let Yp := hankYp Y.c Yr p 1
  let byN (M : Mat Rat) : Mat Rat := ⟨M.r, M.c, fun i k => M.e i k / (N : Rat)⟩
  let rng (ab : Nat × Nat) : Json := Json.arr #[Json.num ab.1, Json.num ab.2]
  pure (Json.mkObj [("N", Json.num N), ("Nb", Json.num Nb), ("ncols", Json.num Yf.c),
    ("ranges", Json.arr ((List.range nb).map fun k => rng (blockCols Yf.c Nb k)).toArray),
    ("leftover", rng (leftoverCols Yf.c Nb nb)),
    ("blocks", Json.arr ((List.range nb).map fun k =>
      matToJson ratToJson (byN (blockEstR Yf Yp N Nb k))).toArray)])

def ops : List (String × (Json → Except String Json)) :=
  [("unc_table", uncTable), ("unc_blocks", uncBlocks)]

end PV.Ops.C17Table
