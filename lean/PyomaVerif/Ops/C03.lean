import PyomaVerif.Codec
import PyomaVerif.Model.Multi
import PyomaVerif.Model.Realise
open Lean PV PV.Codec PV.Multi
namespace PV.Ops.C03

def natList (l : List Nat) : Json := listToJson (fun (n : Nat) => toJson n) l

def preSplitOp (j : Json) : Except String Json := do
  let n ← natOfJson (← field j "n")
  let ref ← listOf natOfJson (← field j "ref")
  match preSplit n ref with
  | some (r, m) => pure (Json.mkObj [("ref", natList r), ("mov", natList m)])
  | none => throw "rejected"

def rowsOp (j : Json) : Except String Json := do
  let br ← natOfJson (← field j "br")
  let nref ← natOfJson (← field j "nref")
  let nmov ← natOfJson (← field j "nmov")
  pure (Json.mkObj [("ref_rows", natList (refRows br nref nmov)), ("mov_rows", natList (movRows br nref nmov))])

def allRowsOp (j : Json) : Except String Json := do
  let br ← natOfJson (← field j "br")
  let nref ← natOfJson (← field j "nref")
  let nmov ← listOf natOfJson (← field j "nmov")
  pure (listToJson (fun s => match s with
    | RowSrc.ref r => Json.arr #[Json.str "ref", toJson r]
    | RowSrc.mov k r => Json.arr #[Json.str "mov", toJson k, toJson r]) (allRows br nref nmov))

def rebaseOp (j : Json) : Except String Json := do
  let Omov ← matOfJson (← field j "Omov")
  let P ← matOfJson (← field j "pinv")
  let O1 ← matOfJson (← field j "O1ref")
  pure (matToJson ratToJson (rebase Omov P O1))

/-- the realisation tail of `SSI_multi_setup`: given `Obs_all`, the recorded `Q` and `inv(R[:n,:n])` -/
def fastFromObsOp (j : Json) : Except String Json := do
  let Obs ← matOfJson (← field j "Obs")
  let Q ← matOfJson (← field j "Q")
  let Rinv ← listOf matOfJson (← field j "Rinv")
  let l ← natOfJson (← field j "l")
  let ordmax ← natOfJson (← field j "ordmax")
  let Om := (dnPart Obs l).force
  let S := (Mat.mul (Mat.transpose Q) Om).force
  let As := (List.range (ordmax + 1)).map fun n =>
    let Ri := (Rinv.getD n ⟨0, 0, fun _ _ => 0⟩)
    matToJson ratToJson (Mat.mul ⟨n, n, Ri.e⟩ (leadBlock S n))
  let Cs := (List.range (ordmax + 1)).map fun n => matToJson ratToJson (outC Obs l n)
  pure (Json.mkObj [("A", Json.arr As.toArray), ("C", Json.arr Cs.toArray)])

def ops : List (String × (Json → Except String Json)) :=
  [("pre_split", preSplitOp), ("multi_rows", rowsOp), ("multi_all_rows", allRowsOp),
   ("multi_rebase", rebaseOp), ("fast_from_obs", fastFromObsOp)]

end PV.Ops.C03
