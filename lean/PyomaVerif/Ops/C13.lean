import PyomaVerif.Codec
import PyomaVerif.Model.Spectral
/-! Driver operations of C13: the polymorphic model of `fdd.SD_est` run with `Float`
    (twiddles by `Float.cos/sin`, exponential window by `Float.exp`). Floats travel as the
    exact rationals of their values. -/
open Lean PV PV.Codec
namespace PV.Ops.C13

instance : NatCast Float := ⟨Float.ofNat⟩
instance : Inhabited (CxS Float) := ⟨⟨0, 0⟩⟩

/-- exact conversion of a dyadic rational (any rational: correctly rounded quotient of the
    rounded parts) -/
def ratToFloat (q : Rat) : Float :=
  let d := q.den
  let l := d.log2
  if d = 2 ^ l then (Float.ofInt q.num).scaleB (-(l : Int)) else Float.ofInt q.num / Float.ofNat d

/-- exact rational of a finite float -/
def floatToJson (x : Float) : Json :=
  if x.isNaN || x.isInf then Json.null else
  let (m, e) := x.frExp
  let z : Int := (m.scaleB 53).toInt64.toInt
  let ex : Int := e - 53
  let q : Rat := if ex ≥ 0 then (z : Rat) * ((2 ^ ex.toNat : Nat) : Rat) else (z : Rat) / ((2 ^ (-ex).toNat : Nat) : Rat)
  ratToJson q

def floatOfJson (j : Json) : Except String Float := do
  let q ← ratOfJson j
  pure (ratToFloat q)

def cxToJson (z : CxS Float) : Json := Json.arr #[floatToJson z.re, floatToJson z.im]

def pi : Float := 3.141592653589793

/-- table of `exp(−2πi·m/n)`, `m < n` (looked up modulo `n` by the callers) -/
def twiddleTab (n : Nat) : Array (CxS Float) := Array.ofFn (n := n) fun m =>
  let a := 2 * pi * Float.ofNat m.1 / Float.ofNat n
  ⟨Float.cos a, -Float.sin a⟩

def tabulate {α} (n : Nat) (f : Nat → α) : Array α := Array.ofFn (n := n) fun i => f i.1

/-- `int(nxseg * pov)` as the implementation computes it (double product, truncation). -/
def perNoverlap (nxseg : Nat) (pov : Float) : Nat := (Float.ofNat nxseg * pov).floor.toUInt64.toNat

def specToJson (S : Spec Float) : Json :=
  Json.mkObj [
    ("freq", Json.arr ((List.range S.nf).map fun k => floatToJson (S.freq k)).toArray),
    ("Sy", Json.arr ((List.range S.nall).map fun i =>
      Json.arr ((List.range S.nref).map fun j =>
        Json.arr ((List.range S.nf).map fun k => cxToJson (S.e i j k)).toArray).toArray).toArray)]

/-- `{"op":"sd_per","Yall":..,"Yref":..,"dt":..,"nxseg":..,"pov":..}` -/
def sdPerOp (j : Json) : Except String Json := do
  let Ya ← matOf floatOfJson (← field j "Yall")
  let Yr ← matOf floatOfJson (← field j "Yref")
  let dt ← floatOfJson (← field j "dt")
  let nxseg ← natOfJson (← field j "nxseg")
  let pov ← floatOfJson (← field j "pov")
  if Ya.c ≠ Yr.c then throw "reshape: Yall and Yref differ in length"
  if Yr.c < nxseg then throw "outside the modelled domain: record shorter than one segment"
  let nov := perNoverlap nxseg pov
  if nov ≥ nxseg then throw "ValueError: noverlap must be less than nperseg"
  let twT := twiddleTab nxseg
  let S := sdEstPer Ya.force Yr.force dt nxseg nov (fun m => twT[m % nxseg]!)
  pure (specToJson S)

/-- `{"op":"sd_cor","Yall":..,"Yref":..,"dt":..,"nxseg":..,"direct":bool}`; with `direct` the entries are
    evaluated through `sdEstCor` itself (no intermediate arrays; small sizes only). -/
def sdCorOp (j : Json) : Except String Json := do
  let Ya ← matOf floatOfJson (← field j "Yall")
  let Yr ← matOf floatOfJson (← field j "Yref")
  let dt ← floatOfJson (← field j "dt")
  let nxseg ← natOfJson (← field j "nxseg")
  if Ya.c ≠ Yr.c then throw "reshape: Yall and Yref differ in length"
  if Yr.c < nxseg then throw "outside the modelled domain: record shorter than one segment"
  if nxseg < 2 then throw "outside the modelled domain: nxseg < 2"
  let m := nxseg / 2 + 1
  let n2 := 2 * (m - 1)
  let twT := twiddleTab nxseg
  let tw2T := twiddleTab n2
  let tw : Nat → CxS Float := fun q => twT[q % nxseg]!
  let tw2 : Nat → CxS Float := fun q => tw2T[q % n2]!
  let tau : Float := -(Float.ofNat n2) / Float.log 0.01
  let ewT := tabulate n2 fun t => Float.exp (-(Float.ofNat t) / tau)
  let ew : Nat → Float := fun t => ewT[t]!
  let Ya := Ya.force
  let Yr := Yr.force
  let S := sdEstCor Ya Yr dt nxseg tw tw2 ew
  let direct ← boolOfJson (fieldD j "direct" (Json.bool false))
  -- the same composition as `sdEstCor`, with the two intermediate arrays materialised
  let rows : Array (Array (Array (CxS Float))) := tabulate Ya.r fun i => tabulate Yr.r fun j =>
    if direct then tabulate S.nf (S.e i j) else
    let PT := tabulate m (corPxy Ya Yr nxseg tw i j)
    let RT := tabulate n2 (fun t => irfft m tw2 (fun k => PT[k]!) t * ew t)
    tabulate S.nf (fun k => dft n2 tw2 (fun t => CxS.ofReal RT[t]!) k)
  pure (Json.mkObj [
    ("freq", Json.arr ((List.range S.nf).map fun k => floatToJson (S.freq k)).toArray),
    ("Sy", Json.arr (rows.map fun r => Json.arr (r.map fun l => Json.arr (l.map cxToJson))))])

def ops : List (String × (Json → Except String Json)) :=
  [("sd_per", sdPerOp), ("sd_cor", sdCorOp)]

end PV.Ops.C13
