import PyomaVerif.Codec
import PyomaVerif.Model.EfddRect
import PyomaVerif.Ops.C07All
open Lean PV PV.Codec PV.Fdd PV.Efdd PV.Ops.C06 PV.Ops.C07 PV.Ops.C07All
/-! Driver operation for `Efdd.efddMpeR` (rectangular `Sy`); the library calls recorded by the
    harness become the fields of `Efdd.Ext` exactly as in `Ops/C07All`. -/
namespace PV.Ops.C07Rect

/-- `{"op":"efdd_mpe_rect","method","method_sy","nr","nc","nf","Sy":[i][j][l],"freq","dt","sel":[…],
     "DF1","DF2","cm","MAClim","sppk","npmax", "svd","sqrt","log","pi","tw","rs","fit"}`:
    the composed model `Efdd.efddMpeR`; also the first stage (`Fdd.fddMpe nr nc` on the model's
    own `svalsvecR`), per returned mode `SDOFms1` (`Efdd.sdofMs`, `nf × nr`) and the arguments at
    which the model evaluates `sqrt` for `xi`/`fn`. -/
def efddRectOp (j : Json) : Except String Json := do
  let m := methodOf (← strOfJson (← field j "method"))
  let ms := syMethodOf (← strOfJson (← field j "method_sy"))
  let nr ← natOfJson (← field j "nr")
  let nc ← natOfJson (← field j "nc")
  let nf ← natOfJson (← field j "nf")
  let Sy ← arrOf (arrOf (arrOf cxOfJson)) (← field j "Sy")
  let freq ← arrOf ratOfJson (← field j "freq")
  let dt ← ratOfJson (← field j "dt")
  let sel ← listOf ratOfJson (← field j "sel")
  let DF1 ← ratOfJson (← field j "DF1")
  let DF2 ← ratOfJson (← field j "DF2")
  let cm ← natOfJson (← field j "cm")
  let lim ← ratOfJson (← field j "MAClim")
  let sppk ← natOfJson (← field j "sppk")
  let npmax ← natOfJson (← field j "npmax")
  let (E, tab) ← extOfJson j nf
  if freq.size ≠ nf then throw "freq must have length nf"
  let SyF : Nat → Nat → Nat → Cx Rat := fun i k l => ((Sy[i]!)[k]!)[l]!
  for k in List.range nf do
    if (svdLookup tab nr nc (fun i jj => SyF i jj k)).isNone then
      throw s!"svd-arg-not-recorded: no recorded np.linalg.svd call has Sy[:, :, {k}] as its argument"
  match svalsvecR E nr nc nf SyF with
  | .error e => pure (Json.mkObj [("error", Json.str e), ("first", Json.null)])
  | .ok sv =>
    let first : Json := match fddMpe nr nc nf (fun i => freq[i]!) sv.1 sv.2 sel DF1 with
      | .error e => Json.mkObj [("error", Json.str e)]
      | .ok l => listToJson modeToJson l
    match efddMpeR E m ms nr nc nf SyF (fun i => freq[i]!) dt sel DF1 DF2 cm lim sppk npmax with
    | .error e => pure (Json.mkObj [("error", Json.str e), ("first", first)])
    | .ok l =>
      let args := l.map fun mo =>
        Json.mkObj [("arg1", ratToJson (((4 : Nat) : Rat) * (E.pi * E.pi) + mo.lam * mo.lam)),
          ("arg2", ratToJson (((1 : Nat) : Rat) - mo.xi * mo.xi))]
      let mss := (List.zip sel l).map fun sm =>
        listToJson (fun l_ => listToJson (fun i =>
          cxToJson (sdofMs m nr cm nf dt sv.2 (fun i => sm.2.phi.getD i 0) sm.1 DF2 lim l_ i)) (List.range nr))
          (List.range nf)
      pure (Json.mkObj [("modes", listToJson modeAllToJson l), ("first", first),
        ("sqrt_args", Json.arr args.toArray), ("ms", Json.arr mss.toArray)])

def ops : List (String × (Json → Except String Json)) :=
  [("efdd_mpe_rect", efddRectOp)]

end PV.Ops.C07Rect
