import PyomaVerif.Codec
import PyomaVerif.Model.C08
import PyomaVerif.Model.Plscf
import PyomaVerif.Model.Fdd
import PyomaVerif.Ops.C01
import PyomaVerif.Ops.C05
open Lean PV PV.Codec
namespace PV.Ops.C08
open PV.Ops.C02 (cpxOfJson cpxToJson)
open PV.Ops.C01 (cmatOf)
open PV.Ops.C05 (cxOfJson cxToJson optOf optTo)

/-- `ssi.ac2mp` with the `dt` step in the model:
    `{"C":…, "V":…, "loglam":[[re,im]…], "invdt":…, "abs":[…], "twopi":…}` → `{"fn","xi","phi","lam"}` -/
def ac2mpOp (j : Json) : Except String Json := do
  let C ← cmatOf (← field j "C")
  let V ← cmatOf (← field j "V")
  let ll ← listOf cpxOfJson (← field j "loglam")
  let invdt ← ratOfJson (← field j "invdt")
  let absLam ← listOf ratOfJson (← field j "abs")
  let twoPi ← ratOfJson (← field j "twopi")
  let o := ac2mpSsi C V ll invdt absLam twoPi
  pure (Json.mkObj [("fn", listToJson ratToJson o.fn), ("xi", listToJson ratToJson o.xi),
    ("phi", listToJson (listToJson cpxToJson) o.phi), ("lam", listToJson cpxToJson o.lam)])

def fcxOfJson (j : Json) : Except String (Fdd.Cx Rat) := do
  let a ← j.getArr?
  if a.size = 2 then pure ⟨← ratOfJson a[0]!, ← ratOfJson a[1]!⟩ else throw "complex pair expected"

/-- the three unity normalisers on one un-normalised vector `v`:
    `kind = "ssi"` — `PV.normalise` (`ssi.ac2mp`); `"plscf"` — the normalisation inside `Plscf.phiCell` for a
    kept column (`C = I`, `q = v`); `"fdd"` — `Fdd.normalise` (`fdd.FDD_mpe`).
    → `{"k": index np.argmax(abs(v)) picks, "out": normalised vector or null (NaN)}` -/
def normaliseOp (j : Json) : Except String Json := do
  let kind ← strOfJson (← field j "kind")
  match kind with
  | "ssi" =>
    let v ← listOf cpxOfJson (← field j "v")
    pure (Json.mkObj [("k", toJson (argmaxNormSq v)), ("out", listToJson cpxToJson (normalise v))])
  | "plscf" =>
    let v ← listOf cxOfJson (← field j "v")
    let n := v.length
    let C : Mat Rat := ⟨n, n, fun a t => if a = t then 1 else 0⟩
    pure (Json.mkObj [("k", toJson (Plscf.argmaxAbs (Plscf.phiRaw C v))),
      ("out", optTo (listToJson cxToJson) (Plscf.phiCell C (some ⟨-1, 0⟩) v))])
  | "fdd" =>
    let v ← arrOf fcxOfJson (← field j "v")
    let n := v.size
    let phi : Nat → Fdd.Cx Rat := fun i => v.getD i ⟨0, 0⟩
    let out := (Fdd.normalise n phi).map fun f => (List.range n).map f
    pure (Json.mkObj [("k", toJson (Fdd.argmaxTo n (fun i => (phi i).normSq))),
      ("out", optTo (listToJson (fun (z : Fdd.Cx Rat) => Json.arr #[ratToJson z.re, ratToJson z.im])) out)])
  | _ => throw "kind"

def ops : List (String × (Json → Except String Json)) :=
  [("c08_ac2mp", ac2mpOp), ("c08_normalise", normaliseOp)]

end PV.Ops.C08
