import PyomaVerif.Codec
import PyomaVerif.Model.PlotFacts
/-!
Driver operations for the C20 model facts of depth round 2: the limits the three plotting functions
set on their axes, and the decibel ordinates of `CMIF_plot` (IEEE doubles, travelling as bit patterns:
`-inf` for an exact zero of a singular value).
-/
open Lean PV PV.Codec PV.Plot
namespace PV.Ops.C20Facts

def limOfJson (j : Json) : Except String (Option (Rat × Rat)) :=
  match j with
  | .null => pure none
  | _ => do
    let a ← arrOf ratOfJson j
    if a.size = 2 then pure (some (a[0]!, a[1]!)) else throw "freqlim = [lo, hi] expected"

def limitsToJson (l : Limits) : Json :=
  Json.mkObj [
    ("xlim", match l.xlim with | none => Json.null | some p => Json.arr #[ratToJson p.1, ratToJson p.2]),
    ("ylim", match l.ylim with | none => Json.null | some p => Json.arr #[toJson p.1, toJson p.2])]

/-- `{"op":"plot_limits","fn":"stab"|"cluster"|"cmif","freqlim":null|[lo,hi],"hide":b,"ordmin":i,"ordmax":i}` -/
def limitsOp (j : Json) : Except String Json := do
  let fn ← strOfJson (← field j "fn")
  let lim ← limOfJson (fieldD j "freqlim" Json.null)
  if fn = "stab" then
    let hide ← boolOfJson (← field j "hide")
    let ordmin ← intOfJson (← field j "ordmin")
    let ordmax ← intOfJson (← field j "ordmax")
    pure (limitsToJson (stabLimits lim hide ordmin ordmax))
  else if fn = "cluster" then pure (limitsToJson (clusterLimits lim))
  else if fn = "cmif" then pure (limitsToJson (cmifLimits lim))
  else throw s!"plot_limits: unknown fn {fn}"

/-- `{"op":"cmif_db","S":..,"n":..,"nf":..,"nSv":null|int}` → `{"curves":[[bits..]..]}` or `{"raise":msg}`:
    `cmifCurvesDb 10 log10Float` -/
def cmifDbOp (j : Json) : Except String Json := do
  let S ← matOfJson (← field j "S")
  let n ← natOfJson (← field j "n")
  let nf ← natOfJson (← field j "nf")
  let nj := fieldD j "nSv" Json.null
  let nSv ← match nj with
    | .null => pure none
    | _ => do let v ← intOfJson nj; pure (some v)
  match cmifCurvesDb (10.0 : Float) log10Float n nf S.e nSv with
  | .ok cs => pure (Json.mkObj [("curves",
      listToJson (listToJson fun (x : Float) => (toJson (x.toBits.toNat : Nat))) cs)])
  | .error e => pure (Json.mkObj [("raise", Json.str e)])

def ops : List (String × (Json → Except String Json)) :=
  [("plot_limits", limitsOp), ("cmif_db", cmifDbOp)]

end PV.Ops.C20Facts
