import PyomaVerif.Ops.C13
import PyomaVerif.Model.SpectralM
/-! Driver operation `sd_est`: the dispatching model `sdEstM` of `fdd.SD_est` run with `Float`
    (`int()` = truncation of the double, `exp`/`log` of libm, twiddles by `cos/sin`).  An exception of the real
    function is a RESULT here (`{"raise": class, "why": …}`) so that the harness compares the class. -/
open Lean PV PV.Codec
namespace PV.Ops.C13M
open PV.Ops.C13

/-- Python `int(x)` of a finite double: truncation towards zero -/
def truncF (x : Float) : Int :=
  if x < 0 then -(((-x).floor.toUInt64.toNat : Nat) : Int) else ((x.floor.toUInt64.toNat : Nat) : Int)

def envF (nxseg : Nat) : SdEnv Float :=
  let n2 := 2 * (nxseg / 2)
  let twT := twiddleTab nxseg
  let tw2T := twiddleTab n2
  { trunc := truncF, expf := Float.exp, logf := Float.log
    tw := fun q => twT[q % nxseg]!
    tw2 := fun q => tw2T[q % n2]! }

def errToJson : SdErr → Json
  | .unboundLocal => Json.mkObj [("raise", "UnboundLocalError"), ("why", "freq")]
  | .valueError w => Json.mkObj [("raise", "ValueError"), ("why", w)]
  | .unmodelled w => Json.mkObj [("raise", "unmodelled"), ("why", w)]

/-- `{"op":"sd_est","Yall":..,"Yref":..,"dt":..,"nxseg":..,"method":str,"pov":..}` →
    `{"freq":..,"Sy":..,"noverlap":int}` or `{"raise":..,"why":..}` -/
def sdEstOp (j : Json) : Except String Json := do
  let Ya ← matOf floatOfJson (← field j "Yall")
  let Yr ← matOf floatOfJson (← field j "Yref")
  let dt ← floatOfJson (← field j "dt")
  let nxseg ← natOfJson (← field j "nxseg")
  let method ← strOfJson (← field j "method")
  let pov ← floatOfJson (← field j "pov")
  match sdEstM (envF nxseg) method Ya.force Yr.force dt nxseg pov with
  | .error e => pure (errToJson e)
  | .ok S =>
    let rows : Array (Array (Array (CxS Float))) := tabulate S.nall fun i => tabulate S.nref fun jj =>
      tabulate S.nf (S.e i jj)
    pure (Json.mkObj [
      ("freq", Json.arr ((List.range S.nf).map fun k => floatToJson (S.freq k)).toArray),
      ("Sy", Json.arr (rows.map fun r => Json.arr (r.map fun l => Json.arr (l.map cxToJson)))),
      ("noverlap", toJson (perNoverlap truncF nxseg pov))])

/-- `{"op":"sd_noverlap","nxseg":..,"pov":..}` → `int(nxseg * pov)` of the model -/
def novOp (j : Json) : Except String Json := do
  let nxseg ← natOfJson (← field j "nxseg")
  let pov ← floatOfJson (← field j "pov")
  pure (toJson (perNoverlap truncF nxseg pov))

/-- `{"op":"sd_expwin","M":..}` → `exponential(M, center=0, tau=-M/log(0.01), sym=False)` of the model -/
def expWinOp (j : Json) : Except String Json := do
  let M ← natOfJson (← field j "M")
  pure (Json.arr ((List.range M).map fun t => floatToJson (expWin Float.exp Float.log M t)).toArray)

def ops : List (String × (Json → Except String Json)) :=
  [("sd_est", sdEstOp), ("sd_noverlap", novOp), ("sd_expwin", expWinOp)]

end PV.Ops.C13M
