import PyomaVerif.Codec
import PyomaVerif.Model.Cpx
import PyomaVerif.Model.Merge
import PyomaVerif.Model.MergeDriver
open Lean PV PV.Codec PV.Merge
namespace PV.Ops.C02

def cpxOfJson (j : Json) : Except String (Cpx Rat) := do
  let a ← j.getArr?
  if a.size = 2 then
    pure ⟨← ratOfJson a[0]!, ← ratOfJson a[1]!⟩
  else throw "complex pair expected"

def cpxToJson (z : Cpx Rat) : Json := Json.arr #[ratToJson z.re, ratToJson z.im]

def msfOp (j : Json) : Except String Json := do
  let x ← listOf cpxOfJson (← field j "phi1")
  let y ← listOf cpxOfJson (← field j "phi2")
  if x.length ≠ y.length then throw "shape"
  pure (cpxToJson (msf Cpx.realPart x y))

/-- `{"phis": [setup][row][mode] complex, "refs": [[..]..]}` → merged `[row][mode]`
    (`Merge.mergeModeShapesQ`); the error is the name of the exception numpy raises. -/
def mergeOp (j : Json) : Except String Json := do
  let phis ← listOf (listOf (listOf cpxOfJson)) (← field j "phis")
  let refs ← listOf (listOf natOfJson) (← field j "refs")
  let m ← mergeModeShapesQ phis refs
  pure (listToJson (listToJson cpxToJson) m)

def flattenOp (j : Json) : Except String Json := do
  let names ← listOf (listOf strOfJson) (← field j "names")
  let refs ← listOf (listOf natOfJson) (← field j "refs")
  if refs.length < names.length then throw "IndexError"
  pure (listToJson Json.str (flattenNames names (refs.take names.length)))

def statsOp (j : Json) : Except String Json := do
  let xs ← listOf ratOfJson (← field j "xs")
  pure (Json.mkObj [("mean", ratToJson (mean xs)), ("pvar", ratToJson (pvar xs))])

/-- the `np.sqrt` the driver runs `merge_results` with: the rational square root to 40 digits
    (`⌊√(n·d·10⁸⁰)⌋ / (d·10⁴⁰)` for `x = n/d ≥ 0`); the theorems take `sqrt` as a parameter with
    the exact contract, the harness checks that this one satisfies it to 1e-30. -/
def ratSqrt (x : Rat) : Rat :=
  if x ≤ 0 then 0 else
    let S : Nat := 10 ^ 40
    ((Nat.sqrt (x.num.toNat * x.den * S * S) : Nat) : Rat) / ((x.den * S : Nat) : Rat)

def sqrtOp (j : Json) : Except String Json := do
  pure (ratToJson (ratSqrt (← ratOfJson (← field j "x"))))

def algResOfJson (j : Json) : Except String (AlgRes Rat (Cpx Rat)) := do
  pure ⟨← listOf ratOfJson (← field j "Fn"), ← listOf ratOfJson (← field j "Xi"),
        ← listOf (listOf cpxOfJson) (← field j "Phi")⟩

/-- `{"names": [..], "setups": [setup][algorithm]{Fn, Xi, Phi}, "ref_ind": [[..]..]}` →
    `[[name, {Phi, Fn, Fn_cov, Xi, Xi_cov}], ..]` in dictionary order (`Merge.mergeResultsQ`) -/
def mergeResultsOp (j : Json) : Except String Json := do
  let names ← listOf strOfJson (← field j "names")
  let setups ← listOf (listOf algResOfJson) (← field j "setups")
  let refInd ← listOf (listOf natOfJson) (← field j "ref_ind")
  let out ← mergeResultsQ ratSqrt names setups refInd
  pure (listToJson (fun (g : String × PoserRes Rat (Cpx Rat)) => Json.arr #[Json.str g.1, Json.mkObj [
      ("Phi", listToJson (listToJson cpxToJson) g.2.Phi),
      ("Fn", listToJson ratToJson g.2.Fn), ("Fn_cov", listToJson ratToJson g.2.Fn_cov),
      ("Xi", listToJson ratToJson g.2.Xi), ("Xi_cov", listToJson ratToJson g.2.Xi_cov)]]) out)

def ops : List (String × (Json → Except String Json)) :=
  [("msf", msfOp), ("merge_mode_shapes", mergeOp), ("flatten_names_ms", flattenOp), ("poser_stats", statsOp),
   ("poser_merge_results", mergeResultsOp), ("rat_sqrt", sqrtOp)]

end PV.Ops.C02
