import PyomaVerif.Codec
import PyomaVerif.Model.Cpx
import PyomaVerif.Model.Merge
open Lean PV PV.Codec PV.Merge
namespace PV.Ops.C02

def cpxOfJson (j : Json) : Except String (Cpx Rat) := do
  let a ← j.getArr?
  if a.size = 2 then
    pure ⟨← ratOfJson a[0]!, ← ratOfJson a[1]!⟩
  else throw "complex pair expected"

def cpxToJson (z : Cpx Rat) : Json := Json.arr #[ratToJson z.re, ratToJson z.im]

def msfOp (j : Json) : Except String Json := do
  let x ← listOf cpxOfJson (← field j "phi1")
  let y ← listOf cpxOfJson (← field j "phi2")
  if x.length ≠ y.length then throw "shape"
  pure (cpxToJson (msf Cpx.realPart x y))

/-- `{"phis": [setup][row][mode] complex, "refs": [[..]..]}` → merged `[row][mode]`;
    errors where numpy raises (index out of range, fewer reference lists than setups). -/
def mergeOp (j : Json) : Except String Json := do
  let phis ← listOf (listOf (listOf cpxOfJson)) (← field j "phis")
  let refs ← listOf (listOf natOfJson) (← field j "refs")
  if refs.length < phis.length then throw "IndexError"
  let nmodes := ((phis.headD []).headD []).length
  for (p, r) in phis.zip refs do
    for i in r do
      if i ≥ p.length then throw "IndexError"
    for row in p do
      if row.length ≠ nmodes then throw "ValueError"
  let cols := (List.range nmodes).map fun k =>
    mergedCol Cpx.realPart (phis.map (fun p => p.map (fun row => row.getD k default))) (refs.take phis.length)
  -- transpose back to [row][mode]
  let nrows := (cols.headD []).length
  pure (Json.arr ((List.range nrows).map fun r =>
    Json.arr ((cols.map fun c => cpxToJson (c.getD r default)).toArray)).toArray)

def flattenOp (j : Json) : Except String Json := do
  let names ← listOf (listOf strOfJson) (← field j "names")
  let refs ← listOf (listOf natOfJson) (← field j "refs")
  if refs.length < names.length then throw "IndexError"
  pure (listToJson Json.str (flattenNames names (refs.take names.length)))

def statsOp (j : Json) : Except String Json := do
  let xs ← listOf ratOfJson (← field j "xs")
  pure (Json.mkObj [("mean", ratToJson (mean xs)), ("pvar", ratToJson (pvar xs))])

def ops : List (String × (Json → Except String Json)) :=
  [("msf", msfOp), ("merge_mode_shapes", mergeOp), ("flatten_names_ms", flattenOp), ("poser_stats", statsOp)]

end PV.Ops.C02
