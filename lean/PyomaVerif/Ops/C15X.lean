import PyomaVerif.Codec
import PyomaVerif.Model.OrchX
import PyomaVerif.Lemmas.OrchX
import PyomaVerif.Ops.C15
/-! Driver operations for the extended orchestration alphabet (`Model/OrchX.lean`): as `Ops/C15.lean`, the
uninterpreted `run` / `mpe` / `mpe_from_plot` / preprocessing are *symbolic terms* which the harness evaluates with the
real classes, stand-alone.  The term languages get one constructor each for `mpe_from_plot`. -/
open Lean PV PV.Codec PV.Orch
namespace PV.Ops.C15X
open PV.Ops.C15 (DTerm boundToJson excName outName optStr)

inductive PTermX where
  | base (id : String)
  | mpeP (cls : String) (p : PTermX) (a : String)
  | plotP (cls : String) (p : PTermX) (a : String)
  deriving Repr, Inhabited

inductive RTermX where
  | run (cls : String) (p : PTermX) (d : DTerm)
  | mpe (cls : String) (p : PTermX) (b : Bound DTerm) (r : RTermX) (a : String)
  | plot (cls : String) (p : PTermX) (b : Bound DTerm) (r : RTermX) (a : String)
  deriving Inhabited

def PTermX.toJson : PTermX → Json
  | .base id => Json.arr #[Json.str "base", Json.str id]
  | .mpeP c p a => Json.arr #[Json.str "mpeP", Json.str c, p.toJson, Json.str a]
  | .plotP c p a => Json.arr #[Json.str "plotP", Json.str c, p.toJson, Json.str a]

def RTermX.toJson : RTermX → Json
  | .run c p d => Json.arr #[Json.str "run", Json.str c, p.toJson, d.toJson]
  | .mpe c p b r a => Json.arr #[Json.str "mpe", Json.str c, p.toJson, boundToJson b, r.toJson, Json.str a]
  | .plot c p b r a => Json.arr #[Json.str "plot", Json.str c, p.toJson, boundToJson b, r.toJson, Json.str a]

/-- term semantics; `unguarded` / `unguardedPlot` list the classes whose `mpe` / `mpe_from_plot` store before they
    check (both empty = the repaired tree, which is what `AllGuarded` / `PlotGuarded` describe). -/
def termSemX (unguarded unguardedPlot : List String) : SemX String PTermX DTerm RTermX String String where
  run := RTermX.run
  mpeRes := RTermX.mpe
  mpeParams := PTermX.mpeP
  guarded c := !(unguarded.contains c)
  pre := DTerm.pre
  plotParams := PTermX.plotP
  plotRes := RTermX.plot
  plotGuarded c := !(unguardedPlot.contains c)

abbrev TOpX := OpX String PTermX String String
abbrev TStateX := State String PTermX DTerm RTermX

def opOfJson (j : Json) : Except String TOpX := do
  let k ← strOfJson (← field j "k")
  match k with
  | "add" =>
    let p ← optStr j "p"
    pure (.base (.add (← strOfJson (← field j "n")) (← strOfJson (← field j "c")) (p.map PTermX.base)))
  | "inject" =>
    let p ← optStr j "p"
    pure (.base (.inject (← strOfJson (← field j "n")) (← strOfJson (← field j "c")) (p.map PTermX.base)
      (← boolOfJson (fieldD j "none" (Json.bool false)))))
  | "run" => pure (.base (.runByName (← strOfJson (← field j "n"))))
  | "run_all" => pure (.base .runAll)
  | "mpe" => pure (.base (.mpe (← strOfJson (← field j "n")) (← strOfJson (← field j "a"))))
  | "pre" => pure (.base (.pre (← strOfJson (← field j "q"))))
  | "rollback" => pure (.base .rollback)
  | "readd" => pure (.readd (← strOfJson (← field j "n")))
  | "set_params" =>
    let p ← optStr j "p"
    pure (.setParams (← strOfJson (← field j "n")) (p.map PTermX.base))
  | "plot" => pure (.mpeFromPlot (← strOfJson (← field j "n")) (← strOfJson (← field j "a")))
  | _ => throw s!"unknown op kind {k}"

def popt : Option PTermX → Json
  | none => Json.null
  | some p => p.toJson

def pid : Option PTermX → Json
  | some (.base id) => Json.str id
  | some p => p.toJson
  | none => Json.null

def opToJson : TOpX → Json
  | .base (.add n c p) => Json.mkObj [("k", "add"), ("n", n), ("c", c), ("p", pid p)]
  | .base (.inject n c p b) => Json.mkObj [("k", "inject"), ("n", n), ("c", c), ("p", pid p), ("none", Json.bool b)]
  | .base (.runByName n) => Json.mkObj [("k", "run"), ("n", n)]
  | .base .runAll => Json.mkObj [("k", "run_all")]
  | .base (.mpe n a) => Json.mkObj [("k", "mpe"), ("n", n), ("a", a)]
  | .base (.pre q) => Json.mkObj [("k", "pre"), ("q", q)]
  | .base .rollback => Json.mkObj [("k", "rollback")]
  | .readd n => Json.mkObj [("k", "readd"), ("n", n)]
  | .setParams n p => Json.mkObj [("k", "set_params"), ("n", n), ("p", pid p)]
  | .mpeFromPlot n a => Json.mkObj [("k", "plot"), ("n", n), ("a", a)]

def entryToJson (ke : String × Entry String PTermX DTerm RTermX) : Json :=
  Json.mkObj [("n", ke.1), ("c", ke.2.cls), ("p", popt ke.2.params), ("b", boundToJson ke.2.bound),
    ("r", match ke.2.result with | none => Json.null | some r => r.toJson)]

def stateToJson (o : Outcome) (s : TStateX) : Json :=
  Json.mkObj [("out", outName o), ("data", s.data.toJson), ("algs", Json.arr (s.algs.map entryToJson).toArray)]

def strList (j : Json) (k : String) : Except String (List String) :=
  match j.getObjVal? k with
  | .ok v => listOf strOfJson v
  | .error _ => pure []

/-- `{"op":"orch_trace_x","ops":[…]}` → outcome and state after every call on `SingleSetup(data, fs)`. -/
def traceOp (j : Json) : Except String Json := do
  let ops ← listOf opOfJson (← field j "ops")
  let sx := termSemX (← strList j "unguarded") (← strList j "unguarded_plot")
  pure (Json.arr ((traceX sx ops (State.new DTerm.init)).map fun os => stateToJson os.1 os.2).toArray)

/-- `{"op":"orch_proj_x","ops":[…],"n":name}` → the history as algorithm `n` sees it (`C15_history_independent_x`). -/
def projOp (j : Json) : Except String Json := do
  let ops ← listOf opOfJson (← field j "ops")
  let n ← strOfJson (← field j "n")
  let sx := termSemX (← strList j "unguarded") (← strList j "unguarded_plot")
  pure (Json.arr ((projX sx n ops (State.new DTerm.init)).map opToJson).toArray)

def ops : List (String × (Json → Except String Json)) :=
  [("orch_trace_x", traceOp), ("orch_proj_x", projOp)]

end PV.Ops.C15X
