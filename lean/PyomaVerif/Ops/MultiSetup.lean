import PyomaVerif.Codec
import PyomaVerif.Model.MultiSetup
/-!
Driver operation `ssi_multi_setup`: `PV.MultiSetup.ssiMultiSetup` on SYMBOLIC per-setup records (entry `(row, col)`
of `Y[kk]["ref"]` is the label `((2·kk)·1000 + row)·100000 + col`, of `Y[kk]["mov"]` the label
`((2·kk + 1)·1000 + row)·100000 + col`) and the recorded `svd` / `sqrt` / `pinv` / `qr` / `inv` results as exact rationals.

`{"op":"ssi_multi_setup","Y":[{"ref":[rows, cols],"mov":[rows, cols]},…],"br","ordmax","step",
  "U":[mat per pass],"sq":[[…] per pass],"P":[mat per pass],"Q":mat,"R":mat,"Rshape":[rows, cols],"Rinv":[mat per order pass]}`
→ `{"raises": msg}` or `{"head","hank":[{"Y_all","Y_ref"}],"pinvargs","Obs_all","qrarg","invargs","A","C"}`.
-/
open Lean PV PV.Codec PV.MsGather PV.MultiSetup
namespace PV.Ops.MultiSetup

def label (kk part row col : Nat) : Nat := ((2 * kk + part) * 1000 + row) * 100000 + col

def natMat (m : Mat Nat) : Json := matToJson (fun (n : Nat) => toJson n) m

def shapeOfJson (j : Json) : Except String (Nat × Nat) := do
  let a ← arrOf natOfJson j
  if a.size ≠ 2 then throw "shape: [rows, cols] expected"
  pure (a[0]!, a[1]!)

def setupOfJson (kk : Nat) (j : Json) : Except String (Setup Nat) := do
  let r ← shapeOfJson (← field j "ref")
  let m ← shapeOfJson (← field j "mov")
  pure ⟨⟨r.1, r.2, fun a t => label kk 0 a t⟩, ⟨m.1, m.2, fun a t => label kk 1 a t⟩⟩

def emptyMat : Mat Rat := ⟨0, 0, fun _ _ => 0⟩

def ratMat (m : Mat Rat) : Json := matToJson ratToJson m

def ssiMultiSetupOp (j : Json) : Except String Json := do
  let Yj ← arrOf pure (← field j "Y")
  let Y ← (List.range Yj.size).mapM fun kk => setupOfJson kk Yj[kk]!
  let br ← natOfJson (← field j "br")
  let ordmax ← natOfJson (← field j "ordmax")
  let step ← natOfJson (← field j "step")
  let U ← listOf matOfJson (← field j "U")
  let sq ← listOf (listOf ratOfJson) (← field j "sq")
  let P ← listOf matOfJson (← field j "P")
  let Q ← matOfJson (← field j "Q")
  let R0 ← matOfJson (← field j "R")
  -- a recorded factor without entries (`O_p` without rows) travels as `[]`: its shape is restored from "Rshape"
  let rs ← shapeOfJson (fieldD j "Rshape" (toJson [R0.r, R0.c]))
  let R : Mat Rat := ⟨rs.1, rs.2, R0.e⟩
  let Rinv ← listOf matOfJson (← field j "Rinv")
  let rc : MsRec Rat := { U := fun k => U.getD k emptyMat, sq := fun k => sq.getD k [], P := fun k => P.getD k emptyMat,
                          Q := Q, R := R, Rinv := fun k => Rinv.getD k emptyMat }
  match ssiMultiSetup Y br ordmax step rc with
  | .error e => pure (Json.mkObj [("raises", Json.str e)])
  | .ok o =>
    let h := o.head
    pure (Json.mkObj [
      ("head", Json.mkObj [("n_setup", toJson h.n_setup), ("n_ref", toJson h.n_ref), ("n_mov", toJson h.n_mov),
        ("n_DOF", toJson h.n_DOF)]),
      ("hank", listToJson (fun (a : Mat Nat × Mat Nat) => Json.mkObj [("Y_all", natMat a.1), ("Y_ref", natMat a.2)]) o.hankArgs),
      ("pinvargs", listToJson ratMat o.pinvArgs),
      ("Obs_all", ratMat o.obsAll), ("obs_shape", toJson [o.obsAll.r, o.obsAll.c]),
      ("qrarg", ratMat o.qrArg), ("invargs", listToJson ratMat o.invArgs),
      ("A", listToJson ratMat o.A), ("C", listToJson ratMat o.C),
      ("Cshapes", listToJson (fun (m : Mat Rat) => toJson [m.r, m.c]) o.C)])

def ops : List (String × (Json → Except String Json)) := [("ssi_multi_setup", ssiMultiSetupOp)]

end PV.Ops.MultiSetup
