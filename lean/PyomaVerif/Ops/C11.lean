import PyomaVerif.Codec
import PyomaVerif.Model.Mpe
import PyomaVerif.Model.MpePy
import PyomaVerif.Ops.C10
open Lean PV PV.Codec PV.Ops.C10
namespace PV.Ops.C11

def orderOfJson (j : Json) : Except String MpeOrder :=
  match j with
  | .str "find_min" => pure .findMin
  | .arr _ => do pure (.list (← listOf natOfJson j))
  | _ => do pure (.int (← natOfJson j))

/-- the Python object passed as `order`: `"find_min"`, an integer, `true`/`false`, a list of integers; any other
    JSON value (`null`, another string, an object such as `{"other": "int64"}`, a non-integer number) is `other`. -/
def pyOrderOfJson (j : Json) : Except String PyOrder :=
  match j with
  | .str "find_min" => pure .findMin
  | .bool b => pure (.bool b)
  | .arr _ => do pure (.list (← listOf intOfJson j))
  | .num _ => match j.getInt? with
    | .ok i => pure (.int i)
    | .error _ => pure .other
  | _ => pure .other

def shapeToJson (s : List Nat) : Json := Json.arr (s.map fun (n : Nat) => Json.num n).toArray

def shapesToJson (s : MpeShapes) : Json :=
  Json.mkObj ([("fn", shapeToJson s.fn), ("xi", shapeToJson s.xi), ("phi", shapeToJson s.phi)] ++
    match s.cov with
    | some (a, b, c) => [("fn_cov", shapeToJson a), ("xi_cov", shapeToJson b), ("phi_cov", shapeToJson c)]
    | none => [])

def orderOutToJson : OrderOut → Json
  | .none => Json.null
  | .int o => Json.num o
  | .arr os => Json.mkObj [("arr", Json.arr (os.map fun (o : Int) => Json.num o).toArray)]

def labOfJson (j : Json) : Except String (Option (Mat Int)) :=
  match j with
  | .null => pure none
  | _ => do pure (some (← matOf intOfJson j))

def covOfJson (j : Json) : Except String (Option MpeCov) :=
  match j with
  | .null => pure none
  | _ => do
    let fn ← omatOfJson (← field j "fn")
    let xi ← omatOfJson (← field j "xi")
    let d ← natOfJson (← field j "d")
    let phi ← ten3Of oratOfJson (← field j "phi") d
    pure (some ⟨fn, xi, phi⟩)

def outToJson (r : Except String MpeOut) (shapes : MpeOut → MpeShapes) : Json :=
  match r with
  | .error e => Json.mkObj [("exc", Json.str e)]
  | .ok out => Json.mkObj [
      ("shapes", shapesToJson (shapes out)),
      ("fn", listToJson oratToJson out.acc.fn),
      ("xi", listToJson oratToJson out.acc.xi),
      ("phi", listToJson (listToJson ocqToJson) out.acc.phi),
      ("fn_cov", listToJson oratToJson out.acc.fnCov),
      ("xi_cov", listToJson oratToJson out.acc.xiCov),
      ("phi_cov", listToJson (listToJson oratToJson) out.acc.phiCov),
      ("order_out", orderOutToJson out.orderOut)]

/-- `{"op":"ssi_mpe","freq","Fn","Xi","Phi","d","order","Lab","rtol","cov"}` -/
def ssiMpeOp (j : Json) : Except String Json := do
  let freq ← listOf ratOfJson (← field j "freq")
  let Fn ← omatOfJson (← field j "Fn")
  let Xi ← omatOfJson (← field j "Xi")
  let d ← natOfJson (← field j "d")
  let Phi ← ten3Of ocqOfJson (← field j "Phi") d
  let order ← pyOrderOfJson (← field j "order")
  let Lab ← labOfJson (fieldD j "Lab" Json.null)
  let rtol ← ratOfJson (← field j "rtol")
  let cov ← covOfJson (fieldD j "cov" Json.null)
  pure (outToJson (ssiMpePy freq Fn Xi Phi order Lab rtol cov) (ssiShapes order cov.isSome))

/-- `{"op":"plscf_mpe","freq","Fn","Xi","Phi","d","order","Lab","deltaf","rtol"}` -/
def plscfMpeOp (j : Json) : Except String Json := do
  let freq ← listOf ratOfJson (← field j "freq")
  let Fn ← omatOfJson (← field j "Fn")
  let Xi ← omatOfJson (← field j "Xi")
  let d ← natOfJson (← field j "d")
  let Phi ← ten3Of ocqOfJson (← field j "Phi") d
  let order ← pyOrderOfJson (← field j "order")
  let Lab ← labOfJson (fieldD j "Lab" Json.null)
  let deltaf ← ratOfJson (← field j "deltaf")
  let rtol ← ratOfJson (← field j "rtol")
  pure (outToJson (plscfMpePy freq Fn Xi Phi order Lab deltaf rtol) plscfShapes)

def ops : List (String × (Json → Except String Json)) :=
  [("ssi_mpe", ssiMpeOp), ("plscf_mpe", plscfMpeOp)]

end PV.Ops.C11
