import PyomaVerif.Codec
import PyomaVerif.Model.FddAll
import PyomaVerif.Ops.C07All
open Lean PV PV.Codec PV.Fdd PV.Efdd PV.Ops.C06 PV.Ops.C07All
/-! Driver operation for the composed model `Fdd.fddOfSpec` (`SD_svalsvec` then `FDD_mpe`); the
    recorded `np.linalg.svd` / `np.sqrt` calls become the fields of `Efdd.Ext` as in `Ops/C07All`
    (`svd` looked up by exact match of its ARGUMENT with `Sy[:, :, k]`). -/
namespace PV.Ops.C06All

/-- `{"op":"fdd_of_spec","nr","nc","nf","Sy":[i][j][k],"freq","sel":[…],"DF","svd":[{A,U,S}],
     "sqrt":[[arg,val]]}` → `{"modes":[{lo,hi,idx,mx,fn,phi}]}` or `{"error"}` -/
def fddOfSpecOp (j : Json) : Except String Json := do
  let nr ← natOfJson (← field j "nr")
  let nc ← natOfJson (← field j "nc")
  let nf ← natOfJson (← field j "nf")
  let Sy ← arrOf (arrOf (arrOf cxOfJson)) (← field j "Sy")
  let freq ← arrOf ratOfJson (← field j "freq")
  let sel ← listOf ratOfJson (← field j "sel")
  let DF ← ratOfJson (← field j "DF")
  let (E, tab) ← extOfJson j 0
  let SyF : Nat → Nat → Nat → Cx Rat := fun i k l => ((Sy[i]!)[k]!)[l]!
  if nc ≤ nr then
    for k in List.range nf do
      if (svdLookup tab nr nc (fun i jj => SyF i jj k)).isNone then
        throw s!"svd-arg-not-recorded: no recorded np.linalg.svd call has Sy[:, :, {k}] as its argument"
  match fddOfSpec E nr nc nf SyF (fun i => freq[i]!) sel DF with
  | .error e => pure (Json.mkObj [("error", Json.str e)])
  | .ok l => pure (Json.mkObj [("modes", listToJson modeToJson l)])

def ops : List (String × (Json → Except String Json)) :=
  [("fdd_of_spec", fddOfSpecOp)]

end PV.Ops.C06All
