import PyomaVerif.Codec
import PyomaVerif.Model.Indicators
open Lean PV PV.Codec
namespace PV.Ops.C18

def cxOfJson (j : Json) : Except String (Cx Rat) := do
  let a ← arrOf ratOfJson j
  if a.size = 2 then pure ⟨a[0]!, a[1]!⟩ else throw "complex = [re, im] expected"

def vecOfJson (j : Json) : Except String (Nat × (Nat → Cx Rat)) := do
  let a ← arrOf cxOfJson j
  pure (a.size, fun k => a[k]!)

/-- `{"vec": [[re,im],..]}` | `{"mat": [[[re,im],..],..]}` | `{"ndim": k, "d0": n}` -/
def phiOfJson (j : Json) : Except String (Phi (Cx Rat)) :=
  match j.getObjVal? "vec" with
  | .ok v => do let (n, f) ← vecOfJson v; pure (.vec n f)
  | .error _ =>
    match j.getObjVal? "mat" with
    | .ok m => do
        let r ← natOfJson (← field j "r")
        let c ← natOfJson (← field j "c")
        let M ← matOf cxOfJson m
        pure (.mat ⟨r, c, M.e⟩)
    | .error _ => do
        let k ← natOfJson (← field j "ndim")
        let d ← natOfJson (← field j "d0")
        pure (.nd k d)

def exc (s : String) : Json := Json.mkObj [("exc", Json.str s)]

def macOp (j : Json) : Except String Json := do
  let X ← phiOfJson (← field j "X")
  let A ← phiOfJson (← field j "A")
  match mac X A with
  | .error e => pure (exc e)
  | .ok (.scalar x) => pure (Json.mkObj [("scalar", oratToJson x)])
  | .ok (.matrix m) => pure (Json.mkObj [("matrix", matToJson oratToJson m), ("r", m.r), ("c", m.c)])

def msfOp (j : Json) : Except String Json := do
  let a ← phiOfJson (← field j "P1")
  let b ← phiOfJson (← field j "P2")
  match msf a b with
  | .error e => pure (exc e)
  | .ok l => pure (Json.mkObj [("values", listToJson oratToJson l)])

def mcfOp (j : Json) : Except String Json := do
  let a ← phiOfJson (← field j "P")
  match mcf a with
  | .error e => pure (exc e)
  | .ok l => pure (Json.mkObj [("values", listToJson oratToJson l)])

/-- `np.cov`, MPC with the recorded eigenvalues (`null` eigenvalues: closed form only), closed form -/
def mpcOp (j : Json) : Except String Json := do
  let (n, φ) ← vecOfJson (← field j "phi")
  let S := cov2 n φ
  let l0 ← oratOfJson (fieldD j "l0" Json.null)
  let l1 ← oratOfJson (fieldD j "l1" Json.null)
  let viaEig : Option Rat := match l0, l1 with
    | some a, some b => mpc? n φ a b
    | _, _ => none
  pure (Json.mkObj [("S", listToJson ratToJson [S.a, S.b, S.d]), ("eig", oratToJson viaEig),
    ("closed", oratToJson (mpcClosed? n φ))])

def mpdArgOp (j : Json) : Except String Json := do
  let (n, φ) ← vecOfJson (← field j "phi")
  let v01 ← ratOfJson (← field j "v01")
  let v11 ← ratOfJson (← field j "v11")
  pure (listToJson oratToJson ((List.range n).map fun k => mpdArgSq? (φ k) v01 v11))

def floatOfBits (j : Json) : Except String Float := do
  let n ← natOfJson j
  pure (Float.ofBits n.toUInt64)

/-- `mpd` over IEEE doubles; numbers travel as their 64-bit patterns -/
def mpdFloatOp (j : Json) : Except String Json := do
  let a ← arrOf (arrOf floatOfBits) (← field j "phi")
  let v01 ← floatOfBits (← field j "v01")
  let v11 ← floatOfBits (← field j "v11")
  let φ : Nat → Cx Float := fun k => ⟨(a[k]!)[0]!, (a[k]!)[1]!⟩
  let r := mpd a.size φ v01 v11
  pure (Json.mkObj [("bits", (r.toBits.toNat : Nat))])

def obitsToJson : Option Float → Json
  | none => Json.null
  | some x => Json.mkObj [("bits", (x.toBits.toNat : Nat))]

/-- `mpd?` over IEEE doubles with the recorded direction: `null` = NaN (`0/0`) -/
def mpdOptFloatOp (j : Json) : Except String Json := do
  let a ← arrOf (arrOf floatOfBits) (← field j "phi")
  let v01 ← floatOfBits (← field j "v01")
  let v11 ← floatOfBits (← field j "v11")
  let φ : Nat → Cx Float := fun k => ⟨(a[k]!)[0]!, (a[k]!)[1]!⟩
  pure (Json.mkObj [("mpd", obitsToJson (mpd? a.size φ v01 v11))])

/-- the whole of `gen.MPD` over IEEE doubles, nothing recorded: Gram matrix, closed-form minor
    direction (`Sym2.minorDir`), `mpd?`.  Also returns the direction and the two eigenvalues of
    the Gram matrix (squares of the singular values). -/
def mpdClosedFloatOp (j : Json) : Except String Json := do
  let a ← arrOf (arrOf floatOfBits) (← field j "phi")
  let φ : Nat → Cx Float := fun k => ⟨(a[k]!)[0]!, (a[k]!)[1]!⟩
  let G := gram2 a.size φ
  let v := G.minorDir
  let l := G.eigvals Float.sqrt
  pure (Json.mkObj [("mpd", obitsToJson (mpdClosed? a.size φ)),
    ("v01", (v.1.toBits.toNat : Nat)), ("v11", (v.2.toBits.toNat : Nat)),
    ("l0", (l.1.toBits.toNat : Nat)), ("l1", (l.2.toBits.toNat : Nat))])

/-- `Sym2.eigvals` over IEEE doubles: the closed form of `np.linalg.eigvals([[a,b],[b,d]])` -/
def eigvalsFloatOp (j : Json) : Except String Json := do
  let a ← floatOfBits (← field j "a")
  let b ← floatOfBits (← field j "b")
  let d ← floatOfBits (← field j "d")
  let l := (⟨a, b, d⟩ : Sym2 Float).eigvals Float.sqrt
  pure (Json.mkObj [("l0", (l.1.toBits.toNat : Nat)), ("l1", (l.2.toBits.toNat : Nat))])

def ops : List (String × (Json → Except String Json)) :=
  [("c18_mac", macOp), ("c18_msf", msfOp), ("c18_mcf", mcfOp), ("c18_mpc", mpcOp),
   ("c18_mpd_argsq", mpdArgOp), ("c18_mpd_float", mpdFloatOp),
   ("c18_mpd_opt_float", mpdOptFloatOp), ("c18_mpd_closed_float", mpdClosedFloatOp),
   ("c18_eigvals_float", eigvalsFloatOp)]

end PV.Ops.C18
