import PyomaVerif.Codec
import PyomaVerif.Model.MergeState
import PyomaVerif.Ops.C02
open Lean PV PV.Codec PV.Merge
namespace PV.Ops.C02State
open PV.Ops.C02

def resToJson (d : List (String × PoserRes Rat (Cpx Rat))) : Json :=
  listToJson (fun (g : String × PoserRes Rat (Cpx Rat)) => Json.arr #[Json.str g.1, Json.mkObj [
      ("Phi", listToJson (listToJson cpxToJson) g.2.Phi),
      ("Fn", listToJson ratToJson g.2.Fn), ("Fn_cov", listToJson ratToJson g.2.Fn_cov),
      ("Xi", listToJson ratToJson g.2.Xi), ("Xi_cov", listToJson ratToJson g.2.Xi_cov)]]) d

def callOfJson (j : Json) : Except String (PoserCall Rat (Cpx Rat)) := do
  pure ⟨← listOf strOfJson (← field j "names"), ← listOf (listOf algResOfJson) (← field j "setups"),
        ← listOf (listOf natOfJson) (← field j "ref_ind")⟩

/-- `{"calls": [{names, setups, ref_ind}, ..]}` (successive `merge_results()` calls on one object,
    `__result = None` at the start) → per call `{"ret": {"ok": dict | null} | {"error": name},
    "getter": {"ok": dict} | {"error": name}}` (`Merge.poserSessionQ`) -/
def sessionOp (j : Json) : Except String Json := do
  let calls ← listOf callOfJson (← field j "calls")
  let obs := poserSessionQ ratSqrt calls
  pure (listToJson (fun (o : PoserObs Rat (Cpx Rat)) => Json.mkObj [
    ("ret", match o.ret with
      | .error e => Json.mkObj [("error", Json.str e)]
      | .ok none => Json.mkObj [("ok", Json.null)]
      | .ok (some d) => Json.mkObj [("ok", resToJson d)]),
    ("getter", match o.getter with
      | .error e => Json.mkObj [("error", Json.str e)]
      | .ok d => Json.mkObj [("ok", resToJson d)])]) obs)

/-- `{"v": [..]}` (1-D) or `{"ncols": m, "rows": [[..]..]}` (2-D) -/
def ndArrOfJson (j : Json) : Except String (NdArr (Cpx Rat)) := do
  match j.getObjVal? "v" with
  | .ok v => pure (.vec (← listOf cpxOfJson v))
  | .error _ =>
    pure (.mat (← natOfJson (← field j "ncols")) (← listOf (listOf cpxOfJson) (← field j "rows")))

/-- `gen.MSF` on 1-D / 2-D arguments (`Merge.msfArrQ`); the error is the exception's class name -/
def msfArrOp (j : Json) : Except String Json := do
  let out ← msfArrQ (← ndArrOfJson (← field j "phi1")) (← ndArrOfJson (← field j "phi2"))
  pure (listToJson cpxToJson out)

/-- `gen.merge_mode_shapes` with integer (possibly negative) reference positions
    (`Merge.mergeModeShapesIQ`) -/
def mergeIntOp (j : Json) : Except String Json := do
  let phis ← listOf (listOf (listOf cpxOfJson)) (← field j "phis")
  let refs ← listOf (listOf intOfJson) (← field j "refs")
  let m ← mergeModeShapesIQ phis refs
  pure (listToJson (listToJson cpxToJson) m)

/-- multi-setup `gen.flatten_sns_names` with integer reference positions (`Merge.flattenNamesI`) -/
def flattenIntOp (j : Json) : Except String Json := do
  let names ← listOf (listOf strOfJson) (← field j "names")
  let refs ← listOf (listOf intOfJson) (← field j "refs")
  pure (listToJson Json.str (← flattenNamesI names refs))

def ops : List (String × (Json → Except String Json)) :=
  [("poser_session", sessionOp), ("msf_arr", msfArrOp), ("merge_mode_shapes_int", mergeIntOp),
   ("flatten_names_int", flattenIntOp)]

end PV.Ops.C02State
