import PyomaVerif.Codec
import PyomaVerif.Model.Hankel
open Lean PV PV.Codec
namespace PV.Ops.C12

/-- `{"op":"hank_mm","Y":..,"Yref":..,"p":..}` → matrix with `s·s` replaced by exact `1/N`. -/
def hankMMop (j : Json) : Except String Json := do
  let Y ← matOfJson (← field j "Y")
  let Yr ← matOfJson (← field j "Yref")
  let p ← natOfJson (← field j "p")
  let N := Y.c - p - (p + 1)
  let H := hankMM Y Yr p 1
  pure (matToJson ratToJson ⟨H.r, H.c, fun i k => H.e i k / (N : Rat)⟩)

def hankRop (j : Json) : Except String Json := do
  let Y ← matOfJson (← field j "Y")
  let Yr ← matOfJson (← field j "Yref")
  let p ← natOfJson (← field j "p")
  let H := hankR Y Yr p (fun k => 1 / ((Y.c - k : Nat) : Rat))
  pure (matToJson ratToJson H)

/-- Gram matrix `Ys·Ysᵀ` (scaled by exact 1/N) of the stacked past/future data and the
    block positions, for the data-driven method: the harness compares `R.T R`-derived
    identities with it. -/
def hankYsGram (j : Json) : Except String Json := do
  let Y ← matOfJson (← field j "Y")
  let Yr ← matOfJson (← field j "Yref")
  let p ← natOfJson (← field j "p")
  let N := Y.c - p - (p + 1)
  let Ys := (hankYs Y Yr p 1).force
  let G := Mat.mulT Ys Ys
  pure (matToJson ratToJson ⟨G.r, G.c, fun i k => G.e i k / (N : Rat)⟩)

/-- `{"op":"hank_ys","Y":..,"Yref":..,"p":..}` → the stacked matrix `Ys = vstack((Yp, Yf))` of the data-driven
    method with `s = 1` (the harness multiplies by the float `1/N**0.5`): the argument whose transpose the
    real function hands to `np.linalg.qr`. -/
def hankYsOp (j : Json) : Except String Json := do
  let Y ← matOfJson (← field j "Y")
  let Yr ← matOfJson (← field j "Yref")
  let p ← natOfJson (← field j "p")
  let Ys := hankYs Y Yr p 1
  pure (Json.mkObj [("r", Json.num Ys.r), ("c", Json.num Ys.c), ("m", matToJson ratToJson Ys)])

/-- `{"op":"hank_dat_rec","R":..,"nref":..,"p":..}` → `hankDat R nref p` (shape and entries): the block the
    data-driven method returns for the RECORDED `np.linalg.qr(Ys.T, mode="r")` output `R` (any height).
    `"of_r"` is `hankDatOfR R nref p` (the fixed-width variant the older theorems are about) when `R`
    has at least `nref·(p+1)` rows, else `null`. -/
def hankDatRecOp (j : Json) : Except String Json := do
  let R ← matOfJson (← field j "R")
  let nref ← natOfJson (← field j "nref")
  let p ← natOfJson (← field j "p")
  let H := hankDat R nref p
  let H0 := hankDatOfR R nref p
  let ofr := if nref * (p + 1) ≤ R.r then
      Json.mkObj [("r", Json.num H0.r), ("c", Json.num H0.c), ("m", matToJson ratToJson H0)]
    else Json.null
  pure (Json.mkObj [("r", Json.num H.r), ("c", Json.num H.c), ("m", matToJson ratToJson H), ("of_r", ofr)])

def ops : List (String × (Json → Except String Json)) :=
  [("hank_mm", hankMMop), ("hank_R", hankRop), ("hank_ys_gram", hankYsGram),
   ("hank_ys", hankYsOp), ("hank_dat_rec", hankDatRecOp)]

end PV.Ops.C12
