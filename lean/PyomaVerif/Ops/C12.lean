import PyomaVerif.Codec
import PyomaVerif.Model.Hankel
open Lean PV PV.Codec
namespace PV.Ops.C12

/-- `{"op":"hank_mm","Y":..,"Yref":..,"p":..}` → matrix with `s·s` replaced by exact `1/N`. -/
def hankMMop (j : Json) : Except String Json := do
  let Y ← matOfJson (← field j "Y")
  let Yr ← matOfJson (← field j "Yref")
  let p ← natOfJson (← field j "p")
  let N := Y.c - p - (p + 1)
  let H := hankMM Y Yr p 1
  pure (matToJson ratToJson ⟨H.r, H.c, fun i k => H.e i k / (N : Rat)⟩)

def hankRop (j : Json) : Except String Json := do
  let Y ← matOfJson (← field j "Y")
  let Yr ← matOfJson (← field j "Yref")
  let p ← natOfJson (← field j "p")
  let H := hankR Y Yr p (fun k => 1 / ((Y.c - k : Nat) : Rat))
  pure (matToJson ratToJson H)

/-- Gram matrix `Ys·Ysᵀ` (scaled by exact 1/N) of the stacked past/future data and the
    block positions, for the data-driven method: the harness compares `R.T R`-derived
    identities with it. -/
def hankYsGram (j : Json) : Except String Json := do
  let Y ← matOfJson (← field j "Y")
  let Yr ← matOfJson (← field j "Yref")
  let p ← natOfJson (← field j "p")
  let N := Y.c - p - (p + 1)
  let Ys := (hankYs Y Yr p 1).force
  let G := Mat.mulT Ys Ys
  pure (matToJson ratToJson ⟨G.r, G.c, fun i k => G.e i k / (N : Rat)⟩)

def ops : List (String × (Json → Except String Json)) :=
  [("hank_mm", hankMMop), ("hank_R", hankRop), ("hank_ys_gram", hankYsGram)]

end PV.Ops.C12
