import PyomaVerif.Codec
import PyomaVerif.Model.Pick
open Lean PV PV.Codec PV.Pick
namespace PV.Ops.C16

def eventOfJson (j : Json) : Except String Event := do
  let t ← strOfJson (← field j "t")
  match t with
  | "kp" => pure (.keyPress (← strOfJson (← field j "key")))
  | "kr" => pure (.keyRelease (← strOfJson (← field j "key")))
  | "click" =>
    let b ← natOfJson (← field j "button")
    match fieldD j "pos" Json.null with
    | .null => pure (.click b none)
    | pj =>
      let a ← arrOf ratOfJson pj
      if h : a.size = 2 then pure (.click b (some (a[0], a[1]))) else throw "pos: [x, y] expected"
  | _ => throw s!"bad event {t}"

def plotOfJson (j : Json) : Except String Plot := do
  match (← strOfJson (← field j "plot")) with
  | "stab" =>
    let nr ← natOfJson (← field j "nrow")
    let nc ← natOfJson (← field j "ncol")
    let data ← arrOf (arrOf oratOfJson) (← field j "table")
    pure (.stab ⟨nr, nc, fun i k => (data[i]!)[k]!⟩)
  | "fdd" => pure (.fdd (← listOf ratOfJson (← field j "freq")))
  | s => throw s!"bad plot {s}"

def stateOfJson (j : Json) : Except String State := do
  pure ⟨← boolOfJson (← field j "shift"), ← listOf ratOfJson (← field j "sel_freq"),
        ← listOf natOfJson (← field j "ind")⟩

def stateToJson (s : State) (raised : Option String) : Json :=
  Json.mkObj [("shift", Json.bool s.shift), ("sel_freq", listToJson ratToJson s.selFreq),
    ("ind", listToJson (fun (n : Nat) => Json.num n) s.ind),
    ("raised", match raised with | none => Json.null | some e => Json.str e)]

/-- state after the event, with the exception class if the handler raised -/
def stepObs (p : Plot) (s : State) (e : Event) : State × Option String :=
  match step p s e with
  | .ok s' => (s', none)
  | .error m => (s, some m)

def initOf (j : Json) : Except String State :=
  match fieldD j "init" Json.null with
  | .null => pure State.init
  | sj => stateOfJson sj

/-- `{"op":"pick_replay","plot":..,"events":[..]}` → the state after each event -/
def replayOp (j : Json) : Except String Json := do
  let p ← plotOfJson j
  let evs ← listOf eventOfJson (← field j "events")
  let s0 ← initOf j
  let (_, out) := evs.foldl (fun (acc : State × Array Json) e =>
      let (s', r) := stepObs p acc.1 e
      (s', acc.2.push (stateToJson s' r))) (s0, #[])
  pure (Json.arr out)

/-- all histories over `alphabet` up to length `depth`: states in depth-first pre-order -/
partial def tree (p : Plot) (alpha : List Event) (depth : Nat) (s : State) (out : Array Json) : Array Json :=
  if depth = 0 then out else
  alpha.foldl (fun out e =>
    let (s', r) := stepObs p s e
    tree p alpha (depth - 1) s' (out.push (stateToJson s' r))) out

def treeOp (j : Json) : Except String Json := do
  let p ← plotOfJson j
  let alpha ← listOf eventOfJson (← field j "alphabet")
  let depth ← natOfJson (← field j "depth")
  let s0 ← initOf j
  pure (Json.arr (tree p alpha depth s0 #[]))

/-- `{"op":"pick_spec","plot":..,"events":[..]}` → the ABSTRACT dialog (`Pick.specRun`: modifier flag and the list of
    (frequency, order) pairs in ascending frequency) after the whole history; `C16_refine` says the concrete state equals it,
    the harness compares it with the real dialog's final state directly -/
def specOp (j : Json) : Except String Json := do
  let p ← plotOfJson j
  let evs ← listOf eventOfJson (← field j "events")
  let (sh, l) := specRun p evs
  pure (Json.mkObj [("shift", Json.bool sh),
    ("pairs", listToJson (fun (q : Rat × Nat) => Json.arr #[ratToJson q.1, Json.num q.2]) l)])

-- the hand-over to extraction is compared through C11's ops `ssi_mpe` / `plscf_mpe` (`Ops/C11.lean`).

def ops : List (String × (Json → Except String Json)) :=
  [("pick_replay", replayOp), ("pick_tree", treeOp), ("pick_spec", specOp)]

end PV.Ops.C16
