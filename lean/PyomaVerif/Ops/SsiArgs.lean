import PyomaVerif.Codec
import PyomaVerif.Model.SsiArgs
open Lean PV PV.Codec
/-! Driver operations for `Model/SsiArgs.lean`: `ssi_fast_whole` (`fastSSI`), `ssi_legacy_args`
(`legacyPinvArgs`). -/
namespace PV.Ops.SsiArgs
open PV.Poles

def shapeTo (m : Mat Rat) : Json := Json.arr #[Json.num m.r, Json.num m.c]

def matsTo (l : List (Mat Rat)) : Json := listToJson (matToJson ratToJson) l

/-- `{"op":"ssi_fast_whole","U":<ALL columns of U1>,"sq":[sqrt of ALL singular values],"Q","R",
    "Rinv":[one per pass of the loop],"br","ordmax","step"}` → `{"raises": cls}` or `l`, `Obs`, the lists
    `A`, `C`, the argument of `qr` and the arguments of the `inv` calls (with every shape).  A recorded
    `inv` result without entries travels as `[]` (shape 0 × 0). -/
def fastWholeOp (j : Json) : Except String Json := do
  let U ← matOfJson (← field j "U")
  let sq ← listOf ratOfJson (← field j "sq")
  let Q ← matOfJson (← field j "Q")
  let R ← matOfJson (← field j "R")
  let Rinv ← listOf matOfJson (← field j "Rinv")
  let br ← natOfJson (← field j "br")
  let ordmax ← natOfJson (← field j "ordmax")
  let step ← natOfJson (← field j "step")
  let Ri : Nat → Mat Rat := fun k => Rinv.getD k ⟨0, 0, fun _ _ => 0⟩
  match fastSSI Ri Q R U sq br ordmax step with
  | .error e => pure (Json.mkObj [("raises", Json.str e)])
  | .ok o =>
    pure (Json.mkObj [("l", Json.num o.l), ("Obs", matToJson ratToJson o.obs), ("shapeObs", shapeTo o.obs),
      ("A", matsTo o.A), ("C", matsTo o.C),
      ("shapesA", listToJson shapeTo o.A), ("shapesC", listToJson shapeTo o.C),
      ("qrarg", matToJson ratToJson o.qrArg), ("shapeQr", shapeTo o.qrArg),
      ("invargs", matsTo o.invArgs), ("shapesInv", listToJson shapeTo o.invArgs)])

/-- `{"op":"ssi_legacy_args","U":<ALL columns of U1>,"sq":[sqrt of ALL singular values],"br","ordmax","step"}`
    → `{"raises": cls}` or the arguments of the successive `np.linalg.pinv` calls of `ssi.SSI` -/
def legacyArgsOp (j : Json) : Except String Json := do
  let U ← matOfJson (← field j "U")
  let sq ← listOf ratOfJson (← field j "sq")
  let br ← natOfJson (← field j "br")
  let ordmax ← natOfJson (← field j "ordmax")
  let step ← natOfJson (← field j "step")
  match legacyPinvArgs U sq br ordmax step with
  | .error e => pure (Json.mkObj [("raises", Json.str e)])
  | .ok Ps => pure (Json.mkObj [("pinvargs", matsTo Ps), ("shapes", listToJson shapeTo Ps)])

def ops : List (String × (Json → Except String Json)) :=
  [("ssi_fast_whole", fastWholeOp), ("ssi_legacy_args", legacyArgsOp)]

end PV.Ops.SsiArgs
