import PyomaVerif.Codec
import PyomaVerif.Model.EfddAll
import PyomaVerif.Ops.C07
open Lean PV PV.Codec PV.Fdd PV.Efdd PV.Ops.C06 PV.Ops.C07
/-! Driver operations for the composed models `Efdd.svalsvec` and `Efdd.efddMpe`: the library
    calls recorded by the harness become the fields of `Efdd.Ext`:
    * `svd`: table of recorded calls, looked up by the *argument* (exact match of the matrix);
    * `sqrt`, `log`: tables of recorded calls, looked up by the nearest recorded argument
      (the arguments the model evaluates are returned so that the harness can compare them
      with the recorded ones);
    * `ifft`: the explicit zero-padded transform `Efdd.ifftRe` on the caller's twiddle table;
    * `fit`: table of recorded `curve_fit` calls, looked up by the nearest `ydata`. -/
namespace PV.Ops.C07All

structure SvdRec where
  A : Array (Array (Cx Rat))
  U : Array (Array (Cx Rat))
  S : Array Rat

def svdRecOfJson (j : Json) : Except String SvdRec := do
  let A ← arrOf (arrOf cxOfJson) (← field j "A")
  let U ← arrOf (arrOf cxOfJson) (← field j "U")
  let S ← arrOf ratOfJson (← field j "S")
  pure ⟨A, U, S⟩

def cxEq (a b : Cx Rat) : Bool := a.re == b.re && a.im == b.im

def svdMatch (nr nc : Nat) (A : Nat → Nat → Cx Rat) (r : SvdRec) : Bool :=
  r.A.size == nr && (List.range nr).all fun i =>
    (r.A[i]!).size == nc && (List.range nc).all fun jj => cxEq ((r.A[i]!)[jj]!) (A i jj)

def svdLookup (tab : Array SvdRec) (nr nc : Nat) (A : Nat → Nat → Cx Rat) : Option SvdRec :=
  tab.find? (svdMatch nr nc A)

def svdOf (tab : Array SvdRec) (nr nc : Nat) (A : Nat → Nat → Cx Rat) : SvdOut Rat :=
  match svdLookup tab nr nc A with
  | some r => ⟨fun i jj => (r.U[i]!)[jj]!, fun i => r.S[i]!⟩
  | none => ⟨fun _ _ => 0, fun _ => 0⟩

def absR (x : Rat) : Rat := if x < 0 then -x else x

/-- value of the recorded call whose argument is nearest to `x` (0 for an empty table) -/
def nearest (tab : Array (Rat × Rat)) (x : Rat) : Rat :=
  match tab[0]? with
  | none => 0
  | some e0 =>
    (tab.foldl (fun (best : Rat × Rat) e =>
      if absR (e.1 - x) < best.1 then (absR (e.1 - x), e.2) else best) (absR (e0.1 - x), e0.2)).2

def pairOfJson (j : Json) : Except String (Rat × Rat) := do
  let a ← arrOf ratOfJson j
  if a.size = 2 then pure (a[0]!, a[1]!) else throw "pair expected"

structure FitRec where
  y : Array Rat
  m : Rat

def fitRecOfJson (j : Json) : Except String FitRec := do
  let y ← arrOf ratOfJson (← field j "y")
  let m ← ratOfJson (← field j "m")
  pure ⟨y, m⟩

def fitOf (tab : Array FitRec) (n : Nat) (delta : Nat → Rat) : Rat :=
  let dist (r : FitRec) : Rat :=
    (if r.y.size = n then 0 else 1000000) +
      sumTo n (fun k => (delta k - r.y[k]!) * (delta k - r.y[k]!))
  match tab[0]? with
  | none => 0
  | some e0 =>
    (tab.foldl (fun (best : Rat × Rat) e => if dist e < best.1 then (dist e, e.m) else best) (dist e0, e0.m)).2

def extOfJson (j : Json) (nfTw : Nat) : Except String (Ext Rat × Array SvdRec) := do
  let svdTab ← arrOf svdRecOfJson (← field j "svd")
  let sqrtTab ← arrOf pairOfJson (← field j "sqrt")
  let logTab ← arrOf pairOfJson (fieldD j "log" (Json.arr #[]))
  let pi ← ratOfJson (fieldD j "pi" (Json.str "0"))
  let tw ← arrOf cxOfJson (fieldD j "tw" (Json.arr #[]))
  let rs ← ratOfJson (fieldD j "rs" (Json.str "0"))
  let fitTab ← arrOf fitRecOfJson (fieldD j "fit" (Json.arr #[]))
  if tw.size ≠ 5 * nfTw then throw "tw must have length 5*nf"
  pure (⟨svdOf svdTab, nearest sqrtTab, nearest logTab, pi,
    fun nf b t => ifftRe nf (fun m => tw[m]!) rs b t, fitOf fitTab⟩, svdTab)

def r3 {α} (a b c : Nat) (f : Nat → Nat → Nat → α) (g : α → Json) : Json :=
  listToJson (fun i => listToJson (fun jj => listToJson (fun k => g (f i jj k)) (List.range c)) (List.range b)) (List.range a)

/-- `{"op":"svalsvec_all","nr","nc","nf","SD":[i][j][k],"svd":[{A,U,S}],"sqrt":[[arg,val]]}`
    → `Sval[i][j][k]` (`nc×nc×nf`), `Svec[i][j][k]` (`nr×nr×nf`) of the model `Efdd.svalsvec` -/
def svalsvecOp (j : Json) : Except String Json := do
  let nr ← natOfJson (← field j "nr")
  let nc ← natOfJson (← field j "nc")
  let nf ← natOfJson (← field j "nf")
  let SD ← arrOf (arrOf (arrOf cxOfJson)) (← field j "SD")
  let (E, tab) ← extOfJson j 0
  let SDF : Nat → Nat → Nat → Cx Rat := fun i k l => ((SD[i]!)[k]!)[l]!
  for k in List.range nf do
    if (svdLookup tab nr nc (fun i jj => SDF i jj k)).isNone then
      throw s!"svd-arg-not-recorded: no recorded np.linalg.svd call has SD[:, :, {k}] as its argument"
  let sv := svalsvec E nr nc nf SDF
  pure (Json.mkObj [("Sval", r3 nc nc nf sv.1 ratToJson), ("Svec", r3 nr nr nf sv.2 cxToJson)])

def modeAllToJson (m : ModeAll Rat) : Json :=
  let nl (l : List Nat) : Json := listToJson (fun (n : Nat) => (n : Json)) l
  let rl (l : List Rat) : Json := listToJson ratToJson l
  let p := m.post
  Json.mkObj [("fn", oratToJson m.fn), ("xi", ratToJson m.xi), ("phi", listToJson cxToJson m.phi),
    ("idSV", nl m.idSV), ("zc", nl p.zc), ("minmax", rl p.minmax), ("minmax_idx", nl p.minmaxIdx),
    ("fit_vals", rl p.fitVals), ("fit_idx", nl p.fitIdx), ("Td", rl p.Td), ("fd", oratToJson p.fd),
    ("ratios", rl p.ratios), ("delta", rl m.delta), ("lam", ratToJson m.lam)]

/-- `{"op":"efdd_mpe_all","method","method_sy","nch","nf","Sy":[i][j][l],"freq","dt","sel":[…],
     "DF1","DF2","cm","MAClim","sppk","npmax", "svd","sqrt","log","pi","tw","rs","fit"}`:
    the composed model `Efdd.efddMpe`; also returns the first stage (`Fdd.fddMpe` on the
    model's own `svalsvec`) and the arguments at which the model evaluates `sqrt` for `xi`/`fn`. -/
def efddAllOp (j : Json) : Except String Json := do
  let m := methodOf (← strOfJson (← field j "method"))
  let ms := syMethodOf (← strOfJson (← field j "method_sy"))
  let nch ← natOfJson (← field j "nch")
  let nf ← natOfJson (← field j "nf")
  let Sy ← arrOf (arrOf (arrOf cxOfJson)) (← field j "Sy")
  let freq ← arrOf ratOfJson (← field j "freq")
  let dt ← ratOfJson (← field j "dt")
  let sel ← listOf ratOfJson (← field j "sel")
  let DF1 ← ratOfJson (← field j "DF1")
  let DF2 ← ratOfJson (← field j "DF2")
  let cm ← natOfJson (← field j "cm")
  let lim ← ratOfJson (← field j "MAClim")
  let sppk ← natOfJson (← field j "sppk")
  let npmax ← natOfJson (← field j "npmax")
  let (E, tab) ← extOfJson j nf
  if freq.size ≠ nf then throw "freq must have length nf"
  let SyF : Nat → Nat → Nat → Cx Rat := fun i k l => ((Sy[i]!)[k]!)[l]!
  for k in List.range nf do
    if (svdLookup tab nch nch (fun i jj => SyF i jj k)).isNone then
      throw s!"svd-arg-not-recorded: no recorded np.linalg.svd call has Sy[:, :, {k}] as its argument"
  let sv := svalsvec E nch nch nf SyF
  let first : Json := match fddMpe nch nch nf (fun i => freq[i]!) sv.1 sv.2 sel DF1 with
    | .error e => Json.mkObj [("error", Json.str e)]
    | .ok l => listToJson modeToJson l
  match efddMpe E m ms nch nf SyF (fun i => freq[i]!) dt sel DF1 DF2 cm lim sppk npmax with
  | .error e => pure (Json.mkObj [("error", Json.str e), ("first", first)])
  | .ok l =>
    let args := l.map fun mo =>
      Json.mkObj [("arg1", ratToJson (((4 : Nat) : Rat) * (E.pi * E.pi) + mo.lam * mo.lam)),
        ("arg2", ratToJson (((1 : Nat) : Rat) - mo.xi * mo.xi))]
    pure (Json.mkObj [("modes", listToJson modeAllToJson l), ("first", first), ("sqrt_args", Json.arr args.toArray)])

def ops : List (String × (Json → Except String Json)) :=
  [("svalsvec_all", svalsvecOp), ("efdd_mpe_all", efddAllOp)]

end PV.Ops.C07All
