import PyomaVerif.Model.Orch
import PyomaVerif.Lemmas.Orch
/-!
# C15 — runs are gated, deterministic, isolated; PoSER validates its inputs

Property theorems only.  They hold for **every** interpretation `sem` of the numerical
functions (`run`, `mpe`, preprocessing are uninterpreted), every state and every call
sequence of any length.  Numerical determinism of `run` itself and the pickle round trip are
not expressible here; the harness checks them on the real classes.

`AllGuarded sem` = every class's `mpe` starts with the base-class guard.  It is what the code
looks like after `proposed_fixes/fix_F24.diff`; on the pinned tree it is false for `EFDD`
(`Mutants/C15.lean` has the counterexample, the harness finds it in the real code).
-/
namespace PV.C15
open PV.Orch

variable {C P D R A Q : Type}

/-- every class's `mpe` calls the base-class guard before it stores anything -/
def AllGuarded (sem : Sem C P D R A Q) : Prop := ∀ c, sem.guarded c = true

/-! ## Gating -/

/-- `run_by_name`: the outcome (and exception class) is decided by the instance's own
    prerequisites, in the order the code tests them. -/
theorem C15_gating_run_outcome (sem : Sem C P D R A Q) (n : String) (s : State C P D R) :
    (step sem (.runByName n) s).1 =
      match get n s.algs with
      | none => .raised .keyError
      | some e =>
        match e.bound, e.params with
        | .missing, _ => .raised .attributeError
        | .unset, _ => .raised .valueError
        | .set _, none => .raised .valueError
        | .set _, some _ => .ok := by
  simp only [step, runByName]
  cases hg : get n s.algs with
  | none => rfl
  | some e =>
    simp only [runEntry, preRun]
    cases hb : e.bound <;> cases hp : e.params <;> simp

/-- a failing `run_by_name` stores nothing: the whole setup state is what it was. -/
theorem C15_gating_run (sem : Sem C P D R A Q) (n : String) (s : State C P D R)
    (h : (step sem (.runByName n) s).1 ≠ .ok) : (step sem (.runByName n) s).2 = s := by
  simp only [step, runByName] at h ⊢
  cases hg : get n s.algs with
  | none => rfl
  | some e =>
    simp only [hg] at h ⊢
    cases hr : runEntry sem e with
    | error x => rfl
    | ok e' => simp [hr] at h

/-- `mpe`: outcome and exception class, when every class has the guard. -/
theorem C15_gating_mpe_outcome (sem : Sem C P D R A Q) (hgd : AllGuarded sem) (n : String) (a : A)
    (s : State C P D R) :
    (step sem (.mpe n a) s).1 =
      match get n s.algs with
      | none => .raised .keyError
      | some e =>
        match e.result, e.params with
        | none, _ => .raised .valueError
        | some _, none => .raised .attributeError
        | some _, some _ => .ok := by
  simp only [step]
  cases hg : get n s.algs with
  | none => rfl
  | some e =>
    simp only [mpeEntry, hgd e.cls, if_true]
    cases hr : e.result <;> cases hp : e.params <;> simp

/-- a failing `mpe` — in particular `mpe` before a run — stores nothing: neither result **nor
    run parameters** nor anything else in the setup differs from before. -/
theorem C15_gating_mpe (sem : Sem C P D R A Q) (hgd : AllGuarded sem) (n : String) (a : A)
    (s : State C P D R) (h : (step sem (.mpe n a) s).1 ≠ .ok) : (step sem (.mpe n a) s).2 = s := by
  simp only [step] at h ⊢
  cases hg : get n s.algs with
  | none => rfl
  | some e =>
    simp only [hg, mpeEntry, hgd e.cls, if_true] at h ⊢
    cases hr : e.result with
    | none => simp [dictSet_get_self hg]
    | some r =>
      cases hp : e.params with
      | none => simp [dictSet_get_self hg]
      | some p => simp [hr, hp] at h

/-- `mpe` before a run raises `ValueError` and stores nothing. -/
theorem C15_gating_mpe_before_run (sem : Sem C P D R A Q) (hgd : AllGuarded sem) (n : String) (a : A)
    (s : State C P D R) (e : Entry C P D R) (hg : get n s.algs = some e) (hr : e.result = none) :
    step sem (.mpe n a) s = (.raised .valueError, s) := by
  have h1 : (step sem (.mpe n a) s).1 = .raised .valueError := by
    rw [C15_gating_mpe_outcome sem hgd]; simp [hg, hr]
  have h2 := C15_gating_mpe sem hgd n a s (by rw [h1]; simp)
  exact Prod.ext h1 h2

/-- a failing `run_all`: the instance that fails its checks and every instance after it are
    untouched; those before it hold their own run; data untouched. -/
theorem C15_gating_runAll (sem : Sem C P D R A Q) (s : State C P D R) (x : Exc)
    (h : (step sem .runAll s).1 = .raised x) :
    ∃ pre k e post, s.algs = pre ++ (k, e) :: post ∧
      (∀ ke ∈ pre, ∃ e', runEntry sem ke.2 = .ok e') ∧ runEntry sem e = .error x ∧
      (step sem .runAll s).2 =
        { s with algs := pre.map (fun ke => (ke.1, ranEntry sem ke.2)) ++ (k, e) :: post } := by
  obtain ⟨pre, k, e, post, hl, hpre, herr, hres⟩ := runAllAux_raised sem s.algs x h
  exact ⟨pre, k, e, post, hl, hpre, herr, by simp [step, hres]⟩

/-- a successful `run_all` ran every instance (each passed its own checks). -/
theorem C15_runAll_ok (sem : Sem C P D R A Q) (s : State C P D R) (h : (step sem .runAll s).1 = .ok) :
    (∀ ke ∈ s.algs, ∃ e', runEntry sem ke.2 = .ok e') ∧
      (step sem .runAll s).2 = { s with algs := s.algs.map (fun ke => (ke.1, ranEntry sem ke.2)) } := by
  obtain ⟨hall, hres⟩ := runAllAux_ok sem s.algs h
  exact ⟨hall, by simp [step, hres]⟩

/-! ## Isolation -/

/-- a successful `run_by_name n` stores exactly `run cls params boundData` of that instance. -/
theorem C15_run_result (sem : Sem C P D R A Q) (n : String) (s : State C P D R)
    (h : (step sem (.runByName n) s).1 = .ok) :
    ∃ e p d, get n s.algs = some e ∧ e.params = some p ∧ e.bound = .set d ∧
      get n (step sem (.runByName n) s).2.algs = some { e with result := some (sem.run e.cls p d) } := by
  simp only [step, runByName] at h ⊢
  cases hg : get n s.algs with
  | none => simp [hg] at h
  | some e =>
    simp only [hg] at h ⊢
    cases hr : runEntry sem e with
    | error x => simp [hr] at h
    | ok e' =>
      obtain ⟨p, d, hp, hb, rfl⟩ := runEntry_ok hr
      exact ⟨e, p, d, rfl, hp, hb, by simp [get_dictSet_self]⟩

/-- a successful `mpe n a` stores `mpe` of the instance's own previous result, own stored
    parameters and own bound data. -/
theorem C15_mpe_result (sem : Sem C P D R A Q) (n : String) (a : A) (s : State C P D R)
    (h : (step sem (.mpe n a) s).1 = .ok) :
    ∃ e p r, get n s.algs = some e ∧ e.params = some p ∧ e.result = some r ∧
      get n (step sem (.mpe n a) s).2.algs =
        some { e with params := some (sem.mpeParams e.cls p a),
                      result := some (sem.mpeRes e.cls (sem.mpeParams e.cls p a) e.bound r a) } := by
  simp only [step] at h ⊢
  cases hg : get n s.algs with
  | none => simp [hg] at h
  | some e =>
    simp only [hg, mpeEntry] at h ⊢
    cases hr : e.result <;> cases hp : e.params <;> cases hgd : sem.guarded e.cls <;>
      simp [hr, hp, hgd] at h ⊢ <;> simp [get_dictSet_self]

/-- no call that names algorithm `n` changes another algorithm's entry, the setup's data or the
    stored initial data. -/
theorem C15_isolation_frame (sem : Sem C P D R A Q) (op : Op C P A Q) (s : State C P D R)
    (n m : String) (ht : op.target = some n) (hm : m ≠ n) :
    get m (step sem op s).2.algs = get m s.algs ∧ (step sem op s).2.data = s.data ∧
      (step sem op s).2.initial = s.initial :=
  ⟨step_frame sem op s n m ht hm, step_data sem op s n (Or.inl ht)⟩

/-- `run_all` changes an entry only by storing that entry's *own* run, and no data. -/
theorem C15_isolation_runAll_frame (sem : Sem C P D R A Q) (s : State C P D R) (m : String) :
    ((get m s.algs = none ∧ get m (step sem .runAll s).2.algs = none) ∨
     (∃ e, get m s.algs = some e ∧
        (get m (step sem .runAll s).2.algs = some e ∨
         get m (step sem .runAll s).2.algs = some (ranEntry sem e)))) ∧
    (step sem .runAll s).2.data = s.data :=
  ⟨runAllAux_get sem m s.algs, rfl⟩

/-- preprocessing gives the setup new data and leaves every algorithm — in particular what it
    is bound to — untouched. -/
theorem C15_isolation_pre_frame (sem : Sem C P D R A Q) (q : Q) (s : State C P D R) :
    (step sem (.pre q) s).2.algs = s.algs ∧ (step sem (.pre q) s).2.data = sem.pre q s.data := ⟨rfl, rfl⟩

/-- **Isolation.**  After *any* call sequence on a new setup, every stored result is explained by
    its own instance alone: it is `run cls p₀ d` for the data `d` bound when the instance was
    added, followed by the instance's own `mpe` calls (`Derived`) — nothing else enters. -/
theorem C15_isolation (sem : Sem C P D R A Q) (d0 : D) (ops : List (Op C P A Q)) (n : String)
    (e : Entry C P D R) (r : R)
    (hg : get n (exec sem ops (State.new d0)).algs = some e) (hr : e.result = some r) :
    ∃ p d, e.params = some p ∧ e.bound = .set d ∧ Derived sem e.cls d p r := by
  have h0 : (State.new d0 : State C P D R).Explained sem := by
    intro m e' hm; simp [State.new, Orch.get] at hm
  exact explained_exec sem ops _ h0 n e hg r hr

/-- the same from any state in which the stored results are explained. -/
theorem C15_isolation_from (sem : Sem C P D R A Q) (s : State C P D R) (h : s.Explained sem)
    (ops : List (Op C P A Q)) : (exec sem ops s).Explained sem :=
  explained_exec sem ops s h

/-- **History independence.**  The entry of algorithm `n` (and the data) after any call sequence on
    a setup is the entry after the *projected* sequence — calls naming other algorithms dropped,
    `run_all` replaced by `run_by_name n` where its loop reaches `n` — on any setup that agrees
    on `n` and on the data, whatever other algorithms that setup holds. -/
theorem C15_history_independent (sem : Sem C P D R A Q) (n : String) (ops : List (Op C P A Q))
    (s s2 : State C P D R) (h : Agree n s s2) :
    Agree n (exec sem ops s) (exec sem (proj sem n ops s) s2) :=
  agree_exec_proj sem n ops s s2 h

/-- … in particular on a new setup: what `n` holds does not depend on what else was added,
    run or extracted before, after or in between. -/
theorem C15_history_independent_new (sem : Sem C P D R A Q) (n : String) (ops : List (Op C P A Q))
    (d0 : D) :
    get n (exec sem ops (State.new d0)).algs =
      get n (exec sem (proj sem n ops (State.new d0)) (State.new d0)).algs :=
  (agree_exec_proj sem n ops (State.new d0) (State.new d0) ⟨rfl, rfl, rfl⟩).1

/-- the projected sequence contains only `n`'s own calls and preprocessing. -/
theorem C15_proj_own (sem : Sem C P D R A Q) (n : String) (ops : List (Op C P A Q))
    (s : State C P D R) : ∀ op ∈ proj sem n ops s, relevant n op = true := by
  induction ops generalizing s with
  | nil => intro op h; simp [proj] at h
  | cons o t ih =>
    intro op h
    cases o with
    | runAll =>
      simp only [proj, List.mem_append] at h
      rcases h with h | h
      · split at h
        · simp only [List.mem_singleton] at h; subst h; simp [relevant]
        · simp at h
      · exact ih _ op h
    | add m c p =>
      simp only [proj, List.mem_append] at h
      rcases h with h | h
      · split at h
        · rename_i hrel; simp only [List.mem_singleton] at h; subst h; exact hrel
        · simp at h
      · exact ih _ op h
    | inject m c p b =>
      simp only [proj, List.mem_append] at h
      rcases h with h | h
      · split at h
        · rename_i hrel; simp only [List.mem_singleton] at h; subst h; exact hrel
        · simp at h
      · exact ih _ op h
    | runByName m =>
      simp only [proj, List.mem_append] at h
      rcases h with h | h
      · split at h
        · rename_i hrel; simp only [List.mem_singleton] at h; subst h; exact hrel
        · simp at h
      · exact ih _ op h
    | mpe m a =>
      simp only [proj, List.mem_append] at h
      rcases h with h | h
      · split at h
        · rename_i hrel; simp only [List.mem_singleton] at h; subst h; exact hrel
        · simp at h
      · exact ih _ op h
    | pre q =>
      simp only [proj, List.mem_append] at h
      rcases h with h | h
      · split at h
        · rename_i hrel; simp only [List.mem_singleton] at h; subst h; exact hrel
        · simp at h
      · exact ih _ op h
    | rollback =>
      simp only [proj, List.mem_append] at h
      rcases h with h | h
      · split at h
        · rename_i hrel; simp only [List.mem_singleton] at h; subst h; exact hrel
        · simp at h
      · exact ih _ op h

/-- running the same algorithm again changes nothing (outcome and state). -/
theorem C15_rerun (sem : Sem C P D R A Q) (n : String) (s : State C P D R) :
    step sem (.runByName n) (step sem (.runByName n) s).2 = step sem (.runByName n) s := by
  simp only [step, runByName]
  cases hg : get n s.algs with
  | none => simp [hg]
  | some e =>
    simp only
    cases hr : runEntry sem e with
    | error x => simp [hg, hr]
    | ok e' => simp [get_dictSet_self, runEntry_idem hr, dictSet_dictSet]

/-- the order in which two different algorithms are run does not matter. -/
theorem C15_run_commute (sem : Sem C P D R A Q) (a b : String) (hab : a ≠ b) (s : State C P D R)
    (m : String) :
    get m (exec sem [.runByName a, .runByName b] s).algs =
      get m (exec sem [.runByName b, .runByName a] s).algs ∧
    (exec sem [.runByName a, .runByName b] s).data = (exec sem [.runByName b, .runByName a] s).data := by
  have fr : ∀ (x y : String) (u : State C P D R), y ≠ x →
      get y (step sem (.runByName x) u).2.algs = get y u.algs :=
    fun x y u h => step_frame sem (.runByName x) u x y rfl h
  have dat : ∀ (x : String) (u : State C P D R), (step sem (.runByName x) u).2.data = u.data :=
    fun x u => (step_data sem (.runByName x) u x (Or.inl rfl)).1
  refine ⟨?_, by simp [exec, dat]⟩
  simp only [exec]
  by_cases hma : m = a
  · subst hma
    rw [fr b m _ hab, get_runByName, get_runByName, fr b m _ hab]
  · by_cases hmb : m = b
    · subst hmb
      rw [get_runByName, fr a m _ hma, fr a m _ hma, get_runByName]
    · rw [fr b m _ hmb, fr a m _ hma, fr a m _ hma, fr b m _ hmb]

/-! ## PoSER -/

/-- **Validation is complete and exact.**  `_init_setups` accepts iff there are at least two
    setups, none without algorithms, every setup's list of algorithm types equals the first
    setup's list (same types, same order), there is one name per algorithm, and every algorithm
    has a result with modal parameters. -/
theorem C15_poser_iff [DecidableEq C] (cfg : Poser.Config C) :
    Poser.accepts cfg = true ↔
      2 ≤ cfg.setups.length ∧ (∀ s ∈ cfg.setups, s ≠ []) ∧
      (∀ s ∈ cfg.setups, Poser.classes s = Poser.classes (cfg.setups.headD [])) ∧
      cfg.nNames = (cfg.setups.headD []).length ∧
      (∀ s ∈ cfg.setups, ∀ a ∈ s, a.hasResult = true ∧ a.hasFn = true) := by
  have e2 : (cfg.setups.any (fun s => s.isEmpty) = true) ↔ ¬ (∀ s ∈ cfg.setups, s ≠ []) := by
    simp [List.any_eq_true]
  have e3 : (cfg.setups.all (fun s => decide (Poser.classes s = Poser.classes (cfg.setups.headD []))) = true)
      ↔ (∀ s ∈ cfg.setups, Poser.classes s = Poser.classes (cfg.setups.headD [])) := by
    simp [List.all_eq_true]
  have e5 : (cfg.setups.any (fun s => s.any (fun a => !a.hasResult || !a.hasFn)) = true)
      ↔ ¬ (∀ s ∈ cfg.setups, ∀ a ∈ s, a.hasResult = true ∧ a.hasFn = true) := by
    simp [List.any_eq_true]
    constructor
    · rintro ⟨s, hs, a, ha, hb⟩
      refine ⟨s, hs, a, ha, ?_⟩
      rcases hb with hb | hb <;> simp [hb]
    · rintro ⟨s, hs, a, ha, hb⟩
      refine ⟨s, hs, a, ha, ?_⟩
      cases hr : a.hasResult <;> cases hf : a.hasFn <;> simp [hr, hf] at hb ⊢
  unfold Poser.accepts Poser.check
  by_cases h1 : cfg.setups.length ≤ 1
  · simp [h1]; omega
  · by_cases h2 : cfg.setups.any (fun s => s.isEmpty) = true
    · have := e2.mp h2
      simp only [h1, h2, if_true, if_false]
      constructor
      · intro h; cases h
      · intro h; exact absurd h.2.1 this
    · have h2' := Classical.not_not.mp (mt e2.mpr h2)
      by_cases h3 : cfg.setups.all
          (fun s => decide (Poser.classes s = Poser.classes (cfg.setups.headD []))) = true
      · have h3' := e3.mp h3
        by_cases h4 : cfg.nNames = (cfg.setups.headD []).length
        · by_cases h5 : cfg.setups.any (fun s => s.any (fun a => !a.hasResult || !a.hasFn)) = true
          · have := e5.mp h5
            simp only [h1, h2, h3, h4, h5, if_true, if_false, Bool.not_true, ne_eq, not_true_eq_false,
              Bool.false_eq_true]
            constructor
            · intro h; cases h
            · intro h; exact absurd h.2.2.2.2 this
          · have h5' := Classical.not_not.mp (mt e5.mpr h5)
            simp only [h1, h2, h3, h4, h5, if_false, Bool.not_true, ne_eq, not_true_eq_false,
              Bool.false_eq_true]
            simp only [true_iff]
            exact ⟨by omega, h2', h3', trivial, h5'⟩
        · simp only [h1, h2, h3, h4, if_true, if_false, Bool.not_true, ne_eq, not_false_eq_true,
              Bool.false_eq_true]
          constructor
          · intro h; cases h
          · intro h; exact h.2.2.2.1.elim
      · have := mt e3.mpr h3
        simp only [h1, h2, h3, if_false, Bool.not_false, if_true]
        constructor
        · intro h; cases h
        · intro h; exact absurd h.2.2.1 this

/-- every rejection is a `ValueError`. -/
theorem C15_poser_valueError [DecidableEq C] (cfg : Poser.Config C) :
    Poser.check cfg = .ok () ∨ Poser.check cfg = .error .valueError := by
  unfold Poser.check
  repeat' split
  all_goals simp

/-! ## Non-vacuity: concrete instances of every hypothesis -/
section Examples

/-- a toy interpretation: results are tags that record class, parameters and data. -/
def exSem : Sem Nat Nat Nat (List Nat) Nat Nat where
  run c p d := [c, p, d]
  mpeRes c p _ r a := c :: p :: a :: r
  mpeParams _ p a := p + 100 * a
  guarded _ := true
  pre q d := d * 10 + q

def exS0 : State Nat Nat Nat (List Nat) := State.new 7
def exOps : List (Op Nat Nat Nat Nat) :=
  [.add "A" 1 (some 5), .add "B" 2 none, .pre 3, .add "C" 3 (some 6), .runAll, .runByName "C",
   .mpe "A" 9, .mpe "C" 4, .runByName "A"]

example : AllGuarded exSem := fun _ => rfl
-- C15_gating_run / C15_gating_mpe(_before_run): failing calls exist
example : (step exSem (.runByName "B") (exec exSem exOps exS0)).1 = .raised .valueError := by decide
example : (step exSem (.runByName "Z") (exec exSem exOps exS0)).1 = .raised .keyError := by decide
example : (step exSem (.mpe "B" 1) (exec exSem exOps exS0)).1 = .raised .valueError := by decide
example : (get "B" (exec exSem exOps exS0).algs).map (·.result) = some none := by decide
-- C15_gating_runAll: `run_all` fails at "B" after having run "A"
example : (step exSem .runAll (exec exSem (exOps.take 4) exS0)).1 = .raised .valueError := by decide
-- C15_runAll_ok
example : (step exSem .runAll (exec exSem [.add "A" 1 (some 5), .add "C" 3 (some 6)] exS0)).1 = .ok := by
  decide
-- C15_run_result / C15_mpe_result: successful calls exist
example : (step exSem (.runByName "C") (exec exSem exOps exS0)).1 = .ok := by decide
example : (step exSem (.mpe "C" 2) (exec exSem exOps exS0)).1 = .ok := by decide
-- C15_isolation: a stored, extracted result after the sequence ("C" bound to the preprocessed data)
example : (get "C" (exec exSem exOps exS0).algs).map (·.result) = some (some [3, 406, 4, 3, 6, 73]) := by
  decide
-- C15_isolation_frame: a call naming "A", another algorithm "C"
example : (Op.mpe "A" 9 : Op Nat Nat Nat Nat).target = some "A" ∧ "C" ≠ "A" := by decide
-- C15_history_independent: `Agree` is inhabited by setups that differ in their other algorithms
example : Agree "C" (exec exSem [.add "A" 1 (some 5), .runByName "A"] exS0) exS0 := by
  refine ⟨by decide, rfl, rfl⟩
-- the projection of the sequence onto "C" is non-trivial
example : proj exSem "C" exOps exS0 = [.pre 3, .add "C" 3 (some 6), .runByName "C", .mpe "C" 4] := by
  decide
-- C15_run_commute
example : ("A" : String) ≠ "C" := by decide
-- C15_poser_iff: an accepted and a rejected configuration
example : Poser.accepts (⟨[[⟨1, true, true⟩, ⟨2, true, true⟩], [⟨1, true, true⟩, ⟨2, true, true⟩]], 2⟩ :
    Poser.Config Nat) = true := by decide
example : Poser.accepts (⟨[[⟨1, true, true⟩, ⟨2, true, true⟩], [⟨2, true, true⟩, ⟨1, true, true⟩]], 2⟩ :
    Poser.Config Nat) = false := by decide
end Examples

end PV.C15
