import PyomaVerif.Lemmas.UncJac
import PyomaVerif.Props.C17
import Mathlib.Analysis.SpecialFunctions.Complex.Log
import Mathlib.Tactic.FinCases
import Mathlib.Tactic.NormNum
import Mathlib.Algebra.BigOperators.Fin
/-!
# C17 (depth extension) — the `(f, ξ)` Jacobian of `SSI_poles` and the singular-triple
sensitivity of `SSI_fast` are the derivatives they are used as
-/
namespace PV.C17
open PV PV.Mat PV.Unc Finset

/-! ## A. The `(f, ξ)` Jacobian of `SSI_poles` -/

/-- **Algebraic half, any field.**  With `|λ_d|² = x² + y²`, `|λ_c|² = a² + b²` and the
    first-order change of the continuous pole `dμ = dλ/(λ·dt)`, i.e.
    `da = (x·dx + y·dy)/(dt·|λ_d|²)`, `db = (−y·dx + x·dy)/(dt·|λ_d|²)`, the rows of the coded
    `Jfx_l` applied to `(dx, dy)` are `d|λ_c|/(2π)` with `d|λ_c| = (a·da + b·db)/|λ_c|`, and
    `100·dξ` with `dξ = (−da·|λ_c| + a·d|λ_c|)/|λ_c|²` (`ξ = −a/|λ_c|`). -/
theorem C17_jfx_chain {K : Type} [Field K] (pi dt absd absc a b x y dx dy : K)
    (hd : absd * absd = x * x + y * y) (hc : absc * absc = a * a + b * b)
    (hpi : pi ≠ 0) (hdt : dt ≠ 0) (hd0 : absd ≠ 0) (hc0 : absc ≠ 0) :
    let da := (x * dx + y * dy) / (dt * (x * x + y * y))
    let db := (-y * dx + x * dy) / (dt * (x * x + y * y))
    let dabs := (a * da + b * db) / absc
    (jfx pi dt absd absc a b x y).e 0 0 * dx + (jfx pi dt absd absc a b x y).e 0 1 * dy
        = dabs / (2 * pi) ∧
    (jfx pi dt absd absc a b x y).e 1 0 * dx + (jfx pi dt absd absc a b x y).e 1 1 * dy
        = 100 * ((-da * absc + a * dabs) / (absc * absc)) := by
  obtain ⟨e00, e01, e10, e11⟩ := jfx_entries pi dt absd absc a b x y
  have hb : b * b = absc * absc - a * a := by rw [hc]; ring
  rw [← hd]
  refine ⟨?_, ?_⟩
  · rw [e00, e01]; field_simp; ring
  · rw [e10, e11, hb]; field_simp; ring

/-- **The 2×2 Jacobian (Lemma 5 as coded) is the Fréchet derivative.**  At every discrete
    eigenvalue `λ_d = q 0 + i·q 1` off the non-positive real axis whose continuous pole
    `λ_c = log(λ_d)/dt` is non-zero (`λ_d ≠ 1`, `dt ≠ 0`), the map
    `(Re λ_d, Im λ_d) ↦ (|λ_c|/(2π), 100·(−Re λ_c/|λ_c|))` is differentiable with derivative the
    matrix `Jfx_l = 1/(dt·|λ_d|²·|λ_c|)·Mat1·Mat2·Mat3` of `SSI_poles` (`jfxAt`, the code's
    expression, through the matrix bridge `toMx`).  Row 0 (frequency) is what `Fn_cov` uses.
    Row 1 is the derivative of the damping in PERCENT (`Mat1[1,1] = 100/|λ_c|²`) although `ac2mp`
    returns `xi` as a fraction, and `Xi_cov` stores `|cov_fx[1, 0]|` (the `f`–`100ξ` covariance),
    not `cov_fx[1, 1]`: outside C17's statement, recorded here. -/
theorem C17_fx_jacobian (dt : ℝ) (q : Fin 2 → ℝ)
    (hs : ((q 0 : ℂ) + (q 1 : ℂ) * Complex.I) ∈ Complex.slitPlane) (hμ : lamC dt q ≠ 0) :
    HasFDerivAt (𝕜 := ℝ) (fxMap dt)
      (LinearMap.toContinuousLinearMap (Matrix.toLin' (toMx 2 2 (jfxAt dt q).e))) q := by
  have hx : HasFDerivAt (𝕜 := ℝ) (fun q : Fin 2 → ℝ => q 0)
      (ContinuousLinearMap.proj (R := ℝ) (φ := fun _ : Fin 2 => ℝ) 0) q := hasFDerivAt_apply 0 q
  have hy : HasFDerivAt (𝕜 := ℝ) (fun q : Fin 2 → ℝ => q 1)
      (ContinuousLinearMap.proj (R := ℝ) (φ := fun _ : Fin 2 => ℝ) 1) q := hasFDerivAt_apply 1 q
  obtain ⟨ha0, hb0⟩ := hasFDerivAt_logmap dt hx hy hs
  have ha : HasFDerivAt (fun q => (lamC dt q).re) _ q := ha0
  have hb : HasFDerivAt (fun q => (lamC dt q).im) _ q := hb0
  clear ha0 hb0
  have hn0 : (lamC dt q).re ^ 2 + (lamC dt q).im ^ 2 ≠ 0 := by
    intro h
    apply hμ
    apply Complex.normSq_eq_zero.mp
    rw [Complex.normSq_apply]; nlinarith
  have hnd : ‖(q 0 : ℂ) + (q 1 : ℂ) * Complex.I‖ * ‖(q 0 : ℂ) + (q 1 : ℂ) * Complex.I‖
      = q 0 ^ 2 + q 1 ^ 2 := by
    rw [Complex.norm_mul_self_eq_normSq, Complex.normSq_apply]
    simp
    ring
  have hnc : ‖lamC dt q‖ = √((lamC dt q).re ^ 2 + (lamC dt q).im ^ 2) :=
    Complex.norm_eq_sqrt_sq_add_sq _
  obtain ⟨e00, e01, e10, e11⟩ := jfx_entries Real.pi dt ‖(q 0 : ℂ) + (q 1 : ℂ) * Complex.I‖
    ‖lamC dt q‖ (lamC dt q).re (lamC dt q).im (q 0) (q 1)
  rw [hnd, hnc] at e00 e01 e10 e11
  rw [hasFDerivAt_pi']
  intro i
  fin_cases i
  · have h := (hasFDerivAt_modulus ha hb hn0).const_mul (1 / (2 * Real.pi))
    have hf : (fun x => fxMap dt x 0)
        = fun x => 1 / (2 * Real.pi) * √((lamC dt x).re ^ 2 + (lamC dt x).im ^ 2) := by
      funext x
      simp only [fxMap, Matrix.cons_val_zero, Complex.norm_eq_sqrt_sq_add_sq]
      ring
    show HasFDerivAt (fun x => fxMap dt x 0) _ q
    rw [hf]
    refine h.congr_fderiv ?_
    refine ContinuousLinearMap.ext fun v => ?_
    simp [Matrix.mulVec, dotProduct, Fin.sum_univ_two, toMx, jfxAt, e00, e01, hnc]
    ring
  · have h := (hasFDerivAt_damping ha hb hn0).const_mul 100
    have hf : (fun x => fxMap dt x 1)
        = fun x => 100 * -((lamC dt x).re / √((lamC dt x).re ^ 2 + (lamC dt x).im ^ 2)) := by
      funext x
      simp only [fxMap, Matrix.cons_val_one, Matrix.cons_val_zero, Complex.norm_eq_sqrt_sq_add_sq]
    show HasFDerivAt (fun x => fxMap dt x 1) _ q
    rw [hf]
    refine h.congr_fderiv ?_
    refine ContinuousLinearMap.ext fun v => ?_
    simp [Matrix.mulVec, dotProduct, Fin.sum_univ_two, toMx, jfxAt, e10, e11, hnc]
    ring

/-- `λ_d = i`, `dt = 1/100`: off the cut, `λ_c = 50πi ≠ 0`. -/
example : (((![0, 1] : Fin 2 → ℝ) 0 : ℂ) + ((![0, 1] : Fin 2 → ℝ) 1 : ℂ) * Complex.I)
      ∈ Complex.slitPlane ∧ lamC (1 / 100) ![0, 1] ≠ 0 := by
  constructor
  · simp [Complex.slitPlane]
  · simp [lamC, Complex.log_I, Real.pi_ne_zero]

/-- hypotheses of `C17_jfx_chain` over `ℚ`: `λ_d = 3 + 4i`, `|λ_d| = 5`, `λ_c = 5 + 12i`,
    `|λ_c| = 13`. -/
example : (5 : ℚ) * 5 = 3 * 3 + 4 * 4 ∧ (13 : ℚ) * 13 = 5 * 5 + 12 * 12 ∧ (1 : ℚ) ≠ 0 ∧
    (1 / 100 : ℚ) ≠ 0 ∧ (5 : ℚ) ≠ 0 ∧ (13 : ℚ) ≠ 0 := by norm_num

/-- **Read-out.** Column `j` of the coded `Ufx = Jfx_l·[Re JaohT; Im JaohT]` is the Fréchet
    derivative of `(f, 100·ξ)` applied to the eigenvalue perturbation
    `(Re, Im)(Σ_m w_m·Q[m, j])`. -/
theorem C17_ufx_is_derivative (dt : ℝ) (q : Fin 2 → ℝ)
    (hs : ((q 0 : ℂ) + (q 1 : ℂ) * Complex.I) ∈ Complex.slitPlane) (hμ : lamC dt q ≠ 0)
    (wr wi : Nat → ℝ) (Q : Mat ℝ) (a : Fin 2) (j : Nat) :
    (ufx (jfxAt dt q) wr wi Q).e a.1 j
      = fderiv ℝ (fxMap dt) q
          ![sumTo Q.r (fun m => wr m * Q.e m j), sumTo Q.r (fun m => wi m * Q.e m j)] a := by
  rw [(C17_fx_jacobian dt q hs hμ).fderiv]
  simp [ufx, toMx, Matrix.mulVec, dotProduct, Fin.sum_univ_two]

/-! ## B. Eigenvalue and singular-triple sensitivities over the dual numbers -/

open Matrix TrivSqZeroExt in
/-- **Eq. 43 ∘ eq. 44.**  Over the dual numbers, with `A = (O↑ᵀO↑)⁻¹·O↑ᵀ·O↓`, a right eigenpair
    `A·φ = λ·φ` and a left eigenvector `χ·A = λ·χ` with `χ₀·φ₀ ≠ 0`:
    `ε(λ) = χ₀·W₀·(−λ₀·(O↑₀ᵀε(O↑) + ε(O↑)ᵀO↑₀)·φ₀ + ε(O↑)ᵀO↓₀·φ₀ + O↑₀ᵀε(O↓)·φ₀)/(χ₀·φ₀)` —
    the coded `JaohT = 1/(χᴴφ)·χᴴ·OO·Qi` with `Qi = (φᵀ ⊗ I)·(−λ·(P+I)·Q1 + P·Q2 + Q3)`. -/
theorem C17_eig_sens_realisation {K : Type} [Field K] {a n : Nat}
    (Op Om : Matrix (Fin a) (Fin n) (DualNumber K)) (W A : Matrix (Fin n) (Fin n) (DualNumber K))
    (φ χ : Fin n → DualNumber K) (lam : DualNumber K)
    (hW : W * (Opᵀ * Op) = 1) (hA : A = W * (Opᵀ * Om))
    (hr : A *ᵥ φ = lam • φ) (hl : χ ᵥ* A = lam • χ) (hne : (χ ⬝ᵥ φ).fst ≠ 0) :
    lam.snd = (vfst χ ⬝ᵥ (mfst W *ᵥ
        ( -(lam.fst • (((mfst Op)ᵀ * msnd Op + (msnd Op)ᵀ * mfst Op) *ᵥ vfst φ))
          + ((msnd Op)ᵀ * mfst Om) *ᵥ vfst φ + ((mfst Op)ᵀ * msnd Om) *ᵥ vfst φ )))
      / (vfst χ ⬝ᵥ vfst φ) := by
  have h0 : mfst A *ᵥ vfst φ = lam.fst • vfst φ := by
    have := congrArg vfst hr
    rwa [vfst_mulVec, vfst_smul] at this
  rw [C17_eig_sens A φ χ lam hr hl hne, C17_realisation_sens_eig Op Om W A hW hA (vfst φ) lam.fst h0]

open Matrix TrivSqZeroExt in
/-- **Singular-value sensitivity.**  Over the dual numbers (`2 ≠ 0`): if
    `H·v = σ·u`, `uᵀ·H = σ·vᵀ`, `uᵀu = 1`, `vᵀv = 1` hold to first order then
    `ε(σ) = u₀ᵀ·ε(H)·v₀` (the coded `np.dot(Vom[:, ii].T, Ti1)`, `np.dot(Uom[:, ii].T, Ti2)`). -/
theorem C17_sv_sigma_sens {K : Type} [Field K] {ι κ : Type} [Fintype ι] [Fintype κ]
    (H : Matrix ι κ (DualNumber K)) (u : ι → DualNumber K) (v : κ → DualNumber K)
    (sg : DualNumber K) (h2 : (2 : K) ≠ 0)
    (hHv : H *ᵥ v = sg • u) (hHu : u ᵥ* H = sg • v) (huu : u ⬝ᵥ u = 1) (hvv : v ⬝ᵥ v = 1) :
    sg.snd = vfst u ⬝ᵥ (msnd H *ᵥ vfst v) := by
  have e1 := congrArg vsnd hHv
  rw [vsnd_mulVec, vsnd_smul] at e1
  have hu0 := congrArg vfst hHu
  rw [vfst_vecMul, vfst_smul] at hu0
  have huu0 : vfst u ⬝ᵥ vfst u = 1 := by rw [← fst_dotProduct, huu, fst_one]
  have hperp : ∀ {m : Type} [Fintype m] (x : m → DualNumber K), x ⬝ᵥ x = 1 →
      vfst x ⬝ᵥ vsnd x = 0 := by
    intro m _ x hx
    have h := congrArg TrivSqZeroExt.snd hx
    rw [snd_dotProduct, snd_one, dotProduct_comm (vsnd x), ← two_mul] at h
    exact (mul_eq_zero.mp h).resolve_left h2
  have h := congrArg (fun y => vfst u ⬝ᵥ y) e1
  simp only [dotProduct_add, dotProduct_smul, Matrix.dotProduct_mulVec (vfst u) (mfst H), hu0,
    smul_dotProduct, hperp u huu, hperp v hvv, huu0, smul_eq_mul, mul_zero, zero_add,
    mul_one] at h
  exact h.symm

open Matrix TrivSqZeroExt in
/-- **The coded singular-vector sensitivity (eqs 28–34) is THE first-order perturbation.**
    Over the dual numbers (`2 ≠ 0`), for ANY first-order singular triple of `H₀ + ε·H₁`
    (`H·v = σ·u`, `uᵀ·H = σ·vᵀ`, `uᵀu = vᵀv = 1`) with `σ₀ ≠ 0` for which the inverse `Ki` of
    eq. 28 exists (`Ki·(I + [0; 2v₀ᵀ] − H₀ᵀH₀/σ₀²) = I`, row `l` carrying `2v₀ᵀ`):
    `ε(σ) = u₀ᵀH₁v₀`, `ε(u) = Bi1·[H₁v₀ − u₀ε(σ); H₁ᵀu₀ − v₀ε(σ)]/σ₀` (`svDu`, what `JOHTi`
    uses) and `ε(v) = svDv`. -/
theorem C17_sv_sens {K : Type} [Field K] {ι κ : Type} [Fintype ι] [Fintype κ] [DecidableEq ι]
    [DecidableEq κ] (H : Matrix ι κ (DualNumber K)) (u : ι → DualNumber K)
    (v : κ → DualNumber K) (sg : DualNumber K) (l : κ) (Ki : Matrix κ κ K) (h2 : (2 : K) ≠ 0)
    (hHv : H *ᵥ v = sg • u) (hHu : u ᵥ* H = sg • v) (huu : u ⬝ᵥ u = 1) (hvv : v ⬝ᵥ v = 1)
    (hσ : sg.fst ≠ 0) (hKi : Ki * svKarg (mfst H) (vfst v) sg.fst l = 1) :
    sg.snd = svDsig (vfst u) (vfst v) (msnd H) ∧
    vsnd u = svDu (mfst H) (vfst u) (vfst v) sg.fst l Ki (msnd H) ∧
    vsnd v = svDv (mfst H) (vfst u) (vfst v) sg.fst l Ki (msnd H) := by
  have e1 := congrArg vsnd hHv
  rw [vsnd_mulVec, vsnd_smul] at e1
  have e2 := congrArg vsnd hHu
  rw [vsnd_vecMul, vsnd_smul] at e2
  have hv0 := congrArg vfst hHv
  rw [vfst_mulVec, vfst_smul] at hv0
  have hu0 := congrArg vfst hHu
  rw [vfst_vecMul, vfst_smul] at hu0
  have huu0 : vfst u ⬝ᵥ vfst u = 1 := by rw [← fst_dotProduct, huu, fst_one]
  have hvv0 : vfst v ⬝ᵥ vfst v = 1 := by rw [← fst_dotProduct, hvv, fst_one]
  have hperp : ∀ {m : Type} [Fintype m] (x : m → DualNumber K), x ⬝ᵥ x = 1 →
      vfst x ⬝ᵥ vsnd x = 0 := by
    intro m _ x hx
    have h := congrArg TrivSqZeroExt.snd hx
    rw [snd_dotProduct, snd_one, dotProduct_comm (vsnd x), ← two_mul] at h
    exact (mul_eq_zero.mp h).resolve_left h2
  exact sv_sens_pair (mfst H) (msnd H) (vfst u) (vfst v) sg.fst l Ki hσ hv0 hu0 huu0 hvv0 hKi
    (vsnd u) (vsnd v) sg.snd (by rw [add_comm, e1, add_comm]) (by rw [e2, add_comm])
    (hperp u huu) (hperp v hvv)

open Matrix TrivSqZeroExt in
/-- **Existence: the coded closed form solves the first-order singular-triple equations.**
    For a singular triple `(u, σ, v)` of `H` over a field (`σ ≠ 0`, `Ki` the inverse of eq. 28) and
    every perturbation `ΔH`, the dual-number triple `(u + ε·svDu, σ + ε·uᵀΔHv, v + ε·svDv)` is a
    singular triple of `H + ε·ΔH` with unit vectors. -/
theorem C17_sv_sens_exists {K : Type} [Field K] {ι κ : Type} [Fintype ι] [Fintype κ]
    [DecidableEq ι] [DecidableEq κ] (H dH : Matrix ι κ K) (u : ι → K) (v : κ → K) (σ : K) (l : κ)
    (Ki : Matrix κ κ K) (hσ : σ ≠ 0) (hHv : H *ᵥ v = σ • u) (hHu : u ᵥ* H = σ • v)
    (huu : u ⬝ᵥ u = 1) (hvv : v ⬝ᵥ v = 1) (hKi : Ki * svKarg H v σ l = 1) :
    let ud := dvec u (svDu H u v σ l Ki dH)
    let vd := dvec v (svDv H u v σ l Ki dH)
    let sd : DualNumber K := inl σ + inr (svDsig u v dH)
    dmat H dH *ᵥ vd = sd • ud ∧ ud ᵥ* dmat H dH = sd • vd ∧ ud ⬝ᵥ ud = 1 ∧ vd ⬝ᵥ vd = 1 := by
  intro ud vd sd
  obtain ⟨s1, s2, s3, s4⟩ := sv_sens_solves H dH u v σ l Ki hσ hHv hHu huu hvv hKi
  have hs0 : sd.fst = σ := by simp [sd]
  have hs1 : sd.snd = svDsig u v dH := by simp [sd]
  refine ⟨?_, ?_, ?_, ?_⟩
  · apply dual_vec_ext
    · rw [vfst_mulVec, vfst_smul, hs0]; simpa [ud, vd] using hHv
    · rw [vsnd_mulVec, vsnd_smul, hs0, hs1]
      simp only [ud, vd, vfst_dvec, vsnd_dvec, mfst_dmat, msnd_dmat]
      rw [add_comm, s1, add_comm]
  · apply dual_vec_ext
    · rw [vfst_vecMul, vfst_smul, hs0]; simpa [ud, vd] using hHu
    · rw [vsnd_vecMul, vsnd_smul, hs0, hs1]
      simp only [ud, vd, vfst_dvec, vsnd_dvec, mfst_dmat, msnd_dmat]
      rw [s2, add_comm]
  · apply TrivSqZeroExt.ext
    · rw [fst_dotProduct, fst_one]; simpa [ud] using huu
    · rw [snd_dotProduct, snd_one]
      simp only [ud, vfst_dvec, vsnd_dvec]
      rw [dotProduct_comm (svDu H u v σ l Ki dH), s3, add_zero]
  · apply TrivSqZeroExt.ext
    · rw [fst_dotProduct, fst_one]; simpa [vd] using hvv
    · rw [snd_dotProduct, snd_one]
      simp only [vd, vfst_dvec, vsnd_dvec]
      rw [dotProduct_comm (svDv H u v σ l Ki dH), s4, add_zero]

/-! ## The model's `kiArg` / `johT` are these closed forms (matrix bridge `toMx`) -/

/-- the model's eq.-28 matrix is `svKarg` of the bridged `H`, `v` with the last row carrying `2vᵀ`. -/
theorem C17_kiArg_bridge {K : Type} [Field K] [Inhabited K] (H : Mat K) (nV : Nat) (v : Nat → K)
    (sig : K) (hc : H.c = nV) (h0 : 0 < nV) :
    toMx nV nV (kiArg H nV v sig).e
      = svKarg (toMx H.r nV H.e) (fun j : Fin nV => v j.1) sig (lastIx nV h0) :=
  toMx_kiArg H nV v sig hc h0

section J
open Matrix
variable {K : Type} [Field K] [Inhabited K]
variable (H dH T Ki : Mat K) (u v : Nat → K) (sig rs : K) (k : Nat)
  (hk : k < T.c) (hcol : ∀ m, m < dH.c * dH.r → T.e m k = vecC dH m)

include hk hcol in
theorem ti1_e_aux (a : Nat) (ha : a < dH.c) :
    ((mul (selIU dH.c dH.r u) T).force).e a k = ∑ i ∈ range dH.r, dH.e i a * u i := by
  rw [force_e _ (by simpa [mul, selIU, kron, eye, rowVec] using ha) (by simpa [mul] using hk)]
  rw [← C17_vec_convention_left dH u a ha]
  simp only [mul, Unc.mulVec]
  apply sumTo_congr
  intro m hm
  rw [hcol m (by simpa [selIU, kron, eye, rowVec] using hm)]

include hk hcol in
theorem ti2_e_aux (i : Nat) (hi : i < dH.r) :
    ((mul (selVI dH.c dH.r v) T).force).e i k = ∑ j ∈ range dH.c, dH.e i j * v j := by
  rw [force_e _ (by simpa [mul, selVI, kron, eye, rowVec] using hi) (by simpa [mul] using hk)]
  rw [← C17_vec_convention_right dH v i hi]
  simp only [mul, Unc.mulVec]
  apply sumTo_congr
  intro m hm
  rw [hcol m (by simpa [selVI, kron, eye, rowVec] using hm)]

include hk hcol in
/-- **Column `k` of the model's `JOHTi` in Mathlib-matrix form.**  When column `k` of the factor
    `T` is the column stacking of a perturbation `ΔH` (`dH`), row `i` of `johT` (eqs 33–34 as
    coded, every `np.kron` selection, `vstack`/`hstack`, `force` unfolded) is
    `½·rs·u_i·(uᵀΔHv) + rs·(Bi1·stack)_i` with `Bi1·stack = svW` of the bridged matrices. -/
theorem C17_johT_column (hHr : H.r = dH.r) (hHc : H.c = dH.c) (hKc : Ki.c = dH.c)
    (h0 : 0 < dH.c) (i : Nat) (hi : i < dH.r) :
    (johT H T dH.r dH.c u v sig rs Ki).e i k
      = (1 / (1 + 1)) * rs * u i
          * svDsig (fun i : Fin dH.r => u i.1) (fun j : Fin dH.c => v j.1) (toMx dH.r dH.c dH.e)
        + rs * svW (toMx dH.r dH.c H.e) (fun i : Fin dH.r => u i.1) (fun j : Fin dH.c => v j.1) sig
            (lastIx dH.c h0) (toMx dH.c dH.c Ki.e) (toMx dH.r dH.c dH.e) ⟨i, hi⟩ := by
  set um : Fin dH.r → K := fun i => u i.1 with hum
  set vm : Fin dH.c → K := fun j => v j.1 with hvm
  set dHm := toMx dH.r dH.c dH.e with hdHm
  set Ti1 := (mul (selIU dH.c dH.r u) T).force with hTi1
  set Ti2 := (mul (selVI dH.c dH.r v) T).force with hTi2
  set vT1 := (mul (rowVec dH.c v) Ti1).force with hvT1
  set uT2 := (mul (rowVec dH.r u) Ti2).force with huT2
  have e1 : ∀ a (ha : a < dH.c), Ti1.e a k = (dHmᵀ *ᵥ um) ⟨a, ha⟩ := by
    intro a ha
    rw [hTi1, ti1_e_aux dH T u k hk hcol a ha]
    simp only [Matrix.mulVec, dotProduct, Matrix.transpose_apply, hdHm, toMx, hum,
      Finset.sum_range]
  have e2 : ∀ t (ht : t < dH.r), Ti2.e t k = (dHm *ᵥ vm) ⟨t, ht⟩ := by
    intro t ht
    rw [hTi2, ti2_e_aux dH T v k hk hcol t ht]
    simp only [Matrix.mulVec, dotProduct, hdHm, toMx, hvm, Finset.sum_range]
  have e3 : uT2.e 0 k = svDsig um vm dHm := by
    rw [huT2, force_e _ (by exact Nat.one_pos) (by exact hk)]
    simp only [mul, rowVec, sumTo_eq, svDsig, dotProduct]
    rw [Finset.sum_range]
    exact Finset.sum_congr rfl fun t _ => by rw [e2 t.1 t.2]
  have e4 : vT1.e 0 k = svDsig um vm dHm := by
    rw [hvT1, force_e _ (by exact Nat.one_pos) (by exact hk)]
    simp only [mul, rowVec, sumTo_eq]
    rw [Finset.sum_range, svDsig, Matrix.dotProduct_mulVec, dotProduct_comm,
      ← Matrix.mulVec_transpose]
    simp only [dotProduct]
    exact Finset.sum_congr rfl fun t _ => by rw [e1 t.1 t.2]
  set HKi := (mul (divS H sig) Ki).force with hHKi
  set Cc := sub (divS (transpose H) sig) (vstack2 (zeros (dH.c - 1) dH.r) (rowVec dH.r u)) with hCc
  set A1 := (add (eye dH.r) (mul HKi Cc)).force with hA1
  set X := sub Ti2 (mul (colVec dH.r u) uT2) with hX
  set Y := sub Ti1 (mul (colVec dH.c v) vT1) with hY
  set stack := (vstack2 X Y).force with hstack
  have hj : (johT H T dH.r dH.c u v sig rs Ki).e i k
      = ((add (mul (scale ((1 / (1 + 1)) * rs) (colVec dH.r u)) vT1)
          (scale rs (mul (hstack2 A1 HKi) stack).force)).force).e i k := rfl
  rw [hj, force_e _ (by exact hi) (by exact hk)]
  simp only [Mat.add, Mat.scale]
  rw [force_e _ (by exact hi) (by exact hk)]
  -- the two blocks of `Bi1·stack`
  have hXr : X.r = dH.r := by show 1 * dH.r = dH.r; exact Nat.one_mul _
  have hYr : Y.r = dH.c := by show dH.c * 1 = dH.c; exact Nat.mul_one _
  have hsum : ((hstack2 A1 HKi).mul stack).e i k
      = (toMx dH.r dH.r A1.e *ᵥ fun t : Fin dH.r => stack.e t.1 k) ⟨i, hi⟩
        + (toMx dH.r dH.c HKi.e *ᵥ fun a : Fin dH.c => stack.e (dH.r + a.1) k) ⟨i, hi⟩ := by
    have hc : (hstack2 A1 HKi).c = dH.r + dH.c := by show dH.r + Ki.c = _; rw [hKc]
    simp only [mul, sumTo_eq, hc, Finset.sum_range_add, Matrix.mulVec, dotProduct, toMx]
    congr 1
    · rw [Finset.sum_range]
      refine Finset.sum_congr rfl fun t _ => ?_
      have : t.1 < A1.c := t.2
      simp only [hstack2, this, if_true]
    · rw [Finset.sum_range]
      refine Finset.sum_congr rfl fun a _ => ?_
      have : ¬ (dH.r + a.1 < A1.c) := by show ¬ (dH.r + a.1 < dH.r); omega
      have h' : dH.r + a.1 - A1.c = a.1 := by show dH.r + a.1 - dH.r = a.1; omega
      simp only [hstack2, this, if_false, h']
  have hHKim : toMx dH.r dH.c HKi.e = sig⁻¹ • toMx dH.r dH.c H.e * toMx dH.c dH.c Ki.e := by
    ext i a
    have h1 : i.1 < ((divS H sig).mul Ki).r := by show i.1 < H.r; rw [hHr]; exact i.2
    have h2 : a.1 < ((divS H sig).mul Ki).c := by show a.1 < Ki.c; rw [hKc]; exact a.2
    simp only [toMx, hHKi, force_e _ h1 h2]
    simp only [mul, divS, sumTo_eq, hHc, Finset.sum_range, Matrix.mul_apply, Matrix.smul_apply,
      smul_eq_mul, toMx, div_eq_inv_mul]
  have hCcm : toMx dH.c dH.r Cc.e
      = sig⁻¹ • (toMx dH.r dH.c H.e)ᵀ - rowAt (lastIx dH.c h0) um := by
    ext a t
    have hl : (a = lastIx dH.c h0) ↔ ¬ (a.1 < dH.c - 1) := by
      have := a.2; simp only [lastIx, Fin.ext_iff]; omega
    by_cases h : a.1 < dH.c - 1 <;>
      simp [toMx, hCc, Mat.sub, divS, Mat.transpose, vstack2, zeros, rowVec, rowAt, hl, h, hum,
        div_eq_inv_mul]
  have hA1m : toMx dH.r dH.r A1.e = 1 + toMx dH.r dH.c HKi.e * toMx dH.c dH.r Cc.e := by
    ext i t
    have h1 : i.1 < ((eye dH.r).add (HKi.mul Cc)).r := i.2
    have h2 : t.1 < ((eye dH.r).add (HKi.mul Cc)).c := t.2
    have hc : HKi.c = dH.c := by show Ki.c = _; exact hKc
    simp only [toMx, hA1, force_e _ h1 h2]
    simp only [Mat.add, eye, mul, sumTo_eq, hc, Finset.sum_range, Matrix.add_apply,
      Matrix.one_apply, Matrix.mul_apply, toMx, Fin.ext_iff]
  have hpm : (fun t : Fin dH.r => stack.e t.1 k) = svP um vm dHm := by
    funext t
    have h1 : t.1 < (vstack2 X Y).r := by show t.1 < X.r + Y.r; rw [hXr]; have := t.2; omega
    have h2 : k < (vstack2 X Y).c := hk
    have h3 : t.1 < X.r := by rw [hXr]; exact t.2
    rw [hstack, force_e _ h1 h2]
    simp only [vstack2, h3, if_true]
    simp only [hX, Mat.sub, mul, colVec, sumTo_eq, Finset.sum_range_one,
      e2 t.1 t.2, e3, svP, Pi.sub_apply, Pi.smul_apply, smul_eq_mul, hum]
    ring
  have hqm : (fun a : Fin dH.c => stack.e (dH.r + a.1) k) = svQ um vm dHm := by
    funext a
    have h1 : dH.r + a.1 < (vstack2 X Y).r := by
      show dH.r + a.1 < X.r + Y.r; rw [hXr, hYr]; have := a.2; omega
    have h2 : k < (vstack2 X Y).c := hk
    have h3 : ¬ (dH.r + a.1 < X.r) := by rw [hXr]; omega
    have h4 : dH.r + a.1 - X.r = a.1 := by rw [hXr]; omega
    rw [hstack, force_e _ h1 h2]
    simp only [vstack2, h3, if_false, h4]
    simp only [hY, Mat.sub, mul, colVec, sumTo_eq,
      Finset.sum_range_one, e1 a.1 a.2, e4, svQ, Pi.sub_apply, Pi.smul_apply, smul_eq_mul, hvm]
    ring
  rw [hsum, hpm, hqm, hA1m, hHKim, hCcm]
  simp only [mul, colVec, sumTo_eq, Finset.sum_range_one, e4, svW, Pi.add_apply]

end J

open Matrix TrivSqZeroExt in
/-- **`JOHTi` is the first-order perturbation of the observability column `√σ·u`.**
    Let column `k` of `T` be the column stacking of `ΔH`, `(u, σ, v)` a singular triple of `H`
    (bridged), `Ki` the inverse of the model's `kiArg`, `rs = 1/√σ` (`rs·rs·σ = 1`).  Then for
    ANY first-order singular triple `(ũ, σ̃, ṽ)` of `H + ε·ΔH` over the dual numbers extending
    `(u, σ, v)` and any `s̃` with `s̃² = σ̃`, `s̃₀·rs = 1`:
    `johT[i, k] = ε((s̃·ũ)_i)` — what `Q1..Q4` are assembled from. -/
theorem C17_johT_first_order {K : Type} [Field K] [Inhabited K] (H dH T Ki : Mat K) (u v : Nat → K)
    (sig rs : K) (k : Nat) (hk : k < T.c) (hcol : ∀ m, m < dH.c * dH.r → T.e m k = vecC dH m)
    (hHr : H.r = dH.r) (hHc : H.c = dH.c) (hKc : Ki.c = dH.c) (h0 : 0 < dH.c)
    (h2 : (2 : K) ≠ 0) (hrs : rs * rs * sig = 1)
    (hKi : toMx dH.c dH.c Ki.e * toMx dH.c dH.c (kiArg H dH.c v sig).e = 1)
    (ud : Fin dH.r → DualNumber K) (vd : Fin dH.c → DualNumber K) (sd s : DualNumber K)
    (hu : vfst ud = fun i => u i.1) (hv : vfst vd = fun j => v j.1) (hsd : sd.fst = sig)
    (hHv : dmat (toMx dH.r dH.c H.e) (toMx dH.r dH.c dH.e) *ᵥ vd = sd • ud)
    (hHu : ud ᵥ* dmat (toMx dH.r dH.c H.e) (toMx dH.r dH.c dH.e) = sd • vd)
    (huu : ud ⬝ᵥ ud = 1) (hvv : vd ⬝ᵥ vd = 1) (hss : s * s = sd) (hs0 : s.fst * rs = 1)
    (i : Nat) (hi : i < dH.r) :
    (johT H T dH.r dH.c u v sig rs Ki).e i k = ((s • ud) ⟨i, hi⟩).snd := by
  have hsig : sig ≠ 0 := by rintro rfl; simp at hrs
  have hrs0 : rs ≠ 0 := by rintro rfl; simp at hrs
  have hKi' : toMx dH.c dH.c Ki.e
      * svKarg (mfst (dmat (toMx dH.r dH.c H.e) (toMx dH.r dH.c dH.e))) (vfst vd) sd.fst
          (lastIx dH.c h0) = 1 := by
    have hb := C17_kiArg_bridge H dH.c v sig hHc h0
    rw [hHr] at hb
    rw [mfst_dmat, hv, hsd, ← hb]
    exact hKi
  obtain ⟨d1, d2, _⟩ := C17_sv_sens _ ud vd sd (lastIx dH.c h0) (toMx dH.c dH.c Ki.e) h2 hHv hHu
    huu hvv (by rw [hsd]; exact hsig) hKi'
  simp only [mfst_dmat, msnd_dmat, hu, hv, hsd] at d1 d2
  have hud : (ud ⟨i, hi⟩).fst = u i := congrFun hu ⟨i, hi⟩
  have hud1 : (ud ⟨i, hi⟩).snd = sig⁻¹ * svW (toMx dH.r dH.c H.e) (fun i : Fin dH.r => u i.1)
      (fun j : Fin dH.c => v j.1) sig (lastIx dH.c h0) (toMx dH.c dH.c Ki.e)
      (toMx dH.r dH.c dH.e) ⟨i, hi⟩ := by
    have := congrFun d2 ⟨i, hi⟩
    simpa [vsnd, svDu] using this
  have hs1 : 2 * s.fst * s.snd = sd.snd := by
    have := congrArg TrivSqZeroExt.snd hss
    simp only [snd_mul, smul_eq_mul, MulOpposite.smul_eq_mul_unop, MulOpposite.unop_op] at this
    rw [← this]; ring
  have hsf : s.fst * s.fst = sig := by
    have := congrArg TrivSqZeroExt.fst hss
    rwa [fst_mul, hsd] at this
  rw [C17_johT_column H dH T Ki u v sig rs k hk hcol hHr hHc hKc h0 i hi, ← d1, ← hs1]
  simp only [Pi.smul_apply, smul_eq_mul, snd_mul, hud, hud1, MulOpposite.smul_eq_mul_unop,
    MulOpposite.unop_op]
  have hsf0 : s.fst ≠ 0 := by rintro h; rw [h] at hs0; simp at hs0
  have hrs' : rs = s.fst⁻¹ := eq_inv_of_mul_eq_one_right hs0
  rw [hrs', ← hsf, one_add_one_eq_two]
  field_simp
  ring

/-! ## Non-vacuity -/

open Matrix TrivSqZeroExt in
/-- hypotheses of `C17_eig_sens_realisation` (order 1): `O↑ = (1 + ε, 2)ᵀ`, `O↓ = (3, 1 + ε)ᵀ`,
    `W = 1/5 − (2/25)ε`, `A = W·O↑ᵀO↓ = 1 + (3/5)ε = λ`, `φ = χ = (1)`. -/
example :
    let Op : Matrix (Fin 2) (Fin 1) (DualNumber ℚ) := !![inl 1 + inr 1; inl 2]
    let Om : Matrix (Fin 2) (Fin 1) (DualNumber ℚ) := !![inl 3; inl 1 + inr 1]
    let W : Matrix (Fin 1) (Fin 1) (DualNumber ℚ) := !![inl (1 / 5) + inr (-2 / 25)]
    let A : Matrix (Fin 1) (Fin 1) (DualNumber ℚ) := !![inl 1 + inr (3 / 5)]
    let φ : Fin 1 → DualNumber ℚ := ![1]
    let lam : DualNumber ℚ := inl 1 + inr (3 / 5)
    W * (Opᵀ * Op) = 1 ∧ A = W * (Opᵀ * Om) ∧ A *ᵥ φ = lam • φ ∧ φ ᵥ* A = lam • φ ∧
      (φ ⬝ᵥ φ).fst ≠ 0 := by
  intro Op Om W A φ lam
  refine ⟨?_, ?_, ?_, ?_, ?_⟩
  · ext i j <;> fin_cases i <;> fin_cases j <;>
      simp [Op, W, Matrix.mul_apply, Fin.sum_univ_two] <;> norm_num
  · ext i j <;> fin_cases i <;> fin_cases j <;>
      simp [A, Op, Om, W, Matrix.mul_apply, Fin.sum_univ_two] <;> norm_num
  · ext i <;> fin_cases i <;> simp [A, φ, lam, Matrix.mulVec, dotProduct]
  · ext i <;> fin_cases i <;> simp [A, φ, lam, Matrix.vecMul, dotProduct]
  · simp [φ, dotProduct]

/-- a singular triple over `ℚ` with the inverse of eq. 28: `H = diag(2, 1)`, `σ = 1`,
    `u = v = e₁` (last component of `v` non-zero), `Ki = diag(−1/3, 1/2)`. -/
def exSvH : Matrix (Fin 2) (Fin 2) ℚ := !![2, 0; 0, 1]
def exSvU : Fin 2 → ℚ := ![0, 1]
def exSvKi : Matrix (Fin 2) (Fin 2) ℚ := !![-1 / 3, 0; 0, 1 / 2]

open Matrix in
theorem exSv : (1 : ℚ) ≠ 0 ∧ exSvH *ᵥ exSvU = (1 : ℚ) • exSvU ∧ exSvU ᵥ* exSvH = (1 : ℚ) • exSvU ∧
    exSvU ⬝ᵥ exSvU = 1 ∧ exSvKi * svKarg exSvH exSvU 1 1 = 1 := by
  refine ⟨one_ne_zero, ?_, ?_, ?_, ?_⟩
  · ext i; fin_cases i <;> simp [exSvH, exSvU, Matrix.mulVec, dotProduct, Fin.sum_univ_two]
  · ext i; fin_cases i <;> simp [exSvH, exSvU, Matrix.vecMul, dotProduct, Fin.sum_univ_two]
  · simp [exSvU, dotProduct, Fin.sum_univ_two]
  · ext i j
    fin_cases i <;> fin_cases j <;>
      simp [exSvH, exSvU, exSvKi, svKarg, rowAt, Matrix.mul_apply, Fin.sum_univ_two]
    all_goals norm_num

open Matrix TrivSqZeroExt in
/-- the hypotheses of `C17_sv_sigma_sens` / `C17_sv_sens` are satisfiable with a non-zero
    perturbation `ΔH = [[1,2],[3,4]]` (through `C17_sv_sens_exists` on the triple above), and the
    first-order parts are non-trivial: `ε(σ) = 4`. -/
example : ∃ (H : Matrix (Fin 2) (Fin 2) (DualNumber ℚ)) (u v : Fin 2 → DualNumber ℚ)
    (sg : DualNumber ℚ) (Ki : Matrix (Fin 2) (Fin 2) ℚ),
    (2 : ℚ) ≠ 0 ∧ H *ᵥ v = sg • u ∧ u ᵥ* H = sg • v ∧ u ⬝ᵥ u = 1 ∧ v ⬝ᵥ v = 1 ∧ sg.fst ≠ 0 ∧
      Ki * svKarg (mfst H) (vfst v) sg.fst 1 = 1 ∧ sg.snd = 4 := by
  obtain ⟨hσ, h1, h2, h3, h4⟩ := exSv
  obtain ⟨a, b, c, d⟩ := C17_sv_sens_exists exSvH !![1, 2; 3, 4] exSvU exSvU 1 1 exSvKi hσ h1 h2 h3 h3 h4
  refine ⟨_, _, _, _, exSvKi, two_ne_zero, a, b, c, d, ?_, ?_, ?_⟩
  · simp
  · simpa using h4
  · simp [svDsig, Matrix.mulVec, dotProduct, Fin.sum_univ_two, exSvU]

/-- model-level data: `H = diag(2, 1)`, `ΔH = [[1,2],[3,4]]`, one-column factor `T = vec_c(ΔH)`,
    `u = v = e₁`, `Ki = diag(−1/3, 1/2)`. -/
def exHm : Mat Rat := ⟨2, 2, fun i j => if i = j then (if i = 0 then 2 else 1) else 0⟩
def exdH : Mat Rat := ⟨2, 2, fun i j => (2 * i + j + 1 : Nat)⟩
def exT : Mat Rat := ⟨4, 1, fun m _ => vecC exdH m⟩
def exKi : Mat Rat := ⟨2, 2, fun i j => if i = j then (if i = 0 then -1 / 3 else 1 / 2) else 0⟩
def exE1 : Nat → Rat := fun i => if i = 1 then 1 else 0

/-- hypotheses of `C17_kiArg_bridge` and `C17_johT_column` on the data above; the resulting entry
    is non-trivial (`johT[0, 0] = −8/3`: `ε(u)₀`, as `s₀ = rs = 1`). -/
example : exHm.c = 2 ∧ 0 < 2 ∧ 0 < exT.c ∧ (∀ m, m < exdH.c * exdH.r → exT.e m 0 = vecC exdH m) ∧
    exHm.r = exdH.r ∧ exHm.c = exdH.c ∧ exKi.c = exdH.c ∧ 0 < exdH.c ∧ 0 < exdH.r ∧
    (johT exHm exT 2 2 exE1 exE1 1 1 exKi).e 0 0 = -8 / 3 := by
  refine ⟨rfl, by decide, by decide, fun m _ => rfl, rfl, rfl, rfl, by decide, by decide, ?_⟩
  decide +kernel

open Matrix TrivSqZeroExt in
/-- the hypotheses of `C17_johT_first_order` are satisfiable on the model-level data above
    (`σ = rs = 1`, `s̃ = 1 + 2ε`, `σ̃ = 1 + 4ε`), the dual triple coming from
    `C17_sv_sens_exists`. -/
theorem exFirstOrder : ∃ (ud : Fin 2 → DualNumber ℚ) (vd : Fin 2 → DualNumber ℚ)
    (sd s : DualNumber ℚ),
    (2 : ℚ) ≠ 0 ∧ (1 : ℚ) * 1 * 1 = 1 ∧
    toMx 2 2 exKi.e * toMx 2 2 (kiArg exHm 2 exE1 1).e = 1 ∧
    (vfst ud = fun i => exE1 i.1) ∧ (vfst vd = fun j => exE1 j.1) ∧ sd.fst = 1 ∧
    dmat (toMx 2 2 exHm.e) (toMx 2 2 exdH.e) *ᵥ vd = sd • ud ∧
    ud ᵥ* dmat (toMx 2 2 exHm.e) (toMx 2 2 exdH.e) = sd • vd ∧
    ud ⬝ᵥ ud = 1 ∧ vd ⬝ᵥ vd = 1 ∧ s * s = sd ∧ s.fst * 1 = 1 := by
  have hKi : toMx 2 2 exKi.e * toMx 2 2 (kiArg exHm 2 exE1 1).e = 1 := by
    ext i j
    fin_cases i <;> fin_cases j <;>
      simp only [Matrix.mul_apply, Fin.sum_univ_two, toMx, Matrix.one_apply] <;> decide +kernel
  have hKi' := hKi
  rw [C17_kiArg_bridge exHm 2 exE1 1 rfl (by decide)] at hKi'
  have hu : (fun i : Fin 2 => exE1 i.1) ⬝ᵥ (fun i : Fin 2 => exE1 i.1) = 1 := by
    simp [dotProduct, exE1, Fin.sum_univ_two]
  have h1 : toMx 2 2 exHm.e *ᵥ (fun j : Fin 2 => exE1 j.1)
      = (1 : ℚ) • fun i : Fin 2 => exE1 i.1 := by
    ext i; fin_cases i <;> simp [toMx, exHm, exE1, Matrix.mulVec, dotProduct, Fin.sum_univ_two]
  have h2 : (fun i : Fin 2 => exE1 i.1) ᵥ* toMx 2 2 exHm.e
      = (1 : ℚ) • fun j : Fin 2 => exE1 j.1 := by
    ext i; fin_cases i <;> simp [toMx, exHm, exE1, Matrix.vecMul, dotProduct, Fin.sum_univ_two]
  obtain ⟨a, b, c, d⟩ := C17_sv_sens_exists (toMx 2 2 exHm.e) (toMx 2 2 exdH.e)
    (fun i : Fin 2 => exE1 i.1) (fun j : Fin 2 => exE1 j.1) 1 (lastIx 2 (by decide))
    (toMx 2 2 exKi.e) one_ne_zero h1 h2 hu hu hKi'
  refine ⟨_, _, _, inl 1 + inr 2, two_ne_zero, by norm_num, hKi, ?_, ?_, ?_, a, b, c, d, ?_, ?_⟩
  · simp
  · simp
  · simp
  · apply TrivSqZeroExt.ext
    · simp
    · simp [svDsig, toMx, exdH, exE1, Matrix.mulVec, dotProduct, Fin.sum_univ_two]
      norm_num
  · simp

open TrivSqZeroExt in
/-- … and `C17_johT_first_order` applies to them. -/
example : ∃ (ud : Fin 2 → DualNumber ℚ) (s : DualNumber ℚ),
    (johT exHm exT exdH.r exdH.c exE1 exE1 1 1 exKi).e 0 0 = ((s • ud) ⟨0, by decide⟩).snd := by
  obtain ⟨ud, vd, sd, s, h2, hrs, hKi, hu, hv, hsd, a, b, c, d, hss, hs0⟩ := exFirstOrder
  exact ⟨ud, s, C17_johT_first_order exHm exdH exT exKi exE1 exE1 1 1 0 (by decide)
    (fun m _ => rfl) rfl rfl rfl (by decide) h2 hrs hKi ud vd sd s hu hv hsd a b c d hss hs0 0
    (by decide)⟩

end PV.C17
