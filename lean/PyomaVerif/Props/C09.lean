import PyomaVerif.Lemmas.HcProg
import PyomaVerif.Model.Hc
import PyomaVerif.Generated.HcProgs
/-!
# C09 — hard validation criteria: sound, complete, consistent
Property theorems. The programs `Gen.prog_*` are regenerated from `/repo` on every run.
-/
namespace PV.C09
open PV.Hc

variable {Idx Val : Type}

/-- pointwise reading of a filtered table: a cell is non-NaN iff it is non-NaN in the
    unfiltered solution and satisfies every criterion in `cs`; its value is unchanged. -/
theorem denoteTbl_iff (S : Sem Idx Val) (o : Tbl) (cs : List Crit) (i : Idx) (v : Val) :
    denoteTbl S o cs i = some v ↔ (S.orig o i = some v ∧ ∀ c ∈ cs, critOrig S c i = true) := by
  unfold denoteTbl allCrit
  by_cases h : (cs.all fun c => critOrig S c i) = true
  · simp only [h, if_true]
    simp only [List.all_eq_true] at h
    exact ⟨fun hv => ⟨hv, h⟩, fun hv => hv.1⟩
  · simp only [h]
    simp only [List.all_eq_true] at h
    constructor
    · intro hv; cases hv
    · intro hv; exact absurd hv.2 h

/-- the concrete environment right after the pole computation -/
def initCEnv (S : Sem Idx Val) (covOn : Bool) (init : List (Var × Tbl)) : CEnv Idx Val :=
  fun x => ((initEnv covOn init).get x).map (denote S)

theorem init_rel (S : Sem Idx Val) (covOn : Bool) (init : List (Var × Tbl)) :
    Rel S (initEnv covOn init) (initCEnv S covOn init) := by
  intro x v h
  simp [initCEnv, h]

/-- **C09_sound_complete (generic form).** If the sequencing obligation `check` evaluates to
    `true` for a translated `run()` body under a configuration, then for *all* unfiltered
    tables, all thresholds and every meaning of the criteria (`S`), the concrete run of that
    body terminates normally and every tracked result field holds the unfiltered table blanked
    exactly where one of the enabled criteria fails (absent covariances stay `None`), and the
    label table was computed from precisely those three filtered pole tables. -/
def Conclusion (P : ClassProg) (conjOn covOn : Bool) (S : Sem Idx Val) : Prop :=
    ∃ e', crun S (initCEnv S covOn P.init) (select conjOn covOn P.prog) = some e' ∧
      (∀ f x o, (f, x) ∈ P.ret → fieldTbl f = some o →
        (if isCovTbl o && !covOn then e' x = some CVal.none
         else e' x = some (CVal.tbl (denoteTbl S o (enabled conjOn covOn))))) ∧
      e' P.lab = some (CVal.lst [some (denoteTbl S .fn (enabled conjOn covOn)),
                                 some (denoteTbl S .xi (enabled conjOn covOn)),
                                 some (denoteTbl S .phi (enabled conjOn covOn))])

theorem check_sound (P : ClassProg) (req : List String) (conjOn covOn : Bool)
    (hchk : check P req conjOn covOn = true) (S : Sem Idx Val) : Conclusion P conjOn covOn S := by
  unfold Conclusion
  unfold check at hchk
  split at hchk
  · cases hchk
  · rename_i a ha
    simp only [Bool.and_eq_true] at hchk
    obtain ⟨⟨hret, _⟩, hlab⟩ := hchk
    obtain ⟨e', he', hrel⟩ := arun_sound S _ _ _ _ (init_rel S covOn P.init) ha
    refine ⟨e', he', ?_, ?_⟩
    · intro f x o hmem hf
      have h1 := (List.all_eq_true.mp hret) (f, x) hmem
      simp only [fieldOk, hf] at h1
      split
      · rename_i hc
        rw [if_pos hc] at h1
        unfold isNone at h1
        split at h1
        · rename_i hx; simpa [denote] using hrel x _ hx
        · cases h1
      · rename_i hc
        rw [if_neg hc] at h1
        unfold holds at h1
        split at h1
        · rename_i o' cs hx
          simp only [Bool.and_eq_true, decide_eq_true_eq] at h1
          obtain ⟨ho, hs⟩ := h1
          subst ho
          have := hrel x _ hx
          simp only [denote] at this
          rw [this]
          congr 2
          funext i
          simp only [denoteTbl, sameSet_allCrit S cs _ hs i]
        · cases h1
    · unfold labOf at hlab
      split at hlab
      · rename_i o1 c1 o2 c2 o3 c3 hx
        simp only [Bool.and_eq_true, decide_eq_true_eq] at hlab
        obtain ⟨⟨⟨⟨⟨h1, h2⟩, h3⟩, s1⟩, s2⟩, s3⟩ := hlab
        subst h1 h2 h3
        have := hrel P.lab _ hx
        simp only [denote, List.map, denoteO] at this
        rw [this]
        have e1 : denoteTbl S .fn c1 = denoteTbl S .fn (enabled conjOn covOn) := by
          funext i; simp only [denoteTbl, sameSet_allCrit S c1 _ s1 i]
        have e2 : denoteTbl S .xi c2 = denoteTbl S .xi (enabled conjOn covOn) := by
          funext i; simp only [denoteTbl, sameSet_allCrit S c2 _ s2 i]
        have e3 : denoteTbl S .phi c3 = denoteTbl S .phi (enabled conjOn covOn) := by
          funext i; simp only [denoteTbl, sameSet_allCrit S c3 _ s3 i]
        rw [e1, e2, e3]
      · cases hlab

/-! ### The sequencing obligations over the generated programs (kernel evaluation) -/
theorem C09_seq_SSIdat : ∀ conjOn covOn, check Gen.prog_SSIdat requiredSSI conjOn covOn = true := by decide
theorem C09_seq_SSIcov : ∀ conjOn covOn, check Gen.prog_SSIcov requiredSSI conjOn covOn = true := by decide
theorem C09_seq_SSIdat_MS : ∀ conjOn covOn, check Gen.prog_SSIdat_MS requiredSSI conjOn covOn = true := by decide
theorem C09_seq_SSIcov_MS : ∀ conjOn covOn, check Gen.prog_SSIcov_MS requiredSSI conjOn covOn = true := by decide
theorem C09_seq_pLSCF : ∀ conjOn, check Gen.prog_pLSCF requiredPLSCF conjOn false = true := by decide
theorem C09_seq_pLSCF_MS : ∀ conjOn, check Gen.prog_pLSCF_MS requiredPLSCF conjOn false = true := by decide

/-- **C09 for the SSI classes** (and likewise below): every pole table stored in the result
    is the unfiltered table blanked exactly where an enabled criterion fails — soundness,
    completeness, unchanged values, one common NaN pattern; for every data set and thresholds. -/
theorem C09_SSIdat (conjOn covOn : Bool) (S : Sem Idx Val) : Conclusion Gen.prog_SSIdat conjOn covOn S :=
  check_sound Gen.prog_SSIdat requiredSSI conjOn covOn (C09_seq_SSIdat conjOn covOn) S
theorem C09_SSIcov (conjOn covOn : Bool) (S : Sem Idx Val) : Conclusion Gen.prog_SSIcov conjOn covOn S :=
  check_sound Gen.prog_SSIcov requiredSSI conjOn covOn (C09_seq_SSIcov conjOn covOn) S
theorem C09_SSIdat_MS (conjOn covOn : Bool) (S : Sem Idx Val) : Conclusion Gen.prog_SSIdat_MS conjOn covOn S :=
  check_sound Gen.prog_SSIdat_MS requiredSSI conjOn covOn (C09_seq_SSIdat_MS conjOn covOn) S
theorem C09_SSIcov_MS (conjOn covOn : Bool) (S : Sem Idx Val) : Conclusion Gen.prog_SSIcov_MS conjOn covOn S :=
  check_sound Gen.prog_SSIcov_MS requiredSSI conjOn covOn (C09_seq_SSIcov_MS conjOn covOn) S
theorem C09_pLSCF (conjOn : Bool) (S : Sem Idx Val) : Conclusion Gen.prog_pLSCF conjOn false S :=
  check_sound Gen.prog_pLSCF requiredPLSCF conjOn false (C09_seq_pLSCF conjOn) S
theorem C09_pLSCF_MS (conjOn : Bool) (S : Sem Idx Val) : Conclusion Gen.prog_pLSCF_MS conjOn false S :=
  check_sound Gen.prog_pLSCF_MS requiredPLSCF conjOn false (C09_seq_pLSCF_MS conjOn) S

end PV.C09

/-! ### The individual criteria functions (models of `gen.HC_*`, compared with the code on
every run): each mask is true exactly where its criterion holds (NaN ↦ false) and the
function's own filtered table is its input blanked where the mask is false. -/
namespace PV.C09
open PV.Hc PV.HcFn

theorem hcDamp_mask_iff (mx : Rat) (x : Option Rat) :
    dampMask mx x = true ↔ ∃ v, x = some v ∧ 0 < v ∧ v < mx := by
  cases x with
  | none => simp [dampMask]
  | some v => simp [dampMask]; exact ⟨fun h => ⟨h.2, h.1⟩, fun h => ⟨h.2, h.1⟩⟩

theorem hcDamp_filt (mx : Rat) (x : Option Rat) :
    dampFilt mx x = if dampMask mx x then x else none := by
  cases x with
  | none => simp [dampFilt, dampMask]
  | some v =>
    by_cases h : dampMask mx (some v) = true
    · have hv : v ≠ 0 := by
        have := (hcDamp_mask_iff mx (some v)).mp h
        obtain ⟨w, hw, hpos, _⟩ := this
        cases hw
        exact fun h0 => by simp [h0] at hpos
      simp [dampFilt, h, hv]
    · simp [dampFilt, h]

theorem hcCov_mask_iff (mx : Rat) (x : Option Rat) :
    covMask mx x = true ↔ ∃ v, x = some v ∧ v < mx := by
  cases x with
  | none => simp [covMask]
  | some v => simp [covMask]

/-- `HC_cov` (after the repair): the filtered table is the input blanked where the mask is
    false — for every value, including a variance that is exactly zero. -/
theorem hcCov_filt (mx : Rat) (x : Option Rat) :
    covFilt mx x = if covMask mx x then x else none := rfl

/-- the pre-repair `HC_cov` violates that at a zero variance (finding F23). -/
theorem hcCovOld_counterexample : covMask 1 (some 0) = true ∧ covFiltOld 1 (some 0) = none := by
  decide +kernel

theorem hcConj_mask_iff (t : T C) (x : Option C) :
    conjMask t x = true ↔ ∃ z, x = some z ∧ z ∈ entries t ∧ cconj z ∈ entries t := by
  cases x with
  | none => simp [conjMask]
  | some z => simp [conjMask]

theorem mpd_mask_iff (lim : Rat) (x : Option Rat) :
    mpdMask lim x = true ↔ ∃ v, x = some v ∧ v ≤ lim := by
  cases x <;> simp [mpdMask]

theorem mpc_mask_iff (lim : Rat) (x : Option Rat) :
    mpcMask lim x = true ↔ ∃ v, x = some v ∧ lim ≤ v := by
  cases x <;> simp [mpcMask]

/-- `applymask` cell by cell -/
theorem applymask_cell {α : Type} (t : T α) (m : List (List Bool)) (i j : Nat) :
    (((applymask t m)[i]?).bind (·[j]?)) =
      (match (t[i]?).bind (·[j]?), (m[i]?).bind (·[j]?) with
       | some x, some b => some (if b then x else none)
       | _, _ => none) := by
  unfold applymask
  rw [List.getElem?_zipWith]
  cases hti : t[i]? with
  | none => simp
  | some row =>
    cases hmi : m[i]? with
    | none => simp
    | some mrow =>
      simp only [Option.bind_some]
      rw [List.getElem?_zipWith]
      cases row[j]? <;> cases mrow[j]? <;> simp

/-- a `Sem` instance built from these cell functions: the hypotheses of the generic theorems
    are satisfiable (non-vacuity), with real-valued cells and the per-cell MPC/MPD values as
    an arbitrary function of the cell. -/
def semRat (orig : Tbl → (Nat × Nat) → Option Rat) (xiMax mpcLim mpdLim covMax : Rat)
    (mpcOf mpdOf : Rat → Option Rat) (conjT : ((Nat × Nat) → Option Rat) → (Nat × Nat) → Bool) :
    Sem (Nat × Nat) Rat where
  orig := orig
  cell := fun c x => match c with
    | .conj => true
    | .damp _ => dampMask xiMax x
    | .cov _ => covMask covMax x
    | .mpd _ => mpdMask mpdLim (x.bind mpdOf)
    | .mpc _ => mpcMask mpcLim (x.bind mpcOf)
  cell_none := by
    intro c hc
    cases c <;> simp_all [dampMask, covMask, mpdMask, mpcMask]
  conjT := conjT

example : ∃ S : Sem (Nat × Nat) Rat, S.cell (.damp .xiMax) (some (1/50)) = true ∧
    S.cell (.damp .xiMax) (some (1/5)) = false :=
  ⟨semRat (fun _ _ => some 1) (1/10) (7/10) (3/10) 1 (fun _ => some 1) (fun _ => some 0) (fun _ _ => true),
   by decide +kernel, by decide +kernel⟩

end PV.C09
