import PyomaVerif.Props.C20
import PyomaVerif.Props.C09Stored
import PyomaVerif.Lemmas.PolesStored
import PyomaVerif.Props.C17Stored
/-!
# C20 — the cluster diagram and the stabilisation diagram of a run show the same poles: `hpat` discharged

`C20_cluster_same_poles` assumes that the frequency and damping tables handed to `plot_cluster` / `plot_stab`
share one NaN pattern (`hpat`).  For the tables a run STORES this is a consequence of two facts proved elsewhere:
`SSI_poles` writes `Fn[:n, ii]` and `Xi[:n, ii]` together (`Poles.ssiPoles_same_pattern`, on the executable
`ssiPoles`), and every stored table is blanked by the SAME predicate (`FiltOf` / `Kept`, `stored_tables`).

* `stored_same_pattern` — any run data whose unfiltered `Fn`, `Xi` cells are real numbers with one NaN pattern:
  the stored `Fn_poles`, `Xi_poles` (as the `Mat`s the plot models read) share one NaN pattern;
* `C20_cluster_same_poles_stored` — for the unfiltered solution `rawOf T` of a returning `ssiPoles` call and every
  class program regenerated from `/repo`: the abscissae of the cluster markers are the abscissae of the
  stabilisation markers, in the same order — no hypothesis on the tables.
-/
namespace PV.C20Stored
open PV PV.Hc PV.HcFn PV.C09 PV.C09C18 PV.C09All PV.Stored PV.Poles PV.C20

/-- stored `Fn_poles` and `Xi_poles` share the NaN pattern of the unfiltered ones -/
theorem stored_same_pattern (p : Params (Nat × Nat)) (conjOn covOn : Bool) (Tf Tx : Nat × Nat → Option Cell)
    (hF : FiltOf p conjOn covOn .fn Tf) (hX : FiltOf p conjOn covOn .xi Tx)
    (hfn : ∀ i, ∃ a : Option Rat, p.orig .fn i = a.map .real)
    (hxi : ∀ i, ∃ a : Option Rat, p.orig .xi i = a.map .real)
    (hraw : ∀ i, (p.orig .xi i).isSome = (p.orig .fn i).isSome) (R Cc : Nat) (r c : Nat) :
    ((toMat R Cc Tx).e r c).isSome = ((toMat R Cc Tf).e r c).isSome := by
  show ((Tx (r, c)).bind Cell.real?).isSome = ((Tf (r, c)).bind Cell.real?).isSome
  by_cases hk : Kept p conjOn covOn (r, c)
  · rw [hF.eq_of_kept _ hk, hX.eq_of_kept _ hk]
    obtain ⟨a, ha⟩ := hfn (r, c)
    obtain ⟨b, hb⟩ := hxi (r, c)
    have := hraw (r, c)
    rw [ha, hb] at this ⊢
    cases a <;> cases b <;> simp_all [Cell.real?]
  · rw [hF.none_of_not_kept _ hk, hX.none_of_not_kept _ hk]

/-- **C20_cluster_same_poles_stored.**  `inp` any input on which the model of `ssi.SSI_poles` returns `T` (any
    `step`; `hrec`: every recorded eigen-decomposition has as many `λ_c` as `|λ_c|`).  For every class program, every
    value of `hc["conj"]` and all limits, the run on the unfiltered solution `rawOf T` stores `Fn_poles`, `Xi_poles`
    such that the cluster diagram (`clusterSpec`, any label table, any label value) shows exactly the poles of the
    stabilisation diagram (`stabSpec`), in the same order. -/
theorem C20_cluster_same_poles_stored (inp : SsiIn) (T : SsiTables) (hT : ssiPoles inp = .ok T)
    (hrec : ∀ k, ((inp.recs.getD k EigRec.empty).lamc).length = ((inp.recs.getD k EigRec.empty).absc).length)
    (cl : ClassSpec) (hcl : cl ∈ classes) (conjOn : Bool) (xiMax mpcLim mpdLim covMax : ℚ)
    (dir : Nat → (Nat → Cx Rat) → ℝ × ℝ) (Lab : Mat Int) (v : Int) (pstep : Nat) :
    let p := (rawOf T).params inp.ordmax (inp.ordmax / inp.step + 1) xiMax mpcLim mpdLim covMax dir
    ∃ e' Tf Tx, runOf cl conjOn false p = some e' ∧
      e' (retVar cl.prog "Fn_poles") = some (CVal.tbl Tf) ∧
      e' (retVar cl.prog "Xi_poles") = some (CVal.tbl Tx) ∧
      (clusterSpec (toMat inp.ordmax (inp.ordmax / inp.step + 1) Tf)
          (toMat inp.ordmax (inp.ordmax / inp.step + 1) Tx) Lab v).map Prod.fst
        = (stabSpec (toMat inp.ordmax (inp.ordmax / inp.step + 1) Tf) Lab pstep v).map Prod.fst := by
  intro p
  obtain ⟨e', Tf, Tx, _, he', hTf, fF, hTx, fX, _, _⟩ := stored_tables cl hcl conjOn false (by simp [flagOk]) p
  refine ⟨e', Tf, Tx, he', hTf, hTx, ?_⟩
  apply C20_cluster_same_poles
  obtain ⟨_, _, ⟨h1, h2, h3, h4, _⟩, _⟩ := ssiPoles_spec inp T hT
  apply stored_same_pattern p conjOn false Tf Tx fF fX
  · intro i; exact ⟨cellAt (rawOf T).fn i, rfl⟩
  · intro i; exact ⟨cellAt (rawOf T).xi i, rfl⟩
  · intro i
    show ((cellAt (rawOf T).xi i).map Cell.real).isSome = ((cellAt (rawOf T).fn i).map Cell.real).isSome
    rw [Option.isSome_map, Option.isSome_map]
    simp only [rawOf]
    rw [cellAt_gridOf, cellAt_gridOf, h1, h2, h3, h4]
    by_cases hi : i.1 < inp.ordmax ∧ i.2 < inp.ordmax / inp.step + 1
    · rw [if_pos hi, if_pos hi]
      exact (ssiPoles_same_pattern inp T hT hrec i.1 i.2).1
    · rw [if_neg hi, if_neg hi]

/-- non-vacuity: the returning `ssiPoles` call of `Props/C17Stored.lean` (`Ex`) satisfies the hypotheses, for every
    class, with the conjugate criterion on -/
example (cl : ClassSpec) (hcl : cl ∈ classes) :=
  C20_cluster_same_poles_stored C17Stored.Ex.inp _ C17Stored.Ex.returns.choose_spec C17Stored.Ex.hrec cl hcl true
    (1 / 5) (7 / 10) 2 1 (fun _ _ => (1, -1)) ⟨1, 2, fun _ _ => 1⟩ 1 1

end PV.C20Stored
