import PyomaVerif.Props.WiringDefaults
/-! Default values as regenerated obligations — part C11 (see `Props/WiringDefaults.lean`; one module per property so that a
changed default is reported by the property it belongs to). -/
namespace PV.WiringDefaults
open PV.Defaults PV.DefaultsTbl PV.Wiring

/-- **C11 defaults, SSI.** Seen from all four SSI classes: `mpe(sel_freq, order="find_min", rtol=0.05)` — the same
    `rtol` as `ssi.SSI_mpe` and as the run parameters (`order_in = "find_min"`, `rtol = 0.05`); `mpe_from_plot` has its
    own tolerance `rtol = 0.01`.  The routine itself requires the order and defaults labels and covariances to None. -/
theorem C11_defaults_ssi :
    methodDefaults ssiClasses "mpe" [("sel_freq", .required), ("order", .str "find_min"), ("rtol", .float 1 20)] = true
    ∧ methodDefaults ssiClasses "mpe_from_plot" [("freqlim", .none), ("rtol", .float 1 100)] = true
    ∧ funcDefaults "ssi.SSI_mpe" [("order", .required), ("Lab", .none), ("rtol", .float 1 20),
        ("Fn_cov", .none), ("Xi_cov", .none), ("Phi_cov", .none)] = true
    ∧ rpDefaults ssiClasses [("order_in", .str "find_min"), ("rtol", .float 1 20), ("sel_freq", .none)] = true := by
  decide

/-- the parameter is at the callee's literal default at that call site: left unbound, or bound to exactly that literal
    (writing a default out is the same call) -/
def atCalleeDefault (cls method callee param : String) : Bool :=
  match site cls method callee with
  | some s => s.dflt.contains param
  | none => false

/-- **C11 defaults, pLSCF.** Seen from pLSCF and pLSCF_MS: `mpe(sel_freq, order="find_min", rtol=0.05)`,
    `mpe_from_plot(freqlim=None, rtol=0.05)`, run parameters `order_in = "find_min"`, `rtol = 0.05`.  The routine's own
    defaults are `order="find_min"`, `Lab=None`, `deltaf=0.05`, `rtol=0.01`; at both class call sites `deltaf` is at that default (unbound, or
    written out as the same literal), so the aggregation band of an extraction through the classes is always the routine's `0.05`. -/
theorem C11_defaults_plscf :
    methodDefaults plscfClasses "mpe" [("sel_freq", .required), ("order", .str "find_min"), ("rtol", .float 1 20)] = true
    ∧ methodDefaults plscfClasses "mpe_from_plot" [("freqlim", .none), ("rtol", .float 1 20)] = true
    ∧ funcDefaults "plscf.pLSCF_mpe" [("order", .str "find_min"), ("Lab", .none), ("deltaf", .float 1 20), ("rtol", .float 1 100)] = true
    ∧ rpDefaults plscfClasses [("order_in", .str "find_min"), ("rtol", .float 1 20), ("sel_freq", .none)] = true
    ∧ atCalleeDefault "pLSCF" "mpe" "plscf.pLSCF_mpe" "deltaf" = true
    ∧ atCalleeDefault "pLSCF" "mpe_from_plot" "plscf.pLSCF_mpe" "deltaf" = true
    ∧ allResolve plscfClasses "mpe" "pLSCF" = true ∧ allResolve plscfClasses "mpe_from_plot" "pLSCF" = true := by
  decide

end PV.WiringDefaults
