import PyomaVerif.Model.MpePy
import PyomaVerif.Lemmas.MpePy
import PyomaVerif.Lemmas.MpePlscf
import PyomaVerif.Props.C11
/-!
# C11 — every Python value of `order`, and the shapes of the returned arrays

`ssiMpePy` / `plscfMpePy` (`Model/MpePy.lean`) are what the driver ops `ssi_mpe` / `plscf_mpe` run and what the
correspondence compares with `ssi.SSI_mpe` / `plscf.pLSCF_mpe` (values, `order_out`, exception class, raw `np.shape`).
* On the orders of `Model/Mpe.lean` they ARE `ssiMpe` / `plscfMpe` (`C11_py_eq`, `C11_plscf_py_eq`), so every theorem of
  `Props/C11*.lean` speaks about the functions the driver runs.
* A Python `int` (negative included) extracts exactly what the column it resolves to extracts, and `order_out` echoes the
  object passed (`C11_int_order_eq`, `C11_neg_order_eq`, `C11_list_order_eq` and the pLSCF twins).
* Anything that is not `"find_min"`, `int`, `list` raises (`C11_other_order_raises`; pLSCF only inside the loop).
* The explicit-order calls are defined exactly on the property's domain (`C11_py_error_iff`, `C11_plscf_error_iff`).
* `np.shape` of the returned arrays: `(k,)`, `(k,)`, `(d, k)` — `(0,)` for no mode — for `k` returned modes (`C11_shapes`,
  `C11_plscf_shapes`).
-/
namespace PV.C11
open PV

variable (freq : List Rat) (Fn Xi : Mat NR) (Phi : Ten3 (Option CQ)) (Lab : Option (Mat Int))
  (rtol : Rat) (cov : Option MpeCov)

/-! ### the model the driver runs extends the model the C11 theorems are about -/

/-- on `"find_min"`, a non-negative `int`, a list of non-negative `int`s the routine for arbitrary Python orders is
    `ssiMpe`. -/
theorem C11_py_eq (order : MpeOrder) :
    ssiMpePy freq Fn Xi Phi order.toPy Lab rtol cov = ssiMpe freq Fn Xi Phi order Lab rtol cov := by
  cases order with
  | findMin => rfl
  | int o =>
    simp only [MpeOrder.toPy, ssiMpePy, ssiMpe, ssiMpeWith]
    rw [mpeLoop_map_congr Fn Xi Phi cov (chkOwn rtol) (pyIdx Fn.c (o : Int)) (some o)
      (fun acc f => mpePass_pyIdx_nat Fn Xi Phi cov (chkOwn rtol) acc f o)]
    rfl
  | list os =>
    simp only [MpeOrder.toPy, ssiMpePy, ssiMpe, ssiMpeWith]
    rw [mpeLoop_listReqsI_nat]
    rfl

theorem C11_plscf_py_eq (deltaf : Rat) (order : MpeOrder) :
    plscfMpePy freq Fn Xi Phi order.toPy Lab deltaf rtol = plscfMpe freq Fn Xi Phi order Lab deltaf rtol := by
  cases order with
  | findMin => rfl
  | int o =>
    simp only [MpeOrder.toPy, plscfMpePy, plscfMpe, plscfMpeWith]
    rw [mpeLoop_map_congr Fn Xi Phi none (chkOwn rtol) (pyIdx Fn.c (o : Int)) (some o)
      (fun acc f => mpePass_pyIdx_nat Fn Xi Phi none (chkOwn rtol) acc f o)]
    rfl
  | list os =>
    simp only [MpeOrder.toPy, plscfMpePy, plscfMpe, plscfMpeWith]
    rw [mpeLoop_listReqsI_nat, List.map_take]
    rfl

/-! ### Python integers: negative orders count from the last column; `order_out` echoes the argument -/

/-- replace `order_out` -/
def withOrderOut (oo : OrderOut) (r : Except String MpeOut) : Except String MpeOut :=
  match r with
  | .error e => .error e
  | .ok out => .ok ⟨out.acc, oo⟩

/-- **any Python `int`**: the call extracts exactly what the resolved column extracts (`IndexError` if there is
    none: `resolveCol` is then one past the last column), and reports the integer that was passed. -/
theorem C11_int_order_eq (o : Int) :
    ssiMpePy freq Fn Xi Phi (.int o) Lab rtol cov =
      withOrderOut (.int o) (ssiMpe freq Fn Xi Phi (.int (resolveCol Fn.c o)) Lab rtol cov) := by
  simp only [ssiMpePy, ssiMpe, ssiMpeWith]
  rw [mpeLoop_map_congr Fn Xi Phi cov (chkOwn rtol) (pyIdx Fn.c o) (some (resolveCol Fn.c o))
    (fun acc f => mpePass_pyIdx Fn Xi Phi cov (chkOwn rtol) acc f o)]
  cases mpeLoop Fn Xi Phi cov (chkOwn rtol) (freq.map fun f => (f, some (resolveCol Fn.c o))) {} with
  | error e => rfl
  | ok acc =>
    simp only
    cases freq.isEmpty <;> rfl

/-- **C11_neg_order_eq.** `order = -k` (`1 ≤ k ≤ #columns`) is the column `#columns − k`: same modes, same
    exceptions, `order_out = -k`. -/
theorem C11_neg_order_eq (o : Int) (h0 : o < 0) (h1 : -(Fn.c : Int) ≤ o) :
    ssiMpePy freq Fn Xi Phi (.int o) Lab rtol cov =
      withOrderOut (.int o) (ssiMpe freq Fn Xi Phi (.int ((Fn.c : Int) + o).toNat) Lab rtol cov) := by
  rw [C11_int_order_eq, resolveCol_of_some (pyIdx_neg h0 h1)]

/-- below `-#columns` (as at or above `#columns`) every non-empty request list raises `IndexError`. -/
theorem C11_int_order_out_of_range (o : Int) (h : o < -(Fn.c : Int) ∨ (Fn.c : Int) ≤ o) (hne : freq ≠ []) :
    ssiMpePy freq Fn Xi Phi (.int o) Lab rtol cov = .error "IndexError" := by
  have hnone : pyIdx Fn.c o = none := by
    rcases h with h | h
    · exact pyIdx_below h
    · unfold pyIdx
      have h0 : 0 ≤ o := by omega
      have h2 : ¬ o < (Fn.c : Int) := by omega
      simp [h0, h2]
  cases freq with
  | nil => exact absurd rfl hne
  | cons f rest =>
    simp [ssiMpePy, hnone, mpeLoop, mpePass, throw, throwThe, MonadExceptOf.throw]

/-- **a list of Python `int`s**: the same, entry by entry; `order_out = np.array(order)`. -/
theorem C11_list_order_eq (os : List Int) :
    ssiMpePy freq Fn Xi Phi (.list os) Lab rtol cov =
      withOrderOut (.arr os) (ssiMpe freq Fn Xi Phi (.list (os.map (resolveCol Fn.c))) Lab rtol cov) := by
  simp only [ssiMpePy, ssiMpe, ssiMpeWith]
  rw [mpeLoop_listReqsI]
  cases mpeLoop Fn Xi Phi cov (chkOwn rtol) (listReqs freq (os.map (resolveCol Fn.c))) {} <;> rfl

theorem C11_plscf_int_order_eq (deltaf : Rat) (o : Int) :
    plscfMpePy freq Fn Xi Phi (.int o) Lab deltaf rtol =
      withOrderOut (if freq.isEmpty then .arr [] else .int o)
        (plscfMpe freq Fn Xi Phi (.int (resolveCol Fn.c o)) Lab deltaf rtol) := by
  simp only [plscfMpePy, plscfMpe, plscfMpeWith]
  rw [mpeLoop_map_congr Fn Xi Phi none (chkOwn rtol) (pyIdx Fn.c o) (some (resolveCol Fn.c o))
    (fun acc f => mpePass_pyIdx Fn Xi Phi none (chkOwn rtol) acc f o)]
  cases mpeLoop Fn Xi Phi none (chkOwn rtol) (freq.map fun f => (f, some (resolveCol Fn.c o))) {} <;> rfl

theorem C11_plscf_list_order_eq (deltaf : Rat) (os : List Int) :
    plscfMpePy freq Fn Xi Phi (.list os) Lab deltaf rtol =
      withOrderOut (.arr (os.take freq.length))
        (plscfMpe freq Fn Xi Phi (.list (os.map (resolveCol Fn.c))) Lab deltaf rtol) := by
  simp only [plscfMpePy, plscfMpe, plscfMpeWith]
  rw [mpeLoop_listReqsI]
  cases mpeLoop Fn Xi Phi none (chkOwn rtol) (listReqs freq (os.map (resolveCol Fn.c))) {} <;> rfl

/-! ### objects that are neither `"find_min"`, `int` nor `list` -/

/-- **C11_other_order_raises.** `SSI_mpe` with `order` = `None`, `np.int64`, a `float`, a `tuple`, another string:
    `AttributeError`, whatever the tables and the requests (the final `else: raise`). -/
theorem C11_other_order_raises :
    ssiMpePy freq Fn Xi Phi .other Lab rtol cov = .error "AttributeError" := rfl

/-- `pLSCF_mpe` tests the type inside the request loop: `ValueError` as soon as one frequency is requested … -/
theorem C11_plscf_other_order_raises (deltaf : Rat) (hne : freq ≠ []) :
    plscfMpePy freq Fn Xi Phi .other Lab deltaf rtol = .error "ValueError" := by
  cases freq with
  | nil => exact absurd rfl hne
  | cons f rest => rfl

/-- … and nothing at all for an empty request list (empty arrays, `order_out = np.empty(0)`). -/
theorem C11_plscf_other_order_empty (deltaf : Rat) :
    plscfMpePy [] Fn Xi Phi .other Lab deltaf rtol = .ok ⟨{}, .arr []⟩ := rfl

/-- a `bool` order never returns modes from this model: `False` raises `ValueError`, `True` raises or leaves the
    model (`unmodelledBool`, skipped and counted by the correspondence). -/
theorem C11_bool_order_not_ok (b : Bool) (out : MpeOut) :
    ssiMpePy freq Fn Xi Phi (.bool b) Lab rtol cov ≠ .ok out := by
  unfold ssiMpePy
  cases freq with
  | nil => intro h; cases h
  | cons f rest => exact boolFirst_not_ok Fn f b out

/-! ### explicit orders are defined exactly on the property's domain -/

/-- the (request, column) pairs of a call with an explicit Python order -/
def reqsOfPy (c : Nat) (freq : List Rat) : PyOrder → List (Rat × Option Nat)
  | .int o => freq.map fun f => (f, pyIdx c o)
  | .list os => listReqsI c freq os
  | _ => []

/-- `int` (not `bool`) or `list` -/
def _root_.PV.PyOrder.Explicit : PyOrder → Prop
  | .int _ => True
  | .list _ => True
  | _ => False

/-- a successful explicit-order call (negative orders included) served every request and returned the six lists
    read off ONE cell list — whole poles (`C11_nearest`, `C11_only_if_close` speak about `mpeCells` of any request list). -/
theorem C11_py_whole {order : PyOrder} (hex : order.Explicit) {out : MpeOut}
    (h : ssiMpePy freq Fn Xi Phi order Lab rtol cov = .ok out) :
    (∀ q ∈ reqsOfPy Fn.c freq order, Servable Fn q) ∧
      out.acc = accOfCells Fn Xi Phi cov (mpeCells Fn (chkOwn rtol) (reqsOfPy Fn.c freq order)) := by
  unfold ssiMpePy at h
  cases order with
  | findMin => exact absurd hex (by simp [PyOrder.Explicit])
  | bool b => exact absurd hex (by simp [PyOrder.Explicit])
  | other => exact absurd hex (by simp [PyOrder.Explicit])
  | int o =>
    simp only at h
    cases hl : mpeLoop Fn Xi Phi cov (chkOwn rtol) (freq.map fun f => (f, pyIdx Fn.c o)) {} with
    | error e => rw [hl] at h; cases h
    | ok acc =>
      rw [hl] at h
      rw [← accOfCells_nil Fn Xi Phi cov] at hl
      obtain ⟨hs, hacc⟩ := mpeLoop_ok Fn Xi Phi cov (chkOwn rtol) _ [] acc hl
      simp only at h
      split at h
      · cases h
      · simp only [pure, Except.pure, Except.ok.injEq] at h
        subst h
        exact ⟨hs, by simpa [reqsOfPy] using hacc⟩
  | list os =>
    simp only at h
    cases hl : mpeLoop Fn Xi Phi cov (chkOwn rtol) (listReqsI Fn.c freq os) {} with
    | error e => rw [hl] at h; cases h
    | ok acc =>
      rw [hl] at h
      rw [← accOfCells_nil Fn Xi Phi cov] at hl
      obtain ⟨hs, hacc⟩ := mpeLoop_ok Fn Xi Phi cov (chkOwn rtol) _ [] acc hl
      simp only [pure, Except.pure, Except.ok.injEq] at h
      subst h
      exact ⟨hs, by simpa [reqsOfPy] using hacc⟩

/-- `SSI_mpe` with an explicit Python order does not raise iff every requested column exists (Python indexing) and
    holds a retained pole, and — for an `int` — at least one frequency is requested (else `order_out` is unbound). -/
theorem C11_py_error_iff {order : PyOrder} (hex : order.Explicit) :
    (∃ out, ssiMpePy freq Fn Xi Phi order Lab rtol cov = .ok out) ↔
      (∀ q ∈ reqsOfPy Fn.c freq order, Servable Fn q) ∧ (∀ o, order = .int o → freq ≠ []) := by
  constructor
  · rintro ⟨out, h⟩
    refine ⟨(C11_py_whole freq Fn Xi Phi Lab rtol cov hex h).1, ?_⟩
    intro o ho hf; subst ho; subst hf
    simp [ssiMpePy, mpeLoop, pure, Except.pure, throw, throwThe, MonadExceptOf.throw] at h
  · rintro ⟨hs, hne⟩
    unfold ssiMpePy
    cases order with
    | findMin => exact absurd hex (by simp [PyOrder.Explicit])
    | bool b => exact absurd hex (by simp [PyOrder.Explicit])
    | other => exact absurd hex (by simp [PyOrder.Explicit])
    | int o =>
      simp only
      cases hl : mpeLoop Fn Xi Phi cov (chkOwn rtol) (freq.map fun f => (f, pyIdx Fn.c o)) {} with
      | error e =>
        obtain ⟨q, hq, hns⟩ := mpeLoop_error Fn Xi Phi cov (chkOwn rtol) _ _ e hl
        exact absurd (hs q hq) hns
      | ok acc =>
        have : freq.isEmpty = false := by
          cases hf : freq with
          | nil => exact absurd hf (hne o rfl)
          | cons a t => rfl
        simp [this, pure, Except.pure]
    | list os =>
      simp only
      cases hl : mpeLoop Fn Xi Phi cov (chkOwn rtol) (listReqsI Fn.c freq os) {} with
      | error e =>
        obtain ⟨q, hq, hns⟩ := mpeLoop_error Fn Xi Phi cov (chkOwn rtol) _ _ e hl
        exact absurd (hs q hq) hns
      | ok acc => simp [pure, Except.pure]

/-- a successful explicit-order `pLSCF_mpe` call: the same cell list, no covariances. -/
theorem C11_plscf_py_whole (deltaf : Rat) {order : PyOrder} (hex : order.Explicit) {out : MpeOut}
    (h : plscfMpePy freq Fn Xi Phi order Lab deltaf rtol = .ok out) :
    (∀ q ∈ reqsOfPy Fn.c freq order, Servable Fn q) ∧
      out.acc = accOfCells Fn Xi Phi none (mpeCells Fn (chkOwn rtol) (reqsOfPy Fn.c freq order)) := by
  unfold plscfMpePy at h
  cases order with
  | findMin => exact absurd hex (by simp [PyOrder.Explicit])
  | bool b => exact absurd hex (by simp [PyOrder.Explicit])
  | other => exact absurd hex (by simp [PyOrder.Explicit])
  | int o =>
    simp only at h
    cases hl : mpeLoop Fn Xi Phi none (chkOwn rtol) (freq.map fun f => (f, pyIdx Fn.c o)) {} with
    | error e => rw [hl] at h; cases h
    | ok acc =>
      rw [hl] at h
      rw [← accOfCells_nil Fn Xi Phi none] at hl
      obtain ⟨hs, hacc⟩ := mpeLoop_ok Fn Xi Phi none (chkOwn rtol) _ [] acc hl
      simp only [pure, Except.pure, Except.ok.injEq] at h
      subst h
      exact ⟨hs, by simpa [reqsOfPy] using hacc⟩
  | list os =>
    simp only at h
    cases hl : mpeLoop Fn Xi Phi none (chkOwn rtol) (listReqsI Fn.c freq os) {} with
    | error e => rw [hl] at h; cases h
    | ok acc =>
      rw [hl] at h
      rw [← accOfCells_nil Fn Xi Phi none] at hl
      obtain ⟨hs, hacc⟩ := mpeLoop_ok Fn Xi Phi none (chkOwn rtol) _ [] acc hl
      simp only [pure, Except.pure, Except.ok.injEq] at h
      subst h
      exact ⟨hs, by simpa [reqsOfPy] using hacc⟩

/-- **C11_plscf_error_iff.** `pLSCF_mpe` with an explicit Python order does not raise iff every requested column
    exists and holds a retained pole (an empty request list never raises: `order_out = np.empty(0)`). -/
theorem C11_plscf_error_iff (deltaf : Rat) {order : PyOrder} (hex : order.Explicit) :
    (∃ out, plscfMpePy freq Fn Xi Phi order Lab deltaf rtol = .ok out) ↔
      (∀ q ∈ reqsOfPy Fn.c freq order, Servable Fn q) := by
  constructor
  · rintro ⟨out, h⟩
    exact (C11_plscf_py_whole freq Fn Xi Phi Lab rtol deltaf hex h).1
  · intro hs
    unfold plscfMpePy
    cases order with
    | findMin => exact absurd hex (by simp [PyOrder.Explicit])
    | bool b => exact absurd hex (by simp [PyOrder.Explicit])
    | other => exact absurd hex (by simp [PyOrder.Explicit])
    | int o =>
      simp only
      cases hl : mpeLoop Fn Xi Phi none (chkOwn rtol) (freq.map fun f => (f, pyIdx Fn.c o)) {} with
      | error e =>
        obtain ⟨q, hq, hns⟩ := mpeLoop_error Fn Xi Phi none (chkOwn rtol) _ _ e hl
        exact absurd (hs q hq) hns
      | ok acc => simp [pure, Except.pure]
    | list os =>
      simp only
      cases hl : mpeLoop Fn Xi Phi none (chkOwn rtol) (listReqsI Fn.c freq os) {} with
      | error e =>
        obtain ⟨q, hq, hns⟩ := mpeLoop_error Fn Xi Phi none (chkOwn rtol) _ _ e hl
        exact absurd (hs q hq) hns
      | ok acc => simp [pure, Except.pure]

/-! ### shapes -/

/-- `np.shape` of `Fn`, `Xi`, `Phi` (and the covariances) for `k` returned modes with `d`-component shapes -/
def shapesOf (k d : Nat) (covd : Option Nat) : MpeShapes :=
  { fn := [k], xi := [k], phi := if k = 0 then [0] else [d, k]
    cov := covd.map fun dc => ([k], [k], if k = 0 then [0] else [dc, k]) }

/-- the lists of an output are parallel (`k` entries each), shapes with `d` components, covariances (if given)
    likewise with `dc` components -/
structure Parallel (acc : MpeAcc) (k d : Nat) (cov : Option MpeCov) : Prop where
  fn : acc.fn.length = k
  xi : acc.xi.length = k
  phi : acc.phi.length = k
  rows : ∀ r ∈ acc.phi, r.length = d
  cv : ∀ c, cov = some c → acc.fnCov.length = k ∧ acc.xiCov.length = k ∧ acc.phiCov.length = k ∧
    ∀ r ∈ acc.phiCov, r.length = c.phi.d

theorem Parallel.ofCells (cells : List (Nat × Nat)) :
    Parallel (accOfCells Fn Xi Phi cov cells) cells.length Phi.d cov := by
  obtain ⟨h1, h2, h3, h4, h5⟩ := accOfCells_lengths Fn Xi Phi cov cells
  exact ⟨h1, h2, h3, h4, h5⟩

/-- shapes of an output with parallel lists whose `sel_freq` items are scalars or one array holding all of them -/
theorem ssiShapes_of_parallel {order : PyOrder} {out : MpeOut} {k d : Nat}
    (hp : Parallel out.acc k d cov)
    (hitems : ssiSelFreqItems order out = scalarItems out.acc.fn ∨ ssiSelFreqItems order out = [[out.acc.fn.length]]) :
    ssiShapes order cov.isSome out = shapesOf k d (cov.map fun c => c.phi.d) := by
  have hfn : shapeFlat (npArrayShape (ssiSelFreqItems order out)) = [k] := by
    rcases hitems with h | h
    · rw [h, npArrayShape_scalar, shapeFlat_single, hp.fn]
    · rw [h]; simp [npArrayShape, shapeFlat, hp.fn]
  have hphi := npArrayShape_vector out.acc.phi d hp.rows
  rw [hp.phi] at hphi
  cases cov with
  | none =>
    simp [ssiShapes, ssiShapesWith, shapesOf, hfn, npArrayShape_scalar, hp.xi, hphi]
  | some c =>
    obtain ⟨c1, c2, c3, c4⟩ := hp.cv c rfl
    have hpc := npArrayShape_vector out.acc.phiCov c.phi.d c4
    rw [c3] at hpc
    simp [ssiShapes, ssiShapesWith, shapesOf, hfn, npArrayShape_scalar, hp.xi, hphi, shapeFlat_single, c1, c2, hpc]

/-- **C11_shapes.** Whatever `SSI_mpe` returns (any order form, any table, covariances given or not):
    `Fn.shape = Xi.shape = (k,)`, `Phi.shape = (d, k)` — `(0,)` when no mode is returned — where `k` is the number of
    returned modes and `d` the number of shape components; `Fn_cov`, `Xi_cov`, `Phi_cov` have the same shapes.
    In particular the `find_min` branch, which appends ONE array to `sel_freq`, still returns a 1-D `Fn`
    (the `.reshape(-1)`; without it: `Mutants.no_reshape_find_min_2d` in `Mutants/C11Py.lean`). -/
theorem C11_shapes {order : PyOrder} {out : MpeOut}
    (h : ssiMpePy freq Fn Xi Phi order Lab rtol cov = .ok out) :
    ssiShapes order cov.isSome out = shapesOf out.acc.fn.length Phi.d (cov.map fun c => c.phi.d) := by
  cases order with
  | other => cases h
  | bool b => exact absurd h (C11_bool_order_not_ok freq Fn Xi Phi Lab rtol cov b out)
  | int o =>
    obtain ⟨_, hacc⟩ := C11_py_whole freq Fn Xi Phi Lab rtol cov (order := .int o) trivial h
    have hp := Parallel.ofCells Fn Xi Phi cov (mpeCells Fn (chkOwn rtol) (reqsOfPy Fn.c freq (.int o)))
    rw [← hacc] at hp
    rw [hp.fn]
    exact ssiShapes_of_parallel cov hp (Or.inl rfl)
  | list os =>
    obtain ⟨_, hacc⟩ := C11_py_whole freq Fn Xi Phi Lab rtol cov (order := .list os) trivial h
    have hp := Parallel.ofCells Fn Xi Phi cov (mpeCells Fn (chkOwn rtol) (reqsOfPy Fn.c freq (.list os)))
    rw [← hacc] at hp
    rw [hp.fn]
    exact ssiShapes_of_parallel cov hp (Or.inl rfl)
  | findMin =>
    have h' : ssiMpe freq Fn Xi Phi .findMin Lab rtol cov = .ok out := h
    cases Lab with
    | none => simp [ssiMpe, ssiMpeWith, throw, throwThe, MonadExceptOf.throw] at h'
    | some L =>
      rcases ssi_findmin freq Fn Xi Phi rtol cov L h' with ⟨hoo, hacc, _⟩ | ⟨i, u, hoo, _, _, _, hpick⟩
      · have hp : Parallel out.acc 0 Phi.d cov := by
          rw [hacc]
          refine ⟨rfl, rfl, rfl, ?_, ?_⟩
          · intro r hr
            exact absurd hr List.not_mem_nil
          · intro c _
            refine ⟨rfl, rfl, rfl, ?_⟩
            intro r hr
            exact absurd hr List.not_mem_nil
        have : out.acc.fn.length = 0 := by rw [hacc]; rfl
        rw [this]
        refine ssiShapes_of_parallel cov hp (Or.inl ?_)
        simp [ssiSelFreqItems, hoo, hacc, scalarItems]
      · obtain ⟨_, h1, h2, h3, h4, h5, h6⟩ := pickLoop_ok _ Xi Phi cov i u _ _ hpick
        have hlen : (pickRows (aggClosed Fn L 1 freq rtol) i u).length = u.length := by simp [pickRows]
        have hp : Parallel out.acc u.length Phi.d cov := by
          refine ⟨by rw [h1]; simp, by rw [h2]; simp [hlen], by rw [h3]; simp [hlen], ?_, ?_⟩
          · intro r hr
            rw [h3] at hr
            simp only [List.nil_append, List.mem_map] at hr
            obtain ⟨_, _, rfl⟩ := hr
            exact ten3Row_length _ _ _
          · intro c hc
            subst hc
            simp only at h4 h5 h6
            refine ⟨by rw [h4]; simp [hlen], by rw [h5]; simp [hlen], by rw [h6]; simp [hlen], ?_⟩
            intro r hr
            rw [h6] at hr
            simp only [List.nil_append, List.mem_map] at hr
            obtain ⟨_, _, rfl⟩ := hr
            exact ten3Row_length _ _ _
        rw [hp.fn]
        refine ssiShapes_of_parallel cov hp (Or.inr ?_)
        simp [ssiSelFreqItems, hoo]

/-- **pLSCF, explicit orders**: `Fn.shape = Xi.shape = (k,)`, `Phi.shape = (d, k)` or `(0,)`, no covariances. -/
theorem C11_plscf_shapes (deltaf : Rat) {order : PyOrder} (hex : order.Explicit) {out : MpeOut}
    (h : plscfMpePy freq Fn Xi Phi order Lab deltaf rtol = .ok out) :
    plscfShapes out = shapesOf out.acc.fn.length Phi.d none := by
  obtain ⟨_, hacc⟩ := C11_plscf_py_whole freq Fn Xi Phi Lab rtol deltaf hex h
  have hp := Parallel.ofCells Fn Xi Phi none (mpeCells Fn (chkOwn rtol) (reqsOfPy Fn.c freq order))
  rw [← hacc] at hp
  have hphi := npArrayShape_vector out.acc.phi Phi.d hp.rows
  rw [hp.phi] at hphi
  rw [hp.fn]
  simp [plscfShapes, shapesOf, npArrayShape_scalar, hp.fn, hp.xi, hphi]

/-- **pLSCF, every order form** (the `find_min` branch included, which may return frequencies without parameters):
    `Fn.shape = (n,)`, `Xi.shape = (k,)`, `Phi.shape = (d, k)` or `(0,)`, with `k = n` or `k = 0`. -/
theorem C11_plscf_shapes_all (deltaf : Rat) {order : PyOrder} {out : MpeOut}
    (h : plscfMpePy freq Fn Xi Phi order Lab deltaf rtol = .ok out) :
    plscfShapes out =
        { fn := [out.acc.fn.length], xi := [out.acc.xi.length]
          phi := if out.acc.xi.length = 0 then [0] else [Phi.d, out.acc.xi.length], cov := none } ∧
      (out.acc.xi.length = out.acc.fn.length ∨ out.acc.xi.length = 0) := by
  -- it suffices that `xi` and `phi` are parallel with `Phi.d`-component rows
  have key : ∀ out : MpeOut, out.acc.phi.length = out.acc.xi.length → (∀ r ∈ out.acc.phi, r.length = Phi.d) →
      plscfShapes out = { fn := [out.acc.fn.length], xi := [out.acc.xi.length]
                          phi := if out.acc.xi.length = 0 then [0] else [Phi.d, out.acc.xi.length], cov := none } := by
    intro out h1 h2
    have hphi := npArrayShape_vector out.acc.phi Phi.d h2
    rw [h1] at hphi
    simp [plscfShapes, npArrayShape_scalar, hphi]
  cases order with
  | other =>
    unfold plscfMpePy at h
    simp only at h
    split at h
    · simp only [pure, Except.pure, Except.ok.injEq] at h; subst h
      exact ⟨key _ rfl (fun r hr => absurd hr List.not_mem_nil), Or.inl rfl⟩
    · cases h
  | bool b =>
    unfold plscfMpePy at h
    cases freq with
    | nil =>
      simp only [pure, Except.pure, Except.ok.injEq] at h; subst h
      exact ⟨key _ rfl (fun r hr => absurd hr List.not_mem_nil), Or.inl rfl⟩
    | cons f rest => exact absurd h (boolFirst_not_ok Fn f b out)
  | int o =>
    obtain ⟨_, hacc⟩ := C11_plscf_py_whole freq Fn Xi Phi Lab rtol deltaf (order := .int o) trivial h
    have hp := Parallel.ofCells Fn Xi Phi none (mpeCells Fn (chkOwn rtol) (reqsOfPy Fn.c freq (.int o)))
    rw [← hacc] at hp
    exact ⟨key out (by rw [hp.phi, hp.xi]) hp.rows, Or.inl (by rw [hp.xi, hp.fn])⟩
  | list os =>
    obtain ⟨_, hacc⟩ := C11_plscf_py_whole freq Fn Xi Phi Lab rtol deltaf (order := .list os) trivial h
    have hp := Parallel.ofCells Fn Xi Phi none (mpeCells Fn (chkOwn rtol) (reqsOfPy Fn.c freq (.list os)))
    rw [← hacc] at hp
    exact ⟨key out (by rw [hp.phi, hp.xi]) hp.rows, Or.inl (by rw [hp.xi, hp.fn])⟩
  | findMin =>
    have h' : plscfMpeWith (chkOwn rtol) 7 freq Fn Xi Phi .findMin Lab deltaf rtol = .ok out := h
    cases Lab with
    | none => simp [plscfMpeWith, throw, throwThe, MonadExceptOf.throw] at h'
    | some L =>
      by_cases hne : freq = []
      · subst hne
        simp only [plscfMpeWith, List.isEmpty_nil, if_true, pure, Except.pure, Except.ok.injEq] at h'
        subst h'
        exact ⟨key _ rfl (fun r hr => absurd hr List.not_mem_nil), Or.inl rfl⟩
      · by_cases hc : 0 < Fn.c
        · cases hw : plscfWhile (aggOpen Fn L 7 freq deltaf) freq rtol Fn.c 0 with
          | mk iiExit u =>
            rw [plscfMpeWith_findMin_eq (chkOwn rtol) 7 freq Fn Xi Phi L deltaf rtol hne hc iiExit u hw] at h'
            generalize (if iiExit = 0 then Fn.c - 1 else iiExit - 1) = col at h'
            split at h'
            · cases hp : plscfPick (aggOpen Fn L 7 freq deltaf) Xi Phi col u { fn := u.map some } with
              | error e => rw [hp] at h'; cases h'
              | ok acc =>
                rw [hp] at h'
                simp only [Except.ok.injEq] at h'
                subst h'
                obtain ⟨h1, h2, h3, h4⟩ := plscfPick_shape Xi Phi _ _ u _ acc hp
                have hxi : acc.xi.length = u.length := by simpa using h2
                have hph : acc.phi.length = u.length := by simpa using h3
                refine ⟨key _ (by simp only; rw [hxi, hph]) ?_, Or.inl ?_⟩
                · intro r hr
                  rcases h4 r hr with hm | hl
                  · exact absurd hm List.not_mem_nil
                  · exact hl
                · simp only; rw [hxi, h1]; simp
            · simp only [Except.ok.injEq] at h'
              subst h'
              exact ⟨key _ rfl (fun r hr => absurd hr List.not_mem_nil), Or.inr rfl⟩
        · have hc0 : Fn.c = 0 := by omega
          have hemp : freq.isEmpty = false := by
            cases freq with
            | nil => exact absurd rfl hne
            | cons a t => rfl
          simp [plscfMpeWith, hemp, aggOpen, hc0, throw, throwThe, MonadExceptOf.throw] at h'

/-! ### non-vacuity -/

-- `order = -1` on the 3×3 example table is its last column (index 2); `order_out = -1`
example : outSummary (ssiMpePy [2, 5] exFn exXi exPhi (.int (-1)) none (1 / 20) none)
    = (outSummary (ssiMpe [2, 5] exFn exXi exPhi (.int 2) none (1 / 20) none)).map
        (fun s => (s.1, s.2.1, OrderOut.int (-1))) := by decide +kernel
example : (-1 : Int) < 0 ∧ -((exFn.c : Nat) : Int) ≤ -1 := by decide
example : ((-4 : Int) < -((exFn.c : Nat) : Int) ∨ ((exFn.c : Nat) : Int) ≤ -4) ∧ ([2, 5] : List Rat) ≠ [] := by decide
example : ([2] : List Rat) ≠ [] := by decide
example : PyOrder.Explicit (.int (-1)) ∧ PyOrder.Explicit (.list [0, -1]) := ⟨trivial, trivial⟩
-- a successful call with a negative order, covariances given: shapes (2,), (2,), (2, 2)
example : (ssiMpePy [2, 5] exFn exXi exPhi (.list [0, -1]) none (1 / 20) (some exCov)).toOption.map
      (fun out => (ssiShapes (.list [0, -1]) true out, out.orderOut))
    = some (⟨[2], [2], [2, 2], some ([2], [2], [2, 2])⟩, .arr [0, -1]) := by decide +kernel
-- find_min, found at order 1: ONE array appended to `sel_freq`, `Fn` still 1-D
example : (ssiMpePy [2, 5] exFn exXi exPhi .findMin (some exLab) (1 / 20) none).toOption.map
      (fun out => (ssiShapes .findMin false out, ssiSelFreqItems .findMin out))
    = some (⟨[2], [2], [2, 2], none⟩, [[2]]) := by decide +kernel
-- pLSCF, explicit negative order
example : (plscfMpePy [2, 5] exFn exXi exPhi (.int (-3)) none (1 / 20) (1 / 20)).toOption.map
      (fun out => (plscfShapes out, out.orderOut)) = some (⟨[1], [1], [2, 1], none⟩, .int (-3)) := by decide +kernel

-- pLSCF find_min on the stable poles labelled 7 (what the pinned routine selects): found, (2,), (2,), (2, 2)
example : (plscfMpePy [2, 5] exFn exXi exPhi .findMin (some ⟨3, 3, fun r o => 7 * exLab.e r o⟩) (1 / 20) (1 / 20)).toOption.map
      (fun out => (plscfShapes out, out.orderOut)) = some (⟨[2], [2], [2, 2], none⟩, .int 1) := by decide +kernel

end PV.C11
