import PyomaVerif.Model.Defaults
import PyomaVerif.Model.Mpe
/-!
# Default values as regenerated obligations (C01, C05, C06, C07, C09, C10, C11, C12, C13, C20)

What a caller who leaves a parameter out gets.  The table (`Generated/Defaults.lean`) is rewritten from the tested
tree on every run by `harness/translate_defaults.py` (field defaults of the `*RunParams` classes, signature defaults
of every class method of algorithms/*.py and every function of functions/*.py, the constants the label table is
compared with); the kernel evaluates the obligations.  They speak about VALUES (`5e-2` and `0.05`, `dict(a=1)` and
`{"a": 1}` are the same), seen from every concrete class through method resolution, so moving a method to a base
class or writing a default out at a call site does not touch them; changing what an omitted argument means does.
Floats are the exact rationals of their decimal spelling: `.float 17 20` is `0.85`.
-/
namespace PV.WiringDefaults
open PV.Defaults PV.DefaultsTbl PV.Wiring

def efddClasses : List String := ["EFDD", "FSDD", "EFDD_MS"]
def fddClasses : List String := ["FDD", "FDD_MS"]
def ssiClasses : List String := ["SSIdat", "SSIcov", "SSIdat_MS", "SSIcov_MS"]
def plscfClasses : List String := ["pLSCF", "pLSCF_MS"]

/-- the fit parameters of the enhanced FDD the property's accuracy claim is calibrated on -/
def efddFit : List (String × Val) :=
  [("DF1", .float 1 10), ("DF2", .float 1 1), ("cm", .int 1), ("MAClim", .float 17 20), ("sppk", .int 3), ("npmax", .int 20)]

/-- **C07 defaults.** `DF1 = 0.1, DF2 = 1.0, cm = 1, MAClim = 0.85, sppk = 3, npmax = 20` are the defaults of
    `mpe` AND of `mpe_from_plot` as seen from EFDD, FSDD and EFDD_MS, of the function `fdd.EFDD_mpe`, and of the fields
    of the run-parameter class of each of the three classes — class = function = run parameters; the bell routine
    `fdd.SDOF_bellandMS` has the same `cm`, `MAClim` and its band default is `DF2`'s.  Both `mpe` signatures take
    nothing else besides the request (`sel_freq`) resp. the plot limits (`freqlim`, default None). -/
theorem C07_defaults :
    methodDefaults efddClasses "mpe" efddFit = true
    ∧ methodDefaults efddClasses "mpe_from_plot" (efddFit ++ [("freqlim", .none)]) = true
    ∧ funcDefaults "fdd.EFDD_mpe" efddFit = true
    ∧ rpDefaults efddClasses (efddFit ++ [("sel_freq", .none)]) = true
    ∧ funcDefaults "fdd.SDOF_bellandMS" [("cm", .int 1), ("MAClim", .float 17 20), ("DF", .float 1 1)] = true
    ∧ funcDefault "fdd.SDOF_bellandMS" "DF" = funcDefault "fdd.EFDD_mpe" "DF2"
    ∧ efddClasses.all (fun c => methodSig c "mpe" == some ["sel_freq", "DF1", "DF2", "cm", "MAClim", "sppk", "npmax"]
        && methodDefault c "mpe" "sel_freq" == some .required) = true
    ∧ efddClasses.all (fun c => (methodSig c "mpe_from_plot").map (sameSet ["DF1", "DF2", "cm", "MAClim", "sppk", "npmax", "freqlim"])
        == some true) = true := by
  decide

/-- **C06 defaults.** the half-width of the search band is `DF = 0.1` in `FDD.mpe`, `FDD.mpe_from_plot` (seen from FDD
    and FDD_MS), in `fdd.FDD_mpe` and in the `DF` field of their run parameters. -/
theorem C06_defaults :
    methodDefaults fddClasses "mpe" [("DF", .float 1 10), ("sel_freq", .required)] = true
    ∧ methodDefaults fddClasses "mpe_from_plot" [("DF", .float 1 10), ("freqlim", .none)] = true
    ∧ funcDefaults "fdd.FDD_mpe" [("DF", .float 1 10)] = true
    ∧ funcDefaulted "fdd.FDD_mpe" = ["DF"]
    ∧ rpDefaults fddClasses [("DF", .float 1 10), ("sel_freq", .none)] = true := by
  decide

/-- **C11 defaults, SSI.** Seen from all four SSI classes: `mpe(sel_freq, order="find_min", rtol=0.05)` — the same
    `rtol` as `ssi.SSI_mpe` and as the run parameters (`order_in = "find_min"`, `rtol = 0.05`); `mpe_from_plot` has its
    own tolerance `rtol = 0.01`.  The routine itself requires the order and defaults labels and covariances to None. -/
theorem C11_defaults_ssi :
    methodDefaults ssiClasses "mpe" [("sel_freq", .required), ("order", .str "find_min"), ("rtol", .float 1 20)] = true
    ∧ methodDefaults ssiClasses "mpe_from_plot" [("freqlim", .none), ("rtol", .float 1 100)] = true
    ∧ funcDefaults "ssi.SSI_mpe" [("order", .required), ("Lab", .none), ("rtol", .float 1 20),
        ("Fn_cov", .none), ("Xi_cov", .none), ("Phi_cov", .none)] = true
    ∧ rpDefaults ssiClasses [("order_in", .str "find_min"), ("rtol", .float 1 20), ("sel_freq", .none)] = true := by
  decide

/-- **C11 defaults, pLSCF.** Seen from pLSCF and pLSCF_MS: `mpe(sel_freq, order="find_min", rtol=0.05)`,
    `mpe_from_plot(freqlim=None, rtol=0.05)`, run parameters `order_in = "find_min"`, `rtol = 0.05`.  The routine's own
    defaults are `order="find_min"`, `Lab=None`, `deltaf=0.05`, `rtol=0.01`; neither class method passes `deltaf`, so
    the aggregation band of an extraction through the classes is always the routine's `0.05`. -/
theorem C11_defaults_plscf :
    methodDefaults plscfClasses "mpe" [("sel_freq", .required), ("order", .str "find_min"), ("rtol", .float 1 20)] = true
    ∧ methodDefaults plscfClasses "mpe_from_plot" [("freqlim", .none), ("rtol", .float 1 20)] = true
    ∧ funcDefaults "plscf.pLSCF_mpe" [("order", .str "find_min"), ("Lab", .none), ("deltaf", .float 1 20), ("rtol", .float 1 100)] = true
    ∧ rpDefaults plscfClasses [("order_in", .str "find_min"), ("rtol", .float 1 20), ("sel_freq", .none)] = true
    ∧ arg "pLSCF" "mpe" "plscf.pLSCF_mpe" "deltaf" = none
    ∧ arg "pLSCF" "mpe_from_plot" "plscf.pLSCF_mpe" "deltaf" = none
    ∧ allResolve plscfClasses "mpe" "pLSCF" = true ∧ allResolve plscfClasses "mpe_from_plot" "pLSCF" = true := by
  decide

/-- **C11 / C10 / C20 label literals.** `gen.SC_apply` writes `1` (stable) and `0` into the label table and nothing
    else; `ssi.SSI_mpe` selects the poles with `Lab == 1`; the diagrams test `== 1` (stable) and `== 0`;
    `plscf.pLSCF_mpe` selects `Lab == 7` (known finding F6: a value `SC_apply` never writes — as coded).  Every
    comparison of `Lab` in these functions is an equality with an integer constant. -/
theorem C11_label_literals :
    labelStores "gen.SC_apply" = [.int 1, .int 0]
    ∧ labelInt "ssi.SSI_mpe" = some 1
    ∧ labelInt "plscf.pLSCF_mpe" = some 7
    ∧ labelTests "plot.stab_plot" = [.int 1, .int 0] ∧ labelTestsAllEq "plot.stab_plot" = true
    ∧ labelTests "plot.cluster_plot" = [.int 1, .int 0] ∧ labelTestsAllEq "plot.cluster_plot" = true := by
  decide

/-- … and the executable extraction models select exactly the label values read from the source: `plscfMpe` is
    `plscfMpeWith` at the generated literal, and the `find_min` branch of `ssiMpeWith` aggregates the cells whose
    label is the generated literal of `ssi.SSI_mpe`. -/
theorem C11_label_literals_model (freq : List Rat) (Fn Xi : Mat NR) (Phi : Ten3 (Option CQ)) (order : MpeOrder)
    (Lab : Option (Mat Int)) (deltaf rtol : Rat) :
    plscfMpe freq Fn Xi Phi order Lab deltaf rtol
      = plscfMpeWith (chkOwn rtol) ((labelInt "plscf.pLSCF_mpe").getD 0) freq Fn Xi Phi order Lab deltaf rtol := by
  have h : labelInt "plscf.pLSCF_mpe" = some 7 := by decide
  rw [h]; rfl

theorem C11_label_literals_model_ssi (chk : Rat → NR → Bool) (freq : List Rat) (Fn Xi : Mat NR) (Phi : Ten3 (Option CQ))
    (L : Mat Int) (rtol : Rat) (cov : Option MpeCov) :
    ssiMpeWith chk freq Fn Xi Phi .findMin (some L) rtol cov
      = (let agg := aggClosed Fn L ((labelInt "ssi.SSI_mpe").getD 0) freq rtol
         match firstSome (ssiQual agg freq rtol) agg.c 0 with
         | none => pure ⟨{}, .none⟩
         | some (i, u) =>
           match pickLoop agg Xi Phi cov i u { fn := u.map some } with
           | .error e => .error e
           | .ok acc => pure ⟨acc, .int i⟩) := by
  have h : labelInt "ssi.SSI_mpe" = some 1 := by decide
  rw [h]; rfl

/-- **C20 defaults.** `plot_stab(freqlim=None, hide_poles=True)` and `plot_cluster(freqlim=None, hide_poles=True)` as
    seen from all six pole-table classes; the functions behind them: `stab_plot(…, ordmin=0, freqlim=None,
    hide_poles=True, fig=None, ax=None, Fn_cov=None)`, `cluster_plot(…, ordmin=0, freqlim=None, hide_poles=True)`;
    `plot_CMIF(freqlim=None, nSv="all")` as seen from the five FDD classes and `CMIF_plot(…, freqlim=None, nSv="all")`. -/
theorem C20_plot_defaults :
    methodDefaults (ssiClasses ++ plscfClasses) "plot_stab" [("freqlim", .none), ("hide_poles", .bool true)] = true
    ∧ methodDefaults (ssiClasses ++ plscfClasses) "plot_cluster" [("freqlim", .none), ("hide_poles", .bool true)] = true
    ∧ funcDefaults "plot.stab_plot" [("Fn", .required), ("Lab", .required), ("step", .required), ("ordmax", .required),
        ("ordmin", .int 0), ("freqlim", .none), ("hide_poles", .bool true), ("fig", .none), ("ax", .none), ("Fn_cov", .none)] = true
    ∧ funcDefaults "plot.cluster_plot" [("Fn", .required), ("Xi", .required), ("Lab", .required),
        ("ordmin", .int 0), ("freqlim", .none), ("hide_poles", .bool true)] = true
    ∧ methodDefaults (fddClasses ++ efddClasses) "plot_CMIF" [("freqlim", .none), ("nSv", .str "all")] = true
    ∧ funcDefaults "plot.CMIF_plot" [("S_val", .required), ("freq", .required), ("freqlim", .none), ("nSv", .str "all"),
        ("fig", .none), ("ax", .none)] = true := by
  decide

/-- **C12 / C01 / C17 run-parameter defaults of the SSI classes.** `br` is required; `method = None` (so that
    `self.run_params.method or self.method` falls through to the class attribute, see `WiringClass`), `ref_ind = None`
    (all channels are references), `ordmin = 0`, `ordmax = None`, `step = 1`, `calc_unc = False`, `nb = 100`; the class
    body of `SSIRunParams` holds fields only (no validator that could rewrite a value).  The library functions agree:
    `build_hank(calc_unc=False, nb=100)` with `method` required, `SSI_fast(step=1, calc_unc=False, T=None, nb=100)`,
    `SSI(step=1)`, `SSI_poles(step=1, calc_unc=False, Q1..Q4=None)`, `SSI_multi_setup(step=1)`, `ac2mp(calc_unc=False)`. -/
theorem C12_runparams_defaults :
    rpDefaults ssiClasses [("br", .required), ("method", .none), ("ref_ind", .none), ("ordmin", .int 0), ("ordmax", .none),
        ("step", .int 1), ("calc_unc", .bool false), ("nb", .int 100)] = true
    ∧ ssiClasses.all (fun c => runParamCls c == some "SSIRunParams") = true
    ∧ extrasOf "SSIRunParams" = []
    ∧ funcDefaults "ssi.build_hank" [("Y", .required), ("Yref", .required), ("br", .required), ("method", .required),
        ("calc_unc", .bool false), ("nb", .int 100)] = true
    ∧ funcDefaults "ssi.SSI_fast" [("step", .int 1), ("calc_unc", .bool false), ("T", .none), ("nb", .int 100)] = true
    ∧ funcDefaults "ssi.SSI" [("step", .int 1)] = true
    ∧ funcDefaults "ssi.SSI_poles" [("dt", .required), ("step", .int 1), ("calc_unc", .bool false),
        ("Q1", .none), ("Q2", .none), ("Q3", .none), ("Q4", .none)] = true
    ∧ funcDefaults "ssi.SSI_multi_setup" [("method_hank", .required), ("step", .int 1)] = true
    ∧ funcDefaults "ssi.ac2mp" [("dt", .required), ("calc_unc", .bool false)] = true := by
  decide

/-- the hard criteria a run applies when the user gives none -/
def hcSsi : List (String × Val) :=
  [("hc", .keys ["conj", "xi_max", "mpc_lim", "mpd_lim", "cov_max"]), ("hc.conj", .bool true), ("hc.xi_max", .float 1 10),
   ("hc.mpc_lim", .float 7 10), ("hc.mpd_lim", .float 3 10), ("hc.cov_max", .float 1 5)]

def hcPlscf : List (String × Val) :=
  [("hc", .keys ["conj", "xi_max", "mpc_lim", "mpd_lim"]), ("hc.conj", .bool true), ("hc.xi_max", .float 1 10),
   ("hc.mpc_lim", .float 7 10), ("hc.mpd_lim", .float 3 10)]

/-- **C09 defaults.** the default hard criteria: conjugate test on, `xi_max = 0.1`, `mpc_lim = 0.7`, `mpd_lim = 0.3`
    and (SSI only: the key exists only there) `cov_max = 0.2` — exactly these keys, for each of the six classes. -/
theorem C09_hc_defaults :
    rpDefaults ssiClasses hcSsi = true ∧ rpDefaults plscfClasses hcPlscf = true
    ∧ plscfClasses.all (fun c => runParamCls c == some "pLSCFRunParams") = true
    ∧ extrasOf "pLSCFRunParams" = [] := by
  decide

/-- **C10 defaults.** the default soft criteria `err_fn = 0.01, err_xi = 0.05, err_phi = 0.03` (exactly these keys) and
    `ordmin = 0` for each of the six classes. -/
theorem C10_sc_defaults :
    rpDefaults (ssiClasses ++ plscfClasses)
      [("sc", .keys ["err_fn", "err_xi", "err_phi"]), ("sc.err_fn", .float 1 100), ("sc.err_xi", .float 1 20),
       ("sc.err_phi", .float 3 100), ("ordmin", .int 0)] = true
    ∧ rpDefaults plscfClasses [("ordmax", .required)] = true := by
  decide

/-- **C13 / C04 / C05 spectral defaults.** `nxseg = 1024, method_SD = "per", pov = 0.5` for every class that estimates
    spectra (FDD, EFDD, FSDD, FDD_MS, EFDD_MS, pLSCF, pLSCF_MS) and for `fdd.SD_PreGER`; the estimator `fdd.SD_est` itself
    defaults to the correlogram (`method="cor"`; every class passes the method explicitly, `C13_run_spectral`).
    `plscf.pLSCF(sgn_basf=-1.0)`: the sign the periodogram convention needs. -/
theorem C13_defaults :
    rpDefaults (fddClasses ++ efddClasses ++ plscfClasses) [("nxseg", .int 1024), ("method_SD", .str "per"), ("pov", .float 1 2)] = true
    ∧ funcDefaults "fdd.SD_PreGER" [("Y", .required), ("fs", .required), ("nxseg", .int 1024), ("pov", .float 1 2), ("method", .str "per")] = true
    ∧ funcDefaults "fdd.SD_est" [("Yall", .required), ("Yref", .required), ("dt", .required), ("nxseg", .int 1024),
        ("method", .str "cor"), ("pov", .float 1 2)] = true
    ∧ funcDefaults "plscf.pLSCF" [("Sy", .required), ("dt", .required), ("ordmax", .required), ("sgn_basf", .float (-1) 1)] = true
    ∧ extrasOf "FDDRunParams" = [] ∧ extrasOf "EFDDRunParams" = [] := by
  decide

end PV.WiringDefaults
