import PyomaVerif.Model.Defaults
/-!
# Default values as regenerated obligations (C01, C05, C06, C07, C09, C10, C11, C12, C13, C20)

What a caller who leaves a parameter out gets.  The table (`Generated/Defaults.lean`) is rewritten from the tested
tree on every run by `harness/translate_defaults.py` (field defaults of the `*RunParams` classes, signature defaults
of every class method of algorithms/*.py and every function of functions/*.py, the constants the label table is
compared with); the kernel evaluates the obligations.  They speak about VALUES (`5e-2` and `0.05`, `dict(a=1)` and
`{"a": 1}` are the same), seen from every concrete class through method resolution, so moving a method to a base
class or writing a default out at a call site does not touch them; changing what an omitted argument means does.
Floats are the exact rationals of their decimal spelling: `.float 17 20` is `0.85`.
-/
namespace PV.WiringDefaults
open PV.Defaults PV.DefaultsTbl PV.Wiring

def efddClasses : List String := ["EFDD", "FSDD", "EFDD_MS"]
def fddClasses : List String := ["FDD", "FDD_MS"]
def ssiClasses : List String := ["SSIdat", "SSIcov", "SSIdat_MS", "SSIcov_MS"]
def plscfClasses : List String := ["pLSCF", "pLSCF_MS"]

/-- the fit parameters of the enhanced FDD the property's accuracy claim is calibrated on -/
def efddFit : List (String × Val) :=
  [("DF1", .float 1 10), ("DF2", .float 1 1), ("cm", .int 1), ("MAClim", .float 17 20), ("sppk", .int 3), ("npmax", .int 20)]

/-- the hard criteria a run applies when the user gives none -/
def hcSsi : List (String × Val) :=
  [("hc", .keys ["conj", "xi_max", "mpc_lim", "mpd_lim", "cov_max"]), ("hc.conj", .bool true), ("hc.xi_max", .float 1 10),
   ("hc.mpc_lim", .float 7 10), ("hc.mpd_lim", .float 3 10), ("hc.cov_max", .float 1 5)]

def hcPlscf : List (String × Val) :=
  [("hc", .keys ["conj", "xi_max", "mpc_lim", "mpd_lim"]), ("hc.conj", .bool true), ("hc.xi_max", .float 1 10),
   ("hc.mpc_lim", .float 7 10), ("hc.mpd_lim", .float 3 10)]

end PV.WiringDefaults
