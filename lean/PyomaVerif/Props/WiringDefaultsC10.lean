import PyomaVerif.Props.WiringDefaults
/-! Default values as regenerated obligations — part C10 (see `Props/WiringDefaults.lean`; one module per property so that a
changed default is reported by the property it belongs to). -/
namespace PV.WiringDefaults
open PV.Defaults PV.DefaultsTbl PV.Wiring

/-- **C10 defaults.** the default soft criteria `err_fn = 0.01, err_xi = 0.05, err_phi = 0.03` (exactly these keys) and
    `ordmin = 0` for each of the six classes. -/
theorem C10_sc_defaults :
    rpDefaults (ssiClasses ++ plscfClasses)
      [("sc", .keys ["err_fn", "err_xi", "err_phi"]), ("sc.err_fn", .float 1 100), ("sc.err_xi", .float 1 20),
       ("sc.err_phi", .float 3 100), ("ordmin", .int 0)] = true
    ∧ rpDefaults plscfClasses [("ordmax", .required)] = true := by
  decide

end PV.WiringDefaults
