import PyomaVerif.Model.Geo
import PyomaVerif.Lemmas.Geo
import PyomaVerif.Props.C19
import PyomaVerif.Props.C19Geo2
/-!
# C19, depth round — the displayed mode shape

Theorems over the model of `Geo2MplPlotter.plot_mode` (`plotMode2`: `phi * scaleF`, the mapping,
`coordinates + mapped * sign`) and of `Geo1MplPlotter.plot_mode` / `plt_quiver` (`plotMode1`:
arrow `k` from sensor `k`'s coordinates to `coordinates + (direction * phi[k]) * scaleF`), the
functions the correspondence compares with the coordinates held by the Agg artists of
`plot_mode_geo2_mpl` / `plot_mode_geo1` (`defPlotGeo2`, `defPlotGeo1`).
-/
namespace PV.C19
open PV PV.Geo

/-! ## geometry 2 -/

/-- `plot_mode` is the mapping of the scaled shape followed by `displace` -/
theorem C19_plot_mode2 (phi : List Rat) (sc : Rat) (names : List Name) (pts smap : Tbl) (cstr : Option Tbl)
    (sign : Tbl) (np : List (List (Option Rat))) (h : plotMode2 phi sc names pts smap cstr sign = .ok np) :
    ∃ m, mapPhi (phi.map (· * sc)) names smap cstr = .ok m ∧ np = displace pts.cells m sign.cells := by
  unfold plotMode2 scalePhi at h
  split at h
  · cases h
  · rename_i m hm
    cases h
    exact ⟨m, hm, rfl⟩

/-- the pipeline `def_geo2` → `plot_mode_geo2_mpl` draws `plotMode2` of the defined geometry -/
theorem C19_plot_geo2_pipeline (nm : NamesArg) (pts map : Tbl)
    (cstr sign lines surf bgN bgL bgS : Option ArrArg) (r : Option (List (List Nat))) (phi : List Rat) (sc : Rat)
    (np : List (List (Option Rat)))
    (h : defPlotGeo2 nm pts map cstr sign lines surf bgN bgL bgS r phi sc = .ok np) :
    ∃ g p m s, defGeo2 nm pts map cstr sign lines surf bgN bgL bgS r = .ok g ∧
      g.pts = some p ∧ g.map = some m ∧ g.sign = some s ∧
      plotMode2 phi sc g.names p m g.cstr s = .ok np := by
  unfold defPlotGeo2 at h
  split at h
  · cases h
  · rename_i g hg
    split at h
    · rename_i p m s hp hm hs
      exact ⟨g, p, m, s, hg, hp, hm, hs, h⟩
    · cases h

/-- **Displayed displacement at a cell naming a sensor**: the point drawn for cell `(i, j)`
    of the mapping that names sensor `names[k]` (names distinct; not also the name of a
    constraint) is the coordinate plus `phi[k]·scaleF` times the sign of that cell. -/
theorem C19_plot_mode2_sensor (phi : List Rat) (sc : Rat) (names : List Name) (pts smap : Tbl)
    (cstr : Option Tbl) (sign : Tbl) (np : List (List (Option Rat)))
    (i j k : Nat) (s : String) (rmap rc rs : List Cell) (x g : Rat)
    (h : plotMode2 phi sc names pts smap cstr sign = .ok np)
    (hn : names.Nodup) (hk : names[k]? = some (some s))
    (hnc : ∀ cs, cstr = some cs → s ∉ cs.index)
    (m1 : smap.cells[i]? = some rmap) (m2 : rmap[j]? = some (.str s))
    (p1 : pts.cells[i]? = some rc) (p2 : rc[j]? = some (.num x))
    (s1 : sign.cells[i]? = some rs) (s2 : rs[j]? = some (.num g)) :
    ∃ p, phi[k]? = some p ∧
      ∃ row, np[i]? = some row ∧ row[j]? = some (some (x + (p * sc) * g)) := by
  obtain ⟨m, hm, rfl⟩ := C19_plot_mode2 phi sc names pts smap cstr sign np h
  obtain ⟨hl, cons, hc0, hc1, _, hcells⟩ := C19_map_cells _ names smap cstr m hm
  obtain ⟨mrow, hmrow, _, hall⟩ := hcells i rmap m1
  obtain ⟨v, hv, hmc⟩ := hall j (.str s) m2
  have hcons : dictGet cons s = none := by
    cases hcs : cstr with
    | none => rw [hc0 hcs]; rfl
    | some cs =>
      apply dictGet_none_of_not_mem
      intro p hp e
      exact hnc cs hcs (e ▸ cstrVals_keys (hc1 cs hcs) p hp)
  obtain ⟨v', hv', hms⟩ := C19_map_sensor (phi.map (· * sc)) names cons k s hl.symm hn hk hcons
  rw [hms] at hmc
  cases hmc
  rw [List.getElem?_map] at hv'
  cases hp : phi[k]? with
  | none => simp [hp] at hv'
  | some p =>
    simp only [hp, Option.map_some, Option.some.injEq] at hv'
    subst hv'
    exact ⟨p, rfl, C19_displace pts.cells sign.cells m i j rc rs mrow x (p * sc) g p1 hmrow s1 p2 hv s2⟩

/-- **Displayed displacement at a cell naming a constraint**: coordinate plus the constraint's
    linear combination of the shape, times `scaleF`, times the sign of the cell (constraint
    frame rectangular, constraint names distinct).  With `C19_map_cstr_aligned` /
    `C19_map_cstr_labelwise` the combination is the label-wise one of the input sheet. -/
theorem C19_plot_mode2_cstr (phi : List Rat) (sc : Rat) (names : List Name) (pts smap cs : Tbl)
    (sign : Tbl) (np : List (List (Option Rat)))
    (i j i0 : Nat) (cname : String) (rmap rc rs crow : List Cell) (x g : Rat)
    (h : plotMode2 phi sc names pts smap (some cs) sign = .ok np)
    (hwf : cs.cells.length = cs.index.length) (hn : cs.index.Nodup)
    (hi : cs.index[i0]? = some cname) (hrow : cs.cells[i0]? = some crow)
    (m1 : smap.cells[i]? = some rmap) (m2 : rmap[j]? = some (.str cname))
    (p1 : pts.cells[i]? = some rc) (p2 : rc[j]? = some (.num x))
    (s1 : sign.cells[i]? = some rs) (s2 : rs[j]? = some (.num g)) :
    ∃ nums, crow.mapM cellNum0 = .ok nums ∧
      ∃ row, np[i]? = some row ∧ row[j]? = some (some (x + (dot nums phi * sc) * g)) := by
  obtain ⟨m, hm, rfl⟩ := C19_plot_mode2 phi sc names pts smap (some cs) sign np h
  obtain ⟨_, cons, _, hc1, _, hcells⟩ := C19_map_cells _ names smap (some cs) m hm
  obtain ⟨mrow, hmrow, _, hall⟩ := hcells i rmap m1
  obtain ⟨v, hv, hmc⟩ := hall j (.str cname) m2
  obtain ⟨nums, hnums, hval⟩ := C19_map_cstr (phi.map (· * sc)) cs cons (names.zip (phi.map (· * sc))) i0 cname crow
    (hc1 cs rfl) hwf hn hi hrow
  rw [hval, dot_scale] at hmc
  cases hmc
  exact ⟨nums, hnums, C19_displace pts.cells sign.cells m i j rc rs mrow x (dot nums phi * sc) g p1 hmrow s1 p2 hv s2⟩

/-- **… and no displacement elsewhere**: at a cell holding `0` (every cell that names nothing,
    on a checked geometry: `C19_map_zero_checked`) the point is drawn at its coordinate. -/
theorem C19_plot_mode2_zero (phi : List Rat) (sc : Rat) (names : List Name) (pts smap : Tbl)
    (cstr : Option Tbl) (sign : Tbl) (np : List (List (Option Rat)))
    (i j : Nat) (rmap rc rs : List Cell) (x g : Rat)
    (h : plotMode2 phi sc names pts smap cstr sign = .ok np)
    (m1 : smap.cells[i]? = some rmap) (m2 : rmap[j]? = some (.num 0))
    (p1 : pts.cells[i]? = some rc) (p2 : rc[j]? = some (.num x))
    (s1 : sign.cells[i]? = some rs) (s2 : rs[j]? = some (.num g)) :
    ∃ row, np[i]? = some row ∧ row[j]? = some (some x) := by
  obtain ⟨m, hm, rfl⟩ := C19_plot_mode2 phi sc names pts smap cstr sign np h
  obtain ⟨_, cons, _, _, _, hcells⟩ := C19_map_cells _ names smap cstr m hm
  obtain ⟨mrow, hmrow, _, hall⟩ := hcells i rmap m1
  obtain ⟨v, hv, hmc⟩ := hall j (.num 0) m2
  cases hmc
  obtain ⟨row, hr, hc⟩ := C19_displace pts.cells sign.cells m i j rc rs mrow x 0 g p1 hmrow s1 p2 hv s2
  refine ⟨row, hr, ?_⟩
  rw [hc]; congr 2; grind

/-! ## geometry 1 -/

/-- **Arrow `k` of the displayed mode shape (geometry 1)**: it starts at the `x, y, z`
    coordinates of row `k` and ends at `coordinate + (direction · phi[k]) · scaleF`, component by
    component (row `k` of coordinates, directions and shape together). -/
theorem C19_plot_mode1_arrow (cols : List String) (coord dir : List (List Cell)) (phi : List Rat) (sc : Rat)
    (arrows : List (List (Option Rat) × List (Option Rat)))
    (h : plotMode1 cols coord dir phi sc = .ok arrows) :
    dir.length = phi.length ∧
    ∀ (k : Nat) (rc rd : List Cell) (p : Rat), coord[k]? = some rc → dir[k]? = some rd → phi[k]? = some p →
      arrows[k]? = some ((selRow cols rc).map cellVal, arrowTip (selRow cols rc) rd p sc) ∧
      ∀ (j : Nat) (x y : Rat), (selRow cols rc)[j]? = some (.num x) → rd[j]? = some (.num y) →
        (arrowTip (selRow cols rc) rd p sc)[j]? = some (some (x + (y * p) * sc)) := by
  unfold plotMode1 at h
  split at h
  · cases h
  · rename_i nodes hnodes
    split at h
    · cases h
    · rename_i hl
      cases h
      have hnd : nodes = coord.map (selRow cols) := by
        unfold selectXYZ at hnodes
        split at hnodes
        · cases hnodes
        · exact (Except.ok.inj hnodes).symm
      refine ⟨by simpa using hl, ?_⟩
      intro k rc rd p hc hd hp
      refine ⟨?_, fun j x y hx hy => arrowTip_get _ _ _ _ j x y hx hy⟩
      exact zipWith3_get _ nodes dir phi k (selRow cols rc) rd p (by rw [hnd, List.getElem?_map, hc]; rfl) hd hp

/-- **Arrow `k` belongs to the sensor called `names[k]`** (`C19_align_geo1` composed with the
    drawing): for an accepted table set (rectangular coordinate and direction tables), the
    arrow drawn at position `k` starts at the coordinates the INPUT coordinate table gives in
    the row labelled `names[k]` and runs along the row of the INPUT direction table with that
    label, times `phi[k]`, times `scaleF` — whatever the order of the rows of the tables. -/
theorem C19_plot_geo1_aligned (fd : FileDict) (r : Option (List (List Nat))) (out : Out1)
    (phi : List Rat) (sc : Rat) (arrows : List (List (Option Rat) × List (Option Rat)))
    (h : checkGeo1 fd r = .ok out) (hp : plotMode1 out.coordCols out.coord out.dir phi sc = .ok arrows) :
    ∃ co di, (dropInfo fd.tbls).lookup "sensors coordinates" = some co ∧
      (dropInfo fd.tbls).lookup "sensors directions" = some di ∧
      (co.cells.length = co.index.length → di.cells.length = di.index.length →
        phi.length = out.names.length ∧
        ∀ (k : Nat) (s : String) (p : Rat), out.names[k]? = some (some s) → phi[k]? = some p →
          ∃ (pos : Nat) (rc rd : List Cell), co.index[pos]? = some s ∧ di.index[pos]? = some s ∧
            co.cells[pos]? = some rc ∧ di.cells[pos]? = some rd ∧
            arrows[k]? = some ((selRow co.cols rc).map cellVal, arrowTip (selRow co.cols rc) rd p sc)) := by
  obtain ⟨nm, co, di, hnm, hco, hdi, _, hcols, hal⟩ := C19_align_geo1 fd r out h
  refine ⟨co, di, hco, hdi, ?_⟩
  intro w1 w2
  obtain ⟨hcl, hdl, hrows⟩ := hal w1 w2
  obtain ⟨hlen, harr⟩ := C19_plot_mode1_arrow _ _ _ _ _ _ hp
  refine ⟨by omega, ?_⟩
  intro k s p hk hpk
  obtain ⟨pos, i1, i2, c1, c2⟩ := hrows k s hk
  have hlt : k < out.names.length := (List.getElem?_eq_some_iff.1 hk).1
  have hc : out.coord[k]? = some out.coord[k] := List.getElem?_eq_getElem (by omega)
  have hd : out.dir[k]? = some out.dir[k] := List.getElem?_eq_getElem (by omega)
  refine ⟨pos, out.coord[k], out.dir[k], i1, i2, by rw [← c1, hc], by rw [← c2, hd], ?_⟩
  rw [← hcols]
  exact (harr k _ _ p hc hd hpk).1

/-! ## Non-vacuity -/

/-- `C19_plot_mode2`, `_sensor` (cell (0,1) names `b` = `names[1]`, not a constraint), `_cstr`
    (cell (1,1) names `K`), `_zero` (cell (0,2)) on the checked geometry `exOut2`, shape
    `(1, 2, 3)`, `scaleF = 2`: points `(1+2·1, 2−2·2, 3)`, `(4+2·3, 5+2·(½·2), 6)` -/
def exMap0 : Tbl := { exMap with cells := [[.str "a", .str "b", n 0], [.str "c", .str "K", n 0]] }
def exCstr : Tbl := ⟨["K"], ["a", "b", "c"], [[n 0, n (1/2), n 0]]⟩
example : plotMode2 [1, 2, 3] 2 exOut2.names exPts exMap0 (some exCstr) exSign =
    .ok [[some 3, some (-2), some 3], [some 10, some 7, some 6]] := by decide +kernel
example : exOut2.names.Nodup ∧ exOut2.names[1]? = some (some "b") ∧ "b" ∉ exCstr.index ∧
    exCstr.cells.length = exCstr.index.length ∧ exCstr.index.Nodup ∧ exCstr.index[0]? = some "K" ∧
    exMap0.cells[0]? = some [.str "a", .str "b", n 0] ∧ exMap0.cells[1]? = some [.str "c", .str "K", n 0] ∧
    exPts.cells[0]? = some [n 1, n 2, n 3] ∧ exSign.cells[0]? = some [n 1, n (-1), n 0] := by decide +kernel
/-- the pipeline (`C19_plot_geo2_pipeline`): names as a list, the geometry of `exFd2` -/
example : defPlotGeo2 (.list ["a", "b", "c"]) exPts exMap (some ⟨exCs, false⟩) (some ⟨exSign, false⟩) none none none none
    none none [1, 2, 3] 2 = .ok [[some 3, some (-2), some 3], [some 10, some 7, some 6]] := by decide +kernel
/-- `C19_plot_mode1_arrow`, `C19_plot_geo1_aligned` on the accepted `exFd1` (rows of the tables in the order
    `c, a, b`, names `a, b, c`), shape `(2, 3, -1)`, `scaleF = 1/2` -/
example : checkGeo1 exFd1 none = .ok exOut1 ∧
    plotMode1 exOut1.coordCols exOut1.coord exOut1.dir [2, 3, -1] (1/2) =
      .ok [([some 4, some 5, some 6], [some 4, some 6, some 6]),
           ([some (15/2), some 8, none], [some (15/2), some 8, none]),
           ([some 1, some 2, some 3], [some (1/2), some 2, some 3])] ∧
    exCo.cells.length = exCo.index.length ∧ exDi.cells.length = exDi.index.length := by decide +kernel

end PV.C19
