import PyomaVerif.Lemmas.PlscfMix
import PyomaVerif.Props.C08PermPlscf
/-!
# C08 — pLSCF under an orthogonal mixing of the channels

"… covariant under an orthogonal mixing of the channels": the spectral array the algorithm reads is
`Sy'[:, :, f] = R·Sy[:, :, f]·Qᵀ`, i.e. `Sy'[o, c, f] = Σ_p Σ_q R[o, p]·Q[c, q]·Sy[p, q, f]` (`mixSy`), with `Q` a real
orthogonal `Nch × Nch` matrix on the columns and `R` a real `Nref × Nref` matrix with orthonormal columns on the rows.
The square single-setup array `Q·Sy·Qᵀ` is `Nref = Nch`, `R = Q` (`C08_mix_sd`: that is what `SD_est` returns for the
mixed records).  A permutation is the special case `Q = P` (`Props/C08PermPlscf.lean`).

Over the executable model of `functions/plscf.py` (`Plscf.So/To/Mmat`, `plscfOrder`, `rmfd2ac`, `ac2mpPoly`), with
`(I⊗Q)` the block-diagonal mixing (`bmix`, `bmix2`, `mixAlpha`):

* `C08_mix_plscf_normal` — `So'[o] = Σ_p R[o,p]·So[p]·(I⊗Q)ᵀ` and `M' = (I⊗Q)·M·(I⊗Q)ᵀ` (the sum over the mixed rows
  uses `Σ_o R[o,p]·R[o,p'] = δ_{pp'}`).
* `C08_mix_plscf_cert` — certificate transport (`OrderCert`): every denominator coefficient is `A_k' = Q·A_k·Qᵀ`, every
  numerator coefficient `B_k' = R·B_k·Qᵀ`.
* `C08_mix_plscf_order` — two runs of one order of the model (C05's uniqueness hypotheses on the first run).
* `C08_mix_plscf_rmfd` — records of the solves of `rmfd2ac` transported, state matrix conjugated by `I⊗Q`,
  `C' = R·C·(I⊗Q)ᵀ`.
* `C08_mix_plscf_poles` — the same characteristic polynomial of the state matrix (the same poles), eigen-records
  transported `(λ, q) ↦ (λ, (I⊗Q)·q)`, and the raw shapes `C'·q' = R·(C·q)` before normalisation.
-/
namespace PV.C08
open PV PV.Mat PV.Cov PV.Plscf Finset

section mix_plscf
variable {K : Type} [Field K]

/-- **Orthogonal mixing, normal equations.**  For the mixed array `R·Sy·Qᵀ`:
    `So'[o][i, J] = Σ_p R[o,p]·Σ_q Q[J % Nch, q]·So[p][i, (J / Nch)·Nch + q]` (any `R`, `Q`), and — the inner solves mixed
    the same way, the sum over the mixed rows collapsed with `Σ_o R[o,p]·R[o,p'] = δ_{pp'}` —
    `M' = (I⊗Q)·M·(I⊗Q)ᵀ`, entry by entry
    `M'[I, J] = Σ_a Σ_b Q[I % Nch, a]·Q[J % Nch, b]·M[(I / Nch)·Nch + a, (J / Nch)·Nch + b]`.
    Only the orthonormal columns of `R` are used here; `Q` enters linearly. -/
theorem C08_mix_plscf_normal (Nch Nref Nf n : Nat) (hN : 0 < Nch) (R Q : Nat → Nat → K) (hR : OrthoOn Nref R)
    (Om : Nat → Plscf.Cx K) (Sy : Nat → Nat → Nat → Plscf.Cx K) :
    (∀ o c f, mixSy Nref Nch R Q Sy o c f
      = ⟨∑ p ∈ range Nref, R o p * ∑ q ∈ range Nch, Q c q * (Sy p q f).re,
         ∑ p ∈ range Nref, R o p * ∑ q ∈ range Nch, Q c q * (Sy p q f).im⟩) ∧
    (∀ o i J, So Nch Nf Om (mixSy Nref Nch R Q Sy o) i J
      = ∑ p ∈ range Nref, R o p * ∑ q ∈ range Nch, Q (J % Nch) q * So Nch Nf Om (Sy p) i (J / Nch * Nch + q)) ∧
    (∀ (X : Nat → Nat → Nat → K) I J,
      Mmat Nch Nref Nf n Om (mixSy Nref Nch R Q Sy) (mixX Nref Nch R Q X) I J
        = ∑ a ∈ range Nch, ∑ b ∈ range Nch, Q (I % Nch) a * Q (J % Nch) b
            * Mmat Nch Nref Nf n Om Sy X (I / Nch * Nch + a) (J / Nch * Nch + b)) ∧
    (∀ (X : Nat → Nat → Nat → K) o t J, mixX Nref Nch R Q X o t J
      = ∑ p ∈ range Nref, R o p * ∑ q ∈ range Nch, Q (J % Nch) q * X p t (J / Nch * Nch + q)) := by
  refine ⟨fun o c f => ?_, fun o i J => ?_, fun X I J => ?_, fun X o t J => ?_⟩
  · simp only [mixSy, rowSy, colSy, clin, sumTo_eq]
  · rw [So_mix hN]; simp only [rmix_eq, bmix_eq]
  · rw [Mmat_mix hN Nref Nf n R Q hR]; simp only [bmix2, sumTo_eq]
  · simp only [mixX, rmix_eq, bmix_eq]

/-- **Orthogonal mixing, certificate transport.**  What a returned order of the model of `pLSCF` certifies for `Sy`
    (exact inner solves `X`, accumulated `M`, constrained solve `Z`, `alpha`, `beta`; constraint `LO` or `HI`), it certifies
    for the mixed array `R·Sy·Qᵀ` with `X' = R·X·(I⊗Q)ᵀ`, `M' = (I⊗Q)·M·(I⊗Q)ᵀ`, `Z' = (I⊗Q)·Z·Qᵀ`, `alpha'` built from `Z'`
    and the identity block exactly as the code builds it, `beta' = R·beta·Qᵀ`; and on the arrays every denominator
    coefficient is conjugated, `A_k' = Q·A_k·Qᵀ` — the same matrix polynomial up to the similarity `Q` — and every numerator
    coefficient is `B_k' = R·B_k·Qᵀ`.
    `Q` orthogonal (`QᵀQ = I` for the transported solve, `QQᵀ = I` for the identity block of the constraint:
    `Q·I·Qᵀ = I`), `R` with orthonormal columns. -/
theorem C08_mix_plscf_cert (Nch Nref Nf n : Nat) (hi : Bool) (Om : Nat → Plscf.Cx K)
    (Sy : Nat → Nat → Nat → Plscf.Cx K) (out : OrderOut K) (X : Nat → Nat → Nat → K) (Z : Nat → Nat → K)
    (h : OrderCert Nch Nref Nf n hi Om Sy out X Z) (hN : 0 < Nch) (R Q : Nat → Nat → K)
    (hQ : OrthoOn Nch Q) (hR : OrthoOn Nref R) :
    OrderCert Nch Nref Nf n hi Om (mixSy Nref Nch R Q Sy) (mixOut Nch Nref n hi R Q out Z)
      (mixX Nref Nch R Q X) (mixAlpha Nch Q Z) ∧
    (∀ k, k < n + 1 → ∀ a, a < Nch → ∀ b, b < Nch →
      (adOf Nch n (mixOut Nch Nref n hi R Q out Z).alpha).blk k a b
        = ∑ a' ∈ range Nch, ∑ b' ∈ range Nch, Q a a' * Q b b' * (adOf Nch n out.alpha).blk k a' b') ∧
    (∀ k o c, (bnOf Nch Nref n (mixOut Nch Nref n hi R Q out Z).beta).blk k o c
      = ∑ p ∈ range Nref, ∑ b ∈ range Nch, R o p * Q c b * (bnOf Nch Nref n out.beta).blk k p b) := by
  obtain ⟨h1, h2⟩ := PV.Cov.OrderCert.mix h hN (Orth2.of_cols hQ) hR
  refine ⟨h1, ?_, ?_⟩
  · intro k hk a ha b hb
    show (mixOut Nch Nref n hi R Q out Z).alpha (k * Nch + a) b = _
    rw [h2 _ (Plscf.blk_lt hk ha) b hb]
    simp only [mixAlpha, rmix_eq, bmix_eq, blk_div k ha, blk_mod k ha, adOf, Finset.mul_sum]
    rw [Finset.sum_comm]
    apply Finset.sum_congr rfl; intro a' _
    apply Finset.sum_congr rfl; intro b' _; ring
  · intro k o c
    simp only [bnOf, mixOut, mixBeta, rmix_eq, Finset.mul_sum]
    apply Finset.sum_congr rfl; intro p _
    apply Finset.sum_congr rfl; intro b _; ring

/-- **Orthogonal mixing, one order of `pLSCF` (two runs of the model).**  If the model returns for `Sy` and for the mixed
    array `R·Sy·Qᵀ` and — C05's uniqueness hypotheses, on the first run only — `Ro` and the constrained block of `M` are
    injective, then on the index ranges of the arrays `M' = (I⊗Q)·M·(I⊗Q)ᵀ`, every denominator coefficient is
    `A_k' = Q·A_k·Qᵀ` and every numerator coefficient is `B_k' = R·B_k·Qᵀ`: what the harness checks on the arrays returned by
    the real `plscf.pLSCF`. -/
theorem C08_mix_plscf_order [DecidableEq K] [Inhabited K] (Nch Nref Nf n : Nat) (hi : Bool) (Om : Nat → Plscf.Cx K)
    (Sy : Nat → Nat → Nat → Plscf.Cx K) (hN : 0 < Nch) (R Q : Nat → Nat → K)
    (hQ : OrthoOn Nch Q) (hR : OrthoOn Nref R) (out out' : OrderOut K)
    (h : plscfOrder Nch Nref Nf n hi Om Sy = some out)
    (h' : plscfOrder Nch Nref Nf n hi Om (mixSy Nref Nch R Q Sy) = some out')
    (hRinj : ∀ y : Nat → K,
      (∀ i < n + 1, ∑ t ∈ range (n + 1), Ro Nf Om i t * y t = 0) → ∀ t < n + 1, y t = 0)
    (hinj : ∀ y : Nat → K,
      (∀ I < n * Nch, ∑ J ∈ range (n * Nch),
        (if hi then out.M I J else out.M (Nch + I) (Nch + J)) * y J = 0) → ∀ J < n * Nch, y J = 0) :
    (∀ I, I < (n + 1) * Nch → ∀ J, J < (n + 1) * Nch →
      out'.M I J = ∑ a ∈ range Nch, ∑ b ∈ range Nch, Q (I % Nch) a * Q (J % Nch) b
        * out.M (I / Nch * Nch + a) (J / Nch * Nch + b)) ∧
    (∀ k, k < n + 1 → ∀ a, a < Nch → ∀ b, b < Nch →
      (adOf Nch n out'.alpha).blk k a b
        = ∑ a' ∈ range Nch, ∑ b' ∈ range Nch, Q a a' * Q b b' * (adOf Nch n out.alpha).blk k a' b') ∧
    (∀ k, k < n + 1 → ∀ o, o < Nref → ∀ c, c < Nch →
      (bnOf Nch Nref n out'.beta).blk k o c
        = ∑ p ∈ range Nref, ∑ b ∈ range Nch, R o p * Q c b * (bnOf Nch Nref n out.beta).blk k p b) := by
  obtain ⟨X, Z, cert⟩ := plscfOrder_sound Nch Nref Nf n hi Om Sy out h
  obtain ⟨X', Z', cert'⟩ := plscfOrder_sound Nch Nref Nf n hi Om _ out' h'
  obtain ⟨certm, hAk, hBk⟩ := C08_mix_plscf_cert Nch Nref Nf n hi Om Sy out X Z cert hN R Q hQ hR
  have hQ2 := Orth2.of_cols hQ
  have hinj' : ∀ y : Nat → K,
      (∀ I < n * Nch, ∑ J ∈ range (n * Nch),
        (if hi then (mixOut Nch Nref n hi R Q out Z).M I J
          else (mixOut Nch Nref n hi R Q out Z).M (Nch + I) (Nch + J)) * y J = 0) → ∀ J < n * Nch, y J = 0 := by
    cases hi
    · simp only [Bool.false_eq_true, if_false] at hinj ⊢
      have := inj_mix (nb := n) hN Q hQ2 (fun I J => out.M (Nch + I) (Nch + J)) hinj
      intro y hy
      apply this y
      intro I hI
      rw [← hy I hI]
      apply Finset.sum_congr rfl; intro J _
      show _ = bmix2 Nch Q out.M (Nch + I) (Nch + J) * y J
      rw [bmix2_shift1 hN]
    · simp only [if_true] at hinj ⊢
      exact inj_mix (nb := n) hN Q hQ2 out.M hinj
  obtain ⟨hM, hA, hB⟩ := cert_unique certm cert' hRinj hinj'
  refine ⟨?_, ?_, ?_⟩
  · intro I hI J hJ
    rw [hM I hI J hJ]
    simp only [mixOut, bmix2, sumTo_eq]
  · intro k hk a ha b hb
    rw [← hAk k hk a ha b hb]
    exact hA _ (Plscf.blk_lt hk ha) b hb
  · intro k hk o ho c hc
    rw [← hBk k o c]
    exact hB o ho k hk c hc

/-- **Orthogonal mixing, `rmfd2ac` (record transport).**  Coefficients related as in `C08_mix_plscf_cert`
    (`alpha' = (I⊗Q)·alpha·Qᵀ`, `beta' = R·beta·Qᵀ` on the arrays).  For every exact record `P` of the solves
    `np.linalg.solve(Ad_last, Adi)` of the original run, the conjugated record `Q·P_k·Qᵀ` is an exact record for the mixed
    coefficients; with it the state matrix is `(I⊗Q)·A·(I⊗Q)ᵀ` and the output matrix is `R·C·(I⊗Q)ᵀ`. -/
theorem C08_mix_plscf_rmfd (Nch Nref n : Nat) (hN : 0 < Nch) (R Q : Nat → Nat → K) (hQ : OrthoOn Nch Q)
    (α α' : Nat → Nat → K) (β β' : Nat → Nat → Nat → K)
    (hα : ∀ I, I < (n + 1) * Nch → ∀ c, c < Nch → α' I c = mixAlpha Nch Q α I c)
    (hβ : ∀ o, o < Nref → ∀ t, t < n + 1 → ∀ c, c < Nch → β' o t c = mixBeta Nref Nch R Q β o t c)
    (P : Nat → Nat → Nat → K) (A C : Mat K) (h : RmfdCert Nch Nref n α β P A C) :
    ∃ A' C', RmfdCert Nch Nref n α' β' (mixP Nch Q P) A' C' ∧
      A'.r = (n + 1) * Nch ∧ A'.c = (n + 1) * Nch ∧ C'.r = Nref ∧ C'.c = (n + 1) * Nch ∧
      (∀ i j, A'.e i j = ∑ a ∈ range Nch, ∑ b ∈ range Nch, Q (i % Nch) a * Q (j % Nch) b
          * A.e (i / Nch * Nch + a) (j / Nch * Nch + b)) ∧
      (∀ o, o < Nref → ∀ j, C'.e o j
        = ∑ p ∈ range Nref, R o p * ∑ q ∈ range Nch, Q (j % Nch) q * C.e p (j / Nch * Nch + q)) := by
  obtain ⟨h1, h2, h3⟩ := h.mix hN R (Orth2.of_cols hQ) hα hβ
  refine ⟨_, _, h1, rfl, rfl, rfl, rfl, ?_, ?_⟩
  · intro i j; rw [h2 i j]; simp only [bmix2, sumTo_eq]
  · intro o ho j; rw [h3 o ho j]; simp only [rmix_eq, bmix_eq]

/-- **Orthogonal mixing: the same poles, the raw shapes mixed by `R`.**  What the model certifies for `Sy` — a returned
    order (`OrderCert`) and the records of `rmfd2ac` on its coefficients (`RmfdCert`, state matrix `A`, output matrix `C`) —
    gives for the mixed array `R·Sy·Qᵀ` a certified order (`mixOut`) and certified `rmfd2ac` records on ITS coefficients with
    state matrix `A' = (I⊗Q)·A·(I⊗Q)ᵀ` and output matrix `C' = R·C·(I⊗Q)ᵀ` such that
    * `A'` and `A` have the same characteristic polynomial — the same poles with the same multiplicities; a recorded list of
      eigenvalues satisfying C05's contract of `np.linalg.eig` for `A` (its multiset, embedded in an extension `L ∋ I`, is the
      multiset of roots of the characteristic polynomial) satisfies it, with the eigenvectors transported, for `A'`;
    * every recorded eigenpair `(λ, q)` of `A` gives the eigenpair `(λ, (I⊗Q)·q)` of `A'`;
    * the raw shapes before normalisation are mixed by `R`: `C'·((I⊗Q)·q) = R·(C·q)` (for the square array `Q·(C·q)`). -/
theorem C08_mix_plscf_poles (Nch Nref Nf n : Nat) (hi : Bool) (Om : Nat → Plscf.Cx K)
    (Sy : Nat → Nat → Nat → Plscf.Cx K) (out : OrderOut K) (X : Nat → Nat → Nat → K) (Z : Nat → Nat → K)
    (h : OrderCert Nch Nref Nf n hi Om Sy out X Z) (hN : 0 < Nch) (R Q : Nat → Nat → K)
    (hQ : OrthoOn Nch Q) (hR : OrthoOn Nref R)
    (P : Nat → Nat → Nat → K) (A C : Mat K) (hac : RmfdCert Nch Nref n out.alpha out.beta P A C) :
    ∃ A' C', OrderCert Nch Nref Nf n hi Om (mixSy Nref Nch R Q Sy) (mixOut Nch Nref n hi R Q out Z)
        (mixX Nref Nch R Q X) (mixAlpha Nch Q Z) ∧
      RmfdCert Nch Nref n (mixOut Nch Nref n hi R Q out Z).alpha (mixOut Nch Nref n hi R Q out Z).beta
        (mixP Nch Q P) A' C' ∧
      (toMx ((n + 1) * Nch) ((n + 1) * Nch) A'.e).charpoly
        = (toMx ((n + 1) * Nch) ((n + 1) * Nch) A.e).charpoly ∧
      (∀ {L : Type} [Field L] (f : K →+* L) (I : L) (eigs : List (EigIn K)),
        Multiset.map (fun e => emb f I e.lamd) (eigs : Multiset (EigIn K))
          = ((toMx ((n + 1) * Nch) ((n + 1) * Nch) A.e).charpoly.map f).roots →
        Multiset.map (fun e => emb f I e.lamd)
            ((eigs.map (mixEig Nch ((n + 1) * Nch) Q) : List (EigIn K)) : Multiset (EigIn K))
          = ((toMx ((n + 1) * Nch) ((n + 1) * Nch) A'.e).charpoly.map f).roots) ∧
      (∀ e : EigIn K, EigPair ((n + 1) * Nch) A.e e →
        EigPair ((n + 1) * Nch) A'.e (mixEig Nch ((n + 1) * Nch) Q e)) ∧
      (∀ q : List (Plscf.Cx K), phiRaw C' (bmixL Nch ((n + 1) * Nch) Q q) = rmixL Nref R (phiRaw C q)) := by
  have hQ2 := Orth2.of_cols hQ
  obtain ⟨c1, hα⟩ := PV.Cov.OrderCert.mix h hN hQ2 hR
  obtain ⟨r1, hA, hC⟩ := hac.mix hN R hQ2 hα (fun _ _ _ _ _ _ => rfl)
  have hcp := charpoly_mix (nb := n + 1) Q hQ2.rows A.e _ (fun i _ j _ => hA i j)
  refine ⟨_, _, c1, r1, hcp, ?_, ?_, ?_⟩
  · intro L _ f I eigs hrec
    rw [hcp, ← hrec, ← Multiset.map_coe, Multiset.map_map]
    rfl
  · intro e he
    exact he.mix Q hQ (fun i _ j _ => hA i j)
  · intro q
    have hCd : C.r = Nref ∧ C.c = (n + 1) * Nch := by rw [hac.hC]; exact ⟨rfl, rfl⟩
    exact phiRaw_mix (nb := n + 1) Q R hQ C _ hCd.1 rfl hCd.2 rfl (fun o ho j _ => hC o ho j) q

end mix_plscf

/-! ## non-vacuity: two channels rotated by the Pythagorean angle `cos = 3/5`, `sin = 4/5`; order 1, three lines
    (`Om` of C05's instance, the full `2 × 2 × 3` array `pSy` of the permutation instance) -/
section examples
open PV.C05

/-- `Q = [[3/5, -4/5], [4/5, 3/5]]` -/
def rotQ : Nat → Nat → Rat := fun a b => if a = b then 3/5 else if a = 0 then -4/5 else 4/5
theorem rotQ_ortho : OrthoOn 2 rotQ := by
  intro a ha b hb; interval_cases a <;> interval_cases b <;> decide +kernel

-- the mixed array is not the original one, nor a permutation of it
example : mixSy 2 2 rotQ rotQ pSy 0 0 0 = ⟨9/25, 3/5⟩ ∧ pSy 0 0 0 = ⟨1, -1⟩ := by decide +kernel

example := C08_mix_plscf_normal (K := Rat) 2 2 3 1 (by decide) rotQ rotQ rotQ_ortho exOm pSy

-- the original run returns and certifies; the certificate is transported (both constraints are covered by the
-- statement; this instance is `LO`)
example : True := by
  obtain ⟨out, _, _, _, _, _, h, _⟩ := ex_perm_runs
  obtain ⟨X, Z, cert⟩ := plscfOrder_sound 2 2 3 1 false exOm pSy out h
  have := C08_mix_plscf_cert 2 2 3 1 false exOm pSy out X Z cert (by decide) rotQ rotQ rotQ_ortho rotQ_ortho
  trivial

-- ... and `rmfd2ac` returns on its coefficients: the whole chain of hypotheses of `C08_mix_plscf_rmfd` / `_poles` holds
example : True := by
  obtain ⟨out, _, A, C, _, _, h, _, _, _, hac, _⟩ := ex_perm_runs
  obtain ⟨X, Z, cert⟩ := plscfOrder_sound 2 2 3 1 false exOm pSy out h
  obtain ⟨P, rc⟩ := rmfd2ac_cert 2 2 1 out.alpha out.beta A C hac
  have := C08_mix_plscf_rmfd 2 2 1 (by decide) rotQ rotQ rotQ_ortho out.alpha (mixAlpha 2 rotQ out.alpha) out.beta
    (mixBeta 2 2 rotQ rotQ out.beta) (fun _ _ _ _ => rfl) (fun _ _ _ _ _ _ => rfl) P A C rc
  have := C08_mix_plscf_poles 2 2 3 1 false exOm pSy out X Z cert (by decide) rotQ rotQ rotQ_ortho rotQ_ortho P A C rc
  trivial

-- the model itself returns for the rotated array as well, and `rmfd2ac` on its coefficients
theorem ex_mix_run : ((plscfOrder 2 2 3 1 false exOm (mixSy 2 2 rotQ rotQ pSy)).bind fun out' =>
    (rmfd2ac (adOf 2 1 out'.alpha) (bnOf 2 2 1 out'.beta)).map fun _ => true) = some true := by decide +kernel

-- every hypothesis of the two-run theorem `C08_mix_plscf_order` holds jointly on this instance
example : True := by
  obtain ⟨out, _, _, _, _, _, h, _, hM, _, _, _⟩ := ex_perm_runs
  have hinj : ∀ y : Nat → Rat, (∀ I < 1 * 2, ∑ J ∈ range (1 * 2),
      (if false = true then out.M I J else out.M (2 + I) (2 + J)) * y J = 0) → ∀ J < 1 * 2, y J = 0 := by
    intro y hy
    exact inj2 (fun I J => out.M (2 + I) (2 + J)) hM y
      (by simpa only [Bool.false_eq_true, if_false, Nat.one_mul] using hy)
  cases ho' : plscfOrder 2 2 3 1 false exOm (mixSy 2 2 rotQ rotQ pSy) with
  | none => have := ex_mix_run; rw [ho'] at this; simp at this
  | some out' =>
    have := C08_mix_plscf_order 2 2 3 1 false exOm pSy (by decide) rotQ rotQ rotQ_ortho rotQ_ortho out out' h ho'
      ex_Ro_inj hinj
    trivial

end examples

end PV.C08
