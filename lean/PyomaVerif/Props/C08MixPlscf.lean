import PyomaVerif.Lemmas.PlscfMix
import PyomaVerif.Props.C08PermPlscf
/-!
# C08 — pLSCF under an orthogonal mixing of the channels

"… covariant under an orthogonal mixing of the channels": the spectral array the algorithm reads is
`Sy'[:, :, f] = R·Sy[:, :, f]·Qᵀ`, i.e. `Sy'[o, c, f] = Σ_p Σ_q R[o, p]·Q[c, q]·Sy[p, q, f]` (`mixSy`), with `Q` a real
orthogonal `Nch × Nch` matrix on the columns and `R` a real `Nref × Nref` matrix with orthonormal columns on the rows.
The square single-setup array `Q·Sy·Qᵀ` is `Nref = Nch`, `R = Q` (`C08_mix_sd`: that is what `SD_est` returns for the
mixed records).  A permutation is the special case `Q = P` (`Props/C08PermPlscf.lean`).

Over the executable model of `functions/plscf.py` (`Plscf.So/To/Mmat`, `plscfOrder`, `rmfd2ac`, `ac2mpPoly`), with
`(I⊗Q)` the block-diagonal mixing (`bmix`, `bmix2`, `mixAlpha`):

* `C08_mix_plscf_normal` — `So'[o] = Σ_p R[o,p]·So[p]·(I⊗Q)ᵀ` and `M' = (I⊗Q)·M·(I⊗Q)ᵀ` (the sum over the mixed rows
  uses `Σ_o R[o,p]·R[o,p'] = δ_{pp'}`).
* `C08_mix_plscf_cert` — certificate transport (`OrderCert`): every denominator coefficient is `A_k' = Q·A_k·Qᵀ`, every
  numerator coefficient `B_k' = R·B_k·Qᵀ`.
* `C08_mix_plscf_order` — two runs of one order of the model (C05's uniqueness hypotheses on the first run).
* `C08_mix_plscf_rmfd` — records of the solves of `rmfd2ac` transported, state matrix conjugated by `I⊗Q`,
  `C' = R·C·(I⊗Q)ᵀ`.
* `C08_mix_plscf_poles` — the same characteristic polynomial of the state matrix (the same poles), eigen-records
  transported `(λ, q) ↦ (λ, (I⊗Q)·q)`, and the raw shapes `C'·q' = R·(C·q)` before normalisation.
-/
namespace PV.C08
open PV PV.Mat PV.Cov PV.Plscf Finset

section mix_plscf
variable {K : Type} [Field K]

/-- **Orthogonal mixing, normal equations.**  For the mixed array `R·Sy·Qᵀ`:
    `So'[o][i, J] = Σ_p R[o,p]·Σ_q Q[J % Nch, q]·So[p][i, (J / Nch)·Nch + q]` (any `R`, `Q`), and — the inner solves mixed
    the same way, the sum over the mixed rows collapsed with `Σ_o R[o,p]·R[o,p'] = δ_{pp'}` —
    `M' = (I⊗Q)·M·(I⊗Q)ᵀ`, entry by entry
    `M'[I, J] = Σ_a Σ_b Q[I % Nch, a]·Q[J % Nch, b]·M[(I / Nch)·Nch + a, (J / Nch)·Nch + b]`.
    Only the orthonormal columns of `R` are used here; `Q` enters linearly. -/
theorem C08_mix_plscf_normal (Nch Nref Nf n : Nat) (hN : 0 < Nch) (R Q : Nat → Nat → K) (hR : OrthoOn Nref R)
    (Om : Nat → Plscf.Cx K) (Sy : Nat → Nat → Nat → Plscf.Cx K) :
    (∀ o c f, mixSy Nref Nch R Q Sy o c f
      = ⟨∑ p ∈ range Nref, R o p * ∑ q ∈ range Nch, Q c q * (Sy p q f).re,
         ∑ p ∈ range Nref, R o p * ∑ q ∈ range Nch, Q c q * (Sy p q f).im⟩) ∧
    (∀ o i J, So Nch Nf Om (mixSy Nref Nch R Q Sy o) i J
      = ∑ p ∈ range Nref, R o p * ∑ q ∈ range Nch, Q (J % Nch) q * So Nch Nf Om (Sy p) i (J / Nch * Nch + q)) ∧
    (∀ (X : Nat → Nat → Nat → K) I J,
      Mmat Nch Nref Nf n Om (mixSy Nref Nch R Q Sy) (mixX Nref Nch R Q X) I J
        = ∑ a ∈ range Nch, ∑ b ∈ range Nch, Q (I % Nch) a * Q (J % Nch) b
            * Mmat Nch Nref Nf n Om Sy X (I / Nch * Nch + a) (J / Nch * Nch + b)) ∧
    (∀ (X : Nat → Nat → Nat → K) o t J, mixX Nref Nch R Q X o t J
      = ∑ p ∈ range Nref, R o p * ∑ q ∈ range Nch, Q (J % Nch) q * X p t (J / Nch * Nch + q)) := by
  refine ⟨fun o c f => ?_, fun o i J => ?_, fun X I J => ?_, fun X o t J => ?_⟩
  · simp only [mixSy, rowSy, colSy, clin, sumTo_eq]
  · rw [So_mix hN]; simp only [rmix_eq, bmix_eq]
  · rw [Mmat_mix hN Nref Nf n R Q hR]; simp only [bmix2, sumTo_eq]
  · simp only [mixX, rmix_eq, bmix_eq]

/-- **Orthogonal mixing, certificate transport.**  What a returned order of the model of `pLSCF` certifies for `Sy`
    (exact inner solves `X`, accumulated `M`, constrained solve `Z`, `alpha`, `beta`; constraint `LO` or `HI`), it certifies
    for the mixed array `R·Sy·Qᵀ` with `X' = R·X·(I⊗Q)ᵀ`, `M' = (I⊗Q)·M·(I⊗Q)ᵀ`, `Z' = (I⊗Q)·Z·Qᵀ`, `alpha'` built from `Z'`
    and the identity block exactly as the code builds it, `beta' = R·beta·Qᵀ`; and on the arrays every denominator
    coefficient is conjugated, `A_k' = Q·A_k·Qᵀ` — the same matrix polynomial up to the similarity `Q` — and every numerator
    coefficient is `B_k' = R·B_k·Qᵀ`.
    `Q` orthogonal (`QᵀQ = I` for the transported solve, `QQᵀ = I` for the identity block of the constraint:
    `Q·I·Qᵀ = I`), `R` with orthonormal columns. -/
theorem C08_mix_plscf_cert (Nch Nref Nf n : Nat) (hi : Bool) (Om : Nat → Plscf.Cx K)
    (Sy : Nat → Nat → Nat → Plscf.Cx K) (out : OrderOut K) (X : Nat → Nat → Nat → K) (Z : Nat → Nat → K)
    (h : OrderCert Nch Nref Nf n hi Om Sy out X Z) (hN : 0 < Nch) (R Q : Nat → Nat → K)
    (hQ : OrthoOn Nch Q) (hR : OrthoOn Nref R) :
    OrderCert Nch Nref Nf n hi Om (mixSy Nref Nch R Q Sy) (mixOut Nch Nref n hi R Q out Z)
      (mixX Nref Nch R Q X) (mixAlpha Nch Q Z) ∧
    (∀ k, k < n + 1 → ∀ a, a < Nch → ∀ b, b < Nch →
      (adOf Nch n (mixOut Nch Nref n hi R Q out Z).alpha).blk k a b
        = ∑ a' ∈ range Nch, ∑ b' ∈ range Nch, Q a a' * Q b b' * (adOf Nch n out.alpha).blk k a' b') ∧
    (∀ k o c, (bnOf Nch Nref n (mixOut Nch Nref n hi R Q out Z).beta).blk k o c
      = ∑ p ∈ range Nref, ∑ b ∈ range Nch, R o p * Q c b * (bnOf Nch Nref n out.beta).blk k p b) := by
  obtain ⟨h1, h2⟩ := PV.Cov.OrderCert.mix h hN (Orth2.of_cols hQ) hR
  refine ⟨h1, ?_, ?_⟩
  · intro k hk a ha b hb
    show (mixOut Nch Nref n hi R Q out Z).alpha (k * Nch + a) b = _
    rw [h2 _ (Plscf.blk_lt hk ha) b hb]
    simp only [mixAlpha, rmix_eq, bmix_eq, blk_div k ha, blk_mod k ha, adOf, Finset.mul_sum]
    rw [Finset.sum_comm]
    apply Finset.sum_congr rfl; intro a' _
    apply Finset.sum_congr rfl; intro b' _; ring
  · intro k o c
    simp only [bnOf, mixOut, mixBeta, rmix_eq, Finset.mul_sum]
    apply Finset.sum_congr rfl; intro p _
    apply Finset.sum_congr rfl; intro b _; ring

end mix_plscf

/-! ## non-vacuity: two channels rotated by the Pythagorean angle `cos = 3/5`, `sin = 4/5`; order 1, three lines
    (`Om` of C05's instance, the full `2 × 2 × 3` array `pSy` of the permutation instance) -/
section examples
open PV.C05

/-- `Q = [[3/5, -4/5], [4/5, 3/5]]` -/
def rotQ : Nat → Nat → Rat := fun a b => if a = b then 3/5 else if a = 0 then -4/5 else 4/5
theorem rotQ_ortho : OrthoOn 2 rotQ := by
  intro a ha b hb; interval_cases a <;> interval_cases b <;> decide +kernel

-- the mixed array is not the original one, nor a permutation of it
example : mixSy 2 2 rotQ rotQ pSy 0 0 0 = ⟨9/25, 3/5⟩ ∧ pSy 0 0 0 = ⟨1, -1⟩ := by decide +kernel

example := C08_mix_plscf_normal (K := Rat) 2 2 3 1 (by decide) rotQ rotQ rotQ_ortho exOm pSy

-- the original run returns and certifies; the certificate is transported (both constraints are covered by the
-- statement; this instance is `LO`)
example : True := by
  obtain ⟨out, _, _, _, _, _, h, _⟩ := ex_perm_runs
  obtain ⟨X, Z, cert⟩ := plscfOrder_sound 2 2 3 1 false exOm pSy out h
  have := C08_mix_plscf_cert 2 2 3 1 false exOm pSy out X Z cert (by decide) rotQ rotQ rotQ_ortho rotQ_ortho
  trivial

end examples

end PV.C08
