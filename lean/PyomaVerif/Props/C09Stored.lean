import PyomaVerif.Lemmas.HcStored
/-!
# C09 — the stored tables: neutral limits, survival of a passing pole, `HC_conj` instantiated,
and the link between the `run()` interpreter and the list-of-rows functions the driver runs

(audit: C09 gaps 2 and 3, C01 gap 1.)  All statements are about `runOf cl conjOn covOn p`, the concrete
run (`crun`) of the class programs regenerated from `/repo` (`Generated/HcProgs.lean`).

1. `C09_neutral_identity` — with the conjugate criterion off and limits that do not bite (`Neutral`), every
   stored table is the unfiltered one at every `Regular` pole (positive damping, non-zero shape with at
   least two components) and NaN elsewhere; `C09_neutral_identity_table` — if every pole of the
   unfiltered solution is regular the stored tables ARE the unfiltered tables.
2. `C09_kept_survives` — a pole that passes every enabled criterion is in EVERY stored table with its
   unfiltered value (completeness, one cell); `C09_raw_survives` — the same on the list-of-rows tables the pole
   routines return (`Stored.Raw`), with the criteria spelled out on the cell's values.
3. `C09_conj_present` — with `Params.conjT := conjTGrid r c` (the model of `gen.HC_conj`), the conjugate
   clause of `Kept` says: the pole's eigenvalue and its complex conjugate both occur in the unfiltered
   eigenvalue table.  `C09_cexec_hcDamp`, `C09_cexec_hcCov`, `C09_cexec_hcConj`, `C09_maskO_applymask` —
   one step of `cexec` on tables that come from list-of-rows tables IS `HcFn.hcDamp` / `hcCov` / `hcConj` /
   `applymask` (filtered table and mask), so `cexec`'s built-in `np.where` semantics is the one of the
   functions compared with `gen.HC_*` / `gen.applymask`, not an independent assumption.
-/
namespace PV.C09Stored
open PV PV.Hc PV.HcFn PV.C09 PV.C09C18 PV.C09All PV.Stored

variable {Idx : Type}

/-- **(1) Neutral limits: the class programs are the identity on the regular poles.**  Six classes, every
    flag combination that exists, conjugate criterion off.  Hypothesis `Neutral` is the harness's
    "neutral hard criteria" (`xi_max` above every damping, `mpc_lim ≤ 0`, `mpd_lim ≥ π/2`, `cov_max` above
    every covariance).  The poles that are still removed are exactly the non-`Regular` ones: `HC_damp`
    demands `ξ > 0` whatever `xi_max` is, and `HC_phi_comp` rejects a shape whose MPC / MPD is undefined. -/
theorem C09_neutral_identity (cl : ClassSpec) (hcl : cl ∈ classes) (covOn : Bool)
    (hflag : flagOk cl.hasCov covOn = true) (p : Params Idx) (hN : Neutral p covOn) :
    ∃ e', runOf cl false covOn p = some e' ∧
      ∀ f x o, (f, x) ∈ cl.prog.ret → fieldTbl f = some o → (isCovTbl o && !covOn) = false →
        ∃ T, e' x = some (CVal.tbl T) ∧
          (∀ i, Regular p covOn i → T i = p.orig o i) ∧ (∀ i, ¬ Regular p covOn i → T i = none) := by
  obtain ⟨e', he', _, hall⟩ := C09_kept_iff_all cl hcl false covOn hflag p
  refine ⟨e', he', ?_⟩
  intro f x o hmem hf hpres
  have h := hall f x o hmem hf
  rw [if_neg (by simp [hpres])] at h
  obtain ⟨T, hT, hF⟩ := h
  refine ⟨T, hT, ?_, ?_⟩
  · intro i hr
    exact hF.eq_of_kept i ((kept_neutral_iff hN i).mpr hr)
  · intro i hr
    exact hF.none_of_not_kept i (fun hk => hr ((kept_neutral_iff hN i).mp hk))

/-- **(1′) … and the identity on the whole table** when every pole of the unfiltered solution is regular. -/
theorem C09_neutral_identity_table (cl : ClassSpec) (hcl : cl ∈ classes) (covOn : Bool)
    (hflag : flagOk cl.hasCov covOn = true) (p : Params Idx) (hN : Neutral p covOn)
    (hreg : ∀ o i, p.orig o i ≠ none → Regular p covOn i) :
    ∃ e', runOf cl false covOn p = some e' ∧
      ∀ f x o, (f, x) ∈ cl.prog.ret → fieldTbl f = some o → (isCovTbl o && !covOn) = false →
        e' x = some (CVal.tbl (p.orig o)) := by
  obtain ⟨e', he', h⟩ := C09_neutral_identity cl hcl covOn hflag p hN
  refine ⟨e', he', ?_⟩
  intro f x o hmem hf hpres
  obtain ⟨T, hT, h1, h2⟩ := h f x o hmem hf hpres
  have : T = p.orig o := by
    funext i
    by_cases hr : Regular p covOn i
    · exact h1 i hr
    · rw [h2 i hr]
      by_contra hne
      exact hr (hreg o i (fun h0 => hne h0.symm))
  rw [← this]
  exact hT

/-- **(2) A pole that passes every enabled criterion survives in every stored table, value unchanged.**
    (`C09_kept_iff_all`'s completeness direction at one cell; `Kept` is read on the UNFILTERED tables with
    the library's MPC / MPD.) -/
theorem C09_kept_survives (cl : ClassSpec) (hcl : cl ∈ classes) (conjOn covOn : Bool)
    (hflag : flagOk cl.hasCov covOn = true) (p : Params Idx) (i : Idx) (hk : Kept p conjOn covOn i) :
    ∃ e', runOf cl conjOn covOn p = some e' ∧
      ∀ f x o, (f, x) ∈ cl.prog.ret → fieldTbl f = some o → (isCovTbl o && !covOn) = false →
        ∃ T, e' x = some (CVal.tbl T) ∧ FiltOf p conjOn covOn o T ∧ T i = p.orig o i := by
  obtain ⟨e', he', _, hall⟩ := C09_kept_iff_all cl hcl conjOn covOn hflag p
  refine ⟨e', he', ?_⟩
  intro f x o hmem hf hpres
  have h := hall f x o hmem hf
  rw [if_neg (by simp [hpres])] at h
  obtain ⟨T, hT, hF⟩ := h
  exact ⟨T, hT, hF, hF.eq_of_kept i hk⟩

/-! ### (3a) the conjugate criterion instantiated with the model of `gen.HC_conj` -/

/-- **"its complex conjugate is present"**, proved for the model of `gen.HC_conj` (not for an arbitrary
    function): with `p.conjT = conjTGrid r c`, `ConjOk p i` holds iff the unfiltered eigenvalue cell of the
    pole is a number `z` and both `z` and `conj z` occur in the `r × c` unfiltered eigenvalue table. -/
theorem C09_conj_present (p : Params (Nat × Nat)) (r c : Nat) (hc : p.conjT = conjTGrid r c) (i : Nat × Nat) :
    ConjOk p i ↔ ∃ z : Cx Rat, p.orig .lam i = some (.cplx z) ∧
      (∃ y : Nat × Nat, y.1 < r ∧ y.2 < c ∧ ∃ w : Cx Rat, p.orig .lam y = some (.cplx w) ∧ w.re = z.re ∧ w.im = z.im) ∧
      (∃ y : Nat × Nat, y.1 < r ∧ y.2 < c ∧ ∃ w : Cx Rat, p.orig .lam y = some (.cplx w) ∧ w.re = z.re ∧ w.im = -z.im) := by
  have key : ∀ (y : Nat × Nat) (a : HcFn.C), (p.orig .lam y).bind cplx? = some a ↔
      ∃ w : Cx Rat, p.orig .lam y = some (.cplx w) ∧ w.re = a.1 ∧ w.im = a.2 := by
    intro y a
    cases h : p.orig .lam y with
    | none => simp
    | some cl =>
      simp only [Option.bind_some, cplx?_eq_some, Option.some.injEq]
  unfold ConjOk
  rw [hc]
  unfold conjTGrid
  rw [conjGrid_iff]
  constructor
  · rintro ⟨a, ha, ⟨y1, h1r, h1c, h1⟩, ⟨y2, h2r, h2c, h2⟩⟩
    obtain ⟨z, hz, hre, him⟩ := (key i a).mp ha
    obtain ⟨w1, hw1, e1, e1'⟩ := (key y1 a).mp h1
    obtain ⟨w2, hw2, e2, e2'⟩ := (key y2 (cconj a)).mp h2
    refine ⟨z, hz, ⟨y1, h1r, h1c, w1, hw1, by rw [e1, hre], by rw [e1', him]⟩,
      ⟨y2, h2r, h2c, w2, hw2, ?_, ?_⟩⟩
    · rw [e2, hre]; rfl
    · rw [e2', him]; rfl
  · rintro ⟨z, hz, ⟨y1, h1r, h1c, w1, hw1, e1, e1'⟩, ⟨y2, h2r, h2c, w2, hw2, e2, e2'⟩⟩
    refine ⟨(z.re, z.im), (key i _).mpr ⟨z, hz, rfl, rfl⟩, ⟨y1, h1r, h1c, (key y1 _).mpr ⟨w1, hw1, e1, e1'⟩⟩,
      ⟨y2, h2r, h2c, (key y2 _).mpr ⟨w2, hw2, e2, e2'⟩⟩⟩

/-! ### (2′) the same on the list-of-rows tables the pole routines return -/

/-- **A pole of the raw tables that passes every enabled criterion is in the stored tables, unchanged.**
    `R` the four unfiltered list-of-rows tables (`ssi.SSI_poles` / `plscf.pLSCF_poles`, no uncertainties), read
    on an `rr × cc` grid; the conjugate criterion is `gen.HC_conj`'s model.  If cell `i` holds frequency `f`,
    damping `x ∈ (0, xi_max)`, a shape `s` passing MPC / MPD (`ShapeOk`) and the pole `μ`, and — when
    `hc["conj"]` is on — some cell of the grid holds `conj μ`, then `i` is `Kept`, and `Fn_poles`, `Xi_poles`,
    `Phi_poles` (and `Lambds`, for the SSI classes) hold exactly these values at `i`. -/
theorem C09_raw_survives (R : Raw) (rr cc : Nat) (cl : ClassSpec) (hcl : cl ∈ classes) (conjOn : Bool)
    (xiMax mpcLim mpdLim covMax : ℚ) (dir : Nat → (Nat → Cx Rat) → ℝ × ℝ) (i : Nat × Nat)
    (hi : i.1 < rr ∧ i.2 < cc) (f x : ℚ) (s : List (Cx Rat)) (μ : Cx Rat)
    (hfn : cellAt R.fn i = some f) (hxi : cellAt R.xi i = some x) (hphi : cellAt R.phi i = some s)
    (hlam : cellAt R.lam i = some μ) (hdamp : 0 < x ∧ x < xiMax) (hshape : ShapeOk dir mpcLim mpdLim s)
    (hconj : conjOn = true → ∃ j : Nat × Nat, j.1 < rr ∧ j.2 < cc ∧
      ∃ ν : Cx Rat, cellAt R.lam j = some ν ∧ ν.re = μ.re ∧ ν.im = -μ.im) :
    let p := R.params rr cc xiMax mpcLim mpdLim covMax dir
    ∃ e' Tf Tx Tp, runOf cl conjOn false p = some e' ∧
      e' (retVar cl.prog "Fn_poles") = some (CVal.tbl Tf) ∧ FiltOf p conjOn false .fn Tf ∧
      e' (retVar cl.prog "Xi_poles") = some (CVal.tbl Tx) ∧ FiltOf p conjOn false .xi Tx ∧
      e' (retVar cl.prog "Phi_poles") = some (CVal.tbl Tp) ∧ FiltOf p conjOn false .phi Tp ∧
      Kept p conjOn false i ∧
      Tf i = some (.real f) ∧ Tx i = some (.real x) ∧ Tp i = some (shapeCell s) ∧
      (cl.hasCov = true → ∃ Tl, e' (retVar cl.prog "Lambds") = some (CVal.tbl Tl) ∧
        FiltOf p conjOn false .lam Tl ∧ Tl i = some (.cplx μ)) := by
  intro p
  have oF : p.orig .fn i = some (.real f) := by
    show (cellAt R.fn i).map Cell.real = _
    rw [hfn]; rfl
  have oX : p.orig .xi i = some (.real x) := by
    show (cellAt R.xi i).map Cell.real = _
    rw [hxi]; rfl
  have oP : p.orig .phi i = some (shapeCell s) := by
    show (cellAt R.phi i).map shapeCell = _
    rw [hphi]; rfl
  have oL : ∀ (j : Nat × Nat) (ν : Cx Rat), cellAt R.lam j = some ν → p.orig .lam j = some (.cplx ν) := by
    intro j ν h
    show (cellAt R.lam j).map Cell.cplx = _
    rw [h]; rfl
  have hkept : Kept p conjOn false i := by
    refine ⟨?_, ⟨_, oX, hdamp.1, hdamp.2⟩, ⟨_, _, oP, hshape.2.1, hshape.2.2⟩, ?_, fun h => (by cases h)⟩
    · intro hc
      obtain ⟨j, hj1, hj2, ν, hν, hre, him⟩ := hconj hc
      rw [C09_conj_present p rr cc rfl]
      exact ⟨μ, oL i μ hlam, ⟨i, hi.1, hi.2, μ, oL i μ hlam, rfl, rfl⟩, ⟨j, hj1, hj2, ν, oL j ν hν, hre, him⟩⟩
    · obtain ⟨q, hq, hle⟩ := hshape.1
      exact ⟨_, _, q, oP, hq, hle⟩
  obtain ⟨e', Tf, Tx, Tp, he', hTf, fF, hTx, fX, hTp, fP⟩ :=
    stored_tables cl hcl conjOn false (by simp [flagOk]) p
  refine ⟨e', Tf, Tx, Tp, he', hTf, fF, hTx, fX, hTp, fP, hkept, by rw [fF.eq_of_kept _ hkept, oF],
    by rw [fX.eq_of_kept _ hkept, oX], by rw [fP.eq_of_kept _ hkept, oP], ?_⟩
  intro hcov
  obtain ⟨e'', Tl, he'', hTl, fL⟩ := C09_kept_iff_field cl hcl conjOn false (by simp [flagOk]) p "Lambds"
    (required_lambds cl hcl hcov) .lam rfl rfl
  have : e'' = e' := Option.some.inj (he''.symm.trans he')
  subst this
  exact ⟨Tl, hTl, fL, by rw [fL.eq_of_kept _ hkept, oL i μ hlam]⟩

/-! ### (3b) one step of `cexec` is the list-of-rows function the driver runs -/

/-- a list-of-rows table as the cell-function table of the interpreter, through a cell constructor -/
def tblOf {α : Type} (mk : α → Cell) (t : T α) : Nat × Nat → Option Cell := fun x => (cellAt t x).map mk

/-- the eigenvalue pair of `HcFn` as an eigenvalue cell -/
def cplxOfC (z : HcFn.C) : Cell := .cplx ⟨z.1, z.2⟩

theorem tblOf_maskTbl {α : Type} (mk : α → Cell) (m : Nat × Nat → Bool) (t t' : T α)
    (h : cellAt t' = maskTbl m (cellAt t)) : tblOf mk t' = maskTbl m (tblOf mk t) := by
  funext x
  unfold tblOf
  rw [h]
  unfold maskTbl
  split <;> rfl

/-- **`gen.applymask`**: what `cexec` stores for one entry of the list handed to `Stmt.apply` is the cell
    reading of `HcFn.applymask` (the `applymask` op of the driver) — for a table of any kind of cell. -/
theorem C09_maskO_applymask {α : Type} (mk : α → Cell) (t : T α) (m : List (List Bool)) :
    maskO (maskAt m) (some (tblOf mk t)) = CVal.tbl (tblOf mk (applymask t m)) := by
  unfold maskO
  rw [tblOf_maskTbl mk (maskAt m) t (applymask t m) (cellAt_applymask t m)]

/-- **`gen.HC_damp`**: on a damping table that comes from the list-of-rows table `t`, the interpreter's step
    stores `HcFn.hcDamp t xi_max` — its filtered table (`damp*mask; ==0 → nan` in the code) and its mask. -/
theorem C09_cexec_hcDamp (p : Params (Nat × Nat)) (e : CEnv (Nat × Nat) Cell) (thr : Thr) (dT dM src : Var)
    (t : T Rat) (h : e src = some (CVal.tbl (tblOf .real t))) :
    cexec (semIndicators p) e (.hc1 (.damp thr) dT dM src) =
      some ((e.set dT (CVal.tbl (tblOf .real (hcDamp t p.xiMax).1))).set dM
        (CVal.mask (maskAt (hcDamp t p.xiMax).2))) := by
  have hm : (fun i => (semIndicators p).cell (.damp thr) (tblOf Cell.real t i))
      = maskAt (hcDamp t p.xiMax).2 := by
    funext x
    rw [maskAt_hcDamp]
    show dampMask p.xiMax (((cellAt t x).map Cell.real).bind Cell.real?) = _
    cases cellAt t x <;> rfl
  simp only [cexec, h, reduceCtorEq, if_false]
  rw [hm, tblOf_maskTbl Cell.real (maskAt (hcDamp t p.xiMax).2) t (hcDamp t p.xiMax).1]
  rw [cellAt_hcDamp]
  congr 1
  funext x
  exact (maskAt_hcDamp t p.xiMax x).symm

/-- **`gen.HC_cov`** (after the repair of F23): the same for the frequency-covariance table. -/
theorem C09_cexec_hcCov (p : Params (Nat × Nat)) (e : CEnv (Nat × Nat) Cell) (thr : Thr) (dT dM src : Var)
    (t : T Rat) (h : e src = some (CVal.tbl (tblOf .real t))) :
    cexec (semIndicators p) e (.hc1 (.cov thr) dT dM src) =
      some ((e.set dT (CVal.tbl (tblOf .real (hcCov t p.covMax).1))).set dM
        (CVal.mask (maskAt (hcCov t p.covMax).2))) := by
  have hm : (fun i => (semIndicators p).cell (.cov thr) (tblOf Cell.real t i))
      = maskAt (hcCov t p.covMax).2 := by
    funext x
    rw [maskAt_hcCov]
    show covMask p.covMax (((cellAt t x).map Cell.real).bind Cell.real?) = _
    cases cellAt t x <;> rfl
  simp only [cexec, h, reduceCtorEq, if_false]
  rw [hm, tblOf_maskTbl Cell.real (maskAt (hcCov t p.covMax).2) t (hcCov t p.covMax).1]
  rw [cellAt_hcCov]
  congr 1
  funext x
  exact (maskAt_hcCov t p.covMax x).symm

/-- **`gen.HC_conj`**: with `p.conjT = conjTGrid r c` and an eigenvalue table that comes from a list-of-rows
    table fitting the `r × c` grid, the interpreter's step stores `HcFn.hcConj t` (filtered table and mask). -/
theorem C09_cexec_hcConj (p : Params (Nat × Nat)) (r c : Nat) (hc : p.conjT = conjTGrid r c)
    (e : CEnv (Nat × Nat) Cell) (dT dM src : Var) (t : T HcFn.C) (hf : Fits r c t)
    (h : e src = some (CVal.tbl (tblOf cplxOfC t))) :
    cexec (semIndicators p) e (.hc1 .conj dT dM src) =
      some ((e.set dT (CVal.tbl (tblOf cplxOfC (hcConj t).1))).set dM (CVal.mask (maskAt (hcConj t).2))) := by
  have hm : (semIndicators p).conjT (tblOf cplxOfC t) = maskAt (hcConj t).2 := by
    funext x
    rw [maskAt_hcConj]
    show p.conjT (tblOf cplxOfC t) x = _
    rw [hc]
    unfold conjTGrid
    have : (fun y => (tblOf cplxOfC t y).bind cplx?) = cellAt t := by
      funext y
      unfold tblOf
      cases cellAt t y with
      | none => rfl
      | some z => rfl
    rw [this]
    exact conjGrid_cellAt r c t hf x
  simp only [cexec, h, if_true]
  rw [hm, tblOf_maskTbl cplxOfC (maskAt (hcConj t).2) t (hcConj t).1]
  rw [cellAt_hcConj]
  congr 1
  funext x
  exact (maskAt_hcConj t x).symm

/-! ### Non-vacuity -/
section example_

/-- `Neutral` and `Regular` are jointly satisfiable with a table on which a criterion bites when the
    limits are not neutral: the 2 orders × 3 poles instance of `Props/C09All.lean` with neutral limits -/
noncomputable def exN : Params (Nat × Nat) where
  orig := exOrig
  xiMax := 1
  mpcLim := 0
  mpdLim := 2
  covMax := 10 ^ 9
  dir := fun _ _ => (1, -1)
  conjT := conjTGrid 3 2

theorem exN_neutral : Neutral exN false where
  xi := by
    intro i x h
    have : x = exX i := by
      have : exOrig .xi i = some (.real (exX i)) := rfl
      rw [show exN.orig = exOrig from rfl, this] at h
      cases h; rfl
    subst this
    obtain ⟨a, b⟩ := i
    show exX (a, b) < 1
    unfold exX
    split <;> norm_num
  mpc := le_refl _
  mpd := by
    have hpi : Real.pi / 2 ≤ 2 := by linarith [Real.pi_le_four]
    have : ((2 : Rat) : ℝ) = 2 := by norm_num
    show Real.pi / 2 ≤ ((2 : Rat) : ℝ)
    rw [this]; exact hpi
  cov := fun h => by cases h

/-- the pole (2,1) (damping 1/5) is regular: kept under the neutral limits, although it fails `ξ_max = 1/10` -/
example : Regular exN false (2, 1) :=
  ⟨⟨1 / 5, rfl, by norm_num⟩, ⟨2, exV (2, 1), rfl, le_refl _, by decide +kernel⟩, fun h => by cases h⟩

/-- with the model of `HC_conj` as `conjT`: (0,0) has its conjugate (2,0) in the table, (1,0) has none -/
example : ConjOk exN (0, 0) ∧ ¬ ConjOk exN (1, 0) := by
  constructor
  · show conjTGrid 3 2 (exOrig .lam) (0, 0) = true
    decide +kernel
  · show ¬ conjTGrid 3 2 (exOrig .lam) (1, 0) = true
    decide +kernel

/-- the hypotheses of `C09_neutral_identity` and `C09_kept_survives` are satisfiable, for every class -/
example (cl : ClassSpec) (hcl : cl ∈ classes) :=
  C09_neutral_identity cl hcl false (by simp [flagOk]) exN exN_neutral
example (cl : ClassSpec) (hcl : cl ∈ classes) :=
  C09_kept_survives cl hcl true false (by simp [flagOk]) exP (0, 0) ((exKept_iff true (0, 0)).mpr (by decide +kernel))

/-- the hypotheses of the `cexec` step lemmas are satisfiable: an environment holding a list-of-rows damping
    table under `"Xis"`, an eigenvalue table fitting the grid under `"Lambds"` -/
example : ∃ e : CEnv (Nat × Nat) Cell,
    e "Xis" = some (CVal.tbl (tblOf .real [[some (1/50), none], [some (1/5), some 0]])) ∧
    e "Lambds" = some (CVal.tbl (tblOf cplxOfC [[some (-1, 10), none], [some (-1, -10), some (-3, 31)]])) ∧
    Fits 2 2 ([[some (-1, 10), none], [some (-1, -10), some (-3, 31)]] : T HcFn.C) :=
  ⟨fun x => if x = "Xis" then some (CVal.tbl (tblOf .real [[some (1/50), none], [some (1/5), some 0]]))
      else some (CVal.tbl (tblOf cplxOfC [[some (-1, 10), none], [some (-1, -10), some (-3, 31)]])),
    rfl, rfl, by decide, by decide⟩

end example_

end PV.C09Stored
