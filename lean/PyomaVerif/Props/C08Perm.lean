import PyomaVerif.Props.C08Unity
/-!
# C08 — channel permutation, FDD, composed to the result of `FDD_mpe`

`Props/C08Pipe.lean` has the pieces (`C08_perm_sd`: the spectral array of the permuted record is the array
with rows and columns permuted; `C08_perm_fdd`: transport of the recorded per-line SVD, the stored row is
permuted, the normaliser commutes with the permutation).  Here they are composed: from the record to the
whole result of the model of `FDD_mpe` — same bands, same σ₁/σ₂ curve, SAME PICKED LINE, same frequency,
unit-normalised shape PERMUTED — for both spectral estimators.
-/
namespace PV.C08
open PV PV.Mat PV.Cov PV.Fdd PV.Unity Finset

section perm_fdd
variable {K : Type} [Field K] [LinearOrder K] [IsStrictOrderedRing K]

/-- what the permutation does to one returned mode: pick and frequency kept, shape rows permuted
    (`phi'[i] = phi[σ i]`) -/
def permMode (n : Nat) (σ : Nat → Nat) (m : ModeOut K) : ModeOut K :=
  ⟨m.pick, m.fn, m.phi.map fun l => (List.range n).map fun i => l.getD (σ i) 0⟩

theorem mapM_map_except_mem {α β ε : Type} (f f' : α → Except ε β) (g : β → β) :
    ∀ l : List α, (∀ a ∈ l, f' a = (f a).map g) → l.mapM f' = (l.mapM f).map (List.map g) := by
  intro l
  induction l with
  | nil => intro _; rfl
  | cons a as ih =>
    intro h
    simp only [List.mapM_cons, h a (List.mem_cons_self), ih (fun b hb => h b (List.mem_cons_of_mem a hb))]
    cases f a with
    | error e => rfl
    | ok b =>
      cases as.mapM f with
      | error e => rfl
      | ok bs => rfl

/-- one pass of `FDD_mpe` with the stored vectors' rows permuted -/
theorem fddOne_perm (n nf : Nat) (hn : 0 < n) {σ τ : Nat → Nat} (hσ : PermOn n σ τ) (freq : Nat → K)
    (Sval : Nat → Nat → Nat → K) (U : Nat → Nat → Nat → Fdd.Cx K) (DF s : K)
    (huniq : ∀ m, fddOne n n nf freq Sval (svecPlace U) DF s = .ok m →
      ∀ i, i < n → i ≠ argmaxTo n (fun i => (svecPlace U 0 i m.pick.idx).normSq) →
        (svecPlace U 0 i m.pick.idx).normSq
          < (svecPlace U 0 (argmaxTo n (fun i => (svecPlace U 0 i m.pick.idx).normSq)) m.pick.idx).normSq) :
    fddOne n n nf freq Sval (svecPlace (fun k i r => U k (σ i) r)) DF s
      = (fddOne n n nf freq Sval (svecPlace U) DF s).map (permMode n σ) := by
  unfold fddOne at huniq ⊢
  cases hp : fddPick n n nf freq (Sval 0 0) (Sval 1 1) s DF with
  | error e => rfl
  | ok p =>
    rw [hp] at huniq
    have hu := huniq _ rfl
    show Except.ok _ = Except.ok _
    congr 1
    simp only [permMode]
    congr 1
    have e : (fun i => svecPlace (fun k i r => U k (σ i) r) 0 i p.idx)
        = fun i => (fun i => svecPlace U 0 i p.idx) (σ i) := rfl
    rw [e, normalise_perm hσ (fun i => svecPlace U 0 i p.idx) hu hn]
    cases Fdd.normalise n (fun i => svecPlace U 0 i p.idx) with
    | none => rfl
    | some v =>
      simp only [Option.map_some]
      congr 1
      apply List.map_congr_left
      intro i hi
      rw [getD_map_range n v 0 (σ i) (hσ.lt i (List.mem_range.mp hi))]

/-- **C08_perm_fdd_mpe — channel permutation, `SD_svalsvec` + `FDD_mpe`, whole result.**  `G'[i, j] = G[σ i, σ j]`
    on every line: every admissible recorded SVD `(U_k, S_k, V_k)` gives the admissible
    `(U_k[σ·, :], S_k, V_k[σ·, :])` — same singular values, hence the same `Sval` — and with it `FDD_mpe`
    returns, for every requested frequency, the same band, the same picked line and frequency, and the
    permuted unit-normalised shape; an exception of one run is the same exception of the other.
    Hypothesis beyond the property's premise (a tie): at every picked line the stored row has ONE component of
    largest magnitude (`np.argmax` takes the first on a tie, which a permutation may change; the two reported
    shapes then differ by a factor of modulus 1). -/
theorem C08_perm_fdd_mpe (n nf : Nat) (hn : 0 < n) (G : Nat → Nat → Nat → Fdd.Cx K) {σ τ : Nat → Nat}
    (hσ : PermOn n σ τ) (freq : Nat → K) (sq : Nat → Nat → K) (U : Nat → Nat → Nat → Fdd.Cx K)
    (sel : List K) (DF : K)
    (huniq : ∀ s ∈ sel, ∀ m, fddOne n n nf freq (svalPlace sq) (svecPlace U) DF s = .ok m →
      ∀ i, i < n → i ≠ argmaxTo n (fun i => (svecPlace U 0 i m.pick.idx).normSq) →
        (svecPlace U 0 i m.pick.idx).normSq
          < (svecPlace U 0 (argmaxTo n (fun i => (svecPlace U 0 i m.pick.idx).normSq)) m.pick.idx).normSq) :
    (∀ k (Uk Vk : Nat → Nat → Fdd.Cx K) (Sk : Nat → K),
      SvdLineOf n (fun i j => G i j k) Uk Vk Sk →
      SvdLineOf n (fun i j => G (σ i) (σ j) k) (fun i r => Uk (σ i) r) (fun i r => Vk (σ i) r) Sk) ∧
    fddMpe n n nf freq (svalPlace sq) (svecPlace (fun k i r => U k (σ i) r)) sel DF
      = (fddMpe n n nf freq (svalPlace sq) (svecPlace U) sel DF).map (List.map (permMode n σ)) := by
  refine ⟨fun _ _ _ _ h => h.perm hσ, ?_⟩
  unfold fddMpe
  exact mapM_map_except_mem _ _ (permMode n σ) sel
    (fun s hs => fddOne_perm n nf hn hσ freq (svalPlace sq) U DF s (huniq s hs))

omit [LinearOrder K] [IsStrictOrderedRing K] in
theorem sdEst_perm_grid (Y : Mat K) (σ : Nat → Nat) (dt : K) (nxseg nov : Nat) (tw tw2 : Nat → CxS K)
    (ew : Nat → K) :
    (sdEstPer (permRows σ Y) (permRows σ Y) dt nxseg nov tw).nf = (sdEstPer Y Y dt nxseg nov tw).nf ∧
    (sdEstPer (permRows σ Y) (permRows σ Y) dt nxseg nov tw).freq = (sdEstPer Y Y dt nxseg nov tw).freq ∧
    (sdEstCor (permRows σ Y) (permRows σ Y) dt nxseg tw tw2 ew).nf = (sdEstCor Y Y dt nxseg tw tw2 ew).nf ∧
    (sdEstCor (permRows σ Y) (permRows σ Y) dt nxseg tw tw2 ew).freq
      = (sdEstCor Y Y dt nxseg tw tw2 ew).freq :=
  ⟨rfl, rfl, rfl, rfl⟩

/-- **C08_perm_fdd_data — from the record to the result of `FDD_mpe`, both estimators.**  The channels of `Y`
    listed in the order `σ 0, σ 1, …`: the spectral array has rows and columns permuted (`C08_perm_sd`), same
    grid; recorded SVDs transported; `FDD_mpe` picks the same lines and returns the permuted shapes. -/
theorem C08_perm_fdd_data (Y : Mat K) (hn : 0 < Y.r) {σ τ : Nat → Nat} (hσ : PermOn Y.r σ τ) (dt : K)
    (nxseg nov : Nat) (tw tw2 : Nat → CxS K) (ew : Nat → K) (sq : Nat → Nat → K)
    (U : Nat → Nat → Nat → Fdd.Cx K) (sel : List K) (DF : K) :
    -- periodogram
    ((∀ k (Uk Vk : Nat → Nat → Fdd.Cx K) (Sk : Nat → K),
        SvdLineOf Y.r (fun i j => toCx ((sdEstPer Y Y dt nxseg nov tw).e i j k)) Uk Vk Sk →
        SvdLineOf Y.r (fun i j => toCx ((sdEstPer (permRows σ Y) (permRows σ Y) dt nxseg nov tw).e i j k))
          (fun i r => Uk (σ i) r) (fun i r => Vk (σ i) r) Sk) ∧
      ((∀ s ∈ sel, ∀ m, fddOne Y.r Y.r (sdEstPer Y Y dt nxseg nov tw).nf (sdEstPer Y Y dt nxseg nov tw).freq
          (svalPlace sq) (svecPlace U) DF s = .ok m →
        ∀ i, i < Y.r → i ≠ argmaxTo Y.r (fun i => (svecPlace U 0 i m.pick.idx).normSq) →
          (svecPlace U 0 i m.pick.idx).normSq
            < (svecPlace U 0 (argmaxTo Y.r (fun i => (svecPlace U 0 i m.pick.idx).normSq)) m.pick.idx).normSq) →
        fddMpe Y.r Y.r (sdEstPer (permRows σ Y) (permRows σ Y) dt nxseg nov tw).nf
            (sdEstPer (permRows σ Y) (permRows σ Y) dt nxseg nov tw).freq
            (svalPlace sq) (svecPlace (fun k i r => U k (σ i) r)) sel DF
          = (fddMpe Y.r Y.r (sdEstPer Y Y dt nxseg nov tw).nf (sdEstPer Y Y dt nxseg nov tw).freq
            (svalPlace sq) (svecPlace U) sel DF).map (List.map (permMode Y.r σ)))) ∧
    -- correlogram
    ((∀ k (Uk Vk : Nat → Nat → Fdd.Cx K) (Sk : Nat → K),
        SvdLineOf Y.r (fun i j => toCx ((sdEstCor Y Y dt nxseg tw tw2 ew).e i j k)) Uk Vk Sk →
        SvdLineOf Y.r (fun i j => toCx ((sdEstCor (permRows σ Y) (permRows σ Y) dt nxseg tw tw2 ew).e i j k))
          (fun i r => Uk (σ i) r) (fun i r => Vk (σ i) r) Sk) ∧
      ((∀ s ∈ sel, ∀ m, fddOne Y.r Y.r (sdEstCor Y Y dt nxseg tw tw2 ew).nf
          (sdEstCor Y Y dt nxseg tw tw2 ew).freq (svalPlace sq) (svecPlace U) DF s = .ok m →
        ∀ i, i < Y.r → i ≠ argmaxTo Y.r (fun i => (svecPlace U 0 i m.pick.idx).normSq) →
          (svecPlace U 0 i m.pick.idx).normSq
            < (svecPlace U 0 (argmaxTo Y.r (fun i => (svecPlace U 0 i m.pick.idx).normSq)) m.pick.idx).normSq) →
        fddMpe Y.r Y.r (sdEstCor (permRows σ Y) (permRows σ Y) dt nxseg tw tw2 ew).nf
            (sdEstCor (permRows σ Y) (permRows σ Y) dt nxseg tw tw2 ew).freq
            (svalPlace sq) (svecPlace (fun k i r => U k (σ i) r)) sel DF
          = (fddMpe Y.r Y.r (sdEstCor Y Y dt nxseg tw tw2 ew).nf (sdEstCor Y Y dt nxseg tw tw2 ew).freq
            (svalPlace sq) (svecPlace U) sel DF).map (List.map (permMode Y.r σ)))) := by
  refine ⟨⟨?_, ?_⟩, ⟨?_, ?_⟩⟩
  · intro k Uk Vk Sk h
    have e : (fun i j => toCx ((sdEstPer (permRows σ Y) (permRows σ Y) dt nxseg nov tw).e i j k))
        = fun i j => (fun i j => toCx ((sdEstPer Y Y dt nxseg nov tw).e i j k)) (σ i) (σ j) := by
      funext i j
      rw [(C08_perm_sd Y σ dt nxseg nov tw tw2 ew i j k).1]
    rw [e]
    exact h.perm hσ
  · intro hu
    obtain ⟨e1, e2, _, _⟩ := sdEst_perm_grid Y σ dt nxseg nov tw tw2 ew
    rw [e1, e2]
    exact (C08_perm_fdd_mpe Y.r (sdEstPer Y Y dt nxseg nov tw).nf hn (fun _ _ _ => 0) hσ
      (sdEstPer Y Y dt nxseg nov tw).freq sq U sel DF hu).2
  · intro k Uk Vk Sk h
    have e : (fun i j => toCx ((sdEstCor (permRows σ Y) (permRows σ Y) dt nxseg tw tw2 ew).e i j k))
        = fun i j => (fun i j => toCx ((sdEstCor Y Y dt nxseg tw tw2 ew).e i j k)) (σ i) (σ j) := by
      funext i j
      rw [(C08_perm_sd Y σ dt nxseg nov tw tw2 ew i j k).2]
    rw [e]
    exact h.perm hσ
  · intro hu
    obtain ⟨_, _, e3, e4⟩ := sdEst_perm_grid Y σ dt nxseg nov tw tw2 ew
    rw [e3, e4]
    exact (C08_perm_fdd_mpe Y.r (sdEstCor Y Y dt nxseg tw tw2 ew).nf hn (fun _ _ _ => 0) hσ
      (sdEstCor Y Y dt nxseg tw tw2 ew).freq sq U sel DF hu).2

end perm_fdd

/-! ## Non-vacuity: the diagonal instance of `C08Pipe` (`G_k = diag((k+2)², 1)`, `U_k = I`), the swap -/
section examples

example := C08_perm_fdd_mpe 2 6 (by decide) fG swpPerm (fun i => (i : Rat) / 2) fSq fI [1] 1
  (fun s hs m hm i hi hne => by
    -- the stored row at every line is `(1, 0)`: the largest component is attained once
    have hrow : ∀ k, (fun i => (svecPlace fI 0 i k).normSq) = fun i => if i = 0 then (1 : Rat) else 0 := by
      intro k; funext i
      by_cases h0 : i = 0
      · subst h0; simp [svecPlace, fI, Fdd.Cx.normSq, Fdd.Cx.conj]
      · have : ¬ (0 = i) := fun h => h0 h.symm
        simp [svecPlace, fI, Fdd.Cx.normSq, Fdd.Cx.conj, h0, this]
    have ha : argmaxTo 2 (fun i => (svecPlace fI 0 i m.pick.idx).normSq) = 0 := by
      rw [hrow]; decide +kernel
    rw [ha] at hne ⊢
    have e := congrFun (hrow m.pick.idx)
    rw [e i, e 0, if_neg hne, if_pos rfl]
    norm_num)
example := C08_perm_fdd_data PV.C13.exY (by decide) (σ := swp) (τ := swp) swpPerm
  (1/100 : Rat) 4 2 PV.C13.tw4 PV.C13.tw4 (fun t => 1 / ((t : Rat) + 1))

end examples

end PV.C08
