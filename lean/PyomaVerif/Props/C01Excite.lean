import PyomaVerif.Props.C01E2E
import PyomaVerif.Lemmas.Excitation
/-!
# C01 — the rank condition on the controllability factor, derived from the property's premises

The end-to-end theorems of `Props/C01E2E.lean` (and their table-level, stored-table and multi-setup
versions) take a right inverse `Γr` of the factor `Γ = gamMx …` as a hypothesis (`hΓ`).  The property
itself speaks about *an initial condition exciting all modes* and *a reference subset that still
observes all modes*.  This file replaces `hΓ` by exactly those premises:

* `C01_gamma_of_premises` — `A` invertible, the state sequence over the averaged samples spans the
  state space (`kryMx … * Xr = 1`), the reference rows are the free response of `(A, C_ref, x0)` and
  `(A, C_ref)` is observable with the `p+1` block rows of the Hankel matrix ⇒ `∃ Γr, Γ·Γr = 1`;
* `C01_excited_of_modal` — the spanning condition itself follows from a diagonalisation of `A` with
  pairwise distinct eigenvalues in which no modal coordinate of `x0` vanishes, as soon as there are
  at least `n` averaged samples (Vandermonde determinant; over `Cpx ℚ`, brought back to `ℚ` by taking
  real parts);
* `C01_e2e_cov_excited`, `C01_e2e_dat_excited` — the end-to-end statements with `hΓ` so replaced.
-/
set_option linter.unusedVariables false

namespace PV.C01Excite
open PV PV.Mat PV.Cov PV.FreeVib PV.Excite PV.C01E2E Matrix Finset

/-- **`Γ` is right invertible under the property's premises** (matrix form; see the file header). -/
theorem C01_gamma_of_premises {n : ℕ} (A Ainv : Matrix (Fin n) (Fin n) ℚ) (hA : A * Ainv = 1)
    (Cref : ℕ → Fin n → ℚ) (x0 : Fin n → ℚ) (Yref : Mat ℚ) (p : ℕ) (s : ℚ) (hs : s ≠ 0) (Ndat : ℕ)
    (hYref : ∀ b t, b < Yref.r → t < Ndat → Yref.e b t = Cref b ⬝ᵥ stateAt A x0 t)
    (Xr : Matrix (Fin (Ndat - p - (p + 1) - 1)) (Fin n) ℚ)
    (hX : kryMx A x0 (Ndat - p - (p + 1) - 1) * Xr = 1)
    (OL : Matrix (Fin n) (Fin ((p + 1) * Yref.r)) ℚ)
    (hO : OL * obsMx ((p + 1) * Yref.r) Yref.r A Cref = 1) :
    ∃ Γr : Matrix (Fin ((p + 1) * Yref.r)) (Fin n) ℚ,
      gamMx A x0 Yref p s Ndat ((p + 1) * Yref.r) * Γr = 1 :=
  gam_right_inv A Ainv hA Cref x0 Yref p s hs Ndat hYref Xr hX OL hO

theorem map_pow_ofR {n : ℕ} (A : Matrix (Fin n) (Fin n) ℚ) (t : ℕ) :
    (A.map ofR) ^ t = (A ^ t).map ofR := by
  have := map_pow (ofR.mapMatrix (m := Fin n)) A t
  simpa [RingHom.mapMatrix_apply] using this.symm

/-- the state sequence of the complexified system is the complexified state sequence -/
theorem kryMx_map {n : ℕ} (A : Matrix (Fin n) (Fin n) ℚ) (x0 : Fin n → ℚ) (T : ℕ) :
    kryMx (A.map ofR) (fun k => ofR (x0 k)) T = (kryMx A x0 T).map ofR := by
  funext k t
  simp only [kryMx, Matrix.of_apply, Matrix.map_apply, stateAt]
  rw [map_pow_ofR]
  exact (RingHom.map_mulVec ofR (A ^ t.1) x0 k).symm

/-- the observability matrix of the complexified pair is the complexified observability matrix -/
theorem obsMx_map {n : ℕ} (m l : ℕ) (A : Matrix (Fin n) (Fin n) ℚ) (C : ℕ → Fin n → ℚ) :
    obsMx m l (A.map ofR) (fun a k => ofR (C a k)) = (obsMx m l A C).map ofR := by
  funext I k
  simp only [obsMx, Matrix.of_apply, Matrix.map_apply, obsFn]
  rw [map_sum]
  apply Finset.sum_congr rfl; intro k' _
  rw [map_mul, map_pow_ofR]
  rfl

/-- **"Every mode is observed" gives observability.**  `A` (real) is diagonalised over `Cpx ℚ` by `V`
    with pairwise distinct eigenvalues and every eigenvector is seen by at least one of the `l` output
    rows (`C_a·V_k ≠ 0`); then `p ≥ n` block rows make the observability matrix left invertible over
    `ℚ` — the hypotheses `hObs` (all channels) and `hO` (reference channels) of the end-to-end
    theorems.  (`p ≥ n` is sufficient for every output count; the property's "observability index"
    can be smaller when several channels see the modes independently.) -/
theorem C01_observable_of_modal {n : ℕ} (l p : ℕ) (A : Matrix (Fin n) (Fin n) ℚ) (C : ℕ → Fin n → ℚ)
    (V Vinv : Matrix (Fin n) (Fin n) (Cpx ℚ)) (d : Fin n → Cpx ℚ)
    (hV : V * Vinv = 1) (hAV : A.map ofR * V = V * diagonal d) (hd : Function.Injective d)
    (hobs : ∀ k : Fin n, ∃ a, a < l ∧ ((fun j => ofR (C a j)) ⬝ᵥ fun j => V j k) ≠ 0) (hp : n ≤ p) :
    ∃ OL : Matrix (Fin n) (Fin (p * l)) ℚ, OL * obsMx (p * l) l A C = 1 := by
  apply left_inv_of_mulVec_inj
  intro v hv
  have hc : obsMx (p * l) l (A.map ofR) (fun a k => ofR (C a k)) *ᵥ (fun k => ofR (v k)) = 0 := by
    rw [obsMx_map]
    funext I
    have := RingHom.map_mulVec ofR (obsMx (p * l) l A C) v I
    rw [hv] at this
    simp only [Pi.zero_apply, map_zero] at this
    exact this.symm
  have h0 := obs_inj_of_modal (A.map ofR) V Vinv d hV hAV hd (fun a k => ofR (C a k)) hobs hp _ hc
  funext k
  exact congrArg Cpx.re (congrFun h0 k)

/-- **"The initial condition excites all modes" gives the spanning state sequence.**  `A` (real)
    is diagonalised over `Cpx ℚ` by `V` with pairwise distinct eigenvalues `d`, and no modal
    coordinate `(V⁻¹·x0)_i` vanishes; then any `T ≥ n` consecutive states span the state space over
    `ℚ` — the hypothesis `hX` of `C01_gamma_of_premises`. -/
theorem C01_excited_of_modal {n : ℕ} (A : Matrix (Fin n) (Fin n) ℚ) (x0 : Fin n → ℚ)
    (V Vinv : Matrix (Fin n) (Fin n) (Cpx ℚ)) (d : Fin n → Cpx ℚ)
    (hV : V * Vinv = 1) (hAV : A.map ofR * V = V * diagonal d) (hd : Function.Injective d)
    (hc : ∀ i, (Vinv *ᵥ (fun k => ofR (x0 k))) i ≠ 0) (T : ℕ) (hT : n ≤ T) :
    ∃ Xr : Matrix (Fin T) (Fin n) ℚ, kryMx A x0 T * Xr = 1 := by
  obtain ⟨Z, hZ⟩ := krylov_right_inv (A.map ofR) V Vinv d hV hAV hd (fun k => ofR (x0 k)) hc T hT
  rw [kryMx_map] at hZ
  exact ⟨Z.map Cpx.re, right_inv_re _ Z hZ⟩

/-- **C01 end to end, covariance-driven, from the property's premises**: `C01_e2e_cov` with the
    hypothesis on `Γ` replaced by: `A` invertible, spanning state sequence, reference rows = free
    response of `(A, C_ref, x0)` with `(A, C_ref)` observable in `p+1` block rows, `s ≠ 0`. -/
theorem C01_e2e_cov_excited {n : ℕ} (A Ainv : Matrix (Fin n) (Fin n) ℚ) (hA : A * Ainv = 1)
    (C Cref : ℕ → Fin n → ℚ) (x0 : Fin n → ℚ)
    (Y Yref : Mat ℚ) (p : ℕ) (s : ℚ) (hs : s ≠ 0) (hl : 0 < Y.r) (hY : IsFreeResponse A C x0 Y)
    (hYref : ∀ b t, b < Yref.r → t < Y.c → Yref.e b t = Cref b ⬝ᵥ stateAt A x0 t)
    (Xr : Matrix (Fin (Y.c - p - (p + 1) - 1)) (Fin n) ℚ)
    (hX : kryMx A x0 (Y.c - p - (p + 1) - 1) * Xr = 1)
    (OL : Matrix (Fin n) (Fin ((p + 1) * Yref.r)) ℚ)
    (hO : OL * obsMx ((p + 1) * Yref.r) Yref.r A Cref = 1)
    (Olp : Matrix (Fin n) (Fin (p * Y.r)) ℚ) (hObs : Olp * obsMx (p * Y.r) Y.r A C = 1)
    (U V : Mat ℚ) (S sq : ℕ → ℚ) (N : ℕ)
    (hsvd : SvdOf (hankMM Y Yref p s) U V S N) (hsq : SqrtOf sq S N)
    (Q R Rinv : Mat ℚ) (hqr : QrC (upPart (obsOf U sq N) Y.r) Q R Rinv (p * Y.r) N n)
    (Pinv : Mat ℚ) (hpinv : PinvC (obsOf U sq n) Pinv (p * Y.r) n Y.r)
    (Vf Vl : Mat (Cpx ℚ)) (lamf laml : ℕ → Cpx ℚ)
    (heigf : EigOf n (fastA Rinv Q (dnPart (obsOf U sq N) Y.r) n) Vf lamf)
    (heigl : EigOf n (legacyA Pinv (obsOf U sq n) Y.r) Vl laml)
    (dt : ℝ) (hdt : 0 < dt) (lam : Cpx ℚ) (w : Fin n → Cpx ℚ) (mu : ℂ) (hm : Mode A dt lam w mu) :
    (n ≤ N ∧ (∀ t, t < n → S t ≠ 0) ∧ (∀ t, n ≤ t → t < N → S t = 0)) ∧
    Recovered A C Y.r dt lam w mu (fastA Rinv Q (dnPart (obsOf U sq N) Y.r) n)
        (outC (obsOf U sq N) Y.r n) Vf lamf ∧
    Recovered A C Y.r dt lam w mu (legacyA Pinv (obsOf U sq n) Y.r)
        (outC (obsOf U sq n) Y.r n) Vl laml := by
  obtain ⟨Γr, hΓ⟩ := C01_gamma_of_premises A Ainv hA Cref x0 Yref p s hs Y.c hYref Xr hX OL hO
  exact C01_e2e_cov A C x0 Y Yref p s hl hY Γr hΓ Olp hObs U V S sq N hsvd hsq Q R Rinv hqr Pinv hpinv
    Vf Vl lamf laml heigf heigl dt hdt lam w mu hm

/-- **C01 end to end, data-driven, from the property's premises** (`C01_e2e_dat` likewise). -/
theorem C01_e2e_dat_excited {n : ℕ} (A Ainv : Matrix (Fin n) (Fin n) ℚ) (hA : A * Ainv = 1)
    (C Cref : ℕ → Fin n → ℚ) (x0 : Fin n → ℚ)
    (Y Yref : Mat ℚ) (p : ℕ) (s : ℚ) (hs : s ≠ 0) (hl : 0 < Y.r) (hY : IsFreeResponse A C x0 Y)
    (hYref : ∀ b t, b < Yref.r → t < Y.c → Yref.e b t = Cref b ⬝ᵥ stateAt A x0 t)
    (Xr : Matrix (Fin (Y.c - p - (p + 1) - 1)) (Fin n) ℚ)
    (hX : kryMx A x0 (Y.c - p - (p + 1) - 1) * Xr = 1)
    (OL : Matrix (Fin n) (Fin ((p + 1) * Yref.r)) ℚ)
    (hO : OL * obsMx ((p + 1) * Yref.r) Yref.r A Cref = 1)
    (Olp : Matrix (Fin n) (Fin (p * Y.r)) ℚ) (hObs : Olp * obsMx (p * Y.r) Y.r A C = 1)
    (Rf : Mat ℚ) (hRc : Rf.c = (Yref.r + Y.r) * (p + 1))
    (hdq : DatQr (hankYs Y Yref p s) Rf ((p + 1) * Yref.r) ((p + 1) * Y.r) (Y.c - p - (p + 1) - 1))
    (U V : Mat ℚ) (S sq : ℕ → ℚ) (N : ℕ)
    (hsvd : SvdOf (hankDatOfR Rf Yref.r p) U V S N) (hsq : SqrtOf sq S N)
    (Q R Rinv : Mat ℚ) (hqr : QrC (upPart (obsOf U sq N) Y.r) Q R Rinv (p * Y.r) N n)
    (Pinv : Mat ℚ) (hpinv : PinvC (obsOf U sq n) Pinv (p * Y.r) n Y.r)
    (Vf Vl : Mat (Cpx ℚ)) (lamf laml : ℕ → Cpx ℚ)
    (heigf : EigOf n (fastA Rinv Q (dnPart (obsOf U sq N) Y.r) n) Vf lamf)
    (heigl : EigOf n (legacyA Pinv (obsOf U sq n) Y.r) Vl laml)
    (dt : ℝ) (hdt : 0 < dt) (lam : Cpx ℚ) (w : Fin n → Cpx ℚ) (mu : ℂ) (hm : Mode A dt lam w mu) :
    (n ≤ N ∧ (∀ t, t < n → S t ≠ 0) ∧ (∀ t, n ≤ t → t < N → S t = 0)) ∧
    Recovered A C Y.r dt lam w mu (fastA Rinv Q (dnPart (obsOf U sq N) Y.r) n)
        (outC (obsOf U sq N) Y.r n) Vf lamf ∧
    Recovered A C Y.r dt lam w mu (legacyA Pinv (obsOf U sq n) Y.r)
        (outC (obsOf U sq n) Y.r n) Vl laml := by
  obtain ⟨Γr, hΓ⟩ := C01_gamma_of_premises A Ainv hA Cref x0 Yref p s hs Y.c hYref Xr hX OL hO
  exact C01_e2e_dat A C x0 Y Yref p s hl hY Γr hΓ Olp hObs Rf hRc hdq U V S sq N hsvd hsq Q R Rinv hqr
    Pinv hpinv Vf Vl lamf laml heigf heigl dt hdt lam w mu hm

/-- **A sampled system with non-zero poles is invertible** (over `ℚ`, from the diagonalisation over
    `Cpx ℚ`: `A⁻¹ = Re(V·D⁻¹·V⁻¹)`). -/
theorem C01_invertible_of_modal {n : ℕ} (A : Matrix (Fin n) (Fin n) ℚ)
    (V Vinv : Matrix (Fin n) (Fin n) (Cpx ℚ)) (d : Fin n → Cpx ℚ)
    (hV : V * Vinv = 1) (hAV : A.map ofR * V = V * diagonal d) (hnz : ∀ i, d i ≠ 0) :
    ∃ Ainv : Matrix (Fin n) (Fin n) ℚ, A * Ainv = 1 := by
  refine ⟨(V * diagonal (fun i => (d i)⁻¹) * Vinv).map Cpx.re, right_inv_re A _ ?_⟩
  have hdd : diagonal d * diagonal (fun i => (d i)⁻¹) = (1 : Matrix (Fin n) (Fin n) (Cpx ℚ)) := by
    rw [diagonal_mul_diagonal]
    have : (fun i => d i * (d i)⁻¹) = fun _ => (1 : Cpx ℚ) := by
      funext i; exact mul_inv_cancel₀ (hnz i)
    rw [this, diagonal_one]
  calc A.map ofR * (V * diagonal (fun i => (d i)⁻¹) * Vinv)
      = (A.map ofR * V) * diagonal (fun i => (d i)⁻¹) * Vinv := by simp only [Matrix.mul_assoc]
    _ = V * (diagonal d * diagonal (fun i => (d i)⁻¹)) * Vinv := by rw [hAV]; simp only [Matrix.mul_assoc]
    _ = 1 := by rw [hdd, Matrix.mul_one, hV]

/-- **C01 end to end, covariance-driven, from modal premises only.**  Besides the recorded-factor
    contracts and the observability of `(A, C)` with `p` block rows (the property's `br ≥ index + 1`),
    the premises are the property's own: `A` diagonalisable with pairwise distinct, non-zero poles `d`;
    no modal coordinate of `x0` vanishes (all modes excited); every mode seen by a reference channel;
    at least `n` averaged samples and `p + 1 ≥ n` block rows of references. -/
theorem C01_e2e_cov_modal {n : ℕ} (A : Matrix (Fin n) (Fin n) ℚ) (C Cref : ℕ → Fin n → ℚ)
    (x0 : Fin n → ℚ) (Vm Vminv : Matrix (Fin n) (Fin n) (Cpx ℚ)) (d : Fin n → Cpx ℚ)
    (hVm : Vm * Vminv = 1) (hAV : A.map ofR * Vm = Vm * diagonal d) (hd : Function.Injective d)
    (hnz : ∀ i, d i ≠ 0) (hexc : ∀ i, (Vminv *ᵥ (fun k => ofR (x0 k))) i ≠ 0)
    (Y Yref : Mat ℚ) (p : ℕ) (s : ℚ) (hs : s ≠ 0) (hl : 0 < Y.r) (hY : IsFreeResponse A C x0 Y)
    (hYref : ∀ b t, b < Yref.r → t < Y.c → Yref.e b t = Cref b ⬝ᵥ stateAt A x0 t)
    (hobsRef : ∀ k : Fin n, ∃ b, b < Yref.r ∧ ((fun j => ofR (Cref b j)) ⬝ᵥ fun j => Vm j k) ≠ 0)
    (hnp : n ≤ p + 1) (hnT : n ≤ Y.c - p - (p + 1) - 1)
    (Olp : Matrix (Fin n) (Fin (p * Y.r)) ℚ) (hObs : Olp * obsMx (p * Y.r) Y.r A C = 1)
    (U V : Mat ℚ) (S sq : ℕ → ℚ) (N : ℕ)
    (hsvd : SvdOf (hankMM Y Yref p s) U V S N) (hsq : SqrtOf sq S N)
    (Q R Rinv : Mat ℚ) (hqr : QrC (upPart (obsOf U sq N) Y.r) Q R Rinv (p * Y.r) N n)
    (Pinv : Mat ℚ) (hpinv : PinvC (obsOf U sq n) Pinv (p * Y.r) n Y.r)
    (Vf Vl : Mat (Cpx ℚ)) (lamf laml : ℕ → Cpx ℚ)
    (heigf : EigOf n (fastA Rinv Q (dnPart (obsOf U sq N) Y.r) n) Vf lamf)
    (heigl : EigOf n (legacyA Pinv (obsOf U sq n) Y.r) Vl laml)
    (dt : ℝ) (hdt : 0 < dt) (lam : Cpx ℚ) (w : Fin n → Cpx ℚ) (mu : ℂ) (hm : Mode A dt lam w mu) :
    (n ≤ N ∧ (∀ t, t < n → S t ≠ 0) ∧ (∀ t, n ≤ t → t < N → S t = 0)) ∧
    Recovered A C Y.r dt lam w mu (fastA Rinv Q (dnPart (obsOf U sq N) Y.r) n)
        (outC (obsOf U sq N) Y.r n) Vf lamf ∧
    Recovered A C Y.r dt lam w mu (legacyA Pinv (obsOf U sq n) Y.r)
        (outC (obsOf U sq n) Y.r n) Vl laml := by
  obtain ⟨Ainv, hA⟩ := C01_invertible_of_modal A Vm Vminv d hVm hAV hnz
  obtain ⟨Xr, hX⟩ := C01_excited_of_modal A x0 Vm Vminv d hVm hAV hd hexc _ hnT
  obtain ⟨OL, hO⟩ := C01_observable_of_modal Yref.r (p + 1) A Cref Vm Vminv d hVm hAV hd hobsRef hnp
  exact C01_e2e_cov_excited A Ainv hA C Cref x0 Y Yref p s hs hl hY hYref Xr hX OL hO Olp hObs U V S sq N
    hsvd hsq Q R Rinv hqr Pinv hpinv Vf Vl lamf laml heigf heigl dt hdt lam w mu hm

/-- **C01 end to end, data-driven, from modal premises only** (as `C01_e2e_cov_modal`). -/
theorem C01_e2e_dat_modal {n : ℕ} (A : Matrix (Fin n) (Fin n) ℚ) (C Cref : ℕ → Fin n → ℚ)
    (x0 : Fin n → ℚ) (Vm Vminv : Matrix (Fin n) (Fin n) (Cpx ℚ)) (d : Fin n → Cpx ℚ)
    (hVm : Vm * Vminv = 1) (hAV : A.map ofR * Vm = Vm * diagonal d) (hd : Function.Injective d)
    (hnz : ∀ i, d i ≠ 0) (hexc : ∀ i, (Vminv *ᵥ (fun k => ofR (x0 k))) i ≠ 0)
    (Y Yref : Mat ℚ) (p : ℕ) (s : ℚ) (hs : s ≠ 0) (hl : 0 < Y.r) (hY : IsFreeResponse A C x0 Y)
    (hYref : ∀ b t, b < Yref.r → t < Y.c → Yref.e b t = Cref b ⬝ᵥ stateAt A x0 t)
    (hobsRef : ∀ k : Fin n, ∃ b, b < Yref.r ∧ ((fun j => ofR (Cref b j)) ⬝ᵥ fun j => Vm j k) ≠ 0)
    (hnp : n ≤ p + 1) (hnT : n ≤ Y.c - p - (p + 1) - 1)
    (Olp : Matrix (Fin n) (Fin (p * Y.r)) ℚ) (hObs : Olp * obsMx (p * Y.r) Y.r A C = 1)
    (Rf : Mat ℚ) (hRc : Rf.c = (Yref.r + Y.r) * (p + 1))
    (hdq : DatQr (hankYs Y Yref p s) Rf ((p + 1) * Yref.r) ((p + 1) * Y.r) (Y.c - p - (p + 1) - 1))
    (U V : Mat ℚ) (S sq : ℕ → ℚ) (N : ℕ)
    (hsvd : SvdOf (hankDatOfR Rf Yref.r p) U V S N) (hsq : SqrtOf sq S N)
    (Q R Rinv : Mat ℚ) (hqr : QrC (upPart (obsOf U sq N) Y.r) Q R Rinv (p * Y.r) N n)
    (Pinv : Mat ℚ) (hpinv : PinvC (obsOf U sq n) Pinv (p * Y.r) n Y.r)
    (Vf Vl : Mat (Cpx ℚ)) (lamf laml : ℕ → Cpx ℚ)
    (heigf : EigOf n (fastA Rinv Q (dnPart (obsOf U sq N) Y.r) n) Vf lamf)
    (heigl : EigOf n (legacyA Pinv (obsOf U sq n) Y.r) Vl laml)
    (dt : ℝ) (hdt : 0 < dt) (lam : Cpx ℚ) (w : Fin n → Cpx ℚ) (mu : ℂ) (hm : Mode A dt lam w mu) :
    (n ≤ N ∧ (∀ t, t < n → S t ≠ 0) ∧ (∀ t, n ≤ t → t < N → S t = 0)) ∧
    Recovered A C Y.r dt lam w mu (fastA Rinv Q (dnPart (obsOf U sq N) Y.r) n)
        (outC (obsOf U sq N) Y.r n) Vf lamf ∧
    Recovered A C Y.r dt lam w mu (legacyA Pinv (obsOf U sq n) Y.r)
        (outC (obsOf U sq n) Y.r n) Vl laml := by
  obtain ⟨Ainv, hA⟩ := C01_invertible_of_modal A Vm Vminv d hVm hAV hnz
  obtain ⟨Xr, hX⟩ := C01_excited_of_modal A x0 Vm Vminv d hVm hAV hd hexc _ hnT
  obtain ⟨OL, hO⟩ := C01_observable_of_modal Yref.r (p + 1) A Cref Vm Vminv d hVm hAV hd hobsRef hnp
  exact C01_e2e_dat_excited A Ainv hA C Cref x0 Y Yref p s hs hl hY hYref Xr hX OL hO Olp hObs Rf hRc hdq
    U V S sq N hsvd hsq Q R Rinv hqr Pinv hpinv Vf Vl lamf laml heigf heigl dt hdt lam w mu hm

/-! ## Non-vacuity: the instance of `C01E2E.Ex` satisfies the new premises -/
namespace Ex
open PV.C01E2E.Ex

def Ainv : Matrix (Fin 2) (Fin 2) ℚ :=
  toMx 2 2 fun i j => if i = 0 ∧ j = 1 then 4/3 else if i = 1 ∧ j = 0 then -4/3 else 0
def Xr : Matrix (Fin (Y.c - 1 - (1 + 1) - 1)) (Fin 2) ℚ :=
  toMx 2 2 fun i j => if i = j then (if i = 0 then 1 else 4/3) else 0
def OL : Matrix (Fin 2) (Fin ((1 + 1) * Y.r)) ℚ := toMx 2 4 fun i j => if i = j then 5/4 else 0

theorem hA : A * Ainv = 1 := by decide +kernel

theorem hYref : ∀ b t, b < Y.r → t < Y.c → Y.e b t = C b ⬝ᵥ stateAt A x0 t := by
  intro b t hb ht
  rw [free b t hb ht]; rfl

theorem hX : (kryMx A x0 (Y.c - 1 - (1 + 1) - 1) * Xr : Matrix (Fin 2) (Fin 2) ℚ) = 1 := by
  have : kryMx A x0 (Y.c - 1 - (1 + 1) - 1)
      = Matrix.of fun (k : Fin 2) (t : Fin 2) => xs t.1 k.1 := by
    ext k t
    simp only [kryMx, state_eq, Matrix.of_apply]
    rfl
  rw [this]
  decide +kernel

theorem hO : (OL * obsMx ((1 + 1) * Y.r) Y.r A C : Matrix (Fin 2) (Fin 2) ℚ) = 1 := by
  have : obsMx ((1 + 1) * Y.r) Y.r A C = Matrix.of fun (i : Fin 4) (k : Fin 2) =>
      ∑ k', C (i.1 % 2) k' * (A ^ (i.1 / 2)) k' k := by
    ext i k
    rfl
  rw [this]
  decide +kernel

/-- modal data of the instance: eigenvalues `±¾i`, eigenvectors `(1, ∓i)`, modal coordinates `(½, ½)` -/
def Vm : Matrix (Fin 2) (Fin 2) (Cpx ℚ) :=
  fun i j => if i = 0 then ⟨1, 0⟩ else if j = 0 then ⟨0, -1⟩ else ⟨0, 1⟩
def Vminv : Matrix (Fin 2) (Fin 2) (Cpx ℚ) :=
  fun i j => if j = 0 then ⟨1/2, 0⟩ else if i = 0 then ⟨0, 1/2⟩ else ⟨0, -1/2⟩
def dm : Fin 2 → Cpx ℚ := fun i => if i = 0 then ⟨0, 3/4⟩ else ⟨0, -3/4⟩

/-- the premises of `C01_excited_of_modal` hold together for the instance -/
example : ∃ Xr : Matrix (Fin 2) (Fin 2) ℚ, kryMx A x0 2 * Xr = 1 :=
  C01_excited_of_modal A x0 Vm Vminv dm (by decide +kernel) (by decide +kernel) (by decide +kernel)
    (by decide +kernel) 2 (le_refl 2)

/-- **all premises of `C01_e2e_cov_modal` hold together**: the instance's mode is recovered through both
    routines from the modal premises (poles `±¾i` distinct and non-zero, modal coordinates `(½, ½)`, both
    modes seen by reference channel 0, `n = 2 ≤ p + 1 = 2`, `n = 2 ≤ 2` averaged samples). -/
example :
    (2 ≤ 2 ∧ (∀ t, t < 2 → S t ≠ 0) ∧ (∀ t, 2 ≤ t → t < 2 → S t = 0)) ∧
    Recovered A C Y.r (1 / 100) lam w mu (fastA Rinv Q (dnPart (obsOf U sq 2) Y.r) 2)
        (outC (obsOf U sq 2) Y.r 2) Vec lams ∧
    Recovered A C Y.r (1 / 100) lam w mu (legacyA Pinv (obsOf U sq 2) Y.r)
        (outC (obsOf U sq 2) Y.r 2) Vec lams :=
  C01_e2e_cov_modal A C C x0 Vm Vminv dm (by decide +kernel) (by decide +kernel) (by decide +kernel)
    (by decide +kernel) (by decide +kernel) Y Y 1 1 (by norm_num) (by decide) free hYref
    (by decide +kernel) (by decide) (by decide) Olp hObs U V S sq 2 hsvd hsq Q R Rinv hqr Pinv hpinv
    Vec Vec lams lams (eig_of _ (by decide +kernel)) (eig_of _ (by decide +kernel)) (1 / 100)
    (by norm_num) lam w mu mode

/-- observability of the instance from its modal data, with `p = 2 ≥ n` block rows -/
example : ∃ OL : Matrix (Fin 2) (Fin (2 * 2)) ℚ, OL * obsMx (2 * 2) 2 A C = 1 :=
  C01_observable_of_modal 2 2 A C Vm Vminv dm (by decide +kernel) (by decide +kernel) (by decide +kernel)
    (by decide +kernel) (le_refl 2)

/-- all premises of `C01_gamma_of_premises` hold together for the instance -/
example : ∃ Γr : Matrix (Fin ((1 + 1) * Y.r)) (Fin 2) ℚ,
    gamMx A x0 Y 1 1 Y.c ((1 + 1) * Y.r) * Γr = 1 :=
  C01_gamma_of_premises A Ainv hA C x0 Y 1 1 (by norm_num) Y.c hYref Xr hX OL hO

end Ex
end PV.C01Excite
