import PyomaVerif.Props.C01E2E
import PyomaVerif.Lemmas.Excitation
/-!
# C01 — the rank condition on the controllability factor, derived from the property's premises

The end-to-end theorems of `Props/C01E2E.lean` (and their table-level, stored-table and multi-setup
versions) take a right inverse `Γr` of the factor `Γ = gamMx …` as a hypothesis (`hΓ`).  The property
itself speaks about *an initial condition exciting all modes* and *a reference subset that still
observes all modes*.  This file replaces `hΓ` by exactly those premises:

* `C01_gamma_of_premises` — `A` invertible, the state sequence over the averaged samples spans the
  state space (`kryMx … * Xr = 1`), the reference rows are the free response of `(A, C_ref, x0)` and
  `(A, C_ref)` is observable with the `p+1` block rows of the Hankel matrix ⇒ `∃ Γr, Γ·Γr = 1`;
* `C01_excited_of_modal` — the spanning condition itself follows from a diagonalisation of `A` with
  pairwise distinct eigenvalues in which no modal coordinate of `x0` vanishes, as soon as there are
  at least `n` averaged samples (Vandermonde determinant; over `Cpx ℚ`, brought back to `ℚ` by taking
  real parts);
* `C01_e2e_cov_excited`, `C01_e2e_dat_excited` — the end-to-end statements with `hΓ` so replaced.
-/
set_option linter.unusedVariables false

namespace PV.C01Excite
open PV PV.Mat PV.Cov PV.FreeVib PV.Excite PV.C01E2E Matrix Finset

/-- **`Γ` is right invertible under the property's premises** (matrix form; see the file header). -/
theorem C01_gamma_of_premises {n : ℕ} (A Ainv : Matrix (Fin n) (Fin n) ℚ) (hA : A * Ainv = 1)
    (Cref : ℕ → Fin n → ℚ) (x0 : Fin n → ℚ) (Yref : Mat ℚ) (p : ℕ) (s : ℚ) (hs : s ≠ 0) (Ndat : ℕ)
    (hYref : ∀ b t, b < Yref.r → t < Ndat → Yref.e b t = Cref b ⬝ᵥ stateAt A x0 t)
    (Xr : Matrix (Fin (Ndat - p - (p + 1) - 1)) (Fin n) ℚ)
    (hX : kryMx A x0 (Ndat - p - (p + 1) - 1) * Xr = 1)
    (OL : Matrix (Fin n) (Fin ((p + 1) * Yref.r)) ℚ)
    (hO : OL * obsMx ((p + 1) * Yref.r) Yref.r A Cref = 1) :
    ∃ Γr : Matrix (Fin ((p + 1) * Yref.r)) (Fin n) ℚ,
      gamMx A x0 Yref p s Ndat ((p + 1) * Yref.r) * Γr = 1 :=
  gam_right_inv A Ainv hA Cref x0 Yref p s hs Ndat hYref Xr hX OL hO

/-- the state sequence of the complexified system is the complexified state sequence -/
theorem kryMx_map {n : ℕ} (A : Matrix (Fin n) (Fin n) ℚ) (x0 : Fin n → ℚ) (T : ℕ) :
    kryMx (A.map ofR) (fun k => ofR (x0 k)) T = (kryMx A x0 T).map ofR := by
  funext k t
  simp only [kryMx, Matrix.of_apply, Matrix.map_apply, stateAt]
  have h1 : (A.map ofR) ^ t.1 = (A ^ t.1).map ofR := by
    have := map_pow (ofR.mapMatrix (m := Fin n)) A t.1
    simpa [RingHom.mapMatrix_apply] using this.symm
  rw [h1]
  exact (RingHom.map_mulVec ofR (A ^ t.1) x0 k).symm

/-- **"The initial condition excites all modes" gives the spanning state sequence.**  `A` (real)
    is diagonalised over `Cpx ℚ` by `V` with pairwise distinct eigenvalues `d`, and no modal
    coordinate `(V⁻¹·x0)_i` vanishes; then any `T ≥ n` consecutive states span the state space over
    `ℚ` — the hypothesis `hX` of `C01_gamma_of_premises`. -/
theorem C01_excited_of_modal {n : ℕ} (A : Matrix (Fin n) (Fin n) ℚ) (x0 : Fin n → ℚ)
    (V Vinv : Matrix (Fin n) (Fin n) (Cpx ℚ)) (d : Fin n → Cpx ℚ)
    (hV : V * Vinv = 1) (hAV : A.map ofR * V = V * diagonal d) (hd : Function.Injective d)
    (hc : ∀ i, (Vinv *ᵥ (fun k => ofR (x0 k))) i ≠ 0) (T : ℕ) (hT : n ≤ T) :
    ∃ Xr : Matrix (Fin T) (Fin n) ℚ, kryMx A x0 T * Xr = 1 := by
  obtain ⟨Z, hZ⟩ := krylov_right_inv (A.map ofR) V Vinv d hV hAV hd (fun k => ofR (x0 k)) hc T hT
  rw [kryMx_map] at hZ
  exact ⟨Z.map Cpx.re, right_inv_re _ Z hZ⟩

/-- **C01 end to end, covariance-driven, from the property's premises**: `C01_e2e_cov` with the
    hypothesis on `Γ` replaced by: `A` invertible, spanning state sequence, reference rows = free
    response of `(A, C_ref, x0)` with `(A, C_ref)` observable in `p+1` block rows, `s ≠ 0`. -/
theorem C01_e2e_cov_excited {n : ℕ} (A Ainv : Matrix (Fin n) (Fin n) ℚ) (hA : A * Ainv = 1)
    (C Cref : ℕ → Fin n → ℚ) (x0 : Fin n → ℚ)
    (Y Yref : Mat ℚ) (p : ℕ) (s : ℚ) (hs : s ≠ 0) (hl : 0 < Y.r) (hY : IsFreeResponse A C x0 Y)
    (hYref : ∀ b t, b < Yref.r → t < Y.c → Yref.e b t = Cref b ⬝ᵥ stateAt A x0 t)
    (Xr : Matrix (Fin (Y.c - p - (p + 1) - 1)) (Fin n) ℚ)
    (hX : kryMx A x0 (Y.c - p - (p + 1) - 1) * Xr = 1)
    (OL : Matrix (Fin n) (Fin ((p + 1) * Yref.r)) ℚ)
    (hO : OL * obsMx ((p + 1) * Yref.r) Yref.r A Cref = 1)
    (Olp : Matrix (Fin n) (Fin (p * Y.r)) ℚ) (hObs : Olp * obsMx (p * Y.r) Y.r A C = 1)
    (U V : Mat ℚ) (S sq : ℕ → ℚ) (N : ℕ)
    (hsvd : SvdOf (hankMM Y Yref p s) U V S N) (hsq : SqrtOf sq S N)
    (Q R Rinv : Mat ℚ) (hqr : QrC (upPart (obsOf U sq N) Y.r) Q R Rinv (p * Y.r) N n)
    (Pinv : Mat ℚ) (hpinv : PinvC (obsOf U sq n) Pinv (p * Y.r) n Y.r)
    (Vf Vl : Mat (Cpx ℚ)) (lamf laml : ℕ → Cpx ℚ)
    (heigf : EigOf n (fastA Rinv Q (dnPart (obsOf U sq N) Y.r) n) Vf lamf)
    (heigl : EigOf n (legacyA Pinv (obsOf U sq n) Y.r) Vl laml)
    (dt : ℝ) (hdt : 0 < dt) (lam : Cpx ℚ) (w : Fin n → Cpx ℚ) (mu : ℂ) (hm : Mode A dt lam w mu) :
    (n ≤ N ∧ (∀ t, t < n → S t ≠ 0) ∧ (∀ t, n ≤ t → t < N → S t = 0)) ∧
    Recovered A C Y.r dt lam w mu (fastA Rinv Q (dnPart (obsOf U sq N) Y.r) n)
        (outC (obsOf U sq N) Y.r n) Vf lamf ∧
    Recovered A C Y.r dt lam w mu (legacyA Pinv (obsOf U sq n) Y.r)
        (outC (obsOf U sq n) Y.r n) Vl laml := by
  obtain ⟨Γr, hΓ⟩ := C01_gamma_of_premises A Ainv hA Cref x0 Yref p s hs Y.c hYref Xr hX OL hO
  exact C01_e2e_cov A C x0 Y Yref p s hl hY Γr hΓ Olp hObs U V S sq N hsvd hsq Q R Rinv hqr Pinv hpinv
    Vf Vl lamf laml heigf heigl dt hdt lam w mu hm

/-- **C01 end to end, data-driven, from the property's premises** (`C01_e2e_dat` likewise). -/
theorem C01_e2e_dat_excited {n : ℕ} (A Ainv : Matrix (Fin n) (Fin n) ℚ) (hA : A * Ainv = 1)
    (C Cref : ℕ → Fin n → ℚ) (x0 : Fin n → ℚ)
    (Y Yref : Mat ℚ) (p : ℕ) (s : ℚ) (hs : s ≠ 0) (hl : 0 < Y.r) (hY : IsFreeResponse A C x0 Y)
    (hYref : ∀ b t, b < Yref.r → t < Y.c → Yref.e b t = Cref b ⬝ᵥ stateAt A x0 t)
    (Xr : Matrix (Fin (Y.c - p - (p + 1) - 1)) (Fin n) ℚ)
    (hX : kryMx A x0 (Y.c - p - (p + 1) - 1) * Xr = 1)
    (OL : Matrix (Fin n) (Fin ((p + 1) * Yref.r)) ℚ)
    (hO : OL * obsMx ((p + 1) * Yref.r) Yref.r A Cref = 1)
    (Olp : Matrix (Fin n) (Fin (p * Y.r)) ℚ) (hObs : Olp * obsMx (p * Y.r) Y.r A C = 1)
    (Rf : Mat ℚ) (hRc : Rf.c = (Yref.r + Y.r) * (p + 1))
    (hdq : DatQr (hankYs Y Yref p s) Rf ((p + 1) * Yref.r) ((p + 1) * Y.r) (Y.c - p - (p + 1) - 1))
    (U V : Mat ℚ) (S sq : ℕ → ℚ) (N : ℕ)
    (hsvd : SvdOf (hankDatOfR Rf Yref.r p) U V S N) (hsq : SqrtOf sq S N)
    (Q R Rinv : Mat ℚ) (hqr : QrC (upPart (obsOf U sq N) Y.r) Q R Rinv (p * Y.r) N n)
    (Pinv : Mat ℚ) (hpinv : PinvC (obsOf U sq n) Pinv (p * Y.r) n Y.r)
    (Vf Vl : Mat (Cpx ℚ)) (lamf laml : ℕ → Cpx ℚ)
    (heigf : EigOf n (fastA Rinv Q (dnPart (obsOf U sq N) Y.r) n) Vf lamf)
    (heigl : EigOf n (legacyA Pinv (obsOf U sq n) Y.r) Vl laml)
    (dt : ℝ) (hdt : 0 < dt) (lam : Cpx ℚ) (w : Fin n → Cpx ℚ) (mu : ℂ) (hm : Mode A dt lam w mu) :
    (n ≤ N ∧ (∀ t, t < n → S t ≠ 0) ∧ (∀ t, n ≤ t → t < N → S t = 0)) ∧
    Recovered A C Y.r dt lam w mu (fastA Rinv Q (dnPart (obsOf U sq N) Y.r) n)
        (outC (obsOf U sq N) Y.r n) Vf lamf ∧
    Recovered A C Y.r dt lam w mu (legacyA Pinv (obsOf U sq n) Y.r)
        (outC (obsOf U sq n) Y.r n) Vl laml := by
  obtain ⟨Γr, hΓ⟩ := C01_gamma_of_premises A Ainv hA Cref x0 Yref p s hs Y.c hYref Xr hX OL hO
  exact C01_e2e_dat A C x0 Y Yref p s hl hY Γr hΓ Olp hObs Rf hRc hdq U V S sq N hsvd hsq Q R Rinv hqr
    Pinv hpinv Vf Vl lamf laml heigf heigl dt hdt lam w mu hm

/-! ## Non-vacuity: the instance of `C01E2E.Ex` satisfies the new premises -/
namespace Ex
open PV.C01E2E.Ex

def Ainv : Matrix (Fin 2) (Fin 2) ℚ :=
  toMx 2 2 fun i j => if i = 0 ∧ j = 1 then 4/3 else if i = 1 ∧ j = 0 then -4/3 else 0
def Xr : Matrix (Fin (Y.c - 1 - (1 + 1) - 1)) (Fin 2) ℚ :=
  toMx 2 2 fun i j => if i = j then (if i = 0 then 1 else 4/3) else 0
def OL : Matrix (Fin 2) (Fin ((1 + 1) * Y.r)) ℚ := toMx 2 4 fun i j => if i = j then 5/4 else 0

theorem hA : A * Ainv = 1 := by decide +kernel

theorem hYref : ∀ b t, b < Y.r → t < Y.c → Y.e b t = C b ⬝ᵥ stateAt A x0 t := by
  intro b t hb ht
  rw [free b t hb ht]; rfl

theorem hX : (kryMx A x0 (Y.c - 1 - (1 + 1) - 1) * Xr : Matrix (Fin 2) (Fin 2) ℚ) = 1 := by
  have : kryMx A x0 (Y.c - 1 - (1 + 1) - 1)
      = Matrix.of fun (k : Fin 2) (t : Fin 2) => xs t.1 k.1 := by
    ext k t
    simp only [kryMx, state_eq, Matrix.of_apply]
    rfl
  rw [this]
  decide +kernel

theorem hO : (OL * obsMx ((1 + 1) * Y.r) Y.r A C : Matrix (Fin 2) (Fin 2) ℚ) = 1 := by
  have : obsMx ((1 + 1) * Y.r) Y.r A C = Matrix.of fun (i : Fin 4) (k : Fin 2) =>
      ∑ k', C (i.1 % 2) k' * (A ^ (i.1 / 2)) k' k := by
    ext i k
    rfl
  rw [this]
  decide +kernel

/-- modal data of the instance: eigenvalues `±¾i`, eigenvectors `(1, ∓i)`, modal coordinates `(½, ½)` -/
def Vm : Matrix (Fin 2) (Fin 2) (Cpx ℚ) :=
  fun i j => if i = 0 then ⟨1, 0⟩ else if j = 0 then ⟨0, -1⟩ else ⟨0, 1⟩
def Vminv : Matrix (Fin 2) (Fin 2) (Cpx ℚ) :=
  fun i j => if j = 0 then ⟨1/2, 0⟩ else if i = 0 then ⟨0, 1/2⟩ else ⟨0, -1/2⟩
def dm : Fin 2 → Cpx ℚ := fun i => if i = 0 then ⟨0, 3/4⟩ else ⟨0, -3/4⟩

/-- the premises of `C01_excited_of_modal` hold together for the instance -/
example : ∃ Xr : Matrix (Fin 2) (Fin 2) ℚ, kryMx A x0 2 * Xr = 1 :=
  C01_excited_of_modal A x0 Vm Vminv dm (by decide +kernel) (by decide +kernel) (by decide +kernel)
    (by decide +kernel) 2 (le_refl 2)

/-- all premises of `C01_gamma_of_premises` hold together for the instance -/
example : ∃ Γr : Matrix (Fin ((1 + 1) * Y.r)) (Fin 2) ℚ,
    gamMx A x0 Y 1 1 Y.c ((1 + 1) * Y.r) * Γr = 1 :=
  C01_gamma_of_premises A Ainv hA C x0 Y 1 1 (by norm_num) Y.c hYref Xr hX OL hO

end Ex
end PV.C01Excite
