import PyomaVerif.Props.C13Parseval
import PyomaVerif.Lemmas.SpectralPhase
/-!
# C13 — phase convention of the correlogram chain, and the spectral lemmas the audit found missing

All statements are about the model functions of `Model/Spectral.lean` (`welchCsd`, `corPxy`,
`irfft`, `corFromPxy`, `sdEstCor`, `sdEstPer`) that the driver runs against `fdd.SD_est`.

1. **Which argument the `"cor"` chain conjugates** (`sd_cor_gain_delay`).  For a channel pair
   `y_j = g·delay_d(y_i)` (segment-wise, inside the zero padding of the first stage) the entry
   `(i,j)` of `sdEstCor` is `g·tw(k·d)` times the auto entry `(i,i)` computed with the exponential
   window ADVANCED by `d` samples — for a flat window exactly `g·tw(k·d)` times the auto entry
   (`sd_cor_gain_delay_flat`): the `conj(X)·Y` convention of `"per"`, phase `−2π·f·d·dt`.
   `np.conj(Pxy)` before `irfft`, or swapped arguments of the first-stage `csd`, give the
   conjugate phase (`Mutants/C13.lean`: instances, and `cor_conj_opposite_phase` in general).
   Swapping data and reference conjugates the `"per"` entry and the first stage of `"cor"`
   (`sd_per_swap_conj`, `corPxy_swap_conj`).
2. **Gain and delay under the Hann window** (`"per"`, `nfft = nperseg`, every overlap).  A circular
   delay under a window is a phase factor times the un-delayed segment under the ADVANCED window
   (`welchX_delay_window`); for the Hann window that is the three-term kernel
   `½F[k] − ¼tw(d)F[k+1] − ¼conj(tw d)F[k−1]` (`sd_per_gain_delay_kernel`), and the ratio is exactly
   `g·tw(k·d)` where the two adjacent lines are empty (`sd_per_gain_delay`).
3. **Segment-mean removal is immaterial on lines `2 … n−2`** (`sd_per_welch_no_detrend`): the Hann
   window's transform vanishes there.
4. **The side conditions `tw m ≠ 1`** hold for `exp(−2πi·m/n)`, `0 < m < n` (`twR_primitive`);
   `sd_sinusoid` with every hypothesis discharged for every `n` (`sd_sinusoid_roots_of_unity`).
-/
namespace PV.C13
open PV Finset
variable {K : Type}

/-! ### 1. the correlogram chain -/

/-- **First stage: gain and delay under zero padding** (`nfft ≥ nperseg`, flat window — the
    configuration of the `"cor"` first stage `csd(nperseg=nxseg//2, nfft=nxseg, window="boxcar")`).
    In every segment the second record is `g` times the circular delay by `d < nperseg` samples of
    the first (`hy`, as in `csd_gain_delay`) and the last `d` samples of each segment of the first
    record sit at the segment mean (`hx`): after mean removal the delay is a linear delay into the
    zero padding, and at EVERY line of a transform of ANY length the cross spectrum is
    `g·tw(k·d)` times the auto spectrum.  Only multiplicativity of `tw` is used.
    `hx` is stronger than the property's premise (which is about broadband data, approximately);
    without it the wrapped samples leak at the lines where `tw(k·nperseg) ≠ 1`. -/
theorem csd_gain_delay_padded [Field K] (x y : Nat → K) (n : Nat) (fs c : K) (w : Nat → K)
    (nperseg nov nfft : Nat) (tw : Nat → CxS K) (hmul : ∀ a b, tw (a + b) = tw a * tw b)
    (g : K) (d : Nat) (hd : d < nperseg) (hw : ∀ t, t < nperseg → w t = c)
    (hy : ∀ s t, s < welchNseg n nperseg nov → t < nperseg →
      y (s * (nperseg - nov) + t)
        = g * x (s * (nperseg - nov) + (t + (nperseg - d % nperseg)) % nperseg))
    (hx : ∀ s t, s < welchNseg n nperseg nov → nperseg - d ≤ t → t < nperseg →
      x (s * (nperseg - nov) + t) = segMean x nperseg (nperseg - nov) s) (k : Nat) :
    (welchCsd x y n fs w nperseg nov nfft tw).val k
      = (CxS.ofReal g * tw (k * d)) * (welchCsd x x n fs w nperseg nov nfft tw).val k := by
  rw [welchCsd_val, welchCsd_val, mul_left_comm]
  congr 1
  rw [mul_sum]
  apply sum_congr rfl; intro s hs
  have hs' := mem_range.mp hs
  rw [welchX_delay_padded x y w c nperseg (nperseg - nov) tw hmul g d hd hw s
    (fun t ht => hy s t hs' ht) (fun t h1 h2 => hx s t hs' h1 h2) k]
  ring

/-- **`irfft` turns the phase factor `tw2(q·d)` into a circular delay by `d` lags.**  If
    `P' q = g·tw2(q·d)·P q` on the `m` input lines, then `irfft P' = g·(irfft P delayed by d)`
    (circularly, in the output length `n2 = 2(m−1)`).  `tw2` is multiplicative, `n2`-periodic, of
    unit modulus, and `tw2(m−1) = −1` (the half-period value; `irfft` itself hard-codes `(−1)^t`
    for the last line). -/
theorem irfft_gain_delay [Field K] (m : Nat) (hm : 2 ≤ m) (tw2 : Nat → CxS K)
    (hmul : ∀ a b, tw2 (a + b) = tw2 a * tw2 b) (hn : tw2 (2 * (m - 1)) = 1)
    (hunit : ∀ q, CxS.conj (tw2 q) * tw2 q = 1) (hhalf : tw2 (m - 1) = -1)
    (g : K) (d : Nat) (P P' : Nat → CxS K)
    (hP : ∀ q, q < m → P' q = CxS.ofReal g * tw2 (q * d) * P q) (t : Nat) :
    irfft m tw2 P' t = g * circDelay (2 * (m - 1)) d (irfft m tw2 P) t := by
  set n2 := 2 * (m - 1) with hn2
  have hpos : 0 < n2 := by omega
  set t' := (t + (n2 - d % n2)) % n2 with ht'
  have hidx : (t' + d) % n2 = t % n2 := circ_index_add n2 d t hpos
  -- DC line
  have h0 : (P' 0).re = g * (P 0).re := by
    rw [hP 0 (by omega), Nat.zero_mul, tw_zero' tw2 n2 hmul hn]; simp
  -- interior lines
  have hint : ∀ q, q < m → (P' q * CxS.conj (tw2 (q * t))).re
      = g * (P q * CxS.conj (tw2 (q * t'))).re := by
    intro q hq
    have hA : tw2 (q * t) = tw2 (q * t') * tw2 (q * d) := by
      rw [← hmul, ← Nat.mul_add]
      apply tw_congr_mod tw2 n2 hmul hn
      rw [Nat.mul_mod, ← hidx, ← Nat.mul_mod]
    have hB : tw2 (q * d) * CxS.conj (tw2 (q * t)) = CxS.conj (tw2 (q * t')) := by
      rw [hA, CxS.conj_mul]
      calc tw2 (q * d) * (CxS.conj (tw2 (q * t')) * CxS.conj (tw2 (q * d)))
          = CxS.conj (tw2 (q * t')) * (CxS.conj (tw2 (q * d)) * tw2 (q * d)) := by ring
        _ = CxS.conj (tw2 (q * t')) := by rw [hunit, mul_one]
    have : P' q * CxS.conj (tw2 (q * t)) = CxS.ofReal g * (P q * CxS.conj (tw2 (q * t'))) := by
      rw [hP q hq, ← hB]; ring
    rw [this]; simp
  -- last line: `tw2((m−1)·d) = (−1)^d`, and the parity of `t'` is that of `t + d`
  have hlast : (if t % 2 = 0 then (P' (m - 1)).re else - (P' (m - 1)).re)
      = g * (if t' % 2 = 0 then (P (m - 1)).re else - (P (m - 1)).re) := by
    have hpar : (t' + d) % 2 = t % 2 := by
      have e1 := Nat.div_add_mod (t' + d) n2
      have e2 := Nat.div_add_mod t n2
      rw [hidx] at e1
      have e3 : n2 * ((t' + d) / n2) = 2 * ((m - 1) * ((t' + d) / n2)) := by rw [hn2]; ring
      have e4 : n2 * (t / n2) = 2 * ((m - 1) * (t / n2)) := by rw [hn2]; ring
      rw [e3] at e1; rw [e4] at e2
      generalize (m - 1) * ((t' + d) / n2) = A at e1
      generalize (m - 1) * (t / n2) = B at e2
      generalize t % n2 = r at e1 e2
      omega
    rw [hP (m - 1) (by omega), tw_half_mul tw2 n2 hmul hn (m - 1) hhalf d]
    rcases Nat.mod_two_eq_zero_or_one d with hd | hd
    · have : t' % 2 = t % 2 := by omega
      rw [if_pos hd, this]
      split_ifs <;> simp
    · have hd0 : d % 2 ≠ 0 := by omega
      rw [if_neg hd0]
      rcases Nat.mod_two_eq_zero_or_one t with h2 | h2
      · have : t' % 2 ≠ 0 := by omega
        rw [if_pos h2, if_neg this]; simp
      · have h20 : t % 2 ≠ 0 := by omega
        have : t' % 2 = 0 := by omega
        rw [if_neg h20, if_pos this]; simp
  have hsum : ∑ k' ∈ range (m - 2), (1 + 1) * (P' (k' + 1) * CxS.conj (tw2 ((k' + 1) * t))).re
      = g * ∑ k' ∈ range (m - 2), (1 + 1) * (P (k' + 1) * CxS.conj (tw2 ((k' + 1) * t'))).re := by
    rw [mul_sum]
    apply sum_congr rfl; intro k' hk'
    have := mem_range.mp hk'
    rw [hint (k' + 1) (by omega)]; ring
  show irfft m tw2 P' t = g * irfft m tw2 P t'
  simp only [irfft, sumTo_eq]
  rw [h0, hsum, hlast]
  ring

/-- **Second stage: the phase factor passes through `irfft → window → rfft`**, the window being
    advanced by the delay.  If `P' q = g·tw2(q·d)·P q` on the `m` first-stage lines then, for
    EVERY window `ew`,
    `corFromPxy ew P' k = g·tw2(k·d)·corFromPxy (u ↦ ew((u+d) mod n2)) P k`. -/
theorem corFromPxy_gain_delay [Field K] (m : Nat) (hm : 2 ≤ m) (tw2 : Nat → CxS K)
    (hmul : ∀ a b, tw2 (a + b) = tw2 a * tw2 b) (hn : tw2 (2 * (m - 1)) = 1)
    (hunit : ∀ q, CxS.conj (tw2 q) * tw2 q = 1) (hhalf : tw2 (m - 1) = -1) (ew : Nat → K)
    (g : K) (d : Nat) (P P' : Nat → CxS K)
    (hP : ∀ q, q < m → P' q = CxS.ofReal g * tw2 (q * d) * P q) (k : Nat) :
    corFromPxy m tw2 ew P' k
      = (CxS.ofReal g * tw2 (k * d))
        * corFromPxy m tw2 (fun u => ew ((u + d) % (2 * (m - 1)))) P k := by
  set n2 := 2 * (m - 1) with hn2
  have hpos : 0 < n2 := by omega
  let xx : Nat → CxS K := fun u => CxS.ofReal (irfft m tw2 P u * ew ((u + d) % n2))
  have h1 : corFromPxy m tw2 ew P' k = CxS.ofReal g * dft n2 tw2 (circDelay n2 d xx) k := by
    simp only [corFromPxy]
    rw [dft_eq, dft_eq, mul_sum]
    apply sum_congr rfl; intro t ht
    have ht' := mem_range.mp ht
    rw [irfft_gain_delay m hm tw2 hmul hn hunit hhalf g d P P' hP t]
    simp only [xx, circDelay]
    rw [circ_index_add n2 d t hpos, Nat.mod_eq_of_lt ht', ← mul_assoc, ← CxS.ofReal_mul]
    congr 2; ring
  rw [h1, dft_shift n2 tw2 hmul hn]
  simp only [corFromPxy, xx]
  ring

/-- **Gain and delay through the whole `"cor"` chain: the `conj(X)·Y` convention.**
    Even segment length (`tw` is the twiddle of length `nxseg = 2·(nxseg/2)`, used for both
    stages, with `tw(nxseg/2) = −1`); reference row `j` is, in every half-segment of the first
    stage, `g` times the circular delay by `d < nxseg/2` samples of data row `i` (`hy`), whose last
    `d` samples per half-segment sit at the half-segment mean (`hx`, see `csd_gain_delay_padded`).
    Then at every line `k`, for EVERY window `ew`,

    `S[i,j,k] = g·tw(k·d)·S_d[i,i,k]`,

    `S_d` the auto estimate computed with the window advanced by `d` samples,
    `u ↦ ew((u+d) mod nxseg)`: gain `g`, phase `−2π·k·d/nxseg = −2π·f·d·dt`, the FIRST argument
    conjugated — the convention of `"per"` (`csd_gain_delay`).  The window is not shift invariant,
    which is why the plain ratio `S[i,j]/S[i,i]` of the real chain is only approximately
    `g·tw(k·d)` (oracle `gain-delay-cor`); for a flat window it is exact
    (`sd_cor_gain_delay_flat`).  For odd `nxseg` the chain reads first-stage lines `q/nxseg` as
    `q/(nxseg−1)` and no exact statement of this kind holds. -/
theorem sd_cor_gain_delay [Field K] (Yall Yref : Mat K) (dt : K) (nxseg : Nat)
    (hpos : 1 ≤ nxseg / 2) (tw : Nat → CxS K) (ew : Nat → K)
    (hmul : ∀ a b, tw (a + b) = tw a * tw b) (hn : tw (2 * (nxseg / 2)) = 1)
    (hunit : ∀ q, CxS.conj (tw q) * tw q = 1) (hhalf : tw (nxseg / 2) = -1)
    (hc : Yall.c = Yref.c) (i j : Nat) (g : K) (d : Nat) (hd : d < nxseg / 2)
    (hy : ∀ s t, s < welchNseg Yref.c (nxseg / 2) 0 → t < nxseg / 2 →
      Yref.e j (s * (nxseg / 2 - 0) + t)
        = g * Yall.e i (s * (nxseg / 2 - 0) + (t + (nxseg / 2 - d % (nxseg / 2))) % (nxseg / 2)))
    (hx : ∀ s t, s < welchNseg Yref.c (nxseg / 2) 0 → nxseg / 2 - d ≤ t → t < nxseg / 2 →
      Yall.e i (s * (nxseg / 2 - 0) + t) = segMean (Yall.e i) (nxseg / 2) (nxseg / 2 - 0) s)
    (k : Nat) :
    (sdEstCor Yall Yref dt nxseg tw tw ew).e i j k
      = (CxS.ofReal g * tw (k * d))
        * (sdEstCor Yall Yall dt nxseg tw tw
            (fun u => ew ((u + d) % (2 * (nxseg / 2))))).e i i k := by
  have hm1 : nxseg / 2 + 1 - 1 = nxseg / 2 := by omega
  have hP : ∀ q, q < nxseg / 2 + 1 → corPxy Yall Yref nxseg tw i j q
      = CxS.ofReal g * tw (q * d) * corPxy Yall Yall nxseg tw i i q := by
    intro q _
    simp only [corPxy]
    rw [hc]
    exact csd_gain_delay_padded (Yall.e i) (Yref.e j) Yref.c 1 1 (fun _ => 1) (nxseg / 2) 0 nxseg tw
      hmul g d hd (fun _ _ => rfl) hy hx q
  have key := corFromPxy_gain_delay (nxseg / 2 + 1) (by omega) tw hmul (by rw [hm1]; exact hn) hunit
    (by rw [hm1]; exact hhalf) ew g d (corPxy Yall Yall nxseg tw i i) (corPxy Yall Yref nxseg tw i j)
    hP k
  rw [hm1] at key
  exact key

/-- **Flat lag window: the exact ratio.**  With `ew` constant the `"cor"` cross entry is exactly
    `g·tw(k·d)` times the auto entry, at every line. -/
theorem sd_cor_gain_delay_flat [Field K] (Yall Yref : Mat K) (dt : K) (nxseg : Nat)
    (hpos : 1 ≤ nxseg / 2) (tw : Nat → CxS K) (ew : Nat → K) (c : K) (hew : ∀ u, ew u = c)
    (hmul : ∀ a b, tw (a + b) = tw a * tw b) (hn : tw (2 * (nxseg / 2)) = 1)
    (hunit : ∀ q, CxS.conj (tw q) * tw q = 1) (hhalf : tw (nxseg / 2) = -1)
    (hc : Yall.c = Yref.c) (i j : Nat) (g : K) (d : Nat) (hd : d < nxseg / 2)
    (hy : ∀ s t, s < welchNseg Yref.c (nxseg / 2) 0 → t < nxseg / 2 →
      Yref.e j (s * (nxseg / 2 - 0) + t)
        = g * Yall.e i (s * (nxseg / 2 - 0) + (t + (nxseg / 2 - d % (nxseg / 2))) % (nxseg / 2)))
    (hx : ∀ s t, s < welchNseg Yref.c (nxseg / 2) 0 → nxseg / 2 - d ≤ t → t < nxseg / 2 →
      Yall.e i (s * (nxseg / 2 - 0) + t) = segMean (Yall.e i) (nxseg / 2) (nxseg / 2 - 0) s)
    (k : Nat) :
    (sdEstCor Yall Yref dt nxseg tw tw ew).e i j k
      = (CxS.ofReal g * tw (k * d)) * (sdEstCor Yall Yall dt nxseg tw tw ew).e i i k := by
  rw [sd_cor_gain_delay Yall Yref dt nxseg hpos tw ew hmul hn hunit hhalf hc i j g d hd hy hx k]
  have : (fun u => ew ((u + d) % (2 * (nxseg / 2)))) = ew := by
    funext u; rw [hew, hew]
  rw [this]

/-- **Swapping data and reference conjugates the entry** (`"per"`):
    `S(Yr, Y)[j,i] = conj(S(Y, Yr)[i,j])` — the estimate is sesquilinear, the FIRST argument
    carrying the conjugation. -/
theorem sd_per_swap_conj [Field K] (Y Yr : Mat K) (dt : K) (nxseg nov : Nat) (tw : Nat → CxS K)
    (hc : Y.c = Yr.c) (i j k : Nat) :
    (sdEstPer Yr Y dt nxseg nov tw).e j i k = CxS.conj ((sdEstPer Y Yr dt nxseg nov tw).e i j k) := by
  simp only [sd_pairing_per_entry, welchCsd_val, hc, CxS.conj_mul, CxS.conj_ofReal, CxS.conj_sum,
    CxS.conj_conj]
  congr 1
  apply sum_congr rfl; intro s _; ring

/-- the same for the first stage of the correlogram chain: swapped arguments ARE `np.conj(Pxy)`. -/
theorem corPxy_swap_conj [Field K] (Y Yr : Mat K) (nxseg : Nat) (tw : Nat → CxS K)
    (hc : Y.c = Yr.c) (i j q : Nat) :
    corPxy Yr Y nxseg tw j i q = CxS.conj (corPxy Y Yr nxseg tw i j q) := by
  simp only [corPxy, welchCsd_val, hc, CxS.conj_mul, CxS.conj_ofReal, CxS.conj_sum, CxS.conj_conj]
  congr 1
  apply sum_congr rfl; intro s _; ring

/-! ### 2. gain and delay under the Hann window (`"per"`, the configuration `SD_est` uses) -/

/-- **A circular delay under ANY window: phase factor times the un-delayed segment under the
    ADVANCED window.**  Segment `s` of `y` is `g` times the circular delay by `d` samples of
    segment `s` of `x`, `nfft = nperseg`: then
    `welchX y w = g·tw(k·d)·welchX x (u ↦ w((u+d) mod nperseg))`.
    (The windowed delayed segment is not a circular shift of the windowed segment; it is the
    circular shift of the segment windowed with the window moved along.) -/
theorem welchX_delay_window [Field K] (x y w : Nat → K) (np st : Nat) (tw : Nat → CxS K)
    (hmul : ∀ a b, tw (a + b) = tw a * tw b) (hn : tw np = 1) (g : K) (d s : Nat)
    (hy : ∀ t, t < np → y (s * st + t) = g * x (s * st + (t + (np - d % np)) % np)) (k : Nat) :
    welchX y w np st tw s k
      = (CxS.ofReal g * tw (k * d)) * welchX x (fun u => w ((u + d) % np)) np st tw s k := by
  rcases Nat.eq_zero_or_pos np with h0 | hpos
  · subst h0; simp [welchX_eq]
  have hm : segMean y np st s = g * segMean x np st s := by
    rw [segMean_eq, segMean_eq, ← mul_div_assoc, mul_sum]
    congr 1
    rw [← sum_circDelay np d (fun t => g * x (s * st + t))]
    exact sum_congr rfl (fun t ht => by rw [hy t (mem_range.mp ht)]; rfl)
  let v : Nat → CxS K := fun u =>
    CxS.ofReal (w ((u + d) % np) * (x (s * st + u) - segMean x np st s))
  have hx : welchX x (fun u => w ((u + d) % np)) np st tw s k = dft np tw v k := by
    rw [welchX_eq, dft_eq]
  have hyv : welchX y w np st tw s k = CxS.ofReal g * dft np tw (circDelay np d v) k := by
    rw [welchX_eq, dft_eq, mul_sum]
    apply sum_congr rfl; intro t ht
    have ht' := mem_range.mp ht
    rw [hy t ht', hm]
    simp only [v, circDelay]
    rw [circ_index_add np d t hpos, Nat.mod_eq_of_lt ht', ← mul_assoc, ← CxS.ofReal_mul]
    congr 2; ring
  rw [hyv, dft_shift np tw hmul hn, hx]; ring

/-- **Gain and delay for `SD_est(…, "per")`, exact, every record.**  Reference row `j` is in every
    segment `g` times the circular delay by `d` samples of data row `i`.  Then entry `(i,j)` at line
    `k` is `g·tw(k·d)` times the averaged product of the Hann-windowed transform of row `i` with
    its transform under the Hann window ADVANCED by `d` samples — which, by the three-term Hann
    kernel, is `½·F[k] − ¼·tw(d)·F[k+1] − ¼·conj(tw d)·F[k−1]`, `F` the unwindowed transform of the
    mean-removed segment (`k−1` written `k + (nxseg−1)`).  The deviation of the ratio
    `S[i,j]/S[i,i]` from `g·tw(k·d)` is therefore exactly the leakage from the two adjacent lines,
    weighted by `tw(±d) − 1`. -/
theorem sd_per_gain_delay_kernel [Field K] [LinearOrder K] [IsStrictOrderedRing K]
    (Yall Yref : Mat K) (dt : K) (n nov : Nat) (hpos : 0 < n) (tw : Nat → CxS K)
    (hmul : ∀ a b, tw (a + b) = tw a * tw b) (hn : tw n = 1)
    (hunit : ∀ m, CxS.conj (tw m) * tw m = 1) (i j : Nat) (g : K) (d : Nat)
    (hy : ∀ s t, s < welchNseg Yref.c n nov → t < n →
      Yref.e j (s * (n - nov) + t) = g * Yall.e i (s * (n - nov) + (t + (n - d % n)) % n))
    (k : Nat) :
    (sdEstPer Yall Yref dt n nov tw).e i j k
      = (CxS.ofReal g * tw (k * d))
        * (CxS.ofReal (csdCoef (1 / dt) (hann tw) Yref.c n nov n k)
          * ∑ s ∈ range (welchNseg Yref.c n nov),
              CxS.conj (welchX (Yall.e i) (hann tw) n (n - nov) tw s k)
              * (CxS.ofReal (1 / 2) * welchX (Yall.e i) (fun _ => 1) n (n - nov) tw s k
                - CxS.ofReal (1 / 4) * tw d * welchX (Yall.e i) (fun _ => 1) n (n - nov) tw s (k + 1)
                - CxS.ofReal (1 / 4) * CxS.conj (tw d)
                    * welchX (Yall.e i) (fun _ => 1) n (n - nov) tw s (k + (n - 1)))) := by
  rw [sd_pairing_per_entry, welchCsd_val, mul_left_comm]
  congr 1
  rw [mul_sum]
  apply sum_congr rfl; intro s hs
  have hs' := mem_range.mp hs
  rw [welchX_delay_window (Yall.e i) (Yref.e j) (hann tw) n (n - nov) tw hmul hn g d s
    (fun t ht => hy s t hs' ht) k]
  have hk : welchX (Yall.e i) (fun u => hann tw ((u + d) % n)) n (n - nov) tw s k
      = CxS.ofReal (1 / 2) * welchX (Yall.e i) (fun _ => 1) n (n - nov) tw s k
        - CxS.ofReal (1 / 4) * tw d * welchX (Yall.e i) (fun _ => 1) n (n - nov) tw s (k + 1)
        - CxS.ofReal (1 / 4) * CxS.conj (tw d)
            * welchX (Yall.e i) (fun _ => 1) n (n - nov) tw s (k + (n - 1)) := by
    simp only [welchX_eq, one_mul]
    exact hann_adv_kernel tw n hpos hmul hn hunit d
      (fun t => Yall.e i (s * (n - nov) + t) - segMean (Yall.e i) n (n - nov) s) k
  rw [hk]; ring

/-- **… and the exact ratio where the adjacent lines are empty.**  If moreover, in every segment,
    the unwindowed transform of (mean-removed) row `i` vanishes at the two lines adjacent to `k`
    (`hadj`: a segment-periodic signal without content at `k ± 1`, e.g. a sum of grid-line
    sinusoids on non-adjacent lines), then at line `k`
    `S[i,j,k] = g·tw(k·d)·S[i,i,k]` for the Hann-windowed estimate with `nfft = nperseg = nxseg`
    and every overlap: the `conj(X)·Y` convention, for the configuration `SD_est` uses.
    `hadj` is stronger than the property's premise; `sd_per_gain_delay_kernel` says exactly what
    happens without it. -/
theorem sd_per_gain_delay [Field K] [LinearOrder K] [IsStrictOrderedRing K]
    (Yall Yref : Mat K) (dt : K) (n nov : Nat) (hpos : 0 < n) (tw : Nat → CxS K)
    (hmul : ∀ a b, tw (a + b) = tw a * tw b) (hn : tw n = 1)
    (hunit : ∀ m, CxS.conj (tw m) * tw m = 1) (hc : Yall.c = Yref.c) (i j : Nat) (g : K) (d : Nat)
    (hy : ∀ s t, s < welchNseg Yref.c n nov → t < n →
      Yref.e j (s * (n - nov) + t) = g * Yall.e i (s * (n - nov) + (t + (n - d % n)) % n))
    (k : Nat)
    (hadj : ∀ s, s < welchNseg Yref.c n nov →
      welchX (Yall.e i) (fun _ => 1) n (n - nov) tw s (k + 1) = 0
        ∧ welchX (Yall.e i) (fun _ => 1) n (n - nov) tw s (k + (n - 1)) = 0) :
    (sdEstPer Yall Yref dt n nov tw).e i j k
      = (CxS.ofReal g * tw (k * d)) * (sdEstPer Yall Yall dt n nov tw).e i i k := by
  rw [sd_per_gain_delay_kernel Yall Yref dt n nov hpos tw hmul hn hunit i j g d hy k,
    sd_pairing_per_entry, welchCsd_val, hc]
  congr 2
  apply sum_congr rfl; intro s hs
  obtain ⟨ha, hb⟩ := hadj s (mem_range.mp hs)
  have h0 : welchX (Yall.e i) (hann tw) n (n - nov) tw s k
      = CxS.ofReal (1 / 2) * welchX (Yall.e i) (fun _ => 1) n (n - nov) tw s k := by
    have := hann_adv_kernel tw n hpos hmul hn hunit 0
      (fun t => Yall.e i (s * (n - nov) + t) - segMean (Yall.e i) n (n - nov) s) k
    simp only [welchX_eq, one_mul] at ha hb ⊢
    rw [ha, hb] at this
    have e : ∀ u ∈ range n, CxS.ofReal (hann tw ((u + 0) % n)
          * (Yall.e i (s * (n - nov) + u) - segMean (Yall.e i) n (n - nov) s)) * tw (k * u)
        = CxS.ofReal (hann tw u
          * (Yall.e i (s * (n - nov) + u) - segMean (Yall.e i) n (n - nov) s)) * tw (k * u) := by
      intro u hu; rw [Nat.add_zero, Nat.mod_eq_of_lt (mem_range.mp hu)]
    rw [sum_congr rfl e] at this
    rw [this]; ring
  rw [ha, hb, ← h0]; ring

/-! ### 3. segment-mean removal is immaterial on the lines `2 … n−2` -/

/-- **The Welch form without the mean-removal term.**  At every line `k ≥ 1` with
    `tw(k−1), tw k, tw(k+1) ≠ 1` (for the roots of unity: `2 ≤ k ≤ nxseg − 2`, hence every line
    `k ≥ 2` of the one-sided grid) the transform of the Hann window vanishes (`hann_dft_zero`), so
    the `"per"` estimate is Welch's estimate of the RAW segments: the `segMean` terms of
    `sd_per_welch_form` drop out.  This is the comparator of the oracle (`welch-per`, lines ≥ 2). -/
theorem sd_per_welch_no_detrend [Field K] [LinearOrder K] [IsStrictOrderedRing K]
    (Yall Yref : Mat K) (dt : K) (nxseg nov : Nat) (tw : Nat → CxS K)
    (hmul : ∀ a b, tw (a + b) = tw a * tw b) (hn : tw nxseg = 1)
    (hunit : ∀ m, CxS.conj (tw m) * tw m = 1) (i j k : Nat) (hk : 1 ≤ k)
    (h0 : tw k ≠ 1) (h1 : tw (k + 1) ≠ 1) (h2 : tw (k - 1) ≠ 1) :
    (sdEstPer Yall Yref dt nxseg nov tw).e i j k
      = CxS.ofReal ((if k = 0 ∨ (nxseg % 2 = 0 ∧ k = nxseg / 2) then 1 else 2)
          * (1 / ((1 / dt) * ∑ t ∈ range nxseg, hann tw t * hann tw t)
            * (((Yref.c - nov) / (nxseg - nov) : Nat) : K)⁻¹))
        * ∑ s ∈ range ((Yref.c - nov) / (nxseg - nov)),
            CxS.conj (∑ t ∈ range nxseg,
              CxS.ofReal (hann tw t * Yall.e i (s * (nxseg - nov) + t)) * tw (k * t))
            * ∑ t ∈ range nxseg,
              CxS.ofReal (hann tw t * Yref.e j (s * (nxseg - nov) + t)) * tw (k * t) := by
  rw [sd_pairing_per_entry, welchCsd_val]
  simp only [welchX_hann_mean_free _ nxseg (nxseg - nov) tw hmul hn hunit _ k hk h0 h1 h2]
  rfl

/-- the same with every twiddle hypothesis discharged: the complex roots of unity
    `exp(−2πi·m/nxseg)`, every `nxseg`, every line `2 ≤ k ≤ nxseg − 2`. -/
theorem sd_per_welch_no_detrend_roots_of_unity (Yall Yref : Mat ℝ) (dt : ℝ) (nxseg nov : Nat)
    (i j k : Nat) (hk : 2 ≤ k) (hk2 : k + 2 ≤ nxseg) :
    (sdEstPer Yall Yref dt nxseg nov (twR nxseg)).e i j k
      = CxS.ofReal ((if k = 0 ∨ (nxseg % 2 = 0 ∧ k = nxseg / 2) then 1 else 2)
          * (1 / ((1 / dt) * ∑ t ∈ range nxseg, hann (twR nxseg) t * hann (twR nxseg) t)
            * (((Yref.c - nov) / (nxseg - nov) : Nat) : ℝ)⁻¹))
        * ∑ s ∈ range ((Yref.c - nov) / (nxseg - nov)),
            CxS.conj (∑ t ∈ range nxseg,
              CxS.ofReal (hann (twR nxseg) t * Yall.e i (s * (nxseg - nov) + t)) * twR nxseg (k * t))
            * ∑ t ∈ range nxseg,
              CxS.ofReal (hann (twR nxseg) t * Yref.e j (s * (nxseg - nov) + t))
                * twR nxseg (k * t) :=
  sd_per_welch_no_detrend Yall Yref dt nxseg nov (twR nxseg) (twR_mul nxseg)
    (twR_period nxseg (by omega)) (twR_unit nxseg) i j k (by omega)
    (twR_ne_one nxseg k (by omega) (by omega)) (twR_ne_one nxseg (k + 1) (by omega) (by omega))
    (twR_ne_one nxseg (k - 1) (by omega) (by omega))

/-! ### 4. the twiddle side conditions discharged for every `n` -/

/-- **Primitivity of the concrete twiddle** `exp(−2πi·m/N)`: `twR N m ≠ 1` for `0 < m < N`. -/
theorem twR_primitive (N m : Nat) (h0 : 0 < m) (h1 : m < N) : twR N m ≠ 1 := twR_ne_one N m h0 h1

/-- **Grid-line sinusoids, every segment length.**  `sd_sinusoid` with the complex roots of unity
    `exp(−2πi·m/n)`: all twiddle hypotheses and the five side conditions `tw m ≠ 1` hold as soon
    as `1 ≤ k0` and `2·k0 + 1 < n` (line `k0` away from DC and, for either parity of `n`, from
    the last line). -/
theorem sd_sinusoid_roots_of_unity (Y : Mat ℝ) (dt : ℝ) (n nov k0 : Nat) (hk0 : 1 ≤ k0)
    (hk1 : 2 * k0 + 1 < n) (a : Nat → CxS ℝ)
    (hY : ∀ c u, Y.e c u = (a c * CxS.conj (twR n (k0 * u))).re) :
    ∃ C : ℝ, ∀ i j,
      (sdEstPer Y Y dt n nov (twR n)).e i j k0 = CxS.ofReal C * (CxS.conj (a i) * a j) :=
  sd_sinusoid Y dt n nov (twR n) (twR_mul n) (twR_period n (by omega)) (twR_unit n) k0 hk0
    (twR_ne_one n 1 (by omega) (by omega)) (twR_ne_one n k0 (by omega) (by omega))
    (twR_ne_one n (2 * k0) (by omega) (by omega)) (twR_ne_one n (2 * k0 + 1) (by omega) hk1)
    (twR_ne_one n (2 * k0 - 1) (by omega) (by omega)) a hY

theorem sd_sinusoid_ratio_roots_of_unity (Y : Mat ℝ) (dt : ℝ) (n nov k0 : Nat) (hk0 : 1 ≤ k0)
    (hk1 : 2 * k0 + 1 < n) (a : Nat → CxS ℝ)
    (hY : ∀ c u, Y.e c u = (a c * CxS.conj (twR n (k0 * u))).re) (i j : Nat) :
    (sdEstPer Y Y dt n nov (twR n)).e i j k0 * a i
      = (sdEstPer Y Y dt n nov (twR n)).e i i k0 * a j := by
  obtain ⟨C, hC⟩ := sd_sinusoid_roots_of_unity Y dt n nov k0 hk0 hk1 a hY
  rw [hC, hC]; ring

/-- The twiddle hypotheses of the `"cor"` gain-and-delay theorems hold for the complex roots of
    unity of every even length `2h`, `h ≥ 1`. -/
theorem cor_hyps_roots_of_unity (h : Nat) (hh : 1 ≤ h) :
    (∀ a b, twR (2 * h) (a + b) = twR (2 * h) a * twR (2 * h) b) ∧ twR (2 * h) (2 * h) = 1
      ∧ (∀ q, CxS.conj (twR (2 * h) q) * twR (2 * h) q = 1) ∧ twR (2 * h) h = -1 :=
  ⟨twR_mul _, twR_period _ (by omega), twR_unit _, twR_half h hh⟩

/-! ### Non-vacuity: exact instances over `Rat`

`tw4 m = (−i)^m` satisfies the twiddle hypotheses of the `"cor"` theorems for `nxseg = 12`
(`tw4 12 = 1`, `tw4 6 = −1`, multiplicative, unit modulus; the theorems do not need primitivity);
for the genuine length-`nxseg` roots of unity see `cor_hyps_roots_of_unity`. -/

/-- two channels, 12 samples = two half-segments of length 6 (`nxseg = 12`): row 1 is `−3` times
    the circular delay by one sample of each half-segment of row 0; the last sample of each
    half-segment of row 0 is the half-segment mean (0 and 1). -/
def exC : Mat Rat := ⟨2, 12, fun i t =>
  if i = 0 then ([1, 3, -2, 5, -7, 0, 2, -1, 4, 0, 0, 1] : List Rat).getD t 0
  else ([0, -3, -9, 6, -15, 21, -3, -6, 3, -12, 0, 0] : List Rat).getD t 0⟩
/-- a non-flat lag window -/
def exEw (u : Nat) : Rat := 1 / ((u : Rat) + 2)

theorem tw4_half12 : tw4 (12 / 2) = -1 := by decide +kernel
theorem tw4_period12 : tw4 (2 * (12 / 2)) = 1 := by decide +kernel

theorem exC_delay : ∀ s t, s < welchNseg exC.c (12 / 2) 0 → t < 12 / 2 →
    exC.e 1 (s * (12 / 2 - 0) + t)
      = (-3) * exC.e 0 (s * (12 / 2 - 0) + (t + (12 / 2 - 1 % (12 / 2))) % (12 / 2)) := by
  intro s t hs ht
  have h2 : welchNseg exC.c (12 / 2) 0 = 2 := by decide
  rw [h2] at hs
  have ht' : t < 6 := ht
  interval_cases s <;> interval_cases t <;> decide +kernel

theorem exC_tail : ∀ s t, s < welchNseg exC.c (12 / 2) 0 → 12 / 2 - 1 ≤ t → t < 12 / 2 →
    exC.e 0 (s * (12 / 2 - 0) + t) = segMean (exC.e 0) (12 / 2) (12 / 2 - 0) s := by
  intro s t hs h1 h2
  have h3 : welchNseg exC.c (12 / 2) 0 = 2 := by decide
  rw [h3] at hs
  have : t = 5 := by omega
  subst this
  interval_cases s <;> decide +kernel

-- first stage (boxcar 6, zero-padded to 12, no overlap): hypotheses hold, conclusion non-trivial
example : (welchCsd (exC.e 0) (exC.e 1) 12 1 (fun _ => 1) 6 0 12 tw4).val 1
    = (CxS.ofReal (-3) * tw4 (1 * 1)) * (welchCsd (exC.e 0) (exC.e 0) 12 1 (fun _ => 1) 6 0 12 tw4).val 1 :=
  csd_gain_delay_padded (exC.e 0) (exC.e 1) 12 1 1 (fun _ => 1) 6 0 12 tw4 tw4_mul (-3) 1 (by decide)
    (fun _ _ => rfl) exC_delay exC_tail 1
example : (welchCsd (exC.e 0) (exC.e 0) 12 1 (fun _ => 1) 6 0 12 tw4).val 1 ≠ 0 := by decide +kernel
-- `irfft` and the second stage on the first-stage spectrum of row 0 (7 lines), g = −3, d = 1
example := irfft_gain_delay 7 (by decide) tw4 tw4_mul tw4_period12 tw4_unit tw4_half12 (-3 : Rat) 1
  (corPxy exC exC 12 tw4 0 0) (fun q => CxS.ofReal (-3) * tw4 (q * 1) * corPxy exC exC 12 tw4 0 0 q)
  (fun _ _ => rfl) 4
example : irfft 7 tw4 (corPxy exC exC 12 tw4 0 0) 3 ≠ 0 := by decide +kernel
example := corFromPxy_gain_delay 7 (by decide) tw4 tw4_mul tw4_period12 tw4_unit tw4_half12 exEw
  (-3 : Rat) 1 (corPxy exC exC 12 tw4 0 0)
  (fun q => CxS.ofReal (-3) * tw4 (q * 1) * corPxy exC exC 12 tw4 0 0 q) (fun _ _ => rfl) 1
-- the whole chain, non-flat window: both sides are `2701/288 + (97375/7722)·i`
example : (sdEstCor exC exC (1 / 100) 12 tw4 tw4 exEw).e 0 1 1
    = (CxS.ofReal (-3) * tw4 (1 * 1))
      * (sdEstCor exC exC (1 / 100) 12 tw4 tw4 (fun u => exEw ((u + 1) % (2 * (12 / 2))))).e 0 0 1 :=
  sd_cor_gain_delay exC exC (1 / 100) 12 (by decide) tw4 exEw tw4_mul tw4_period12 tw4_unit tw4_half12
    rfl 0 1 (-3) 1 (by decide) exC_delay exC_tail 1
example : (sdEstCor exC exC (1 / 100) 12 tw4 tw4 exEw).e 0 1 1 = ⟨2701 / 288, 97375 / 7722⟩ := by
  decide +kernel
-- … the window matters: the plain ratio is NOT `g·tw(k·d)` for a non-flat window
example : (sdEstCor exC exC (1 / 100) 12 tw4 tw4 exEw).e 0 1 1
    ≠ (CxS.ofReal (-3) * tw4 (1 * 1)) * (sdEstCor exC exC (1 / 100) 12 tw4 tw4 exEw).e 0 0 1 := by
  decide +kernel
-- flat window: the exact ratio
example : (sdEstCor exC exC (1 / 100) 12 tw4 tw4 (fun _ => 1 / 2)).e 0 1 1
    = (CxS.ofReal (-3) * tw4 (1 * 1)) * (sdEstCor exC exC (1 / 100) 12 tw4 tw4 (fun _ => 1 / 2)).e 0 0 1 :=
  sd_cor_gain_delay_flat exC exC (1 / 100) 12 (by decide) tw4 _ (1 / 2) (fun _ => rfl) tw4_mul
    tw4_period12 tw4_unit tw4_half12 rfl 0 1 (-3) 1 (by decide) exC_delay exC_tail 1
example : (sdEstCor exC exC (1 / 100) 12 tw4 tw4 (fun _ => 1 / 2)).e 0 0 1 ≠ 0 := by decide +kernel
-- swapping: `exC` against itself (equal record lengths), a non-real entry
example := sd_per_swap_conj exC exC (1 / 100) 4 2 tw4 rfl 0 1 1
example := corPxy_swap_conj exC exC 12 tw4 rfl 0 1 1
example : (corPxy exC exC 12 tw4 0 1 1).im ≠ 0 := by decide +kernel
-- the twiddle hypotheses for the genuine roots of unity, e.g. nxseg = 1024
example := cor_hyps_roots_of_unity 512 (by decide)

-- "per": the record `exY` of `Props/C13.lean` (row 1 = −3·delay₁ of each length-4 segment of row 0)
theorem exY_delay : ∀ s t, s < welchNseg exY.c 4 0 → t < 4 →
    exY.e 1 (s * (4 - 0) + t) = (-3) * exY.e 0 (s * (4 - 0) + (t + (4 - 1 % 4)) % 4) :=
  ex_gain_delay
example := welchX_delay_window exX exYd (hann tw4) 4 4 tw4 tw4_mul tw4_period (-3) 1 0
  (fun t ht => ex_gain_delay 0 t (by decide) ht) 1
example := sd_per_gain_delay_kernel exY exY (1 / 100) 4 0 (by decide) tw4 tw4_mul tw4_period tw4_unit
  0 1 (-3) 1 exY_delay 1
-- without the adjacent-line hypothesis the plain ratio fails (line 2 of `exX` is not empty)
example : (sdEstPer exY exY (1 / 100) 4 0 tw4).e 0 1 1
    ≠ (CxS.ofReal (-3) * tw4 (1 * 1)) * (sdEstPer exY exY (1 / 100) 4 0 tw4).e 0 0 1 := by
  decide +kernel

/-- a 4-periodic record without content at line 2 (`1 − 3 − 2 + 4 = 0`) and `−3` times its delay by
    one sample; 8 samples, overlap 2: three segments. -/
def exP : Mat Rat := ⟨2, 8, fun i t =>
  if i = 0 then ([1, 3, -2, -4, 1, 3, -2, -4] : List Rat).getD t 0
  else ([12, -3, -9, 6, 12, -3, -9, 6] : List Rat).getD t 0⟩

theorem exP_delay : ∀ s t, s < welchNseg exP.c 4 2 → t < 4 →
    exP.e 1 (s * (4 - 2) + t) = (-3) * exP.e 0 (s * (4 - 2) + (t + (4 - 1 % 4)) % 4) := by
  intro s t hs ht
  have h2 : welchNseg exP.c 4 2 = 3 := by decide
  rw [h2] at hs
  interval_cases s <;> interval_cases t <;> decide +kernel

theorem exP_adj : ∀ s, s < welchNseg exP.c 4 2 →
    welchX (exP.e 0) (fun _ => 1) 4 (4 - 2) tw4 s (1 + 1) = 0
      ∧ welchX (exP.e 0) (fun _ => 1) 4 (4 - 2) tw4 s (1 + (4 - 1)) = 0 := by
  intro s hs
  have h2 : welchNseg exP.c 4 2 = 3 := by decide
  rw [h2] at hs
  interval_cases s <;> decide +kernel

example : (sdEstPer exP exP (1 / 100) 4 2 tw4).e 0 1 1
    = (CxS.ofReal (-3) * tw4 (1 * 1)) * (sdEstPer exP exP (1 / 100) 4 2 tw4).e 0 0 1 :=
  sd_per_gain_delay exP exP (1 / 100) 4 2 (by decide) tw4 tw4_mul tw4_period tw4_unit rfl 0 1 (-3) 1
    exP_delay 1 exP_adj
example : (sdEstPer exP exP (1 / 100) 4 2 tw4).e 0 0 1 ≠ 0 := by decide +kernel

-- mean removal immaterial: line 2 of 4 with `tw4` (`tw4 1, tw4 2, tw4 3 ≠ 1`), a record with non-zero mean
example := sd_per_welch_no_detrend exY exY (1 / 100) 4 2 tw4 tw4_mul tw4_period tw4_unit 0 1 2
  (by decide) (by decide +kernel) (by decide +kernel) (by decide +kernel)
example : segMean (exY.e 0) 4 2 1 ≠ 0 ∧ (sdEstPer exY exY (1 / 100) 4 2 tw4).e 0 1 2 ≠ 0 := by
  decide +kernel
-- … while at line 1 it is not (the hypothesis `tw(k−1) ≠ 1` fails there)
example : welchX (exY.e 0) (hann tw4) 4 2 tw4 1 1
    ≠ ∑ t ∈ range 4, CxS.ofReal (hann tw4 t * exY.e 0 (1 * 2 + t)) * tw4 (1 * t) := by
  decide +kernel
-- roots of unity: the numeric hypotheses
example : 2 ≤ 5 ∧ 5 + 2 ≤ 16 := by decide
example (dt : ℝ) := sd_per_welch_no_detrend_roots_of_unity ⟨2, 64, fun c u => (c : ℝ) + u⟩
  ⟨2, 64, fun c u => (c : ℝ) + u⟩ dt 16 8 0 1 5 (by decide) (by decide)
example : twR 1024 1023 ≠ 1 := twR_primitive 1024 1023 (by decide) (by decide)
-- grid-line sinusoids with the genuine roots of unity: n = 16, line 3 (`2·3 + 1 < 16`), and the
-- last admissible line of an odd length, n = 9, line 3 (`2·3 + 1 < 9`)
example (a : Nat → CxS ℝ) (dt : ℝ) (nov i j : Nat) :=
  sd_sinusoid_ratio_roots_of_unity ⟨2, 64, fun c u => (a c * CxS.conj (twR 16 (3 * u))).re⟩ dt 16 nov 3
    (by decide) (by decide) a (fun _ _ => rfl) i j
example (a : Nat → CxS ℝ) (dt : ℝ) (nov : Nat) :=
  sd_sinusoid_roots_of_unity ⟨2, 64, fun c u => (a c * CxS.conj (twR 9 (3 * u))).re⟩ dt 9 nov 3
    (by decide) (by decide) a (fun _ _ => rfl)

end PV.C13
