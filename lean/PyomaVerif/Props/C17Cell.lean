import PyomaVerif.Lemmas.Poles
/-!
# C17 — which cell of `Fn_cov` / `Xi_cov` receives which pole's variance

`Model/Unc.lean` has ONE `(jj, ii)` pass of the uncertainty loop of `ssi.SSI_poles` (`poleVar`); the
theorems of `Props/C17*.lean` are about that pass.  The table — the loops `for ii in trange(1, ordmax+1,
step)`, `for jj in range(len(lam_c))`, the pairing of `lam_d[jj]` with `r_eigvt[:, jj]`, `l_eigvt[:, jj]`,
`lam_c[jj]`, with `OO` and `PnQ1`, `PnQ2_Q3` of the SAME order, and the cell `[jj, ii]` — is the model
function `ssiPoles` (`Model/Poles.lean`, driver op `ssi_poles`, stream `ssi.SSI_poles[cov values]`).

`C17_fncov_cell`: for `step = 1`, cell `(jj, ii)` of `Fn_cov` is `|poleVar …|` of the `jj`-th eigen-triple
recorded in the pass of order `ii`, with the inverse `OO` recorded in that pass and `Jfx_l` of that pole;
`Xi_cov` holds `|cov_fx[1, 0]|` of the same `Ufx`; rows `≥ len(lam_c)` and columns never visited are NaN.
-/
namespace PV.C17Cell
open PV PV.Poles
attribute [local instance] PV.Poles.cpxOne

/-- `Jfx_l` of pole `jj` of the record `e` (Lemma 5 as coded) -/
def jfxOf (u : UncIn) (e : EigRec) (jj : Nat) : Mat Rat :=
  Unc.jfx u.pi u.dt (e.absd.getD jj 0) (e.absc.getD jj 0) (e.lamc.getD jj 0).re (e.lamc.getD jj 0).im
    (e.lamd.getD jj 0).re (e.lamd.getD jj 0).im

/-- `cov_fx[0, 0]` of the pass is the model's `poleVar` (by definition of `ufxAt`) -/
theorem var00_ufxAt (u : UncIn) (ordmax ii : Nat) (OO : Mat Rat) (e : EigRec) (jj : Nat) :
    Unc.var00 (ufxAt u ordmax ii OO e jj)
      = Unc.poleVar Cpx.ofReal Cpx.re Cpx.im ii ordmax u.Q1 u.Q2 u.Q3 OO (e.lamd.getD jj 0)
          (fun t => Cpx.conj (e.L.e t jj)) (colFn e.V jj) (jfxOf u e jj) := rfl

/-- **C17_fncov_cell.**  `ssiPoles` with `calc_unc` (`inp.unc = some u`), `step = 1`, returns `T`.  Then
    `Fn_cov`, `Xi_cov` exist, and for every order `1 ≤ ii ≤ ordmax`, with `e` the eigen-record of pass
    `ii − 1` (the call `ac2mp(AA[ii], CC[ii], dt, calc_unc=True)`) and `OO` the inverse recorded in that
    pass: for `jj < len(lam_c)`
    `Fn_cov[jj, ii] = |poleVar(ii, ordmax, Q1, Q2, Q3, OO, lam_d[jj], conj l_eigvt[:, jj], r_eigvt[:, jj],
    Jfx_l(jj))|`, `Xi_cov[jj, ii] = |cov_fx[1, 0]|` of the same pass; for `jj ≥ len(lam_c)` both are NaN;
    column 0 is NaN. -/
theorem C17_fncov_cell (inp : SsiIn) (u : UncIn) (hu : inp.unc = some u) (hstep : inp.step = 1)
    (T : SsiTables) (hT : ssiPoles inp = .ok T) :
    ∃ FC XC, T.fnCov = some FC ∧ T.xiCov = some XC
      ∧ (∀ ii, 1 ≤ ii → ii ≤ inp.ordmax → ∀ jj,
          (jj < (inp.recs.getD (ii - 1) EigRec.empty).lamc.length →
            FC.e jj ii = some (qabs (Unc.poleVar Cpx.ofReal Cpx.re Cpx.im ii inp.ordmax u.Q1 u.Q2 u.Q3
                (u.OO.getD (ii - 1) ⟨0, 0, fun _ _ => 0⟩)
                ((inp.recs.getD (ii - 1) EigRec.empty).lamd.getD jj 0)
                (fun t => Cpx.conj ((inp.recs.getD (ii - 1) EigRec.empty).L.e t jj))
                (colFn (inp.recs.getD (ii - 1) EigRec.empty).V jj)
                (jfxOf u (inp.recs.getD (ii - 1) EigRec.empty) jj)))
            ∧ XC.e jj ii = some (qabs (var10 (ufxAt u inp.ordmax ii
                (u.OO.getD (ii - 1) ⟨0, 0, fun _ _ => 0⟩) (inp.recs.getD (ii - 1) EigRec.empty) jj))))
          ∧ ((inp.recs.getD (ii - 1) EigRec.empty).lamc.length ≤ jj →
              FC.e jj ii = none ∧ XC.e jj ii = none))
      ∧ ∀ jj, FC.e jj 0 = none ∧ XC.e jj 0 = none := by
  obtain ⟨_, _, _, hsome, hpass, hoth⟩ := ssiPoles_spec inp T hT
  have hF : T.fnCov.isSome = true := by rw [hsome.1, hu]; rfl
  have hX : T.xiCov.isSome = true := by rw [hsome.2.1, hu]; rfl
  obtain ⟨FC, hFC⟩ := Option.isSome_iff_exists.mp hF
  obtain ⟨XC, hXC⟩ := Option.isSome_iff_exists.mp hX
  refine ⟨FC, XC, hFC, hXC, ?_, ?_⟩
  · intro ii h1 hii jj
    have hord : 1 + (ii - 1) * inp.step = ii := by rw [hstep]; omega
    obtain ⟨A, C, _, _, _, _, _, _, _, _, _, hcov⟩ := hpass (ii - 1) (by rw [hord]; exact hii)
    obtain ⟨c1, c2⟩ := hcov u hu jj
    rw [hord, hFC] at c1
    rw [hord, hXC] at c2
    have hl : (passOut inp (ii - 1) C).lamc.length
        = (inp.recs.getD (ii - 1) EigRec.empty).lamc.length := rfl
    rw [hl] at c1 c2
    constructor
    · intro hjj
      rw [if_pos hjj] at c1 c2
      exact ⟨by rw [← var00_ufxAt]; exact c1, c2⟩
    · intro hjj
      rw [if_neg (by omega)] at c1 c2
      exact ⟨c1, c2⟩
  · intro jj
    obtain ⟨h0, _⟩ := hoth 0 (by intro k hk; omega)
    obtain ⟨_, _, _, f0, x0⟩ := h0 jj
    rw [hFC] at f0
    rw [hXC] at x0
    exact ⟨f0, x0⟩

/-! ## Non-vacuity: one channel, `ordmax = 1`, one perturbation column -/

def exRec : EigRec := ⟨[⟨1/2, 0⟩], ⟨1, 1, fun _ _ => ⟨1, 0⟩⟩, ⟨1, 1, fun _ _ => ⟨2, 0⟩⟩, [⟨-7, 0⟩], [7], [1/2]⟩
def exUnc : UncIn := ⟨⟨1, 1, fun _ _ => 3⟩, ⟨1, 1, fun _ _ => 5⟩, ⟨1, 1, fun _ _ => -1⟩, [⟨1, 1, fun _ _ => 1/4⟩], 3, 1/10⟩
def exInp : SsiIn :=
  ⟨[⟨0, 0, fun _ _ => 0⟩, ⟨1, 1, fun _ _ => 1/2⟩], [⟨1, 0, fun _ _ => 0⟩, ⟨1, 1, fun _ _ => 2⟩], 1, 1, [exRec], 6,
    some exUnc⟩

theorem ex_ok : ∃ T, ssiPoles exInp = .ok T := by
  refine ssiPoles_ok exInp rfl (by decide) (by decide) ?_ ?_
  · intro ii h
    have h' : ii < 2 := h
    obtain rfl | rfl : ii = 0 ∨ ii = 1 := by omega
    all_goals rfl
  · intro k hk
    have h' : k < 1 := hk
    obtain rfl : k = 0 := by omega
    decide

/-- all hypotheses of `C17_fncov_cell` hold jointly; the cell `(0, 1)` of `Fn_cov` is `|poleVar|` of the
    one recorded eigen-triple and does not vanish -/
theorem ex_cell : ∃ T FC, ssiPoles exInp = .ok T ∧ T.fnCov = some FC ∧ FC.e 0 1 ≠ some 0
    ∧ FC.e 0 1 ≠ none := by
  obtain ⟨T, hT⟩ := ex_ok
  obtain ⟨FC, XC, hF, _, hcell, _⟩ := C17_fncov_cell exInp exUnc rfl rfl T hT
  obtain ⟨h1, _⟩ := (hcell 1 (by decide) (by decide) 0).1 (by decide)
  refine ⟨T, FC, hT, hF, ?_, ?_⟩
  · rw [h1]; decide +kernel
  · rw [h1]; simp

end PV.C17Cell
