import PyomaVerif.Props.C03E2E
import PyomaVerif.Props.C03C11
import PyomaVerif.Props.C01Table
/-!
# C03 (multi-setup SSI) concluded on the tables `ssi.SSI_poles` returns

`SSI_multi_setup` ends with the same list-building loop as `SSI_fast` (`fastLists` with `Obs_all`, `n_DOF`);
the class then calls `SSI_poles` on those lists.

* `C03_e2e_table` — from the `Conclusion` of `C03_e2e_cov` / `C03_e2e_dat` (global realised pair, mode
  `Recovered` over all sensors) to the cells of the tables the model `ssiPoles` returns on the lists
  `fastLists` builds: `ModeInTable` with the global shape `C_g[order]·w`.
* `C03_columnFilled` — the hypothesis `ColumnFilled` of `C03C11_global` (column `n` of the tables filled by
  `ac2mp` from the order-`n` pair) derived from a returning `ssiPoles` call.
-/
namespace PV.C03Table
open PV PV.Mat PV.Cov PV.FreeVib PV.MsFreeVib PV.Multi PV.C01E2E PV.C03C11 PV.C03E2E PV.Poles PV.C01Table
  Matrix Finset

/-- **C03_e2e_table.**  `Conclusion` of the multi-setup end-to-end theorems for the realised pair of order
    `n` built with the inverse `Rinvs n`, the eigen-record `e` of the `ac2mp` call for order `n`
    (`recs[n−1] = e`, `n` values of `λ_c`, `|λ_c|`), no record longer than `N`.  Then `ssiPoles` on the lists
    of `SSI_multi_setup` returns `N × (N+1)` tables whose column `n` has nothing below row `n` and holds
    every global mode: frequency, damping, pole, and the shape `normalise (C_g[order]·w)` over all
    sensors. -/
theorem C03_e2e_table {n : ℕ} (A : Matrix (Fin n) (Fin n) ℚ) (Cg : ℕ → Fin n → ℚ) (br N : ℕ)
    (refIds : List ℕ) (movIds : List (List ℕ)) (hne : movIds ≠ [])
    (U : ℕ → Mat ℚ) (S sq : ℕ → ℕ → ℚ) (P : ℕ → Mat ℚ) (Q : Mat ℚ) (Rinvs : ℕ → Mat ℚ)
    (e : EigRec) (dt : ℝ) (lam : Cpx ℚ) (w : Fin n → Cpx ℚ) (mu : ℂ)
    (hcon : Conclusion A Cg br N refIds movIds U S sq P Q (Rinvs n) e.V (lamsOf e) dt lam w mu)
    (recs : List EigRec) (twoPi : ℚ) (hn1 : 1 ≤ n) (hrecs : recs[n - 1]? = some e)
    (hlc : e.lamc.length = n) (hla : e.absc.length = n)
    (hwf : ∀ k, k < N → (recs.getD k EigRec.empty).absc.length ≤ N) :
    ∃ T, ssiPoles ⟨(fastLists Rinvs Q (obsAllOf br N refIds movIds U sq P) (nDof refIds movIds) N 1).1,
          (fastLists Rinvs Q (obsAllOf br N refIds movIds U sq P) (nDof refIds movIds) N 1).2, N, 1, recs,
          twoPi, none⟩ = .ok T
      ∧ (T.fn.r = N ∧ T.fn.c = N + 1)
      ∧ (∀ r, n ≤ r → T.fn.e r n = none ∧ T.xi.e r n = none ∧ T.lam.e r n = none
          ∧ ∀ t, T.phi.e r n t = none)
      ∧ ModeInTable (msC Cg (orderOf refIds movIds)) (nDof refIds movIds) dt lam w mu e twoPi T := by
  obtain ⟨hrank, _, hrec⟩ := hcon
  obtain ⟨m0, h0⟩ : ∃ m0, movIds[0]? = some m0 := by
    cases hmov : movIds with
    | nil => exact absurd hmov hne
    | cons x xs => exact ⟨x, rfl⟩
  have hn : n ≤ N := (hrank 0 m0 h0).1
  obtain ⟨T, hTok⟩ := ssiPoles_fast_ok Rinvs Q (obsAllOf br N refIds movIds U sq P)
    (nDof refIds movIds) N recs twoPi hwf
  obtain ⟨h1, h2, h3⟩ := C01_table_of_recovered A _ (nDof refIds movIds) dt lam w mu _ _ e hrec
    ⟨(fastLists Rinvs Q (obsAllOf br N refIds movIds U sq P) (nDof refIds movIds) N 1).1,
      (fastLists Rinvs Q (obsAllOf br N refIds movIds U sq P) (nDof refIds movIds) N 1).2, N, 1, recs,
      twoPi, none⟩ rfl hn1 hn
    (fastLists_get Rinvs Q (obsAllOf br N refIds movIds U sq P) (nDof refIds movIds) N n hn).2
    hrecs hlc hla T hTok
  exact ⟨T, hTok, h1, h2, h3⟩

/-- **`ColumnFilled` derived.**  `ssiPoles` (`step = 1`) returns `T`; `CC[n] = C`; the eigen-record of the
    call for order `n` is `e` with `n` eigenvalues / eigenvector columns.  Then column `n` of `T` is
    `ColumnFilled` by `ac2mp` from `(C, e)`: the hypothesis `hcol` of `C03C11_global` (there with
    `shapesOf` of the complexified `C`). -/
theorem C03_columnFilled (inp : SsiIn) (hstep : inp.step = 1) (n : ℕ) (hn1 : 1 ≤ n)
    (hno : n ≤ inp.ordmax) (C : Mat ℚ) (hCC : inp.CC[n]? = some C) (e : EigRec)
    (hrecs : inp.recs[n - 1]? = some e) (hlc : e.lamc.length = n) (hla : e.absc.length = n)
    (hV : e.V.c = n) (T : SsiTables) (hT : ssiPoles inp = .ok T) :
    ColumnFilled T.fn T.xi T.phi n (fun r => e.lamc.getD r 0) (fun r => e.absc.getD r 0) inp.twoPi
      (shapesOf (cplxM C) e.V) := by
  obtain ⟨_, _, _, _, hpass, _⟩ := ssiPoles_spec inp T hT
  have hii : 1 + (n - 1) * inp.step = n := by rw [hstep]; omega
  obtain ⟨A', C', _, hC', _, _, hd, hfn, hxi, _, hphi, _⟩ := hpass (n - 1) (by omega)
  rw [hii] at hC' hfn hxi hphi
  rw [hCC] at hC'
  obtain rfl : C = C' := Option.some.inj hC'
  have hpo : passOut inp (n - 1) C = ac2mp C e inp.twoPi := by
    unfold passOut
    rw [List.getD_eq_getElem?_getD, hrecs]
    rfl
  rw [hpo] at hfn hxi hphi
  have hfl : (ac2mp C e inp.twoPi).fn.length = n := by simp [ac2mp, hla]
  rw [hfl] at hxi hphi
  refine ⟨?_, ?_, ?_⟩
  · intro r hr
    have ha : e.absc[r]? = some (e.absc.getD r 0) := by
      rw [List.getD_eq_getElem?_getD, List.getElem?_eq_getElem (by omega)]; rfl
    rw [hfn r]
    show (e.absc.map (fun a => fnOf a inp.twoPi))[r]? = _
    rw [List.getElem?_map, ha]; rfl
  · intro r hr
    have ha : e.absc[r]? = some (e.absc.getD r 0) := by
      rw [List.getD_eq_getElem?_getD, List.getElem?_eq_getElem (by omega)]; rfl
    have hl : e.lamc[r]? = some (e.lamc.getD r 0) := by
      rw [List.getD_eq_getElem?_getD, List.getElem?_eq_getElem (by omega)]; rfl
    rw [hxi r, if_pos hr]
    show (List.zipWith xiOf e.lamc e.absc)[r]? = _
    rw [List.getElem?_zipWith, hl, ha]
  · intro r hr
    unfold ten3Row
    have hlen : ((shapesOf (cplxM C) e.V).getD r []).length = T.phi.d := by
      rw [← hd]
      unfold shapesOf
      rw [List.getD_eq_getElem?_getD, List.getElem?_map, List.getElem?_range (by omega)]
      simp [normalise, cplxM]
    apply List.ext_getElem
    · rw [List.length_map, List.length_range, List.length_map, hlen]
    · intro k h1 h2
      simp only [List.getElem_map, List.getElem_range]
      rw [hphi r k, if_pos hr]
      have : (ac2mp C e inp.twoPi).phi = shapesOf (cplxM C) e.V := rfl
      rw [this]
      have hk : k < ((shapesOf (cplxM C) e.V).getD r []).length := by simpa using h2
      rw [List.getElem?_eq_getElem hk]
      rfl

/-! ## Non-vacuity: the two-setup instance of `Props/C03E2E.lean` (`Ex`), with the eigen-records of
`Props/C01Table.lean` -/
namespace Ex
open PV.C03E2E.Ex

theorem table : ∃ T, ssiPoles ⟨(fastLists (fun _ => Rinv) Q (obsAllOf 3 2 refIds movIds U sq P)
        (nDof refIds movIds) 2 1).1,
      (fastLists (fun _ => Rinv) Q (obsAllOf 3 2 refIds movIds U sq P) (nDof refIds movIds) 2 1).2, 2, 1,
      [C01Table.ExDat.e1, C01Table.ExDat.e2], 7, none⟩ = .ok T
    ∧ (T.fn.r = 2 ∧ T.fn.c = 2 + 1)
    ∧ (∀ r, 2 ≤ r → T.fn.e r 2 = none ∧ T.xi.e r 2 = none ∧ T.lam.e r 2 = none
        ∧ ∀ t, T.phi.e r 2 t = none)
    ∧ ModeInTable (msC Cg (orderOf refIds movIds)) (nDof refIds movIds) (1 / 100) C01E2E.ExDat.lam
        C01E2E.ExDat.w C01E2E.ExDat.mu C01Table.ExDat.e2 7 T :=
  C03_e2e_table A Cg 3 2 refIds movIds (by decide) U S sq P Q (fun _ => Rinv) C01Table.ExDat.e2 (1 / 100)
    C01E2E.ExDat.lam C01E2E.ExDat.w C01E2E.ExDat.mu
    (C03_e2e_cov A Cg 3 2 (by decide) refIds movIds (by decide) (by decide) g x0 Y (fun _ => 1) U
      (fun _ => V0) P S sq hset Olr hObsR Olg hObsG Q R Rinv hqr _ _
      (eigOf_congr (C01E2E.ExDat.eig_of _ (by decide +kernel)) (fun k hk => by
        obtain rfl | rfl : k = 0 ∨ k = 1 := by omega
        all_goals rfl))
      (1 / 100) (by norm_num) _ _ _ C01E2E.ExDat.mode)
    [C01Table.ExDat.e1, C01Table.ExDat.e2] 7 (by decide) rfl rfl rfl
    (fun k hk => by
      obtain rfl | rfl : k = 0 ∨ k = 1 := by omega
      all_goals decide)

/-- … and `C03_columnFilled` on the same call -/
example : ∃ T : SsiTables, ColumnFilled T.fn T.xi T.phi 2 (fun r => C01Table.ExDat.e2.lamc.getD r 0)
    (fun r => C01Table.ExDat.e2.absc.getD r 0) 7
    (shapesOf (cplxM (outC (obsAllOf 3 2 refIds movIds U sq P) (nDof refIds movIds) 2))
      C01Table.ExDat.e2.V) := by
  obtain ⟨T, hT, _⟩ := table
  exact ⟨T, C03_columnFilled _ rfl 2 (by decide) (by decide) _
    (fastLists_get (fun _ => Rinv) Q (obsAllOf 3 2 refIds movIds U sq P) (nDof refIds movIds) 2 2
      (by decide)).2 _ rfl rfl rfl rfl T hT⟩

end Ex

end PV.C03Table
