import PyomaVerif.Lemmas.HcProg
/-!
# C09 — the in-place form `X[np.logical_not(m)] = np.nan` (`Stmt.blank`)

`Stmt.blank` is the one in-place write the translator models instead of refusing. Its soundness
is part of `PV.Hc.arun_sound` (case `blank` of `step_sound`). Here: in the concrete semantics it
is exactly what `applymask` does to a one-element list, written back to the same variable; a
`run()` body that applies one mask to every table by in-place blanking passes the sequencing
obligation, one that blanks a single table only does not.
-/
namespace PV.C09Blank
open PV.Hc

variable {Idx Val : Type}

/-- `x[np.logical_not(m)] = np.nan` leaves in `x` what `[x] = gen.applymask([x], m, _)` leaves
    there, and fails (`none`) exactly when the latter does — for every table, mask and meaning of
    the criteria. Hypothesis `hx`: `x` holds an array (for `None` Python raises, the model is
    stuck, whereas `applymask` passes `None` through); `hlm`: the list is not bound to the mask's name. -/
theorem blank_eq_applymask (S : Sem Idx Val) (e : CEnv Idx Val) (x m l : Var) (t : Idx → Option Val)
    (hx : e x = some (.tbl t)) (hlm : l ≠ m) :
    (crun S e [.blank x m]).bind (fun e' => e' x) =
      (crun S e [.bind l [x], .apply [x] l m]).bind (fun e' => e' x) := by
  cases hm : e m with
  | none => simp [crun, cexec, hx, hm, lookList, CEnv.set, hlm.symm]
  | some v =>
    cases v with
    | mask mk =>
      simp [crun, cexec, hx, hm, lookList, CEnv.set, hlm.symm, setMany, maskO]
    | tbl _ => simp [crun, cexec, hx, hm, lookList, CEnv.set, hlm.symm]
    | none => simp [crun, cexec, hx, hm, lookList, CEnv.set, hlm.symm]
    | lst _ => simp [crun, cexec, hx, hm, lookList, CEnv.set, hlm.symm]

/-- non-vacuity of `blank_eq_applymask`, and the value both sides have -/
example : ∃ (S : Sem Nat Nat) (e : CEnv Nat Nat),
    e "X" = some (.tbl fun i => some i) ∧
    ((crun S e [.blank "X" "m"]).bind (fun e' => e' "X")).isSome = true := by
  refine ⟨⟨fun _ _ => none, fun _ _ => false, fun _ _ => rfl, fun _ _ => false⟩,
    fun y => if y = "X" then some (.tbl fun i => some i) else if y = "m" then some (.mask fun i => i % 2 = 0) else none,
    by simp, ?_⟩
  simp [crun, cexec, CEnv.set]

/-- `pLSCF.run` with the damping mask applied by in-place blanking of both remaining tables
    (the scratch tree `d4b` of the depth round), as the translator emits it -/
def prog_pLSCF_blank : ClassProg :=
  { init := [("Fns", Tbl.fn), ("Xis", Tbl.xi), ("Phis", Tbl.phi), ("Lambds", Tbl.lam)],
    prog := [
    ([Guard.conjOn], Stmt.hc1 (Crit.conj) "Lambds" "mask1" "Lambds"),
    ([Guard.conjOn], Stmt.bind "lista" ["Fns", "Xis", "Phis"]),
    ([Guard.conjOn], Stmt.apply ["Fns", "Xis", "Phis"] "lista" "mask1"),
    ([], Stmt.hc1 (Crit.damp Thr.xiMax) "Xis" "mask2" "Xis"),
    ([], Stmt.blank "Fns" "mask2"),
    ([], Stmt.blank "Phis" "mask2"),
    ([], Stmt.hcPhi "mask3" "mask4" "Phis" Thr.mpcLim Thr.mpdLim),
    ([], Stmt.bind "lista" ["Fns", "Xis", "Phis"]),
    ([], Stmt.apply ["Fns", "Xis", "Phis"] "lista" "mask3"),
    ([], Stmt.bind "lista" ["Fns", "Xis", "Phis"]),
    ([], Stmt.apply ["Fns", "Xis", "Phis"] "lista" "mask4"),
    ([], Stmt.bind "Lab" ["Fns", "Xis", "Phis"])],
    ret := [("freq", "freq"), ("Sy", "Sy"), ("Ad", "Ad"), ("Bn", "Bn"), ("Fn_poles", "Fns"), ("Xi_poles", "Xis"), ("Phi_poles", "Phis"), ("Lab", "Lab")],
    lab := "Lab" }

/-- blanking every table in place discharges the obligation … -/
theorem blank_all_tables_ok : ∀ conjOn, check prog_pLSCF_blank requiredPLSCF conjOn false = true := by decide

/-- … blanking one table only does not (the mode-shape table keeps the over-damped poles) -/
def prog_pLSCF_blank_one : ClassProg :=
  { prog_pLSCF_blank with prog := prog_pLSCF_blank.prog.filter (fun gs => gs.2 ≠ Stmt.blank "Phis" "mask2") }

theorem blank_one_table_fails : ∀ conjOn, check prog_pLSCF_blank_one requiredPLSCF conjOn false = false := by decide

/-- what the one-table variant really stores in `Phi_poles`: the damping criterion is missing -/
theorem blank_one_table_misses_damp :
    (arun (initEnv false prog_pLSCF_blank_one.init) (select false false prog_pLSCF_blank_one.prog)).map
      (fun a => holds a "Phis" .phi [.mpd .mpdLim, .mpc .mpcLim]) = some true := by decide

/-- blanking a variable that holds `None` (an absent covariance table) is a stuck state, as the
    `TypeError` of Python is: the obligation fails -/
theorem blank_none_stuck :
    arun (initEnv false [("Fn_cov", Tbl.fncov)]) [.blank "Fn_cov" "m"] = none := by decide

end PV.C09Blank
