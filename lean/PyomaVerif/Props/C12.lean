import PyomaVerif.Model.Hankel
import PyomaVerif.Lemmas.Sum
import Mathlib.Tactic.Ring
import Mathlib.Algebra.Field.Basic
import Mathlib.LinearAlgebra.Matrix.NonsingularInverse
/-!
# C12 — layout of the SSI Hankel/Toeplitz matrix (`ssi.build_hank`)
Property theorems only. All are for every channel count, reference count, block-row
count and record length.
-/
namespace PV.C12
open PV PV.Mat Finset

/-- shape: `(br+1)·l` rows and `(br+1)·r` columns for the moment-matrix method. -/
theorem C12_shape_mm {K} [Zero K] [Add K] [Mul K] (Y Yref : Mat K) (p : Nat) (s : K) :
    (hankMM Y Yref p s).r = (p + 1) * Y.r ∧ (hankMM Y Yref p s).c = (p + 1) * Yref.r := by
  simp [hankMM, hankYf, hankYp, mulT, vstackN]

/-- shape for the correlation (Toeplitz) method. -/
theorem C12_shape_R {K} [Zero K] [Add K] [Mul K] (Y Yref : Mat K) (p : Nat) (w : Nat → K) :
    (hankR Y Yref p w).r = (p + 1) * Y.r ∧ (hankR Y Yref p w).c = (p + 1) * Yref.r := by
  simp [hankR, vstackN]

/-- shape for the data-driven method, when `R` is the `(r+l)(p+1)`-square triangular
    factor of the stacked data matrix. -/
theorem C12_shape_dat {K} (R : Mat K) (l r p : Nat)
    (_hr : R.r = (r + l) * (p + 1)) (hc : R.c = (r + l) * (p + 1)) :
    (hankDatOfR R r p).r = (p + 1) * l ∧ (hankDatOfR R r p).c = (p + 1) * r := by
  simp only [hankDatOfR, transpose, hc]
  constructor
  · rw [Nat.add_mul, Nat.add_sub_cancel_left, Nat.mul_comm]
  · rw [Nat.mul_comm]

/-- **Moment-matrix entry formula.** Entry (block `i`, channel `a`; block `j`, reference `b`)
    is `s² · Σ_t Y[a, p+2+i+t] · Yref[b, p+1−j+t]` over the `N−1` averaged products:
    one single lag `(p+2+i) − (p+1−j) = i+j+1`, uniform weights, data leading reference,
    in every block. -/
theorem C12_mm_entry {K} [Field K] (Y Yref : Mat K) (p : Nat) (s : K)
    (i a j b : Nat) (ha : a < Y.r) (hb : b < Yref.r) (_hj : j ≤ p) :
    (hankMM Y Yref p s).e (i * Y.r + a) (j * Yref.r + b)
      = (s * s) * ∑ t ∈ range (Y.c - p - (p + 1) - 1),
          Y.e a (p + 2 + i + t) * Yref.e b (p + 1 - j + t) := by
  simp only [hankMM, hankYf, hankYp, mulT, vstackN, scale, colSlice, sumTo_eq,
    blk_div i ha, blk_mod i ha, blk_div j hb, blk_mod j hb]
  rw [Finset.mul_sum]
  apply Finset.sum_congr rfl
  intro t _
  have : p + 1 + 1 + i + t = p + 2 + i + t := by omega
  rw [this]; ring

/-- the lag of that entry, stated as an equation between the two sample indices. -/
theorem C12_mm_lag (p i j t : Nat) (hj : j ≤ p) :
    (p + 2 + i + t) - (p + 1 - j + t) = i + j + 1 := by omega

/-- **Correlation-matrix entry formula.** Entry (block row `i`, channel `a`; block column `j`,
    reference `b`) is `w k · Σ_{t < Ndat−k} Y[a,t]·Yref[b,t+k]` with the single lag
    `k = p + i − j`, uniform weights, reference leading data, in every block. -/
theorem C12_R_entry {K} [Field K] (Y Yref : Mat K) (p : Nat) (w : Nat → K)
    (i a j b : Nat) (ha : a < Y.r) (hb : b < Yref.r) :
    (hankR Y Yref p w).e (i * Y.r + a) (j * Yref.r + b)
      = w (p + i - j) * ∑ t ∈ range (Y.c - (p + i - j)),
          Y.e a t * Yref.e b (p + i - j + t) := by
  simp only [hankR, corrR, mulT, vstackN, hstackN, scale, colSlice, sumTo_eq,
    blk_div i ha, blk_mod i ha, blk_div j hb, blk_mod j hb]
  congr 1
  apply Finset.sum_congr
  · simp
  · intro t _; simp

/-- bilinearity of the moment-matrix map: additive in the data … -/
theorem C12_mm_add_left {K} [Field K] (Y Y' Yref : Mat K) (p : Nat) (s : K)
    (hr : Y'.r = Y.r) (hc : Y'.c = Y.c) (i k : Nat) :
    (hankMM (Mat.add Y Y') Yref p s).e i k
      = (hankMM Y Yref p s).e i k + (hankMM Y' Yref p s).e i k := by
  simp only [hankMM, hankYf, hankYp, mulT, vstackN, scale, colSlice, sumTo_eq, Mat.add, hr, hc]
  rw [← Finset.sum_add_distrib]
  apply Finset.sum_congr rfl
  intro t _; ring

/-- … additive in the reference data … -/
theorem C12_mm_add_right {K} [Field K] (Y Yref Yref' : Mat K) (p : Nat) (s : K)
    (hr : Yref'.r = Yref.r) (i k : Nat) :
    (hankMM Y (Mat.add Yref Yref') p s).e i k
      = (hankMM Y Yref p s).e i k + (hankMM Y Yref' p s).e i k := by
  simp only [hankMM, hankYf, hankYp, mulT, vstackN, scale, colSlice, sumTo_eq, Mat.add, hr]
  rw [← Finset.sum_add_distrib]
  apply Finset.sum_congr rfl
  intro t _; ring

/-- … and homogeneous in each argument (so a common gain `g` scales it by `g²`). -/
theorem C12_mm_smul {K} [Field K] (Y Yref : Mat K) (p : Nat) (s g h : K) (i k : Nat) :
    (hankMM (scale g Y) (scale h Yref) p s).e i k = g * h * (hankMM Y Yref p s).e i k := by
  simp only [hankMM, hankYf, hankYp, mulT, vstackN, scale, colSlice, sumTo_eq]
  rw [Finset.mul_sum]
  apply Finset.sum_congr rfl
  intro t _; ring

theorem C12_R_add_left {K} [Field K] (Y Y' Yref : Mat K) (p : Nat) (w : Nat → K)
    (hr : Y'.r = Y.r) (hc : Y'.c = Y.c) (i k : Nat) :
    (hankR (Mat.add Y Y') Yref p w).e i k
      = (hankR Y Yref p w).e i k + (hankR Y' Yref p w).e i k := by
  simp only [hankR, corrR, mulT, vstackN, hstackN, scale, colSlice, sumTo_eq, Mat.add, hr, hc]
  rw [← mul_add, ← Finset.sum_add_distrib]
  congr 1
  apply Finset.sum_congr rfl
  intro t _; ring

theorem C12_R_add_right {K} [Field K] (Y Yref Yref' : Mat K) (p : Nat) (w : Nat → K)
    (hr : Yref'.r = Yref.r) (i k : Nat) :
    (hankR Y (Mat.add Yref Yref') p w).e i k
      = (hankR Y Yref p w).e i k + (hankR Y Yref' p w).e i k := by
  simp only [hankR, corrR, mulT, vstackN, hstackN, scale, colSlice, sumTo_eq, Mat.add, hr]
  rw [← mul_add, ← Finset.sum_add_distrib]
  congr 1
  apply Finset.sum_congr rfl
  intro t _; ring

theorem C12_R_smul {K} [Field K] (Y Yref : Mat K) (p : Nat) (w : Nat → K) (g h : K) (i k : Nat) :
    (hankR (scale g Y) (scale h Yref) p w).e i k = g * h * (hankR Y Yref p w).e i k := by
  simp only [hankR, corrR, mulT, vstackN, hstackN, scale, colSlice, sumTo_eq]
  rw [Finset.mul_sum, Finset.mul_sum, Finset.mul_sum]
  apply Finset.sum_congr rfl
  intro t _; ring

open Matrix in
/-- **Projection identity of the data-driven matrix.** If the stacked data satisfy
    `Yp = L₁₁·Q₁ᵀ`, `Yf = L₂₁·Q₁ᵀ + L₂₂·Q₂ᵀ` (this is `[Yp;Yf]ᵀ = Q·R` with `Rᵀ` lower
    block-triangular — the contract of `np.linalg.qr(..., mode="r")`) with orthonormal
    `Q = [Q₁ Q₂]`, and `Yp·Ypᵀ` is invertible, then the block the code returns, `H = L₂₁`,
    has the Gram matrix of the orthogonal projection of the future outputs onto the
    past reference outputs: `H·Hᵀ = Yf·Ypᵀ·(Yp·Ypᵀ)⁻¹·Yp·Yfᵀ`. -/
theorem C12_dat_gram {K} [Field K] {a b n : Nat}
    (L11 : Matrix (Fin a) (Fin a) K) (L21 : Matrix (Fin b) (Fin a) K) (L22 : Matrix (Fin b) (Fin b) K)
    (Q1 : Matrix (Fin n) (Fin a) K) (Q2 : Matrix (Fin n) (Fin b) K)
    (Yp : Matrix (Fin a) (Fin n) K) (Yf : Matrix (Fin b) (Fin n) K)
    (h11 : Q1ᵀ * Q1 = 1) (h21 : Q2ᵀ * Q1 = 0)
    (hYp : Yp = L11 * Q1ᵀ) (hYf : Yf = L21 * Q1ᵀ + L22 * Q2ᵀ)
    (W : Matrix (Fin a) (Fin a) K) (hW : (Yp * Ypᵀ) * W = 1) :
    L21 * L21ᵀ = Yf * Ypᵀ * W * (Yp * Yfᵀ) := by
  have hPP : Yp * Ypᵀ = L11 * L11ᵀ := by
    rw [hYp, Matrix.transpose_mul, Matrix.transpose_transpose, Matrix.mul_assoc,
      ← Matrix.mul_assoc Q1ᵀ, h11, Matrix.one_mul]
  have hFP : Yf * Ypᵀ = L21 * L11ᵀ := by
    rw [hYp, hYf, Matrix.transpose_mul, Matrix.transpose_transpose, Matrix.add_mul,
      Matrix.mul_assoc, ← Matrix.mul_assoc Q1ᵀ, h11, Matrix.one_mul,
      Matrix.mul_assoc L22, ← Matrix.mul_assoc Q2ᵀ, h21, Matrix.zero_mul, Matrix.mul_zero, add_zero]
  have hPF : Yp * Yfᵀ = L11 * L21ᵀ := by
    have := congrArg Matrix.transpose hFP
    simpa [Matrix.transpose_mul] using this
  -- L11 L11ᵀ W = 1 ⇒ L11ᵀ W L11 = 1
  have h1 : L11 * (L11ᵀ * W) = 1 := by rw [← Matrix.mul_assoc, ← hPP, hW]
  have h2 : (L11ᵀ * W) * L11 = 1 := mul_eq_one_comm.mp h1
  rw [hFP, hPF]
  calc L21 * L21ᵀ = L21 * ((L11ᵀ * W) * L11) * L21ᵀ := by rw [h2, Matrix.mul_one]
    _ = L21 * L11ᵀ * W * (L11 * L21ᵀ) := by simp only [Matrix.mul_assoc]

/-! ### Non-vacuity: a concrete 2-channel, 1-reference record, `br = 1`. -/
def exY : Mat Rat := ⟨2, 9, fun i t => if i = 0 then (t : Rat) * t else 1 - (t : Rat)⟩
def exYr : Mat Rat := ⟨1, 9, fun _ t => (t : Rat) * t⟩
example : (hankMM exY exYr 1 1).r = 4 ∧ (hankMM exY exYr 1 1).c = 2 := by decide
example : (hankMM exY exYr 1 1).e (1 * 2 + 0) (1 * 1 + 0) = 4*4*1*1 + 5*5*2*2 + 6*6*3*3 + 7*7*4*4 + 8*8*5*5 := by
  decide +kernel
end PV.C12
