import PyomaVerif.Props.C01Stored
import PyomaVerif.Props.C18
import PyomaVerif.Model.Defaults
/-!
# C01 through the classes with the DEFAULT hard criteria

`C01_stored` takes the limits of the hard criteria as free rationals and `C01_stored_neutral` the neutral ones the
class-level oracle passes.  A user who gives no `hc` gets the defaults of the run-parameter class; here the limits are
the values READ FROM THE TESTED TREE (`Generated/Defaults.lean`, `PV.Defaults.rpRat`): for a mode whose true shape is
real up to one complex factor (MPC = 1, MPD = 0 by the C18 closed forms) and whose damping lies below the generated
`xi_max`, the cell survives the run under the generated default criteria.  The property's damping range (up to 8 %)
lies below the generated `xi_max` (`C01_default_covers_domain`).
-/
namespace PV.C01StoredDefault
open PV PV.Mat PV.Cov PV.Hc PV.HcFn PV.C09 PV.C09C18 PV.C09All PV.Stored PV.C09Stored PV.FreeVib PV.C11 PV.C01E2E PV.C01Stored
open PV.Defaults PV.DefaultsTbl
open Matrix

/-- the default hard criteria of algorithm class `c`, as generated from the source -/
def conjD (c : String) : Bool := rpDefault c "hc.conj" == some (.bool true)
def xiMaxD (c : String) : ℚ := (rpRat c "hc.xi_max").getD 0
def mpcLimD (c : String) : ℚ := (rpRat c "hc.mpc_lim").getD 0
def mpdLimD (c : String) : ℚ := (rpRat c "hc.mpd_lim").getD 0
def covMaxD (c : String) : ℚ := (rpRat c "hc.cov_max").getD 0

theorem ratOf (c f : String) (n : Int) (d : Nat) (h : rpDefault c f = some (.float n d)) :
    (rpRat c f).getD 0 = (n : ℚ) / (d : ℚ) := by
  simp [rpRat, h, Val.toRat?]

/-- what the proof needs of the generated defaults, for each of the six classes: the conjugate criterion is on,
    `mpc_lim ≤ 1` (a real shape, MPC = 1, passes), `0 ≤ mpd_lim` (MPD = 0 passes) and `0 < xi_max` -/
theorem default_limits (cl : ClassSpec) (hcl : cl ∈ classes) :
    conjD cl.name = true ∧ 0 < xiMaxD cl.name ∧ mpcLimD cl.name ≤ 1 ∧ 0 ≤ mpdLimD cl.name := by
  simp only [classes, List.mem_cons, List.not_mem_nil, or_false] at hcl
  rcases hcl with rfl | rfl | rfl | rfl | rfl | rfl
  all_goals
    refine ⟨by decide, ?_, ?_, ?_⟩
    · show 0 < (rpRat _ "hc.xi_max").getD 0
      rw [ratOf _ _ 1 10 (by decide)]; norm_num
    · show (rpRat _ "hc.mpc_lim").getD 0 ≤ 1
      rw [ratOf _ _ 7 10 (by decide)]; norm_num
    · show 0 ≤ (rpRat _ "hc.mpd_lim").getD 0
      rw [ratOf _ _ 3 10 (by decide)]; norm_num

/-- **the property's damping range passes the default damping criterion**: every damping ratio up to 8 % (the
    quantifier of C01) is below the generated default `xi_max` of each of the four SSI classes. -/
theorem C01_default_covers_domain (c : String) (hc : c ∈ ["SSIdat", "SSIcov", "SSIdat_MS", "SSIcov_MS"]) (xi : ℚ)
    (hxi : xi ≤ 8 / 100) : xi < xiMaxD c := by
  simp only [List.mem_cons, List.not_mem_nil, or_false] at hc
  rcases hc with rfl | rfl | rfl | rfl
  all_goals
    show xi < (rpRat _ "hc.xi_max").getD 0
    rw [ratOf _ _ 1 10 (by decide)]
    norm_num; linarith

/-- **a shape that is real up to one complex factor passes the default MPC / MPD criteria** of every class: `φ_j = c·v_j`,
    `c ≠ 0`, at least two components, not the zero vector, and `gen.MPD`'s direction a null direction of the rank-one
    `[Re φ, Im φ]` (SVD contract, as in `C18_collinear_mpd`).  MPC = 1 ≥ generated `mpc_lim`, MPD = 0 ≤ generated `mpd_lim`. -/
theorem shapeOk_default_of_real (cl : ClassSpec) (hcl : cl ∈ classes) (dir : Nat → (Nat → Cx Rat) → ℝ × ℝ)
    (s : List (Cx Rat)) (hl : 2 ≤ s.length) (c : Cx Rat) (v : ℕ → ℚ) (hc : c.re ≠ 0 ∨ c.im ≠ 0)
    (hreal : ∀ j, s.getD j ⟨0, 0⟩ = c * Cx.ofReal (v j))
    (hnz : shapeNonZero s.length (fun j => s.getD j ⟨0, 0⟩) = true)
    (hnull : (c.re : ℝ) * (dir s.length fun j => s.getD j ⟨0, 0⟩).1
      + (c.im : ℝ) * (dir s.length fun j => s.getD j ⟨0, 0⟩).2 = 0) :
    ShapeOk dir (mpcLimD cl.name) (mpdLimD cl.name) s := by
  obtain ⟨_, _, hmpc, hmpd⟩ := default_limits cl hcl
  have hφ : (fun j => s.getD j ⟨0, 0⟩) = PV.cscale c (PV.ofRealVec v) := by
    funext j; rw [hreal j]; rfl
  unfold ShapeOk
  refine ⟨⟨1, ?_, hmpc⟩, hnz, ?_⟩
  · rw [hφ]; exact PV.C18.C18_collinear_mpc (K := ℚ) s.length hl c hc v
  · have hcast : castShape (fun j => s.getD j ⟨0, 0⟩)
        = PV.cscale (⟨(c.re : ℝ), (c.im : ℝ)⟩ : Cx ℝ) (PV.ofRealVec fun j => ((v j : ℚ) : ℝ)) := by
      funext j
      simp only [castShape, hreal j, PV.cscale, PV.ofRealVec]
      have e : ∀ a b : Cx ℝ, a.re = b.re → a.im = b.im → a = b := by
        intro a b h1 h2; cases a; cases b; simp_all
      apply e <;> simp [Cx.mul_re, Cx.mul_im, Cx.ofReal_re, Cx.ofReal_im]
    rw [hcast, PV.C18.C18_collinear_mpd s.length _ _ _ _ hnull]
    exact_mod_cast hmpd

/-- non-vacuity: the shape `(1, −2)·(3 + 4i)` with the null direction `(4, −3)` meets every hypothesis, for each class -/
example (cl : ClassSpec) (hcl : cl ∈ classes) :
    ShapeOk (fun _ _ => (4, -3)) (mpcLimD cl.name) (mpdLimD cl.name) [⟨3, 4⟩, ⟨-6, -8⟩] :=
  shapeOk_default_of_real cl hcl _ [⟨3, 4⟩, ⟨-6, -8⟩] (by decide) ⟨3, 4⟩ (fun j => if j = 0 then 1 else if j = 1 then -2 else 0)
    (Or.inl (by decide))
    (by
      intro j
      have e : ∀ a b : Cx ℚ, a.re = b.re → a.im = b.im → a = b := by
        intro a b h1 h2; cases a; cases b; simp_all
      rcases j with _ | _ | j
      · apply e <;> simp [Cx.mul_re, Cx.mul_im, Cx.ofReal_re, Cx.ofReal_im]
      · apply e <;> simp [Cx.mul_re, Cx.mul_im, Cx.ofReal_re, Cx.ofReal_im] <;> norm_num
      · apply e <;> simp [Cx.mul_re, Cx.mul_im, Cx.ofReal_re, Cx.ofReal_im])
    (by decide +kernel) (by norm_num)

section main
variable {n : ℕ} (A : Matrix (Fin n) (Fin n) ℚ) (C : ℕ → Fin n → ℚ) (l : ℕ) (dt : ℝ)
  (lam : Cpx ℚ) (w : Fin n → Cpx ℚ) (mu : ℂ) (Ahat Chat : Mat ℚ) (V : Mat (Cpx ℚ)) (lams : ℕ → Cpx ℚ)

/-- **C01_stored_default — under the default hard criteria of the class (read from the source) the recovered mode is
    stored and extracted.**  As `C01_stored`, with `hc` left to its default: `conj`, `xi_max`, `mpc_lim`, `mpd_lim`
    (and `cov_max`, unused: uncertainties off) are the generated defaults of the class `cl.name`.  Hypotheses beyond
    `C01_stored`'s: the (unity-normalised) true shape is REAL up to one complex factor, `φ_j = c·v_j` with `c ≠ 0`
    (the property's real-mode-shape systems; a genuinely complex shape can have MPC < 0.7), at least two channels, and
    the SVD contract for `gen.MPD`'s direction on a rank-one `[Re φ, Im φ]`: `V[:,1]` is a null direction
    (`c.re·V₀₁ + c.im·V₁₁ = 0`, as in `C18_collinear_mpd`).  The criteria hypotheses `hshape` of `C01_stored` are
    DERIVED (MPC = 1 ≥ default `mpc_lim`, MPD = 0 ≤ default `mpd_lim`); the damping hypothesis is stated against the
    generated `xi_max` (`C01_default_covers_domain`: implied by ξ ≤ 8 %). -/
theorem C01_stored_default (hrec : Recovered A C l dt lam w mu Ahat Chat V lams)
    (ordmax : ℕ) (hno : n ≤ ordmax) (lamc : ℕ → Cpx ℚ) (absl : ℕ → ℚ) (twoPi : ℚ)
    (perFn perXi : ℕ → List ℚ) (perPhi : ℕ → List (List (Cpx ℚ))) (perLam : ℕ → List (Cpx ℚ))
    (hfill : OrderFilled n Chat V lamc absl twoPi perFn perXi perPhi perLam)
    (cl : ClassSpec) (hcl : cl ∈ classes)
    (dir : Nat → (Nat → Cx Rat) → ℝ × ℝ)
    (k : ℕ) (hk : k < n) (hlam : lams k = lam)
    (hdamp : 0 < xiOf (lamc k) (absl k) ∧ xiOf (lamc k) (absl k) < xiMaxD cl.name)
    (hl : 2 ≤ l) (c : Cx Rat) (v : ℕ → ℚ) (hc : c.re ≠ 0 ∨ c.im ≠ 0)
    (hreal : ∀ j, ((normalise (trueShape C l w)).map cx).getD j ⟨0, 0⟩ = c * Cx.ofReal (v j))
    (hnz : shapeNonZero l (fun j => ((normalise (trueShape C l w)).map cx).getD j ⟨0, 0⟩) = true)
    (hnull : (c.re : ℝ) * (dir l fun j => ((normalise (trueShape C l w)).map cx).getD j ⟨0, 0⟩).1
      + (c.im : ℝ) * (dir l fun j => ((normalise (trueShape C l w)).map cx).getD j ⟨0, 0⟩).2 = 0)
    (hconj : ∃ k', k' < n ∧ lamc k' = Cpx.conj (lamc k)) :
    let p := (ssiRaw ordmax perFn perXi perPhi perLam).params ordmax (ordmax + 1) (xiMaxD cl.name) (mpcLimD cl.name)
      (mpdLimD cl.name) (covMaxD cl.name) dir
    ∃ e' Tf Tx Tp, runOf cl (conjD cl.name) false p = some e' ∧
      e' (retVar cl.prog "Fn_poles") = some (CVal.tbl Tf) ∧ FiltOf p (conjD cl.name) false .fn Tf ∧
      e' (retVar cl.prog "Xi_poles") = some (CVal.tbl Tx) ∧ FiltOf p (conjD cl.name) false .xi Tx ∧
      e' (retVar cl.prog "Phi_poles") = some (CVal.tbl Tp) ∧ FiltOf p (conjD cl.name) false .phi Tp ∧
      Kept p (conjD cl.name) false (k, n) ∧
      Tf (k, n) = some (.real (fnOf (absl k) twoPi)) ∧
      Tx (k, n) = some (.real (xiOf (lamc k) (absl k))) ∧
      Tp (k, n) = some (shapeCell ((normalise (trueShape C l w)).map cx)) ∧
      ∀ (rtol : ℚ) (reqs : List (ℚ × Option ℕ)) (cells : List (ℕ × ℕ)), 0 ≤ rtol →
        Extracted (toMat ordmax (ordmax + 1) Tf) rtol reqs cells →
        (fnOf (absl k) twoPi, some n) ∈ reqs →
        ∃ r', (r', n) ∈ cells ∧ (toMat ordmax (ordmax + 1) Tf).e r' n = some (fnOf (absl k) twoPi) := by
  intro p
  have hlen : ((normalise (trueShape C l w)).map cx).length = l := by
    simp [normalise, trueShape]
  have hshape : ShapeOk dir (mpcLimD cl.name) (mpdLimD cl.name) ((normalise (trueShape C l w)).map cx) :=
    shapeOk_default_of_real cl hcl dir _ (by rw [hlen]; exact hl) c v hc hreal (by rw [hlen]; exact hnz)
      (by rw [hlen]; exact hnull)
  obtain ⟨e', Tf, Tx, Tp, he', hTf, fF, hTx, fX, hTp, fP, hkept, eF, eX, eP, _, hex⟩ :=
    C01_stored A C l dt lam w mu Ahat Chat V lams hrec ordmax hno lamc absl twoPi perFn perXi perPhi perLam
      hfill cl hcl (conjD cl.name) (xiMaxD cl.name) (mpcLimD cl.name) (mpdLimD cl.name) (covMaxD cl.name) dir k hk hlam
      hdamp hshape (fun _ => hconj)
  exact ⟨e', Tf, Tx, Tp, he', hTf, fF, hTx, fX, hTp, fP, hkept, eF, eX, eP, hex⟩

end main

end PV.C01StoredDefault
