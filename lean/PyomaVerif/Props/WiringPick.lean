import PyomaVerif.Model.Wiring
import PyomaVerif.Model.Pick
/-!
# The wiring of the picking dialog (C16): `SelFromPlot.__init__` / `_initialize_gui` / `on_closing`

The C16 theorems are about `Pick.step` (one event through "its" handler), `State.init` and `State.result`.  That the
real dialog dispatches a key press to the press handler, a key release to the release handler, a click to the handler
of its plot type, starts every instance from its own empty lists and builds the handed-over tuple from the lists as
they are when the window closes, is glue in `support/sel_from_plot.py`.  `harness/translate_wiring.py` regenerates the
tables `dconnects / dassigns / dcalls / dmethods / dialogClasses` from the tested tree on every run; the obligations
below are evaluated by the kernel against them.

Handlers are identified by what they do (`Wiring.roleOf`: parameter count, body text with positionally renamed
parameters for the two key handlers and `on_closing`; the `get_closest_*` helper called and the lists written for the
two click handlers), connections by event name, so renaming a handler consistently, re-ordering the `mpl_connect`
calls or holding the canvas in a local variable leaves every obligation true.
-/
namespace PV.WiringPick
open PV.Wiring PV.Wiring.Gen PV.Pick

/-! ## decide obligations over the regenerated tables -/

/-- **Event connections, stabilisation diagrams.**  For `plot = "SSI"` and `"pLSCF"` the figure's canvas listens to
    exactly three events; `key_press_event` reaches the method that sets `shift_is_held` on `"shift"`,
    `key_release_event` the one that clears it, `button_press_event` the stabilisation-diagram click handler, which
    receives the event and `self.plot`. -/
theorem C16_connections_stab :
    (∀ p ∈ ["SSI", "pLSCF"],
      dispatch p "key_press_event" = some [(.press, ["<event>"])]
      ∧ dispatch p "key_release_event" = some [(.release, ["<event>"])]
      ∧ dispatch p "button_press_event" = some [(.clickStab, ["<event>", "self.plot"])]) := by
  decide +kernel

/-- **Event connections, singular-value plot.**  Same for `plot = "FDD"` with the FDD click handler (event only). -/
theorem C16_connections_fdd :
    dispatch "FDD" "key_press_event" = some [(.press, ["<event>"])]
    ∧ dispatch "FDD" "key_release_event" = some [(.release, ["<event>"])]
    ∧ dispatch "FDD" "button_press_event" = some [(.clickFdd, ["<event>"])] := by
  decide +kernel

/-- **No further canvas event is listened to**: the connected events are exactly these three, each once, for every
    variant (a second handler on an event, or a handler on `motion_notify_event`, makes this false). -/
theorem C16_events_exact :
    ∀ p ∈ ["SSI", "pLSCF", "FDD"],
      (eventsOf p).map (sameSet · ["key_press_event", "key_release_event", "button_press_event"]) = some true := by
  decide +kernel

/-- **Connections are in place before the main loop, and stay.**  Every connection is made in `__init__` ahead of
    `self.root.mainloop()` or in a method `__init__` calls unconditionally ahead of it; `mainloop()` is called exactly
    once in the class (unconditionally, in `__init__`); nothing is ever disconnected. -/
theorem C16_connected_before_mainloop :
    connectsBeforeMainloop = true ∧ mainloopPos.isSome = true ∧ noDisconnect = true := by
  decide +kernel

/-- **Closing the window.**  `WM_DELETE_WINDOW` of `self.root` — the window whose `mainloop()` `__init__` runs — is
    bound, for every variant, to the method whose whole body is `self.root.quit(); self.root.destroy()` (quit ends the
    main loop, so `__init__` proceeds to build `result`); no other Tk binding exists. -/
theorem C16_closing :
    ∀ p ∈ ["SSI", "pLSCF", "FDD"], closeHandlers p = some [("self.root:WM_DELETE_WINDOW", .closing)] := by
  decide +kernel

/-- **Per-instance state.**  `__init__` gives every instance its own `shift_is_held = False`, `sel_freq = []` and
    `pole_ind = []` (SSI, pLSCF) / `freq_ind = []` (FDD): exactly one assignment in force during set-up, in `__init__`,
    before the main loop, each a fresh literal — -/
theorem C16_instance_state :
    (∀ p ∈ ["SSI", "pLSCF", "FDD"], initValue p "shift_is_held" = some "False" ∧ initValue p "sel_freq" = some "[]"
        ∧ initValue p "plot" = some "plot")
    ∧ initValue "SSI" "pole_ind" = some "[]" ∧ initValue "pLSCF" "pole_ind" = some "[]"
    ∧ initValue "FDD" "freq_ind" = some "[]" := by
  decide +kernel

/-- — and nothing is bound at class level: the class body consists of methods only (no class attribute such as a
    shared `sel_freq = []`, no base class, decorator or metaclass). -/
theorem C16_no_class_state : stateIsPerInstance = true := by
  decide +kernel

/-- **Hand-over tuple.**  `self.result` is assigned only in `__init__`, once per variant, AFTER `mainloop()` has
    returned: `(self.sel_freq, self.pole_ind)` for SSI / pLSCF, `(self.sel_freq, None)` for FDD — read from the
    attributes at that moment (every pick rebinds them in `sort_selected_poles`). -/
theorem C16_result_tuple :
    resultValue "SSI" = some "(self.sel_freq, self.pole_ind)"
    ∧ resultValue "pLSCF" = some "(self.sel_freq, self.pole_ind)"
    ∧ resultValue "FDD" = some "(self.sel_freq, None)" := by
  decide +kernel

/-! ## the dialog as wired = the model of the C16 theorems -/

/-- the canvas event a model event arrives as -/
def eventName : Event → String
  | .keyPress _ => "key_press_event"
  | .keyRelease _ => "key_release_event"
  | .click _ _ => "button_press_event"

/-- what a handler of the given role does with an event (the handler bodies themselves are compared with the real
    methods, event by event, in the `handlers[*]` correspondence; a key handler reads `event.key` whichever of the two
    key events it is connected to) -/
def applyRole (p : Plot) (s : State) : Role → List String → Event → Except String State
  | .press, ["<event>"], .keyPress k | .press, ["<event>"], .keyRelease k =>
    .ok (if k == "shift" then { s with shift := true } else s)
  | .release, ["<event>"], .keyPress k | .release, ["<event>"], .keyRelease k =>
    .ok (if k == "shift" then { s with shift := false } else s)
  | .clickStab, ["<event>", "self.plot"], .click b pos =>
    (match p with | .stab t => onClickSSI t s b pos | .fdd _ => .error "stabilisation handler on an FDD dialog")
  | .clickFdd, ["<event>"], .click b pos =>
    (match p with | .fdd freq => onClickFDD freq s b pos | .stab _ => .error "FDD handler on a stabilisation dialog")
  | _, _, _ => .error "unmodelled connection"

/-- one event through the handler the SOURCE connects to it (exactly one handler per event, else an error) -/
def stepWired (plotName : String) (p : Plot) (s : State) (e : Event) : Except String State :=
  match dispatch plotName (eventName e) with
  | some [(r, args)] => applyRole p s r args e
  | _ => .error "no or several handlers"

/-- the state a freshly constructed dialog starts from, read off the `__init__` assignments -/
def initWired (plotName : String) : Option State :=
  let ind := if plotName == "FDD" then "freq_ind" else "pole_ind"
  match initValue plotName "shift_is_held", initValue plotName "sel_freq", initValue plotName ind with
  | some "False", some "[]", some "[]" => some ⟨false, [], []⟩
  | _, _, _ => none

/-- the tuple expression evaluated on a state -/
def readResult (s : State) : String → Option (List Rat × Option (List Nat))
  | "(self.sel_freq, self.pole_ind)" => some (s.selFreq, some s.ind)
  | "(self.sel_freq, None)" => some (s.selFreq, none)
  | _ => none

/-- the whole dialog as the source wires it: construct, dispatch every event through the connected handler (an
    exception in a handler leaves the state as it was), close, evaluate the `self.result` expression -/
def dialogWired (plotName : String) (p : Plot) (evs : List Event) : Option (List Rat × Option (List Nat)) :=
  match initWired plotName, resultValue plotName with
  | some s0, some r =>
    readResult (evs.foldl (fun s e => match stepWired plotName p s e with | .ok s' => s' | .error _ => s) s0) r
  | _, _ => none

private theorem disp_stab (n : String) (hn : n ∈ ["SSI", "pLSCF"]) :
    dispatch n "key_press_event" = some [(.press, ["<event>"])]
    ∧ dispatch n "key_release_event" = some [(.release, ["<event>"])]
    ∧ dispatch n "button_press_event" = some [(.clickStab, ["<event>", "self.plot"])] := by
  exact C16_connections_stab n hn

/-- **The transition of the dialog as wired in the source is `Pick.step`** — the function every C16 theorem is about
    — for the SSI and pLSCF stabilisation diagrams, any table, state and event. -/
theorem C16_step_wired_stab (n : String) (hn : n ∈ ["SSI", "pLSCF"]) (t : Mat (Option Rat)) (s : State) (e : Event) :
    stepWired n (.stab t) s e = step (.stab t) s e := by
  obtain ⟨h1, h2, h3⟩ := disp_stab n hn
  cases e <;> simp [stepWired, eventName, h1, h2, h3, applyRole, step]

/-- … and for the FDD plot. -/
theorem C16_step_wired_fdd (freq : List Rat) (s : State) (e : Event) :
    stepWired "FDD" (.fdd freq) s e = step (.fdd freq) s e := by
  obtain ⟨h1, h2, h3⟩ := C16_connections_fdd
  cases e <;> simp [stepWired, eventName, h1, h2, h3, applyRole, step]

/-- a fresh dialog starts from `State.init` -/
theorem C16_init_wired : ∀ n ∈ ["SSI", "pLSCF", "FDD"], initWired n = some State.init := by
  decide +kernel

/-- **Hand-over, end to end over the wiring.**  Constructing the dialog, sending it any history of events through
    the handlers the source connects, and closing it yields `State.result` of `Pick.run … State.init` — the object of
    `C16_refine`, `C16_handover`, `C16_sorted`, `C16_extract` — as `(sel_freq, pole_ind)`. -/
theorem C16_dialog_wired_stab (n : String) (hn : n ∈ ["SSI", "pLSCF"]) (t : Mat (Option Rat)) (evs : List Event) :
    dialogWired n (.stab t) evs
      = some ((run (.stab t) State.init evs).result.1, some (run (.stab t) State.init evs).result.2) := by
  have hi : initWired n = some State.init := C16_init_wired n (by
    rcases List.mem_cons.1 hn with h | h
    · simp [h]
    · simp [List.mem_singleton.1 h])
  have hr : resultValue n = some "(self.sel_freq, self.pole_ind)" := by
    rcases List.mem_cons.1 hn with h | h
    · rw [h]; exact C16_result_tuple.1
    · rw [List.mem_singleton.1 h]; exact C16_result_tuple.2.1
  have hs : (fun s e => match stepWired n (.stab t) s e with | .ok s' => s' | .error _ => s) = stepKeep (.stab t) := by
    funext s e
    rw [C16_step_wired_stab n hn]; rfl
  simp [dialogWired, hi, hr, hs, readResult, run, State.result]

/-- … for FDD: the frequencies, and `None` in place of the orders. -/
theorem C16_dialog_wired_fdd (freq : List Rat) (evs : List Event) :
    dialogWired "FDD" (.fdd freq) evs = some ((run (.fdd freq) State.init evs).result.1, none) := by
  have hi : initWired "FDD" = some State.init := C16_init_wired "FDD" (by simp)
  have hr := C16_result_tuple.2.2
  have hs : (fun s e => match stepWired "FDD" (.fdd freq) s e with | .ok s' => s' | .error _ => s) = stepKeep (.fdd freq) := by
    funext s e
    rw [C16_step_wired_fdd]; rfl
  simp [dialogWired, hi, hr, hs, readResult, run, State.result]

/-! ## non-vacuity: the hypotheses `n ∈ ["SSI", "pLSCF"]` are met by both names, and the wired dialog does something -/

private def tbl2 : Mat (Option Rat) :=
  ⟨2, 2, fun i j => ([[some 1, some (5/4)], [some 3, none]].getD i []).getD j none⟩

example : "SSI" ∈ ["SSI", "pLSCF"] ∧ "pLSCF" ∈ ["SSI", "pLSCF"] := by decide
/-- a pick with the modifier held is handed over with its order; after the release a right click removes nothing -/
example : dialogWired "pLSCF" (.stab tbl2)
    [.keyPress "shift", .click 1 (some (11/4, 0)), .keyRelease "shift", .click 3 none] = some ([3], some [0]) := by
  decide +kernel
example : dialogWired "FDD" (.fdd [0, 3/4, 3/2]) [.keyPress "shift", .click 1 (some (7/8, 0))]
    = some ([3/4], none) := by
  decide +kernel

end PV.WiringPick
