import PyomaVerif.Lemmas.Unity
import PyomaVerif.Lemmas.Geo
import PyomaVerif.Props.C06
import PyomaVerif.Props.C08Pipe
import PyomaVerif.Model.C08
/-!
# C08 — "every reported mode shape is normalised so that its largest-magnitude component equals 1"

for the three normalisers of the code, each over the executable model function the driver runs:

* `ssi.ac2mp` (ssi.py:217-219)  — `PV.normalise` / `PV.shapesOf`          (`C08_unity_ssi`, `C08_unity_shapes`)
* `plscf.ac2mp_poly` (plscf.py:249-251) — `Plscf.phiCell` / `ac2mpPoly`   (`C08_unity_plscf`, `C08_unity_plscf_column`)
* `fdd.FDD_mpe` (fdd.py:302)     — `Fdd.normalise` / `fddMpe`             (`C08_unity_fdd`, `C08_unity_fdd_mpe`)

The conclusion is the predicate `FirstLargestIsUnit n m ns` on the REPORTED vector (`ns j` its squared
magnitudes): component `m` is exactly `1`, every component before `m` has magnitude `< 1`, no component has
magnitude `> 1` — i.e. `m` is the first index of largest magnitude of the reported shape and the entry there
is `1` — together with the identification of `m` as `np.argmax(abs(·))` of the un-normalised vector.

Then the reported (normalised) shape under orthogonal mixing of the channels (`C08_mix_shapes`): it is the
unit-normalisation of `Q` times the reported shape of the original run.
-/
namespace PV.C08
open PV PV.Mat PV.Cov PV.Unity

/-! ## 1. `ssi.ac2mp` -/
section ssi
open scoped CpxL

/-- **Unity, `ssi.ac2mp` (one vector).**  For a vector with a non-zero component (otherwise numpy divides
    `0/0`): with `k = np.argmax(abs(v))`, `k` is an index of `v`, the FIRST of largest magnitude; the
    normalised vector has the same length, its component `k` is exactly `1`, the components before `k`
    have magnitude `< 1` and none has magnitude `> 1`. -/
theorem C08_unity_ssi (v : List (Cpx Rat)) (hne : ∃ x ∈ v, x ≠ 0) :
    (normalise v).length = v.length ∧
    FirstLargestIsUnit v.length (argmaxNormSq v) (fun j => Cpx.normSq ((normalise v).getD j 0)) ∧
    (normalise v).getD (argmaxNormSq v) 0 = ⟨1, 0⟩ ∧
    (∀ j, j < argmaxNormSq v → Cpx.normSq (v.getD j 0) < Cpx.normSq (v.getD (argmaxNormSq v) 0)) ∧
    (∀ j, j < v.length → Cpx.normSq (v.getD j 0) ≤ Cpx.normSq (v.getD (argmaxNormSq v) 0)) := by
  obtain ⟨x, hx, hx0⟩ := hne
  have hlen : 0 < v.length := List.length_pos_of_mem hx
  obtain ⟨hk, hmax⟩ := argmaxNormSq_spec v hlen
  set k := argmaxNormSq v with hkdef
  set p := v.getD k 0 with hp
  have hmax' : ∀ j, j < v.length → Cpx.normSq (v.getD j 0) ≤ Cpx.normSq p := by
    intro j hj
    have := hmax j hj
    simpa [List.getD_eq_getElem?_getD, List.getElem?_eq_getElem hj] using this
  have hpos : 0 < Cpx.normSq p := by
    obtain ⟨j, hj, hjx⟩ := List.getElem_of_mem hx
    have h1 := hmax j hj
    rw [hjx] at h1
    exact lt_of_lt_of_le (PV.Cov.normSq_pos_of_ne hx0) h1
  have hget : ∀ j, j < v.length → (normalise v).getD j 0 = v.getD j 0 / p := by
    intro j hj
    unfold normalise
    simp only [List.getD_eq_getElem?_getD, List.getElem?_map, List.getElem?_eq_getElem hj,
      Option.map_some, Option.getD_some, ← hkdef]
    rw [hp, List.getD_eq_getElem?_getD]
  have hfirst := argmaxNormSq_first v
  refine ⟨by simp [normalise], ?_, ?_, hfirst, hmax'⟩
  · refine firstLargest_of_div (f := fun j => Cpx.normSq (v.getD j 0)) hk hpos ?_ hfirst hmax'
    intro j hj
    show Cpx.normSq ((normalise v).getD j 0) = _
    rw [hget j hj, cpx_normSq_div _ _ hpos.ne']
  · rw [hget k hk]; exact cpx_div_self p hpos.ne'

/-- **Unity, `ssi.ac2mp` (the shape list `shapesOf` the driver compares with the real `ac2mp`).**  For
    every eigenvector column `k` whose un-normalised shape `C·V[:, k]` is not the zero vector, the reported
    shape `k` has `C.r` components, the entry at the first index of largest magnitude is exactly `1` and
    every component has magnitude `≤ 1`; that index is `np.argmax(abs(C·V[:, k]))`. -/
theorem C08_unity_shapes (C V : Mat (Cpx Rat)) (k : Nat) (hk : k < V.c)
    (hne : ∃ i, i < C.r ∧ sumTo C.c (fun t => C.e i t * V.e t k) ≠ 0) :
    ∃ w, (shapesOf C V)[k]? = some w ∧ w.length = C.r ∧
      FirstLargestIsUnit C.r
        (argmaxNormSq ((List.range C.r).map fun i => sumTo C.c (fun t => C.e i t * V.e t k)))
        (fun j => Cpx.normSq (w.getD j 0)) ∧
      w.getD (argmaxNormSq ((List.range C.r).map fun i => sumTo C.c (fun t => C.e i t * V.e t k))) 0
        = ⟨1, 0⟩ := by
  set raw := (List.range C.r).map fun i => sumTo C.c (fun t => C.e i t * V.e t k) with hraw
  have hrl : raw.length = C.r := by simp [hraw]
  obtain ⟨i, hi, hi0⟩ := hne
  have hmem : ∃ x ∈ raw, x ≠ 0 :=
    ⟨_, List.mem_map.mpr ⟨i, List.mem_range.mpr hi, rfl⟩, hi0⟩
  obtain ⟨h1, h2, h3, _, _⟩ := C08_unity_ssi raw hmem
  refine ⟨normalise raw, ?_, by rw [h1, hrl], ?_, h3⟩
  · unfold shapesOf
    rw [List.getElem?_map, List.getElem?_range hk]
    rfl
  · rw [hrl] at h2; exact h2

end ssi

/-! ## 2. `plscf.ac2mp_poly` -/
section plscf
open PV.Plscf
variable {K : Type} [Field K] [LinearOrder K] [IsStrictOrderedRing K]

/-- **Unity, `plscf.ac2mp_poly` (one cell).**  Whenever the model of the shape cell returns a vector (not
    NaN: column not blanked, `C·q` not the zero vector): it has `C.r` components, with
    `k = np.argmax(abs(C·q))` its component `k` is exactly `1`, components before `k` have magnitude `< 1`,
    none has magnitude `> 1`; and `k` is the first index of largest magnitude of `C·q`. -/
theorem C08_unity_plscf (C : Mat K) (lambd : Option (Plscf.Cx K)) (q out : List (Plscf.Cx K))
    (h : phiCell C lambd q = some out) :
    out.length = C.r ∧
    FirstLargestIsUnit C.r (argmaxAbs (phiRaw C q)) (fun j => Plscf.Cx.normSq (out.getD j ⟨0, 0⟩)) ∧
    out.getD (argmaxAbs (phiRaw C q)) ⟨0, 0⟩ = ⟨1, 0⟩ ∧
    (∀ j, j < argmaxAbs (phiRaw C q) → Plscf.Cx.normSq ((phiRaw C q).getD j ⟨0, 0⟩)
        < Plscf.Cx.normSq ((phiRaw C q).getD (argmaxAbs (phiRaw C q)) ⟨0, 0⟩)) ∧
    (∀ j, j < C.r → Plscf.Cx.normSq ((phiRaw C q).getD j ⟨0, 0⟩)
        ≤ Plscf.Cx.normSq ((phiRaw C q).getD (argmaxAbs (phiRaw C q)) ⟨0, 0⟩)) := by
  unfold phiCell at h
  by_cases hb : blanked lambd = true
  · rw [if_pos hb] at h; cases h
  rw [if_neg hb] at h
  set v := phiRaw C q with hv
  set k := argmaxAbs v with hkdef
  set p := v.getD k ⟨0, 0⟩ with hp
  by_cases hz : p.re = 0 ∧ p.im = 0
  · rw [if_pos hz] at h; cases h
  rw [if_neg hz] at h
  have hvl : v.length = C.r := by simp [hv, phiRaw]
  have hp0 : Plscf.Cx.normSq p ≠ 0 := fun h0 => hz ((Plscf.normSq_eq_zero p).mp h0)
  have hvne : v ≠ [] := by
    intro he
    apply hz
    rw [hp, he]; simp
  obtain ⟨hk, hfirst, hmax⟩ := argmaxAbs_first v hvne
  rw [← hkdef, ← hp] at hfirst hmax
  rw [← hkdef, hvl] at hk
  rw [hvl] at hmax
  have hpos : 0 < Plscf.Cx.normSq p := lt_of_le_of_ne (Plscf.normSq_nonneg p) (Ne.symm hp0)
  injection h with h
  have hget : ∀ j, j < C.r → out.getD j ⟨0, 0⟩ = Plscf.Cx.div (v.getD j ⟨0, 0⟩) p := by
    intro j hj
    have hj' : j < v.length := by rw [hvl]; exact hj
    rw [← h]
    simp only [List.getD_eq_getElem?_getD, List.getElem?_map, List.getElem?_eq_getElem hj',
      Option.map_some, Option.getD_some]
    rfl
  refine ⟨by rw [← h, List.length_map, hvl], ?_, ?_, hfirst, hmax⟩
  · refine firstLargest_of_div (f := fun j => Plscf.Cx.normSq (v.getD j ⟨0, 0⟩)) hk hpos ?_ hfirst hmax
    intro j hj
    show Plscf.Cx.normSq (out.getD j ⟨0, 0⟩) = _
    rw [hget j hj, pcx_normSq_div _ _ hp0]
  · rw [hget k hk]; exact pcx_div_self p hp0

/-- **Unity, `plscf.ac2mp_poly` (the whole column the driver compares with the real function).**  Every
    non-NaN shape cell of the column of one model order has `C.r` components, the entry at its first index
    of largest magnitude is exactly `1` and every component has magnitude `≤ 1`. -/
theorem C08_unity_plscf_column (sqrt : K → K) (twoPi invdt : K) (cor : Bool)
    (invTau : K) (C : Mat K) (eigs : List (EigIn K)) (cell : Option (List (Plscf.Cx K)))
    (hc : cell ∈ (ac2mpPoly sqrt twoPi invdt cor invTau C eigs).phi) (out : List (Plscf.Cx K))
    (ho : cell = some out) :
    out.length = C.r ∧ ∃ m, FirstLargestIsUnit C.r m (fun j => Plscf.Cx.normSq (out.getD j ⟨0, 0⟩)) ∧
      out.getD m ⟨0, 0⟩ = ⟨1, 0⟩ := by
  simp only [ac2mpPoly, List.mem_map] at hc
  obtain ⟨e, _, he⟩ := hc
  rw [ho] at he
  have hcell : phiCell C (lambdOf invdt e) e.q = some out := he
  obtain ⟨h1, h2, h3, _, _⟩ := C08_unity_plscf C (lambdOf invdt e) e.q out hcell
  exact ⟨h1, _, h2, h3⟩

end plscf

/-! ## 3. `fdd.FDD_mpe` -/
section fdd
open PV.Fdd
variable {K : Type} [Field K] [LinearOrder K] [IsStrictOrderedRing K]

/-- **Unity, `fdd.FDD_mpe` (one row).**  Whenever the normalisation returns a vector (row not zero), with
    `k = np.argmax(abs(phi))`: component `k` is exactly `1`, components before `k` have magnitude `< 1`,
    none has magnitude `> 1`.  (`C06_shape` in the vocabulary of this property.) -/
theorem C08_unity_fdd (n : Nat) (hn : 0 < n) (phi out : Nat → Fdd.Cx K)
    (h : Fdd.normalise n phi = some out) :
    FirstLargestIsUnit n (argmaxTo n (fun i => (phi i).normSq)) (fun j => (out j).normSq) ∧
    out (argmaxTo n (fun i => (phi i).normSq)) = 1 := by
  obtain ⟨c, _, _, h1, h2, _, h4⟩ := PV.C06.C06_shape n phi out h
  have hone : (out (argmaxTo n (fun i => (phi i).normSq))).normSq = 1 := by
    rw [h1]; simp [Fdd.Cx.normSq]
  refine ⟨⟨argmaxTo_lt hn _, hone, ?_, h2⟩, h1⟩
  intro j hj
  -- `out j = phi j / phi k` and `|phi j| < |phi k|`
  simp only [Fdd.normalise] at h
  split_ifs at h with hz
  injection h with h
  set k := argmaxTo n (fun i => (phi i).normSq) with hk
  have hk0 : phi k ≠ 0 := fun e => hz (Fdd.Cx.normSq_eq_zero.mpr e)
  have hpos : 0 < (phi k).normSq := lt_of_le_of_ne (Fdd.Cx.normSq_nonneg _) (Ne.symm hz)
  rw [← h]
  show (phi j / phi k).normSq < 1
  rw [Fdd.Cx.normSq_div _ hk0, div_lt_one hpos]
  exact h4 j hj

/-- **Unity, `fdd.FDD_mpe` (the whole result the driver compares with the real function).**  If the model of
    `FDD_mpe` returns, then for every requested frequency `sel[i]` the `i`-th returned mode is the one
    `fddOne` returns for it, and its shape, unless NaN, has `nch` components, the entry at its first index
    of largest magnitude is exactly `1` and every component has magnitude `≤ 1`. -/
theorem C08_unity_fdd_mpe (nch nref nf : Nat) (freq : Nat → K)
    (Sval : Nat → Nat → Nat → K) (Svec : Nat → Nat → Nat → Fdd.Cx K) (sel : List K) (DF : K)
    (modes : List (ModeOut K)) (h : fddMpe nch nref nf freq Sval Svec sel DF = .ok modes) :
    modes.length = sel.length ∧
    ∀ (i : Nat) (s : K), sel[i]? = some s → ∃ m, modes[i]? = some m ∧
      fddOne nch nref nf freq Sval Svec DF s = .ok m ∧
      ∀ l, m.phi = some l → l.length = nch ∧
        ∃ k, FirstLargestIsUnit nch k (fun j => (l.getD j 0).normSq) ∧ l.getD k 0 = 1 := by
  obtain ⟨hlen, hget⟩ := PV.Geo.mapM_ok_get _ sel modes h
  refine ⟨hlen, ?_⟩
  intro i s hs
  obtain ⟨m, hm, hone⟩ := hget i s hs
  refine ⟨m, hm, hone, ?_⟩
  intro l hl
  obtain ⟨hpick, _, hphi⟩ := PV.C06.C06_mode nch nref nf freq Sval Svec DF s m hone
  have hnch : 0 < nch := by
    unfold fddPick at hpick
    split_ifs at hpick with h1 h2
    omega
  rw [hl] at hphi
  cases hn : Fdd.normalise nch (fun i => Svec 0 i m.pick.idx) with
  | none => rw [hn] at hphi; cases hphi
  | some out =>
    rw [hn] at hphi
    simp only [Option.map_some, Option.some.injEq] at hphi
    obtain ⟨hu, h1⟩ := C08_unity_fdd nch hnch _ out hn
    have hg : ∀ j, j < nch → l.getD j 0 = out j := by
      intro j hj; rw [hphi]; exact getD_map_range nch out 0 j hj
    refine ⟨by rw [hphi]; simp, _, ⟨hu.lt, ?_, ?_, ?_⟩, ?_⟩
    · show (l.getD _ 0).normSq = 1
      rw [hg _ hu.lt]; exact hu.one
    · intro j hj
      show (l.getD j 0).normSq < 1
      rw [hg j (lt_trans hj hu.lt)]; exact hu.before j hj
    · intro j hj
      show (l.getD j 0).normSq ≤ 1
      rw [hg j hj]; exact hu.all j hj
    · rw [hg _ hu.lt]; exact h1

end fdd

/-! ## 4. The reported shape under orthogonal mixing (SSI family) -/
section mix
open scoped CpxL

/-- `Q·w` for a real `l × l` matrix `Q` and a complex vector `w` (spec side: the expected rotation of a
    reported shape) -/
def mixVec (l : Nat) (Q : Nat → Nat → Rat) (w : List (Cpx Rat)) : List (Cpx Rat) :=
  (List.range l).map fun i => sumTo l (fun a => (⟨Q i a, 0⟩ : Cpx Rat) * w.getD a 0)

theorem cplx_sum (n : Nat) (f : Nat → Rat) :
    (⟨∑ a ∈ Finset.range n, f a, 0⟩ : Cpx Rat) = ∑ a ∈ Finset.range n, (⟨f a, 0⟩ : Cpx Rat) := by
  induction n with
  | zero => rfl
  | succ n ih =>
    rw [Finset.sum_range_succ, Finset.sum_range_succ, ← ih]
    apply CpxL.ext <;> simp

theorem mixVec_smul (l : Nat) (Q : Nat → Nat → Rat) (c : Cpx Rat) (w : List (Cpx Rat)) :
    mixVec l Q (w.map (c * ·)) = (mixVec l Q w).map (c * ·) := by
  unfold mixVec
  rw [List.map_map]
  apply List.map_congr_left
  intro i _
  simp only [Function.comp, sumTo_eq, Finset.mul_sum]
  apply Finset.sum_congr rfl
  intro a _
  have : (w.map (c * ·)).getD a 0 = c * w.getD a 0 := by
    simp only [List.getD_eq_getElem?_getD, List.getElem?_map]
    cases w[a]? with
    | none => simp
    | some y => simp
  rw [this]; ring

theorem cpx_div_eq (x p : Cpx Rat) : x / p = ((⟨1, 0⟩ : Cpx Rat) / p) * x := by
  apply CpxL.ext
  · simp only [CpxL.div_re, CpxL.mul_re, CpxL.div_im]; ring
  · simp only [CpxL.div_re, CpxL.mul_im, CpxL.div_im]; ring

/-- **C08_mix_shapes — the REPORTED (unit-normalised) shapes under orthogonal mixing.**  With the output
    matrix of the mixed run `C' = Q·C` (last conjunct of `C08_mix_ssi` / `C08_mix_ssi_R`) and the same
    recorded eigenvectors (same state matrix), every reported shape of the mixed run is the
    unit-normalisation of `Q` times the reported shape of the original run: collinear with the rotated
    shape, largest component `1` (`C08_unity_shapes`).  Hypothesis beyond the property's premise: no
    un-normalised shape of the original run is the zero vector (the code returns NaN there, for both runs).
    `Q` need not be orthogonal for this step. -/
theorem C08_mix_shapes (l : Nat) (Q : Nat → Nat → Rat) (C C' : Mat Rat) (Vec : Mat (Cpx Rat))
    (hr : C.r = l) (hr' : C'.r = l) (hc : C'.c = C.c)
    (he : ∀ i, i < l → ∀ j, C'.e i j = sumTo l (fun a => Q i a * C.e a j))
    (hne : ∀ k, k < Vec.c → ∃ i, i < l ∧ sumTo C.c (fun t => (cplx C).e i t * Vec.e t k) ≠ 0) :
    shapesOf (cplx C') Vec = (shapesOf (cplx C) Vec).map (fun w => normalise (mixVec l Q w)) := by
  unfold shapesOf
  rw [List.map_map]
  apply List.map_congr_left
  intro k hk
  have hk' := List.mem_range.mp hk
  simp only [Function.comp]
  show normalise ((List.range C'.r).map fun i => sumTo C'.c (fun t => (cplx C').e i t * Vec.e t k))
    = normalise (mixVec l Q (normalise ((List.range C.r).map fun i =>
        sumTo C.c (fun t => (cplx C).e i t * Vec.e t k))))
  rw [hr, hr', hc]
  set raw := (List.range l).map fun i => sumTo C.c (fun t => (cplx C).e i t * Vec.e t k) with hraw
  -- the un-normalised shape of the mixed run is `Q·raw`
  have hmix : ((List.range l).map fun i => sumTo C.c (fun t => (cplx C').e i t * Vec.e t k))
      = mixVec l Q raw := by
    unfold mixVec
    apply List.map_congr_left
    intro i hi
    have hi' := List.mem_range.mp hi
    rw [sumTo_eq, sumTo_eq]
    have h1 : ∀ a, a ∈ Finset.range l → (⟨Q i a, 0⟩ : Cpx Rat) * raw.getD a 0
        = ∑ t ∈ Finset.range C.c, (⟨Q i a, 0⟩ : Cpx Rat) * ((cplx C).e a t * Vec.e t k) := by
      intro a ha
      rw [hraw, getD_map_range l _ 0 a (Finset.mem_range.mp ha), sumTo_eq, Finset.mul_sum]
    rw [Finset.sum_congr rfl h1, Finset.sum_comm]
    apply Finset.sum_congr rfl
    intro t _
    have h2 : (cplx C').e i t = ∑ a ∈ Finset.range l, (⟨Q i a * C.e a t, 0⟩ : Cpx Rat) := by
      show (⟨C'.e i t, 0⟩ : Cpx Rat) = _
      rw [he i hi' t, sumTo_eq, cplx_sum]
    rw [h2, Finset.sum_mul]
    apply Finset.sum_congr rfl
    intro a _
    apply CpxL.ext <;> simp [cplx] <;> ring
  rw [hmix]
  -- the reported shape of the original run is `(1/p)·raw`, `p ≠ 0`
  obtain ⟨i, hi, hi0⟩ := hne k hk'
  have hmem : ∃ x ∈ raw, x ≠ 0 :=
    ⟨_, List.mem_map.mpr ⟨i, List.mem_range.mpr hi, rfl⟩, hi0⟩
  have hlen : 0 < raw.length := by
    obtain ⟨x, hx, _⟩ := hmem; exact List.length_pos_of_mem hx
  obtain ⟨_, hmax⟩ := argmaxNormSq_spec raw hlen
  set p := raw.getD (argmaxNormSq raw) 0 with hp
  have hpos : 0 < Cpx.normSq p := by
    obtain ⟨x, hx, hx0⟩ := hmem
    obtain ⟨j, hj, hjx⟩ := List.getElem_of_mem hx
    have h1 := hmax j hj
    rw [hjx] at h1
    exact lt_of_lt_of_le (PV.Cov.normSq_pos_of_ne hx0) h1
  set c : Cpx Rat := (⟨1, 0⟩ : Cpx Rat) / p with hcdef
  have hc0 : c ≠ 0 := by
    intro h0
    have : Cpx.normSq c = 0 := by rw [h0]; show (0 : Rat) * 0 + 0 * 0 = 0; ring
    rw [hcdef, cpx_normSq_div _ _ hpos.ne'] at this
    have h1 : Cpx.normSq (⟨1, 0⟩ : Cpx Rat) = 1 := by simp [Cpx.normSq]
    rw [h1, div_eq_zero_iff] at this
    rcases this with h | h
    · exact one_ne_zero h
    · exact hpos.ne' h
  have hnorm : normalise raw = raw.map (c * ·) := by
    unfold normalise
    apply List.map_congr_left
    intro x _
    exact cpx_div_eq x p
  rw [hnorm, mixVec_smul, normalise_smul c hc0]

end mix

/-! ## 5. Time unit through the model of the whole `ssi.ac2mp` (`Model/C08.lean`, driver op `c08_ac2mp`) -/
section time_ac2mp

/-- `lam_c = log(lam_d)·(1/dt)` as coded: declaring `dt/k` multiplies it by `k` -/
theorem C08_time_unit_lamC (z : Cpx Rat) (dt k : Rat) :
    lamCOf z (1 / (dt / k)) = ⟨k * (lamCOf z (1 / dt)).re, k * (lamCOf z (1 / dt)).im⟩ := by
  simp only [lamCOf, one_div_div]
  congr 1 <;> ring

/-- **C08_time_unit_ac2mp — `ssi.ac2mp`, the model with the `dt` step inside.**  Same recorded `log(lam_d)` and
    eigenvectors (the state and output matrices do not depend on `dt`), `dt' = dt/k`, recorded moduli
    multiplied by `k ≠ 0` (`|k·λ| = k·|λ|` for `k > 0`): every `fn` and every continuous pole is multiplied by
    `k`, every `xi` and every unit-normalised shape is unchanged. -/
theorem C08_time_unit_ac2mp (C V : Mat (Cpx Rat)) (logLam : List (Cpx Rat)) (dt k : Rat) (hk : k ≠ 0)
    (absLam : List Rat) (twoPi : Rat) :
    ac2mpSsi C V logLam (1 / (dt / k)) (absLam.map (k * ·)) twoPi
      = { fn := (ac2mpSsi C V logLam (1 / dt) absLam twoPi).fn.map (k * ·),
          xi := (ac2mpSsi C V logLam (1 / dt) absLam twoPi).xi,
          phi := (ac2mpSsi C V logLam (1 / dt) absLam twoPi).phi,
          lam := (ac2mpSsi C V logLam (1 / dt) absLam twoPi).lam.map
            (fun z => (⟨k * z.re, k * z.im⟩ : Cpx Rat)) } := by
  simp only [ac2mpSsi, List.map_map]
  congr 1
  · apply List.map_congr_left
    intro a _
    exact (C08_time_unit_ssi_model ⟨0, 0⟩ a twoPi k hk).2
  · rw [List.zip_map, List.map_map]
    conv_rhs => rw [← List.map_id absLam, List.zip_map, List.map_map]
    apply List.map_congr_left
    rintro ⟨z, a⟩ _
    simp only [Function.comp, Prod.map, id]
    rw [C08_time_unit_lamC]
    exact (C08_time_unit_ssi_model (lamCOf z (1 / dt)) a twoPi k hk).1
  · apply List.map_congr_left
    intro z _
    exact C08_time_unit_lamC z dt k

example := C08_time_unit_ac2mp ⟨2, 1, fun i _ => ⟨(i : Rat) + 1, 0⟩⟩ ⟨1, 1, fun _ _ => ⟨0, 1⟩⟩ [⟨-1/100, 7/10⟩]
  (1/50) 10 (by norm_num) [7/10] 6
-- the values on this instance: `fn = 35·(7/10)/6`… for `dt = 1/50`; ten times that for `dt = 1/500`
example : (ac2mpSsi ⟨2, 1, fun i _ => ⟨(i : Rat) + 1, 0⟩⟩ ⟨1, 1, fun _ _ => ⟨0, 1⟩⟩ [⟨-1/100, 7/10⟩]
    (1 / (1/50)) [35] 6).lam = [⟨-1/2, 35⟩] := by decide +kernel

end time_ac2mp

/-! ## Non-vacuity -/
section examples
open PV.Plscf PV.Fdd

-- SSI: `v = (1+i, −2i, 1/2)`: `|v₁| = 2` is the largest; reported `(−1/2+1/2 i, 1, 1/4 i)`
example := C08_unity_ssi [⟨1, 1⟩, ⟨0, -2⟩, ⟨1/2, 0⟩] ⟨⟨1, 1⟩, by simp, by decide⟩
example : argmaxNormSq [(⟨1, 1⟩ : Cpx Rat), ⟨0, -2⟩, ⟨1/2, 0⟩] = 1
    ∧ normalise [(⟨1, 1⟩ : Cpx Rat), ⟨0, -2⟩, ⟨1/2, 0⟩] = [⟨-1/2, 1/2⟩, ⟨1, 0⟩, ⟨0, 1/4⟩] := by
  decide +kernel
-- a tie: `(2i, −2, 1)`: the FIRST index of largest magnitude is taken
example : argmaxNormSq [(⟨0, 2⟩ : Cpx Rat), ⟨-2, 0⟩, ⟨1, 0⟩] = 0 := by decide +kernel
example := C08_unity_shapes (cplx (outC (obsOf eU eSq 1) 2 1)) ⟨1, 1, fun _ _ => ⟨0, 1⟩⟩ 0 (by decide)
  ⟨0, by decide, by decide +kernel⟩

-- pLSCF: `C = [[1], [−2]]` (two channels, one state), eigenvector `q = (i)`, a finite pole
example : ∃ out, phiCell (K := Rat) ⟨2, 1, fun i _ => if i = 0 then 1 else -2⟩ (some ⟨-1, 3⟩) [⟨0, 1⟩]
    = some out := ⟨[⟨-1/2, 0⟩, ⟨1, 0⟩], by decide +kernel⟩
example := C08_unity_plscf (K := Rat) ⟨2, 1, fun i _ => if i = 0 then 1 else -2⟩ (some ⟨-1, 3⟩) [⟨0, 1⟩]
  [⟨-1/2, 0⟩, ⟨1, 0⟩] (by decide +kernel)
example := C08_unity_plscf_column (K := Rat) (fun x => x) 6 100 false 0
  ⟨2, 1, fun i _ => if i = 0 then 1 else -2⟩ [⟨⟨1/2, 1/2⟩, ⟨-1, 3⟩, [⟨0, 1⟩]⟩]

-- FDD: C06's row `(1+i, −2i, 1/2)`
example : ∃ out, Fdd.normalise 3 PV.C06.exPhi = some out := ⟨_, by
  unfold Fdd.normalise; rw [if_neg (by decide +kernel)]⟩
example (out : Nat → Fdd.Cx Rat) (h : Fdd.normalise 3 PV.C06.exPhi = some out) :=
  C08_unity_fdd 3 (by decide) PV.C06.exPhi out h
-- `FDD_mpe` on the instance of `C08Pipe` (one requested frequency, a mode is returned)
example : ∃ modes, fddMpe 2 2 6 (fun i => (i : Rat) / 2) (svalPlace fSq) (svecPlace fI) [1] 1 = .ok modes ∧
    modes.length = 1 := by
  have h2 : (match fddMpe 2 2 6 (fun i => (i : Rat) / 2) (svalPlace fSq) (svecPlace fI) [1] 1 with
    | .ok [m] => (m.pick.lo, m.pick.hi, m.pick.idx, m.fn) | _ => (0, 0, 0, 0)) = (0, 4, 3, 3/2) := by
    decide +kernel
  cases h : fddMpe 2 2 6 (fun i => (i : Rat) / 2) (svalPlace fSq) (svecPlace fI) [1] 1 with
  | error e =>
    rw [h] at h2
    simp at h2
  | ok modes => exact ⟨modes, rfl, (C08_unity_fdd_mpe 2 2 6 _ _ _ [1] 1 modes h).1⟩

-- mixing: the instance of `C08Pipe` (`C = (432, 576)ᵀ`), rotation `eRot`, eigenvector `[1]`
example := C08_mix_shapes 2 eRot.e (outC (obsOf eU eSq 1) 2 1)
  (outC (obsOf (blockMix 2 eRot.e eU) eSq 1) 2 1) ⟨1, 1, fun _ _ => ⟨1, 0⟩⟩ rfl rfl rfl
  (fun i hi j => (C08_mix_ssi eY eY eRot eRot 1 1 rfl rfl rfl rfl eRotOrtho eRotOrtho eU eV eS eSq 1 eSvd
      1 2 1 1 eQ eR eRinv eQr rfl).2.2.2 i hi j)
  (fun k hk => ⟨0, by decide, by
    have : k = 0 := by
      have : k < 1 := hk
      omega
    subst this; decide +kernel⟩)

end examples

end PV.C08
