import PyomaVerif.Props.C03
import PyomaVerif.Props.C11
import PyomaVerif.Props.C01C11
import PyomaVerif.Props.C02C01
import PyomaVerif.Lemmas.MsExtract
import Mathlib.Tactic.IntervalCases
/-!
# C03 ∘ C11 — multi-setup SSI identification ⇒ extraction

Last sentence of C03 ("… return at order 2m the global natural frequencies and damping ratios, and
mode shapes over all sensors — references first, then each setup's roving sensors in setup order —
independent of the per-setup amplitudes") for the model functions, by composition:

* `C03C11_obs_all` — `C03_assembled` in matrix form: the matrix `Obs_all` that the interleaving
  loop of `SSI_multi_setup` writes (model: `allRows` + `srcRow`) is, row by row, the block
  observability matrix of the GLOBAL pair `(A, C_g[order])` times `M₁`, `order` = listed
  references, then every setup's roving channels in setup order.
* `C03C11_identified` / `C03C11_shape` — with the QR/inverse contracts of `C03_identify`
  (`C01_realisation_fast`) the realised pair at order `n` is `(M₁⁻¹·A·M₁, C_g[order]·M₁)`, and
  the column of the model's `shapesOf` (`ac2mp`) for a recorded eigenvector of a simple
  eigenvalue is `normalise (C_g[order]·w)`: the global shape over all sensors, in that order —
  no gain, no basis (`M₁` absorbs the first setup's, `C03_rebase` removed the others').
* `C03C11_cells` / `C03C11_extract` — the extraction model `ssiMpe` at an explicit order: if
  for every requested frequency the row holding the wanted pole is the first nearest retained
  row of the order column (`firstNearest_of_separated`: every other pole of that order is
  farther away, its conjugate partner comes later) and within `rtol` of the request, the call
  succeeds and returns, request by request, frequency, damping and shape of exactly those rows
  (`C01_extract` is the frequency part of this for a request equal to the pole).
* `C03C11_global` — both together: the returned triples are `(fn, xi)` as `ac2mp` computes them
  from eigenvalues of the GLOBAL state matrix and the global shapes over all sensors.
-/
namespace PV.C03C11
open PV PV.Multi PV.C02C01 PV.C11 Matrix

/-- sensor order of the multi-setup result: listed references, then the roving channels of every
    setup in setup order (global row numbers of the structure) -/
def orderOf (refIds : List Nat) (movIds : List (List Nat)) : List Nat := refIds ++ movIds.flatten

theorem orderOf_length (refIds : List Nat) (movIds : List (List Nat)) :
    (orderOf refIds movIds).length = refIds.length + (movIds.map List.length).sum := by
  simp [orderOf, List.length_flatten]

/-- `Obs_all` as the interleaving loop writes it: row `i` is copied from the row source
    `allRows[i]` (`O1_ref` or a re-based roving part), `br·n_DOF` rows, `n` columns -/
def obsAll {n : ℕ} (br nref : ℕ) (nmov : List ℕ) (O1ref : ℕ → Fin n → Q) (Omovs : ℕ → ℕ → Fin n → Q) :
    Mat Q :=
  ⟨br * (nref + nmov.sum), n, fun i j =>
    if h : j < n then
      match (allRows br nref nmov)[i]? with
      | some src => C03.srcRow O1ref Omovs src ⟨j, h⟩
      | none => 0
    else 0⟩

/-- **C03_assembled, in matrix form.** The first setup's reference part is `O(A, C_g[refs])·M₁`,
    every re-based roving part `O(A, C_g[roving_jj])·M₁` (conclusion of `C03_rebase`): every row of
    `Obs_all` is the row of the block observability matrix of `(A, C_g[order])` times `M₁`. -/
theorem C03C11_obs_all {n : ℕ} (A M1 : Matrix (Fin n) (Fin n) Q) (br : ℕ) (refIds : List Nat)
    (movIds : List (List Nat)) (Cg : ℕ → Fin n → Q)
    (O1ref : ℕ → Fin n → Q) (Omovs : ℕ → ℕ → Fin n → Q)
    (h1 : ∀ q j, O1ref q j
      = ∑ k, obsFn refIds.length A (fun s => Cg (refIds.getD s 0)) q k * M1 k j)
    (h2 : ∀ jj l, movIds[jj]? = some l → ∀ q j, Omovs jj q j
      = ∑ k, obsFn l.length A (fun s => Cg (l.getD s 0)) q k * M1 k j) :
    ∀ i, i < (obsAll br refIds.length (movIds.map List.length) O1ref Omovs).r → ∀ j : Fin n,
      (obsAll br refIds.length (movIds.map List.length) O1ref Omovs).e i j.1
        = ∑ k, obsFn (orderOf refIds movIds).length A (setupC Cg (orderOf refIds movIds) 1) i k
            * M1 k j := by
  intro i hi j
  set nref := refIds.length with hnref
  set nmov := movIds.map List.length with hnmov
  set nD := nref + nmov.sum with hnD
  have hlen : (orderOf refIds movIds).length = nD := orderOf_length refIds movIds
  have hi' : i < br * nD := hi
  have hnDpos : 0 < nD := by
    rcases Nat.eq_zero_or_pos nD with h | h
    · rw [h, Nat.mul_zero] at hi'; omega
    · exact h
  have hii : i / nD < br := Nat.div_lt_of_lt_mul (by rw [Nat.mul_comm]; exact hi')
  have hdecomp : i = (i / nD) * nD + i % nD := by
    have := Nat.div_add_mod i nD; rw [Nat.mul_comm] at this; omega
  have hsI : i % nD < nD := Nat.mod_lt _ hnDpos
  have hmovget : ∀ (jj nm : Nat), nmov[jj]? = some nm → ∃ l : List Nat, movIds[jj]? = some l ∧ l.length = nm := by
    intro jj nm h
    simp only [hnmov, List.getElem?_map, Option.map_eq_some_iff] at h
    exact h
  obtain ⟨hR, hM⟩ := C03.C03_assembled A M1 br nref nmov
    (fun s => Cg (refIds.getD s 0)) (fun jj s => Cg ((movIds.getD jj []).getD s 0))
    (setupC Cg (orderOf refIds movIds) 1) O1ref Omovs h1
    (by
      intro jj nm hjj q j
      obtain ⟨l, hl, hll⟩ := hmovget jj nm hjj
      have : movIds.getD jj [] = l := by simp [List.getD_eq_getElem?_getD, hl]
      rw [h2 jj l hl q j, this, hll])
    (by
      intro s hs
      funext t
      simp only [setupC, orderOf, one_mul]
      rw [append_getD_left _ _ s hs])
    (by
      intro jj nm k hjj hk
      obtain ⟨l, hl, hll⟩ := hmovget jj nm hjj
      have : movIds.getD jj [] = l := by simp [List.getD_eq_getElem?_getD, hl]
      funext t
      simp only [setupC, orderOf, one_mul]
      rw [append_getD_right, flatten_getD movIds jj l k hl (by omega), this])
    (i / nD) hii
  -- the entry of the model matrix from the row source
  have hentry : ∀ row : Fin n → Q,
      ((allRows br nref nmov)[i]?.map (C03.srcRow O1ref Omovs)) = some row →
      (obsAll br nref nmov O1ref Omovs).e i j.1 = row j := by
    intro row h
    obtain ⟨src, hsrc, hrow⟩ := Option.map_eq_some_iff.mp h
    simp only [obsAll, dif_pos j.2, hsrc]
    rw [← hrow]
  rw [hlen]
  by_cases hs : i % nD < nref
  · have := hR (i % nD) hs
    rw [← hdecomp] at this
    rw [hentry _ this]
  · obtain ⟨jj, nm, k, hjj, hk, ht⟩ := roving_cover nmov (i % nD - nref) (by omega)
    have hidx : i % nD = nref + ((nmov.take jj).sum + k) := by omega
    have := hM jj nm k hjj hk
    rw [← hidx, ← hdecomp] at this
    rw [hentry _ this]

/-- **C03_identify ⇒ `Identified`.** With the QR contract of `SSI_multi_setup`'s realisation
    (`Q·R` of `Obs_all[:-n_DOF]`, `QᵀQ = 1`, `R` upper triangular, `Rinv` inverts the leading
    block: `C03_identify`) every recorded eigenvector column of the realised order-`n` state matrix
    yields, through the model's `shapesOf` on `C[n] = Obs_all[:n_DOF, :n]`, a shape *identified*
    (C02C01's predicate) for the global pair `(A, C_g)` on the rows `order` — with amplitude 1:
    the per-setup gains have gone into `M₁` or been divided out by the re-basing. -/
theorem C03C11_identified {N n : ℕ} (hn : n ≤ N) (A M1 M1inv : Matrix (Fin n) (Fin n) Q)
    (hM : M1 * M1inv = 1) (br : ℕ) (hbr : 1 ≤ br) (refIds : List Nat) (movIds : List (List Nat))
    (hpos : 0 < (orderOf refIds movIds).length) (Cg : ℕ → Fin n → Q)
    (O1ref : ℕ → Fin n → Q) (Omovs : ℕ → ℕ → Fin n → Q)
    (h1 : ∀ q j, O1ref q j
      = ∑ k, obsFn refIds.length A (fun s => Cg (refIds.getD s 0)) q k * M1 k j)
    (h2 : ∀ jj l, movIds[jj]? = some l → ∀ q j, Omovs jj q j
      = ∑ k, obsFn l.length A (fun s => Cg (l.getD s 0)) q k * M1 k j)
    (Qm R Rinv V : Mat Q) (hRc : Rinv.c = n)
    (hQr : Qm.r = (obsAll br refIds.length (movIds.map List.length) O1ref Omovs).r
        - (orderOf refIds movIds).length)
    (hQR : toMx ((obsAll br refIds.length (movIds.map List.length) O1ref Omovs).r
          - (orderOf refIds movIds).length) N
        (upPart (obsAll br refIds.length (movIds.map List.length) O1ref Omovs)
          (orderOf refIds movIds).length).e
        = toMx ((obsAll br refIds.length (movIds.map List.length) O1ref Omovs).r
          - (orderOf refIds movIds).length) N Qm.e * toMx N N R.e)
    (hOrth : (toMx ((obsAll br refIds.length (movIds.map List.length) O1ref Omovs).r
          - (orderOf refIds movIds).length) N Qm.e)ᵀ
        * toMx ((obsAll br refIds.length (movIds.map List.length) O1ref Omovs).r
          - (orderOf refIds movIds).length) N Qm.e = 1)
    (hTri : ∀ i j, j < i → R.e i j = 0)
    (hRinv : toMx n n Rinv.e * toMx n n R.e = 1)
    (k : Nat) (hk : k < V.c) (lam : Q)
    (hv : (toMx n n (fastA Rinv Qm
        (dnPart (obsAll br refIds.length (movIds.map List.length) O1ref Omovs)
          (orderOf refIds movIds).length) n).e).mulVec (fun t : Fin n => V.e t.1 k)
        = lam • (fun t : Fin n => V.e t.1 k))
    (hvne : (fun t : Fin n => V.e t.1 k) ≠ 0) :
    Identified A Cg lam (orderOf refIds movIds)
      ((shapesOf (outC (obsAll br refIds.length (movIds.map List.length) O1ref Omovs)
        (orderOf refIds movIds).length n) V).getD k []) := by
  have hrl : (orderOf refIds movIds).length
      ≤ (obsAll br refIds.length (movIds.map List.length) O1ref Omovs).r := by
    show _ ≤ br * (refIds.length + (movIds.map List.length).sum)
    rw [← orderOf_length]
    exact Nat.le_mul_of_pos_left _ hbr
  exact C02C01_identified_fast hn _ Qm R Rinv V (orderOf refIds movIds) hpos hrl hRc hQr hQR hOrth
    hTri hRinv A M1 M1inv hM Cg 1 one_ne_zero
    (C03C11_obs_all A M1 br refIds movIds Cg O1ref Omovs h1 h2) k hk lam hv hvne

/-- **The extracted shape is the global one, over all sensors in the order references-then-roving.**
    An identified shape for a simple eigenvalue of the global `A` (eigenvector `w`) is
    `normalise (C_g[order]·w)` — `ac2mp`'s unity normalisation of the global mode shape. -/
theorem C03C11_shape {n : ℕ} (A : Matrix (Fin n) (Fin n) Q) (Cg : ℕ → Fin n → Q) (lam : Q)
    (w : Fin n → Q) (hsimple : ∀ u, A.mulVec u = lam • u → ∃ c : Q, u = c • w)
    (refIds : List Nat) (movIds : List (List Nat)) (phi : List Q)
    (h : Identified A Cg lam (orderOf refIds movIds) phi) :
    phi = normalise ((orderOf refIds movIds).map (gshape Cg w)) :=
  identified_shape A Cg lam w hsimple _ phi h

/-! ## extraction -/

/-- **The cells the request loop selects.** -/
theorem C03C11_cells (Fn : Mat NR) (rtol : Rat) (ord : Nat) (tr : Rat → Nat) (tv : Rat → Rat)
    (freq : List Rat)
    (hnear : ∀ fj ∈ freq, IsFirstNearest (fun r => Fn.e r ord) Fn.r fj (tr fj) (tv fj)
      ∧ |tv fj - fj| ≤ iscloseAtol + rtol * |fj|) :
    mpeCells Fn (chkOwn rtol) (reqsOf freq (.int ord)) = freq.map fun fj => (tr fj, ord) :=
  mpeCells_of_firstNearest Fn rtol ord tr tv freq hnear

/-- **Extraction at an explicit order returns the requested poles, whole.** If for every requested
    frequency `fj` the row `tr fj` of column `ord` is the first nearest retained pole and within
    `rtol` of `fj` (`np.isclose(pole, fj, rtol)`), the call `SSI_mpe(freq, …, order=ord, rtol)`
    succeeds, echoes the order, and returns — request by request — the frequency, the damping and
    the shape (and covariances, `C11_whole`) stored in the cells `(tr fj, ord)`. -/
theorem C03C11_extract (freq : List Rat) (hne : freq ≠ []) (Fn Xi : Mat NR) (Phi : Ten3 (Option CQ))
    (Lab : Option (Mat Int)) (rtol : Rat) (cov : Option MpeCov) (ord : Nat) (hord : ord < Fn.c)
    (tr : Rat → Nat) (tv : Rat → Rat)
    (hnear : ∀ fj ∈ freq, IsFirstNearest (fun r => Fn.e r ord) Fn.r fj (tr fj) (tv fj)
      ∧ |tv fj - fj| ≤ iscloseAtol + rtol * |fj|) :
    ∃ out, ssiMpe freq Fn Xi Phi (.int ord) Lab rtol cov = .ok out ∧ out.orderOut = .int ord ∧
      out.acc = accOfCells Fn Xi Phi cov (freq.map fun fj => (tr fj, ord)) ∧
      out.acc.fn = freq.map (fun fj => some (tv fj)) ∧
      out.acc.xi = freq.map (fun fj => Xi.e (tr fj) ord) ∧
      out.acc.phi = freq.map (fun fj => ten3Row Phi (tr fj) ord) := by
  have hserv : ∀ q ∈ reqsOf freq (.int ord), Servable Fn q := by
    intro q hq
    simp only [reqsOf, List.mem_map] at hq
    obtain ⟨fj, hfj, rfl⟩ := hq
    obtain ⟨⟨hlt, hval, _, _⟩, _⟩ := hnear fj hfj
    exact ⟨ord, rfl, hord, tr fj, hlt, by simp only [] at hval; rw [hval]; simp⟩
  obtain ⟨out, hout⟩ := (C11_error_iff freq Fn Xi Phi Lab rtol cov (order := .int ord)
    (by simp)).mpr ⟨hserv, fun _ _ => hne⟩
  obtain ⟨_, hacc⟩ := ssi_explicit freq Fn Xi Phi Lab rtol cov (order := .int ord) (by simp) hout
  rw [C03C11_cells Fn rtol ord tr tv freq hnear] at hacc
  refine ⟨out, hout, (C11_order_out_echo freq Fn Xi Phi Lab rtol cov hout).1 ord rfl, hacc, ?_, ?_, ?_⟩
  · rw [hacc]
    simp only [accOfCells, List.map_map]
    apply List.map_congr_left
    intro fj hfj
    exact (hnear fj hfj).1.2.1
  · rw [hacc]; simp [accOfCells, List.map_map, Function.comp_def]
  · rw [hacc]; simp [accOfCells, List.map_map, Function.comp_def]

/-! ## identification ⇒ extraction -/

/-- a complex number of the `ac2mp` model as stored in the shape table -/
def toCQ (z : Q) : Option CQ := some (z.re, z.im)

/-- column `ord` of the pole tables as `SSI_poles` fills it from `ac2mp(A[ord], C[ord], dt)`:
    rows `r < ord` hold `fn = |λ_c|/2π`, `xi = −Re λ_c/|λ_c|` (`fnOf`, `xiOf` on the recorded
    `λ_c = log(λ_r)/dt`, `|λ_c|`) and the `r`-th normalised shape -/
structure ColumnFilled (Fn Xi : Mat NR) (Phi : Ten3 (Option CQ)) (ord : Nat)
    (lamc : Nat → Q) (absL : Nat → Rat) (twoPi : Rat) (shapes : List (List Q)) : Prop where
  fn : ∀ r, r < ord → Fn.e r ord = some (fnOf (absL r) twoPi)
  xi : ∀ r, r < ord → Xi.e r ord = some (xiOf (lamc r) (absL r))
  phi : ∀ r, r < ord → ten3Row Phi r ord = (shapes.getD r []).map toCQ

/-- **C03 ∘ C11.** Multi-setup SSI on exact data, then extraction at the order `n` of the global
    system.  Premises: the re-based factors (`h1`, `h2`: `C03_rebase`), the recorded QR/inverse
    and eigen-decomposition contracts (`C03_identify`), column `n` of the tables filled by `ac2mp`
    from that realisation (`ColumnFilled`); for each requested `fj` the row `tr fj < n` holds a
    recorded eigenvector for `lam fj`, a simple eigenvalue of the GLOBAL `A` (eigenvector `w fj`),
    its frequency is within `rtol` of `fj`, and it is the first nearest pole of that order.
    Conclusion: `SSI_mpe(freq, …, order=n)` succeeds and returns, request by request, the
    frequency and damping `ac2mp` computes from that global eigenvalue and the global mode shape
    over all sensors `normalise (C_g[order]·w)`, `order` = references then roving by setup —
    nothing of the per-setup gains or bases in it. -/
theorem C03C11_global {N n : ℕ} (hn : n ≤ N) (A M1 M1inv : Matrix (Fin n) (Fin n) Q)
    (hM : M1 * M1inv = 1) (br : ℕ) (hbr : 1 ≤ br) (refIds : List Nat) (movIds : List (List Nat))
    (hpos : 0 < (orderOf refIds movIds).length) (Cg : ℕ → Fin n → Q)
    (O1ref : ℕ → Fin n → Q) (Omovs : ℕ → ℕ → Fin n → Q)
    (h1 : ∀ q j, O1ref q j
      = ∑ k, obsFn refIds.length A (fun s => Cg (refIds.getD s 0)) q k * M1 k j)
    (h2 : ∀ jj l, movIds[jj]? = some l → ∀ q j, Omovs jj q j
      = ∑ k, obsFn l.length A (fun s => Cg (l.getD s 0)) q k * M1 k j)
    (Qm R Rinv V : Mat Q) (hRc : Rinv.c = n)
    (hQr : Qm.r = (obsAll br refIds.length (movIds.map List.length) O1ref Omovs).r
        - (orderOf refIds movIds).length)
    (hQR : toMx ((obsAll br refIds.length (movIds.map List.length) O1ref Omovs).r
          - (orderOf refIds movIds).length) N
        (upPart (obsAll br refIds.length (movIds.map List.length) O1ref Omovs)
          (orderOf refIds movIds).length).e
        = toMx ((obsAll br refIds.length (movIds.map List.length) O1ref Omovs).r
          - (orderOf refIds movIds).length) N Qm.e * toMx N N R.e)
    (hOrth : (toMx ((obsAll br refIds.length (movIds.map List.length) O1ref Omovs).r
          - (orderOf refIds movIds).length) N Qm.e)ᵀ
        * toMx ((obsAll br refIds.length (movIds.map List.length) O1ref Omovs).r
          - (orderOf refIds movIds).length) N Qm.e = 1)
    (hTri : ∀ i j, j < i → R.e i j = 0)
    (hRinv : toMx n n Rinv.e * toMx n n R.e = 1) (hVc : V.c = n)
    -- the tables
    (Fn Xi : Mat NR) (Phi : Ten3 (Option CQ)) (Lab : Option (Mat Int)) (rtol : Rat)
    (cov : Option MpeCov) (hord : n < Fn.c) (lamc : Nat → Q) (absL : Nat → Rat) (twoPi : Rat)
    (hcol : ColumnFilled Fn Xi Phi n lamc absL twoPi
      (shapesOf (outC (obsAll br refIds.length (movIds.map List.length) O1ref Omovs)
        (orderOf refIds movIds).length n) V))
    -- the requests
    (freq : List Rat) (hne : freq ≠ []) (tr : Rat → Nat) (lam : Rat → Q) (w : Rat → Fin n → Q)
    (htr : ∀ fj ∈ freq, tr fj < n)
    (hv : ∀ fj ∈ freq, (toMx n n (fastA Rinv Qm
        (dnPart (obsAll br refIds.length (movIds.map List.length) O1ref Omovs)
          (orderOf refIds movIds).length) n).e).mulVec (fun t : Fin n => V.e t.1 (tr fj))
        = lam fj • (fun t : Fin n => V.e t.1 (tr fj)))
    (hvne : ∀ fj ∈ freq, (fun t : Fin n => V.e t.1 (tr fj)) ≠ 0)
    (hsimple : ∀ fj ∈ freq, ∀ u, A.mulVec u = lam fj • u → ∃ c : Q, u = c • w fj)
    (hnear : ∀ fj ∈ freq,
      IsFirstNearest (fun r => Fn.e r n) Fn.r fj (tr fj) (fnOf (absL (tr fj)) twoPi)
      ∧ |fnOf (absL (tr fj)) twoPi - fj| ≤ iscloseAtol + rtol * |fj|) :
    ∃ out, ssiMpe freq Fn Xi Phi (.int n) Lab rtol cov = .ok out ∧ out.orderOut = .int n ∧
      out.acc.fn = freq.map (fun fj => some (fnOf (absL (tr fj)) twoPi)) ∧
      out.acc.xi = freq.map (fun fj => some (xiOf (lamc (tr fj)) (absL (tr fj)))) ∧
      out.acc.phi = freq.map (fun fj =>
        (normalise ((orderOf refIds movIds).map (gshape Cg (w fj)))).map toCQ) := by
  obtain ⟨out, hout, hoo, _, hfn, hxi, hphi⟩ := C03C11_extract freq hne Fn Xi Phi Lab rtol cov n hord
    tr (fun fj => fnOf (absL (tr fj)) twoPi) hnear
  refine ⟨out, hout, hoo, hfn, ?_, ?_⟩
  · rw [hxi]
    apply List.map_congr_left
    intro fj hfj
    exact hcol.xi (tr fj) (htr fj hfj)
  · rw [hphi]
    apply List.map_congr_left
    intro fj hfj
    rw [hcol.phi (tr fj) (htr fj hfj)]
    congr 1
    exact C03C11_shape A Cg (lam fj) (w fj) (hsimple fj hfj) refIds movIds _
      (C03C11_identified hn A M1 M1inv hM br hbr refIds movIds hpos Cg O1ref Omovs h1 h2 Qm R Rinv V
        hRc hQr hQR hOrth hTri hRinv (tr fj) (by rw [hVc]; exact htr fj hfj) (lam fj) (hv fj hfj)
        (hvne fj hfj))

/-! ## Non-vacuity over ℚ(i)
Global system: `A = diag(1/2 + i/2, −1/3 + i/4)` (C02C01's instance), structure rows `0, 1, 2`
with output rows `C_g = [(2, −2); (2, 1); (1, 2)]`; the reference channel measures row 1, setup 0
roves row 0, setup 1 roves row 2: `order = [1, 0, 2]`, `C_g[order] = [(2, 1); (2, −2); (1, 2)]`
(orthogonal columns of norm 3).  First-setup basis/gain `M₁ = diag(2, 5)`; two block rows.
`Obs_all[:3] = C_g[order]·M₁ = Q·R` with `Q = C_g[order]/3`, `R = diag(6, 15)`; `eig` returns `3·I`. -/
section example_

def exA : Matrix (Fin 2) (Fin 2) Q := toMx 2 2 exAhat.e
def exM1 : Matrix (Fin 2) (Fin 2) Q := toMx 2 2 fun i j => if i = j then (if i = 0 then 2 else 5) else 0
def exM1inv : Matrix (Fin 2) (Fin 2) Q :=
  toMx 2 2 fun i j => if i = j then (if i = 0 then ⟨1/2, 0⟩ else ⟨1/5, 0⟩) else 0
def exCgl : ℕ → Fin 2 → Q := fun r t =>
  if r = 0 then (if t.1 = 0 then 2 else -2) else if r = 1 then (if t.1 = 0 then 2 else 1)
  else (if t.1 = 0 then 1 else 2)
def exRefIds : List Nat := [1]
def exMovIds : List (List Nat) := [[0], [2]]
def exO1ref : ℕ → Fin 2 → Q := fun q j =>
  ∑ k, obsFn exRefIds.length exA (fun s => exCgl (exRefIds.getD s 0)) q k * exM1 k j
def exOmovs : ℕ → ℕ → Fin 2 → Q := fun jj q j =>
  ∑ k, obsFn (exMovIds.getD jj []).length exA (fun s => exCgl ((exMovIds.getD jj []).getD s 0)) q k
    * exM1 k j
theorem ex_h2 : ∀ jj l, exMovIds[jj]? = some l → ∀ q j, exOmovs jj q j
    = ∑ k, obsFn l.length exA (fun s => exCgl (l.getD s 0)) q k * exM1 k j := by
  intro jj l hl q j
  have : exMovIds.getD jj [] = l := by simp [List.getD_eq_getElem?_getD, hl]
  simp only [exOmovs, this]

def exObsAll : Mat Q := obsAll 2 exRefIds.length (exMovIds.map List.length) exO1ref exOmovs
def exQm : Mat Q :=
  ⟨3, 2, fun i j => exCgl ((orderOf exRefIds exMovIds).getD i 0) ⟨j % 2, Nat.mod_lt _ (by decide)⟩ / 3⟩
def exRm : Mat Q := ⟨2, 2, fun i j => if i = j then (if i = 0 then 6 else 15) else 0⟩
def exRinvm : Mat Q := ⟨2, 2, fun i j => if i = j then (if i = 0 then ⟨1/6, 0⟩ else ⟨1/15, 0⟩) else 0⟩

example : orderOf exRefIds exMovIds = [1, 0, 2] := by decide
example : exObsAll.r = 6 ∧ (List.range 3).map (fun i => (exObsAll.e i 0, exObsAll.e i 1))
    = [(4, 5), (4, -10), (2, 10)] := by decide +kernel

/-- rows of `Obs_all` = global observability rows times `M₁` -/
example := C03C11_obs_all exA exM1 2 exRefIds exMovIds exCgl exO1ref exOmovs (fun _ _ => rfl) ex_h2

theorem ex_identified (k : Nat) (hk : k < 2) :
    Identified exA exCgl (exLam k) (orderOf exRefIds exMovIds)
      ((shapesOf (outC exObsAll (orderOf exRefIds exMovIds).length 2) exV).getD k []) := by
  apply C03C11_identified (N := 2) (n := 2) (le_refl 2) exA exM1 exM1inv (by decide +kernel) 2 (by decide)
    exRefIds exMovIds (by decide) exCgl exO1ref exOmovs (fun _ _ => rfl) ex_h2 exQm exRm exRinvm exV rfl
    (by decide +kernel) (by decide +kernel) (by decide +kernel)
    (fun i j hji => by simp only [exRm]; rw [if_neg (by omega)]) (by decide +kernel) k hk (exLam k)
  · interval_cases k <;> decide +kernel
  · interval_cases k <;> decide +kernel

theorem ex_simple (k : Nat) (hk : k < 2) :
    ∀ u, exA.mulVec u = exLam k • u → ∃ c : Q, u = c • exW k := by
  intro u hu
  obtain ⟨c, hc⟩ := exSimple ⟨k, hk⟩ u hu
  exact ⟨c, by rw [exW_eq k hk]; exact hc⟩

/-- the two global shapes over `order = [1, 0, 2]`: `(1, 1, 1/2)` and `(−1/2, 1, −1)` -/
example : normalise ((orderOf exRefIds exMovIds).map (gshape exCgl (exW 0))) = [⟨1, 0⟩, ⟨1, 0⟩, ⟨1/2, 0⟩]
    ∧ normalise ((orderOf exRefIds exMovIds).map (gshape exCgl (exW 1)))
      = [⟨-1/2, 0⟩, ⟨1, 0⟩, ⟨-1, 0⟩] := by
  decide +kernel

example : (shapesOf (outC exObsAll (orderOf exRefIds exMovIds).length 2) exV).getD 1 []
    = normalise ((orderOf exRefIds exMovIds).map (gshape exCgl (exW 1))) :=
  C03C11_shape exA exCgl (exLam 1) (exW 1) (ex_simple 1 (by decide)) exRefIds exMovIds _
    (ex_identified 1 (by decide))

/-! the tables: `ordmax = 2`; column 2 filled by `ac2mp` with the recorded `|λ_c| = 7, 21` and
`2π ≈ 7` (`fn = 1, 3`); column 1 holds a spurious pole at 2 Hz -/
def exShapes : List (List Q) := shapesOf (outC exObsAll (orderOf exRefIds exMovIds).length 2) exV
def exAbs : Nat → Rat := fun r => if r = 0 then 7 else 21
def exLamc : Nat → Q := fun r => if r = 0 then ⟨-7/25, 168/25⟩ else ⟨-21/5, 84/5⟩
def exFnT : Mat NR := ⟨2, 3, fun r o =>
  if o = 2 then some (fnOf (exAbs r) 7) else if o = 1 ∧ r = 0 then some 2 else none⟩
def exXiT : Mat NR := ⟨2, 3, fun r o =>
  if o = 2 then some (xiOf (exLamc r) (exAbs r)) else if o = 1 ∧ r = 0 then some (1/10) else none⟩
def exPhiT : Ten3 (Option CQ) := ⟨2, 3, 3, fun r o k =>
  if o = 2 then ((exShapes.getD r []).map toCQ).getD k none else none⟩

theorem ex_filled : ColumnFilled exFnT exXiT exPhiT 2 exLamc exAbs 7 exShapes := by
  refine ⟨fun r _ => rfl, fun r _ => rfl, ?_⟩
  intro r hr
  interval_cases r <;> decide +kernel

/-- requests `1.01` and `3` Hz, `rtol = 5 %`: rows 0 and 1 of column 2 -/
def exTr : Rat → Nat := fun fj => if fj < 2 then 0 else 1

theorem ex_near : ∀ fj ∈ [(101 : Rat) / 100, 3],
    IsFirstNearest (fun r => exFnT.e r 2) exFnT.r fj (exTr fj) (fnOf (exAbs (exTr fj)) 7)
    ∧ |fnOf (exAbs (exTr fj)) 7 - fj| ≤ iscloseAtol + (1 / 20) * |fj| := by
  intro fj hfj
  simp only [List.mem_cons, List.not_mem_nil, or_false] at hfj
  rcases hfj with rfl | rfl
  · have e1 : exTr (101 / 100) = 0 := by decide +kernel
    have e2 : fnOf (exAbs 0) 7 = 1 := by decide +kernel
    rw [e1, e2]
    obtain ⟨v, hv⟩ := (nanargminAbs_some (fun r => exFnT.e r 2) exFnT.r (101 / 100) 0).mp (by decide +kernel)
    have hv1 : v = 1 := (Option.some.inj hv.2.1).symm.trans (by decide +kernel)
    subst hv1
    refine ⟨hv, ?_⟩
    simp only [iscloseAtol]; norm_num [abs_of_nonneg, abs_of_nonpos]
  · have e1 : exTr 3 = 1 := by decide +kernel
    have e2 : fnOf (exAbs 1) 7 = 3 := by decide +kernel
    rw [e1, e2]
    obtain ⟨v, hv⟩ := (nanargminAbs_some (fun r => exFnT.e r 2) exFnT.r 3 1).mp (by decide +kernel)
    have hv1 : v = 3 := (Option.some.inj hv.2.1).symm.trans (by decide +kernel)
    subst hv1
    refine ⟨hv, ?_⟩
    simp only [iscloseAtol]; norm_num

example := C03C11_extract [101 / 100, 3] (by simp) exFnT exXiT exPhiT none (1 / 20) none 2 (by decide)
  exTr (fun fj => fnOf (exAbs (exTr fj)) 7) ex_near

/-- every hypothesis of `C03C11_global` holds for the instance -/
example := C03C11_global (N := 2) (n := 2) (le_refl 2) exA exM1 exM1inv (by decide +kernel) 2
  (by decide) exRefIds exMovIds (by decide) exCgl exO1ref exOmovs (fun _ _ => rfl) ex_h2 exQm exRm
  exRinvm exV rfl (by decide +kernel) (by decide +kernel) (by decide +kernel)
  (fun i j hji => by simp only [exRm]; rw [if_neg (by omega)]) (by decide +kernel) rfl
  exFnT exXiT exPhiT none (1 / 20) none (by decide) exLamc exAbs 7 ex_filled
  [101 / 100, 3] (by simp) exTr (fun fj => exLam (exTr fj)) (fun fj => exW (exTr fj))
  (by intro fj _; simp only [exTr]; split <;> decide)
  (by intro fj _; simp only [exTr]; split <;> decide +kernel)
  (by intro fj _; simp only [exTr]; split <;> decide +kernel)
  (by intro fj _; simp only [exTr]; split <;> exact ex_simple _ (by decide))
  ex_near

def exAccOf (r : Except String MpeOut) : MpeAcc :=
  match r with
  | .ok out => out.acc
  | .error _ => {}

/-- … and the model run agrees: frequencies `1, 3`, dampings, and the two global shapes over
    `[1, 0, 2]` -/
example : (exAccOf (ssiMpe [101 / 100, 3] exFnT exXiT exPhiT (.int 2) none (1 / 20) none)).fn
    = [some 1, some 3] := by decide +kernel
example : (exAccOf (ssiMpe [101 / 100, 3] exFnT exXiT exPhiT (.int 2) none (1 / 20) none)).xi
    = [some (1 / 25), some (1 / 5)] := by decide +kernel
example : (exAccOf (ssiMpe [101 / 100, 3] exFnT exXiT exPhiT (.int 2) none (1 / 20) none)).phi
    = [[some (1, 0), some (1, 0), some (1 / 2, 0)], [some (-1 / 2, 0), some (1, 0), some (-1, 0)]] := by
  decide +kernel

end example_

end PV.C03C11
