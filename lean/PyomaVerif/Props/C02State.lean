import PyomaVerif.Model.MergeState
import PyomaVerif.Props.C02Results
/-!
# C02 — the PoSER object across calls, `gen.MSF` on matrices, integer reference positions

Theorems about the executable functions of `Model/MergeState.lean` (driver operations
`poser_session`, `msf_arr`, `merge_mode_shapes_int`, `flatten_names_int`; correspondence streams
`MultiSetup_PoSER.merge_results[twice]`, `gen.MSF[matrix]`, `gen.merge_mode_shapes[negative]`,
`gen.flatten_sns_names[negative]`).

* `C02_results_fresh`: whatever an earlier call left in `__result`, a `merge_results()` call that
  goes through returns — and the `result` property then shows — for every name of the CURRENT
  grouping exactly what the stateless `mergeResults` (the object of `C02_poser`,
  `C02_stats_results`) computes from the results stored NOW; names merged earlier and not re-merged
  now keep their earlier entry (`stale` part); the call raises exactly when `mergeResults` does.
* `C02_results_first`: on a fresh object the call returns the stateless dictionary itself.
* `msfArr_vec`, `msfArr_mat`, `C02_msf_matrix`: `gen.MSF` on vectors is `[msf …]`, on matrices
  one factor per column; re-scaled columns give back their own factors.
* `mergeModeShapesI_ofNat`, `flattenNamesI_ofNat`: on non-negative positions the integer models are
  the natural-number models of `C02_merge_all` / `C02_order`; `C02_order_negative_fails`: for
  positions written from the end the merged rows and the flattened names no longer match.
-/
namespace PV.C02
open PV.Merge

/-! ## dictionaries -/

theorem dictSet_lookup_self {β : Type} (d : List (String × β)) (k : String) (v : β) :
    (dictSet d k v).lookup k = some v := by
  induction d with
  | nil => simp [dictSet]
  | cons p rest ih =>
    obtain ⟨k', w⟩ := p
    by_cases h : k' = k
    · subst h; simp [dictSet]
    · have h' : (k == k') = false := by simpa using fun e => h e.symm
      simp [dictSet, h, List.lookup, h', ih]

theorem dictSet_lookup_other {β : Type} (d : List (String × β)) (k k' : String) (v : β)
    (hk : k' ≠ k) : (dictSet d k v).lookup k' = d.lookup k' := by
  induction d with
  | nil =>
    have : (k' == k) = false := by simpa using hk
    simp [dictSet, List.lookup, this]
  | cons p rest ih =>
    obtain ⟨k0, w⟩ := p
    by_cases h : k0 = k
    · subst h
      have : (k' == k0) = false := by simpa using hk
      simp [dictSet, List.lookup, this]
    · by_cases h2 : k' = k0
      · subst h2; simp [dictSet, h, List.lookup]
      · have : (k' == k0) = false := by simpa using h2
        simp [dictSet, h, List.lookup, this, ih]

/-- re-assigning the value a key already has changes nothing -/
theorem dictSet_same {β : Type} (d : List (String × β)) (k : String) (v : β)
    (h : d.lookup k = some v) : dictSet d k v = d := by
  induction d with
  | nil => simp [List.lookup] at h
  | cons q qs ih =>
    obtain ⟨k0, w⟩ := q
    by_cases hk : k0 = k
    · subst hk
      simp only [List.lookup, beq_self_eq_true, Option.some.injEq] at h
      simp [dictSet, h]
    · have hk' : (k == k0) = false := by simpa using fun e => hk e.symm
      simp only [List.lookup, hk'] at h
      simp [dictSet, hk, ih h]

/-- `dictSet` of a new key appends -/
theorem dictSet_new {β : Type} (d : List (String × β)) (k : String) (v : β)
    (hk : k ∉ d.map Prod.fst) : dictSet d k v = d ++ [(k, v)] := by
  induction d with
  | nil => rfl
  | cons p rest ih =>
    obtain ⟨k0, w⟩ := p
    have h0 : k0 ≠ k := fun e => hk (by simp [e])
    have hr : k ∉ rest.map Prod.fst := fun e => hk (by simp only [List.map_cons, List.mem_cons]; exact Or.inr e)
    simp [dictSet, h0, ih hr]

/-- the assignments `self.__result[name] = r` of one call, in order, on the attribute `st` -/
def applyAll {β : Type} (st : Option (List (String × β))) (fresh : List (String × β)) :
    Option (List (String × β)) :=
  fresh.foldl (fun s g => some (dictSet (s.getD []) g.1 g.2)) st

theorem applyAll_cons {β : Type} (st : Option (List (String × β))) (g : String × β)
    (fresh : List (String × β)) :
    applyAll st (g :: fresh) = applyAll (some (dictSet (st.getD []) g.1 g.2)) fresh := rfl

theorem applyAll_isSome {β : Type} (st : Option (List (String × β))) (fresh : List (String × β))
    (h : fresh ≠ [] ∨ st.isSome) : (applyAll st fresh).isSome := by
  induction fresh generalizing st with
  | nil => simpa [applyAll] using h
  | cons g rest ih => rw [applyAll_cons]; exact ih _ (Or.inr rfl)

theorem applyAll_lookup_other {β : Type} (st : Option (List (String × β)))
    (fresh : List (String × β)) (n : String) (hn : n ∉ fresh.map Prod.fst) :
    ((applyAll st fresh).getD []).lookup n = (st.getD []).lookup n := by
  induction fresh generalizing st with
  | nil => rfl
  | cons g rest ih =>
    rw [applyAll_cons, ih _ (fun e => hn (by simp only [List.map_cons, List.mem_cons]; exact Or.inr e))]
    simp only [Option.getD_some]
    exact dictSet_lookup_other _ _ _ _ (fun e => hn (by simp [e]))

theorem applyAll_lookup_mem {β : Type} (st : Option (List (String × β)))
    (fresh : List (String × β)) (hnd : (fresh.map Prod.fst).Nodup) (n : String) (r : β)
    (hm : (n, r) ∈ fresh) : ((applyAll st fresh).getD []).lookup n = some r := by
  induction fresh generalizing st with
  | nil => simp at hm
  | cons g rest ih =>
    rw [applyAll_cons]
    simp only [List.map_cons, List.nodup_cons] at hnd
    rcases List.mem_cons.mp hm with h | h
    · subst h
      rw [applyAll_lookup_other _ _ _ hnd.1]
      simp only [Option.getD_some]
      exact dictSet_lookup_self _ _ _
    · exact ih _ hnd.2 h

theorem applyAll_some_nodup {β : Type} (d fresh : List (String × β))
    (hnd : ((d ++ fresh).map Prod.fst).Nodup) :
    applyAll (some d) fresh = some (d ++ fresh) := by
  induction fresh generalizing d with
  | nil => simp [applyAll]
  | cons g rest ih =>
    rw [applyAll_cons]
    simp only [Option.getD_some]
    have hg : g.1 ∉ d.map Prod.fst := by
      intro e
      rw [List.map_append, List.nodup_append] at hnd
      exact hnd.2.2 _ e _ (by simp) rfl
    rw [dictSet_new _ _ _ hg, ih _ (by simpa using hnd)]
    simp

/-! ## the keys of the grouping are pairwise distinct — for ANY names -/

theorem groupAppend_keys {α : Type} (g : List (String × List α)) (key : String) (a : α) :
    (groupAppend g key a).map Prod.fst
      = if key ∈ g.map Prod.fst then g.map Prod.fst else g.map Prod.fst ++ [key] := by
  induction g with
  | nil => simp [groupAppend]
  | cons p rest ih =>
    obtain ⟨k, as⟩ := p
    by_cases h : k = key
    · subst h; simp [groupAppend]
    · have h' : ¬ key = k := fun e => h e.symm
      simp only [groupAppend, h, if_false, List.map_cons, ih, List.mem_cons, h', false_or]
      split <;> simp

theorem groupAppend_keys_nodup {α : Type} (g : List (String × List α)) (key : String) (a : α)
    (h : (g.map Prod.fst).Nodup) : ((groupAppend g key a).map Prod.fst).Nodup := by
  rw [groupAppend_keys]
  split
  · exact h
  · rename_i hk
    rw [List.nodup_append]
    exact ⟨h, by simp, fun x hx y hy => by
      simp only [List.mem_singleton] at hy; subst hy; exact fun e => hk (e ▸ hx)⟩

theorem groupSetup_keys_nodup {α : Type} (names : List String) :
    ∀ (s : List α) (g : List (String × List α)) (ii : Nat) (out : List (String × List α)),
      (g.map Prod.fst).Nodup → groupSetup names g ii s = .ok out → (out.map Prod.fst).Nodup := by
  intro s
  induction s with
  | nil => intro g ii out h e; simp only [groupSetup, Except.ok.injEq] at e; exact e ▸ h
  | cons a as ih =>
    intro g ii out h e
    simp only [groupSetup] at e
    split at e
    · cases e
    · exact ih _ _ _ (groupAppend_keys_nodup _ _ _ h) e

theorem algGroups_keys_nodup {α : Type} (names : List String) :
    ∀ (ss : List (List α)) (g out : List (String × List α)),
      (g.map Prod.fst).Nodup → algGroups names g ss = .ok out → (out.map Prod.fst).Nodup := by
  intro ss
  induction ss with
  | nil => intro g out h e; simp only [algGroups, Except.ok.injEq] at e; exact e ▸ h
  | cons s ss ih =>
    intro g out h e
    simp only [algGroups] at e
    split at e
    · cases e
    · rename_i g' hg'
      exact ih _ _ (groupSetup_keys_nodup names s g 0 g' h hg') e

section
variable {K C : Type} [Zero K] [Add K] [Sub K] [Mul K] [Div K] [NatCast K]
  [Zero C] [Add C] [Mul C] [Div C] [Inhabited C]

/-- the loop body of the stateless `mergeResults` -/
def groupStep (sqrt : K → K) (re : C → C) (refInd : List (List Nat))
    (g : String × List (AlgRes K C)) : Except String (String × PoserRes K C) :=
  match mergeGroup sqrt re g.2 refInd with
  | .error e => .error e
  | .ok r => .ok (g.1, r)

theorem mergeResults_eq (sqrt : K → K) (re : C → C) (names : List String)
    (setups : List (List (AlgRes K C))) (refInd : List (List Nat)) :
    mergeResults sqrt re names setups refInd =
      match algGroups names [] setups with
      | .error e => .error e
      | .ok groups => mapE (groupStep sqrt re refInd) groups := by
  unfold mergeResults
  cases algGroups names [] setups with
  | error e => rfl
  | ok groups =>
    show mapE _ groups = mapE _ groups
    congr 1
    funext g
    simp only [groupStep]
    cases mergeGroup sqrt re g.2 refInd <;> rfl

theorem mapE_groupStep_keys (sqrt : K → K) (re : C → C) (refInd : List (List Nat)) :
    ∀ (groups : List (String × List (AlgRes K C))) (fresh : List (String × PoserRes K C)),
      mapE (groupStep sqrt re refInd) groups = .ok fresh →
      fresh.map Prod.fst = groups.map Prod.fst := by
  intro groups
  induction groups with
  | nil => intro fresh e; simp only [mapE, Except.ok.injEq] at e; subst e; rfl
  | cons g gs ih =>
    intro fresh e
    simp only [mapE, groupStep] at e
    split at e
    · rename_i e1 h1; split at h1 <;> cases h1; cases e
    · rename_i b h1
      split at e
      · cases e
      · rename_i bs h2
        cases e
        split at h1
        · cases h1
        · cases h1
          simp [ih bs h2]

/-- the stateful loop against the stateless one: it goes through exactly when `mapE` does, with
    the assignments of `applyAll`; it raises the same exception otherwise -/
theorem mergeLoopSt_ok (sqrt : K → K) (re : C → C) (refInd : List (List Nat)) :
    ∀ (groups : List (String × List (AlgRes K C))) (st : Option (List (String × PoserRes K C)))
      (fresh : List (String × PoserRes K C)),
      mapE (groupStep sqrt re refInd) groups = .ok fresh →
      mergeLoopSt sqrt re refInd st groups = (applyAll st fresh, none) := by
  intro groups
  induction groups with
  | nil => intro st fresh e; simp only [mapE, Except.ok.injEq] at e; subst e; rfl
  | cons g gs ih =>
    intro st fresh e
    simp only [mapE, groupStep] at e
    cases hg : mergeGroup sqrt re g.2 refInd with
    | error e1 => simp [hg] at e
    | ok r =>
      simp only [hg] at e
      cases hm : mapE (groupStep sqrt re refInd) gs with
      | error e2 => simp [hm] at e
      | ok bs =>
        simp only [hm, Except.ok.injEq] at e
        subst e
        simp only [mergeLoopSt, hg]
        rw [ih _ bs hm, applyAll_cons]

theorem mergeLoopSt_error (sqrt : K → K) (re : C → C) (refInd : List (List Nat)) :
    ∀ (groups : List (String × List (AlgRes K C))) (st : Option (List (String × PoserRes K C)))
      (e : String),
      mapE (groupStep sqrt re refInd) groups = .error e →
      (mergeLoopSt sqrt re refInd st groups).2 = some e := by
  intro groups
  induction groups with
  | nil => intro st e h; simp [mapE] at h
  | cons g gs ih =>
    intro st e h
    simp only [mapE, groupStep] at h
    cases hg : mergeGroup sqrt re g.2 refInd with
    | error e1 =>
      simp only [hg, Except.error.injEq] at h
      subst h
      simp [mergeLoopSt, hg]
    | ok r =>
      simp only [hg] at h
      cases hm : mapE (groupStep sqrt re refInd) gs with
      | error e2 =>
        simp only [hm, Except.error.injEq] at h
        subst h
        simp only [mergeLoopSt, hg]
        exact ih _ _ hm
      | ok bs => simp [hm] at h

/-- **the call raises exactly when the stateless `mergeResults` raises, with the same exception**,
    whatever `__result` held before -/
theorem mergeResultsSt_error (sqrt : K → K) (re : C → C) (names : List String)
    (setups : List (List (AlgRes K C))) (refInd : List (List Nat))
    (prev : Option (List (String × PoserRes K C))) (e : String)
    (h : mergeResults sqrt re names setups refInd = .error e) :
    (mergeResultsSt sqrt re names setups refInd prev).2 = .error e := by
  rw [mergeResults_eq] at h
  unfold mergeResultsSt
  cases hg : algGroups names [] setups with
  | error e1 => simp only [hg] at h; cases h; rfl
  | ok groups =>
    simp only [hg] at h
    have := mergeLoopSt_error sqrt re refInd groups prev e h
    simp only
    generalize mergeLoopSt sqrt re refInd prev groups = p at this
    obtain ⟨st, oe⟩ := p
    simp only at this
    subst this
    rfl

/-- a call that goes through: new attribute and returned value -/
theorem mergeResultsSt_ok (sqrt : K → K) (re : C → C) (names : List String)
    (setups : List (List (AlgRes K C))) (refInd : List (List Nat))
    (prev : Option (List (String × PoserRes K C))) (fresh : List (String × PoserRes K C))
    (h : mergeResults sqrt re names setups refInd = .ok fresh) :
    mergeResultsSt sqrt re names setups refInd prev
      = (applyAll prev fresh, .ok (applyAll prev fresh)) := by
  rw [mergeResults_eq] at h
  unfold mergeResultsSt
  cases hg : algGroups names [] setups with
  | error e1 => simp [hg] at h
  | ok groups =>
    simp only [hg] at h
    simp only [mergeLoopSt_ok sqrt re refInd groups prev fresh h]

/-- the keys of what `mergeResults` returns are pairwise distinct (no hypothesis on the names:
    it is a dictionary) -/
theorem mergeResults_keys_nodup (sqrt : K → K) (re : C → C) (names : List String)
    (setups : List (List (AlgRes K C))) (refInd : List (List Nat))
    (fresh : List (String × PoserRes K C))
    (h : mergeResults sqrt re names setups refInd = .ok fresh) : (fresh.map Prod.fst).Nodup := by
  rw [mergeResults_eq] at h
  cases hg : algGroups names [] setups with
  | error e1 => simp [hg] at h
  | ok groups =>
    simp only [hg] at h
    rw [mapE_groupStep_keys sqrt re refInd groups fresh h]
    exact algGroups_keys_nodup names setups [] groups (by simp) hg

/-- **C02_results_fresh** — `merge_results()` on an object that may have been merged before
    (`prev`: any earlier content of `__result`).  If the stateless `mergeResults` of what the object
    holds NOW returns `fresh` (non-empty: there is at least one algorithm), the call returns a
    dictionary `d`, the attribute and the `result` property are that same `d`, and
    * every current name carries exactly its freshly merged result (nothing cached from `prev`),
    * a name that is not merged now keeps what `prev` had for it (in particular: absent stays
      absent when `prev` is `None`).
    No hypothesis beyond the call going through. -/
theorem C02_results_fresh (sqrt : K → K) (re : C → C) (names : List String)
    (setups : List (List (AlgRes K C))) (refInd : List (List Nat))
    (prev : Option (List (String × PoserRes K C))) (fresh : List (String × PoserRes K C))
    (h : mergeResults sqrt re names setups refInd = .ok fresh) (hne : fresh ≠ []) :
    ∃ d, mergeResultsSt sqrt re names setups refInd prev = (some d, .ok (some d)) ∧
      resultGetter (mergeResultsSt sqrt re names setups refInd prev).1 = .ok d ∧
      (∀ n r, (n, r) ∈ fresh → d.lookup n = some r) ∧
      (∀ n, n ∉ fresh.map Prod.fst → d.lookup n = (prev.getD []).lookup n) := by
  rw [mergeResultsSt_ok sqrt re names setups refInd prev fresh h]
  have hs := applyAll_isSome prev fresh (Or.inl hne)
  obtain ⟨d, hd⟩ := Option.isSome_iff_exists.mp hs
  refine ⟨d, by rw [hd], by simp [hd, resultGetter], ?_, ?_⟩
  · intro n r hm
    have := applyAll_lookup_mem prev fresh (mergeResults_keys_nodup sqrt re names setups refInd fresh h) n r hm
    simpa [hd] using this
  · intro n hn
    have := applyAll_lookup_other prev fresh n hn
    simpa [hd] using this

/-- **C02_results_first** — the first call on an object (`__result = None`, as the constructor
    leaves it) returns the stateless dictionary itself: `mergeResults` IS the first call. -/
theorem C02_results_first (sqrt : K → K) (re : C → C) (names : List String)
    (setups : List (List (AlgRes K C))) (refInd : List (List Nat))
    (fresh : List (String × PoserRes K C))
    (h : mergeResults sqrt re names setups refInd = .ok fresh) (hne : fresh ≠ []) :
    mergeResultsSt sqrt re names setups refInd none = (some fresh, .ok (some fresh)) := by
  rw [mergeResultsSt_ok sqrt re names setups refInd none fresh h]
  have hnd := mergeResults_keys_nodup sqrt re names setups refInd fresh h
  obtain ⟨g, rest, rfl⟩ := List.exists_cons_of_ne_nil hne
  have : applyAll none (g :: rest) = some (g :: rest) := by
    rw [applyAll_cons]
    simp only [Option.getD_none, dictSet]
    rw [applyAll_some_nodup [(g.1, g.2)] rest (by simpa using hnd)]
    rfl
  rw [this]

/-- the `result` property before any merge: `ValueError`; a call that raises in the grouping
    (`self.names` shorter than the algorithms) leaves it so -/
theorem resultGetter_none {β : Type} : resultGetter (none : Option β) = .error "ValueError" := rfl

/-- a repeated call on unchanged contents changes nothing: the second call returns what the
    first returned -/
theorem C02_results_idempotent (sqrt : K → K) (re : C → C) (names : List String)
    (setups : List (List (AlgRes K C))) (refInd : List (List Nat))
    (fresh : List (String × PoserRes K C))
    (h : mergeResults sqrt re names setups refInd = .ok fresh) (hne : fresh ≠ []) :
    mergeResultsSt sqrt re names setups refInd
        (mergeResultsSt sqrt re names setups refInd none).1 = (some fresh, .ok (some fresh)) := by
  rw [C02_results_first sqrt re names setups refInd fresh h hne]
  obtain ⟨d, hd, _, hmem, _⟩ := C02_results_fresh sqrt re names setups refInd (some fresh) fresh h hne
  rw [mergeResultsSt_ok sqrt re names setups refInd (some fresh) fresh h] at hd ⊢
  -- every assignment re-writes an existing key with the value it already has
  have hnd := mergeResults_keys_nodup sqrt re names setups refInd fresh h
  have key : ∀ (l d : List (String × PoserRes K C)), (∀ p ∈ l, d.lookup p.1 = some p.2) →
      (d.map Prod.fst).Nodup → applyAll (some d) l = some d := by
    intro l
    induction l with
    | nil => intro d _ _; rfl
    | cons p ps ih =>
      intro d hl hdn
      rw [applyAll_cons]
      simp only [Option.getD_some]
      have hp := hl p (by simp)
      have hset : dictSet d p.1 p.2 = d := dictSet_same d p.1 p.2 hp
      rw [hset]
      exact ih d (fun q hq => hl q (by simp [hq])) hdn
  have hl : ∀ p ∈ fresh, fresh.lookup p.1 = some p.2 := by
    intro p hp
    have := applyAll_lookup_mem (none : Option (List (String × PoserRes K C))) fresh hnd p.1 p.2 hp
    have h1 := C02_results_first sqrt re names setups refInd fresh h hne
    rw [mergeResultsSt_ok sqrt re names setups refInd none fresh h] at h1
    have h2 : applyAll none fresh = some fresh := congrArg Prod.fst h1
    simpa [h2] using this
  rw [key fresh fresh hl hnd]

end

/-! ## `gen.MSF` on vectors and matrices -/

section
variable {C : Type} [Zero C] [Add C] [Mul C] [Div C] [Inhabited C]

omit [Zero C] [Add C] [Mul C] [Div C] in
theorem column_singletons (x : List C) : column (x.map ([·])) 0 = x := by
  unfold column
  rw [List.map_map]
  conv_rhs => rw [← List.map_id x]
  apply List.map_congr_left
  intro a _
  simp

/-- **`gen.MSF` as `merge_mode_shapes` calls it** (two 1-D arguments of one length): the
    one-element array holding the scalar `msf` of `mergedCol` -/
theorem msfArr_vec (re : C → C) (x y : List C) (h : x.length = y.length) :
    msfArr re (.vec x) (.vec y) = .ok [msf re x y] := by
  simp [msfArr, NdArr.as2d, h, column_singletons]

/-- on two `(n, m)` matrices: one factor per mode, from the columns of THAT mode -/
theorem msfArr_mat (re : C → C) (m : Nat) (p1 p2 : List (List C)) (h : p1.length = p2.length) :
    msfArr re (.mat m p1) (.mat m p2)
      = .ok ((List.range m).map fun i => msf re (column p1 i) (column p2 i)) := by
  simp [msfArr, NdArr.as2d, h]

/-- the `Exception`: exactly when the shapes (after `[:, None]`) differ -/
theorem msfArr_error_iff (re : C → C) (a b : NdArr C) :
    msfArr re a b = .error "Exception" ↔ a.as2d.1 ≠ b.as2d.1 ∨ a.as2d.2.1 ≠ b.as2d.2.1 := by
  unfold msfArr
  rcases a.as2d with ⟨n1, m1, p1⟩
  rcases b.as2d with ⟨n2, m2, p2⟩
  simp only
  split
  · rename_i h; simpa using h
  · rename_i h; simpa using h

end

/-- **C02_msf_matrix** — re-scaled modes: if every column `i` of `phi_2` is the column `i` of
    `phi_1` times a factor `s i` that `np.real` leaves alone, with a non-vanishing unconjugated
    square sum, `MSF(phi_1, phi_2)` returns `[s 0, …, s (m-1)]`. -/
theorem C02_msf_matrix {C : Type} [Field C] [Inhabited C] (re : C → C) (m : Nat)
    (p1 p2 : List (List C)) (s : Nat → C) (hlen : p1.length = p2.length)
    (hcol : ∀ i, i < m → column p2 i = (column p1 i).map (s i * ·))
    (hg : ∀ i, i < m → dot (column p1 i) (column p1 i) ≠ 0)
    (hre : ∀ i, i < m → re (s i) = s i) :
    msfArr re (.mat m p1) (.mat m p2) = .ok ((List.range m).map s) := by
  rw [msfArr_mat re m p1 p2 hlen]
  congr 1
  apply List.map_congr_left
  intro i hi
  have hi' : i < m := List.mem_range.mp hi
  have := msf_scaled re (column p1 i) 1 (s i) one_ne_zero (hg i hi') (by simpa using hre i hi')
  simpa [hcol i hi'] using this

example : msfArr (C := Rat) id (.mat 2 [[1, 1], [2, 3]]) (.mat 2 [[2, 5], [4, 15]]) = .ok [2, 5] := by
  decide +kernel

/-! ## integer reference positions -/

theorem normPos_ofNat (n i : Nat) : normPos n (i : Int) = i := by
  unfold normPos normIdx
  by_cases h : (i : Int) < n
  · simp [h]
  · simp [h]

theorem normRefs_ofNat : ∀ (ns : List Nat) (refs : List (List Nat)),
    normRefs ns (refs.map (·.map Int.ofNat)) = refs
  | _, [] => by simp [normRefs]
  | [], r :: rs => by
    simp only [List.map_cons, normRefs, normRefs_ofNat [] rs, List.map_map]
    congr 1
    conv_rhs => rw [← List.map_id r]
    apply List.map_congr_left
    intro a _; simp
  | n :: ns, r :: rs => by
    simp only [List.map_cons, normRefs, normRefs_ofNat ns rs, List.map_map]
    congr 1
    conv_rhs => rw [← List.map_id r]
    apply List.map_congr_left
    intro a _
    simpa using normPos_ofNat n a

/-- **on non-negative positions the integer model is the model of `C02_merge_all`** -/
theorem mergeModeShapesI_ofNat {C : Type} [Zero C] [Add C] [Mul C] [Div C] [Inhabited C]
    (re : C → C) (phis : List (List (List C))) (refs : List (List Nat)) :
    mergeModeShapesI re phis (refs.map (·.map Int.ofNat)) = mergeModeShapes re phis refs := by
  unfold mergeModeShapesI
  rw [normRefs_ofNat]

/-- a position written from the end is read as the position counted from the front -/
theorem mergeModeShapesI_negative {C : Type} [Zero C] [Add C] [Mul C] [Div C] [Inhabited C]
    (re : C → C) (phis : List (List (List C))) (refs : List (List Int)) :
    mergeModeShapesI re phis refs
      = mergeModeShapes re phis (normRefs (phis.map List.length) refs) := rfl

theorem normPos_neg (n : Nat) (k : Nat) (hk : k < n) : normPos n (-(k : Int) - 1) = n - 1 - k := by
  unfold normPos normIdx
  have h1 : ¬ (0 : Int) ≤ -(k : Int) - 1 := by omega
  have h2 : -(n : Int) ≤ -(k : Int) - 1 := by omega
  simp only [h1, if_false, h2, if_true]
  omega

theorem contains_ofNat (ref : List Nat) (j : Nat) :
    (ref.map Int.ofNat).contains (j : Int) = ref.contains j := by
  induction ref with
  | nil => rfl
  | cons a as ih =>
    simp only [List.map_cons, List.contains_cons, ih]
    congr 1
    simp [Int.ofNat_eq_natCast]

theorem rovingNamesI_ofNat : ∀ (names : List (List String)) (refs : List (List Nat)),
    names.length ≤ refs.length →
    rovingNamesI names (refs.map (·.map Int.ofNat)) = .ok (rovingConcat names refs)
  | [], _, _ => by simp [rovingNamesI, rovingConcat]
  | ns :: rest, [], h => by simp at h
  | ns :: rest, ref :: rs, h => by
    have ih := rovingNamesI_ofNat rest rs (by simpa using h)
    have hd : delete ns ref
        = (ns.zipIdx.filter (fun xi => !(ref.map Int.ofNat).contains (xi.2 : Int))).map (·.1) := by
      unfold delete
      simp only [contains_ofNat]
    cases ns with
    | nil =>
      simp only [rovingNamesI, List.map_cons, List.drop_succ_cons, List.drop_zero, ih]
      simp [rovingConcat, delete]
    | cons a as =>
      simp only [rovingNamesI, List.map_cons, List.drop_succ_cons, List.drop_zero, ih]
      simp only [rovingConcat, List.zipWith_cons_cons, List.flatten_cons, hd]

/-- **on non-negative positions (one list per setup) the integer name flattening is the
    `flattenNames` of `C02_order`** -/
theorem flattenNamesI_ofNat (names : List (List String)) (refs : List (List Nat))
    (hne : refs ≠ []) (hlen : names.length ≤ refs.length) :
    flattenNamesI names (refs.map (·.map Int.ofNat)) = .ok (flattenNames names refs) := by
  obtain ⟨r0, rs, rfl⟩ := List.exists_cons_of_ne_nil hne
  have := rovingNamesI_ofNat names (r0 :: rs) hlen
  simp only [List.map_cons] at this
  simp only [flattenNamesI, List.map_cons, this, flattenNames, List.headD_cons, List.length_map]

/-- **C02_order_negative_fails** — the clause "the same order in which the names are flattened"
    needs the positions written from the front.  Two setups of two channels, the reference being
    the LAST channel written as `-1`: `merge_mode_shapes` (numpy indexing) merges 3 rows —
    reference, roving of setup 1, re-scaled roving of setup 2 — while `flatten_sns_names`
    (`j not in [-1]`) keeps all four names after `REF1`: 5 labels for 3 rows.  Written as
    `[[1], [1]]` the two agree (`C02_order`). -/
theorem C02_order_negative_fails :
    mergeModeShapesI (C := Rat) id [[[1], [2]], [[3], [4]]] [[-1], [-1]] = .ok [[2], [1], [3 / 2]] ∧
    flattenNamesI [["a", "b"], ["c", "d"]] [[-1], [-1]] = .ok ["REF1", "a", "b", "c", "d"] ∧
    mergeModeShapesI (C := Rat) id [[[1], [2]], [[3], [4]]] [[1], [1]] = .ok [[2], [1], [3 / 2]] ∧
    flattenNamesI [["a", "b"], ["c", "d"]] [[1], [1]] = .ok ["REF1", "a", "c"] := by
  decide +kernel

/-! ## non-vacuity -/

namespace ExState
def a1 : AlgRes Rat Rat := ⟨[1], [1], [[1], [2]]⟩
def a2 : AlgRes Rat Rat := ⟨[3], [1], [[2], [6]]⟩
def a3 : AlgRes Rat Rat := ⟨[5], [1], [[1], [4]]⟩

/-- hypotheses of `C02_results_fresh` / `_first` / `_idempotent` hold jointly on a concrete object;
    a second call after a new extraction (`a3` instead of `a2`) with `prev` = the first result
    returns the NEW merge -/
example : ∃ f1 f2,
    mergeResults (K := Rat) (C := Rat) id id ["x"] [[a1], [a2]] [[0], [0]] = .ok f1 ∧ f1 ≠ [] ∧
    mergeResults (K := Rat) (C := Rat) id id ["x"] [[a1], [a3]] [[0], [0]] = .ok f2 ∧ f2 ≠ [] ∧
    f1 ≠ f2 ∧
    (mergeResultsSt (K := Rat) (C := Rat) id id ["x"] [[a1], [a3]] [[0], [0]] (some f1)).2 = .ok (some f2) := by
  refine ⟨_, _, rfl, by decide +kernel, rfl, by decide +kernel, by decide +kernel, by decide +kernel⟩

/-- names re-assigned between two calls: the entry of the earlier name stays -/
example :
    ((mergeResultsSt (K := Rat) (C := Rat) id id ["y"] [[a1], [a3]] [[0], [0]]
        (mergeResultsSt (K := Rat) (C := Rat) id id ["x"] [[a1], [a2]] [[0], [0]] none).1).1.getD []).map Prod.fst
      = ["x", "y"] := by
  decide +kernel

/-- hypotheses of `C02_msf_matrix` -/
example : (∀ i, i < 2 → column ([[2, 5], [4, 15]] : List (List Rat)) i
      = (column ([[1, 1], [2, 3]] : List (List Rat)) i).map ((fun i => if i = 0 then (2 : Rat) else 5) i * ·)) ∧
    (∀ i, i < 2 → dot (column ([[1, 1], [2, 3]] : List (List Rat)) i) (column ([[1, 1], [2, 3]] : List (List Rat)) i) ≠ 0) := by
  constructor
  · intro i hi
    have : i = 0 ∨ i = 1 := by omega
    rcases this with rfl | rfl <;> decide +kernel
  · intro i hi
    have : i = 0 ∨ i = 1 := by omega
    rcases this with rfl | rfl <;> decide +kernel

end ExState

end PV.C02
