import PyomaVerif.Model.Multi
import PyomaVerif.Lemmas.Realise
import PyomaVerif.Lemmas.Merge
import PyomaVerif.Lemmas.Multi
import PyomaVerif.Props.C01
import Mathlib.Data.List.Perm.Basic
import Mathlib.Data.List.Sort
/-!
# C03 — PreGER multi-setup SSI: split, re-basing, interleaving
-/
namespace PV.C03
open PV PV.Multi PV.Merge Matrix

/-! ### the reference/roving split -/

theorem removeAll_spec : ∀ (refId mov : List Nat), refId.Nodup → (∀ r ∈ refId, r ∈ mov) →
    removeAll mov refId = some (mov.filter (fun c => !refId.contains c)) ∨ ¬ mov.Nodup := by
  intro refId
  induction refId with
  | nil => intro mov _ _; left; simp [removeAll]
  | cons r rs ih =>
    intro mov hnd hin
    by_cases hm : mov.Nodup
    · left
      have hr : r ∈ mov := hin r (by simp)
      simp only [removeAll, hr, if_true]
      have hnd' : rs.Nodup := (List.nodup_cons.mp hnd).2
      have hrn : r ∉ rs := (List.nodup_cons.mp hnd).1
      have hin' : ∀ x ∈ rs, x ∈ mov.erase r := by
        intro x hx
        have hxr : x ≠ r := fun h => hrn (h ▸ hx)
        exact (List.mem_erase_of_ne hxr).mpr (hin x (by simp [hx]))
      rcases ih (mov.erase r) hnd' hin' with h | h
      · rw [h]
        congr 1
        rw [List.Nodup.erase_eq_filter hm, List.filter_filter]
        apply List.filter_congr
        intro x _
        simp only [List.contains_cons, Bool.not_or]
        cases h1 : rs.contains x <;> cases h2 : (x == r) <;> simp [h1, h2, bne]
      · exact absurd (List.Nodup.erase r hm) h
    · right; exact hm

/-- **C03_split.** For every channel count and every ordered reference subset (no repeats, all
    in range): the split succeeds, the reference block is the listed channels in the listed
    order, the roving block is the remaining channels in ascending order, and together they are
    a permutation of all channels (no channel lost or duplicated). -/
theorem C03_split (n : Nat) (refId : List Nat) (hnd : refId.Nodup) (hin : ∀ r ∈ refId, r < n) :
    ∃ mov, preSplit n refId = some (refId, mov) ∧
      mov = (List.range n).filter (fun c => !refId.contains c) ∧
      mov.Pairwise (· < ·) ∧
      (refId ++ mov).Perm (List.range n) := by
  have hall : refId.all (· < n) = true := by simpa using hin
  have hmem : ∀ r ∈ refId, r ∈ List.range n := fun r hr => List.mem_range.mpr (hin r hr)
  rcases removeAll_spec refId (List.range n) hnd hmem with h | h
  · refine ⟨_, by simp [preSplit, hall, h], rfl, ?_, ?_⟩
    · exact List.Pairwise.filter _ (List.pairwise_lt_range)
    · -- refId ++ complement is a permutation of range n
      have hsub : refId.Perm ((List.range n).filter (fun c => refId.contains c)) := by
        apply List.perm_of_nodup_nodup_toFinset_eq hnd (List.Nodup.filter _ (List.nodup_range))
        ext x
        simp only [List.mem_toFinset, List.mem_filter, List.mem_range, List.contains_iff_mem]
        constructor
        · intro hx; exact ⟨hin x hx, hx⟩
        · intro hx; exact hx.2
      refine (List.Perm.append_right _ hsub).trans ?_
      have := List.filter_append_perm (fun c => refId.contains c) (List.range n)
      simpa using this
  · exact absurd (List.nodup_range) h

/-- duplicates or out-of-range indices are rejected (where Python raises) -/
theorem C03_split_reject (n : Nat) (refId : List Nat) (h : ∃ r ∈ refId, ¬ r < n) :
    preSplit n refId = none := by
  obtain ⟨r, hr, hn⟩ := h
  have : refId.all (· < n) = false := by
    simp only [List.all_eq_false]; exact ⟨r, hr, by simpa using hn⟩
  simp [preSplit, this]

/-! ### row selection inside one setup's observability factor -/

/-- reference row `(block b, reference j)` of the row selection is row `b·(nref+nmov) + j` of the
    setup's observability factor, roving row `(block b, roving j)` is row `b·(nref+nmov) + nref + j`:
    the same sensor offset in every block row. -/
theorem C03_rows (br nref nmov b j : Nat) (hb : b < br) :
    (j < nref → (refRows br nref nmov)[b * nref + j]? = some (b * (nref + nmov) + j)) ∧
    (j < nmov → (movRows br nref nmov)[b * nmov + j]? = some (b * (nref + nmov) + (nref + j))) :=
  ⟨fun hj => flatMap_range_get br nref (fun b j => b * (nref + nmov) + j) b j hb hj,
   fun hj => flatMap_range_get br nmov (fun b j => b * (nref + nmov) + (nref + j)) b j hb hj⟩

/-! ### re-basing onto the first setup's reference basis -/
variable {K : Type} [Field K]

/-- **C03_rebase.** If setup `i`'s factor is the true observability matrix of
    `(A, [C_ref; C_mov,i])` times an invertible `Mi` (which absorbs the setup's gain `g_i` and its
    own state basis `T_i`), and the first setup's reference part is `Oref·M1`, then for ANY left
    inverse `P` of setup `i`'s reference part the re-based roving part is `Omov_i·M1`:
    the first setup's basis and gain, independent of `Mi`. -/
theorem C03_rebase {a b n : ℕ} (Oref : Matrix (Fin a) (Fin n) K) (Omov : Matrix (Fin b) (Fin n) K)
    (Mi M1 : Matrix (Fin n) (Fin n) K) (Miinv : Matrix (Fin n) (Fin n) K) (hMi : Mi * Miinv = 1)
    (P : Matrix (Fin n) (Fin a) K) (hP : P * (Oref * Mi) = 1) :
    (Omov * Mi) * P * (Oref * M1) = Omov * M1 := by
  -- P·Oref is a left inverse of Mi on the right: (P·Oref)·Mi = 1 ⇒ Mi·(P·Oref) = 1
  have h1 : (P * Oref) * Mi = 1 := by rw [Matrix.mul_assoc]; exact hP
  have h2 : Mi * (P * Oref) = 1 := mul_eq_one_comm.mp h1
  calc (Omov * Mi) * P * (Oref * M1) = Omov * (Mi * (P * Oref)) * M1 := by
        simp only [Matrix.mul_assoc]
    _ = Omov * M1 := by rw [h2, Matrix.mul_one]

/-- the model's `rebase` is that product -/
theorem rebase_toMx (b a n : ℕ) (Omov Pinv O1ref : Mat K) (h1 : Omov.c = n) (h2 : Pinv.c = a) :
    toMx b n (rebase Omov Pinv O1ref).e = toMx b n Omov.e * toMx n a Pinv.e * toMx a n O1ref.e := by
  simp only [rebase, Mat.mul, h1, h2]
  rw [toMx_mul b a n, toMx_mul b n a]

/-! ### interleaving -/

/-- **C03_interleave.** Block row `ii` of the global observability matrix consists of the
    reference rows of block `ii` (from the first setup's reference part) followed by each
    setup's re-based roving rows of block `ii`, in setup order — the same sensor order
    (references, then roving sensors by setup) in every block row. -/
theorem C03_interleave (br nref : Nat) (nmov : List Nat) :
    allRows br nref nmov = (List.range br).flatMap (fun ii =>
      ((List.range nref).map fun k => RowSrc.ref (ii * nref + k)) ++ movBlocks ii 0 nmov) ∧
    (allRows br nref nmov).length = br * (nref + nmov.sum) := by
  refine ⟨rfl, ?_⟩
  have hmb : ∀ (ii jj : Nat) (l : List Nat), (movBlocks ii jj l).length = l.sum := by
    intro ii jj l
    induction l generalizing jj with
    | nil => simp [movBlocks]
    | cons x xs ih => simp [movBlocks, ih]
  unfold allRows
  induction br with
  | zero => simp
  | succ k ih =>
    rw [List.range_succ, List.flatMap_append, List.length_append, ih]
    simp [hmb, Nat.succ_mul]

/-- roving rows of setup `jj` inside block row `ii`: at offset `nref + Σ_{j<jj} nmov_j`, taken
    from rows `ii·nmov_jj + k` of that setup's re-based roving part -/
theorem movBlocks_get (ii : Nat) : ∀ (nmov : List Nat) (j0 jj k : Nat) (nm : Nat),
    nmov[jj]? = some nm → k < nm →
    (movBlocks ii j0 nmov)[(nmov.take jj).sum + k]? = some (RowSrc.mov (j0 + jj) (ii * nm + k)) := by
  intro nmov
  induction nmov with
  | nil => intro j0 jj k nm h; simp at h
  | cons x xs ih =>
    intro j0 jj k nm h hk
    cases jj with
    | zero =>
      simp only [List.getElem?_cons_zero, Option.some.injEq] at h
      subst h
      simp only [movBlocks, List.take_zero, List.sum_nil, Nat.zero_add, Nat.add_zero]
      rw [List.getElem?_append_left (by simpa using hk)]
      simp [hk]
    | succ jj =>
      simp only [List.getElem?_cons_succ] at h
      simp only [movBlocks, List.take_succ_cons, List.sum_cons]
      rw [List.getElem?_append_right (by simp; omega)]
      have := ih (j0 + 1) jj k nm h hk
      simp only [List.length_map, List.length_range]
      have e : x + (List.take jj xs).sum + k - x = (List.take jj xs).sum + k := by omega
      rw [e, this]
      congr 2; omega


/-! ### the assembled global observability matrix -/

/-- the row of the global matrix a `RowSrc` stands for -/
def srcRow {n : ℕ} (O1ref : ℕ → Fin n → K) (Omovs : ℕ → ℕ → Fin n → K) : RowSrc → Fin n → K
  | .ref q => O1ref q
  | .mov jj q => Omovs jj q

theorem blockRow_ref (nref : ℕ) (nmov : List ℕ) (ii s : ℕ) (hs : s < nref) :
    (blockRow nref nmov ii)[s]? = some (RowSrc.ref (ii * nref + s)) := by
  unfold blockRow
  rw [List.getElem?_append_left (by simpa using hs)]
  simp [hs]

theorem blockRow_mov (nref : ℕ) (nmov : List ℕ) (ii jj nm k : ℕ) (h : nmov[jj]? = some nm) (hk : k < nm) :
    (blockRow nref nmov ii)[nref + ((nmov.take jj).sum + k)]? = some (RowSrc.mov jj (ii * nm + k)) := by
  unfold blockRow
  rw [List.getElem?_append_right (by simp)]
  simp only [List.length_map, List.length_range, Nat.add_sub_cancel_left]
  have := movBlocks_get ii nmov 0 jj k nm h hk
  simpa using this

/-- **C03_assembled.** Suppose the first setup's reference part is the true reference
    observability matrix times `M1` and every re-based roving part is the true roving
    observability matrix of its setup times the SAME `M1` (this is what `C03_rebase` delivers).
    Then the interleaved matrix `Obs_all` is, row by row, the block observability matrix of the
    GLOBAL output matrix `Cglob` — reference sensors first, then each setup's roving sensors in
    setup order, the same order in every block row — times `M1`:
    `Obs_all[ii·nDOF + s] = (Cglob s · A^ii) · M1`. -/
theorem C03_assembled {n : ℕ} (A M1 : Matrix (Fin n) (Fin n) K) (br nref : ℕ) (nmov : List ℕ)
    (Cref : ℕ → Fin n → K) (Cmov : ℕ → ℕ → Fin n → K) (Cglob : ℕ → Fin n → K)
    (O1ref : ℕ → Fin n → K) (Omovs : ℕ → ℕ → Fin n → K)
    (h1 : ∀ q j, O1ref q j = ∑ k, obsFn nref A Cref q k * M1 k j)
    (h2 : ∀ jj nm, nmov[jj]? = some nm → ∀ q j, Omovs jj q j = ∑ k, obsFn nm A (Cmov jj) q k * M1 k j)
    (hC1 : ∀ s, s < nref → Cglob s = Cref s)
    (hC2 : ∀ jj nm k, nmov[jj]? = some nm → k < nm → Cglob (nref + ((nmov.take jj).sum + k)) = Cmov jj k)
    (ii : ℕ) (hii : ii < br) :
    -- reference sensors
    (∀ s, s < nref →
      ((allRows br nref nmov)[ii * (nref + nmov.sum) + s]?.map (srcRow O1ref Omovs)) =
        some (fun j => ∑ k, obsFn (nref + nmov.sum) A Cglob (ii * (nref + nmov.sum) + s) k * M1 k j)) ∧
    -- roving sensors of setup jj
    (∀ jj nm k, nmov[jj]? = some nm → k < nm →
      ((allRows br nref nmov)[ii * (nref + nmov.sum) + (nref + ((nmov.take jj).sum + k))]?.map
          (srcRow O1ref Omovs)) =
        some (fun j => ∑ k', obsFn (nref + nmov.sum) A Cglob
          (ii * (nref + nmov.sum) + (nref + ((nmov.take jj).sum + k))) k' * M1 k' j)) := by
  have hlen := blockRow_length nref nmov
  have hget : ∀ s, s < nref + nmov.sum →
      (allRows br nref nmov)[ii * (nref + nmov.sum) + s]? = (blockRow nref nmov ii)[s]? := by
    intro s hs
    rw [allRows_eq]
    exact flatMap_blocks_get br (nref + nmov.sum) (blockRow nref nmov) hlen ii s hii hs
  have hrefcase : ∀ s, s < nref →
      ((allRows br nref nmov)[ii * (nref + nmov.sum) + s]?.map (srcRow O1ref Omovs)) =
        some (fun j => ∑ k, obsFn (nref + nmov.sum) A Cglob (ii * (nref + nmov.sum) + s) k * M1 k j) := by
    intro s hs
    have hs' : s < nref + nmov.sum := by omega
    rw [hget s hs', blockRow_ref nref nmov ii s hs]
    simp only [Option.map_some, srcRow]
    congr 1
    funext j
    rw [h1]
    apply Finset.sum_congr rfl
    intro k _
    congr 1
    unfold obsFn
    rw [blk_mod ii hs, blk_div ii hs, blk_mod ii hs', blk_div ii hs', hC1 s hs]
  refine ⟨hrefcase, ?_⟩
  intro jj nm k hjj hk
  -- the offset is inside the block row
  have hoff : (nmov.take jj).sum + k < nmov.sum := by
    have hsplit : nmov.sum = (nmov.take jj).sum + (nmov.drop jj).sum := by
      rw [← List.sum_append, List.take_append_drop]
    have hdrop : nm ≤ (nmov.drop jj).sum := by
      have hjlt : jj < nmov.length := by
        by_contra hcon
        have : nmov[jj]? = none := List.getElem?_eq_none (by omega)
        rw [this] at hjj; cases hjj
      rw [List.drop_eq_getElem_cons hjlt, List.sum_cons]
      have : nmov[jj] = nm := by
        rw [List.getElem?_eq_getElem hjlt] at hjj; exact Option.some.inj hjj
      omega
    omega
  have hs' : nref + ((nmov.take jj).sum + k) < nref + nmov.sum := by omega
  rw [hget _ hs', blockRow_mov nref nmov ii jj nm k hjj hk]
  simp only [Option.map_some, srcRow]
  congr 1
  funext j
  rw [h2 jj nm hjj]
  apply Finset.sum_congr rfl
  intro k' _
  congr 1
  unfold obsFn
  rw [blk_mod ii hk, blk_div ii hk, blk_mod ii hs', blk_div ii hs', hC2 jj nm k hjj hk]

end PV.C03

namespace PV.C03
open PV PV.Multi Matrix

variable {K : Type} [Field K]

/-- **C03_identify.** Put together: if the interleaved matrix `Obs_all` (entry function `obsAll`, `br`
    block rows of `nDOF` sensors, order `n`) is row by row the global block observability matrix times an
    invertible `M1` — which is what `C03_assembled` establishes from the re-basing — then the state matrix
    the multi-setup routine realises at order `n` (one QR of the order-`N` matrix, leading blocks,
    `R⁻¹`: the same `fastA` as the single-setup routine) is `M1⁻¹·A·M1`, whatever the per-setup gains
    and bases were, and its output matrix is `C_global·M1`: global poles, global shapes over all sensors
    (`eig_transfer`). -/
theorem C03_identify {M N n : ℕ} (hn : n ≤ N) (Op Om Q R Rinv : Mat K)
    (hRc : Rinv.c = n) (hQr : Q.r = M)
    (hQR : toMx M N Op.e = toMx M N Q.e * toMx N N R.e)
    (hOrth : (toMx M N Q.e)ᵀ * toMx M N Q.e = 1)
    (hTri : ∀ i j, j < i → R.e i j = 0)
    (hRinv : toMx n n Rinv.e * toMx n n R.e = 1)
    (A M1 M1inv : Matrix (Fin n) (Fin n) K) (hM : M1 * M1inv = 1)
    (nDOF : ℕ) (Cglob : ℕ → Fin n → K)
    -- rows of the upper / lower part of Obs_all are the global observability rows times M1
    (hUp : ∀ (i : Fin M) (j : Fin n), Op.e i.1 j.1 = ∑ k, obsFn nDOF A Cglob i.1 k * M1 k j)
    (hDn : ∀ (i : Fin M) (j : Fin n), Om.e i.1 j.1 = ∑ k, obsFn nDOF A Cglob (i.1 + nDOF) k * M1 k j)
    (hDOF : 0 < nDOF) :
    toMx n n (fastA Rinv Q Om n).e = M1inv * A * M1 := by
  let Oup : Matrix (Fin M) (Fin n) K := Matrix.of fun i k => obsFn nDOF A Cglob i.1 k
  have h1 : toMx M n Op.e = Oup * M1 := by
    ext i j
    simp only [toMx, Matrix.mul_apply, Oup, Matrix.of_apply]
    exact hUp i j
  have h2 : toMx M n Om.e = Oup * A * M1 := by
    ext i j
    simp only [toMx, Matrix.mul_apply, Oup, Matrix.of_apply]
    rw [hDn i j]
    apply Finset.sum_congr rfl
    intro k _
    rw [obs_shift nDOF hDOF A Cglob i.1 k]
  exact PV.C01.C01_realisation_fast hn Op Om Q R Rinv hRc hQr hQR hOrth hTri hRinv Oup A M1 M1inv hM h1 h2

end PV.C03
