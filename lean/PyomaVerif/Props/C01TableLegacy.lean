import PyomaVerif.Props.C01Table
/-!
# C01 on the tables of `SSI_poles`, legacy routine `ssi.SSI`; `step ≠ 1` as coded

`Props/C01Table.lean` concludes the end-to-end statements on the tables for the lists of `SSI_fast`
(`fastLists`).  Here the lists are those of the LEGACY routine: `legacySSI` (`Model/Poles.lean`) is
`ssi.SSI(H, br, ordmax, step)` after its `np.linalg.svd` — `Nch = int(H.shape[0]/(br+1))`, the loop
`for ii in trange(0, ordmax + 1, step)`, per pass the truncated factor `U1[:, :ii]·S1rad[:ii, :ii]` with the
slices' clipping (`legacyObs`), the recorded `pinv`, `A`, `C`.  Driver op `ssi_legacy_lists`, stream
`ssi.SSI[lists,step]`.

* `legacySSI_get` — what the routine returns for `step = 1` inside the recorded factors.
* `C01_e2e_cov_table_legacy`, `C01_e2e_dat_table_legacy` — record ⟶ Hankel ⟶ `legacySSI` ⟶ `ssiPoles`: the
  call returns, and every mode of the system is in column `n` of the tables.
* `ssiEigArgs_legacy` — the matrix handed to `eig` for order `n` is the legacy `A` of order `n`.
* `step ≥ 2`: `C01_step_indexError_fast`, `C01_step_indexError_legacy` — on the lists either routine
  builds with the SAME `step`, `ssiPoles` ends in `IndexError` as soon as `ordmax > step` (the lists hold
  one entry per multiple of `step`, `SSI_poles` indexes them by order); kernel-checked witnesses;
  `C01_step_ok_only_boundary`: for `step ≥ 2` the call returns only if `ordmax = step` (or 0), and there
  (`C01_step_column_mislabel`, `ExStep.step_boundary`) column 1 holds the poles of the order-`step` matrix.
-/
namespace PV.C01TableLegacy
open PV PV.Mat PV.Cov PV.FreeVib PV.C11 PV.C01E2E PV.Poles PV.C01Table Matrix

/-- the recorded roots `np.sqrt(S1)` as the function the contracts (`SqrtOf`) speak about -/
abbrev sqFn (sq : List ℚ) : ℕ → ℚ := fun j => sq.getD j 0

/-! ## the lists of the legacy routine, `step = 1` -/

/-- **`legacySSI` with `step = 1`** on a factor with `(p+1)·l` rows (`br = p`, so `Nch = l`) and at least
    `N = ordmax` recorded columns / singular values: the call returns two lists of `N + 1` entries;
    position `n` holds `A = pinv_n·Obs_n[l:]`, `C = Obs_n[:l]` of the `n`-column factor `Obs_n`. -/
theorem legacySSI_get (Pinvs : ℕ → Mat ℚ) (U : Mat ℚ) (sq : List ℚ) (p l N : ℕ)
    (hUr : U.r = (p + 1) * l) (hU : N ≤ U.c) (hq : N ≤ sq.length) :
    ∃ As Cs, legacySSI Pinvs U sq p N 1 = .ok (As, Cs)
      ∧ As.length = N + 1 ∧ Cs.length = N + 1
      ∧ ∀ n, n ≤ N → As[n]? = some (legacyA (Pinvs n) (obsOf U (sqFn sq) n) l)
          ∧ Cs[n]? = some (outC (obsOf U (sqFn sq) n) l n) := by
  obtain ⟨As, Cs, hok, hAl, hCl, hget⟩ := legacyLists_spec Pinvs U sq l N 1 (by omega) hU hq
  have hl : U.r / (p + 1) = l := by rw [hUr]; exact Nat.mul_div_cancel_left l (Nat.succ_pos p)
  refine ⟨As, Cs, ?_, by rw [hAl, Nat.div_one], by rw [hCl, Nat.div_one], ?_⟩
  · unfold legacySSI
    rw [if_neg (by omega), hl]
    exact hok
  · intro n hn
    have := hget n (by omega)
    rwa [Nat.mul_one] at this

/-- `ssiPoles` on lists of `N + 1` entries whose `C`s are `outC … l …` (`step = 1`, no `calc_unc`)
    returns as soon as no recorded eigen-decomposition has more than `N` eigenvalues -/
theorem ssiPoles_lists_ok (As Cs : List (Mat ℚ)) (l N : ℕ) (recs : List EigRec) (twoPi : ℚ)
    (hAl : As.length = N + 1) (hCl : Cs.length = N + 1)
    (hCr : ∀ n, n ≤ N → ∃ C, Cs[n]? = some C ∧ C.r = l)
    (hwf : ∀ k, k < N → (recs.getD k EigRec.empty).absc.length ≤ N) :
    ∃ T, ssiPoles ⟨As, Cs, N, 1, recs, twoPi, none⟩ = .ok T := by
  refine ssiPoles_ok _ rfl (by show N < _; rw [hAl]; omega) (by show N < _; rw [hCl]; omega) ?_ hwf
  intro ii hii
  have hii' : ii < Cs.length := hii
  obtain ⟨C, hC, hr⟩ := hCr ii (by omega)
  obtain ⟨C0, hC0, hr0⟩ := hCr 0 (by omega)
  have e1 : Cs[ii] = C := by
    have := List.getElem?_eq_getElem hii'
    rw [hC] at this
    exact (Option.some.inj this).symm
  have e0 : Cs[0]'(by omega) = C0 := by
    have := List.getElem?_eq_getElem (show 0 < Cs.length by omega)
    rw [hC0] at this
    exact (Option.some.inj this).symm
  show (Cs[ii]).r = (Cs[0]'_).r
  rw [e1, e0, hr, hr0]

/-- **C01_e2e_cov_table_legacy — covariance-driven SSI (`cov_mm`), LEGACY routine, concluded on the tables
    of `SSI_poles`.**  Hypotheses of `C01_e2e_cov` for the legacy routine (record, rank conditions,
    contracts `SvdOf`, `SqrtOf`, `PinvC` with `Pinvs n` the pseudo-inverse recorded in pass `n`), the
    recorded factors reach `N = ordmax` (`U1` has at least `N` columns and `H.shape[0] = (p+1)·l` rows, at
    least `N` singular values — true of every `np.linalg.svd(H)` with `N ≤ min(H.shape)`), and for the pole
    step: `recs` the recorded eigen-decompositions of the successive `ac2mp` calls, the one for order `n`
    (`recs[n−1] = e`) satisfying `EigOf` for the matrix the model of `ssi.SSI` put at list position `n`, with
    `n` values of `λ_c`, `|λ_c|`, and no record longer than `N`.  NOT assumed: that `ssi.SSI` returns, which
    list entry goes to which column, the content of the column, that `SSI_poles` returns.
    Then `legacySSI` returns lists `As`, `Cs`, `ssiPoles` on them returns tables `T` (`N × (N+1)`), column
    `n` has nothing below row `n`, and every mode of the system is in it (`ModeInTable`). -/
theorem C01_e2e_cov_table_legacy {n : ℕ} (A : Matrix (Fin n) (Fin n) ℚ) (C : ℕ → Fin n → ℚ)
    (x0 : Fin n → ℚ) (Y Yref : Mat ℚ) (p : ℕ) (s : ℚ) (hl : 0 < Y.r) (hY : IsFreeResponse A C x0 Y)
    (Γr : Matrix (Fin ((p + 1) * Yref.r)) (Fin n) ℚ)
    (hΓ : gamMx A x0 Yref p s Y.c ((p + 1) * Yref.r) * Γr = 1)
    (Olp : Matrix (Fin n) (Fin (p * Y.r)) ℚ) (hObs : Olp * obsMx (p * Y.r) Y.r A C = 1)
    (U V : Mat ℚ) (S : ℕ → ℚ) (sq : List ℚ) (N : ℕ)
    (hUr : U.r = (p + 1) * Y.r) (hUc : N ≤ U.c) (hql : N ≤ sq.length)
    (hsvd : SvdOf (hankMM Y Yref p s) U V S N) (hsq : SqrtOf (sqFn sq) S N)
    (Pinvs : ℕ → Mat ℚ) (hpinv : PinvC (obsOf U (sqFn sq) n) (Pinvs n) (p * Y.r) n Y.r)
    (recs : List EigRec) (twoPi : ℚ) (e : EigRec) (hn1 : 1 ≤ n) (hrecs : recs[n - 1]? = some e)
    (heig : EigOf n (legacyA (Pinvs n) (obsOf U (sqFn sq) n) Y.r) e.V (lamsOf e))
    (hlc : e.lamc.length = n) (hla : e.absc.length = n)
    (hwf : ∀ k, k < N → (recs.getD k EigRec.empty).absc.length ≤ N)
    (dt : ℝ) (hdt : 0 < dt) (lam : Cpx ℚ) (w : Fin n → Cpx ℚ) (mu : ℂ) (hm : Mode A dt lam w mu) :
    ∃ As Cs T, legacySSI Pinvs U sq p N 1 = .ok (As, Cs)
      ∧ ssiPoles ⟨As, Cs, N, 1, recs, twoPi, none⟩ = .ok T
      ∧ (T.fn.r = N ∧ T.fn.c = N + 1)
      ∧ (∀ r, n ≤ r → T.fn.e r n = none ∧ T.xi.e r n = none ∧ T.lam.e r n = none
          ∧ ∀ t, T.phi.e r n t = none)
      ∧ ModeInTable C Y.r dt lam w mu e twoPi T := by
  obtain ⟨hn, _, _, Tm, Tinv, hT, _, _, hleg⟩ := realised_of_factor_rank A C Y.r p hl
    (hankMM Y Yref p s) U V S (sqFn sq) N
    (PV.C12.C12_shape_mm Y Yref p s).1 (gamMx A x0 Yref p s Y.c ((p + 1) * Yref.r)) Γr hΓ
    (hankMM_factor A C x0 Y Yref p s hY) Olp hObs hsvd hsq
  obtain ⟨hA1, hC1⟩ := hleg (Pinvs n) hpinv
  have hrec := recovered_of_similar A C Y.r dt hdt lam w mu hm _ (outC (obsOf U (sqFn sq) n) Y.r n)
    rfl rfl Tm Tinv hT hA1 hC1 e.V (lamsOf e) heig
  obtain ⟨As, Cs, hok, hAl, hCl, hget⟩ := legacySSI_get Pinvs U sq p Y.r N hUr hUc hql
  obtain ⟨T, hTok⟩ := ssiPoles_lists_ok As Cs Y.r N recs twoPi hAl hCl
    (fun k hk => ⟨_, (hget k hk).2, rfl⟩) hwf
  obtain ⟨h1, h2, h3⟩ := C01_table_of_recovered A C Y.r dt lam w mu _ _ e hrec
    ⟨As, Cs, N, 1, recs, twoPi, none⟩ rfl hn1 hn (hget n hn).2 hrecs hlc hla T hTok
  exact ⟨As, Cs, T, hok, hTok, h1, h2, h3⟩

/-- **C01_e2e_dat_table_legacy — data-driven SSI, LEGACY routine, concluded on the tables of `SSI_poles`**
    (as `C01_e2e_cov_table_legacy`, with the Hankel matrix `hankDatOfR Rf r p` of the recorded triangular
    factor and the contract `DatQr`). -/
theorem C01_e2e_dat_table_legacy {n : ℕ} (A : Matrix (Fin n) (Fin n) ℚ) (C : ℕ → Fin n → ℚ)
    (x0 : Fin n → ℚ) (Y Yref : Mat ℚ) (p : ℕ) (s : ℚ) (hl : 0 < Y.r) (hY : IsFreeResponse A C x0 Y)
    (Γr : Matrix (Fin ((p + 1) * Yref.r)) (Fin n) ℚ)
    (hΓ : gamMx A x0 Yref p s Y.c ((p + 1) * Yref.r) * Γr = 1)
    (Olp : Matrix (Fin n) (Fin (p * Y.r)) ℚ) (hObs : Olp * obsMx (p * Y.r) Y.r A C = 1)
    (Rf : Mat ℚ) (hRc : Rf.c = (Yref.r + Y.r) * (p + 1))
    (hdq : DatQr (hankYs Y Yref p s) Rf ((p + 1) * Yref.r) ((p + 1) * Y.r) (Y.c - p - (p + 1) - 1))
    (U V : Mat ℚ) (S : ℕ → ℚ) (sq : List ℚ) (N : ℕ)
    (hUr : U.r = (p + 1) * Y.r) (hUc : N ≤ U.c) (hql : N ≤ sq.length)
    (hsvd : SvdOf (hankDatOfR Rf Yref.r p) U V S N) (hsq : SqrtOf (sqFn sq) S N)
    (Pinvs : ℕ → Mat ℚ) (hpinv : PinvC (obsOf U (sqFn sq) n) (Pinvs n) (p * Y.r) n Y.r)
    (recs : List EigRec) (twoPi : ℚ) (e : EigRec) (hn1 : 1 ≤ n) (hrecs : recs[n - 1]? = some e)
    (heig : EigOf n (legacyA (Pinvs n) (obsOf U (sqFn sq) n) Y.r) e.V (lamsOf e))
    (hlc : e.lamc.length = n) (hla : e.absc.length = n)
    (hwf : ∀ k, k < N → (recs.getD k EigRec.empty).absc.length ≤ N)
    (dt : ℝ) (hdt : 0 < dt) (lam : Cpx ℚ) (w : Fin n → Cpx ℚ) (mu : ℂ) (hm : Mode A dt lam w mu) :
    ∃ As Cs T, legacySSI Pinvs U sq p N 1 = .ok (As, Cs)
      ∧ ssiPoles ⟨As, Cs, N, 1, recs, twoPi, none⟩ = .ok T
      ∧ (T.fn.r = N ∧ T.fn.c = N + 1)
      ∧ (∀ r, n ≤ r → T.fn.e r n = none ∧ T.xi.e r n = none ∧ T.lam.e r n = none
          ∧ ∀ t, T.phi.e r n t = none)
      ∧ ModeInTable C Y.r dt lam w mu e twoPi T := by
  obtain ⟨q, hdec, horth⟩ := hdq.dec
  obtain ⟨G, hG1, hG2⟩ := hankDat_factor A C x0 Y Yref p s hY q Rf.e hdec horth hdq.tri
  have eH : hankDatOfR Rf Yref.r p
      = ⟨(p + 1) * Y.r, (p + 1) * Yref.r, fun i j => Rf.e j ((p + 1) * Yref.r + i)⟩ := by
    refine mat_ext ?_ (Nat.mul_comm _ _) (fun i j => ?_)
    · show Rf.c - Yref.r * (p + 1) = (p + 1) * Y.r
      rw [hRc, Nat.add_mul, Nat.add_sub_cancel_left, Nat.mul_comm]
    · show Rf.e j (Yref.r * (p + 1) + i) = Rf.e j ((p + 1) * Yref.r + i)
      rw [Nat.mul_comm]
  rw [eH] at hsvd
  have hGr : G * (toMx ((p + 1) * Yref.r) ((p + 1) * Yref.r) Rf.e * Γr) = 1 := by
    rw [← Matrix.mul_assoc, hG2, hΓ]
  obtain ⟨hn, _, _, Tm, Tinv, hT, _, _, hleg⟩ := realised_of_factor_rank A C Y.r p hl
    ⟨(p + 1) * Y.r, (p + 1) * Yref.r, fun i j => Rf.e j ((p + 1) * Yref.r + i)⟩ U V S (sqFn sq) N rfl
    G _ hGr hG1 Olp hObs hsvd hsq
  obtain ⟨hA1, hC1⟩ := hleg (Pinvs n) hpinv
  have hrec := recovered_of_similar A C Y.r dt hdt lam w mu hm _ (outC (obsOf U (sqFn sq) n) Y.r n)
    rfl rfl Tm Tinv hT hA1 hC1 e.V (lamsOf e) heig
  obtain ⟨As, Cs, hok, hAl, hCl, hget⟩ := legacySSI_get Pinvs U sq p Y.r N hUr hUc hql
  obtain ⟨T, hTok⟩ := ssiPoles_lists_ok As Cs Y.r N recs twoPi hAl hCl
    (fun k hk => ⟨_, (hget k hk).2, rfl⟩) hwf
  obtain ⟨h1, h2, h3⟩ := C01_table_of_recovered A C Y.r dt lam w mu _ _ e hrec
    ⟨As, Cs, N, 1, recs, twoPi, none⟩ rfl hn1 hn (hget n hn).2 hrecs hlc hla T hTok
  exact ⟨As, Cs, T, hok, hTok, h1, h2, h3⟩

/-- the matrix handed to `eig` in the pass for order `n` is the one `ssi.SSI` put at list position `n`:
    the subject of the contract `heig` above is what the model passes, not an assumption -/
theorem ssiEigArgs_legacy (Pinvs : ℕ → Mat ℚ) (U : Mat ℚ) (sq : List ℚ) (p l N n : ℕ)
    (hUr : U.r = (p + 1) * l) (hU : N ≤ U.c) (hq : N ≤ sq.length) (hn1 : 1 ≤ n) (hn : n ≤ N) :
    ∃ As Cs, legacySSI Pinvs U sq p N 1 = .ok (As, Cs)
      ∧ (ssiEigArgs As N 1)[n - 1]? = some (some (legacyA (Pinvs n) (obsOf U (sqFn sq) n) l)) := by
  obtain ⟨As, Cs, hok, _, _, hget⟩ := legacySSI_get Pinvs U sq p l N hUr hU hq
  refine ⟨As, Cs, hok, ?_⟩
  unfold ssiEigArgs
  rw [List.getElem?_map, ssiOrders_get N 1 (by omega) (n - 1) (by omega), Option.map_some]
  have : 1 + (n - 1) * 1 = n := by omega
  rw [this, (hget n hn).1]

/-! ## `step ≥ 2` as coded -/

theorem fastLists_len_step (Rinv : ℕ → Mat ℚ) (Q Obs : Mat ℚ) (l ordmax step : ℕ) (hs : 0 < step) :
    (fastLists Rinv Q Obs l ordmax step).1.length = ordmax / step + 1
      ∧ (fastLists Rinv Q Obs l ordmax step).2.length = ordmax / step + 1 := by
  have : ordmax + 1 + step - 1 = ordmax + step := by omega
  simp only [fastLists, List.length_map, List.length_range, this, Nat.add_div_right _ hs]
  exact ⟨trivial, trivial⟩

/-- **`SSI_fast(…, step)` followed by `SSI_poles(…, step)` (what `SSIcov.run` / `SSIdat.run` do) ends in
    `IndexError` for every `step ≥ 2` with `ordmax > step`**: the lists hold one entry per multiple of
    `step` (position `k` = order `k·step`, `ordmax/step + 1` entries) but `SSI_poles` reads `AA[ii]`
    with `ii` the ORDER `1, 1+step, …`; the last visited order lies beyond the end of the list.  Only
    hypothesis besides the range of `step`: no recorded eigen-decomposition has more than `ordmax`
    eigenvalues (else an earlier pass raises `ValueError`).  For `ordmax = step` the call returns
    (`step_boundary` below). -/
theorem C01_step_indexError_fast (Rinv : ℕ → Mat ℚ) (Q Obs : Mat ℚ) (l ordmax step : ℕ)
    (hs : 2 ≤ step) (ho : step < ordmax) (recs : List EigRec) (twoPi : ℚ)
    (hrec : ∀ k, (recs.getD k EigRec.empty).absc.length ≤ ordmax) :
    ssiPoles ⟨(fastLists Rinv Q Obs l ordmax step).1, (fastLists Rinv Q Obs l ordmax step).2, ordmax,
      step, recs, twoPi, none⟩ = .error "IndexError" := by
  obtain ⟨h1, h2⟩ := fastLists_len_step Rinv Q Obs l ordmax step (by omega)
  refine ssiPoles_step_indexError _ hs ho h1 h2 ?_ hrec
  intro ii hii
  simp [fastLists, outC]

/-- **the same for the legacy routine**: whenever `ssi.SSI(H, br, ordmax, step)` returns lists (here: `ordmax`
    inside the recorded factors), `SSI_poles(…, step)` on them ends in `IndexError` for `step ≥ 2`,
    `ordmax > step`. -/
theorem C01_step_indexError_legacy (Pinvs : ℕ → Mat ℚ) (U : Mat ℚ) (sq : List ℚ) (br ordmax step : ℕ)
    (hs : 2 ≤ step) (ho : step < ordmax) (hU : ordmax ≤ U.c) (hq : ordmax ≤ sq.length)
    (recs : List EigRec) (twoPi : ℚ)
    (hrec : ∀ k, (recs.getD k EigRec.empty).absc.length ≤ ordmax) :
    ∃ As Cs, legacySSI Pinvs U sq br ordmax step = .ok (As, Cs)
      ∧ ssiPoles ⟨As, Cs, ordmax, step, recs, twoPi, none⟩ = .error "IndexError" := by
  obtain ⟨As, Cs, hok, hAl, hCl, hget⟩ :=
    legacyLists_spec Pinvs U sq (U.r / (br + 1)) ordmax step (by omega) hU hq
  refine ⟨As, Cs, by unfold legacySSI; rw [if_neg (by omega)]; exact hok, ?_⟩
  have hrow : ∀ ii, (h : ii < Cs.length) → (Cs[ii]).r = U.r / (br + 1) := by
    intro ii hii
    have hk : ii * step ≤ ordmax := by
      have : ii ≤ ordmax / step := by omega
      exact (Nat.le_div_iff_mul_le (by omega)).mp this
    have h1 := (hget ii hk).2
    rw [List.getElem?_eq_getElem hii] at h1
    rw [Option.some.inj h1]
    rfl
  refine ssiPoles_step_indexError ⟨As, Cs, ordmax, step, recs, twoPi, none⟩ hs ho hAl hCl ?_ hrec
  intro ii hii
  rw [hrow ii hii, hrow 0]

/-- with `ssiPoles_step_never_ok`: on those lists NO choice of records makes the call return -/
theorem C01_step_never_ok_fast (Rinv : ℕ → Mat ℚ) (Q Obs : Mat ℚ) (l ordmax step : ℕ)
    (hs : 2 ≤ step) (ho : step < ordmax) (recs : List EigRec) (twoPi : ℚ) (unc : Option UncIn)
    (T : SsiTables) :
    ssiPoles ⟨(fastLists Rinv Q Obs l ordmax step).1, (fastLists Rinv Q Obs l ordmax step).2, ordmax,
      step, recs, twoPi, unc⟩ ≠ .ok T :=
  ssiPoles_step_never_ok _ hs ho
    (Or.inl (Nat.le_of_eq (fastLists_len_step Rinv Q Obs l ordmax step (by omega)).1)) T

/-- **for `step ≥ 2` the call returns only at the boundary**: on lists with one entry per multiple of
    `step`, `ssiPoles … = .ok T` forces `ordmax = step` or `ordmax = 0` (for `1 ≤ ordmax < step` the lists
    have the single entry of order 0 and the first pass reads `AA[1]`). -/
theorem C01_step_ok_only_boundary (inp : SsiIn) (hs : 2 ≤ inp.step)
    (hlen : inp.AA.length ≤ inp.ordmax / inp.step + 1) (T : SsiTables) (hT : ssiPoles inp = .ok T) :
    inp.ordmax = inp.step ∨ inp.ordmax = 0 := by
  by_cases h1 : inp.step < inp.ordmax
  · exact (ssiPoles_step_never_ok inp hs h1 (Or.inl hlen) T hT).elim
  · by_cases h2 : inp.ordmax = inp.step
    · exact Or.inl h2
    · by_cases h3 : inp.ordmax = 0
      · exact Or.inr h3
      · exfalso
        obtain ⟨_, _, _, _, hpass, _⟩ := ssiPoles_spec inp T hT
        obtain ⟨A, _, hA, _⟩ := hpass 0 (by omega)
        have hA' := (List.getElem?_eq_some_iff.mp hA).1
        have : inp.ordmax / inp.step = 0 := Nat.div_eq_of_lt (by omega)
        omega

/-- **… and there the column is mislabelled**: whenever `ssiPoles` returns on the lists `fastLists` builds
    with the same `step`, column 1 of `Fn` — read by every consumer of the table as "order 1" — holds
    `|λ_c|/2π` of the first recorded eigen-decomposition, i.e. of `AA[1]`, which is the matrix of ORDER
    `step`, and `Phi[:, 1, :]` is computed with the `l × step` output matrix `Obs[:l, :step]`. -/
theorem C01_step_column_mislabel (Rinv : ℕ → Mat ℚ) (Q Obs : Mat ℚ) (l ordmax step : ℕ)
    (hs : 1 ≤ step) (ho : 1 ≤ ordmax) (recs : List EigRec) (twoPi : ℚ) (T : SsiTables)
    (hT : ssiPoles ⟨(fastLists Rinv Q Obs l ordmax step).1, (fastLists Rinv Q Obs l ordmax step).2, ordmax,
      step, recs, twoPi, none⟩ = .ok T) :
    step ≤ ordmax
    ∧ (ssiEigArgs (fastLists Rinv Q Obs l ordmax step).1 ordmax step)[0]?
        = some (some (fastA (Rinv 1) Q (dnPart Obs l) step))
    ∧ (∀ r, T.fn.e r 1 = (ac2mp (outC Obs l step) (recs.getD 0 EigRec.empty) twoPi).fn[r]?)
    ∧ ∀ r t, T.phi.e r 1 t
        = if r < (ac2mp (outC Obs l step) (recs.getD 0 EigRec.empty) twoPi).fn.length
          then (((ac2mp (outC Obs l step) (recs.getD 0 EigRec.empty) twoPi).phi.getD r [])[t]?).map toCQ
          else none := by
  obtain ⟨_, _, _, _, hpass, _⟩ := ssiPoles_spec _ T hT
  obtain ⟨A', C', hA, hC, _, _, _, hfn, _, _, hphi, _⟩ := hpass 0 (by show 1 + 0 * step ≤ ordmax; omega)
  have e1 : 1 + 0 * step = 1 := by omega
  simp only [e1] at hA hC hfn hphi
  have hlen := (List.getElem?_eq_some_iff.mp hC).1
  rw [(fastLists_len_step Rinv Q Obs l ordmax step (by omega)).2] at hlen
  have hso : step ≤ ordmax := by
    by_contra hlt
    have : ordmax / step = 0 := Nat.div_eq_of_lt (by omega)
    omega
  have hpos : 1 < (ordmax + 1 + step - 1) / step := by
    have : ordmax + 1 + step - 1 = ordmax + step := by omega
    rw [this, Nat.add_div_right _ (by omega)]
    have : 1 ≤ ordmax / step := (Nat.le_div_iff_mul_le (by omega)).mpr (by omega)
    omega
  have hC1 : (fastLists Rinv Q Obs l ordmax step).2[1]? = some (outC Obs l step) := by
    simp only [fastLists]
    rw [List.getElem?_map, List.getElem?_range hpos, Option.map_some, Nat.one_mul]
  have hA1 : (fastLists Rinv Q Obs l ordmax step).1[1]? = some (fastA (Rinv 1) Q (dnPart Obs l) step) := by
    simp only [fastLists]
    rw [List.getElem?_map, List.getElem?_range hpos, Option.map_some, Nat.one_mul]
  have hCe : C' = outC Obs l step := by
    have : some C' = some (outC Obs l step) := by rw [← hC]; exact hC1
    exact Option.some.inj this
  subst hCe
  refine ⟨hso, ?_, hfn, hphi⟩
  unfold ssiEigArgs
  rw [List.getElem?_map, ssiOrders_get ordmax step (by omega) 0 (by omega), Option.map_some, e1]
  exact congrArg some hA1

/-! ## Non-vacuity: the instances of `C01E2E` (`Ex`: damped rotation, `cov_mm`; `ExDat`: undamped
rotation, `dat`) with the recorded roots as a list, the pseudo-inverse recorded for order 2 and the two
recorded eigen-decompositions of `C01Table` satisfy all hypotheses jointly. -/
namespace Ex
open PV.C01E2E.Ex

def sqL : List ℚ := [9/16, 27/64]
/-- pseudo-inverses recorded in passes 0, 1, 2 (orders 0, 1, 2) -/
def Pinvs : ℕ → Mat ℚ := fun k =>
  if k = 2 then Pinv else if k = 1 then ofRows 1 2 [[0, 20/9]] else ⟨0, 2, fun _ _ => 0⟩

theorem hsqL : SqrtOf (sqFn sqL) S 2 := by
  unfold SqrtOf
  decide +kernel

theorem hpinvL : PinvC (obsOf U (sqFn sqL) 2) (Pinvs 2) (1 * Y.r) 2 Y.r where
  hPc := rfl
  inv := fun _ => by decide +kernel

theorem table : ∃ As Cs T, legacySSI Pinvs U sqL 1 2 1 = .ok (As, Cs)
    ∧ ssiPoles ⟨As, Cs, 2, 1, [C01Table.Ex.e1, C01Table.Ex.e2], 7, none⟩ = .ok T
    ∧ (T.fn.r = 2 ∧ T.fn.c = 2 + 1)
    ∧ (∀ r, 2 ≤ r → T.fn.e r 2 = none ∧ T.xi.e r 2 = none ∧ T.lam.e r 2 = none
        ∧ ∀ t, T.phi.e r 2 t = none)
    ∧ ModeInTable C Y.r (1 / 100) lam w mu C01Table.Ex.e2 7 T :=
  C01_e2e_cov_table_legacy A C x0 Y Y 1 1 (by decide) free Γr hΓ Olp hObs U V S sqL 2 rfl (by decide)
    (by decide) hsvd hsqL Pinvs hpinvL [C01Table.Ex.e1, C01Table.Ex.e2] 7 C01Table.Ex.e2 (by decide) rfl
    (eigOf_congr (eig_of _ (by decide +kernel)) (fun k hk => by
      obtain rfl | rfl : k = 0 ∨ k = 1 := by omega
      all_goals rfl))
    rfl rfl
    (fun k hk => by
      obtain rfl | rfl : k = 0 ∨ k = 1 := by omega
      all_goals decide)
    (1 / 100) (by norm_num) lam w mu mode

end Ex

namespace ExDat
open PV.C01E2E.ExDat

def sqL : List ℚ := [1, 1]
def Pinvs : ℕ → Mat ℚ := fun k =>
  if k = 2 then Rinv else if k = 1 then PV.C01E2E.Ex.ofRows 1 2 [[5/3, 0]] else ⟨0, 2, fun _ _ => 0⟩

theorem hsqL : SqrtOf (sqFn sqL) S 2 := by
  unfold SqrtOf
  decide +kernel

theorem hpinvL : PinvC (obsOf U (sqFn sqL) 2) (Pinvs 2) (1 * Y.r) 2 Y.r where
  hPc := rfl
  inv := fun _ => by decide +kernel

theorem table : ∃ As Cs T, legacySSI Pinvs U sqL 1 2 1 = .ok (As, Cs)
    ∧ ssiPoles ⟨As, Cs, 2, 1, [C01Table.ExDat.e1, C01Table.ExDat.e2], 7, none⟩ = .ok T
    ∧ (T.fn.r = 2 ∧ T.fn.c = 2 + 1)
    ∧ (∀ r, 2 ≤ r → T.fn.e r 2 = none ∧ T.xi.e r 2 = none ∧ T.lam.e r 2 = none
        ∧ ∀ t, T.phi.e r 2 t = none)
    ∧ ModeInTable C Y.r (1 / 100) lam w mu C01Table.ExDat.e2 7 T :=
  C01_e2e_dat_table_legacy A C x0 Y Y 1 (1/3) (by decide) free Γr hΓ Olp hObs Rf rfl hdq U V S sqL 2 rfl
    (by decide) (by decide) hsvd hsqL Pinvs hpinvL [C01Table.ExDat.e1, C01Table.ExDat.e2] 7
    C01Table.ExDat.e2 (by decide) rfl
    (eigOf_congr (eig_of _ (by decide +kernel)) (fun k hk => by
      obtain rfl | rfl : k = 0 ∨ k = 1 := by omega
      all_goals rfl))
    rfl rfl
    (fun k hk => by
      obtain rfl | rfl : k = 0 ∨ k = 1 := by omega
      all_goals decide)
    (1 / 100) (by norm_num) lam w mu mode

end ExDat

/-! ## `step = 2`: concrete witnesses on the lists of the instance `Ex` -/
namespace ExStep
open PV.C01E2E.Ex

/-- recorded eigen-decomposition of the first pass (`AA[1]`, which for `step = 2` is the ORDER-2 matrix) -/
def recs : List EigRec := [C01Table.Ex.e2, C01Table.Ex.e2]

theorem recs_wf : ∀ k, (recs.getD k EigRec.empty).absc.length ≤ 3 := by
  intro k
  by_cases h0 : k = 0
  · subst h0; decide
  · by_cases h1 : k = 1
    · subst h1; decide
    · have : recs.getD k EigRec.empty = EigRec.empty := by
        unfold recs
        rw [List.getD_eq_getElem?_getD, List.getElem?_eq_none (by simp; omega)]
        rfl
      rw [this]; decide

/-- `ordmax = 3`, `step = 2` on the fast lists: `IndexError` (kernel evaluation of the model) -/
theorem fast_3_2 : ssiPoles ⟨(fastLists (fun _ => Rinv) Q (obsOf U sq 3) Y.r 3 2).1,
    (fastLists (fun _ => Rinv) Q (obsOf U sq 3) Y.r 3 2).2, 3, 2, recs, 7, none⟩
      = .error "IndexError" :=
  C01_step_indexError_fast _ _ _ _ 3 2 (by decide) (by decide) recs 7 recs_wf

/-- the same on the lists of the legacy routine (`U` has 2 columns: `ordmax = 3` would leave the recorded
    factors, so the witness uses a third recorded column/root of zeros) -/
def U3 : Mat ℚ := ⟨4, 3, fun i j => if j < 2 then U.e i j else 0⟩

theorem legacy_3_2 : ∃ As Cs, legacySSI C01TableLegacy.Ex.Pinvs U3 [9/16, 27/64, 0] 1 3 2 = .ok (As, Cs)
    ∧ ssiPoles ⟨As, Cs, 3, 2, recs, 7, none⟩ = .error "IndexError" :=
  C01_step_indexError_legacy _ U3 _ 1 3 2 (by decide) (by decide) (by decide) (by decide) recs 7 recs_wf

/-- **the boundary `ordmax = step = 2`**: the call returns — and column 1 of the table (which every
    reader of the table takes for order 1) holds the TWO poles of the order-2 matrix `AA[1]` -/
theorem step_boundary : ∃ T, ssiPoles ⟨(fastLists (fun _ => Rinv) Q (obsOf U sq 2) Y.r 2 2).1,
    (fastLists (fun _ => Rinv) Q (obsOf U sq 2) Y.r 2 2).2, 2, 2, recs, 7, none⟩ = .ok T
    ∧ T.fn.c = 2 ∧ T.fn.e 0 1 = some (160 / 7) ∧ T.fn.e 1 1 = some (160 / 7) := by
  refine ⟨_, rfl, ?_, ?_, ?_⟩ <;> decide +kernel

/-- non-vacuity of `C01_step_ok_only_boundary` and `C01_step_column_mislabel`: the boundary instance
    satisfies their hypotheses (the call returns) -/
example : ∃ T, ssiPoles ⟨(fastLists (fun _ => Rinv) Q (obsOf U sq 2) Y.r 2 2).1,
    (fastLists (fun _ => Rinv) Q (obsOf U sq 2) Y.r 2 2).2, 2, 2, recs, 7, none⟩ = .ok T
    ∧ ((2 : ℕ) = 2 ∨ (2 : ℕ) = 0)
    ∧ ∀ r, T.fn.e r 1 = (ac2mp (outC (obsOf U sq 2) Y.r 2) (recs.getD 0 EigRec.empty) 7).fn[r]? := by
  obtain ⟨T, hT, _⟩ := step_boundary
  exact ⟨T, hT,
    C01_step_ok_only_boundary _ (by decide)
      (Nat.le_of_eq (fastLists_len_step (fun _ => Rinv) Q (obsOf U sq 2) Y.r 2 2 (by decide)).1) T hT,
    (C01_step_column_mislabel (fun _ => Rinv) Q (obsOf U sq 2) Y.r 2 2 (by decide) (by decide) recs 7 T
      hT).2.2.1⟩

end ExStep

end PV.C01TableLegacy
