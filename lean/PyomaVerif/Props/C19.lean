import PyomaVerif.Model.Geo
import PyomaVerif.Lemmas.Geo
/-!
# C19 — geometry tables are validated, aligned to sensor order and mapped faithfully
Property theorems only (helper lemmas in `Lemmas/Geo.lean`).  All statements are for tables
of every size.
-/
namespace PV.C19
open PV PV.Geo

/-! ## sensor names: every accepted form -/

/-- single-setup forms: the one-row table, the 1-D array and the non-empty list of strings
    give the names as they are, whatever `ref_ind` is. -/
theorem C19_flatten_single (row : List Name) (l : List String) (r : Option (List (List Nat))) :
    flattenNames (.table [row]) r = .ok row ∧
    flattenNames (.array l) r = .ok (l.map some) ∧
    (l ≠ [] → flattenNames (.list l) r = .ok (l.map some)) := by
  refine ⟨rfl, rfl, ?_⟩
  intro h
  cases l with
  | nil => exact absurd rfl h
  | cons a t => rfl

/-- multi-setup names (list of lists, one reference list per setup): `REF1..REFk` with `k` the
    number of references of the first setup, then, setup after setup, the channels whose
    position is not a reference position of that setup. -/
theorem C19_flatten_multi (rows : List (List String)) (r0 : List Nat) (rs : List (List Nat))
    (h : rows.length ≤ (r0 :: rs).length) :
    flattenNames (.listList rows) (some (r0 :: rs)) =
      .ok (refNames r0.length ++
        (rows.zip (r0 :: rs)).flatMap fun p => roving (p.1.map some) p.2) := by
  have h' : ¬ (rows.length > rs.length + 1) := by simpa using Nat.not_lt.mpr h
  simp only [flattenNames, flattenMulti, List.length_map, List.length_cons, h', if_false, List.zip_map_left,
    List.flatMap_map]
  rfl

/-- a name is among the roving names of a setup iff it sits at a non-reference position;
    (the roving names keep the order of the setup: `roving` is a filter) -/
theorem C19_roving_mem (row : List Name) (ref : List Nat) (x : Name) :
    x ∈ roving row ref ↔ ∃ j, row[j]? = some x ∧ j ∉ ref := mem_roving

/-- the table form (rows padded with NaN to a common width, at least two setups) gives the
    same names as the list-of-lists form. -/
theorem C19_flatten_table_eq_lists (rows : List (List String)) (pad : List String → Nat)
    (r : Option (List (List Nat))) (h2 : 2 ≤ rows.length) :
    flattenNames (.table (rows.map fun x => x.map some ++ List.replicate (pad x) none)) r =
      flattenNames (.listList rows) r := by
  match rows, h2 with
  | a :: b :: t, _ =>
    simp only [flattenNames, List.map_cons, List.map_map]
    congr 1
    simp only [List.cons.injEq, filter_isSome_pad, true_and]
    apply List.map_congr_left
    intro x _
    simp

/-- without `ref_ind` a multi-setup name table / list of lists is refused with `AttributeError`. -/
theorem C19_flatten_needs_ref (a b : List Name) (t : List (List Name)) (l : List (List String)) :
    flattenNames (.table (a :: b :: t)) none = .error .attributeError ∧
    flattenNames (.listList l) none = .error .attributeError := ⟨rfl, rfl⟩

/-! ## re-indexing by name -/

/-- **Row `k` is the row labelled `names[k]`.**  If `reindex` succeeds on a rectangular table
    that contains every name, the result has one row per name, and row `k` is a row of the
    input whose label is `names[k]` (position `k` itself when the table already is in the order
    of the names, the first — and, labels being distinct, only — position of that label
    otherwise). -/
theorem C19_reindex_row (t : Tbl) (names : List Name) (out : List (List Cell))
    (hwf : t.cells.length = t.index.length)
    (hin : ∀ n ∈ names, nameIn t.index n = true)
    (h : reindexRows t names = .ok out) :
    out.length = names.length ∧
    ∀ k s, names[k]? = some (some s) →
      let p := if t.index.map some = names then k else t.index.idxOf s
      t.index[p]? = some s ∧ out[k]? = t.cells[p]? := by
  unfold reindexRows at h
  split at h
  · rename_i heq
    cases h
    refine ⟨by rw [← heq, List.length_map, hwf], ?_⟩
    intro k s hk
    simp only [heq, if_true]
    rw [← heq, List.getElem?_map] at hk
    cases hi : t.index[k]? with
    | none => simp [hi] at hk
    | some v => simp [hi] at hk; subst hk; simp
  · rename_i hne
    split at h
    · cases h
    · cases h
      refine ⟨by simp, ?_⟩
      intro k s hk
      simp only [hne, if_false]
      have hmem : s ∈ t.index := by
        have := hin (some s) (List.mem_of_getElem? hk)
        simpa [nameIn] using this
      have := lookup_zip_of_mem t.index t.cells s hwf hmem
      refine ⟨this.2, ?_⟩
      rw [List.getElem?_map, hk]
      simp only [Option.map_some, lookupRow, this.1]
      have hlt : t.index.idxOf s < t.cells.length := by
        rw [hwf]; exact List.idxOf_lt_length_iff.2 hmem
      simp [List.getElem?_eq_getElem hlt]

/-- the row found under a label does not depend on the order of the rows (distinct labels) -/
theorem C19_lookup_perm (t t' : Tbl) (s : String)
    (hp : (t.index.zip t.cells).Perm (t'.index.zip t'.cells))
    (hwf : t.cells.length = t.index.length) (hc : t.cols = t'.cols) (hn : t.index.Nodup) :
    lookupRow t s = lookupRow t' s := by
  unfold lookupRow
  rw [lookup_perm hp (by rw [List.map_fst_zip (by omega)]; exact hn) s]
  simp [Tbl.ncols, hc]

/-- **Every row permutation of the input gives the same re-indexed table.**  Two rectangular
    tables with the same labelled rows in any order, labels distinct, containing every name. -/
theorem C19_reindex_perm (t t' : Tbl) (names : List Name)
    (hp : (t.index.zip t.cells).Perm (t'.index.zip t'.cells))
    (hwf : t.cells.length = t.index.length) (hwf' : t'.cells.length = t'.index.length)
    (hc : t.cols = t'.cols) (hn : t.index.Nodup) :
    reindexRows t names = reindexRows t' names := by
  have hn' : t'.index.Nodup := by
    have := (List.Perm.nodup_iff (hp.map Prod.fst)).1 (by rw [List.map_fst_zip (by omega)]; exact hn)
    rwa [List.map_fst_zip (by omega)] at this
  have key : ∀ u : Tbl, u.cells.length = u.index.length → u.index.Nodup →
      reindexRows u names = .ok (names.map fun n => match n with
        | some s => lookupRow u s
        | none => nanRow u.ncols) := by
    intro u hu hnu
    unfold reindexRows
    split
    · rename_i heq
      congr 1
      rw [← heq, List.map_map]
      exact (map_lookup_self u.index u.cells (nanRow u.ncols) hu hnu).symm
    · rfl
  rw [key t hwf hn, key t' hwf' hn']
  congr 1
  apply List.map_congr_left
  intro n _
  cases n with
  | none => simp [Tbl.ncols, hc]
  | some s => exact C19_lookup_perm t t' s hp hwf hc hn

/-! ## `check_on_geo1` -/

/-- **Alignment (geometry 1).**  When the table set is accepted, the returned names are the
    flattened sensor names, coordinates and directions have one row per name, and row `k` of
    both is the row of the input tables labelled `names[k]` (one position `p` in both input
    tables, which carry the same labels). -/
theorem C19_align_geo1 (fd : FileDict) (r : Option (List (List Nat))) (out : Out1)
    (h : checkGeo1 fd r = .ok out) :
    ∃ nm co di, fd.names = some nm ∧
      (dropInfo fd.tbls).lookup "sensors coordinates" = some co ∧
      (dropInfo fd.tbls).lookup "sensors directions" = some di ∧
      flattenNames nm r = .ok out.names ∧ out.coordCols = co.cols ∧
      (co.cells.length = co.index.length → di.cells.length = di.index.length →
        out.coord.length = out.names.length ∧ out.dir.length = out.names.length ∧
        ∀ (k : Nat) (s : String), out.names[k]? = some (some s) →
          ∃ p : Nat, co.index[p]? = some s ∧ di.index[p]? = some s ∧
            out.coord[k]? = co.cells[p]? ∧ out.dir[k]? = di.cells[p]?) := by
  obtain ⟨nm, co, di, g⟩ := checkGeo1_ok h
  refine ⟨nm, co, di, g.hnm, g.hco, g.hdi, g.hflat, g.hcols, ?_⟩
  intro hc hd
  have hidx : co.index = di.index := (geo1Pre_none_iff.1 g.hpre).2.2.2.2.2.2
  have hin : ∀ n ∈ out.names, nameIn co.index n = true := by
    have := g.hall; simpa [List.all_eq_true] using this
  have h1 := C19_reindex_row co out.names out.coord hc hin g.hcc
  have h2 := C19_reindex_row di out.names out.dir hd (by rw [← hidx]; exact hin) g.hdd
  refine ⟨h1.1, h2.1, ?_⟩
  intro k s hk
  have a := h1.2 k s hk
  have b := h2.2 k s hk
  rw [← hidx] at b
  exact ⟨_, a.1, by rw [← hidx]; exact a.1, a.2, b.2⟩

/-- **Every row permutation of the coordinate / direction tables gives the same geometry.**
    Two accepted table sets with the same names whose coordinate (direction) tables hold the
    same labelled rows in any order, labels distinct: names, coordinates and directions
    returned are identical. -/
theorem C19_align_perm_geo1 (fd fd' : FileDict) (r : Option (List (List Nat))) (out out' : Out1)
    (co co' di di' : Tbl)
    (h : checkGeo1 fd r = .ok out) (h' : checkGeo1 fd' r = .ok out') (hnm : fd'.names = fd.names)
    (hco : (dropInfo fd.tbls).lookup "sensors coordinates" = some co)
    (hco' : (dropInfo fd'.tbls).lookup "sensors coordinates" = some co')
    (hdi : (dropInfo fd.tbls).lookup "sensors directions" = some di)
    (hdi' : (dropInfo fd'.tbls).lookup "sensors directions" = some di')
    (hpc : (co.index.zip co.cells).Perm (co'.index.zip co'.cells))
    (hpd : (di.index.zip di.cells).Perm (di'.index.zip di'.cells))
    (w1 : co.cells.length = co.index.length) (w2 : co'.cells.length = co'.index.length)
    (w3 : di.cells.length = di.index.length) (w4 : di'.cells.length = di'.index.length)
    (c1 : co.cols = co'.cols) (c2 : di.cols = di'.cols) (hnd : co.index.Nodup) :
    out'.names = out.names ∧ out'.coord = out.coord ∧ out'.dir = out.dir := by
  obtain ⟨nm, a, b, g⟩ := checkGeo1_ok h
  obtain ⟨nm', a', b', g'⟩ := checkGeo1_ok h'
  have e1 : a = co := Option.some.inj (g.hco.symm.trans hco)
  have e2 : b = di := Option.some.inj (g.hdi.symm.trans hdi)
  have e3 : a' = co' := Option.some.inj (g'.hco.symm.trans hco')
  have e4 : b' = di' := Option.some.inj (g'.hdi.symm.trans hdi')
  subst e1 e2 e3 e4
  have e5 : nm' = nm := by
    have := g'.hnm; rw [hnm, g.hnm] at this; exact (Option.some.inj this).symm
  subst e5
  have hnames : out'.names = out.names := by
    have := g'.hflat; rw [g.hflat] at this; exact (Except.ok.inj this).symm
  have hidx : a.index = b.index := (geo1Pre_none_iff.1 g.hpre).2.2.2.2.2.2
  refine ⟨hnames, ?_, ?_⟩
  · have := g'.hcc
    rw [hnames, ← C19_reindex_perm a a' out.names hpc w1 w2 c1 hnd, g.hcc] at this
    exact (Except.ok.inj this).symm
  · have := g'.hdd
    rw [hnames, ← C19_reindex_perm b b' out.names hpd w3 w4 c2 (hidx ▸ hnd), g.hdd] at this
    exact (Except.ok.inj this).symm

/-- `df.sub(1)` cell by cell: succeeds iff no cell is a string, and then every number is
    lowered by one (NaN stays NaN). -/
theorem C19_sub1_cells (c c' : List (List Cell)) :
    sub1Rows c = .ok c' ↔ c' = c.map (fun r => r.map shiftCell) ∧ ∀ r ∈ c, ∀ x ∈ r, isStr x = false :=
  sub1Rows_ok c c'

/-- **Zero-based (geometry 1).**  On acceptance the three index sheets come back as
    `shifted`: `None` when absent or empty, else every number minus one; `BG nodes` comes back
    untouched (`None` when absent or empty). -/
theorem C19_zero_based_geo1 (fd : FileDict) (r : Option (List (List Nat))) (out : Out1)
    (h : checkGeo1 fd r = .ok out) :
    out.lines = shifted (dropInfo fd.tbls) "sensors lines" ∧
    out.bgLines = shifted (dropInfo fd.tbls) "BG lines" ∧
    out.bgSurf = shifted (dropInfo fd.tbls) "BG surfaces" ∧
    out.bgNodes = plainArr (dropInfo fd.tbls) "BG nodes" := by
  obtain ⟨nm, co, di, g⟩ := checkGeo1_ok h
  exact ⟨(subIdx_ok_iff.1 g.hsl).1, (subIdx_ok_iff.1 g.hbl).1, (subIdx_ok_iff.1 g.hbs).1, g.hbn⟩

/-- A well-formed geometry-1 table set: none of the malformations the code refuses.
    Required sheets present; no unknown sheet; three coordinate columns; directions of the
    same shape and with the same row labels; optional background sheets with the right
    number of columns; a valid name form; every name a row label; row labels distinct
    (or already in the order of the names). -/
def WellFormed1 (fd : FileDict) (r : Option (List (List Nat))) : Prop :=
  ∃ nm co di names,
    fd.names = some nm ∧
    (dropInfo fd.tbls).lookup "sensors coordinates" = some co ∧
    (dropInfo fd.tbls).lookup "sensors directions" = some di ∧
    (∀ p ∈ dropInfo fd.tbls, p.1 ∈ geo1All) ∧
    co.ncols = 3 ∧ co.shape = di.shape ∧
    ColsOk (dropInfo fd.tbls) "BG nodes" 3 ∧ ColsOk (dropInfo fd.tbls) "BG lines" 2 ∧
    ColsOk (dropInfo fd.tbls) "BG surfaces" 3 ∧
    co.index = di.index ∧
    flattenNames nm r = .ok names ∧
    (∀ n ∈ names, ∃ s, n = some s ∧ s ∈ co.index) ∧
    (co.index.Nodup ∨ co.index.map some = names)

/-- the domain of the accept/reject theorems: the names are given as a table (the
    `read_excel` form) and the index sheets hold no strings -/
def Domain1 (fd : FileDict) : Prop :=
  (∀ nm, fd.names = some nm → isTable nm = true) ∧
  NumericSheet (dropInfo fd.tbls) "sensors lines" ∧ NumericSheet (dropInfo fd.tbls) "BG lines" ∧
  NumericSheet (dropInfo fd.tbls) "BG surfaces"

/-- **Accepted iff well-formed (geometry 1).** -/
theorem C19_accept_iff_geo1 (fd : FileDict) (r : Option (List (List Nat))) (hd : Domain1 fd) :
    (∃ out, checkGeo1 fd r = .ok out) ↔ WellFormed1 fd r := by
  constructor
  · rintro ⟨out, h⟩
    obtain ⟨nm, co, di, g⟩ := checkGeo1_ok h
    have hp := geo1Pre_none_iff.1 g.hpre
    refine ⟨nm, co, di, out.names, g.hnm, g.hco, g.hdi, ?_, hp.2.1, hp.2.2.1, colsBad_false_iff.1 hp.2.2.2.1,
      colsBad_false_iff.1 hp.2.2.2.2.1, colsBad_false_iff.1 hp.2.2.2.2.2.1, hp.2.2.2.2.2.2, g.hflat, ?_, ?_⟩
    · have := hp.1
      simp only [List.any_eq_false, Bool.not_eq_eq_eq_not, Bool.not_true, Bool.not_eq_false] at this
      intro p hp; simpa using this p hp
    · have := g.hall
      simp only [List.all_eq_true] at this
      exact fun n hn => nameIn_iff.1 (this n hn)
    · by_cases hid : co.index.map some = out.names
      · exact Or.inr hid
      · left
        have := g.hcc
        unfold reindexRows at this
        simp only [hid, if_false] at this
        split at this
        · cases this
        · rename_i hh; exact Decidable.not_not.1 hh
  · rintro ⟨nm, co, di, names, hn, hc, hdi, hall, h3, hsh, b1, b2, b3, hidx, hfl, hmem, hdup⟩
    obtain ⟨cc, hcc⟩ := reindexRows_isOk (t := co) (names := names) hdup
    obtain ⟨dd, hdd⟩ := reindexRows_isOk (t := di) (names := names) (by rw [← hidx]; exact hdup)
    refine ⟨{ names := names, coordCols := co.cols, coord := cc, dir := dd,
              lines := shifted (dropInfo fd.tbls) "sensors lines",
              bgNodes := plainArr (dropInfo fd.tbls) "BG nodes",
              bgLines := shifted (dropInfo fd.tbls) "BG lines",
              bgSurf := shifted (dropInfo fd.tbls) "BG surfaces" }, ?_⟩
    apply checkGeo1_of (nm := nm) (co := co) (di := di)
    refine ⟨hn, hc, hdi, ?_, hfl, ?_, hcc, hdd, ?_, ?_, ?_, rfl, rfl, hd.1 nm hn⟩
    · refine geo1Pre_none_iff.2 ⟨?_, h3, hsh, colsBad_false_iff.2 b1, colsBad_false_iff.2 b2,
        colsBad_false_iff.2 b3, hidx⟩
      simp only [List.any_eq_false, Bool.not_eq_eq_eq_not, Bool.not_true, Bool.not_eq_false]
      intro p hp; simpa using hall p hp
    · simp only [List.all_eq_true]
      exact fun n hn => nameIn_iff.2 (hmem n hn)
    · exact subIdx_ok_iff.2 ⟨rfl, fun t ht _ => hd.2.1 t ht⟩
    · exact subIdx_ok_iff.2 ⟨rfl, fun t ht _ => hd.2.2.1 t ht⟩
    · exact subIdx_ok_iff.2 ⟨rfl, fun t ht _ => hd.2.2.2 t ht⟩

/-- **Rejected with `ValueError` iff malformed (geometry 1).**  In the domain (table names,
    numeric index sheets) and when the name table is not a multi-setup table lacking its
    reference indices (`AttributeError` / `IndexError`, the documented exceptions), the result
    is a `ValueError` exactly when the table set is not well-formed, and a geometry
    otherwise. -/
theorem C19_reject_iff_geo1 (fd : FileDict) (r : Option (List (List Nat))) (hd : Domain1 fd)
    (hfl : ∀ nm, fd.names = some nm →
      flattenNames nm r ≠ .error .attributeError ∧ flattenNames nm r ≠ .error .indexError ∧
      flattenNames nm r ≠ .error .keyError ∧ flattenNames nm r ≠ .error .typeError) :
    (∃ w, checkGeo1 fd r = .error (.valueError w)) ↔ ¬ WellFormed1 fd r := by
  rw [← C19_accept_iff_geo1 fd r hd]
  have key : (∃ out, checkGeo1 fd r = .ok out) ∨ (∃ w, checkGeo1 fd r = .error (.valueError w)) := by
    unfold checkGeo1
    simp only
    split
    · rename_i nm co di hn hc hdi
      split
      · exact Or.inr ⟨_, rfl⟩
      · split
        · rename_i e he
          have := hfl nm hn
          cases e with
          | valueError w => exact Or.inr ⟨_, rfl⟩
          | keyError => exact absurd he this.2.2.1
          | attributeError => exact absurd he this.1
          | indexError => exact absurd he this.2.1
          | typeError => exact absurd he this.2.2.2
        · split
          · exact Or.inr ⟨_, rfl⟩
          · split
            · rename_i e he; rw [(reindexRows_error he).1]; exact Or.inr ⟨_, rfl⟩
            · split
              · rename_i e he; rw [(reindexRows_error he).1]; exact Or.inr ⟨_, rfl⟩
              · split
                · rename_i e he; exact absurd hd.2.1 (subIdx_error_typeError he)
                · split
                  · rename_i e he; exact absurd hd.2.2.1 (subIdx_error_typeError he)
                  · split
                    · rename_i e he; exact absurd hd.2.2.2 (subIdx_error_typeError he)
                    · split
                      · rename_i ht; rw [hd.1 nm hn] at ht; simp at ht
                      · exact Or.inl ⟨_, rfl⟩
    · exact Or.inr ⟨_, rfl⟩
  constructor
  · rintro ⟨w, hw⟩ ⟨out, ho⟩; rw [hw] at ho; cases ho
  · intro hno
    cases key with
    | inl h => exact absurd h hno
    | inr h => exact h


/-! ## optional sheets (geometry 1) -/

def geo1Optional : List String := ["sensors lines", "BG nodes", "BG lines", "BG surfaces"]

/-- **Every subset of the optional sheets may be omitted (geometry 1).**  If a table set is
    accepted, it still is after removing any set `S` of optional sheets, with the same names,
    coordinates and directions, `None` for the removed sheets and the same arrays for the
    others. -/
theorem C19_optional_geo1 (fd : FileDict) (r : Option (List (List Nat))) (out : Out1)
    (h : checkGeo1 fd r = .ok out) (S : List String) (hS : ∀ k ∈ S, k ∈ geo1Optional) :
    checkGeo1 ⟨fd.names, dropKeys S fd.tbls⟩ r = .ok { out with
      lines := if S.contains "sensors lines" then none else out.lines
      bgNodes := if S.contains "BG nodes" then none else out.bgNodes
      bgLines := if S.contains "BG lines" then none else out.bgLines
      bgSurf := if S.contains "BG surfaces" then none else out.bgSurf } := by
  obtain ⟨nm, co, di, g⟩ := checkGeo1_ok h
  have hp := geo1Pre_none_iff.1 g.hpre
  have n1 : S.contains "sensors coordinates" = false := by
    cases hc : S.contains "sensors coordinates" with
    | false => rfl
    | true => have := hS _ (by simpa using hc); simp [geo1Optional] at this
  have n2 : S.contains "sensors directions" = false := by
    cases hc : S.contains "sensors directions" with
    | false => rfl
    | true => have := hS _ (by simpa using hc); simp [geo1Optional] at this
  apply checkGeo1_of (nm := nm) (co := co) (di := di)
  refine ⟨g.hnm, ?_, ?_, ?_, g.hflat, g.hall, g.hcc, g.hdd, ?_, ?_, ?_, ?_, g.hcols, g.htab⟩
  · show (dropInfo (dropKeys S fd.tbls)).lookup _ = _
    rw [dropInfo_dropKeys, lookup_dropKeys, n1]; exact g.hco
  · show (dropInfo (dropKeys S fd.tbls)).lookup _ = _
    rw [dropInfo_dropKeys, lookup_dropKeys, n2]; exact g.hdi
  · show geo1Pre (dropInfo (dropKeys S fd.tbls)) co di = none
    rw [dropInfo_dropKeys]
    exact geo1Pre_none_iff.2 ⟨any_dropKeys hp.1, hp.2.1, hp.2.2.1, colsBad_dropKeys hp.2.2.2.1,
      colsBad_dropKeys hp.2.2.2.2.1, colsBad_dropKeys hp.2.2.2.2.2.1, hp.2.2.2.2.2.2⟩
  · show subIdx (dropInfo (dropKeys S fd.tbls)) _ = _
    rw [dropInfo_dropKeys, subIdx_dropKeys, g.hsl]; split <;> rfl
  · show subIdx (dropInfo (dropKeys S fd.tbls)) _ = _
    rw [dropInfo_dropKeys, subIdx_dropKeys, g.hbl]; split <;> rfl
  · show subIdx (dropInfo (dropKeys S fd.tbls)) _ = _
    rw [dropInfo_dropKeys, subIdx_dropKeys, g.hbs]; split <;> rfl
  · show _ = plainArr (dropInfo (dropKeys S fd.tbls)) _
    rw [dropInfo_dropKeys, plainArr_dropKeys, g.hbn]

/-! ## `check_on_geo2` -/

/-- **Zero-based (geometry 2).**  The four index sheets come back minus one, `BG nodes`,
    the points and the (NaN-filled) mapping come back untouched. -/
theorem C19_zero_based_geo2 (fd : FileDict) (r : Option (List (List Nat))) (out : Out2)
    (h : checkGeo2 fd r = .ok out) :
    out.lines = shifted (dropInfo fd.tbls) "sensors lines" ∧
    out.surf = shifted (dropInfo fd.tbls) "sensors surfaces" ∧
    out.bgLines = shifted (dropInfo fd.tbls) "BG lines" ∧
    out.bgSurf = shifted (dropInfo fd.tbls) "BG surfaces" ∧
    out.bgNodes = plainArr (dropInfo fd.tbls) "BG nodes" ∧
    ∃ pt mp, (dropInfo fd.tbls).lookup "points coordinates" = some pt ∧
      (dropInfo fd.tbls).lookup "mapping" = some mp ∧
      out.pts = noneIfEmpty pt ∧ out.map = noneIfEmpty (fill0 mp) := by
  obtain ⟨nm, pt, mp, cs0, g⟩ := checkGeo2With_ok h
  exact ⟨(subIdx_ok_iff.1 g.hsl).1, (subIdx_ok_iff.1 g.hss).1, (subIdx_ok_iff.1 g.hbl).1,
    (subIdx_ok_iff.1 g.hbs).1, g.hbn, pt, mp, g.hpt, g.hmp, g.hpts, g.hmap⟩

/-- the constraint sheet the code works on: the sheet if present, else an empty frame -/
def cstrSheet (fd : FileDict) : Tbl := ((dropInfo fd.tbls).lookup "constraints").getD Tbl.nil

/-- **The constraint matrix is aligned to the sensor names.**  On acceptance the returned
    constraint frame (if not empty) keeps the constraint rows, has exactly one column per sensor
    name in the order of the names, and its entry (row `i`, column `k`) is the coefficient the
    input sheet gives in row `i` under the column labelled `names[k]` (NaN → 0), and 0 when
    the sheet has no such column. -/
theorem C19_cstr_align (fd : FileDict) (r : Option (List (List Nat))) (out : Out2) (c : Tbl)
    (h : checkGeo2 fd r = .ok out) (hc : out.cstr = some c) :
    c.index = (cstrSheet fd).index ∧ c.cols.length = out.names.length ∧
    ∀ (i : Nat) (row : List Cell), (cstrSheet fd).cells[i]? = some row →
      ∃ crow, c.cells[i]? = some crow ∧ crow.length = out.names.length ∧
      ∀ (k : Nat) (s : String), out.names[k]? = some (some s) →
        crow[k]? = some ((((cstrSheet fd).cols.zip (row.map fill0Cell)).lookup s).getD (.num 0)) := by
  obtain ⟨nm, pt, mp, cs0, g⟩ := checkGeo2With_ok h
  have hcs : cs0 = cstrSheet fd := by
    have := g.hcs; rw [cstrOf_nil] at this; exact (Option.some.inj this).symm
  subst hcs
  have hc' := g.hcstr
  rw [hc] at hc'
  unfold noneIfEmpty at hc'
  split at hc'
  · cases hc'
  · cases hc'
    refine ⟨rfl, by simp [reorderCols], ?_⟩
    intro i row hrow
    refine ⟨out.names.map (fun n => match n with
        | some s => (((cstrSheet fd).cols.zip (row.map fill0Cell)).lookup s).getD (.num 0)
        | none => .num 0), ?_, by simp, ?_⟩
    · simp [reorderCols, fill0, hrow]
      intro a _; cases a <;> rfl
    · intro k s hk
      simp [hk]

/-- **Every subset of the optional sheets may be omitted (geometry 2)**, the constraints
    sheet included (this is what fails on the pinned code, see `Mutants/C19.lean`). -/
def geo2Optional : List String :=
  ["constraints", "sensors sign", "sensors lines", "sensors surfaces", "BG nodes", "BG lines", "BG surfaces"]

theorem C19_optional_geo2 (fd : FileDict) (r : Option (List (List Nat))) (out : Out2)
    (h : checkGeo2 fd r = .ok out) (S : List String) (hS : ∀ k ∈ S, k ∈ geo2Optional) :
    ∃ out', checkGeo2 ⟨fd.names, dropKeys S fd.tbls⟩ r = .ok out' ∧
      out'.names = out.names ∧ out'.pts = out.pts ∧ out'.map = out.map ∧
      out'.cstr = (if S.contains "constraints" then none else out.cstr) ∧
      (S.contains "sensors sign" = false → out'.sign = out.sign) ∧
      out'.lines = (if S.contains "sensors lines" then none else out.lines) ∧
      out'.surf = (if S.contains "sensors surfaces" then none else out.surf) ∧
      out'.bgNodes = (if S.contains "BG nodes" then none else out.bgNodes) ∧
      out'.bgLines = (if S.contains "BG lines" then none else out.bgLines) ∧
      out'.bgSurf = (if S.contains "BG surfaces" then none else out.bgSurf) := by
  obtain ⟨nm, pt, mp, cs0, g⟩ := checkGeo2With_ok h
  have hp := geo2Pre_none_iff.1 g.hpre
  have hnn := geo2Names_none_iff.1 g.hnames
  have n1 : S.contains "points coordinates" = false := by
    cases hc : S.contains "points coordinates" with
    | false => rfl
    | true => have := hS _ (by simpa using hc); simp [geo2Optional] at this
  have n2 : S.contains "mapping" = false := by
    cases hc : S.contains "mapping" with
    | false => rfl
    | true => have := hS _ (by simpa using hc); simp [geo2Optional] at this
  let d' := dropKeys S (dropInfo fd.tbls)
  let cs' : Tbl := (d'.lookup "constraints").getD Tbl.nil
  have hcs' : cs' = if S.contains "constraints" then Tbl.nil else cs0 := by
    show (d'.lookup "constraints").getD Tbl.nil = _
    rw [lookup_dropKeys]
    have := g.hcs; rw [cstrOf_nil] at this
    by_cases hc : S.contains "constraints" = true
    · simp only [hc, if_true]; rfl
    · simp only [hc, Bool.false_eq_true, if_false]; exact Option.some.inj this
  refine ⟨{ names := out.names, pts := noneIfEmpty pt, map := noneIfEmpty (fill0 mp),
            cstr := noneIfEmpty (reorderCols (fill0 cs') out.names),
            sign := noneIfEmpty (signOf d' pt),
            lines := if S.contains "sensors lines" then none else out.lines,
            surf := if S.contains "sensors surfaces" then none else out.surf,
            bgNodes := plainArr d' "BG nodes",
            bgLines := if S.contains "BG lines" then none else out.bgLines,
            bgSurf := if S.contains "BG surfaces" then none else out.bgSurf }, ?_, rfl, g.hpts.symm,
            g.hmap.symm, ?_, ?_, rfl, rfl, ?_, rfl, rfl⟩
  · apply checkGeo2With_of (nm := nm) (pt := pt) (mp := mp) (cs0 := cs')
    refine ⟨g.hnm, ?_, ?_, ?_, g.hflat, ?_, ?_, ?_, ?_, ?_, ?_, ?_, rfl, rfl, rfl, ?_, g.htab⟩
    · show (dropInfo (dropKeys S fd.tbls)).lookup _ = _
      rw [dropInfo_dropKeys, lookup_dropKeys, n1]; exact g.hpt
    · show (dropInfo (dropKeys S fd.tbls)).lookup _ = _
      rw [dropInfo_dropKeys, lookup_dropKeys, n2]; exact g.hmp
    · show geo2Pre (dropInfo (dropKeys S fd.tbls)) pt mp = none
      rw [dropInfo_dropKeys]
      refine geo2Pre_none_iff.2 ⟨any_dropKeys hp.1, hp.2.1, hp.2.2.1, ?_, colsBad_dropKeys hp.2.2.2.2.1,
        colsBad_dropKeys hp.2.2.2.2.2.1, colsBad_dropKeys hp.2.2.2.2.2.2⟩
      have := hp.2.2.2.1
      unfold signBad at this ⊢
      rw [lookup_dropKeys]
      by_cases hc : S.contains "sensors sign" = true
      · simp only [hc, if_true]
      · simp only [hc, Bool.false_eq_true, if_false]; exact this
    · show cstrOf (some Tbl.nil) (dropInfo (dropKeys S fd.tbls)) = some cs'
      rw [dropInfo_dropKeys, cstrOf_nil]
    · show geo2Names out.names (fill0 mp) (fill0 cs') = none
      rw [hcs']
      by_cases hc : S.contains "constraints" = true
      · simp only [hc, if_true]
        exact geo2Names_none_iff.2 ⟨hnn.1, by simp [fill0, Tbl.nil], by simp [fill0, Tbl.nil]⟩
      · simp only [hc, Bool.false_eq_true, if_false]; exact g.hnames
    · show subIdx (dropInfo (dropKeys S fd.tbls)) _ = _
      rw [dropInfo_dropKeys, subIdx_dropKeys, g.hsl]; split <;> rfl
    · show subIdx (dropInfo (dropKeys S fd.tbls)) _ = _
      rw [dropInfo_dropKeys, subIdx_dropKeys, g.hss]; split <;> rfl
    · show subIdx (dropInfo (dropKeys S fd.tbls)) _ = _
      rw [dropInfo_dropKeys, subIdx_dropKeys, g.hbl]; split <;> rfl
    · show subIdx (dropInfo (dropKeys S fd.tbls)) _ = _
      rw [dropInfo_dropKeys, subIdx_dropKeys, g.hbs]; split <;> rfl
    · show plainArr d' _ = plainArr (dropInfo (dropKeys S fd.tbls)) _
      rw [dropInfo_dropKeys]
    · show noneIfEmpty (signOf d' pt) = noneIfEmpty (signOf (dropInfo (dropKeys S fd.tbls)) pt)
      rw [dropInfo_dropKeys]
  · show noneIfEmpty (reorderCols (fill0 cs') out.names) = _
    rw [hcs', g.hcstr]
    by_cases hc : S.contains "constraints" = true
    · simp only [hc, if_true]
      simp [noneIfEmpty, reorderCols, fill0, Tbl.nil, Tbl.empty, Tbl.nrows]
    · simp only [hc, Bool.false_eq_true, if_false]
  · intro hs
    show noneIfEmpty (signOf d' pt) = _
    rw [g.hsign]
    congr 1
    unfold signOf
    rw [lookup_dropKeys, hs]
    rfl
  · show plainArr d' "BG nodes" = _
    rw [plainArr_dropKeys, g.hbn]


/-- A well-formed geometry-2 table set: required sheets present; no unknown sheet; three
    coordinate columns; mapping (and sign) of the shape of the points; background sheets with
    the right number of columns; a valid name form; every sensor name in some mapping cell;
    every constraint column a sensor name; every constraint row named in some mapping cell. -/
def WellFormed2 (fd : FileDict) (r : Option (List (List Nat))) : Prop :=
  ∃ nm pt mp names,
    fd.names = some nm ∧
    (dropInfo fd.tbls).lookup "points coordinates" = some pt ∧
    (dropInfo fd.tbls).lookup "mapping" = some mp ∧
    (∀ p ∈ dropInfo fd.tbls, p.1 ∈ geo2All) ∧
    pt.ncols = 3 ∧ pt.shape = mp.shape ∧ SignOk (dropInfo fd.tbls) pt ∧
    ColsOk (dropInfo fd.tbls) "BG nodes" 3 ∧ ColsOk (dropInfo fd.tbls) "BG lines" 2 ∧
    ColsOk (dropInfo fd.tbls) "BG surfaces" 3 ∧
    flattenNames nm r = .ok names ∧
    (∀ n ∈ names, ∃ s, n = some s ∧ s ∈ mapStrs (fill0 mp)) ∧
    (∀ c ∈ (cstrSheet fd).cols, some c ∈ names) ∧
    (∀ i ∈ (cstrSheet fd).index, i ∈ mapCstrs (fill0 mp) names)

def Domain2 (fd : FileDict) : Prop :=
  (∀ nm, fd.names = some nm → isTable nm = true) ∧
  NumericSheet (dropInfo fd.tbls) "sensors lines" ∧ NumericSheet (dropInfo fd.tbls) "sensors surfaces" ∧
  NumericSheet (dropInfo fd.tbls) "BG lines" ∧ NumericSheet (dropInfo fd.tbls) "BG surfaces"

/-- **Accepted iff well-formed (geometry 2).** -/
theorem C19_accept_iff_geo2 (fd : FileDict) (r : Option (List (List Nat))) (hd : Domain2 fd) :
    (∃ out, checkGeo2 fd r = .ok out) ↔ WellFormed2 fd r := by
  constructor
  · rintro ⟨out, h⟩
    obtain ⟨nm, pt, mp, cs0, g⟩ := checkGeo2With_ok h
    have hcs : cs0 = cstrSheet fd := by
      have := g.hcs; rw [cstrOf_nil] at this; exact (Option.some.inj this).symm
    subst hcs
    have hp := geo2Pre_none_iff.1 g.hpre
    have hnn := geo2Names_none_iff.1 g.hnames
    refine ⟨nm, pt, mp, out.names, g.hnm, g.hpt, g.hmp, ?_, hp.2.1, hp.2.2.1, signBad_false_iff.1 hp.2.2.2.1,
      colsBad_false_iff.1 hp.2.2.2.2.1, colsBad_false_iff.1 hp.2.2.2.2.2.1, colsBad_false_iff.1 hp.2.2.2.2.2.2,
      g.hflat, ?_, ?_, ?_⟩
    · have := hp.1
      simp only [List.any_eq_false, Bool.not_eq_eq_eq_not, Bool.not_true, Bool.not_eq_false] at this
      intro p hp; simpa using this p hp
    · have := hnn.1
      simp only [List.all_eq_true] at this
      exact fun n hn => nameIn_iff.1 (this n hn)
    · have := hnn.2.1
      simp only [List.all_eq_true] at this
      intro c hc; simpa using this c hc
    · have := hnn.2.2
      simp only [List.all_eq_true] at this
      intro i hi; simpa using this i hi
  · rintro ⟨nm, pt, mp, names, hn, hpt, hmp, hall, h3, hsh, hsg, b1, b2, b3, hfl, hmem, hcc, hci⟩
    refine ⟨{ names := names, pts := noneIfEmpty pt, map := noneIfEmpty (fill0 mp),
              cstr := noneIfEmpty (reorderCols (fill0 (cstrSheet fd)) names),
              sign := noneIfEmpty (signOf (dropInfo fd.tbls) pt),
              lines := shifted (dropInfo fd.tbls) "sensors lines",
              surf := shifted (dropInfo fd.tbls) "sensors surfaces",
              bgNodes := plainArr (dropInfo fd.tbls) "BG nodes",
              bgLines := shifted (dropInfo fd.tbls) "BG lines",
              bgSurf := shifted (dropInfo fd.tbls) "BG surfaces" }, ?_⟩
    apply checkGeo2With_of (nm := nm) (pt := pt) (mp := mp) (cs0 := cstrSheet fd)
    refine ⟨hn, hpt, hmp, ?_, hfl, cstrOf_nil _, ?_, ?_, ?_, ?_, ?_, rfl, rfl, rfl, rfl, rfl, hd.1 nm hn⟩
    · refine geo2Pre_none_iff.2 ⟨?_, h3, hsh, signBad_false_iff.2 hsg, colsBad_false_iff.2 b1,
        colsBad_false_iff.2 b2, colsBad_false_iff.2 b3⟩
      simp only [List.any_eq_false, Bool.not_eq_eq_eq_not, Bool.not_true, Bool.not_eq_false]
      intro p hp; simpa using hall p hp
    · refine geo2Names_none_iff.2 ⟨?_, ?_, ?_⟩
      · simp only [List.all_eq_true]
        exact fun n hn => nameIn_iff.2 (hmem n hn)
      · simp only [List.all_eq_true]
        intro c hc; simpa using hcc c hc
      · simp only [List.all_eq_true]
        intro i hi; simpa using hci i hi
    · exact subIdx_ok_iff.2 ⟨rfl, fun t ht _ => hd.2.1 t ht⟩
    · exact subIdx_ok_iff.2 ⟨rfl, fun t ht _ => hd.2.2.1 t ht⟩
    · exact subIdx_ok_iff.2 ⟨rfl, fun t ht _ => hd.2.2.2.1 t ht⟩
    · exact subIdx_ok_iff.2 ⟨rfl, fun t ht _ => hd.2.2.2.2 t ht⟩

/-- **Rejected with `ValueError` iff malformed (geometry 2)** (same domain and the same
    exclusion of the documented `AttributeError`/`IndexError` of a multi-setup name table
    without reference indices as for geometry 1). -/
theorem C19_reject_iff_geo2 (fd : FileDict) (r : Option (List (List Nat))) (hd : Domain2 fd)
    (hfl : ∀ nm, fd.names = some nm →
      flattenNames nm r ≠ .error .attributeError ∧ flattenNames nm r ≠ .error .indexError ∧
      flattenNames nm r ≠ .error .keyError ∧ flattenNames nm r ≠ .error .typeError) :
    (∃ w, checkGeo2 fd r = .error (.valueError w)) ↔ ¬ WellFormed2 fd r := by
  rw [← C19_accept_iff_geo2 fd r hd]
  have key : (∃ out, checkGeo2 fd r = .ok out) ∨ (∃ w, checkGeo2 fd r = .error (.valueError w)) := by
    unfold checkGeo2 checkGeo2With
    simp only
    split
    · rename_i nm pt mp hn hc hdi
      split
      · exact Or.inr ⟨_, rfl⟩
      · split
        · rename_i e he
          have := hfl nm hn
          cases e with
          | valueError w => exact Or.inr ⟨_, rfl⟩
          | keyError => exact absurd he this.2.2.1
          | attributeError => exact absurd he this.1
          | indexError => exact absurd he this.2.1
          | typeError => exact absurd he this.2.2.2
        · split
          · rename_i hk; rw [cstrOf_nil] at hk; cases hk
          · split
            · exact Or.inr ⟨_, rfl⟩
            · split
              · rename_i e he; exact absurd hd.2.1 (subIdx_error_typeError he)
              · split
                · rename_i e he; exact absurd hd.2.2.1 (subIdx_error_typeError he)
                · split
                  · rename_i e he; exact absurd hd.2.2.2.1 (subIdx_error_typeError he)
                  · split
                    · rename_i e he; exact absurd hd.2.2.2.2 (subIdx_error_typeError he)
                    · split
                      · rename_i ht; rw [hd.1 nm hn] at ht; simp at ht
                      · exact Or.inl ⟨_, rfl⟩
    · exact Or.inr ⟨_, rfl⟩
  constructor
  · rintro ⟨w, hw⟩ ⟨out, ho⟩; rw [hw] at ho; cases ho
  · intro hno
    cases key with
    | inl h => exact absurd h hno
    | inr h => exact h

/-! ## mapping a mode shape to the points (`dfphi_map_func`) and the displayed displacement -/

/-- the mapped table is computed cell by cell with one dictionary: the sensors' components
    updated with the constraints' values -/
theorem C19_map_cells (phi : List Rat) (names : List Name) (smap : Tbl) (cstr : Option Tbl)
    (m : List (List (Option Rat))) (h : mapPhi phi names smap cstr = .ok m) :
    names.length = phi.length ∧
    ∃ cons, (cstr = none → cons = []) ∧ (∀ cs, cstr = some cs → cstrVals cs phi = .ok cons) ∧
      m.length = smap.cells.length ∧
      ∀ (i : Nat) (row : List Cell), smap.cells[i]? = some row →
        ∃ mrow, m[i]? = some mrow ∧ mrow.length = row.length ∧
          ∀ (j : Nat) (c : Cell), row[j]? = some c →
            ∃ v, mrow[j]? = some v ∧ mapCell (names.zip phi) cons c = .ok v := by
  unfold mapPhi at h
  split at h
  · cases h
  · rename_i hl
    refine ⟨by simpa using hl, ?_⟩
    simp only at h
    split at h
    · cases h
    · rename_i cons hcons
      refine ⟨cons, ?_, ?_, ?_⟩
      · rintro rfl; simp at hcons; exact hcons
      · rintro cs rfl; simpa using hcons
      · have hm := mapM_ok_get _ _ _ h
        refine ⟨hm.1, ?_⟩
        intro i row hrow
        obtain ⟨mrow, h1, h2⟩ := hm.2 i row hrow
        have hr := mapM_ok_get _ _ _ h2
        exact ⟨mrow, h1, hr.1, hr.2⟩

/-- a number stays what it is — `0` stays `0` — and NaN stays NaN -/
theorem C19_map_zero (sens : List (Name × Rat)) (cons : List (String × Rat)) (q : Rat) :
    mapCell sens cons (.num q) = .ok (some q) ∧ mapCell sens cons (.num 0) = .ok (some 0) ∧
    mapCell sens cons .nan = .ok none := ⟨rfl, rfl, rfl⟩

/-- `dict(zip(keys, values))`: a later pair with the same key replaces an earlier one -/
theorem C19_dict_last {κ β} [BEq κ] [LawfulBEq κ] (l : List (κ × β)) (k k' : κ) (v : β) :
    dictGet (l ++ [(k, v)]) k = some v ∧ (k ≠ k' → dictGet (l ++ [(k', v)]) k = dictGet l k) := by
  unfold dictGet
  constructor
  · simp
  · intro hne
    have : (k == k') = false := by simpa using hne
    simp [List.lookup_cons, this]

/-- **A cell naming a sensor carries that sensor's component**: the names being distinct,
    a cell holding `names[k]` that is not also the name of a constraint is mapped to `phi[k]`. -/
theorem C19_map_sensor (phi : List Rat) (names : List Name) (cons : List (String × Rat))
    (k : Nat) (s : String) (hl : phi.length = names.length) (hn : names.Nodup)
    (hk : names[k]? = some (some s)) (hc : dictGet cons s = none) :
    ∃ v, phi[k]? = some v ∧ mapCell (names.zip phi) cons (.str s) = .ok (some v) := by
  have hlt : k < phi.length := by
    rw [hl]; exact (List.getElem?_eq_some_iff.1 hk).1
  have hd := dictGet_zip names phi k (some s) hl hn hk
  refine ⟨phi[k], List.getElem?_eq_getElem hlt, ?_⟩
  simp only [mapCell, hc, hd, List.getElem?_eq_getElem hlt]

/-- **A cell naming a constraint carries the prescribed linear combination**
    `Σ_k coef[k]·phi[k]` of that constraint's row (NaN coefficients count as 0), the
    constraint names being distinct; it does so even if a sensor has the same name. -/
theorem C19_map_cstr (phi : List Rat) (cs : Tbl) (cons : List (String × Rat)) (sens : List (Name × Rat))
    (i : Nat) (c : String) (row : List Cell)
    (h : cstrVals cs phi = .ok cons) (hwf : cs.cells.length = cs.index.length) (hn : cs.index.Nodup)
    (hi : cs.index[i]? = some c) (hrow : cs.cells[i]? = some row) :
    ∃ nums, row.mapM cellNum0 = .ok nums ∧
      mapCell sens cons (.str c) = .ok (some (dot nums phi)) := by
  unfold cstrVals at h
  split at h
  · cases h
  · split at h
    · cases h
    · rename_i rows hrows
      cases h
      have hm := mapM_ok_get _ _ _ hrows
      obtain ⟨nums, h1, h2⟩ := hm.2 i row hrow
      refine ⟨nums, h2, ?_⟩
      have hd := dictGet_zip cs.index (rows.map fun r => dot r phi) i c (by simp [hm.1, hwf]) hn hi
      simp only [mapCell, hd, List.getElem?_map, h1, Option.map_some]

/-- `to_numpy(na_value=0)`: the numbers of a numeric row with NaN replaced by 0 -/
theorem C19_cellNum0_row (row : List Cell) (nums : List Rat) (h : row.mapM cellNum0 = .ok nums) :
    nums = row.map (fun c => match c with
      | .num q => q
      | _ => 0) := by
  refine ((mapM_ok_iff cellNum0 (fun c => match c with
      | .num q => q
      | _ => 0) (fun c => isStr c = false) ?_ row nums).1 h).1
  intro a b
  cases a <;> simp [cellNum0, isStr, eq_comm]

/-- a string that is neither a constraint nor a sensor cannot be mapped (`ValueError`) -/
theorem C19_map_unknown (sens : List (Name × Rat)) (cons : List (String × Rat)) (s : String)
    (h1 : dictGet cons s = none) (h2 : dictGet sens (some s) = none) :
    mapCell sens cons (.str s) = .error (.valueError .mapUnknown) := by
  simp only [mapCell, h1, h2]

/-- **Displayed displacement**: the point drawn for cell `(i, j)` is the coordinate plus the
    mapped value times the sign of that cell. -/
theorem C19_displace (coord sign : List (List Cell)) (m : List (List (Option Rat))) (i j : Nat)
    (rc rs : List Cell) (rm : List (Option Rat)) (x v g : Rat)
    (h1 : coord[i]? = some rc) (h2 : m[i]? = some rm) (h3 : sign[i]? = some rs)
    (c1 : rc[j]? = some (.num x)) (c2 : rm[j]? = some (some v)) (c3 : rs[j]? = some (.num g)) :
    ∃ row, (displace coord m sign)[i]? = some row ∧ row[j]? = some (some (x + v * g)) := by
  refine ⟨_, zipWith3_get _ coord m sign i rc rm rs h1 h2 h3, ?_⟩
  rw [zipWith3_get displaceCell rc rm rs j _ _ _ c1 c2 c3]
  rfl

/-! ## the documented argument forms of `def_geo1` -/

/-- **All name forms define the same geometry**: whatever the accepted form of `sens_names`
    (list, list of lists, array, multi-row table), `def_geo1` gives what it gives for the
    one-row table of the flattened names; and an `ndarray` of directions (rows in the order
    of `sens_coord`) gives what the frame labelled like `sens_coord` gives. -/
theorem C19_defgeo1_forms (nm : NamesArg) (names : List Name) (coord d : Tbl)
    (lines bgN bgL bgS : Option ArrArg) (r : Option (List (List Nat)))
    (hf : flattenNames nm r = .ok names) (hnt : isTable nm = false) :
    (∀ dir, defGeo1 nm coord dir lines bgN bgL bgS r = defGeo1 (.table [names]) coord dir lines bgN bgL bgS r) ∧
    (d.nrows = coord.nrows →
      defGeo1 nm coord ⟨d, true⟩ lines bgN bgL bgS r =
        defGeo1 nm coord ⟨{ d with index := coord.index }, false⟩ lines bgN bgL bgS r) := by
  have e1 : namesToTable nm r = .ok (.table [names]) := by simp [namesToTable, hnt, hf]
  have e2 : namesToTable (.table [names]) r = .ok (.table [names]) := rfl
  constructor
  · intro dir
    simp only [defGeo1, e1, e2]
  · intro hr
    simp [defGeo1, e1, hr]


/-! ## Non-vacuity: concrete table sets satisfy the hypotheses of the theorems above -/

def n (q : Rat) : Cell := .num q
/-- coordinates and directions with the rows in another order than the names `a, b, c` -/
def exCo : Tbl := ⟨["c", "a", "b"], ["x", "y", "z"], [[n 1, n 2, n 3], [n 4, n 5, n 6], [n (15/2), n 8, .nan]]⟩
def exDi : Tbl := ⟨["c", "a", "b"], ["x", "y", "z"], [[n 1, n 0, n 0], [n 0, n 1, n 0], [n 0, n 0, n (-1)]]⟩
def exLines : Tbl := ⟨["1", "2"], ["start", "end"], [[n 1, n 2], [n 2, n 3]]⟩
def exNodes : Tbl := ⟨["1", "2"], ["x", "y", "z"], [[n 0, n 0, n 0], [n 1, n 1, n (3/2)]]⟩
def exFd1 : FileDict := ⟨some (.table [[some "a", some "b", some "c"]]),
  [("INFO", Tbl.nil), ("sensors coordinates", exCo), ("sensors directions", exDi), ("sensors lines", exLines),
   ("BG nodes", exNodes), ("BG surfaces", Tbl.nil)]⟩
def exOut1 : Out1 :=
  { names := [some "a", some "b", some "c"], coordCols := ["x", "y", "z"],
    coord := [[n 4, n 5, n 6], [n (15/2), n 8, .nan], [n 1, n 2, n 3]],
    dir := [[n 0, n 1, n 0], [n 0, n 0, n (-1)], [n 1, n 0, n 0]],
    lines := some [[n 0, n 1], [n 1, n 2]], bgNodes := some exNodes.cells, bgLines := none, bgSurf := none }
/-- accepted, re-ordered, zero-based (hypothesis of `C19_align_geo1`, `C19_zero_based_geo1`, `C19_optional_geo1`) -/
example : checkGeo1 exFd1 none = .ok exOut1 := by decide +kernel
example : ∀ k ∈ ["sensors lines", "BG nodes"], k ∈ geo1Optional := by decide
example : checkGeo1 ⟨exFd1.names, dropKeys ["sensors lines", "BG nodes"] exFd1.tbls⟩ none =
    .ok { exOut1 with lines := none, bgNodes := none } := by decide +kernel
/-- hypotheses of `C19_reindex_row` / `C19_reindex_perm`: rectangular, labels distinct, names present, rows permuted -/
def exCo' : Tbl := ⟨["a", "c", "b"], ["x", "y", "z"], [[n 4, n 5, n 6], [n 1, n 2, n 3], [n (15/2), n 8, .nan]]⟩
example : exCo.cells.length = exCo.index.length ∧ exCo.index.Nodup ∧ exCo.cols = exCo'.cols ∧
    (∀ x ∈ [some "a", some "b", some "c"], nameIn exCo.index x = true) := by decide
example : (exCo.index.zip exCo.cells).Perm (exCo'.index.zip exCo'.cells) := List.Perm.swap _ _ _
example : reindexRows exCo [some "a", some "b", some "c"] = .ok exOut1.coord := by decide +kernel
/-- … and the permuted table set of `C19_align_perm_geo1` is accepted with the same geometry -/
def exDi' : Tbl := ⟨["a", "c", "b"], ["x", "y", "z"], [[n 0, n 1, n 0], [n 1, n 0, n 0], [n 0, n 0, n (-1)]]⟩
example : checkGeo1 ⟨exFd1.names, [("sensors coordinates", exCo'), ("sensors directions", exDi')]⟩ none =
    .ok { exOut1 with lines := none, bgNodes := none } := by decide +kernel
example : (exDi.index.zip exDi.cells).Perm (exDi'.index.zip exDi'.cells) := List.Perm.swap _ _ _
/-- the domain and well-formedness predicates are inhabited (`C19_accept_iff_geo1`, `C19_reject_iff_geo1`) -/
example : Domain1 exFd1 :=
  ⟨fun nm h => by cases h; rfl, numericSheet_of_b (by decide +kernel), numericSheet_of_b (by decide +kernel),
    numericSheet_of_b (by decide +kernel)⟩
/-- a malformed set (directions labelled differently) is a `ValueError` -/
example : checkGeo1 ⟨exFd1.names, [("sensors coordinates", exCo), ("sensors directions", { exDi with index := ["c", "a", "d"] })]⟩ none
    = .error (.valueError .indexMismatch) := by decide +kernel
/-- multi-setup names (hypothesis of `C19_flatten_multi`, `C19_flatten_table_eq_lists`) -/
example : flattenNames (.listList [["r", "p"], ["q", "r2", "s"]]) (some [[0], [1]]) =
    .ok [some "REF1", some "p", some "q", some "s"] := by decide +kernel
example : flattenNames (.table [[some "r", some "p", none], [some "q", some "r2", some "s"]]) (some [[0], [1]]) =
    .ok [some "REF1", some "p", some "q", some "s"] := by decide +kernel

/-- a geometry-2 table set with a constraint `K` (given over the columns `b, a` only) -/
def exPts : Tbl := ⟨["1", "2"], ["x", "y", "z"], [[n 1, n 2, n 3], [n 4, n 5, n 6]]⟩
def exMap : Tbl := ⟨["1", "2"], ["x", "y", "z"], [[.str "a", .str "b", n 0], [.str "c", .str "K", .nan]]⟩
def exCs : Tbl := ⟨["K"], ["b", "a"], [[n (1/2), .nan]]⟩
def exSign : Tbl := ⟨["1", "2"], ["x", "y", "z"], [[n 1, n (-1), n 0], [n 1, n 1, n 0]]⟩
def exFd2 : FileDict := ⟨some (.table [[some "a", some "b", some "c"]]),
  [("points coordinates", exPts), ("mapping", exMap), ("constraints", exCs), ("sensors sign", exSign),
   ("sensors surfaces", ⟨["1"], ["i", "j", "k"], [[n 1, n 2, n 2]]⟩)]⟩
def exOut2 : Out2 :=
  { names := [some "a", some "b", some "c"], pts := some exPts,
    map := some { exMap with cells := [[.str "a", .str "b", n 0], [.str "c", .str "K", n 0]] },
    cstr := some ⟨["K"], ["a", "b", "c"], [[n 0, n (1/2), n 0]]⟩, sign := some exSign,
    lines := none, surf := some [[n 0, n 1, n 1]], bgNodes := none, bgLines := none, bgSurf := none }
example : checkGeo2 exFd2 none = .ok exOut2 := by decide +kernel
/-- … still accepted without the optional `constraints` and `sensors sign` sheets when the
    mapping names no constraint (`C19_optional_geo2`) -/
def exFd2b : FileDict := ⟨exFd2.names, [("points coordinates", exPts),
  ("mapping", { exMap with cells := [[.str "a", .str "b", n 0], [.str "c", n 0, .nan]] }), ("constraints", Tbl.nil)]⟩
example : (∃ o, checkGeo2 exFd2b none = .ok o) ∧
    (∃ o, checkGeo2 ⟨exFd2b.names, dropKeys ["constraints"] exFd2b.tbls⟩ none = .ok o) :=
  ⟨isOk_iff.1 (by decide +kernel), isOk_iff.1 (by decide +kernel)⟩
/-- mapping the shape `(1, 2, 3)`: sensors' components, `K = ½·φ_b = 1`, zeros; displayed point -/
example : mapPhi [1, 2, 3] exOut2.names { exMap with cells := [[.str "a", .str "b", n 0], [.str "c", .str "K", n 0]] }
    exOut2.cstr = .ok [[some 1, some 2, some 0], [some 3, some 1, some 0]] := by decide +kernel
example : displace exPts.cells [[some 1, some 2, some 0], [some 3, some 1, some 0]] exSign.cells =
    [[some 2, some 0, some 3], [some 7, some 6, some 6]] := by decide +kernel
/-- documented argument forms of `def_geo1` (list of names, ndarray of directions) -/
example : defGeo1 (.list ["a", "b", "c"]) exCo ⟨{ exDi with index := ["0", "1", "2"] }, true⟩
    (some ⟨exLines, true⟩) none none none none = .ok { exOut1 with bgNodes := none } := by decide +kernel

end PV.C19
