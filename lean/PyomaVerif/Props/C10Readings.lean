import PyomaVerif.Props.C10
/-!
# C10 — the two readings of "order" for the pLSCF label table (depth round 2: `C10_plscf_two_readings`)

`pLSCF.run` calls `SC_apply(Fn, Xi, Phi, ordmin, ordmax − 1, 1, …)` on tables with `ordmax` columns, column
`n − 1` holding polynomial order `n`: `ordmin` is handed over as a COLUMN index.

* reading A (column index; the library's own convention in its stabilisation chart and in `mpe`, documented
  in ASSUMPTIONS, the reading the verdict of `harness/c10.py` uses): the pole `(i, order n)` is stable iff its
  column `n − 1` lies in `[ordmin, ordmax − 1]`, is not the first column, and the soft criteria hold;
* reading B (polynomial order `n` = column + 1, the wording of the statement applied to pLSCF orders
  `1..ordmax`): stable iff `n ∈ [ordmin, ordmax]`, `n` is not the first order (`n ≥ 2`), and the criteria hold.

`C10_plscf_two_readings`: the label table is reading A; the two readings differ on the cell `(i, order n)`
exactly when `n = ordmin`, `ordmin ≥ 2` and the pole passes the soft criteria — then the code's label is 0 and
reading B says 1.  The oracle counts these cells (`plscf_two_readings_cells_differ`, information only).
-/
namespace PV.C10
open PV

variable (Fn Xi : Mat NR) (Phi : Ten3 (Option CQ)) (ordmin ordmax : Nat) (eF eX eP : Rat)

/-- reading A: column index `n − 1` in `[ordmin, ordmax − 1]`, not the first column -/
def plscfColumnReading (i n : Nat) : Prop :=
  1 ≤ n - 1 ∧ ordmin ≤ n - 1 ∧ n - 1 ≤ ordmax - 1 ∧ StableAgainstPrev Fn Xi Phi eF eX eP (n - 1) i

/-- reading B: polynomial order `n` in `[ordmin, ordmax]`, not the first order -/
def plscfOrderReading (i n : Nat) : Prop :=
  2 ≤ n ∧ ordmin ≤ n ∧ n ≤ ordmax ∧ StableAgainstPrev Fn Xi Phi eF eX eP (n - 1) i

/-- **the two readings of "order" for pLSCF, cell by cell.**  For the label table `pLSCF.run` stores
    (`hc`: `ordmax` columns) and every pole slot `i` and polynomial order `1 ≤ n ≤ ordmax`:
    (1) the label is reading A; (2) the readings agree on the cell unless `n = ordmin ≥ 2` and the pole passes
    the soft criteria against order `n − 1`; (3) on those cells the stored label is `0`, reading B gives stable. -/
theorem C10_plscf_two_readings (hc : Fn.c = ordmax) (hpos : 1 ≤ ordmax) {Lab : Mat Nat}
    (h : scApply Fn Xi Phi ordmin (ordmax - 1) 1 eF eX eP = .ok Lab)
    (i n : Nat) (hi : i < Fn.r) (h1 : 1 ≤ n) (hn : n ≤ ordmax) :
    (Lab.e i (n - 1) = 1 ↔ plscfColumnReading Fn Xi Phi ordmin ordmax eF eX eP i n)
    ∧ ((plscfColumnReading Fn Xi Phi ordmin ordmax eF eX eP i n
          ↔ plscfOrderReading Fn Xi Phi ordmin ordmax eF eX eP i n)
        ↔ ¬ (n = ordmin ∧ 2 ≤ ordmin ∧ StableAgainstPrev Fn Xi Phi eF eX eP (n - 1) i))
    ∧ ((n = ordmin ∧ 2 ≤ ordmin ∧ StableAgainstPrev Fn Xi Phi eF eX eP (n - 1) i) →
        Lab.e i (n - 1) = 0 ∧ plscfOrderReading Fn Xi Phi ordmin ordmax eF eX eP i n) := by
  obtain ⟨Lab', hL, hlab⟩ := C10_plscf_shift Fn Xi Phi ordmin ordmax eF eX eP hc hpos
  rw [h] at hL
  cases hL
  have hA : Lab.e i (n - 1) = 1 ↔ plscfColumnReading Fn Xi Phi ordmin ordmax eF eX eP i n := by
    rw [hlab i n hi h1 hn]
    unfold plscfColumnReading
    constructor
    · rintro ⟨a, b, c⟩; exact ⟨by omega, by omega, by omega, c⟩
    · rintro ⟨a, b, _, c⟩; exact ⟨by omega, by omega, c⟩
  refine ⟨hA, ?_, ?_⟩
  · unfold plscfColumnReading plscfOrderReading
    by_cases hS : StableAgainstPrev Fn Xi Phi eF eX eP (n - 1) i
    · constructor
      · intro hiff ⟨hn', h2, _⟩
        have hB : 2 ≤ n ∧ ordmin ≤ n ∧ n ≤ ordmax ∧ StableAgainstPrev Fn Xi Phi eF eX eP (n - 1) i :=
          ⟨by omega, by omega, hn, hS⟩
        obtain ⟨_, hb, _, _⟩ := hiff.mpr hB
        omega
      · intro hne
        constructor
        · rintro ⟨a, b, _, c⟩; exact ⟨by omega, by omega, hn, c⟩
        · rintro ⟨a, b, _, c⟩
          refine ⟨by omega, ?_, by omega, c⟩
          by_contra hlt
          exact hne ⟨by omega, by omega, hS⟩
    · constructor
      · intro _ ⟨_, _, hS'⟩; exact hS hS'
      · intro _
        constructor
        · rintro ⟨_, _, _, c⟩; exact absurd c hS
        · rintro ⟨_, _, _, c⟩; exact absurd c hS
  · rintro ⟨hn', h2, hS⟩
    constructor
    · rcases C10_label_01 Fn Xi Phi ordmin (ordmax - 1) 1 eF eX eP h i (n - 1) with h0 | h1'
      · exact h0
      · exfalso
        obtain ⟨_, hb, _, _⟩ := hA.mp h1'
        omega
    · exact ⟨by omega, by omega, hn, hS⟩

/-! ### Non-vacuity: the 2 × 3 table of `Props/C10.lean` read as a pLSCF table (`ordmax = 3` columns = orders
1..3) with `ordmin = 2`: the pole `(0, order 2)` passes the criteria, lies in `[ordmin, ordmax]`, is not the
first order — and is labelled 0 by the call `SC_apply(.., 2, 2, 1, ..)`. -/
def exLabP (i o : Nat) : Nat :=
  match scApply exFn exXi exPhi 2 (3 - 1) 1 (1 / 100) (1 / 20) (1 / 50) with
  | .ok L => L.e i o
  | .error _ => 7
example : exLabP 0 1 = 0 ∧ exLabP 0 2 = 1 := by decide +kernel
example : plscfOrderReading exFn exXi exPhi 2 3 (1 / 100) (1 / 20) (1 / 50) 0 2 :=
  ⟨le_refl _, le_refl _, by decide, (scCell_eq_one _ _ _ _ _ _ _ _).mp (by decide +kernel)⟩
example : ∃ Lab, scApply exFn exXi exPhi 2 (3 - 1) 1 (1 / 100) (1 / 20) (1 / 50) = .ok Lab := by
  cases h : scApply exFn exXi exPhi 2 (3 - 1) 1 (1 / 100) (1 / 20) (1 / 50) with
  | ok L => exact ⟨L, rfl⟩
  | error e =>
    have : (scApply exFn exXi exPhi 2 (3 - 1) 1 (1 / 100) (1 / 20) (1 / 50)).isOk = true := by decide +kernel
    rw [h] at this; cases this

end PV.C10
