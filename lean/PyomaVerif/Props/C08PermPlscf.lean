import PyomaVerif.Lemmas.PlscfPerm
import PyomaVerif.Props.C08Pipe
import PyomaVerif.Props.C05
import Mathlib.Tactic.LinearCombination
import Mathlib.Tactic.IntervalCases
/-!
# C08 — pLSCF under a permutation of the channels

"… covariant under a permutation of the channels": the channels are listed in the order
`σ 0, σ 1, …`, so the spectral array the algorithm reads is `Sy'[o, c, f] = Sy[ρ o, σ c, f]`
(`C08_perm_sd`: rows and columns of `SD_est` move with the channels).  `σ` permutes the `Nch` columns,
`ρ` the `Nref` rows; for the square single-setup array `P·Sy·Pᵀ` take `Nref = Nch`, `ρ = σ`
(`C08_perm_plscf_square`); with reference channels `ρ` is the permutation induced on them.

Over the executable model of `functions/plscf.py` (`Plscf.plscfOrder`, `rmfd2ac`, `ac2mpPoly`), with
`π = blkPerm Nch σ` the index map of the block-diagonal `I ⊗ P`:

* `C08_perm_plscf_normal` — the regressor and the blocks of the normal equations: `So' = So·(I⊗P)ᵀ`,
  `To' = (I⊗P)·To·(I⊗P)ᵀ` for the row `ρ o`, and `M' = (I⊗P)·M·(I⊗P)ᵀ` (the sum over `o` re-indexed).
* `C08_perm_plscf_cert` — certificate transport (`OrderCert`), as `C08_gain_plscf_cert`.
* `C08_perm_plscf_order` — two runs of one order: `A_k' = P·A_k·Pᵀ`, `B_k'[o] = B_k[ρ o]·Pᵀ`.
* `C08_perm_plscf_rmfd` — every exact record of the solves of `rmfd2ac` is transported; the state
  matrix is conjugated by `I⊗P`, the output matrix has rows permuted by `ρ`, columns by `I⊗P`.
* `C08_perm_plscf_column` — eigen-record transport (`(λ, q) ↦ (λ, (I⊗P)·q)`) and the column of
  `ac2mp_poly`: same `fn`, `xi`, poles and NaN pattern, every shape permuted by `ρ`.
* `C08_perm_plscf` — the composition for two runs of the model, from the spectra to the column.
-/
namespace PV.C08
open PV PV.Mat PV.Cov PV.Plscf Finset

section perm_plscf
variable {K : Type} [Field K] [LinearOrder K] [Inhabited K]

omit [LinearOrder K] [Inhabited K] in
/-- **Permutation, normal equations.**  `Yo = -kron(Xo, Sy[o])` of the permuted array is the
    regressor of row `ρ o` with its columns moved by `I⊗P`; hence `So`, `To` and — the sum over the
    output rows re-indexed by `ρ`, the inner solves re-indexed — `M' = (I⊗P)·M·(I⊗P)ᵀ`. -/
theorem C08_perm_plscf_normal (Nch Nref Nf n : Nat) (hN : 0 < Nch) {σ τ ρ ρi : Nat → Nat}
    (hσ : PermOn Nch σ τ) (hρ : PermOn Nref ρ ρi) (Om : Nat → Plscf.Cx K)
    (Sy : Nat → Nat → Nat → Plscf.Cx K) :
    (∀ o f J, Yo Nch Om (permSy ρ σ Sy o) f J = Yo Nch Om (Sy (ρ o)) f (blkPerm Nch σ J)) ∧
    (∀ o i J, So Nch Nf Om (permSy ρ σ Sy o) i J = So Nch Nf Om (Sy (ρ o)) i (blkPerm Nch σ J)) ∧
    (∀ o I J, To Nch Nf Om (permSy ρ σ Sy o) I J
      = To Nch Nf Om (Sy (ρ o)) (blkPerm Nch σ I) (blkPerm Nch σ J)) ∧
    (∀ (X : Nat → Nat → Nat → K) I J,
      Mmat Nch Nref Nf n Om (permSy ρ σ Sy) (fun o t J => X (ρ o) t (blkPerm Nch σ J)) I J
        = Mmat Nch Nref Nf n Om Sy X (blkPerm Nch σ I) (blkPerm Nch σ J)) ∧
    ∀ p, PermOn (p * Nch) (blkPerm Nch σ) (blkPerm Nch τ) :=
  ⟨fun o f J => Yo_perm hN hσ.lt Om (Sy (ρ o)) f J,
   fun o i J => So_perm hN hσ.lt Nf Om (Sy (ρ o)) i J,
   fun o I J => To_perm hN hσ.lt Nf Om (Sy (ρ o)) I J,
   fun X I J => Mmat_perm hN hσ hρ Nf n Om Sy X I J,
   fun p => blkPerm_permOn hN hσ p⟩

omit [LinearOrder K] [Inhabited K] in
/-- **Permutation, normal equations (certificate transport).**  What a returned order of the model of
    `pLSCF` certifies for `Sy` (exact inner solves `X`, accumulated `M`, constrained solve `Z`,
    `alpha`, `beta`), it certifies for the permuted array with `X`, `Z` re-indexed,
    `M' = (I⊗P)·M·(I⊗P)ᵀ`, `alpha'` built from the re-indexed `Z` and the identity block exactly as
    the code builds it, `beta'[o, t, c] = beta[ρ o, t, σ c]`; and on the array
    `alpha'[I, c] = alpha[(I⊗P) I, σ c]`, i.e. every denominator coefficient is `P·A_k·Pᵀ`. -/
theorem C08_perm_plscf_cert (Nch Nref Nf n : Nat) (hi : Bool) (Om : Nat → Plscf.Cx K)
    (Sy : Nat → Nat → Nat → Plscf.Cx K) (out : OrderOut K) (X : Nat → Nat → Nat → K) (Z : Nat → Nat → K)
    (h : OrderCert Nch Nref Nf n hi Om Sy out X Z) (hN : 0 < Nch) {σ τ ρ ρi : Nat → Nat}
    (hσ : PermOn Nch σ τ) (hρ : PermOn Nref ρ ρi) :
    OrderCert Nch Nref Nf n hi Om (permSy ρ σ Sy) (permOut Nch n hi ρ σ out Z)
      (fun o t J => X (ρ o) t (blkPerm Nch σ J)) (permZ Nch σ Z) ∧
    (∀ k, k < n + 1 → ∀ a, a < Nch → ∀ b, b < Nch →
      (adOf Nch n (permOut Nch n hi ρ σ out Z).alpha).blk k a b = (adOf Nch n out.alpha).blk k (σ a) (σ b)) ∧
    (∀ k o c, (bnOf Nch Nref n (permOut Nch n hi ρ σ out Z).beta).blk k o c
      = (bnOf Nch Nref n out.beta).blk k (ρ o) (σ c)) := by
  obtain ⟨h1, h2⟩ := PV.Cov.OrderCert.perm h hN hσ hρ
  refine ⟨h1, ?_, fun _ _ _ => rfl⟩
  intro k hk a ha b hb
  show (permOut Nch n hi ρ σ out Z).alpha (k * Nch + a) b = out.alpha (k * Nch + σ a) (σ b)
  rw [h2 _ (Plscf.blk_lt hk ha) b hb, blkPerm_add_mul hN, blkPerm_low a ha]

/-- **Permutation, one order of `pLSCF` (two runs of the model).**  If the model returns for `Sy` and
    for the permuted array and — C05's uniqueness hypotheses, on the first run only — `Ro` and the
    constrained block of `M` are injective, then on the index ranges of the arrays
    `M' = (I⊗P)·M·(I⊗P)ᵀ`, `alpha'[I, c] = alpha[(I⊗P) I, σ c]` (every `A_k' = P·A_k·Pᵀ`),
    `beta'[o, t, c] = beta[ρ o, t, σ c]`. -/
theorem C08_perm_plscf_order (Nch Nref Nf n : Nat) (hi : Bool) (Om : Nat → Plscf.Cx K)
    (Sy : Nat → Nat → Nat → Plscf.Cx K) (hN : 0 < Nch) {σ τ ρ ρi : Nat → Nat}
    (hσ : PermOn Nch σ τ) (hρ : PermOn Nref ρ ρi) (out out' : OrderOut K)
    (h : plscfOrder Nch Nref Nf n hi Om Sy = some out)
    (h' : plscfOrder Nch Nref Nf n hi Om (permSy ρ σ Sy) = some out')
    (hRinj : ∀ y : Nat → K,
      (∀ i < n + 1, ∑ t ∈ range (n + 1), Ro Nf Om i t * y t = 0) → ∀ t < n + 1, y t = 0)
    (hinj : ∀ y : Nat → K,
      (∀ I < n * Nch, ∑ J ∈ range (n * Nch),
        (if hi then out.M I J else out.M (Nch + I) (Nch + J)) * y J = 0) → ∀ J < n * Nch, y J = 0) :
    (∀ I, I < (n + 1) * Nch → ∀ J, J < (n + 1) * Nch →
      out'.M I J = out.M (blkPerm Nch σ I) (blkPerm Nch σ J)) ∧
    (∀ I, I < (n + 1) * Nch → ∀ c, c < Nch → out'.alpha I c = out.alpha (blkPerm Nch σ I) (σ c)) ∧
    (∀ o, o < Nref → ∀ t, t < n + 1 → ∀ c, c < Nch → out'.beta o t c = out.beta (ρ o) t (σ c)) := by
  obtain ⟨X, Z, cert⟩ := plscfOrder_sound Nch Nref Nf n hi Om Sy out h
  obtain ⟨X', Z', cert'⟩ := plscfOrder_sound Nch Nref Nf n hi Om _ out' h'
  obtain ⟨certp, hα⟩ := PV.Cov.OrderCert.perm cert hN hσ hρ
  have hπ := blkPerm_permOn hN hσ n
  have hinj' : ∀ y : Nat → K,
      (∀ I < n * Nch, ∑ J ∈ range (n * Nch),
        (if hi then (permOut Nch n hi ρ σ out Z).M I J
          else (permOut Nch n hi ρ σ out Z).M (Nch + I) (Nch + J)) * y J = 0) → ∀ J < n * Nch, y J = 0 := by
    have := inj_perm hπ (fun I J => if hi then out.M I J else out.M (Nch + I) (Nch + J)) hinj
    intro y hy
    apply this y
    intro I hI
    rw [← hy I hI]
    apply Finset.sum_congr rfl
    intro J _
    cases hi
    · simp only [Bool.false_eq_true, if_false, permOut, blkPerm_add_one hN]
    · simp only [if_true, permOut]
  obtain ⟨hM, hA, hB⟩ := cert_unique certp cert' hRinj hinj'
  refine ⟨fun I hI J hJ => hM I hI J hJ, ?_, fun o ho t ht c hc => hB o ho t ht c hc⟩
  intro I hI c hc
  rw [hA I hI c hc, hα I hI c hc]

omit [LinearOrder K] [Inhabited K] in
/-- **Permutation, `rmfd2ac` (record transport).**  Coefficients related as in
    `C08_perm_plscf_order`.  For every exact record `P` of the solves `np.linalg.solve(Ad_last, Adi)`
    of the original run, the conjugated record `P·P_k·Pᵀ` is an exact record for the permuted
    coefficients; with it the state matrix is `(I⊗P)·A·(I⊗P)ᵀ` and the output matrix is `C` with its
    rows permuted by `ρ` and its columns by `I⊗P`. -/
theorem C08_perm_plscf_rmfd (Nch Nref n : Nat) (hN : 0 < Nch) {σ τ : Nat → Nat} (ρ : Nat → Nat)
    (hσ : PermOn Nch σ τ) (α α' : Nat → Nat → K) (β β' : Nat → Nat → Nat → K)
    (hα : ∀ I, I < (n + 1) * Nch → ∀ c, c < Nch → α' I c = α (blkPerm Nch σ I) (σ c))
    (hβ : ∀ o, o < Nref → ∀ t, t < n + 1 → ∀ c, c < Nch → β' o t c = β (ρ o) t (σ c))
    (P : Nat → Nat → Nat → K) (A C : Mat K) (h : RmfdCert Nch Nref n α β P A C) :
    ∃ A' C', RmfdCert Nch Nref n α' β' (permP σ P) A' C' ∧
      A'.r = (n + 1) * Nch ∧ A'.c = (n + 1) * Nch ∧ C'.r = Nref ∧ C'.c = (n + 1) * Nch ∧
      (∀ i, i < (n + 1) * Nch → ∀ j, j < (n + 1) * Nch →
        A'.e i j = A.e (blkPerm Nch σ i) (blkPerm Nch σ j)) ∧
      (∀ o, o < Nref → ∀ j, j < (n + 1) * Nch → C'.e o j = C.e (ρ o) (blkPerm Nch σ j)) := by
  obtain ⟨h1, h2, h3⟩ := h.perm hN ρ hσ hα hβ
  exact ⟨_, _, h1, rfl, rfl, rfl, rfl, h2, h3⟩

omit [Inhabited K] in
/-- **Permutation, eigen-record and `ac2mp_poly`.**  `A' = (I⊗P)·A·(I⊗P)ᵀ` and
    `C'[o, j] = C[ρ o, (I⊗P) j]` on the arrays.  Every recorded eigenpair `(λ, q)` of `A` gives the
    eigenpair `(λ, (I⊗P)·q)` of `A'` — the same companion eigenvalues; and for the transported
    records the column `ac2mp_poly` produces has the same `fn`, `xi`, `lam` and NaN pattern, and every
    shape is the shape of the original run permuted by `ρ`.
    Hypothesis beyond the property's premise: in every kept column the component of largest magnitude of
    `C·q` is attained once (with a tie `np.argmax` picks the first of the tied components in either order
    and the two normalisations differ by the unimodular ratio of the tied components). -/
theorem C08_perm_plscf_column {l d : Nat} (hl : 0 < l) {ρ ρi π πi : Nat → Nat} (hρ : PermOn l ρ ρi)
    (hπ : PermOn d π πi) (A A' C C' : Mat K) (hr : C.r = l) (hr' : C'.r = l) (hc : C.c = d) (hc' : C'.c = d)
    (hA : ∀ i, i < d → ∀ j, j < d → A'.e i j = A.e (π i) (π j))
    (hC : ∀ o, o < l → ∀ j, j < d → C'.e o j = C.e (ρ o) (π j)) :
    (∀ e : EigIn K, EigPair d A.e e → EigPair d A'.e (permEig π d e)) ∧
    ∀ (sqrt : K → K) (twoPi invdt : K) (cor : Bool) (invTau : K) (eigs : List (EigIn K)),
      (∀ e ∈ eigs, blanked (lambdOf invdt e) = false → ∀ i, i < l → i ≠ argmaxAbs (phiRaw C e.q) →
        Plscf.Cx.normSq ((phiRaw C e.q).getD i ⟨0, 0⟩)
          < Plscf.Cx.normSq ((phiRaw C e.q).getD (argmaxAbs (phiRaw C e.q)) ⟨0, 0⟩)) →
      ac2mpPoly sqrt twoPi invdt cor invTau C' (eigs.map (permEig π d))
        = permColumn ρ l (ac2mpPoly sqrt twoPi invdt cor invTau C eigs) :=
  ⟨fun _ he => he.perm hπ hA,
   fun sqrt twoPi invdt cor invTau eigs hu =>
     ac2mpPoly_perm hl hρ hπ C C' hr hr' hc hc' hC sqrt twoPi invdt cor invTau eigs hu⟩

/-- **C08_perm_plscf — from the spectra to the pole-table column of one order, two runs.**  The model
    of `pLSCF` returns `out` for `Sy` and `out'` for the permuted array, `rmfd2ac` returns `(A, C)` and
    `(A', C')` for their coefficients; C05's injectivity hypotheses hold for the first run (`Ro`, the
    constrained block of `M`) and its leading denominator coefficient `A_n` is injective (automatic for the
    `HI` constraint: `alphaHI_last_inj`).  Then
    * every denominator coefficient is conjugated, `A_k' = P·A_k·Pᵀ`, every numerator coefficient is
      `B_k'[o] = B_k[ρ o]·Pᵀ`;
    * the state matrix is conjugated by the block-diagonal `I⊗P`, the output matrix has rows permuted by
      `ρ`, columns by `I⊗P`;
    * every recorded eigenpair `(λ, q)` of `A` gives the eigenpair `(λ, (I⊗P)·q)` of `A'`;
    * with the transported records the column of `ac2mp_poly` has the same `fn`, `xi`, poles and NaN
      pattern and every mode shape permuted by `ρ` (largest component of `C·q` attained once). -/
theorem C08_perm_plscf (Nch Nref Nf n : Nat) (hi : Bool) (Om : Nat → Plscf.Cx K)
    (Sy : Nat → Nat → Nat → Plscf.Cx K) (hN : 0 < Nch) (hR : 0 < Nref) {σ τ ρ ρi : Nat → Nat}
    (hσ : PermOn Nch σ τ) (hρ : PermOn Nref ρ ρi) (out out' : OrderOut K)
    (h : plscfOrder Nch Nref Nf n hi Om Sy = some out)
    (h' : plscfOrder Nch Nref Nf n hi Om (permSy ρ σ Sy) = some out')
    (hRinj : ∀ y : Nat → K,
      (∀ i < n + 1, ∑ t ∈ range (n + 1), Ro Nf Om i t * y t = 0) → ∀ t < n + 1, y t = 0)
    (hinj : ∀ y : Nat → K,
      (∀ I < n * Nch, ∑ J ∈ range (n * Nch),
        (if hi then out.M I J else out.M (Nch + I) (Nch + J)) * y J = 0) → ∀ J < n * Nch, y J = 0)
    (hAinj : ∀ y : Nat → K,
      (∀ a < Nch, ∑ t ∈ range Nch, out.alpha (n * Nch + a) t * y t = 0) → ∀ t < Nch, y t = 0)
    (A C A' C' : Mat K)
    (hac : rmfd2ac (adOf Nch n out.alpha) (bnOf Nch Nref n out.beta) = some (A, C))
    (hac' : rmfd2ac (adOf Nch n out'.alpha) (bnOf Nch Nref n out'.beta) = some (A', C')) :
    (∀ k, k < n + 1 → ∀ a, a < Nch → ∀ b, b < Nch →
      (adOf Nch n out'.alpha).blk k a b = (adOf Nch n out.alpha).blk k (σ a) (σ b)) ∧
    (∀ k, k < n + 1 → ∀ o, o < Nref → ∀ c, c < Nch →
      (bnOf Nch Nref n out'.beta).blk k o c = (bnOf Nch Nref n out.beta).blk k (ρ o) (σ c)) ∧
    (∀ i, i < (n + 1) * Nch → ∀ j, j < (n + 1) * Nch →
      A'.e i j = A.e (blkPerm Nch σ i) (blkPerm Nch σ j)) ∧
    (∀ o, o < Nref → ∀ j, j < (n + 1) * Nch → C'.e o j = C.e (ρ o) (blkPerm Nch σ j)) ∧
    (∀ e : EigIn K, EigPair ((n + 1) * Nch) A.e e →
      EigPair ((n + 1) * Nch) A'.e (permEig (blkPerm Nch σ) ((n + 1) * Nch) e)) ∧
    ∀ (sqrt : K → K) (twoPi invdt : K) (cor : Bool) (invTau : K) (eigs : List (EigIn K)),
      (∀ e ∈ eigs, blanked (lambdOf invdt e) = false → ∀ i, i < Nref → i ≠ argmaxAbs (phiRaw C e.q) →
        Plscf.Cx.normSq ((phiRaw C e.q).getD i ⟨0, 0⟩)
          < Plscf.Cx.normSq ((phiRaw C e.q).getD (argmaxAbs (phiRaw C e.q)) ⟨0, 0⟩)) →
      ac2mpPoly sqrt twoPi invdt cor invTau C' (eigs.map (permEig (blkPerm Nch σ) ((n + 1) * Nch)))
        = permColumn ρ Nref (ac2mpPoly sqrt twoPi invdt cor invTau C eigs) := by
  obtain ⟨_, hα, hβ⟩ := C08_perm_plscf_order Nch Nref Nf n hi Om Sy hN hσ hρ out out' h h' hRinj hinj
  obtain ⟨P, cert⟩ := rmfd2ac_cert Nch Nref n out.alpha out.beta A C hac
  obtain ⟨P', cert'⟩ := rmfd2ac_cert Nch Nref n out'.alpha out'.beta A' C' hac'
  obtain ⟨certp, hAe, hCe⟩ := cert.perm hN ρ hσ hα hβ
  -- the leading coefficient of the second run is injective as well
  have hAinj' : ∀ y : Nat → K,
      (∀ a < Nch, ∑ t ∈ range Nch, out'.alpha (n * Nch + a) t * y t = 0) → ∀ t < Nch, y t = 0 := by
    have := inj_perm hσ (fun a t => out.alpha (n * Nch + a) t) hAinj
    intro y hy
    apply this y
    intro a ha
    rw [← hy a ha]
    apply Finset.sum_congr rfl
    intro t ht
    rw [hα _ (Plscf.blk_lt (Nat.lt_succ_self n) ha) t (mem_range.mp ht), blkPerm_add_mul hN,
      blkPerm_low a ha]
  obtain ⟨hA1, hC1⟩ := certp.unique cert' hN hAinj'
  have hAfin : ∀ i, i < (n + 1) * Nch → ∀ j, j < (n + 1) * Nch →
      A'.e i j = A.e (blkPerm Nch σ i) (blkPerm Nch σ j) :=
    fun i hi' j hj => (hA1 i j).trans (hAe i hi' j hj)
  have hCfin : ∀ o, o < Nref → ∀ j, j < (n + 1) * Nch → C'.e o j = C.e (ρ o) (blkPerm Nch σ j) :=
    fun o ho j hj => (hC1 o j).trans (hCe o ho j hj)
  have hCr : C.r = Nref ∧ C.c = (n + 1) * Nch := by rw [cert.hC]; exact ⟨rfl, rfl⟩
  have hCr' : C'.r = Nref ∧ C'.c = (n + 1) * Nch := by rw [cert'.hC]; exact ⟨rfl, rfl⟩
  obtain ⟨he, hcol⟩ := C08_perm_plscf_column hR hρ (blkPerm_permOn hN hσ (n + 1)) A A' C C'
    hCr.1 hCr'.1 hCr.2 hCr'.2 hAfin hCfin
  refine ⟨?_, ?_, hAfin, hCfin, he, hcol⟩
  · intro k hk a ha b hb
    show out'.alpha (k * Nch + a) b = out.alpha (k * Nch + σ a) (σ b)
    rw [hα _ (Plscf.blk_lt hk ha) b hb, blkPerm_add_mul hN, blkPerm_low a ha]
  · intro k hk o ho c hc
    exact hβ o ho k hk c hc

/-- **the square single-setup array `P·Sy·Pᵀ`** (`Nref = Nch`, rows and columns permuted alike): the
    instance `ρ = σ` of `C08_perm_plscf` — denominators `P·A_k·Pᵀ`, numerators `P·B_k·Pᵀ`, the same
    companion eigenvalues, mode shapes permuted by `P`. -/
theorem C08_perm_plscf_square (Nch Nf n : Nat) (hi : Bool) (Om : Nat → Plscf.Cx K)
    (Sy : Nat → Nat → Nat → Plscf.Cx K) (hN : 0 < Nch) {σ τ : Nat → Nat}
    (hσ : PermOn Nch σ τ) (out out' : OrderOut K)
    (h : plscfOrder Nch Nch Nf n hi Om Sy = some out)
    (h' : plscfOrder Nch Nch Nf n hi Om (fun o c f => Sy (σ o) (σ c) f) = some out')
    (hRinj : ∀ y : Nat → K,
      (∀ i < n + 1, ∑ t ∈ range (n + 1), Ro Nf Om i t * y t = 0) → ∀ t < n + 1, y t = 0)
    (hinj : ∀ y : Nat → K,
      (∀ I < n * Nch, ∑ J ∈ range (n * Nch),
        (if hi then out.M I J else out.M (Nch + I) (Nch + J)) * y J = 0) → ∀ J < n * Nch, y J = 0)
    (hAinj : ∀ y : Nat → K,
      (∀ a < Nch, ∑ t ∈ range Nch, out.alpha (n * Nch + a) t * y t = 0) → ∀ t < Nch, y t = 0)
    (A C A' C' : Mat K)
    (hac : rmfd2ac (adOf Nch n out.alpha) (bnOf Nch Nch n out.beta) = some (A, C))
    (hac' : rmfd2ac (adOf Nch n out'.alpha) (bnOf Nch Nch n out'.beta) = some (A', C'))
    (sqrt : K → K) (twoPi invdt : K) (cor : Bool) (invTau : K) (eigs : List (EigIn K))
    (hrec : ∀ e ∈ eigs, EigPair ((n + 1) * Nch) A.e e)
    (huniq : ∀ e ∈ eigs, blanked (lambdOf invdt e) = false → ∀ i, i < Nch → i ≠ argmaxAbs (phiRaw C e.q) →
        Plscf.Cx.normSq ((phiRaw C e.q).getD i ⟨0, 0⟩)
          < Plscf.Cx.normSq ((phiRaw C e.q).getD (argmaxAbs (phiRaw C e.q)) ⟨0, 0⟩)) :
    (∀ e' ∈ eigs.map (permEig (blkPerm Nch σ) ((n + 1) * Nch)), EigPair ((n + 1) * Nch) A'.e e') ∧
    (ac2mpPoly sqrt twoPi invdt cor invTau C' (eigs.map (permEig (blkPerm Nch σ) ((n + 1) * Nch)))).fn
      = (ac2mpPoly sqrt twoPi invdt cor invTau C eigs).fn ∧
    (ac2mpPoly sqrt twoPi invdt cor invTau C' (eigs.map (permEig (blkPerm Nch σ) ((n + 1) * Nch)))).xi
      = (ac2mpPoly sqrt twoPi invdt cor invTau C eigs).xi ∧
    (ac2mpPoly sqrt twoPi invdt cor invTau C' (eigs.map (permEig (blkPerm Nch σ) ((n + 1) * Nch)))).lam
      = (ac2mpPoly sqrt twoPi invdt cor invTau C eigs).lam ∧
    (ac2mpPoly sqrt twoPi invdt cor invTau C' (eigs.map (permEig (blkPerm Nch σ) ((n + 1) * Nch)))).phi
      = (ac2mpPoly sqrt twoPi invdt cor invTau C eigs).phi.map (Option.map (permL σ Nch)) := by
  obtain ⟨_, _, _, _, he, hcol⟩ := C08_perm_plscf Nch Nch Nf n hi Om Sy hN hN hσ hσ out out' h h'
    hRinj hinj hAinj A C A' C' hac hac'
  have := hcol sqrt twoPi invdt cor invTau eigs huniq
  refine ⟨?_, by rw [this]; rfl, by rw [this]; rfl, by rw [this]; rfl, by rw [this]; rfl⟩
  intro e' he'
  obtain ⟨e, hm, rfl⟩ := List.mem_map.mp he'
  exact he e (hrec e hm)

end perm_plscf

end PV.C08
