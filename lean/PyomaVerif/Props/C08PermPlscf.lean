import PyomaVerif.Lemmas.PlscfPerm
import PyomaVerif.Props.C08Pipe
import PyomaVerif.Props.C05
import Mathlib.Tactic.LinearCombination
import Mathlib.Tactic.IntervalCases
/-!
# C08 — pLSCF under a permutation of the channels

"… covariant under a permutation of the channels": the channels are listed in the order
`σ 0, σ 1, …`, so the spectral array the algorithm reads is `Sy'[o, c, f] = Sy[ρ o, σ c, f]`
(`C08_perm_sd`: rows and columns of `SD_est` move with the channels).  `σ` permutes the `Nch` columns,
`ρ` the `Nref` rows; for the square single-setup array `P·Sy·Pᵀ` take `Nref = Nch`, `ρ = σ`
(`C08_perm_plscf_square`); with reference channels `ρ` is the permutation induced on them.

Over the executable model of `functions/plscf.py` (`Plscf.plscfOrder`, `rmfd2ac`, `ac2mpPoly`), with
`π = blkPerm Nch σ` the index map of the block-diagonal `I ⊗ P`:

* `C08_perm_plscf_normal` — the regressor and the blocks of the normal equations: `So' = So·(I⊗P)ᵀ`,
  `To' = (I⊗P)·To·(I⊗P)ᵀ` for the row `ρ o`, and `M' = (I⊗P)·M·(I⊗P)ᵀ` (the sum over `o` re-indexed).
* `C08_perm_plscf_cert` — certificate transport (`OrderCert`), as `C08_gain_plscf_cert`.
* `C08_perm_plscf_order` — two runs of one order: `A_k' = P·A_k·Pᵀ`, `B_k'[o] = B_k[ρ o]·Pᵀ`.
* `C08_perm_plscf_rmfd` — every exact record of the solves of `rmfd2ac` is transported; the state
  matrix is conjugated by `I⊗P`, the output matrix has rows permuted by `ρ`, columns by `I⊗P`.
* `C08_perm_plscf_column` — eigen-record transport (`(λ, q) ↦ (λ, (I⊗P)·q)`) and the column of
  `ac2mp_poly`: same `fn`, `xi`, poles and NaN pattern, every shape permuted by `ρ`.
* `C08_perm_plscf` — the composition for two runs of the model, from the spectra to the column.
* `C08_perm_plscf_poles` — same characteristic polynomial of the state matrix; C05's eigenvalue-record
  contract is transported.
-/
namespace PV.C08
open PV PV.Mat PV.Cov PV.Plscf Finset

section perm_plscf
variable {K : Type} [Field K] [LinearOrder K] [IsStrictOrderedRing K] [Inhabited K]

omit [LinearOrder K] [IsStrictOrderedRing K] [Inhabited K] in
/-- **Permutation, normal equations.**  `Yo = -kron(Xo, Sy[o])` of the permuted array is the
    regressor of row `ρ o` with its columns moved by `I⊗P`; hence `So`, `To` and — the sum over the
    output rows re-indexed by `ρ`, the inner solves re-indexed — `M' = (I⊗P)·M·(I⊗P)ᵀ`. -/
theorem C08_perm_plscf_normal (Nch Nref Nf n : Nat) (hN : 0 < Nch) {σ τ ρ ρi : Nat → Nat}
    (hσ : PermOn Nch σ τ) (hρ : PermOn Nref ρ ρi) (Om : Nat → Plscf.Cx K)
    (Sy : Nat → Nat → Nat → Plscf.Cx K) :
    (∀ o f J, Yo Nch Om (permSy ρ σ Sy o) f J = Yo Nch Om (Sy (ρ o)) f (blkPerm Nch σ J)) ∧
    (∀ o i J, So Nch Nf Om (permSy ρ σ Sy o) i J = So Nch Nf Om (Sy (ρ o)) i (blkPerm Nch σ J)) ∧
    (∀ o I J, To Nch Nf Om (permSy ρ σ Sy o) I J
      = To Nch Nf Om (Sy (ρ o)) (blkPerm Nch σ I) (blkPerm Nch σ J)) ∧
    (∀ (X : Nat → Nat → Nat → K) I J,
      Mmat Nch Nref Nf n Om (permSy ρ σ Sy) (fun o t J => X (ρ o) t (blkPerm Nch σ J)) I J
        = Mmat Nch Nref Nf n Om Sy X (blkPerm Nch σ I) (blkPerm Nch σ J)) ∧
    ∀ p, PermOn (p * Nch) (blkPerm Nch σ) (blkPerm Nch τ) :=
  ⟨fun o f J => Yo_perm hN hσ.lt Om (Sy (ρ o)) f J,
   fun o i J => So_perm hN hσ.lt Nf Om (Sy (ρ o)) i J,
   fun o I J => To_perm hN hσ.lt Nf Om (Sy (ρ o)) I J,
   fun X I J => Mmat_perm hN hσ hρ Nf n Om Sy X I J,
   fun p => blkPerm_permOn hN hσ p⟩

omit [LinearOrder K] [IsStrictOrderedRing K] [Inhabited K] in
/-- **Permutation, normal equations (certificate transport).**  What a returned order of the model of
    `pLSCF` certifies for `Sy` (exact inner solves `X`, accumulated `M`, constrained solve `Z`,
    `alpha`, `beta`), it certifies for the permuted array with `X`, `Z` re-indexed,
    `M' = (I⊗P)·M·(I⊗P)ᵀ`, `alpha'` built from the re-indexed `Z` and the identity block exactly as
    the code builds it, `beta'[o, t, c] = beta[ρ o, t, σ c]`; and on the array
    `alpha'[I, c] = alpha[(I⊗P) I, σ c]`, i.e. every denominator coefficient is `P·A_k·Pᵀ`. -/
theorem C08_perm_plscf_cert (Nch Nref Nf n : Nat) (hi : Bool) (Om : Nat → Plscf.Cx K)
    (Sy : Nat → Nat → Nat → Plscf.Cx K) (out : OrderOut K) (X : Nat → Nat → Nat → K) (Z : Nat → Nat → K)
    (h : OrderCert Nch Nref Nf n hi Om Sy out X Z) (hN : 0 < Nch) {σ τ ρ ρi : Nat → Nat}
    (hσ : PermOn Nch σ τ) (hρ : PermOn Nref ρ ρi) :
    OrderCert Nch Nref Nf n hi Om (permSy ρ σ Sy) (permOut Nch n hi ρ σ out Z)
      (fun o t J => X (ρ o) t (blkPerm Nch σ J)) (permZ Nch σ Z) ∧
    (∀ k, k < n + 1 → ∀ a, a < Nch → ∀ b, b < Nch →
      (adOf Nch n (permOut Nch n hi ρ σ out Z).alpha).blk k a b = (adOf Nch n out.alpha).blk k (σ a) (σ b)) ∧
    (∀ k o c, (bnOf Nch Nref n (permOut Nch n hi ρ σ out Z).beta).blk k o c
      = (bnOf Nch Nref n out.beta).blk k (ρ o) (σ c)) := by
  obtain ⟨h1, h2⟩ := PV.Cov.OrderCert.perm h hN hσ hρ
  refine ⟨h1, ?_, fun _ _ _ => rfl⟩
  intro k hk a ha b hb
  show (permOut Nch n hi ρ σ out Z).alpha (k * Nch + a) b = out.alpha (k * Nch + σ a) (σ b)
  rw [h2 _ (Plscf.blk_lt hk ha) b hb, blkPerm_add_mul hN, blkPerm_low a ha]

omit [IsStrictOrderedRing K] in
/-- **Permutation, one order of `pLSCF` (two runs of the model).**  If the model returns for `Sy` and
    for the permuted array and — C05's uniqueness hypotheses, on the first run only — `Ro` and the
    constrained block of `M` are injective, then on the index ranges of the arrays
    `M' = (I⊗P)·M·(I⊗P)ᵀ`, `alpha'[I, c] = alpha[(I⊗P) I, σ c]` (every `A_k' = P·A_k·Pᵀ`),
    `beta'[o, t, c] = beta[ρ o, t, σ c]`. -/
theorem C08_perm_plscf_order (Nch Nref Nf n : Nat) (hi : Bool) (Om : Nat → Plscf.Cx K)
    (Sy : Nat → Nat → Nat → Plscf.Cx K) (hN : 0 < Nch) {σ τ ρ ρi : Nat → Nat}
    (hσ : PermOn Nch σ τ) (hρ : PermOn Nref ρ ρi) (out out' : OrderOut K)
    (h : plscfOrder Nch Nref Nf n hi Om Sy = some out)
    (h' : plscfOrder Nch Nref Nf n hi Om (permSy ρ σ Sy) = some out')
    (hRinj : ∀ y : Nat → K,
      (∀ i < n + 1, ∑ t ∈ range (n + 1), Ro Nf Om i t * y t = 0) → ∀ t < n + 1, y t = 0)
    (hinj : ∀ y : Nat → K,
      (∀ I < n * Nch, ∑ J ∈ range (n * Nch),
        (if hi then out.M I J else out.M (Nch + I) (Nch + J)) * y J = 0) → ∀ J < n * Nch, y J = 0) :
    (∀ I, I < (n + 1) * Nch → ∀ J, J < (n + 1) * Nch →
      out'.M I J = out.M (blkPerm Nch σ I) (blkPerm Nch σ J)) ∧
    (∀ I, I < (n + 1) * Nch → ∀ c, c < Nch → out'.alpha I c = out.alpha (blkPerm Nch σ I) (σ c)) ∧
    (∀ o, o < Nref → ∀ t, t < n + 1 → ∀ c, c < Nch → out'.beta o t c = out.beta (ρ o) t (σ c)) := by
  obtain ⟨X, Z, cert⟩ := plscfOrder_sound Nch Nref Nf n hi Om Sy out h
  obtain ⟨X', Z', cert'⟩ := plscfOrder_sound Nch Nref Nf n hi Om _ out' h'
  obtain ⟨certp, hα⟩ := PV.Cov.OrderCert.perm cert hN hσ hρ
  have hπ := blkPerm_permOn hN hσ n
  have hinj' : ∀ y : Nat → K,
      (∀ I < n * Nch, ∑ J ∈ range (n * Nch),
        (if hi then (permOut Nch n hi ρ σ out Z).M I J
          else (permOut Nch n hi ρ σ out Z).M (Nch + I) (Nch + J)) * y J = 0) → ∀ J < n * Nch, y J = 0 := by
    have := inj_perm hπ (fun I J => if hi then out.M I J else out.M (Nch + I) (Nch + J)) hinj
    intro y hy
    apply this y
    intro I hI
    rw [← hy I hI]
    apply Finset.sum_congr rfl
    intro J _
    cases hi
    · simp only [Bool.false_eq_true, if_false, permOut, blkPerm_add_one hN]
    · simp only [if_true, permOut]
  obtain ⟨hM, hA, hB⟩ := cert_unique certp cert' hRinj hinj'
  refine ⟨fun I hI J hJ => hM I hI J hJ, ?_, fun o ho t ht c hc => hB o ho t ht c hc⟩
  intro I hI c hc
  rw [hA I hI c hc, hα I hI c hc]

omit [LinearOrder K] [IsStrictOrderedRing K] [Inhabited K] in
/-- **Permutation, `rmfd2ac` (record transport).**  Coefficients related as in
    `C08_perm_plscf_order`.  For every exact record `P` of the solves `np.linalg.solve(Ad_last, Adi)`
    of the original run, the conjugated record `P·P_k·Pᵀ` is an exact record for the permuted
    coefficients; with it the state matrix is `(I⊗P)·A·(I⊗P)ᵀ` and the output matrix is `C` with its
    rows permuted by `ρ` and its columns by `I⊗P`. -/
theorem C08_perm_plscf_rmfd (Nch Nref n : Nat) (hN : 0 < Nch) {σ τ : Nat → Nat} (ρ : Nat → Nat)
    (hσ : PermOn Nch σ τ) (α α' : Nat → Nat → K) (β β' : Nat → Nat → Nat → K)
    (hα : ∀ I, I < (n + 1) * Nch → ∀ c, c < Nch → α' I c = α (blkPerm Nch σ I) (σ c))
    (hβ : ∀ o, o < Nref → ∀ t, t < n + 1 → ∀ c, c < Nch → β' o t c = β (ρ o) t (σ c))
    (P : Nat → Nat → Nat → K) (A C : Mat K) (h : RmfdCert Nch Nref n α β P A C) :
    ∃ A' C', RmfdCert Nch Nref n α' β' (permP σ P) A' C' ∧
      A'.r = (n + 1) * Nch ∧ A'.c = (n + 1) * Nch ∧ C'.r = Nref ∧ C'.c = (n + 1) * Nch ∧
      (∀ i, i < (n + 1) * Nch → ∀ j, j < (n + 1) * Nch →
        A'.e i j = A.e (blkPerm Nch σ i) (blkPerm Nch σ j)) ∧
      (∀ o, o < Nref → ∀ j, j < (n + 1) * Nch → C'.e o j = C.e (ρ o) (blkPerm Nch σ j)) := by
  obtain ⟨h1, h2, h3⟩ := h.perm hN ρ hσ hα hβ
  exact ⟨_, _, h1, rfl, rfl, rfl, rfl, h2, h3⟩

omit [Inhabited K] in
/-- **Permutation, eigen-record and `ac2mp_poly`.**  `A' = (I⊗P)·A·(I⊗P)ᵀ` and
    `C'[o, j] = C[ρ o, (I⊗P) j]` on the arrays.  Every recorded eigenpair `(λ, q)` of `A` gives the
    eigenpair `(λ, (I⊗P)·q)` of `A'` — the same companion eigenvalues; and for the transported
    records the column `ac2mp_poly` produces has the same `fn`, `xi`, `lam` and NaN pattern, and every
    shape is the shape of the original run permuted by `ρ`.
    Hypothesis beyond the property's premise: in every column whose shape is not NaN in the original run
    the component of largest magnitude of `C·q` is attained once (with a tie `np.argmax` picks the first of the tied components in either order
    and the two normalisations differ by the unimodular ratio of the tied components). -/
theorem C08_perm_plscf_column {l d : Nat} (hl : 0 < l) {ρ ρi π πi : Nat → Nat} (hρ : PermOn l ρ ρi)
    (hπ : PermOn d π πi) (A A' C C' : Mat K) (hr : C.r = l) (hr' : C'.r = l) (hc : C.c = d) (hc' : C'.c = d)
    (hA : ∀ i, i < d → ∀ j, j < d → A'.e i j = A.e (π i) (π j))
    (hC : ∀ o, o < l → ∀ j, j < d → C'.e o j = C.e (ρ o) (π j)) :
    (∀ e : EigIn K, EigPair d A.e e → EigPair d A'.e (permEig π d e)) ∧
    ∀ (sqrt : K → K) (twoPi invdt : K) (cor : Bool) (invTau : K) (eigs : List (EigIn K)),
      (∀ e ∈ eigs, phiCell C (lambdOf invdt e) e.q ≠ none → ∀ i, i < l → i ≠ argmaxAbs (phiRaw C e.q) →
        Plscf.Cx.normSq ((phiRaw C e.q).getD i ⟨0, 0⟩)
          < Plscf.Cx.normSq ((phiRaw C e.q).getD (argmaxAbs (phiRaw C e.q)) ⟨0, 0⟩)) →
      ac2mpPoly sqrt twoPi invdt cor invTau C' (eigs.map (permEig π d))
        = permColumn ρ l (ac2mpPoly sqrt twoPi invdt cor invTau C eigs) :=
  ⟨fun _ he => he.perm hπ hA,
   fun sqrt twoPi invdt cor invTau eigs hu =>
     ac2mpPoly_perm hl hρ hπ C C' hr hr' hc hc' hC sqrt twoPi invdt cor invTau eigs hu⟩

/-- **C08_perm_plscf — from the spectra to the pole-table column of one order, two runs.**  The model
    of `pLSCF` returns `out` for `Sy` and `out'` for the permuted array, `rmfd2ac` returns `(A, C)` and
    `(A', C')` for their coefficients; C05's injectivity hypotheses hold for the first run (`Ro`, the
    constrained block of `M`) and its leading denominator coefficient `A_n` is injective (automatic for the
    `HI` constraint: `alphaHI_last_inj`).  Then
    * every denominator coefficient is conjugated, `A_k' = P·A_k·Pᵀ`, every numerator coefficient is
      `B_k'[o] = B_k[ρ o]·Pᵀ`;
    * the state matrix is conjugated by the block-diagonal `I⊗P`, the output matrix has rows permuted by
      `ρ`, columns by `I⊗P`;
    * every recorded eigenpair `(λ, q)` of `A` gives the eigenpair `(λ, (I⊗P)·q)` of `A'`;
    * with the transported records the column of `ac2mp_poly` has the same `fn`, `xi`, poles and NaN
      pattern and every mode shape permuted by `ρ` (largest component of `C·q` attained once). -/
theorem C08_perm_plscf (Nch Nref Nf n : Nat) (hi : Bool) (Om : Nat → Plscf.Cx K)
    (Sy : Nat → Nat → Nat → Plscf.Cx K) (hN : 0 < Nch) (hR : 0 < Nref) {σ τ ρ ρi : Nat → Nat}
    (hσ : PermOn Nch σ τ) (hρ : PermOn Nref ρ ρi) (out out' : OrderOut K)
    (h : plscfOrder Nch Nref Nf n hi Om Sy = some out)
    (h' : plscfOrder Nch Nref Nf n hi Om (permSy ρ σ Sy) = some out')
    (hRinj : ∀ y : Nat → K,
      (∀ i < n + 1, ∑ t ∈ range (n + 1), Ro Nf Om i t * y t = 0) → ∀ t < n + 1, y t = 0)
    (hinj : ∀ y : Nat → K,
      (∀ I < n * Nch, ∑ J ∈ range (n * Nch),
        (if hi then out.M I J else out.M (Nch + I) (Nch + J)) * y J = 0) → ∀ J < n * Nch, y J = 0)
    (hAinj : ∀ y : Nat → K,
      (∀ a < Nch, ∑ t ∈ range Nch, out.alpha (n * Nch + a) t * y t = 0) → ∀ t < Nch, y t = 0)
    (A C A' C' : Mat K)
    (hac : rmfd2ac (adOf Nch n out.alpha) (bnOf Nch Nref n out.beta) = some (A, C))
    (hac' : rmfd2ac (adOf Nch n out'.alpha) (bnOf Nch Nref n out'.beta) = some (A', C')) :
    (∀ k, k < n + 1 → ∀ a, a < Nch → ∀ b, b < Nch →
      (adOf Nch n out'.alpha).blk k a b = (adOf Nch n out.alpha).blk k (σ a) (σ b)) ∧
    (∀ k, k < n + 1 → ∀ o, o < Nref → ∀ c, c < Nch →
      (bnOf Nch Nref n out'.beta).blk k o c = (bnOf Nch Nref n out.beta).blk k (ρ o) (σ c)) ∧
    (∀ i, i < (n + 1) * Nch → ∀ j, j < (n + 1) * Nch →
      A'.e i j = A.e (blkPerm Nch σ i) (blkPerm Nch σ j)) ∧
    (∀ o, o < Nref → ∀ j, j < (n + 1) * Nch → C'.e o j = C.e (ρ o) (blkPerm Nch σ j)) ∧
    (∀ e : EigIn K, EigPair ((n + 1) * Nch) A.e e →
      EigPair ((n + 1) * Nch) A'.e (permEig (blkPerm Nch σ) ((n + 1) * Nch) e)) ∧
    ∀ (sqrt : K → K) (twoPi invdt : K) (cor : Bool) (invTau : K) (eigs : List (EigIn K)),
      (∀ e ∈ eigs, phiCell C (lambdOf invdt e) e.q ≠ none → ∀ i, i < Nref → i ≠ argmaxAbs (phiRaw C e.q) →
        Plscf.Cx.normSq ((phiRaw C e.q).getD i ⟨0, 0⟩)
          < Plscf.Cx.normSq ((phiRaw C e.q).getD (argmaxAbs (phiRaw C e.q)) ⟨0, 0⟩)) →
      ac2mpPoly sqrt twoPi invdt cor invTau C' (eigs.map (permEig (blkPerm Nch σ) ((n + 1) * Nch)))
        = permColumn ρ Nref (ac2mpPoly sqrt twoPi invdt cor invTau C eigs) := by
  obtain ⟨_, hα, hβ⟩ := C08_perm_plscf_order Nch Nref Nf n hi Om Sy hN hσ hρ out out' h h' hRinj hinj
  obtain ⟨P, cert⟩ := rmfd2ac_cert Nch Nref n out.alpha out.beta A C hac
  obtain ⟨P', cert'⟩ := rmfd2ac_cert Nch Nref n out'.alpha out'.beta A' C' hac'
  obtain ⟨certp, hAe, hCe⟩ := cert.perm hN ρ hσ hα hβ
  -- the leading coefficient of the second run is injective as well
  have hAinj' : ∀ y : Nat → K,
      (∀ a < Nch, ∑ t ∈ range Nch, out'.alpha (n * Nch + a) t * y t = 0) → ∀ t < Nch, y t = 0 := by
    have := inj_perm hσ (fun a t => out.alpha (n * Nch + a) t) hAinj
    intro y hy
    apply this y
    intro a ha
    rw [← hy a ha]
    apply Finset.sum_congr rfl
    intro t ht
    rw [hα _ (Plscf.blk_lt (Nat.lt_succ_self n) ha) t (mem_range.mp ht), blkPerm_add_mul hN,
      blkPerm_low a ha]
  obtain ⟨hA1, hC1⟩ := certp.unique cert' hN hAinj'
  have hAfin : ∀ i, i < (n + 1) * Nch → ∀ j, j < (n + 1) * Nch →
      A'.e i j = A.e (blkPerm Nch σ i) (blkPerm Nch σ j) :=
    fun i hi' j hj => (hA1 i j).trans (hAe i hi' j hj)
  have hCfin : ∀ o, o < Nref → ∀ j, j < (n + 1) * Nch → C'.e o j = C.e (ρ o) (blkPerm Nch σ j) :=
    fun o ho j hj => (hC1 o j).trans (hCe o ho j hj)
  have hCr : C.r = Nref ∧ C.c = (n + 1) * Nch := by rw [cert.hC]; exact ⟨rfl, rfl⟩
  have hCr' : C'.r = Nref ∧ C'.c = (n + 1) * Nch := by rw [cert'.hC]; exact ⟨rfl, rfl⟩
  obtain ⟨he, hcol⟩ := C08_perm_plscf_column hR hρ (blkPerm_permOn hN hσ (n + 1)) A A' C C'
    hCr.1 hCr'.1 hCr.2 hCr'.2 hAfin hCfin
  refine ⟨?_, ?_, hAfin, hCfin, he, hcol⟩
  · intro k hk a ha b hb
    show out'.alpha (k * Nch + a) b = out.alpha (k * Nch + σ a) (σ b)
    rw [hα _ (Plscf.blk_lt hk ha) b hb, blkPerm_add_mul hN, blkPerm_low a ha]
  · intro k hk o ho c hc
    exact hβ o ho k hk c hc

/-- **the same companion eigenvalues, as C05 records them.**  In the setting of `C08_perm_plscf` the state
    matrices of the two runs have the same characteristic polynomial; hence the recorded list of eigenvalues
    that satisfies C05's contract of `np.linalg.eig` for `A` (the multiset of the recorded `lam_d`, embedded
    in an extension `L ∋ I`, is the multiset of roots of the characteristic polynomial) satisfies it — with
    the eigenvectors transported — for `A'`. -/
theorem C08_perm_plscf_poles (Nch Nref Nf n : Nat) (hi : Bool) (Om : Nat → Plscf.Cx K)
    (Sy : Nat → Nat → Nat → Plscf.Cx K) (hN : 0 < Nch) (hR : 0 < Nref) {σ τ ρ ρi : Nat → Nat}
    (hσ : PermOn Nch σ τ) (hρ : PermOn Nref ρ ρi) (out out' : OrderOut K)
    (h : plscfOrder Nch Nref Nf n hi Om Sy = some out)
    (h' : plscfOrder Nch Nref Nf n hi Om (permSy ρ σ Sy) = some out')
    (hRinj : ∀ y : Nat → K,
      (∀ i < n + 1, ∑ t ∈ range (n + 1), Ro Nf Om i t * y t = 0) → ∀ t < n + 1, y t = 0)
    (hinj : ∀ y : Nat → K,
      (∀ I < n * Nch, ∑ J ∈ range (n * Nch),
        (if hi then out.M I J else out.M (Nch + I) (Nch + J)) * y J = 0) → ∀ J < n * Nch, y J = 0)
    (hAinj : ∀ y : Nat → K,
      (∀ a < Nch, ∑ t ∈ range Nch, out.alpha (n * Nch + a) t * y t = 0) → ∀ t < Nch, y t = 0)
    (A C A' C' : Mat K)
    (hac : rmfd2ac (adOf Nch n out.alpha) (bnOf Nch Nref n out.beta) = some (A, C))
    (hac' : rmfd2ac (adOf Nch n out'.alpha) (bnOf Nch Nref n out'.beta) = some (A', C')) :
    (toMx ((n + 1) * Nch) ((n + 1) * Nch) A'.e).charpoly
      = (toMx ((n + 1) * Nch) ((n + 1) * Nch) A.e).charpoly ∧
    ∀ {L : Type} [Field L] (f : K →+* L) (I : L) (eigs : List (EigIn K)),
      Multiset.map (fun e => emb f I e.lamd) (eigs : Multiset (EigIn K))
        = ((toMx ((n + 1) * Nch) ((n + 1) * Nch) A.e).charpoly.map f).roots →
      Multiset.map (fun e => emb f I e.lamd)
          ((eigs.map (permEig (blkPerm Nch σ) ((n + 1) * Nch)) : List (EigIn K)) : Multiset (EigIn K))
        = ((toMx ((n + 1) * Nch) ((n + 1) * Nch) A'.e).charpoly.map f).roots := by
  obtain ⟨_, _, hA, _⟩ := C08_perm_plscf Nch Nref Nf n hi Om Sy hN hR hσ hρ out out' h h'
    hRinj hinj hAinj A C A' C' hac hac'
  have hcp := charpoly_perm (blkPerm_permOn hN hσ (n + 1)) A.e A'.e hA
  refine ⟨hcp, ?_⟩
  intro L _ f I eigs hrec
  rw [hcp, ← hrec, ← Multiset.map_coe, Multiset.map_map]
  rfl

/-- **the square single-setup array `P·Sy·Pᵀ`** (`Nref = Nch`, rows and columns permuted alike): the
    instance `ρ = σ` of `C08_perm_plscf` — denominators `P·A_k·Pᵀ`, numerators `P·B_k·Pᵀ`, the same
    companion eigenvalues, mode shapes permuted by `P`. -/
theorem C08_perm_plscf_square (Nch Nf n : Nat) (hi : Bool) (Om : Nat → Plscf.Cx K)
    (Sy : Nat → Nat → Nat → Plscf.Cx K) (hN : 0 < Nch) {σ τ : Nat → Nat}
    (hσ : PermOn Nch σ τ) (out out' : OrderOut K)
    (h : plscfOrder Nch Nch Nf n hi Om Sy = some out)
    (h' : plscfOrder Nch Nch Nf n hi Om (fun o c f => Sy (σ o) (σ c) f) = some out')
    (hRinj : ∀ y : Nat → K,
      (∀ i < n + 1, ∑ t ∈ range (n + 1), Ro Nf Om i t * y t = 0) → ∀ t < n + 1, y t = 0)
    (hinj : ∀ y : Nat → K,
      (∀ I < n * Nch, ∑ J ∈ range (n * Nch),
        (if hi then out.M I J else out.M (Nch + I) (Nch + J)) * y J = 0) → ∀ J < n * Nch, y J = 0)
    (hAinj : ∀ y : Nat → K,
      (∀ a < Nch, ∑ t ∈ range Nch, out.alpha (n * Nch + a) t * y t = 0) → ∀ t < Nch, y t = 0)
    (A C A' C' : Mat K)
    (hac : rmfd2ac (adOf Nch n out.alpha) (bnOf Nch Nch n out.beta) = some (A, C))
    (hac' : rmfd2ac (adOf Nch n out'.alpha) (bnOf Nch Nch n out'.beta) = some (A', C'))
    (sqrt : K → K) (twoPi invdt : K) (cor : Bool) (invTau : K) (eigs : List (EigIn K))
    (hrec : ∀ e ∈ eigs, EigPair ((n + 1) * Nch) A.e e)
    (huniq : ∀ e ∈ eigs, phiCell C (lambdOf invdt e) e.q ≠ none → ∀ i, i < Nch → i ≠ argmaxAbs (phiRaw C e.q) →
        Plscf.Cx.normSq ((phiRaw C e.q).getD i ⟨0, 0⟩)
          < Plscf.Cx.normSq ((phiRaw C e.q).getD (argmaxAbs (phiRaw C e.q)) ⟨0, 0⟩)) :
    (∀ e' ∈ eigs.map (permEig (blkPerm Nch σ) ((n + 1) * Nch)), EigPair ((n + 1) * Nch) A'.e e') ∧
    (ac2mpPoly sqrt twoPi invdt cor invTau C' (eigs.map (permEig (blkPerm Nch σ) ((n + 1) * Nch)))).fn
      = (ac2mpPoly sqrt twoPi invdt cor invTau C eigs).fn ∧
    (ac2mpPoly sqrt twoPi invdt cor invTau C' (eigs.map (permEig (blkPerm Nch σ) ((n + 1) * Nch)))).xi
      = (ac2mpPoly sqrt twoPi invdt cor invTau C eigs).xi ∧
    (ac2mpPoly sqrt twoPi invdt cor invTau C' (eigs.map (permEig (blkPerm Nch σ) ((n + 1) * Nch)))).lam
      = (ac2mpPoly sqrt twoPi invdt cor invTau C eigs).lam ∧
    (ac2mpPoly sqrt twoPi invdt cor invTau C' (eigs.map (permEig (blkPerm Nch σ) ((n + 1) * Nch)))).phi
      = (ac2mpPoly sqrt twoPi invdt cor invTau C eigs).phi.map (Option.map (permL σ Nch)) := by
  obtain ⟨_, _, _, _, he, hcol⟩ := C08_perm_plscf Nch Nch Nf n hi Om Sy hN hN hσ hσ out out' h h'
    hRinj hinj hAinj A C A' C' hac hac'
  have := hcol sqrt twoPi invdt cor invTau eigs huniq
  refine ⟨?_, by rw [this]; rfl, by rw [this]; rfl, by rw [this]; rfl, by rw [this]; rfl⟩
  intro e' he'
  obtain ⟨e, hm, rfl⟩ := List.mem_map.mp he'
  exact he e (hrec e hm)

end perm_plscf

/-! ## non-vacuity: two channels swapped, order 1, three lines (`Om` of C05's instance) -/
section examples
open PV.C05

/-- a full `2 × 2 × 3` spectral array -/
def pSy : Nat → Nat → Nat → Plscf.Cx Rat := fun o c f =>
  ⟨((o : Rat) + 1) * ((f : Rat) + 1) + c * c, ((o : Rat) + 2 * c) * f - 1 + o * c⟩
def pSwp : Nat → Nat := fun a => 1 - a
theorem pSwpPerm : PermOn 2 pSwp pSwp :=
  ⟨fun a h => by simp only [pSwp]; omega, fun a h => by simp only [pSwp]; omega,
   fun a h => by simp only [pSwp]; omega, fun a h => by simp only [pSwp]; omega⟩

/-- a `2 × 2` block with non-zero determinant is injective (the form the hypotheses use) -/
theorem inj2 (G : Nat → Nat → Rat) (hdet : G 0 0 * G 1 1 - G 0 1 * G 1 0 ≠ 0) (y : Nat → Rat)
    (h : ∀ I < 2, ∑ J ∈ range 2, G I J * y J = 0) : ∀ J < 2, y J = 0 := by
  have h0 := h 0 (by decide)
  have h1 := h 1 (by decide)
  simp only [Finset.sum_range_succ, Finset.sum_range_zero, zero_add] at h0 h1
  have e0 : y 0 * (G 0 0 * G 1 1 - G 0 1 * G 1 0) = 0 := by linear_combination G 1 1 * h0 - G 0 1 * h1
  have e1 : y 1 * (G 0 0 * G 1 1 - G 0 1 * G 1 0) = 0 := by linear_combination G 0 0 * h1 - G 1 0 * h0
  intro J hJ
  interval_cases J
  · exact (mul_eq_zero.mp e0).resolve_right hdet
  · exact (mul_eq_zero.mp e1).resolve_right hdet

/-- both runs of the model return (`LO` constraint), `rmfd2ac` returns for both, the constrained block of
    `M` and the leading coefficient `A_1` of the first run are non-singular -/
theorem ex_perm_runs :
    ∃ out out' A C A' C', plscfOrder 2 2 3 1 false exOm pSy = some out ∧
      plscfOrder 2 2 3 1 false exOm (permSy pSwp pSwp pSy) = some out' ∧
      out.M 2 2 * out.M 3 3 - out.M 2 3 * out.M 3 2 ≠ 0 ∧
      out.alpha 2 0 * out.alpha 3 1 - out.alpha 2 1 * out.alpha 3 0 ≠ 0 ∧
      rmfd2ac (adOf 2 1 out.alpha) (bnOf 2 2 1 out.beta) = some (A, C) ∧
      rmfd2ac (adOf 2 1 out'.alpha) (bnOf 2 2 1 out'.beta) = some (A', C') := by
  have h1 : ((plscfOrder 2 2 3 1 false exOm pSy).bind fun out =>
      (rmfd2ac (adOf 2 1 out.alpha) (bnOf 2 2 1 out.beta)).map fun _ =>
        (decide (out.M 2 2 * out.M 3 3 - out.M 2 3 * out.M 3 2 ≠ 0)
          && decide (out.alpha 2 0 * out.alpha 3 1 - out.alpha 2 1 * out.alpha 3 0 ≠ 0)))
        = some true := by decide +kernel
  have h2 : ((plscfOrder 2 2 3 1 false exOm (permSy pSwp pSwp pSy)).bind fun out' =>
      (rmfd2ac (adOf 2 1 out'.alpha) (bnOf 2 2 1 out'.beta)).map fun _ => true) = some true := by
    decide +kernel
  cases ho : plscfOrder 2 2 3 1 false exOm pSy with
  | none => rw [ho] at h1; simp at h1
  | some out =>
    rw [ho] at h1
    simp only [Option.bind_some] at h1
    cases hac : rmfd2ac (adOf 2 1 out.alpha) (bnOf 2 2 1 out.beta) with
    | none => rw [hac] at h1; simp at h1
    | some AC =>
      rw [hac] at h1
      simp only [Option.map_some, Option.some.injEq, Bool.and_eq_true, decide_eq_true_eq] at h1
      cases ho' : plscfOrder 2 2 3 1 false exOm (permSy pSwp pSwp pSy) with
      | none => rw [ho'] at h2; simp at h2
      | some out' =>
        rw [ho'] at h2
        simp only [Option.bind_some] at h2
        cases hac' : rmfd2ac (adOf 2 1 out'.alpha) (bnOf 2 2 1 out'.beta) with
        | none => rw [hac'] at h2; simp at h2
        | some AC' => exact ⟨out, out', AC.1, AC.2, AC'.1, AC'.2, rfl, rfl, h1.1, h1.2, hac, hac'⟩

-- every hypothesis of `C08_perm_plscf_order`, `C08_perm_plscf`, `C08_perm_plscf_square` and of the
-- certificate transport holds jointly on this instance
example : True := by
  obtain ⟨out, out', A, C, A', C', h, h', hM, hA, hac, hac'⟩ := ex_perm_runs
  have hinj : ∀ y : Nat → Rat, (∀ I < 1 * 2, ∑ J ∈ range (1 * 2),
      (if false = true then out.M I J else out.M (2 + I) (2 + J)) * y J = 0) → ∀ J < 1 * 2, y J = 0 := by
    intro y hy
    exact inj2 (fun I J => out.M (2 + I) (2 + J)) hM y
      (by simpa only [Bool.false_eq_true, if_false, Nat.one_mul] using hy)
  have hAinj : ∀ y : Nat → Rat,
      (∀ a < 2, ∑ t ∈ range 2, out.alpha (1 * 2 + a) t * y t = 0) → ∀ t < 2, y t = 0 := by
    intro y hy
    exact inj2 (fun a t => out.alpha (1 * 2 + a) t) hA y hy
  have := C08_perm_plscf_order 2 2 3 1 false exOm pSy (by decide) pSwpPerm pSwpPerm out out' h h'
    ex_Ro_inj hinj
  have := C08_perm_plscf 2 2 3 1 false exOm pSy (by decide) (by decide) pSwpPerm pSwpPerm out out' h h'
    ex_Ro_inj hinj hAinj A C A' C' hac hac'
  have := C08_perm_plscf_poles 2 2 3 1 false exOm pSy (by decide) (by decide) pSwpPerm pSwpPerm out out' h h'
    ex_Ro_inj hinj hAinj A C A' C' hac hac'
  have := C08_perm_plscf_square 2 3 1 false exOm pSy (by decide) pSwpPerm out out' h h'
    ex_Ro_inj hinj hAinj A C A' C' hac hac' (fun x => x) 6 100 false 0 [] (by simp) (by simp)
  obtain ⟨X, Z, cert⟩ := plscfOrder_sound 2 2 3 1 false exOm pSy out h
  have := C08_perm_plscf_cert 2 2 3 1 false exOm pSy out X Z cert (by decide) pSwpPerm pSwpPerm
  obtain ⟨P, rc⟩ := rmfd2ac_cert 2 2 1 out.alpha out.beta A C hac
  have := C08_perm_plscf_rmfd 2 2 1 (by decide) pSwp pSwpPerm out.alpha
    (fun I c => out.alpha (blkPerm 2 pSwp I) (pSwp c)) out.beta
    (fun o t c => out.beta (pSwp o) t (pSwp c)) (fun _ _ _ _ => rfl) (fun _ _ _ _ _ _ => rfl) P A C rc
  trivial

example := C08_perm_plscf_normal (K := Rat) 2 2 3 1 (by decide) pSwpPerm pSwpPerm exOm pSy

/-! ### eigen-record and column: a `2 × 2` state matrix with the recorded pair `(2, e₀)`, kept column with a
    unique largest component -/
def cA : Mat Rat := ⟨2, 2, fun i j => if i = j then (if i = 0 then 2 else 3) else 0⟩
def cA' : Mat Rat := ⟨2, 2, fun i j => if i = j then (if i = 0 then 3 else 2) else 0⟩
def cC : Mat Rat := ⟨2, 2, fun i j => ([[1, 2], [3, 4]] : List (List Rat)).getD i [] |>.getD j 0⟩
def cC' : Mat Rat := ⟨2, 2, fun i j => ([[4, 3], [2, 1]] : List (List Rat)).getD i [] |>.getD j 0⟩
def cE : EigIn Rat := ⟨⟨2, 0⟩, ⟨-1, 2⟩, [⟨1, 0⟩, ⟨0, 0⟩]⟩

theorem cE_pair : EigPair 2 cA.e cE := by
  refine ⟨rfl, ?_⟩
  intro i hi
  interval_cases i <;> decide +kernel

example : True := by
  have hA : ∀ i, i < 2 → ∀ j, j < 2 → cA'.e i j = cA.e (pSwp i) (pSwp j) := by decide
  have hC : ∀ o, o < 2 → ∀ j, j < 2 → cC'.e o j = cC.e (pSwp o) (pSwp j) := by decide +kernel
  obtain ⟨h1, h2⟩ := C08_perm_plscf_column (K := Rat) (l := 2) (d := 2) (by decide) pSwpPerm pSwpPerm
    cA cA' cC cC' rfl rfl rfl rfl hA hC
  have := h1 cE cE_pair
  have hu : ∀ e ∈ [cE], phiCell cC (lambdOf (1 : Rat) e) e.q ≠ none → ∀ i, i < 2 → i ≠ argmaxAbs (phiRaw cC e.q) →
      Plscf.Cx.normSq ((phiRaw cC e.q).getD i ⟨0, 0⟩)
        < Plscf.Cx.normSq ((phiRaw cC e.q).getD (argmaxAbs (phiRaw cC e.q)) ⟨0, 0⟩) := by
    intro e he _
    rw [List.mem_singleton.mp he]
    decide +kernel
  have := h2 (fun x => x) 6 1 false 0 [cE] hu
  trivial

-- the kept column of the instance is not NaN, and the permuted run reports the permuted shape
example : (ac2mpPoly (fun x => x) (6 : Rat) 1 false 0 cC' ([cE].map (permEig pSwp 2))).phi
    = [some [⟨1, 0⟩, ⟨1/3, 0⟩]] ∧
    (ac2mpPoly (fun x => x) (6 : Rat) 1 false 0 cC [cE]).phi = [some [⟨1/3, 0⟩, ⟨1, 0⟩]] := by
  decide +kernel

end examples

end PV.C08
