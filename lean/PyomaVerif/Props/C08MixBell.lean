import PyomaVerif.Lemmas.MixBell
import PyomaVerif.Props.C07All
import Mathlib.Tactic.IntervalCases
import Mathlib.Tactic.NormNum
/-!
# C08 (depth 2) — EFDD / FSDD under channel permutation and orthogonal mixing, end to end

Subject: the executable composed model `Efdd.efddMpe` (`Model/EfddAll.lean`: `SD_svalsvec` →
`FDD_mpe` → per selected frequency `SDOF_bellandMS` → inverse FFT → post-processing → fit; driver op
`efdd_mpe_all`, correspondence stream `fdd.EFDD_mpe[composed]` of C07).

Transformation: `Sy' = Q·Sy·Qᵀ` on every spectral line, `Q` real orthogonal on the `n` channels
(what both spectral estimators return for the mixed data `Q·Y`: `C08.C08_mix_sd`); a channel
permutation is the special case `Q = permQ σ` (`C08_perm_bell`).

Form (as in `Props/C08Pipe.lean`): *for every admissible recorded factorisation of the original
run the stated one is admissible for the transformed run* (`C08_mix_bell_admissible`: `(Q·U, S,
Q·V)`, the same singular values), *and with it the outputs are related as stated*
(`MixRecord`: the library routines of the transformed run return `Q·U`, `S` on the lines of `Sy'`
and are otherwise the same functions).  That LAPACK returns this admissible factorisation and not
another one is not claimed.

Results, for EFDD and FSDD alike:

* `C08_mix_svalsvec` — `SD_svalsvec`: the same `S_val`, `S_vec' = Q·S_vec`;
* `C08_mix_first_stage` — `FDD_mpe`: same exception, or same picks and frequencies, and the
  unit-normalised shape of the mixed run is a non-zero complex multiple of `Q` times that of the
  original run (NaN exactly when that one is): "`Q` times the original before normalisation";
* `C08_mix_bell_lines` — `SDOF_bellandMS`: the MAC test passes on the same lines for the same close
  modes; the bell is the original bell times one positive constant (EFDD: `1`, the values are
  identical; FSDD: `|c|²`, `c` the ratio of the two normalisation constants — `φᴴ·Sy·φ` is
  invariant for `φ' = Q·φ` and quadratic in the scale of `φ`);
* `C08_mix_bell_one`, **`C08_mix_bell`** — one pass / the whole of `EFDD_mpe`: the same exception, or
  entry by entry the same `fn`, `xi`, bell support `idSV`, zero crossings, extrema, fitted
  indices, `Td`, decrement ratios, `delta`, `lam` — **identical**, not merely close — and the
  returned shape related as above; `C08_mix_bell_estimates` is the `Fn`/`Xi` corollary.

Hypothesis beyond the property's premise: the inverse FFT is homogeneous for positive real
factors (`hlin`; true of the modelled transform `ifftRe`, `C07Bell.C07_ifft_homogeneous`) — needed
for FSDD only, where the bell carries the factor `|c|²`.
-/
set_option linter.unusedSectionVars false
namespace PV.C08MixBell
open PV PV.Fdd PV.Efdd PV.Cov PV.MixBell Finset

variable {K : Type} [Field K] [LinearOrder K] [IsStrictOrderedRing K]

/-- **what is recorded for the mixed run.**  On every line of `Sy'` the SVD routine of the mixed run
    returns the same singular values and, on the `n` channels, `U' = Q·U`; `np.sqrt`, `np.log`,
    `np.pi`, the inverse FFT and `curve_fit` are the same functions. -/
structure MixRecord (E E' : Ext K) (n : Nat) (Q : Nat → Nat → K) (Sy Sy' : Nat → Nat → Nat → Cx K) :
    Prop where
  S : ∀ k, (E'.svd n n (fun i j => Sy' i j k)).S = (E.svd n n (fun i j => Sy i j k)).S
  U : ∀ k i r, i < n → (E'.svd n n (fun i j => Sy' i j k)).U i r
    = cmix n Q (E.svd n n (fun i j => Sy i j k)).U i r
  sqrt : E'.sqrt = E.sqrt
  log : E'.log = E.log
  pi : E'.pi = E.pi
  ifft : E'.ifft = E.ifft
  fit : E'.fit = E.fit

/-- `Sy' = Q·Sy·Qᵀ` on the `n` channels, every line -/
def MixedSy (n : Nat) (Q : Nat → Nat → K) (Sy Sy' : Nat → Nat → Nat → Cx K) : Prop :=
  ∀ k i, i < n → ∀ j, j < n → Sy' i j k = cconj n Q (fun μ ν => Sy μ ν k) i j

/-- an admissible record only constrains the first `n` rows of the vectors -/
theorem SvdLineOf.congrU {n : Nat} {G U U' V : Nat → Nat → Cx K} {S : Nat → K}
    (h : SvdLineOf n G U V S) (he : ∀ i r, i < n → U' i r = U i r) : SvdLineOf n G U' V S where
  dec := fun i j hi hj => by
    rw [h.dec i j hi hj]
    exact Finset.sum_congr rfl (fun r _ => by rw [he i r hi])
  orthU := fun a b ha hb => by
    rw [← h.orthU a b ha hb]
    exact Finset.sum_congr rfl (fun i hi => by rw [he i a (mem_range.mp hi), he i b (mem_range.mp hi)])
  orthV := h.orthV
  nonneg := h.nonneg
  ordered := h.ordered

/-- **C08_mix_bell_admissible.**  For every admissible recorded SVD `(U, S, V)` of a line of the
    original run, what `MixRecord` states for the mixed run — `(Q·U, S)` with `Q·V` — is an
    admissible recorded SVD of the line of `Sy' = Q·Sy·Qᵀ`. -/
theorem C08_mix_bell_admissible (E E' : Ext K) (n : Nat) (Q : Nat → Nat → K) (hQ : OrthoOn n Q)
    (Sy Sy' : Nat → Nat → Nat → Cx K) (hS : MixedSy n Q Sy Sy') (hE : MixRecord E E' n Q Sy Sy')
    (k : Nat) (V : Nat → Nat → Cx K)
    (h : SvdLineOf n (fun i j => Sy i j k) (E.svd n n (fun i j => Sy i j k)).U V
      (E.svd n n (fun i j => Sy i j k)).S) :
    SvdLineOf n (fun i j => Sy' i j k) (E'.svd n n (fun i j => Sy' i j k)).U (cmix n Q V)
      (E'.svd n n (fun i j => Sy' i j k)).S := by
  rw [hE.S k]
  exact SvdLineOf.congrU ((h.mix Q hQ).congr (hS k)) (fun i r hi => hE.U k i r hi)

/-- **C08_mix_svalsvec.**  `SD_svalsvec(Sy')`: the same `S_val` array; on the `n` channels
    `S_vec'[c, :, k] = Q·S_vec[c, :, k]` for every stored vector. -/
theorem C08_mix_svalsvec (E E' : Ext K) (n nf : Nat) (Q : Nat → Nat → K)
    (Sy Sy' : Nat → Nat → Nat → Cx K) (hE : MixRecord E E' n Q Sy Sy') :
    (svalsvec E' n n nf Sy').1 = (svalsvec E n n nf Sy).1 ∧
    ∀ c i k, i < n → (svalsvec E' n n nf Sy').2 c i k
      = ∑ a ∈ range n, Cx.ofReal (Q i a) * (svalsvec E n n nf Sy).2 c a k := by
  simp only [svalsvec_eq, svalsvecSpec]
  constructor
  · funext i j k
    simp only [svalPlace, hE.S, hE.sqrt]
  · intro c i k hi
    simp only [svecPlace, hE.U k i c hi, conj_cmix]

theorem fddPick_ok_pos (nch nref nf : Nat) (freq s1 s2 : Nat → K) (sel DF : K) (p : Pick K)
    (h : fddPick nch nref nf freq s1 s2 sel DF = .ok p) : 0 < nch := by
  unfold fddPick at h
  split_ifs at h with h1 h2 h3
  omega

/-- how the results of one pass of `FDD_mpe` are related -/
def FirstRel (n : Nat) (Q : Nat → Nat → K) (mo mo' : ModeOut K) : Prop :=
  mo'.pick = mo.pick ∧ mo'.fn = mo.fn ∧ MixPhi n Q mo.phi mo'.phi

/-- **C08_mix_first_stage.**  `FDD_mpe(Sval, Svec', freq, sel_freq, DF1)` of the mixed run: the same
    exception, or for every selected frequency the same band, picked line, ratio maximum and
    frequency, and a unit-normalised shape that is NaN exactly when the original is and otherwise
    a non-zero complex multiple of `Q` times the original (`MixPhi`). -/
theorem C08_mix_first_stage (n nf : Nat) (Q : Nat → Nat → K) (hQ : OrthoOn n Q) (freq : Nat → K)
    (Sval : Nat → Nat → Nat → K) (Svec Svec' : Nat → Nat → Nat → Cx K)
    (hV : ∀ c i k, i < n → Svec' c i k = ∑ a ∈ range n, Cx.ofReal (Q i a) * Svec c a k)
    (sel : List K) (DF1 : K) :
    RelExcept (List.Forall₂ (FirstRel n Q)) (fddMpe n n nf freq Sval Svec sel DF1)
      (fddMpe n n nf freq Sval Svec' sel DF1) := by
  unfold fddMpe
  apply mapM_rel Eq (FirstRel n Q)
  · rintro s _ rfl
    unfold fddOne
    cases hp : fddPick n n nf freq (Sval 0 0) (Sval 1 1) s DF1 with
    | error e => exact rfl
    | ok p =>
      have hn := fddPick_ok_pos n n nf freq _ _ s DF1 p hp
      exact ⟨rfl, rfl, normalise_mix n hn Q hQ _ _ (fun i hi => hV 0 i p.idx hi)⟩
  · induction sel with
    | nil => exact List.Forall₂.nil
    | cons a l ih => exact List.Forall₂.cons rfl ih

/-- **C08_mix_bell_lines — the SDOF bell selection is the same set of lines.**  With the recorded
    factors of `MixRecord` and reference shapes related by `φ' = c·Q·φ` (`c ≠ 0`): on every line and
    for every close mode the MAC test `MAC(φ', S_vec'[csm, :, l]) > MAClim` has the same outcome
    (`MAC(Qx, Qy) = MAC(x, y)`, scale-free), the bell of the mixed run is `bellFactor m c` (`> 0`;
    `1` for EFDD, `|c|²` for FSDD) times the bell of the original run, and it is non-zero on the
    same lines. -/
theorem C08_mix_bell_lines (E E' : Ext K) (m : Method) (n cm nf : Nat) (dt : K) (Q : Nat → Nat → K)
    (hQ : OrthoOn n Q) (Sy Sy' : Nat → Nat → Nat → Cx K) (hS : MixedSy n Q Sy Sy')
    (hE : MixRecord E E' n Q Sy Sy') (phi phi' : Nat → Cx K) (c : Cx K) (hc : c ≠ 0)
    (hp : ∀ i, i < n → phi' i = c * ∑ a ∈ range n, Cx.ofReal (Q i a) * phi a)
    (sel DF2 MAClim : K) (l : Nat) :
    (∀ csm, maskAt n phi' (svalsvec E' n n nf Sy').2 MAClim csm l
      = maskAt n phi (svalsvec E n n nf Sy).2 MAClim csm l) ∧
    efddBell E' m n cm nf dt Sy' phi' sel DF2 MAClim l
      = Cx.smul (bellFactor m c) (efddBell E m n cm nf dt Sy phi sel DF2 MAClim l) ∧
    0 < bellFactor m c ∧
    (efddBell E' m n cm nf dt Sy' phi' sel DF2 MAClim l = 0
      ↔ efddBell E m n cm nf dt Sy phi sel DF2 MAClim l = 0) := by
  obtain ⟨h1, h2⟩ := C08_mix_svalsvec E E' n nf Q Sy Sy' hE
  have hb := sdofBell_mix m n cm nf dt Q hQ Sy Sy' (svalsvec E n n nf Sy).1 (svalsvec E n n nf Sy).2
    (svalsvec E' n n nf Sy').2 phi phi' c hc (fun l i hi j hj => hS l i hi j hj)
    (fun csm i l hi => h2 csm i l hi) hp sel DF2 MAClim l
  have hpos := bellFactor_pos m c hc
  refine ⟨hb.1, ?_, hpos, ?_⟩
  · simp only [efddBell, h1]; exact hb.2
  · simp only [efddBell, h1]; rw [hb.2]
    exact C07Bell.smul_eq_zero_iff _ (ne_of_gt hpos) _

/-- **C08_mix_bell_one — one pass of the loop of `EFDD_mpe`.**  With first-stage shapes related as
    `C08_mix_first_stage` states, the pass of the mixed run raises the same exception or returns
    the same `fn`, `xi`, bell support, extrema, fitted indices, `Td`, decrements and `lam`; only
    the appended shape differs (it is the first-stage shape of the mixed run). -/
theorem C08_mix_bell_one (E E' : Ext K) (m : Method) (ms : SyMethod) (n cm nf : Nat) (dt : K)
    (Q : Nat → Nat → K) (hQ : OrthoOn n Q) (Sy Sy' : Nat → Nat → Nat → Cx K) (hS : MixedSy n Q Sy Sy')
    (hE : MixRecord E E' n Q Sy Sy')
    (hlin : ∀ (s : K) (b : Nat → Cx K), 0 < s →
      E.ifft nf (fun l => Cx.smul s (b l)) = fun i => s * E.ifft nf b i)
    (DF2 MAClim : K) (sppk npmax : Nat) (sel : K) (phiL phiL' : Option (List (Cx K)))
    (hphi : MixPhi n Q phiL phiL') :
    efddOne E' m ms n cm nf dt Sy' DF2 MAClim sppk npmax sel phiL'
      = (efddOne E m ms n cm nf dt Sy DF2 MAClim sppk npmax sel phiL).map
          (fun mo => setPhi (phiL'.getD []) mo) := by
  cases phiL with
  | none =>
    cases phiL' with
    | none => rfl
    | some pl' => exact hphi.elim
  | some pl =>
    cases phiL' with
    | none => exact hphi.elim
    | some pl' =>
      obtain ⟨_, _, c, hc, hp⟩ := hphi
      rw [efddOne_eq_tail, efddOne_eq_tail]
      split_ifs with hband
      · rfl
      · have hb : efddBell E' m n cm nf dt Sy' (fun i => pl'.getD i 0) sel DF2 MAClim
            = fun l => Cx.smul (bellFactor m c)
                (efddBell E m n cm nf dt Sy (fun i => pl.getD i 0) sel DF2 MAClim l) := by
          funext l
          exact (C08_mix_bell_lines E E' m n cm nf dt Q hQ Sy Sy' hS hE _ _ c hc hp sel DF2 MAClim l).2.1
        have hlin' : ∀ (s : K) (b : Nat → Cx K), 0 < s →
            E'.ifft nf (fun l => Cx.smul s (b l)) = fun i => s * E'.ifft nf b i := by
          rw [hE.ifft]; exact hlin
        rw [hb, efddTail_smul E' ms nf dt sppk npmax pl pl' _ _ (bellFactor_pos m c hc) hlin']
        simp only [efddTail, hE.ifft, hE.sqrt, hE.log, hE.pi, hE.fit, Option.getD_some]

theorem zip_rel (n : Nat) (Q : Nat → Nat → K) (sel : List K) (modes modes' : List (ModeOut K))
    (h : List.Forall₂ (FirstRel n Q) modes modes') :
    List.Forall₂ (fun (x y : K × ModeOut K) => x.1 = y.1 ∧ MixPhi n Q x.2.phi y.2.phi)
      (sel.zip modes) (sel.zip modes') := by
  induction h generalizing sel with
  | nil => cases sel <;> exact List.Forall₂.nil
  | @cons a b l l' hab _ ih =>
    cases sel with
    | nil => exact List.Forall₂.nil
    | cons s sel => exact List.Forall₂.cons ⟨rfl, hab.2.2⟩ (ih sel)

/-- how the entries `EFDD_mpe` returns for one selected frequency are related: everything but the
    shape is equal, the shapes are related by `MixPhi` -/
def ModeRel (n : Nat) (Q : Nat → Nat → K) (mo mo' : ModeAll K) : Prop :=
  mo' = setPhi mo'.phi mo ∧ MixPhi n Q (some mo.phi) (some mo'.phi)

/-- **C08_mix_bell — EFDD / FSDD under orthogonal mixing of the channels, end to end.**
    `Sy' = Q·Sy·Qᵀ`, `Q` real orthogonal; library record of the mixed run as in `MixRecord`
    (admissible whenever the original record is: `C08_mix_bell_admissible`); inverse FFT
    homogeneous for positive factors.  Then the composed model of `EFDD_mpe` on the mixed run raises
    the same exception as on the original run, or returns, in the same order, for every selected
    frequency an entry with **identical** `fn`, `xi`, bell support `idSV`, post-processing record
    (crossings, extrema, fitted indices, `Td`, `fd`, ratios), `delta` and `lam`, and a shape that is
    a non-zero complex multiple of `Q` times the original shape. -/
theorem C08_mix_bell (E E' : Ext K) (m : Method) (ms : SyMethod) (n nf : Nat) (Q : Nat → Nat → K)
    (hQ : OrthoOn n Q) (Sy Sy' : Nat → Nat → Nat → Cx K) (hS : MixedSy n Q Sy Sy')
    (hE : MixRecord E E' n Q Sy Sy')
    (hlin : ∀ (s : K) (b : Nat → Cx K), 0 < s →
      E.ifft nf (fun l => Cx.smul s (b l)) = fun i => s * E.ifft nf b i)
    (freq : Nat → K) (dt : K) (sel : List K) (DF1 DF2 : K) (cm : Nat) (MAClim : K) (sppk npmax : Nat) :
    RelExcept (List.Forall₂ (ModeRel n Q))
      (efddMpe E m ms n nf Sy freq dt sel DF1 DF2 cm MAClim sppk npmax)
      (efddMpe E' m ms n nf Sy' freq dt sel DF1 DF2 cm MAClim sppk npmax) := by
  obtain ⟨h1, h2⟩ := C08_mix_svalsvec E E' n nf Q Sy Sy' hE
  have hfirst := C08_mix_first_stage n nf Q hQ freq (svalsvec E n n nf Sy).1 (svalsvec E n n nf Sy).2
    (svalsvec E' n n nf Sy').2 h2 sel DF1
  unfold efddMpe
  simp only [h1]
  cases hm : fddMpe n n nf freq (svalsvec E n n nf Sy).1 (svalsvec E n n nf Sy).2 sel DF1 with
  | error e =>
    cases hm' : fddMpe n n nf freq (svalsvec E n n nf Sy).1 (svalsvec E' n n nf Sy').2 sel DF1 with
    | error e' => rw [hm, hm'] at hfirst; exact hfirst
    | ok modes' => rw [hm, hm'] at hfirst; exact hfirst.elim
  | ok modes =>
    cases hm' : fddMpe n n nf freq (svalsvec E n n nf Sy).1 (svalsvec E' n n nf Sy').2 sel DF1 with
    | error e' => rw [hm, hm'] at hfirst; exact hfirst.elim
    | ok modes' =>
      rw [hm, hm'] at hfirst
      have hfirst : List.Forall₂ (FirstRel n Q) modes modes' := hfirst
      apply mapM_rel (fun (x y : K × ModeOut K) => x.1 = y.1 ∧ MixPhi n Q x.2.phi y.2.phi) (ModeRel n Q)
      · rintro ⟨s, mo⟩ ⟨s', mo'⟩ ⟨hs, hphi⟩
        simp only at hs hphi
        subst hs
        simp only
        rw [C08_mix_bell_one E E' m ms n cm nf dt Q hQ Sy Sy' hS hE hlin DF2 MAClim sppk npmax s
          mo.phi mo'.phi hphi]
        cases hone : efddOne E m ms n cm nf dt Sy DF2 MAClim sppk npmax s mo.phi with
        | error e => exact rfl
        | ok r =>
          have hr := (C07All.C07_one_spec E m ms n cm nf dt Sy DF2 MAClim sppk npmax s mo.phi r hone).1
          rw [hr] at hphi
          cases hp' : mo'.phi with
          | none => rw [hp'] at hphi; exact hphi.elim
          | some pl' =>
            rw [hp'] at hphi
            exact ⟨rfl, hphi⟩
      · exact zip_rel n Q sel modes modes' hfirst

theorem scalars_rel (n : Nat) (Q : Nat → Nat → K) (r r' : List (ModeAll K))
    (h : List.Forall₂ (ModeRel n Q) r r') :
    r'.map (fun mo => (mo.fn, mo.xi, mo.idSV, mo.post, mo.delta, mo.lam))
      = r.map (fun mo => (mo.fn, mo.xi, mo.idSV, mo.post, mo.delta, mo.lam)) := by
  induction h with
  | nil => rfl
  | @cons a b l l' hab _ ih =>
    rw [List.map_cons, List.map_cons, ih]
    congr 1
    rw [hab.1]; rfl

/-- the scalar estimates and scale-free diagnostics of every selected frequency -/
def scalars (r : Except String (List (ModeAll K))) :
    Except String (List (Option K × K × List Nat × Post K × List K × K)) :=
  r.map (fun l => l.map (fun mo => (mo.fn, mo.xi, mo.idSV, mo.post, mo.delta, mo.lam)))

/-- **C08_mix_bell_estimates.**  `Fn` and `Xi` of EFDD / FSDD (and the bell support, the fitted
    extrema, the decrements) are identical under orthogonal mixing of the channels — including
    which exception is raised. -/
theorem C08_mix_bell_estimates (E E' : Ext K) (m : Method) (ms : SyMethod) (n nf : Nat)
    (Q : Nat → Nat → K) (hQ : OrthoOn n Q) (Sy Sy' : Nat → Nat → Nat → Cx K) (hS : MixedSy n Q Sy Sy')
    (hE : MixRecord E E' n Q Sy Sy')
    (hlin : ∀ (s : K) (b : Nat → Cx K), 0 < s →
      E.ifft nf (fun l => Cx.smul s (b l)) = fun i => s * E.ifft nf b i)
    (freq : Nat → K) (dt : K) (sel : List K) (DF1 DF2 : K) (cm : Nat) (MAClim : K) (sppk npmax : Nat) :
    scalars (efddMpe E' m ms n nf Sy' freq dt sel DF1 DF2 cm MAClim sppk npmax)
      = scalars (efddMpe E m ms n nf Sy freq dt sel DF1 DF2 cm MAClim sppk npmax) := by
  have h := C08_mix_bell E E' m ms n nf Q hQ Sy Sy' hS hE hlin freq dt sel DF1 DF2 cm MAClim sppk npmax
  cases h1 : efddMpe E m ms n nf Sy freq dt sel DF1 DF2 cm MAClim sppk npmax with
  | error e =>
    cases h2 : efddMpe E' m ms n nf Sy' freq dt sel DF1 DF2 cm MAClim sppk npmax with
    | error e' => rw [h1, h2] at h; have h : e = e' := h; rw [h]
    | ok r' => rw [h1, h2] at h; exact h.elim
  | ok r =>
    cases h2 : efddMpe E' m ms n nf Sy' freq dt sel DF1 DF2 cm MAClim sppk npmax with
    | error e' => rw [h1, h2] at h; exact h.elim
    | ok r' =>
      rw [h1, h2] at h
      simp only [scalars, Except.map]
      congr 1
      exact scalars_rel n Q r r' h


/-! ## Channel permutation (the special case `Q = permQ σ`) -/

theorem sum_permQ (n : Nat) {σ τ : Nat → Nat} (hσ : PermOn n σ τ) (f : Nat → Cx K) (i : Nat) (hi : i < n) :
    ∑ a ∈ range n, Cx.ofReal (permQ (K := K) σ i a) * f a = f (σ i) := by
  rw [Finset.sum_eq_single (σ i)]
  · simp [permQ, Bell.ofReal_one]
  · intro a _ hne
    simp [permQ, hne, Bell.ofReal_zero]
  · intro h; exact absurd (mem_range.mpr (hσ.lt i hi)) h

/-- **C08_perm_is_mix.**  Channels listed in the order `σ 0, σ 1, …`: `Sy'[i, j] = Sy[σ i, σ j]` is
    `Q·Sy·Qᵀ` for the permutation matrix `Q = permQ σ` (orthogonal), and the recorded vectors with
    permuted rows `U'[i, r] = U[σ i, r]` are `Q·U`. -/
theorem C08_perm_is_mix (E E' : Ext K) (n : Nat) {σ τ : Nat → Nat} (hσ : PermOn n σ τ)
    (Sy Sy' : Nat → Nat → Nat → Cx K)
    (hS : ∀ k i, i < n → ∀ j, j < n → Sy' i j k = Sy (σ i) (σ j) k)
    (hSv : ∀ k, (E'.svd n n (fun i j => Sy' i j k)).S = (E.svd n n (fun i j => Sy i j k)).S)
    (hU : ∀ k i r, i < n → (E'.svd n n (fun i j => Sy' i j k)).U i r
      = (E.svd n n (fun i j => Sy i j k)).U (σ i) r)
    (hsame : E'.sqrt = E.sqrt ∧ E'.log = E.log ∧ E'.pi = E.pi ∧ E'.ifft = E.ifft ∧ E'.fit = E.fit) :
    OrthoOn n (permQ (K := K) σ) ∧ MixedSy n (permQ σ) Sy Sy' ∧ MixRecord E E' n (permQ σ) Sy Sy' := by
  refine ⟨permQ_ortho hσ, ?_, ⟨hSv, ?_, hsame.1, hsame.2.1, hsame.2.2.1, hsame.2.2.2.1, hsame.2.2.2.2⟩⟩
  · intro k i hi j hj
    rw [hS k i hi j hj]
    unfold cconj
    have e : ∀ μ ∈ range n, ∑ ν ∈ range n, Cx.ofReal (permQ (K := K) σ i μ) * Sy μ ν k * Cx.ofReal (permQ σ j ν)
        = Cx.ofReal (permQ (K := K) σ i μ) * Sy μ (σ j) k := by
      intro μ _
      have e2 : ∀ ν ∈ range n, Cx.ofReal (permQ (K := K) σ i μ) * Sy μ ν k * Cx.ofReal (permQ σ j ν)
          = Cx.ofReal (permQ (K := K) σ j ν) * (Cx.ofReal (permQ (K := K) σ i μ) * Sy μ ν k) := by
        intro ν _; ring
      rw [Finset.sum_congr rfl e2, sum_permQ n hσ (fun ν => Cx.ofReal (permQ (K := K) σ i μ) * Sy μ ν k) j hj]
    rw [Finset.sum_congr rfl e, sum_permQ n hσ (fun μ => Sy μ (σ j) k) i hi]
  · intro k i r hi
    rw [hU k i r hi]
    unfold cmix
    rw [sum_permQ n hσ (fun a => (E.svd n n (fun i j => Sy i j k)).U a r) i hi]

/-- under a permutation the shape of the permuted run is a non-zero multiple of the permuted shape -/
theorem MixPhi_perm (n : Nat) {σ τ : Nat → Nat} (hσ : PermOn n σ τ) (pl pl' : List (Cx K))
    (h : MixPhi n (permQ (K := K) σ) (some pl) (some pl')) :
    ∃ c : Cx K, c ≠ 0 ∧ ∀ i, i < n → pl'.getD i 0 = c * pl.getD (σ i) 0 := by
  obtain ⟨_, _, c, hc, hp⟩ := h
  refine ⟨c, hc, fun i hi => ?_⟩
  rw [hp i hi, sum_permQ n hσ (fun a => pl.getD a 0) i hi]

/-- **C08_perm_bell — EFDD / FSDD under a permutation of the channels.**  With the spectral array
    and the recorded vectors permuted accordingly, `EFDD_mpe` raises the same exception or returns
    identical `fn`, `xi`, bell support, fitted extrema, decrements, `lam` for every selected
    frequency, and shapes that are non-zero multiples of the permuted shapes. -/
theorem C08_perm_bell (E E' : Ext K) (m : Method) (ms : SyMethod) (n nf : Nat) {σ τ : Nat → Nat}
    (hσ : PermOn n σ τ) (Sy Sy' : Nat → Nat → Nat → Cx K)
    (hS : ∀ k i, i < n → ∀ j, j < n → Sy' i j k = Sy (σ i) (σ j) k)
    (hSv : ∀ k, (E'.svd n n (fun i j => Sy' i j k)).S = (E.svd n n (fun i j => Sy i j k)).S)
    (hU : ∀ k i r, i < n → (E'.svd n n (fun i j => Sy' i j k)).U i r
      = (E.svd n n (fun i j => Sy i j k)).U (σ i) r)
    (hsame : E'.sqrt = E.sqrt ∧ E'.log = E.log ∧ E'.pi = E.pi ∧ E'.ifft = E.ifft ∧ E'.fit = E.fit)
    (hlin : ∀ (s : K) (b : Nat → Cx K), 0 < s →
      E.ifft nf (fun l => Cx.smul s (b l)) = fun i => s * E.ifft nf b i)
    (freq : Nat → K) (dt : K) (sel : List K) (DF1 DF2 : K) (cm : Nat) (MAClim : K) (sppk npmax : Nat) :
    RelExcept (List.Forall₂ (fun mo mo' => mo' = setPhi mo'.phi mo ∧
        ∃ c : Cx K, c ≠ 0 ∧ ∀ i, i < n → mo'.phi.getD i 0 = c * mo.phi.getD (σ i) 0))
      (efddMpe E m ms n nf Sy freq dt sel DF1 DF2 cm MAClim sppk npmax)
      (efddMpe E' m ms n nf Sy' freq dt sel DF1 DF2 cm MAClim sppk npmax) := by
  obtain ⟨hQ, hM, hR⟩ := C08_perm_is_mix E E' n hσ Sy Sy' hS hSv hU hsame
  have h := C08_mix_bell E E' m ms n nf (permQ σ) hQ Sy Sy' hM hR hlin freq dt sel DF1 DF2 cm MAClim
    sppk npmax
  have hw : ∀ r r', List.Forall₂ (ModeRel n (permQ (K := K) σ)) r r' →
      List.Forall₂ (fun mo mo' => mo' = setPhi mo'.phi mo ∧
        ∃ c : Cx K, c ≠ 0 ∧ ∀ i, i < n → mo'.phi.getD i 0 = c * mo.phi.getD (σ i) 0) r r' := by
    intro r r' hr
    induction hr with
    | nil => exact List.Forall₂.nil
    | cons hab _ ih => exact List.Forall₂.cons ⟨hab.1, MixPhi_perm n hσ _ _ hab.2⟩ ih
  cases h1 : efddMpe E m ms n nf Sy freq dt sel DF1 DF2 cm MAClim sppk npmax with
  | error e =>
    cases h2 : efddMpe E' m ms n nf Sy' freq dt sel DF1 DF2 cm MAClim sppk npmax with
    | error e' => rw [h1, h2] at h; exact h
    | ok r' => rw [h1, h2] at h; exact h.elim
  | ok r =>
    cases h2 : efddMpe E' m ms n nf Sy' freq dt sel DF1 DF2 cm MAClim sppk npmax with
    | error e' => rw [h1, h2] at h; exact h.elim
    | ok r' => rw [h1, h2] at h; exact hw r r' h


/-! ## Non-vacuity -/
section examples
open PV.C07All

/-- a rotation of the two channels: `[[3/5, 4/5], [-4/5, 3/5]]` -/
def exQ : Nat → Nat → Rat := fun i j => if i = j then 3/5 else if i = 0 then 4/5 else -4/5

theorem exQ_ortho : OrthoOn 2 exQ := by
  intro a ha b hb
  interval_cases a <;> interval_cases b <;> simp [Finset.sum_range_succ, exQ] <;> norm_num

/-- `Q·Sy·Qᵀ` for the spectral array `C07All.exSy` (two channels, eight lines, `diag(s_l, 1)`) -/
def exSyQ : Nat → Nat → Nat → Cx Rat := fun i j k =>
  sumTo 2 (fun μ => sumTo 2 (fun ν => Cx.ofReal (exQ i μ) * exSy μ ν k * Cx.ofReal (exQ j ν)))

/-- the library record of the mixed run: `U' = Q·I`, singular values read off `Qᵀ·A·Q`; the other
    routines are those of `C07All.exE2` -/
def exEQ : Ext Rat :=
  { exE2 with
    svd := fun _ _ A =>
      ⟨fun i r => sumTo 2 (fun a => Cx.ofReal (exQ i a) * (if a = r then 1 else 0)),
       fun i => if i < 2 then
         (sumTo 2 (fun μ => sumTo 2 (fun ν => Cx.ofReal (exQ μ i) * A μ ν * Cx.ofReal (exQ ν i)))).re
       else 0⟩ }

theorem exMixedSy : MixedSy 2 exQ exSy exSyQ := by
  intro k i _ j _
  unfold exSyQ cconj
  rw [sumTo_eq]
  exact Finset.sum_congr rfl (fun μ _ => sumTo_eq _ _)

theorem exMixRecord : MixRecord exE2 exEQ 2 exQ exSy exSyQ where
  S := by
    intro k
    funext i
    by_cases hi : i < 2
    · have s2 : ∀ f : Nat → Cx Rat, sumTo 2 f = 0 + f 0 + f 1 := fun f => rfl
      interval_cases i <;>
        simp [exEQ, exE2, exSyQ, exSy, exQ, s2, Cx.ofReal] <;>
        generalize ([1, 2, 9, 2, 1, 1, 1, 1][k]?.getD 1 : Rat) = a <;> ring
    · have h0 : ¬ (i = 0) := by omega
      have h1 : ¬ (i = 1) := by omega
      simp [exEQ, exE2, exSy, h0, h1]
      intro h; omega
  U := by
    intro k i r _
    simp only [exEQ, exE2, cmix]
    rw [sumTo_eq]
  sqrt := rfl
  log := rfl
  pi := rfl
  ifft := rfl
  fit := rfl

theorem exLin (nf : Nat) : ∀ (s : Rat) (b : Nat → Cx Rat), 0 < s →
    exE2.ifft nf (fun l => Cx.smul s (b l)) = fun i => s * exE2.ifft nf b i := by
  intro s b _
  funext i
  simp only [exE2, Cx.smul_re]
  ring

/-- all hypotheses of `C08_mix_bell` hold jointly for this instance (a proper rotation) -/
example : OrthoOn 2 exQ ∧ MixedSy 2 exQ exSy exSyQ ∧ MixRecord exE2 exEQ 2 exQ exSy exSyQ ∧
    (∀ (s : Rat) (b : Nat → Cx Rat), 0 < s →
      exE2.ifft 8 (fun l => Cx.smul s (b l)) = fun i => s * exE2.ifft 8 b i) :=
  ⟨exQ_ortho, exMixedSy, exMixRecord, exLin 8⟩

/-- the two FSDD runs (original and rotated channels) -/
def exRunF : Except String (List (ModeAll Rat)) :=
  efddMpe exE2 .FSDD .per 2 8 exSy (fun i => (i : Rat)) (1/16) [2] 1 2 1 (17/20) 1 4
def exRunFQ : Except String (List (ModeAll Rat)) :=
  efddMpe exEQ .FSDD .per 2 8 exSyQ (fun i => (i : Rat)) (1/16) [2] 1 2 1 (17/20) 1 4

/-- … both return (so the conclusion of `C08_mix_bell` is about values, not about a shared
    exception): same bell support and fitted extrema; shape `(1, 0)` resp. `(-3/4, 1)`, which is
    `c·Q·(1, 0)` with `c = -5/4` — the FSDD bell of the rotated run is `25/16` times the original -/
theorem exRunF_ok : (match exRunF with
    | .ok l => l.map (fun (mo : ModeAll Rat) => (mo.phi.map (fun (z : Cx Rat) => (z.re, z.im)), mo.idSV, mo.post.fitIdx))
    | .error _ => []) = [([(1, 0), (0, 0)], [0, 1, 2, 3], [4, 6, 8, 10])] := by decide +kernel
theorem exRunFQ_ok : (match exRunFQ with
    | .ok l => l.map (fun (mo : ModeAll Rat) => (mo.phi.map (fun (z : Cx Rat) => (z.re, z.im)), mo.idSV, mo.post.fitIdx))
    | .error _ => []) = [([(-3/4, 0), (1, 0)], [0, 1, 2, 3], [4, 6, 8, 10])] := by decide +kernel
example : (efddBell exEQ .FSDD 2 1 8 (1/16) exSyQ (fun i => [(⟨-3/4, 0⟩ : Cx Rat), ⟨1, 0⟩].getD i 0) 2 2 (17/20) 2).re
    = 25/16 * (efddBell exE2 .FSDD 2 1 8 (1/16) exSy (fun i => [(⟨1, 0⟩ : Cx Rat), ⟨0, 0⟩].getD i 0) 2 2 (17/20) 2).re := by
  decide +kernel

/-- a swap of the two channels is a permutation (`C08_perm_bell`, `C08_perm_is_mix`) -/
example : PermOn 2 (fun a => 1 - a) (fun a => 1 - a) :=
  ⟨fun a h => by omega, fun a h => by omega, fun a h => by omega, fun a h => by omega⟩

end examples

end PV.C08MixBell
