import PyomaVerif.Props.C01Table
import PyomaVerif.Props.C01Stored
import PyomaVerif.Lemmas.PolesStored
/-!
# C01 — pole table JOINED with the stored tables: `ssiPoles` ∘ `run()`

`Props/C01Table.lean` ends at the tables the executable model `ssiPoles` returns (`ModeInTable`);
`Props/C01Stored.lean` starts from the OLD table model `polesTable` (`ssiRaw`) and ASSUMES its columns
(`hfill : OrderFilled`).  Here the run's unfiltered solution is `Poles.rawOf T` for the `T` that `ssiPoles`
returns, so nothing about the content of a column is assumed:

* `StoredMode` — what "the stored tables of the class hold this pole at `(k, n)`" means (the conclusion shared by
  all theorems below);
* `C09_table_survives` — any returning `ssiPoles` call, any `step`: a cell `(k, n)` of its tables whose values pass
  the enabled criteria is in the stored tables of every class program, unchanged;
* `C01_stored_of_table` — from `ModeInTable` (of the mode and of its conjugate) to `StoredMode`;
* `C01_e2e_cov_stored_table`, `C01_e2e_dat_stored_table` — from the free-vibration record to the stored tables:
  hypotheses of `C01_e2e_cov_table` / `_dat_table`, the criteria on the mode, and the `np.log` contract `hlog`
  (conjugate discrete poles get conjugate recorded `λ_c`; only used when `hc["conj"]` is on).  No `hfill`.
-/
namespace PV.C01StoredTable
open PV PV.Mat PV.Cov PV.Hc PV.HcFn PV.C09 PV.C09C18 PV.C09All PV.Stored PV.C09Stored PV.FreeVib PV.C11
open PV.C01E2E PV.Poles PV.C01Table PV.C01Stored Matrix

/-- **the stored tables of class `cl` hold the pole at `(k, n)`**: the hard-criteria part of `run()` (the program
    regenerated from `/repo`) terminates on the run data `p`; `Fn_poles`, `Xi_poles`, `Phi_poles` (and `Lambds`
    for the SSI classes) are the unfiltered tables blanked at the poles failing a criterion (`FiltOf`), the pole
    `(k, n)` is `Kept`, its cells hold `f`, `x`, the shape `s`, the pole `μ`; and extraction of `f` at order `n`
    from the STORED frequency table (`R × Cc`) returns a cell of column `n` holding `f`. -/
def StoredMode (p : Params (ℕ × ℕ)) (cl : ClassSpec) (conjOn : Bool) (R Cc k n : ℕ) (f x : ℚ)
    (s : List (Cx Rat)) (μ : Cx Rat) : Prop :=
  ∃ e' Tf Tx Tp, runOf cl conjOn false p = some e' ∧
    e' (retVar cl.prog "Fn_poles") = some (CVal.tbl Tf) ∧ FiltOf p conjOn false .fn Tf ∧
    e' (retVar cl.prog "Xi_poles") = some (CVal.tbl Tx) ∧ FiltOf p conjOn false .xi Tx ∧
    e' (retVar cl.prog "Phi_poles") = some (CVal.tbl Tp) ∧ FiltOf p conjOn false .phi Tp ∧
    Kept p conjOn false (k, n) ∧
    Tf (k, n) = some (.real f) ∧ Tx (k, n) = some (.real x) ∧ Tp (k, n) = some (shapeCell s) ∧
    (cl.hasCov = true → ∃ Tl, e' (retVar cl.prog "Lambds") = some (CVal.tbl Tl) ∧
      FiltOf p conjOn false .lam Tl ∧ Tl (k, n) = some (.cplx μ)) ∧
    ∀ (rtol : ℚ) (reqs : List (ℚ × Option ℕ)) (cells : List (ℕ × ℕ)), 0 ≤ rtol →
      Extracted (toMat R Cc Tf) rtol reqs cells → (f, some n) ∈ reqs →
      ∃ r', (r', n) ∈ cells ∧ (toMat R Cc Tf).e r' n = some f

/-- **C09_table_survives — the hard criteria applied to the tables `ssiPoles` returned.**  `inp` any input of the
    model of `ssi.SSI_poles` (any `step`, with or without `calc_unc`) on which it returns `T`; the run's data are
    `rawOf T` on the grid `ordmax × (ordmax/step + 1)`.  If the cells `(k, n)` of `T` hold frequency `f`, damping
    `x ∈ (0, xi_max)`, the shape `s` (one entry per channel) passing MPC / MPD, the pole `μ`, and — when
    `hc["conj"]` is on — some cell of `T.lam` holds `conj μ`, then the stored tables hold the pole (`StoredMode`). -/
theorem C09_table_survives (inp : SsiIn) (T : SsiTables) (hT : ssiPoles inp = .ok T)
    (cl : ClassSpec) (hcl : cl ∈ classes) (conjOn : Bool) (xiMax mpcLim mpdLim covMax : ℚ)
    (dir : Nat → (Nat → Cx Rat) → ℝ × ℝ) (k n : ℕ) (hk : k < inp.ordmax)
    (hn : n < inp.ordmax / inp.step + 1) (f x : ℚ) (s : List (Cpx ℚ)) (μ : Cpx ℚ)
    (hfn : T.fn.e k n = some f) (hxi : T.xi.e k n = some x)
    (hphi : ∀ t, T.phi.e k n t = (s[t]?).map toCQ) (hs : s.length = T.phi.d)
    (hlam : T.lam.e k n = some (toCQ μ))
    (hdamp : 0 < x ∧ x < xiMax) (hshape : ShapeOk dir mpcLim mpdLim (s.map cxOf))
    (hconj : conjOn = true → ∃ k' n', k' < inp.ordmax ∧ n' < inp.ordmax / inp.step + 1 ∧
      T.lam.e k' n' = some (toCQ (Cpx.conj μ))) :
    StoredMode ((rawOf T).params inp.ordmax (inp.ordmax / inp.step + 1) xiMax mpcLim mpdLim covMax dir)
      cl conjOn inp.ordmax (inp.ordmax / inp.step + 1) k n f x (s.map cxOf) (cxOf μ) := by
  obtain ⟨c1, c2, c3, c4⟩ := ssiPoles_raw inp T hT k n hk hn
  rw [hfn] at c1
  rw [hxi] at c2
  rw [hlam] at c3
  rw [phiCell_of_shape T.phi k n s hs hphi] at c4
  obtain ⟨e', Tf, Tx, Tp, he', hTf, fF, hTx, fX, hTp, fP, hkept, eF, eX, eP, hL⟩ :=
    C09_raw_survives (rawOf T) inp.ordmax (inp.ordmax / inp.step + 1) cl hcl conjOn xiMax mpcLim mpdLim covMax
      dir (k, n) ⟨hk, hn⟩ f x (s.map cxOf) (cxOf μ) c1 c2 c4 c3 hdamp hshape
      (fun hc => by
        obtain ⟨k', n', hk', hn', hc'⟩ := hconj hc
        obtain ⟨_, _, d3, _⟩ := ssiPoles_raw inp T hT k' n' hk' hn'
        rw [hc'] at d3
        exact ⟨(k', n'), hk', hn', _, d3, rfl, rfl⟩)
  refine ⟨e', Tf, Tx, Tp, he', hTf, fF, hTx, fX, hTp, fP, hkept, eF, eX, eP, hL, ?_⟩
  intro rtol reqs cells hr hex hreq
  refine C01C11.C01_extract _ rtol hr reqs cells hex _ n hreq ⟨k, hk, ?_⟩
  show (Tf (k, n)).bind Cell.real? = _
  rw [eF]; rfl

section main
variable {n : ℕ} (C : ℕ → Fin n → ℚ) (l : ℕ) (dt : ℝ) (lam : Cpx ℚ) (w : Fin n → Cpx ℚ) (mu : ℂ)

/-- **C01_stored_of_table — from the cells of the pole table to the stored tables.**  `ssiPoles` (`step = 1`)
    returned `T` with `l` components per shape; the mode and its conjugate are in column `n` (`ModeInTable`, the
    conclusion of `C01_table_of_recovered`).  Hypotheses on the mode: stored damping in `(0, xi_max)`, MPC / MPD of
    the true shape within the limits; `hlog`: conjugate recorded discrete poles have conjugate recorded `λ_c`. -/
theorem C01_stored_of_table (e : EigRec) (twoPi : ℚ) (inp : SsiIn) (T : SsiTables) (hT : ssiPoles inp = .ok T)
    (hstep : inp.step = 1) (hno : n ≤ inp.ordmax) (hd : T.phi.d = l)
    (hmode : ModeInTable C l dt lam w mu e twoPi T)
    (lam' : Cpx ℚ) (w' : Fin n → Cpx ℚ) (mu' : ℂ) (hlam' : lam' = Cpx.conj lam)
    (hmodec : ModeInTable C l dt lam' w' mu' e twoPi T)
    (hlog : ∀ j j', j < n → j' < n → lamsOf e j' = Cpx.conj (lamsOf e j) →
      e.lamc.getD j' 0 = Cpx.conj (e.lamc.getD j 0))
    (cl : ClassSpec) (hcl : cl ∈ classes) (conjOn : Bool) (xiMax mpcLim mpdLim covMax : ℚ)
    (dir : Nat → (Nat → Cx Rat) → ℝ × ℝ)
    (hdamp : ∀ k, k < n → lamsOf e k = lam →
      0 < xiOf (e.lamc.getD k 0) (e.absc.getD k 0) ∧ xiOf (e.lamc.getD k 0) (e.absc.getD k 0) < xiMax)
    (hshape : ShapeOk dir mpcLim mpdLim ((normalise (trueShape C l w)).map C01Stored.cx)) :
    ∃ k, k < n ∧ lamsOf e k = lam ∧
      StoredMode ((rawOf T).params inp.ordmax (inp.ordmax + 1) xiMax mpcLim mpdLim covMax dir) cl conjOn
        inp.ordmax (inp.ordmax + 1) k n (fnOf (e.absc.getD k 0) twoPi)
        (xiOf (e.lamc.getD k 0) (e.absc.getD k 0)) ((normalise (trueShape C l w)).map C01Stored.cx)
        (C01Stored.cx (e.lamc.getD k 0)) := by
  obtain ⟨⟨k, hk, hlk⟩, hall⟩ := hmode
  obtain ⟨⟨k', hk', hlk'⟩, hallc⟩ := hmodec
  obtain ⟨_, _, _, hfn, hxi, hlm, hphi, _⟩ := hall k hk hlk
  obtain ⟨_, _, _, _, _, hlm', _, _⟩ := hallc k' hk' hlk'
  have hw : inp.ordmax / inp.step + 1 = inp.ordmax + 1 := by rw [hstep, Nat.div_one]
  have hlen : (normalise (trueShape C l w)).length = T.phi.d := by
    rw [hd]; simp [normalise, trueShape]
  have := C09_table_survives inp T hT cl hcl conjOn xiMax mpcLim mpdLim covMax dir k n (by omega)
    (by rw [hw]; omega) _ _ (normalise (trueShape C l w)) (e.lamc.getD k 0) hfn hxi hphi hlen hlm
    (hdamp k hk hlk) hshape
    (fun _ => ⟨k', n, by omega, by rw [hw]; omega, by
      rw [hlm', hlog k k' hk hk' (by rw [hlk', hlk, hlam'])]⟩)
  rw [hw] at this
  exact ⟨k, hk, hlk, this⟩

end main

/-- the tables of `ssiPoles` on the lists of `SSI_fast` have `l` components per shape -/
theorem fast_phi_d (Rinvs : ℕ → Mat ℚ) (Q Obs : Mat ℚ) (l N : ℕ) (recs : List EigRec) (twoPi : ℚ)
    (unc : Option UncIn) (T : SsiTables)
    (hT : ssiPoles ⟨(fastLists Rinvs Q Obs l N 1).1, (fastLists Rinvs Q Obs l N 1).2, N, 1, recs, twoPi, unc⟩
      = .ok T) : T.phi.d = l := by
  obtain ⟨_, ⟨C0, hC0, hd⟩, _⟩ := ssiPoles_spec _ T hT
  have h0 := (fastLists_get Rinvs Q Obs l N 0 (Nat.zero_le _)).2
  have : (fastLists Rinvs Q Obs l N 1).2[0]? = some C0 := hC0
  rw [h0] at this
  rw [hd, ← Option.some.inj this]
  rfl

/-- **C01_e2e_cov_stored_table — covariance-driven SSI (`cov_mm`, fast routine): from the free-vibration record
    to the STORED tables, through the executable `ssiPoles`.**  Hypotheses of `C01_e2e_cov_table` (record, rank
    conditions, contracts `SvdOf`, `SqrtOf`, `QrC`, `EigOf` for the matrix the model of `SSI_fast` put at list
    position `n`, the eigen-record of order `n` with `n` values), plus — on the mode — stored damping in
    `(0, xi_max)` and MPC / MPD of the true shape within the limits, and the `np.log` contract `hlog` (used only
    when `hc["conj"]` is on; the conjugate partner itself is derived from `Mode.conj`).  NOT assumed: the content
    of any column (`hfill` of `C01_stored_cov`), which list entry goes to which column, that `SSI_poles` returns.
    Conclusion: `ssiPoles` on the lists `fastLists` builds returns `T`; the mode is in column `n` of `T`
    (`ModeInTable`); and for the run whose unfiltered solution is `rawOf T`, every class program stores the mode
    at `(k, n)` with these values, extraction from the stored frequency table returns it (`StoredMode`). -/
theorem C01_e2e_cov_stored_table {n : ℕ} (A : Matrix (Fin n) (Fin n) ℚ) (C : ℕ → Fin n → ℚ) (x0 : Fin n → ℚ)
    (Y Yref : Mat ℚ) (p : ℕ) (s : ℚ) (hl : 0 < Y.r) (hY : IsFreeResponse A C x0 Y)
    (Γr : Matrix (Fin ((p + 1) * Yref.r)) (Fin n) ℚ)
    (hΓ : gamMx A x0 Yref p s Y.c ((p + 1) * Yref.r) * Γr = 1)
    (Olp : Matrix (Fin n) (Fin (p * Y.r)) ℚ) (hObs : Olp * obsMx (p * Y.r) Y.r A C = 1)
    (U V : Mat ℚ) (S sq : ℕ → ℚ) (N : ℕ)
    (hsvd : SvdOf (hankMM Y Yref p s) U V S N) (hsq : SqrtOf sq S N)
    (Q R : Mat ℚ) (Rinvs : ℕ → Mat ℚ)
    (hqr : QrC (upPart (obsOf U sq N) Y.r) Q R (Rinvs n) (p * Y.r) N n)
    (recs : List EigRec) (twoPi : ℚ) (e : EigRec) (hn1 : 1 ≤ n) (hrecs : recs[n - 1]? = some e)
    (heig : EigOf n (fastA (Rinvs n) Q (dnPart (obsOf U sq N) Y.r) n) e.V (lamsOf e))
    (hlc : e.lamc.length = n) (hla : e.absc.length = n)
    (hwf : ∀ k, k < N → (recs.getD k EigRec.empty).absc.length ≤ N)
    (dt : ℝ) (hdt : 0 < dt) (lam : Cpx ℚ) (w : Fin n → Cpx ℚ) (mu : ℂ) (hm : Mode A dt lam w mu)
    (hlog : ∀ j j', j < n → j' < n → lamsOf e j' = Cpx.conj (lamsOf e j) →
      e.lamc.getD j' 0 = Cpx.conj (e.lamc.getD j 0))
    (cl : ClassSpec) (hcl : cl ∈ classes) (conjOn : Bool) (xiMax mpcLim mpdLim covMax : ℚ)
    (dir : Nat → (Nat → Cx Rat) → ℝ × ℝ)
    (hdamp : ∀ k, k < n → lamsOf e k = lam →
      0 < xiOf (e.lamc.getD k 0) (e.absc.getD k 0) ∧ xiOf (e.lamc.getD k 0) (e.absc.getD k 0) < xiMax)
    (hshape : ShapeOk dir mpcLim mpdLim ((normalise (trueShape C Y.r w)).map C01Stored.cx)) :
    ∃ T, ssiPoles ⟨(fastLists Rinvs Q (obsOf U sq N) Y.r N 1).1,
          (fastLists Rinvs Q (obsOf U sq N) Y.r N 1).2, N, 1, recs, twoPi, none⟩ = .ok T
      ∧ ModeInTable C Y.r dt lam w mu e twoPi T
      ∧ ∃ k, k < n ∧ lamsOf e k = lam ∧
        StoredMode ((rawOf T).params N (N + 1) xiMax mpcLim mpdLim covMax dir) cl conjOn N (N + 1) k n
          (fnOf (e.absc.getD k 0) twoPi) (xiOf (e.lamc.getD k 0) (e.absc.getD k 0))
          ((normalise (trueShape C Y.r w)).map C01Stored.cx) (C01Stored.cx (e.lamc.getD k 0)) := by
  obtain ⟨T, hT, hdim, _, hmode⟩ := C01_e2e_cov_table A C x0 Y Yref p s hl hY Γr hΓ Olp hObs U V S sq N hsvd hsq
    Q R Rinvs hqr recs twoPi e hn1 hrecs heig hlc hla hwf dt hdt lam w mu hm
  obtain ⟨T', hT', _, _, hmodec⟩ := C01_e2e_cov_table A C x0 Y Yref p s hl hY Γr hΓ Olp hObs U V S sq N hsvd hsq
    Q R Rinvs hqr recs twoPi e hn1 hrecs heig hlc hla hwf dt hdt _ _ _ hm.conj
  rw [hT] at hT'
  obtain rfl : T = T' := by injection hT'
  have hnN : n ≤ N := by
    obtain ⟨k, hk, hlk⟩ := hmode.1
    obtain ⟨_, _, _, hfn, _⟩ := hmode.2 k hk hlk
    obtain ⟨_, _, _, _, _, hnan⟩ := ssiPoles_spec _ T hT
    by_contra hlt
    have := (hnan n (fun k' hk' => by
      show N < n
      omega)).1 k
    rw [hfn] at this
    exact absurd this.1 (by simp)
  refine ⟨T, hT, hmode, ?_⟩
  exact C01_stored_of_table C Y.r dt lam w mu e twoPi _ T hT rfl hnN
    (fast_phi_d Rinvs Q (obsOf U sq N) Y.r N recs twoPi none T hT) hmode _ _ _ rfl hmodec hlog cl hcl conjOn
    xiMax mpcLim mpdLim covMax dir hdamp hshape

/-- **C01_e2e_dat_stored_table — the same for the data-driven Hankel matrix** (hypotheses of
    `C01_e2e_dat_table`). -/
theorem C01_e2e_dat_stored_table {n : ℕ} (A : Matrix (Fin n) (Fin n) ℚ) (C : ℕ → Fin n → ℚ) (x0 : Fin n → ℚ)
    (Y Yref : Mat ℚ) (p : ℕ) (s : ℚ) (hl : 0 < Y.r) (hY : IsFreeResponse A C x0 Y)
    (Γr : Matrix (Fin ((p + 1) * Yref.r)) (Fin n) ℚ)
    (hΓ : gamMx A x0 Yref p s Y.c ((p + 1) * Yref.r) * Γr = 1)
    (Olp : Matrix (Fin n) (Fin (p * Y.r)) ℚ) (hObs : Olp * obsMx (p * Y.r) Y.r A C = 1)
    (Rf : Mat ℚ) (hRc : Rf.c = (Yref.r + Y.r) * (p + 1))
    (hdq : DatQr (hankYs Y Yref p s) Rf ((p + 1) * Yref.r) ((p + 1) * Y.r) (Y.c - p - (p + 1) - 1))
    (U V : Mat ℚ) (S sq : ℕ → ℚ) (N : ℕ)
    (hsvd : SvdOf (hankDatOfR Rf Yref.r p) U V S N) (hsq : SqrtOf sq S N)
    (Q R : Mat ℚ) (Rinvs : ℕ → Mat ℚ)
    (hqr : QrC (upPart (obsOf U sq N) Y.r) Q R (Rinvs n) (p * Y.r) N n)
    (recs : List EigRec) (twoPi : ℚ) (e : EigRec) (hn1 : 1 ≤ n) (hrecs : recs[n - 1]? = some e)
    (heig : EigOf n (fastA (Rinvs n) Q (dnPart (obsOf U sq N) Y.r) n) e.V (lamsOf e))
    (hlc : e.lamc.length = n) (hla : e.absc.length = n)
    (hwf : ∀ k, k < N → (recs.getD k EigRec.empty).absc.length ≤ N)
    (dt : ℝ) (hdt : 0 < dt) (lam : Cpx ℚ) (w : Fin n → Cpx ℚ) (mu : ℂ) (hm : Mode A dt lam w mu)
    (hlog : ∀ j j', j < n → j' < n → lamsOf e j' = Cpx.conj (lamsOf e j) →
      e.lamc.getD j' 0 = Cpx.conj (e.lamc.getD j 0))
    (cl : ClassSpec) (hcl : cl ∈ classes) (conjOn : Bool) (xiMax mpcLim mpdLim covMax : ℚ)
    (dir : Nat → (Nat → Cx Rat) → ℝ × ℝ)
    (hdamp : ∀ k, k < n → lamsOf e k = lam →
      0 < xiOf (e.lamc.getD k 0) (e.absc.getD k 0) ∧ xiOf (e.lamc.getD k 0) (e.absc.getD k 0) < xiMax)
    (hshape : ShapeOk dir mpcLim mpdLim ((normalise (trueShape C Y.r w)).map C01Stored.cx)) :
    ∃ T, ssiPoles ⟨(fastLists Rinvs Q (obsOf U sq N) Y.r N 1).1,
          (fastLists Rinvs Q (obsOf U sq N) Y.r N 1).2, N, 1, recs, twoPi, none⟩ = .ok T
      ∧ ModeInTable C Y.r dt lam w mu e twoPi T
      ∧ ∃ k, k < n ∧ lamsOf e k = lam ∧
        StoredMode ((rawOf T).params N (N + 1) xiMax mpcLim mpdLim covMax dir) cl conjOn N (N + 1) k n
          (fnOf (e.absc.getD k 0) twoPi) (xiOf (e.lamc.getD k 0) (e.absc.getD k 0))
          ((normalise (trueShape C Y.r w)).map C01Stored.cx) (C01Stored.cx (e.lamc.getD k 0)) := by
  obtain ⟨T, hT, hdim, _, hmode⟩ := C01_e2e_dat_table A C x0 Y Yref p s hl hY Γr hΓ Olp hObs Rf hRc hdq U V S sq N
    hsvd hsq Q R Rinvs hqr recs twoPi e hn1 hrecs heig hlc hla hwf dt hdt lam w mu hm
  obtain ⟨T', hT', _, _, hmodec⟩ := C01_e2e_dat_table A C x0 Y Yref p s hl hY Γr hΓ Olp hObs Rf hRc hdq U V S sq N
    hsvd hsq Q R Rinvs hqr recs twoPi e hn1 hrecs heig hlc hla hwf dt hdt _ _ _ hm.conj
  rw [hT] at hT'
  obtain rfl : T = T' := by injection hT'
  have hnN : n ≤ N := by
    obtain ⟨k, hk, hlk⟩ := hmode.1
    obtain ⟨_, _, _, hfn, _⟩ := hmode.2 k hk hlk
    obtain ⟨_, _, _, _, _, hnan⟩ := ssiPoles_spec _ T hT
    by_contra hlt
    have := (hnan n (fun k' hk' => by
      show N < n
      omega)).1 k
    rw [hfn] at this
    exact absurd this.1 (by simp)
  refine ⟨T, hT, hmode, ?_⟩
  exact C01_stored_of_table C Y.r dt lam w mu e twoPi _ T hT rfl hnN
    (fast_phi_d Rinvs Q (obsOf U sq N) Y.r N recs twoPi none T hT) hmode _ _ _ rfl hmodec hlog cl hcl conjOn
    xiMax mpcLim mpdLim covMax dir hdamp hshape

/-! ## Non-vacuity: the instance of `Props/C01Table.lean` (`Ex`: damped rotation, `cov_mm`, eigen-records `e1`, `e2`
with `λ_c = −29 ± 157i`, `|λ_c| = 160`, `2π := 7`) satisfies every hypothesis of `C01_e2e_cov_stored_table` with
the conjugate criterion ON, `xi_max = 1/5` (stored damping `29/160`), `mpc_lim = 7/10`, `mpd_lim = 2`. -/
namespace Ex
open PV.C01E2E.Ex PV.C01Table.Ex

theorem hlog : ∀ j j', j < 2 → j' < 2 → lamsOf e2 j' = Cpx.conj (lamsOf e2 j) →
    e2.lamc.getD j' 0 = Cpx.conj (e2.lamc.getD j 0) := by
  intro j j' hj hj'
  obtain rfl | rfl : j = 0 ∨ j = 1 := by omega
  all_goals (obtain rfl | rfl : j' = 0 ∨ j' = 1 := by omega) <;> decide +kernel

theorem stored (cl : ClassSpec) (hcl : cl ∈ classes) :
    ∃ T, ssiPoles ⟨(fastLists (fun _ => Rinv) Q (obsOf U sq 2) Y.r 2 1).1,
          (fastLists (fun _ => Rinv) Q (obsOf U sq 2) Y.r 2 1).2, 2, 1, [e1, e2], 7, none⟩ = .ok T
      ∧ ModeInTable C Y.r (1 / 100) lam w mu e2 7 T
      ∧ ∃ k, k < 2 ∧ lamsOf e2 k = lam ∧
        StoredMode ((rawOf T).params 2 (2 + 1) (1 / 5) (7 / 10) 2 1 (fun _ _ => (1, -1))) cl true 2 (2 + 1) k 2
          (fnOf (e2.absc.getD k 0) 7) (xiOf (e2.lamc.getD k 0) (e2.absc.getD k 0))
          ((normalise (trueShape C Y.r w)).map C01Stored.cx) (C01Stored.cx (e2.lamc.getD k 0)) :=
  C01_e2e_cov_stored_table A C x0 Y Y 1 1 (by decide) free Γr hΓ Olp hObs U V S sq 2 hsvd hsq Q R (fun _ => Rinv)
    hqr [e1, e2] 7 e2 (by decide) rfl
    (eigOf_congr (eig_of _ (by decide +kernel)) (fun k hk => by
      obtain rfl | rfl : k = 0 ∨ k = 1 := by omega
      all_goals rfl))
    rfl rfl
    (fun k hk => by
      obtain rfl | rfl : k = 0 ∨ k = 1 := by omega
      all_goals decide)
    (1 / 100) (by norm_num) lam w mu mode hlog cl hcl true (1 / 5) (7 / 10) 2 1 (fun _ _ => (1, -1))
    (fun k hk _ => by
      obtain rfl | rfl : k = 0 ∨ k = 1 := by omega
      all_goals decide +kernel)
    C01Stored.Ex.shapeOk

/-- the values behind `stored`: the mode sits at `(0, 2)`; frequency `160/7`, damping `29/160` -/
example (cl : ClassSpec) (hcl : cl ∈ classes) : ∃ T k, k < 2 ∧
    StoredMode ((rawOf T).params 2 (2 + 1) (1 / 5) (7 / 10) 2 1 (fun _ _ => (1, -1))) cl true 2 (2 + 1) k 2
      (160 / 7) (29 / 160) [⟨1, 0⟩, ⟨0, -1⟩] ⟨-29, 157⟩ := by
  obtain ⟨T, _, _, k, hk, hlk, hst⟩ := stored cl hcl
  have hk0 : k = 0 := by
    obtain rfl | rfl : k = 0 ∨ k = 1 := by omega
    · rfl
    · exact absurd hlk (by decide +kernel)
  subst hk0
  refine ⟨T, 0, by decide, ?_⟩
  have h1 : fnOf (e2.absc.getD 0 0) 7 = 160 / 7 := by decide +kernel
  have h2 : xiOf (e2.lamc.getD 0 0) (e2.absc.getD 0 0) = 29 / 160 := by decide +kernel
  have h3 : (normalise (trueShape C Y.r w)).map C01Stored.cx = [⟨1, 0⟩, ⟨0, -1⟩] := C01Stored.Ex.shape_val
  rw [h1, h2, h3] at hst
  exact hst

end Ex

end PV.C01StoredTable
