import PyomaVerif.Model.BuildHank
import PyomaVerif.Lemmas.Sum
import PyomaVerif.Props.C12
import Mathlib.Tactic.Ring
import Mathlib.Tactic.FieldSimp
import Mathlib.Algebra.Field.Basic
/-!
# C12 / C17 — `ssi.build_hank` as one function (`Model/BuildHank.buildHank`)

Theorems about the executable `buildHank` (op `build_hank`, streams `build_hank[dispatch|short|whole]`):
which exception for which argument combination (`C12_dispatch_*`), that a second component other than `None`
is returned exactly for `method = "cov_mm"` with `calc_unc is True` (`C17_unc_only_cov_mm`), the entry formulas with
the weights the CODE computes — `1/N` with `N = Ndat − 2br − 1` (`C12_mm_entry_N`) and `1/(Ndat − k)`
(`C12_R_entry_N`) — and the outcome on records too short for one averaged product (`C12_short_*`).
-/
namespace PV.C12
open PV PV.Mat PV.Unc Finset

variable {K : Type}

theorem bind_err {α β ε : Type} (x : Except ε α) (f : α → Except ε β) (e : ε) (h : x >>= f = .error e) :
    x = .error e ∨ ∃ a, x = .ok a ∧ f a = .error e := by
  cases x <;> simp_all [bind, Except.bind]

theorem bind_ok {α β ε : Type} (x : Except ε α) (f : α → Except ε β) (b : β) (h : x >>= f = .ok b) :
    ∃ a, x = .ok a ∧ f a = .ok b := by
  cases x <;> simp_all [bind, Except.bind]

theorem hankStacks_err [Mul K] (rs : Int → K) (Y Yref : Mat K) (p : Nat) (e : HankErr)
    (h : hankStacks rs Y Yref p = .error e) : e = .zeroDiv ∨ e = .valueErr := by
  unfold hankStacks vstackChk at h
  simp only [bind, Except.bind, pure, Except.pure] at h
  split_ifs at h <;> simp_all

section core
variable [Zero K] [Add K] [Sub K] [Mul K] [Div K] [NatCast K]

theorem hankUnc_err (Yf Yp : Mat K) (N : Int) (nb : Nat) (sT : K) (e : HankErr)
    (h : hankUnc Yf Yp N nb sT = .error e) : e = .zeroDiv ∨ e = .typeErr := by
  unfold hankUnc at h
  split_ifs at h
  · simp_all
  · simp_all
  · split at h <;> simp_all

/-- the exceptions of `buildHank` once the first guard is passed, by branch -/
theorem buildHank_err_cases (rs : Int → K) (sT : K) (qr : Mat K → Mat K) (Y Yref : Mat K) (br : Nat)
    (method : String) (cu : UncFlag) (nb : Nat) (e : HankErr)
    (hg : ¬(cu ≠ .off ∧ method ≠ "cov_mm"))
    (h : buildHank rs sT qr Y Yref br method cu nb = .error e) :
    (method = "cov_mm" ∧ (e = .zeroDiv ∨ e = .valueErr ∨ e = .typeErr)) ∨
    (method = "cov_R" ∧ e = .zeroDiv) ∨
    (method = "dat" ∧ (e = .zeroDiv ∨ e = .valueErr)) ∨
    (method ≠ "cov_mm" ∧ method ≠ "cov_R" ∧ method ≠ "dat" ∧ e = .attrMethod) := by
  unfold buildHank at h
  simp only [hg, if_false] at h
  by_cases h1 : method = "cov_mm"
  · rw [if_pos h1] at h
    left
    refine ⟨h1, ?_⟩
    rcases bind_err _ _ _ h with hs | ⟨⟨Yf, Yp⟩, -, hf⟩
    · rcases hankStacks_err _ _ _ _ _ hs with rfl | rfl <;> simp
    · simp only at hf
      by_cases h4 : Yf.c ≠ Yp.c
      · rw [if_pos h4] at hf; simp_all
      · rw [if_neg h4] at hf
        by_cases h5 : cu = .on
        · rw [if_pos h5] at hf
          rcases bind_err _ _ _ hf with hu | ⟨T, -, hp⟩
          · rcases hankUnc_err _ _ _ _ _ _ hu with rfl | rfl <;> simp
          · simp [pure, Except.pure] at hp
        · rw [if_neg h5] at hf
          simp [pure, Except.pure] at hf
  · rw [if_neg h1] at h
    by_cases h2 : method = "cov_R"
    · rw [if_pos h2] at h
      right; left
      refine ⟨h2, ?_⟩
      split_ifs at h
      · simp_all
      · simp [pure, Except.pure] at h
    · rw [if_neg h2] at h
      by_cases h3 : method = "dat"
      · rw [if_pos h3] at h
        right; right; left
        refine ⟨h3, ?_⟩
        rcases bind_err _ _ _ h with hs | ⟨⟨Yf, Yp⟩, -, hf⟩
        · rcases hankStacks_err _ _ _ _ _ hs with rfl | rfl <;> simp
        · simp only at hf
          split_ifs at hf
          · simp_all
          · simp [pure, Except.pure] at hf
      · rw [if_neg h3] at h
        right; right; right
        exact ⟨h1, h2, h3, by simp_all⟩

/-- **Dispatch, first guard.** `AttributeError("Uncertainty calculations are only available …")` is raised exactly
    when `calc_unc` is true (any true value) and the method is not `"cov_mm"` — whatever the data, the record
    length and the method string (valid or not). -/
theorem C12_dispatch_attrUnc (rs : Int → K) (sT : K) (qr : Mat K → Mat K) (Y Yref : Mat K) (br : Nat)
    (method : String) (cu : UncFlag) (nb : Nat) :
    buildHank rs sT qr Y Yref br method cu nb = .error .attrUnc ↔ (cu ≠ .off ∧ method ≠ "cov_mm") := by
  constructor
  · intro h
    by_contra hg
    have := buildHank_err_cases rs sT qr Y Yref br method cu nb _ hg h
    simp at this
  · intro hg
    unfold buildHank
    simp [hg]

/-- **Dispatch, final `else`.** `AttributeError(f"{method} is not a valid argument …")` is raised exactly when
    `calc_unc` is false and the method is none of the three strings; no other argument matters. -/
theorem C12_dispatch_attrMethod (rs : Int → K) (sT : K) (qr : Mat K → Mat K) (Y Yref : Mat K) (br : Nat)
    (method : String) (cu : UncFlag) (nb : Nat) :
    buildHank rs sT qr Y Yref br method cu nb = .error .attrMethod ↔
      (cu = .off ∧ method ≠ "cov_mm" ∧ method ≠ "cov_R" ∧ method ≠ "dat") := by
  constructor
  · intro h
    by_cases hg : cu ≠ .off ∧ method ≠ "cov_mm"
    · rw [(C12_dispatch_attrUnc rs sT qr Y Yref br method cu nb).2 hg] at h
      simp at h
    · have := buildHank_err_cases rs sT qr Y Yref br method cu nb _ hg h
      simp at this
      refine ⟨?_, this⟩
      by_contra hc
      exact hg ⟨hc, this.1⟩
  · rintro ⟨rfl, h1, h2, h3⟩
    unfold buildHank
    simp [h1, h2, h3]

/-- **An unknown method never returns** (the code has no fall-back branch): for a method string other than the three,
    the outcome is one of the two `AttributeError`s, decided by `calc_unc` alone. -/
theorem C12_dispatch (rs : Int → K) (sT : K) (qr : Mat K → Mat K) (Y Yref : Mat K) (br : Nat)
    (method : String) (cu : UncFlag) (nb : Nat)
    (h1 : method ≠ "cov_mm") (h2 : method ≠ "cov_R") (h3 : method ≠ "dat") :
    buildHank rs sT qr Y Yref br method cu nb = .error (if cu = .off then .attrMethod else .attrUnc) := by
  by_cases hc : cu = .off
  · simp only [hc, if_true]
    exact (C12_dispatch_attrMethod rs sT qr Y Yref br method .off nb).2 ⟨rfl, h1, h2, h3⟩
  · simp only [hc, if_false]
    exact (C12_dispatch_attrUnc rs sT qr Y Yref br method cu nb).2 ⟨hc, h1⟩

/-- **C17 clause 1: the uncertainty factor exists only for the moment-matrix method with `calc_unc is True`.**
    Whenever `build_hank` returns, its second component is something other than `None` exactly when
    `method == "cov_mm"` and `calc_unc is True`; with `calc_unc` true and any other method it does not return at
    all (`C12_dispatch_attrUnc`). -/
theorem C17_unc_only_cov_mm (rs : Int → K) (sT : K) (qr : Mat K → Mat K) (Y Yref : Mat K) (br : Nat)
    (method : String) (cu : UncFlag) (nb : Nat) (o : HankOut K)
    (h : buildHank rs sT qr Y Yref br method cu nb = .ok o) :
    (o.T = .nonFinite ∨ ∃ T, o.T = .factor T) ↔ (method = "cov_mm" ∧ cu = .on) := by
  unfold buildHank at h
  by_cases hg : cu ≠ .off ∧ method ≠ "cov_mm"
  · rw [if_pos hg] at h; simp at h
  rw [if_neg hg] at h
  by_cases h1 : method = "cov_mm"
  · rw [if_pos h1] at h
    obtain ⟨⟨Yf, Yp⟩, -, hf⟩ := bind_ok _ _ _ h
    simp only at hf
    by_cases h4 : Yf.c ≠ Yp.c
    · rw [if_pos h4] at hf; simp at hf
    rw [if_neg h4] at hf
    by_cases h5 : cu = .on
    · rw [if_pos h5] at hf
      obtain ⟨T, hu, hp⟩ := bind_ok _ _ _ hf
      simp only [pure, Except.pure, Except.ok.injEq] at hp
      subst hp
      simp only [h1, h5, and_self, iff_true]
      unfold hankUnc at hu
      split_ifs at hu
      split at hu
      · simp at hu
      · simp only [Except.ok.injEq] at hu; exact Or.inl hu.symm
      · simp only [Except.ok.injEq] at hu; exact Or.inr ⟨_, hu.symm⟩
    · rw [if_neg h5] at hf
      simp only [pure, Except.pure, Except.ok.injEq] at hf
      subst hf
      simp [h5]
  · rw [if_neg h1] at h
    by_cases h2 : method = "cov_R"
    · rw [if_pos h2] at h
      split_ifs at h
      simp only [pure, Except.pure, Except.ok.injEq] at h
      subst h
      simp [h1]
    · rw [if_neg h2] at h
      by_cases h3 : method = "dat"
      · rw [if_pos h3] at h
        obtain ⟨⟨Yf, Yp⟩, -, hf⟩ := bind_ok _ _ _ h
        simp only at hf
        split_ifs at hf
        simp only [pure, Except.pure, Except.ok.injEq] at hf
        subst hf
        simp [h1]
      · rw [if_neg h3] at h; simp at h

end core

theorem vstackChk_ok (n h : Nat) (blk : Nat → Mat K) (M : Mat K) (hM : vstackChk n h blk = .ok M) :
    M = vstackN n h (blk 0).c blk := by
  unfold vstackChk at hM
  split_ifs at hM
  simp only [Except.ok.injEq] at hM
  exact hM.symm

section field
variable [Field K]

/-- **Correlation method: the weight is `1/(Ndat − k)` and the record needs `Ndat ≥ 2br+1` samples.**
    `build_hank(Y, Yref, br, "cov_R")` raises `ZeroDivisionError` exactly for `Ndat ≤ 2br` … -/
theorem C12_R_zeroDiv_iff (rs : Int → K) (sT : K) (qr : Mat K → Mat K) (Y Yref : Mat K) (br nb : Nat) :
    buildHank rs sT qr Y Yref br "cov_R" .off nb = .error .zeroDiv ↔ Y.c ≤ 2 * br := by
  unfold buildHank
  simp only [ne_eq, not_true_eq_false, false_and, if_false, show ("cov_R" : String) ≠ "cov_mm" by decide, if_true]
  by_cases h : Y.c ≤ 2 * br
  · have : (List.range (br + (br + 1))).any (fun k => Y.c - k == 0) = true := by
      rw [List.any_eq_true]; exact ⟨Y.c, by simp; omega, by simp⟩
    simp [this, h]
  · have : (List.range (br + (br + 1))).any (fun k => Y.c - k == 0) = false := by
      rw [List.any_eq_false]; intro k hk; simp at hk ⊢; omega
    simp [this, h, pure, Except.pure]

/-- … and for every longer record returns `(Hank, None)`, real, of shape `(br+1)·l × (br+1)·r`, whose entry
    (block row `i`, channel `a`; block column `j`, reference `b`) is
    `1/(Ndat − k) · Σ_{t < Ndat−k} Y[a,t]·Yref[b,t+k]`, `k = br + i − j` — with the weight the code computes. -/
theorem C12_R_entry_N (rs : Int → K) (sT : K) (qr : Mat K → Mat K) (Y Yref : Mat K) (br nb : Nat)
    (hN : 2 * br + 1 ≤ Y.c) :
    ∃ o, buildHank rs sT qr Y Yref br "cov_R" .off nb = .ok o ∧ o.cplx = false ∧
      o.hank.r = (br + 1) * Y.r ∧ o.hank.c = (br + 1) * Yref.r ∧
      ∀ i a j b, a < Y.r → b < Yref.r →
        o.hank.e (i * Y.r + a) (j * Yref.r + b)
          = 1 / ((Y.c - (br + i - j) : ℕ) : K) * ∑ t ∈ range (Y.c - (br + i - j)),
              Y.e a t * Yref.e b (br + i - j + t) := by
  have hany : (List.range (br + (br + 1))).any (fun k => Y.c - k == 0) = false := by
    rw [List.any_eq_false]; intro k hk; simp at hk ⊢; omega
  refine ⟨⟨hankR Y Yref br (fun k => ((1 : Nat) : K) / ((Y.c - k : Nat) : K)), false, .none⟩, ?_, rfl, ?_, ?_, ?_⟩
  · unfold buildHank
    simp [hany, pure, Except.pure]
  · exact (C12_shape_R Y Yref br _).1
  · exact (C12_shape_R Y Yref br _).2
  · intro i a j b ha hb
    rw [C12_R_entry Y Yref br _ i a j b ha hb]
    simp

/-- the two stacked matrices for a record with `N = Ndat − 2br − 1 ≥ 1`: no slice is clipped, no exception -/
theorem hankStacks_long (rs : Int → K) (Y Yref : Mat K) (p : Nat) (hN : 2 * p + 2 ≤ Y.c) (hc : Yref.c = Y.c) :
    ∃ Yf Yp, hankStacks rs Y Yref p = .ok (Yf, Yp) ∧
      Yf.r = (p + 1) * Y.r ∧ Yp.r = (p + 1) * Yref.r ∧ Yf.c = Y.c - 2 * p - 2 ∧ Yp.c = Y.c - 2 * p - 2 ∧
      (∀ i a t, i ≤ p → a < Y.r → Yf.e (i * Y.r + a) t = rs ((Y.c - 2 * p - 1 : ℕ) : ℤ) * Y.e a (p + 2 + i + t)) ∧
      (∀ j b t, j ≤ p → b < Yref.r → Yp.e (j * Yref.r + b) t = rs ((Y.c - 2 * p - 1 : ℕ) : ℤ) * Yref.e b (p + 1 - j + t)) := by
  have hNeq : ((Y.c : ℤ) - p - ((p : ℤ) + 1)) = ((Y.c - 2 * p - 1 : ℕ) : ℤ) := by omega
  have hN0 : ((Y.c : ℤ) - p - ((p : ℤ) + 1)) ≠ 0 := by omega
  have hf : (List.range (p + 1)).all (fun i =>
      (scale (rs ((Y.c : ℤ) - p - ((p : ℤ) + 1))) (colSlicePy Y ((p : ℤ) + 1 + 1 + i) ((Y.c : ℤ) - p - ((p : ℤ) + 1) + ((p : ℤ) + 1) + i))).c ==
      (scale (rs ((Y.c : ℤ) - p - ((p : ℤ) + 1))) (colSlicePy Y ((p : ℤ) + 1 + 1 + (0 : ℕ)) ((Y.c : ℤ) - p - ((p : ℤ) + 1) + ((p : ℤ) + 1) + (0 : ℕ)))).c) = true := by
    rw [List.all_eq_true]; intro i hi
    simp only [List.mem_range] at hi
    simp only [scale, colSlicePy, pySliceIdx, beq_iff_eq]
    split_ifs <;> omega
  have hp : (List.range (p + 1)).all (fun j =>
      (scale (rs ((Y.c : ℤ) - p - ((p : ℤ) + 1))) (colSlicePy Yref ((p : ℤ) + 1 - j) ((Y.c : ℤ) - p - ((p : ℤ) + 1) + ((p : ℤ) + 1) - 1 - j))).c ==
      (scale (rs ((Y.c : ℤ) - p - ((p : ℤ) + 1))) (colSlicePy Yref ((p : ℤ) + 1 - (0 : ℕ)) ((Y.c : ℤ) - p - ((p : ℤ) + 1) + ((p : ℤ) + 1) - 1 - (0 : ℕ)))).c) = true := by
    rw [List.all_eq_true]; intro j hj
    simp only [List.mem_range] at hj
    simp only [scale, colSlicePy, pySliceIdx, beq_iff_eq, hc]
    split_ifs <;> omega
  unfold hankStacks vstackChk
  simp only [hN0, if_false, hf, hp, if_true, bind, Except.bind, pure, Except.pure]
  refine ⟨_, _, rfl, ?_⟩
  · refine ⟨by simp [vstackN, scale, colSlicePy], by simp [vstackN, scale, colSlicePy], ?_, ?_, ?_, ?_⟩
    · simp only [vstackN, scale, colSlicePy, pySliceIdx]; split_ifs <;> omega
    · simp only [vstackN, scale, colSlicePy, pySliceIdx, hc]; split_ifs <;> omega
    · intro i a t hi ha
      simp only [vstackN, scale, colSlicePy, blk_div i ha, blk_mod i ha, hNeq]
      congr 2
      simp only [pySliceIdx]; split_ifs <;> omega
    · intro j b t hj hb
      simp only [vstackN, scale, colSlicePy, blk_div j hb, blk_mod j hb, hNeq]
      congr 2
      simp only [pySliceIdx, hc]; split_ifs <;> omega

/-- whenever the `cov_mm` branch returns, `Hank = np.dot(Yf, Yp.T)` of the two stacks -/
theorem buildHank_mm_hank (rs : Int → K) (sT : K) (qr : Mat K → Mat K) (Y Yref : Mat K) (br : Nat)
    (cu : UncFlag) (nb : Nat) (o : HankOut K) (Yf Yp : Mat K)
    (hs : hankStacks rs Y Yref br = .ok (Yf, Yp))
    (h : buildHank rs sT qr Y Yref br "cov_mm" cu nb = .ok o) :
    o.hank = mulT Yf Yp ∧ o.cplx = decide ((Y.c : ℤ) - br - ((br : ℤ) + 1) < 0) := by
  unfold buildHank at h
  simp only [ne_eq, not_true_eq_false, and_false, if_false, if_true] at h
  rw [hs] at h
  obtain ⟨⟨Yf', Yp'⟩, hEq, hf⟩ := bind_ok _ _ _ h
  simp only [Except.ok.injEq, Prod.mk.injEq] at hEq
  obtain ⟨rfl, rfl⟩ := hEq
  simp only at hf
  by_cases h4 : Yf.c ≠ Yp.c
  · rw [if_pos h4] at hf; simp at hf
  rw [if_neg h4] at hf
  by_cases h5 : cu = .on
  · rw [if_pos h5] at hf
    obtain ⟨T, -, hp⟩ := bind_ok _ _ _ hf
    simp only [pure, Except.pure, Except.ok.injEq] at hp
    subst hp; exact ⟨rfl, by simp⟩
  · rw [if_neg h5] at hf
    simp only [pure, Except.pure, Except.ok.injEq] at hf
    subst hf; exact ⟨rfl, by simp⟩

/-- **Moment-matrix method: the weight is `1/N`, `N = Ndat − 2br − 1`.**  For a record with `N ≥ 1`
    (`Ndat ≥ 2br + 2`) and the square-root contract `(1/N**0.5)² = 1/N` on the value the code computes, whatever
    `build_hank(Y, Yref, br, "cov_mm", calc_unc, nb)` returns has a REAL Hankel matrix of shape
    `(br+1)·l × (br+1)·r` whose entry (block `i`, channel `a`; block `j`, reference `b`) is
    `1/N · Σ_{t < N−1} Y[a, br+2+i+t] · Yref[b, br+1−j+t]`.  (`hc`: both arrays have the same number of samples —
    the callers pass `Yref = Y[ref_ind, :]`.) -/
theorem C12_mm_entry_N (rs : Int → K) (sT : K) (qr : Mat K → Mat K) (Y Yref : Mat K) (br : Nat)
    (cu : UncFlag) (nb : Nat) (hN : 2 * br + 2 ≤ Y.c) (hc : Yref.c = Y.c)
    (hrs : rs ((Y.c - 2 * br - 1 : ℕ) : ℤ) * rs ((Y.c - 2 * br - 1 : ℕ) : ℤ) = 1 / ((Y.c - 2 * br - 1 : ℕ) : K))
    (o : HankOut K) (h : buildHank rs sT qr Y Yref br "cov_mm" cu nb = .ok o) :
    o.cplx = false ∧ o.hank.r = (br + 1) * Y.r ∧ o.hank.c = (br + 1) * Yref.r ∧
      ∀ i a j b, i ≤ br → a < Y.r → j ≤ br → b < Yref.r →
        o.hank.e (i * Y.r + a) (j * Yref.r + b)
          = 1 / ((Y.c - 2 * br - 1 : ℕ) : K) * ∑ t ∈ range (Y.c - 2 * br - 2),
              Y.e a (br + 2 + i + t) * Yref.e b (br + 1 - j + t) := by
  obtain ⟨Yf, Yp, hs, hfr, hpr, hfc, hpc, hfe, hpe⟩ := hankStacks_long rs Y Yref br hN hc
  obtain ⟨hH, hC⟩ := buildHank_mm_hank rs sT qr Y Yref br cu nb o Yf Yp hs h
  refine ⟨?_, ?_, ?_, ?_⟩
  · rw [hC]; simp only [decide_eq_false_iff_not]; omega
  · rw [hH]; exact hfr
  · rw [hH]; exact hpr
  · intro i a j b hi ha hj hb
    rw [hH]
    simp only [mulT, sumTo_eq, hfc]
    rw [← hrs, Finset.mul_sum]
    apply Finset.sum_congr rfl
    intro t _
    rw [hfe i a t hi ha, hpe j b t hj hb]; ring

/-- … and it does return (`(Hank, None)`) whenever `calc_unc` is not `True`. -/
theorem C12_mm_returns (rs : Int → K) (sT : K) (qr : Mat K → Mat K) (Y Yref : Mat K) (br : Nat)
    (cu : UncFlag) (nb : Nat) (hN : 2 * br + 2 ≤ Y.c) (hc : Yref.c = Y.c) (hcu : cu ≠ .on) :
    ∃ o, buildHank rs sT qr Y Yref br "cov_mm" cu nb = .ok o ∧ o.T = .none := by
  obtain ⟨Yf, Yp, hs, -, -, hfc, hpc, -, -⟩ := hankStacks_long rs Y Yref br hN hc
  unfold buildHank
  simp only [ne_eq, not_true_eq_false, and_false, if_false, if_true, hs, bind, Except.bind]
  rw [if_neg (by rw [hfc, hpc]; simp), if_neg hcu]
  exact ⟨_, rfl, rfl⟩

/-- **Too-short records, `N = 0`** (`Ndat = 2br + 1`): `1 / N**0.5` raises `ZeroDivisionError` in the moment-matrix
    and in the data-driven method (whatever `calc_unc`, `nb`). -/
theorem C12_short_zeroDiv (rs : Int → K) (sT : K) (qr : Mat K → Mat K) (Y Yref : Mat K) (br : Nat)
    (cu : UncFlag) (nb : Nat) (hN : Y.c = 2 * br + 1) :
    buildHank rs sT qr Y Yref br "cov_mm" cu nb = .error .zeroDiv ∧
    buildHank rs sT qr Y Yref br "dat" .off nb = .error .zeroDiv := by
  have hs : hankStacks rs Y Yref br = .error .zeroDiv := by
    unfold hankStacks
    rw [if_pos (by omega)]
  constructor
  · unfold buildHank
    simp [hs, bind, Except.bind]
  · unfold buildHank
    simp [hs, bind, Except.bind]

/-- **The factor `build_hank` returns is the one the C17 theorems are about.**  If
    `build_hank(Y, Yref, br, "cov_mm", True, nb)` returns `(Hank, T)` with a finite `T`, then `Hank = Yf·Ypᵀ` and
    `T = covFactor Yf Yp nb N sT` for the two stacks the function itself formed and ITS `N = Ndat − 2br − 1`
    (so `C17_factor_entry`, `C17_factor_gram`, `C17_table_variance` … apply to the returned pair). -/
theorem C17_build_factor (rs : Int → K) (sT : K) (qr : Mat K → Mat K) (Y Yref : Mat K) (br nb : Nat)
    (o : HankOut K) (T : Mat K)
    (h : buildHank rs sT qr Y Yref br "cov_mm" .on nb = .ok o) (hT : o.T = .factor T) :
    ∃ Yf Yp, hankStacks rs Y Yref br = .ok (Yf, Yp) ∧ o.hank = mulT Yf Yp ∧
      covFactor Yf Yp nb ((Y.c : ℤ) - br - ((br : ℤ) + 1)).toNat sT = .ok T := by
  unfold buildHank at h
  simp only [ne_eq, not_true_eq_false, and_false, if_false, if_true] at h
  obtain ⟨⟨Yf, Yp⟩, hs, hf⟩ := bind_ok _ _ _ h
  simp only at hf
  by_cases h4 : Yf.c ≠ Yp.c
  · rw [if_pos h4] at hf; simp at hf
  rw [if_neg h4] at hf
  obtain ⟨U, hu, hp⟩ := bind_ok _ _ _ hf
  simp only [pure, Except.pure, Except.ok.injEq] at hp
  subst hp
  simp only at hT
  subst hT
  refine ⟨Yf, Yp, hs, rfl, ?_⟩
  unfold hankUnc at hu
  split_ifs at hu
  split at hu
  · simp at hu
  · simp at hu
  · rename_i T' heq
    simp only [Except.ok.injEq, UncOut.factor.injEq] at hu
    subst hu
    simpa using heq

/-! ### Non-vacuity: 2 channels, 1 reference, `br = 1`, 7 samples (`N = 4`, `1/N**0.5 = 1/2` exactly). -/
def exB : Mat ℚ := ⟨2, 7, fun i t => if i = 0 then (t : ℚ) * t else 1 - (t : ℚ)⟩
def exBr : Mat ℚ := ⟨1, 7, fun _ t => (t : ℚ) * t⟩
def exRs : ℤ → ℚ := fun n => if n = 4 then 1 / 2 else 0

example : (2 * 1 + 2 ≤ exB.c) ∧ exBr.c = exB.c ∧
    exRs ((exB.c - 2 * 1 - 1 : ℕ) : ℤ) * exRs ((exB.c - 2 * 1 - 1 : ℕ) : ℤ) = 1 / ((exB.c - 2 * 1 - 1 : ℕ) : ℚ) ∧
    ∃ o, buildHank exRs 1 id exB exBr 1 "cov_mm" .off 3 = .ok o := by
  refine ⟨by decide, rfl, by norm_num [exRs, exB], ?_⟩
  exact C12_mm_returns exRs 1 id exB exBr 1 .off 3 (by decide) rfl (by decide) |>.imp fun _ h => h.1

example : ∃ o, buildHank exRs 1 id exB exBr 1 "cov_R" .off 3 = .ok o :=
  (C12_R_entry_N exRs 1 id exB exBr 1 3 (by decide)).imp fun _ h => h.1

/-- hypotheses of `C17_build_factor` / `C17_unc_only_cov_mm` hold on the example (`nb = 2`, two samples per block) -/
example : ∃ o T, buildHank exRs 1 id exB exBr 1 "cov_mm" .on 2 = .ok o ∧ o.T = .factor T := ⟨_, _, rfl, rfl⟩
example : buildHank exRs 1 id exB exBr 1 "dat" .on 2 = .error .attrUnc := rfl
example : buildHank exRs 1 id exB exBr 1 "cov" .off 2 = .error .attrMethod := rfl

end field
end PV.C12
