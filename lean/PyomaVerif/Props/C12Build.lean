import PyomaVerif.Model.BuildHank
import PyomaVerif.Lemmas.Sum
import Mathlib.Tactic.Ring
import Mathlib.Tactic.FieldSimp
import Mathlib.Algebra.Field.Basic
/-!
# C12 / C17 — `ssi.build_hank` as one function (`Model/BuildHank.buildHank`)

Theorems about the executable `buildHank` (op `build_hank`, streams `build_hank[dispatch|short|whole]`):
which exception for which argument combination (`C12_dispatch_*`), that a second component other than `None`
is returned exactly for `method = "cov_mm"` with `calc_unc is True` (`C17_unc_only_cov_mm`), the entry formulas with
the weights the CODE computes — `1/N` with `N = Ndat − 2br − 1` (`C12_mm_entry_N`) and `1/(Ndat − k)`
(`C12_R_entry_N`) — and the outcome on records too short for one averaged product (`C12_short_*`).
-/
namespace PV.C12
open PV PV.Mat PV.Unc Finset

variable {K : Type}

theorem bind_err {α β ε : Type} (x : Except ε α) (f : α → Except ε β) (e : ε) (h : x >>= f = .error e) :
    x = .error e ∨ ∃ a, x = .ok a ∧ f a = .error e := by
  cases x <;> simp_all [bind, Except.bind]

theorem bind_ok {α β ε : Type} (x : Except ε α) (f : α → Except ε β) (b : β) (h : x >>= f = .ok b) :
    ∃ a, x = .ok a ∧ f a = .ok b := by
  cases x <;> simp_all [bind, Except.bind]

theorem hankStacks_err [Mul K] (rs : Int → K) (Y Yref : Mat K) (p : Nat) (e : HankErr)
    (h : hankStacks rs Y Yref p = .error e) : e = .zeroDiv ∨ e = .valueErr := by
  unfold hankStacks vstackChk at h
  simp only [bind, Except.bind, pure, Except.pure] at h
  split_ifs at h <;> simp_all

section core
variable [Zero K] [Add K] [Sub K] [Mul K] [Div K] [NatCast K]

theorem hankUnc_err (Yf Yp : Mat K) (N : Int) (nb : Nat) (sT : K) (e : HankErr)
    (h : hankUnc Yf Yp N nb sT = .error e) : e = .zeroDiv ∨ e = .typeErr := by
  unfold hankUnc at h
  split_ifs at h
  · simp_all
  · simp_all
  · split at h <;> simp_all

/-- the exceptions of `buildHank` once the first guard is passed, by branch -/
theorem buildHank_err_cases (rs : Int → K) (sT : K) (qr : Mat K → Mat K) (Y Yref : Mat K) (br : Nat)
    (method : String) (cu : UncFlag) (nb : Nat) (e : HankErr)
    (hg : ¬(cu ≠ .off ∧ method ≠ "cov_mm"))
    (h : buildHank rs sT qr Y Yref br method cu nb = .error e) :
    (method = "cov_mm" ∧ (e = .zeroDiv ∨ e = .valueErr ∨ e = .typeErr)) ∨
    (method = "cov_R" ∧ e = .zeroDiv) ∨
    (method = "dat" ∧ (e = .zeroDiv ∨ e = .valueErr)) ∨
    (method ≠ "cov_mm" ∧ method ≠ "cov_R" ∧ method ≠ "dat" ∧ e = .attrMethod) := by
  unfold buildHank at h
  simp only [hg, if_false] at h
  by_cases h1 : method = "cov_mm"
  · rw [if_pos h1] at h
    left
    refine ⟨h1, ?_⟩
    rcases bind_err _ _ _ h with hs | ⟨⟨Yf, Yp⟩, -, hf⟩
    · rcases hankStacks_err _ _ _ _ _ hs with rfl | rfl <;> simp
    · simp only at hf
      by_cases h4 : Yf.c ≠ Yp.c
      · rw [if_pos h4] at hf; simp_all
      · rw [if_neg h4] at hf
        by_cases h5 : cu = .on
        · rw [if_pos h5] at hf
          rcases bind_err _ _ _ hf with hu | ⟨T, -, hp⟩
          · rcases hankUnc_err _ _ _ _ _ _ hu with rfl | rfl <;> simp
          · simp [pure, Except.pure] at hp
        · rw [if_neg h5] at hf
          simp [pure, Except.pure] at hf
  · rw [if_neg h1] at h
    by_cases h2 : method = "cov_R"
    · rw [if_pos h2] at h
      right; left
      refine ⟨h2, ?_⟩
      split_ifs at h
      · simp_all
      · simp [pure, Except.pure] at h
    · rw [if_neg h2] at h
      by_cases h3 : method = "dat"
      · rw [if_pos h3] at h
        right; right; left
        refine ⟨h3, ?_⟩
        rcases bind_err _ _ _ h with hs | ⟨⟨Yf, Yp⟩, -, hf⟩
        · rcases hankStacks_err _ _ _ _ _ hs with rfl | rfl <;> simp
        · simp only at hf
          split_ifs at hf
          · simp_all
          · simp [pure, Except.pure] at hf
      · rw [if_neg h3] at h
        right; right; right
        exact ⟨h1, h2, h3, by simp_all⟩

/-- **Dispatch, first guard.** `AttributeError("Uncertainty calculations are only available …")` is raised exactly
    when `calc_unc` is true (any true value) and the method is not `"cov_mm"` — whatever the data, the record
    length and the method string (valid or not). -/
theorem C12_dispatch_attrUnc (rs : Int → K) (sT : K) (qr : Mat K → Mat K) (Y Yref : Mat K) (br : Nat)
    (method : String) (cu : UncFlag) (nb : Nat) :
    buildHank rs sT qr Y Yref br method cu nb = .error .attrUnc ↔ (cu ≠ .off ∧ method ≠ "cov_mm") := by
  constructor
  · intro h
    by_contra hg
    have := buildHank_err_cases rs sT qr Y Yref br method cu nb _ hg h
    simp at this
  · intro hg
    unfold buildHank
    simp [hg]

/-- **Dispatch, final `else`.** `AttributeError(f"{method} is not a valid argument …")` is raised exactly when
    `calc_unc` is false and the method is none of the three strings; no other argument matters. -/
theorem C12_dispatch_attrMethod (rs : Int → K) (sT : K) (qr : Mat K → Mat K) (Y Yref : Mat K) (br : Nat)
    (method : String) (cu : UncFlag) (nb : Nat) :
    buildHank rs sT qr Y Yref br method cu nb = .error .attrMethod ↔
      (cu = .off ∧ method ≠ "cov_mm" ∧ method ≠ "cov_R" ∧ method ≠ "dat") := by
  constructor
  · intro h
    by_cases hg : cu ≠ .off ∧ method ≠ "cov_mm"
    · rw [(C12_dispatch_attrUnc rs sT qr Y Yref br method cu nb).2 hg] at h
      simp at h
    · have := buildHank_err_cases rs sT qr Y Yref br method cu nb _ hg h
      simp at this
      refine ⟨?_, this⟩
      by_contra hc
      exact hg ⟨hc, this.1⟩
  · rintro ⟨rfl, h1, h2, h3⟩
    unfold buildHank
    simp [h1, h2, h3]

/-- **An unknown method never returns** (the code has no fall-back branch): for a method string other than the three,
    the outcome is one of the two `AttributeError`s, decided by `calc_unc` alone. -/
theorem C12_dispatch (rs : Int → K) (sT : K) (qr : Mat K → Mat K) (Y Yref : Mat K) (br : Nat)
    (method : String) (cu : UncFlag) (nb : Nat)
    (h1 : method ≠ "cov_mm") (h2 : method ≠ "cov_R") (h3 : method ≠ "dat") :
    buildHank rs sT qr Y Yref br method cu nb = .error (if cu = .off then .attrMethod else .attrUnc) := by
  by_cases hc : cu = .off
  · simp only [hc, if_true]
    exact (C12_dispatch_attrMethod rs sT qr Y Yref br method .off nb).2 ⟨rfl, h1, h2, h3⟩
  · simp only [hc, if_false]
    exact (C12_dispatch_attrUnc rs sT qr Y Yref br method cu nb).2 ⟨hc, h1⟩

/-- **C17 clause 1: the uncertainty factor exists only for the moment-matrix method with `calc_unc is True`.**
    Whenever `build_hank` returns, its second component is something other than `None` exactly when
    `method == "cov_mm"` and `calc_unc is True`; with `calc_unc` true and any other method it does not return at
    all (`C12_dispatch_attrUnc`). -/
theorem C17_unc_only_cov_mm (rs : Int → K) (sT : K) (qr : Mat K → Mat K) (Y Yref : Mat K) (br : Nat)
    (method : String) (cu : UncFlag) (nb : Nat) (o : HankOut K)
    (h : buildHank rs sT qr Y Yref br method cu nb = .ok o) :
    (o.T = .nonFinite ∨ ∃ T, o.T = .factor T) ↔ (method = "cov_mm" ∧ cu = .on) := by
  unfold buildHank at h
  by_cases hg : cu ≠ .off ∧ method ≠ "cov_mm"
  · rw [if_pos hg] at h; simp at h
  rw [if_neg hg] at h
  by_cases h1 : method = "cov_mm"
  · rw [if_pos h1] at h
    obtain ⟨⟨Yf, Yp⟩, -, hf⟩ := bind_ok _ _ _ h
    simp only at hf
    by_cases h4 : Yf.c ≠ Yp.c
    · rw [if_pos h4] at hf; simp at hf
    rw [if_neg h4] at hf
    by_cases h5 : cu = .on
    · rw [if_pos h5] at hf
      obtain ⟨T, hu, hp⟩ := bind_ok _ _ _ hf
      simp only [pure, Except.pure, Except.ok.injEq] at hp
      subst hp
      simp only [h1, h5, and_self, iff_true]
      unfold hankUnc at hu
      split_ifs at hu
      split at hu
      · simp at hu
      · simp only [Except.ok.injEq] at hu; exact Or.inl hu.symm
      · simp only [Except.ok.injEq] at hu; exact Or.inr ⟨_, hu.symm⟩
    · rw [if_neg h5] at hf
      simp only [pure, Except.pure, Except.ok.injEq] at hf
      subst hf
      simp [h5]
  · rw [if_neg h1] at h
    by_cases h2 : method = "cov_R"
    · rw [if_pos h2] at h
      split_ifs at h
      simp only [pure, Except.pure, Except.ok.injEq] at h
      subst h
      simp [h1]
    · rw [if_neg h2] at h
      by_cases h3 : method = "dat"
      · rw [if_pos h3] at h
        obtain ⟨⟨Yf, Yp⟩, -, hf⟩ := bind_ok _ _ _ h
        simp only at hf
        split_ifs at hf
        simp only [pure, Except.pure, Except.ok.injEq] at hf
        subst hf
        simp [h1]
      · rw [if_neg h3] at h; simp at h

end core
end PV.C12
