import PyomaVerif.Lemmas.GaussInv
import PyomaVerif.Props.C04
/-!
# C04 — the driver's inverse `gaussInv` satisfies the contract of `np.linalg.inv`
(depth round, audit gap 10 / C04 gap 3)

`Props/C04.lean` states the merge theorems under `InvContract inv` (on a square matrix that has a
left inverse, `inv` returns one).  In the driver `inv` is `gaussInv` (Model/PreGER.lean, exact
Gauss–Jordan elimination) followed by a run-time residual check.  Here the imperative
`gaussInv` is verified as written, over any field: it is sound (a returned matrix is a left
inverse), complete (a square matrix with a left inverse gets one; `none` = numpy's
`LinAlgError: Singular matrix`), hence `fun G => (gaussInv G).getD G` — the total function the
checked model `sdPreGERchecked` hands to `sdPreGER` (`C04_checked_ok`) — satisfies `InvContract`.
-/
namespace PV.C04
open PV Finset

variable {K : Type} [Field K] [DecidableEq K] [Inhabited K]

/-- **soundness**: whatever `gaussInv` returns is a left inverse (`W·G = 1`) of the right shape. -/
theorem C04_gaussInv_sound (G W : Mat K) (h : gaussInv G = some W) : IsLeftInv W G := by
  rw [gaussInv_eq] at h
  split at h
  · cases h
  · rename_i hsq
    have hsq' : G.r = G.c := not_not.mp hsq
    obtain ⟨hr, hc, hI⟩ := (gaussCore_post G.r G.e).1 W h
    refine ⟨by rw [hr, hsq'], hc, ?_⟩
    intro i j hi hj
    simp only [Mat.mul, sumTo_eq, hc]
    exact hI i (by omega) j (by omega)

/-- **completeness**: on a square matrix that has a left inverse `gaussInv` returns a matrix
    (the pivot search cannot fail). -/
theorem C04_gaussInv_complete (G : Mat K) (hsq : G.r = G.c) (h : ∃ W, IsLeftInv W G) :
    ∃ W, gaussInv G = some W := by
  obtain ⟨W, hr, hc, hI⟩ := h
  have hne : gaussCore G.r G.e ≠ none := by
    apply (gaussCore_post G.r G.e).2
    refine ⟨W.e, fun i hi j hj => ?_⟩
    have := hI i j (by omega) (by omega)
    simp only [Mat.mul, sumTo_eq, hc] at this
    exact this
  rw [gaussInv_eq, if_neg (by simp [hsq])]
  cases hg : gaussCore G.r G.e with
  | none => exact absurd hg hne
  | some W' => exact ⟨W', rfl⟩

/-- `none` (numpy: `LinAlgError`) exactly for the matrices without a left inverse -/
theorem C04_gaussInv_none_iff (G : Mat K) (hsq : G.r = G.c) :
    gaussInv G = none ↔ ¬ ∃ W, IsLeftInv W G := by
  constructor
  · intro h hW
    obtain ⟨W, hW'⟩ := C04_gaussInv_complete G hsq hW
    rw [h] at hW'; cases hW'
  · intro h
    cases hg : gaussInv G with
    | none => rfl
    | some W => exact absurd ⟨W, C04_gaussInv_sound G W hg⟩ h

/-- **`InvContract` discharged** for the inverse the driver runs: the hypothesis `hinv` of
    `C04_identical_refs`, `C04_gain`, `C04C06_*` holds for `inv := fun G => (gaussInv G).getD G`. -/
theorem C04_gaussInv_contract : InvContract (fun G : Mat K => (gaussInv G).getD G) := by
  intro G hsq hW
  obtain ⟨W, hW'⟩ := C04_gaussInv_complete G hsq hW
  show IsLeftInv ((gaussInv G).getD G) G
  rw [hW']
  exact C04_gaussInv_sound G W hW'

/-- the soundness hypothesis `hsound` of `C04C06_linalg_error`, for `invOpt := gaussInv` -/
theorem C04_gaussInv_hsound : ∀ (G W : Mat K), gaussInv G = some W → IsLeftInv W G :=
  C04_gaussInv_sound


/-! ## the merge theorem for the checked model the driver runs -/
section checked
variable {T D F : Type} [One T] [Div T]
variable {sd : Estimator T D F K} {fs : T} {nxseg : Nat} {pov : T}
  {method : SdMethod} {n : Nat} {Y : Nat → Setup D}

/-- **One recording cut into setups, for the executable model with its own inverse**: whenever
    `sdPreGERchecked sd gaussInv …` (what the driver op `sd_preger` runs, with the logged
    estimator calls as `sd`) returns a value, that value is the single-setup estimate of
    `[refs; mov₀; mov₁; …]` against `refs` — no `InvContract` hypothesis and no `method`
    hypothesis left (a returned value implies a known method and `n ≠ 0`). -/
theorem C04_identical_refs_checked (hs : SdShape sd) (hp : Pairwise sd) (hn : (n : K) ≠ 0)
    (hR : ∀ ii, ii < n → (Y ii).ref = (Y 0).ref)
    (hG : ∀ f, f < (sd (sdArgs fs nxseg method pov)
                  (Mat.vstack2 (Y 0).ref (Mat.vstackFn n (fun k => (Y k).mov))) (Y 0).ref).S.n2 →
      ∃ W, IsLeftInv W ⟨(Y 0).ref.r, (Y 0).ref.r, fun i j =>
        (sd (sdArgs fs nxseg method pov)
          (Mat.vstack2 (Y 0).ref (Mat.vstackFn n (fun k => (Y k).mov))) (Y 0).ref).S.e i j f⟩)
    (out : SdOut F K) (h : sdPreGERchecked sd gaussInv fs nxseg pov method n Y = .ok out) :
    out.freq = (sd (sdArgs fs nxseg method pov)
            (Mat.vstack2 (Y 0).ref (Mat.vstackFn n (fun k => (Y k).mov))) (Y 0).ref).freq
    ∧ out.S.n0 = (sd (sdArgs fs nxseg method pov)
            (Mat.vstack2 (Y 0).ref (Mat.vstackFn n (fun k => (Y k).mov))) (Y 0).ref).S.n0
    ∧ out.S.n1 = (sd (sdArgs fs nxseg method pov)
            (Mat.vstack2 (Y 0).ref (Mat.vstackFn n (fun k => (Y k).mov))) (Y 0).ref).S.n1
    ∧ out.S.n2 = (sd (sdArgs fs nxseg method pov)
            (Mat.vstack2 (Y 0).ref (Mat.vstackFn n (fun k => (Y k).mov))) (Y 0).ref).S.n2
    ∧ ∀ i j f, i < out.S.n0 → j < out.S.n1 → f < out.S.n2 →
        out.S.e i j f = (sd (sdArgs fs nxseg method pov)
              (Mat.vstack2 (Y 0).ref (Mat.vstackFn n (fun k => (Y k).mov))) (Y 0).ref).S.e i j f := by
  obtain ⟨hout, -, hm⟩ := C04_checked_ok gaussInv out h
  rw [hout]
  exact C04_identical_refs hs hp C04_gaussInv_contract hm hn hR hG

end checked

/-! ## Non-vacuity (kernel-evaluated over `ℚ`) -/
section examples
def exG : Mat ℚ := ⟨2, 2, fun i j => if i = 0 then (if j = 0 then 0 else 2) else (if j = 0 then 1 else 3)⟩
/-- a matrix that needs a row swap: `[[0,2],[1,3]]⁻¹ = [[-3/2, 1],[1/2, 0]]` -/
example : (gaussInv exG).map (fun W => (W.e 0 0, W.e 0 1, W.e 1 0, W.e 1 1)) = some (-3/2, 1, 1/2, 0) := by
  decide +kernel
def exSing : Mat ℚ := ⟨2, 2, fun i j => ((i + 1 : Nat) : ℚ) * ((j + 1 : Nat) : ℚ)⟩
example : (gaussInv exSing).isNone = true := by decide +kernel
example : exG.r = exG.c := rfl

/-- the hypotheses of `C04_identical_refs_checked` hold jointly: the toy estimator and the two
    setups of `Props/C04.lean`; the checked model with `gaussInv` returns a value … -/
theorem exChecked_ok : ∃ out, sdPreGERchecked (exSd (K := ℚ)) gaussInv 100 8 (1/4) .per 2 exY = .ok out := by
  cases h : sdPreGERchecked (exSd (K := ℚ)) gaussInv 100 8 (1/4) .per 2 exY with
  | ok out => exact ⟨out, rfl⟩
  | error e =>
    have : (sdPreGERchecked (exSd (K := ℚ)) gaussInv 100 8 (1/4) .per 2 exY).isOk = true := by
      decide +kernel
    rw [h] at this; cases this

/-- … and the remaining hypotheses are those of the `C04_identical_refs` instance. -/
example : ∀ out, sdPreGERchecked (exSd (K := ℚ)) gaussInv 100 8 (1/4) .per 2 exY = .ok out →
    out.S.n1 = 1 := fun out h =>
  (C04_identical_refs_checked (K := ℚ) (sd := exSd) (fs := 100) (nxseg := 8) (pov := 1/4)
    (method := .per) (n := 2) (Y := exY) exShape exPair (by norm_num) (fun _ _ => rfl)
    (fun f _ => one_by_one _ rfl rfl (by
      show (exSd _ _ (exY 0).ref).S.e 0 0 f ≠ 0
      rw [exRefSpec (sdArgs 100 8 .per (1/4))
        (Mat.vstack2 (exY 0).ref (Mat.vstackFn 2 fun k => (exY k).mov)) rfl rfl f]
      simp only [sdArgs]
      positivity)) out h).2.2.1
end examples

end PV.C04
