import PyomaVerif.Props.C13
import PyomaVerif.Lemmas.DftParseval
/-!
# C13 — "equals Welch's estimate" and "integrates to the mean square" as theorems about the model

The two clauses of C13 that `Props/C13.lean` leaves to the oracle, proved about the SAME model
definitions (`dft`, `segMean`, `welchX`, `welchCsd`, `hann`, `sdEstPer`, `irfft`, `corFromPxy`,
`sdEstCor` of `Model/Spectral.lean`), for every record, segment length, overlap and channel pair.

Twiddle hypotheses (`N` the transform length): `hmul : tw (a+b) = tw a·tw b`, `hn : tw N = 1`,
`hunit : conj(tw m)·tw m = 1` (those of `dft_shift`, `csd_gain_delay`, `sd_sinusoid`) and the
orthogonality `horth : Σ_{k<N} tw(k·m) = 0` for `0 < m < N`.  All four are proved for the
complex roots of unity `exp(−2πi·m/N)`, every `N ≥ 1` (`parseval_hyps_roots_of_unity`, through
Mathlib's `Complex.isPrimitiveRoot_exp`), and for the exact rational twiddle `tw4`; `horth` also
follows from `tw m ≠ 1` for `0 < m < N` over ordered scalars (`orth_of_primitive`).

**What the proof shows about the wording of C13.**  "Integrates over frequency to the signals'
mean square" is NOT an identity of the code.  The exact identity (`sd_per_parseval`) is

  `(fs/nxseg)·Σ_{k ≤ nxseg/2} Re G_ij[k] = (1/nseg)·Σ_s ( Σ_t (w_t x̃_{i,s,t})(w_t x̃_{j,s,t}) ) / Σ_t w_t²`

with `x̃` the segment after removal of the SEGMENT mean (not the record mean) and `w` the Hann
window: a window-WEIGHTED mean product of the detrended segments, averaged over the segments
(which, with overlap, do not weight all samples of the record equally).  It is the plain mean
product of the detrended segments only when all `|w_t|` are equal (`welch_parseval_flat`), which
the Hann window is not.  For stationary broadband data the two agree in expectation; the oracle's
5 % tolerance absorbs the difference.  For `i ≠ j` only the REAL part of the one-sided sum obeys
the identity (the two-sided sum is real, `two_sided_sum_real`; the doubled one-sided lines keep
their imaginary parts); for `i = j` every line is real (`sd_per_auto_real`).
-/
namespace PV.C13
open PV Finset
variable {K : Type}

/-! ### 1. orthogonality and Parseval for the model's `dft` -/

/-- **DFT orthogonality.** `Σ_{k<N} conj(tw(k·s))·tw(k·t) = N·[s = t]` for `s, t < N`. -/
theorem dft_orthogonality [Field K] (tw : Nat → CxS K) (N : Nat)
    (hmul : ∀ a b, tw (a + b) = tw a * tw b) (hunit : ∀ m, CxS.conj (tw m) * tw m = 1)
    (horth : ∀ m, 0 < m → m < N → ∑ k ∈ range N, tw (k * m) = 0)
    (s t : Nat) (hs : s < N) (ht : t < N) :
    ∑ k ∈ range N, CxS.conj (tw (k * s)) * tw (k * t) = if s = t then (N : CxS K) else 0 :=
  tw_kernel tw N hmul hunit horth s t hs ht

/-- **Plancherel** for complex sequences of length `n ≤ N` (zero-padded to the transform length):
    `Σ_{k<N} conj(X_k)·Y_k = N·Σ_{t<n} conj(x_t)·y_t`. -/
theorem dft_parseval_complex [Field K] (n N : Nat) (hnN : n ≤ N) (tw : Nat → CxS K)
    (hmul : ∀ a b, tw (a + b) = tw a * tw b) (hunit : ∀ m, CxS.conj (tw m) * tw m = 1)
    (horth : ∀ m, 0 < m → m < N → ∑ k ∈ range N, tw (k * m) = 0) (x y : Nat → CxS K) :
    ∑ k ∈ range N, CxS.conj (dft n tw x k) * dft n tw y k
      = (N : CxS K) * ∑ t ∈ range n, CxS.conj (x t) * y t :=
  dft_parseval_cx n N hnN tw hmul hunit horth x y

/-- **Parseval for real sequences**: `Σ_{k<N} conj(X_k)·Y_k = N·Σ_{t<n} x_t·y_t` (a real number). -/
theorem dft_parseval [Field K] (n N : Nat) (hnN : n ≤ N) (tw : Nat → CxS K)
    (hmul : ∀ a b, tw (a + b) = tw a * tw b) (hunit : ∀ m, CxS.conj (tw m) * tw m = 1)
    (horth : ∀ m, 0 < m → m < N → ∑ k ∈ range N, tw (k * m) = 0) (a b : Nat → K) :
    ∑ k ∈ range N, CxS.conj (dft n tw (fun t => CxS.ofReal (a t)) k)
        * dft n tw (fun t => CxS.ofReal (b t)) k
      = CxS.ofReal ((N : K) * ∑ t ∈ range n, a t * b t) := by
  rw [dft_parseval_cx n N hnN tw hmul hunit horth, CxS.ofReal_mul, CxS.ofReal_natCast,
    CxS.ofReal_sum]
  congr 1
  apply sum_congr rfl; intro t _
  rw [CxS.conj_ofReal, ← CxS.ofReal_mul]

/-- the orthogonality hypothesis follows from primitivity (`tw m ≠ 1` for `0 < m < N`). -/
theorem orth_of_primitive [Field K] [LinearOrder K] [IsStrictOrderedRing K] (tw : Nat → CxS K)
    (N : Nat) (hmul : ∀ a b, tw (a + b) = tw a * tw b) (hn : tw N = 1)
    (hprim : ∀ m, 0 < m → m < N → tw m ≠ 1) :
    ∀ m, 0 < m → m < N → ∑ k ∈ range N, tw (k * m) = 0 :=
  orth_of_ne_one tw N hmul hn hprim

/-- **The hypotheses are those of the complex roots of unity.** `twR N m = cos(2πm/N) −
    i·sin(2πm/N)` (as a model complex number over `ℝ`; it is `(exp(2πi/N))⁻¹ ^ m` in `ℂ`,
    `toC_twR`) is multiplicative, `N`-periodic, of unit modulus and orthogonal, for every
    `N ≥ 1`; the model's Hann window built from it is `½ − ½·cos(2πt/N)`. -/
theorem parseval_hyps_roots_of_unity (N : Nat) (hN : 0 < N) :
    (∀ a b, twR N (a + b) = twR N a * twR N b) ∧ twR N N = 1
      ∧ (∀ m, CxS.conj (twR N m) * twR N m = 1)
      ∧ (∀ m, 0 < m → m < N → ∑ k ∈ range N, twR N (k * m) = 0)
      ∧ (∀ m, CxS.toC (twR N m) = (Complex.exp (2 * Real.pi * Complex.I / N))⁻¹ ^ m)
      ∧ ∀ t, hann (twR N) t = 1 / 2 - 1 / 2 * Real.cos (2 * Real.pi * t / N) :=
  ⟨twR_mul N, twR_period N (by omega), twR_unit N, twR_orth N, toC_twR N, hann_twR N⟩

/-- Parseval with the concrete complex twiddle: no hypothesis left. -/
theorem dft_parseval_roots_of_unity (n N : Nat) (hnN : n ≤ N) (a b : Nat → ℝ) :
    ∑ k ∈ range N, CxS.conj (dft n (twR N) (fun t => CxS.ofReal (a t)) k)
        * dft n (twR N) (fun t => CxS.ofReal (b t)) k
      = CxS.ofReal ((N : ℝ) * ∑ t ∈ range n, a t * b t) :=
  dft_parseval n N hnN (twR N) (twR_mul N) (twR_unit N) (twR_orth N) a b

/-- orthogonality of the exact rational twiddle of length 4 used by the examples. -/
theorem tw4_orth : ∀ m, 0 < m → m < 4 → ∑ k ∈ range 4, tw4 (k * m) = 0 := by
  intro m h0 h1
  interval_cases m <;> decide +kernel

/-! ### 2. one-sided folding -/

/-- **What the one-sided scaling does.** Line `k ≤ nfft/2` of the model's estimate is the line of
    the two-sided density `welchTwoSided` (`1/(fs·Σw²)·(1/nseg)·Σ_s conj(X_s[k])·Y_s[k]`), doubled
    unless `k = 0` or (`nfft` even and `k = nfft/2`).  For odd `nfft` there is no Nyquist line and
    the last line `(nfft−1)/2` IS doubled (`one_sided_odd_last`). -/
theorem one_sided_lines [Field K] (x y : Nat → K) (n : Nat) (fs : K) (w : Nat → K)
    (nperseg nov nfft : Nat) (tw : Nat → CxS K) (k : Nat) :
    (welchCsd x y n fs w nperseg nov nfft tw).val k
      = if k = 0 ∨ (nfft % 2 = 0 ∧ k = nfft / 2)
        then welchTwoSided x y n fs w nperseg nov tw k
        else CxS.ofReal 2 * welchTwoSided x y n fs w nperseg nov tw k :=
  welchCsd_one_sided x y n fs w nperseg nov nfft tw k

theorem one_sided_odd_last [Field K] (x y : Nat → K) (n : Nat) (fs : K) (w : Nat → K)
    (nperseg nov nfft : Nat) (tw : Nat → CxS K) (hodd : nfft % 2 = 1) (h3 : 3 ≤ nfft) :
    (welchCsd x y n fs w nperseg nov nfft tw).val (nfft / 2)
      = CxS.ofReal 2 * welchTwoSided x y n fs w nperseg nov tw (nfft / 2) := by
  rw [welchCsd_one_sided, if_neg]; omega

/-- **One-sided folding.** For real records the (real part of the) sum of the model's
    `nfft/2 + 1` one-sided lines equals the sum of all `nfft` two-sided lines — every parity of
    `nfft`. -/
theorem one_sided_fold [Field K] (x y : Nat → K) (n : Nat) (fs : K) (w : Nat → K)
    (nperseg nov nfft : Nat) (hpos : 0 < nfft) (tw : Nat → CxS K)
    (hmul : ∀ a b, tw (a + b) = tw a * tw b) (hn : tw nfft = 1)
    (hunit : ∀ m, CxS.conj (tw m) * tw m = 1) :
    (∑ k ∈ range (nfft / 2 + 1), (welchCsd x y n fs w nperseg nov nfft tw).val k).re
      = (∑ k ∈ range nfft, welchTwoSided x y n fs w nperseg nov tw k).re := by
  rw [CxS.sum_re, CxS.sum_re]
  rw [← fold_sum nfft hpos (fun k => (welchTwoSided x y n fs w nperseg nov tw k).re)]
  · apply sum_congr rfl; intro k _
    rw [welchCsd_one_sided]
    split_ifs <;> simp
  · intro k _ hk
    show (welchTwoSided x y n fs w nperseg nov tw (nfft - k)).re = _
    rw [welchTwoSided_reflect x y n fs w nperseg nov nfft tw hmul hn hunit k (by omega)]
    rfl

/-- the two-sided sum is a real number (also for a cross spectrum). -/
theorem two_sided_sum_real [Field K] (x y : Nat → K) (n : Nat) (fs : K) (w : Nat → K)
    (nperseg nov nfft : Nat) (hle : nperseg ≤ nfft) (tw : Nat → CxS K)
    (hmul : ∀ a b, tw (a + b) = tw a * tw b) (hunit : ∀ m, CxS.conj (tw m) * tw m = 1)
    (horth : ∀ m, 0 < m → m < nfft → ∑ k ∈ range nfft, tw (k * m) = 0) :
    (∑ k ∈ range nfft, welchTwoSided x y n fs w nperseg nov tw k).im = 0 := by
  rw [welchTwoSided_sum x y n fs w nperseg nov nfft hle tw hmul hunit horth]; rfl

/-! ### 3. Parseval for the estimator -/

/-- **Parseval for `scipy.signal.csd` as modelled** (any window, zero-padding `nperseg ≤ nfft`):
    the real part of the sum of the one-sided lines is
    `nfft/(fs·Σw²)·(1/nseg)·Σ_s Σ_t (w_t x̃_{s,t})(w_t ỹ_{s,t})`, `x̃` the segment minus its mean. -/
theorem welch_parseval [Field K] (x y : Nat → K) (n : Nat) (fs : K) (w : Nat → K)
    (nperseg nov nfft : Nat) (hpos : 0 < nfft) (hle : nperseg ≤ nfft) (tw : Nat → CxS K)
    (hmul : ∀ a b, tw (a + b) = tw a * tw b) (hn : tw nfft = 1)
    (hunit : ∀ m, CxS.conj (tw m) * tw m = 1)
    (horth : ∀ m, 0 < m → m < nfft → ∑ k ∈ range nfft, tw (k * m) = 0) :
    (∑ k ∈ range (nfft / 2 + 1), (welchCsd x y n fs w nperseg nov nfft tw).val k).re
      = (nfft : K) * ((1 / (fs * ∑ t ∈ range nperseg, w t * w t))
          * ((welchNseg n nperseg nov : Nat) : K)⁻¹
          * ∑ s ∈ range (welchNseg n nperseg nov), ∑ t ∈ range nperseg,
              (w t * (x (s * (nperseg - nov) + t) - segMean x nperseg (nperseg - nov) s))
                * (w t * (y (s * (nperseg - nov) + t) - segMean y nperseg (nperseg - nov) s))) := by
  rw [one_sided_fold x y n fs w nperseg nov nfft hpos tw hmul hn hunit,
    welchTwoSided_sum x y n fs w nperseg nov nfft hle tw hmul hunit horth]
  rfl

/-- **Parseval for `SD_est(…, method="per")`, every channel pair.** With `fs = 1/dt` and the
    line spacing `fs/nxseg` of `sd_grid_per`:
    `(fs/nxseg)·Σ_{k ≤ nxseg/2} Re S[i,j,k] = (1/nseg)·Σ_s (Σ_t (w_t x̃_{i,s,t})(w_t x̃_{j,s,t})) / Σ_t w_t²`,
    `w` the model's Hann window, `x̃` the segment minus the segment mean, `nseg` and the segment
    starts `s·(nxseg − noverlap)` those of the model. -/
theorem sd_per_parseval [Field K] [CharZero K] (Yall Yref : Mat K) (dt : K) (hdt : dt ≠ 0)
    (nxseg nov : Nat) (hpos : 0 < nxseg) (tw : Nat → CxS K)
    (hmul : ∀ a b, tw (a + b) = tw a * tw b) (hn : tw nxseg = 1)
    (hunit : ∀ m, CxS.conj (tw m) * tw m = 1)
    (horth : ∀ m, 0 < m → m < nxseg → ∑ k ∈ range nxseg, tw (k * m) = 0) (i j : Nat) :
    let S := sdEstPer Yall Yref dt nxseg nov tw
    (1 / dt) / (nxseg : K) * (∑ k ∈ range S.nf, S.e i j k).re
      = ((welchNseg Yref.c nxseg nov : Nat) : K)⁻¹
        * ∑ s ∈ range (welchNseg Yref.c nxseg nov),
            (∑ t ∈ range nxseg,
              (hann tw t * (Yall.e i (s * (nxseg - nov) + t)
                  - segMean (Yall.e i) nxseg (nxseg - nov) s))
                * (hann tw t * (Yref.e j (s * (nxseg - nov) + t)
                  - segMean (Yref.e j) nxseg (nxseg - nov) s)))
              / ∑ t ∈ range nxseg, hann tw t * hann tw t := by
  intro S
  have hS : ∀ k, S.e i j k
      = (welchCsd (Yall.e i) (Yref.e j) Yref.c (1 / dt) (hann tw) nxseg nov nxseg tw).val k :=
    fun k => rfl
  have hnf : S.nf = nxseg / 2 + 1 := rfl
  simp only [hS, hnf]
  rw [welch_parseval _ _ _ _ _ nxseg nov nxseg hpos (le_refl _) tw hmul hn hunit horth]
  have hne : (nxseg : K) ≠ 0 := by exact_mod_cast (by omega : nxseg ≠ 0)
  rw [← Finset.sum_div]
  by_cases hW : ∑ t ∈ range nxseg, hann tw t * hann tw t = 0
  · simp [hW]
  · field_simp

/-! corollaries for identical data and reference, `i = j` -/

/-- with identical arguments every diagonal line is real, so the "integral" of an auto spectrum
    is the real number `(fs/nxseg)·Σ_k S[i,i,k].re`. -/
theorem sd_per_auto_real [Field K] [LinearOrder K] [IsStrictOrderedRing K] (Y : Mat K) (dt : K)
    (nxseg nov : Nat) (tw : Nat → CxS K) (i k : Nat) :
    ((sdEstPer Y Y dt nxseg nov tw).e i i k).im = 0 := by
  have h := congrArg CxS.im (sd_per_hermitian Y dt nxseg nov tw i i k)
  rw [CxS.conj_im] at h
  linarith

/-- **The integral of an auto spectrum is a window-weighted mean square**, hence non-negative:
    `(fs/nxseg)·Σ_k S[i,i,k] = (1/nseg)·Σ_s (Σ_t w_t²·x̃_{i,s,t}²)/(Σ_t w_t²) ≥ 0`. -/
theorem sd_per_parseval_auto [Field K] [LinearOrder K] [IsStrictOrderedRing K] (Y : Mat K)
    (dt : K) (hdt : dt ≠ 0) (nxseg nov : Nat) (hpos : 0 < nxseg) (tw : Nat → CxS K)
    (hmul : ∀ a b, tw (a + b) = tw a * tw b) (hn : tw nxseg = 1)
    (hunit : ∀ m, CxS.conj (tw m) * tw m = 1)
    (horth : ∀ m, 0 < m → m < nxseg → ∑ k ∈ range nxseg, tw (k * m) = 0) (i : Nat) :
    let S := sdEstPer Y Y dt nxseg nov tw
    (1 / dt) / (nxseg : K) * (∑ k ∈ range S.nf, S.e i i k).re
      = ((welchNseg Y.c nxseg nov : Nat) : K)⁻¹
        * ∑ s ∈ range (welchNseg Y.c nxseg nov),
            (∑ t ∈ range nxseg, (hann tw t) ^ 2
                * (Y.e i (s * (nxseg - nov) + t) - segMean (Y.e i) nxseg (nxseg - nov) s) ^ 2)
              / ∑ t ∈ range nxseg, (hann tw t) ^ 2
    ∧ 0 ≤ (1 / dt) / (nxseg : K) * (∑ k ∈ range S.nf, S.e i i k).re := by
  intro S
  have key := sd_per_parseval Y Y dt hdt nxseg nov hpos tw hmul hn hunit horth i i
  have e : (1 / dt) / (nxseg : K) * (∑ k ∈ range S.nf, S.e i i k).re
      = ((welchNseg Y.c nxseg nov : Nat) : K)⁻¹
        * ∑ s ∈ range (welchNseg Y.c nxseg nov),
            (∑ t ∈ range nxseg, (hann tw t) ^ 2
                * (Y.e i (s * (nxseg - nov) + t) - segMean (Y.e i) nxseg (nxseg - nov) s) ^ 2)
              / ∑ t ∈ range nxseg, (hann tw t) ^ 2 := by
    rw [key]
    congr 1
    apply sum_congr rfl; intro s _
    congr 1
    · apply sum_congr rfl; intro t _; ring
    · apply sum_congr rfl; intro t _; ring
  refine ⟨e, ?_⟩
  rw [e]
  apply mul_nonneg (inv_nonneg.mpr (Nat.cast_nonneg _))
  apply sum_nonneg; intro s _
  apply div_nonneg
  · exact sum_nonneg (fun t _ => mul_nonneg (sq_nonneg _) (sq_nonneg _))
  · exact sum_nonneg (fun t _ => sq_nonneg _)

/-- **Equal window moduli give the plain mean product.** If `w_t² = c² ≠ 0` for all `t`
    (a flat window up to signs) and `nfft = nperseg = n`, the integral of the modelled `csd` is
    the average over the segments of the plain mean product `(1/n)·Σ_t x̃_{s,t}·ỹ_{s,t}` of the
    mean-removed segments — for `x = y` their mean square.  (The Hann window of `SD_est` does
    not satisfy the hypothesis: there the weighted form `sd_per_parseval` is the exact one.) -/
theorem welch_parseval_flat [Field K] [CharZero K] (x y : Nat → K) (N : Nat) (fs c : K)
    (hfs : fs ≠ 0) (hc : c ≠ 0) (w : Nat → K) (n nov : Nat) (hpos : 0 < n)
    (hw : ∀ t, t < n → w t * w t = c * c) (tw : Nat → CxS K)
    (hmul : ∀ a b, tw (a + b) = tw a * tw b) (hn : tw n = 1)
    (hunit : ∀ m, CxS.conj (tw m) * tw m = 1)
    (horth : ∀ m, 0 < m → m < n → ∑ k ∈ range n, tw (k * m) = 0) :
    fs / (n : K) * (∑ k ∈ range (n / 2 + 1), (welchCsd x y N fs w n nov n tw).val k).re
      = ((welchNseg N n nov : Nat) : K)⁻¹
        * ∑ s ∈ range (welchNseg N n nov),
            (∑ t ∈ range n, (x (s * (n - nov) + t) - segMean x n (n - nov) s)
                * (y (s * (n - nov) + t) - segMean y n (n - nov) s)) / (n : K) := by
  rw [welch_parseval x y N fs w n nov n hpos (le_refl _) tw hmul hn hunit horth]
  have hne : (n : K) ≠ 0 := by exact_mod_cast (by omega : n ≠ 0)
  have hsw : ∑ t ∈ range n, w t * w t = (n : K) * (c * c) := by
    rw [sum_congr rfl (fun t ht => hw t (mem_range.mp ht))]
    simp [sum_const, card_range]
  have hterm : ∀ s, ∑ t ∈ range n,
      (w t * (x (s * (n - nov) + t) - segMean x n (n - nov) s))
        * (w t * (y (s * (n - nov) + t) - segMean y n (n - nov) s))
      = (c * c) * ∑ t ∈ range n, (x (s * (n - nov) + t) - segMean x n (n - nov) s)
          * (y (s * (n - nov) + t) - segMean y n (n - nov) s) := by
    intro s
    rw [mul_sum]
    apply sum_congr rfl; intro t ht
    rw [← hw t (mem_range.mp ht)]; ring
  simp only [hterm, hsw, ← mul_sum, ← Finset.sum_div]
  field_simp

/-! ### 4. the Welch form -/

/-- **The model's `"per"` estimate IS Welch's estimate**, written out: with
    `step = nxseg − noverlap`, `nseg = (Ndat − noverlap)/step`, `w = hann tw`, `fs = 1/dt`,
    `m_{c,s} = (Σ_u y_c[s·step+u])/nxseg`,

    `S[i,j,k] = c_k/(fs·Σ_t w_t²)·(1/nseg)·Σ_s conj(Σ_t w_t(y_i[s·step+t] − m_{i,s})·tw(k·t))
                                              ·(Σ_t w_t(r_j[s·step+t] − m_{j,s})·tw(k·t))`,

    `c_k = 1` at `k = 0` and (even `nxseg`) `k = nxseg/2`, else `2`; `hann tw t = ½ − ½·Re tw(t)`
    (`= ½ − ½·cos(2πt/nxseg)` for the concrete twiddle, `parseval_hyps_roots_of_unity`). -/
theorem sd_per_welch_form [Field K] (Yall Yref : Mat K) (dt : K) (nxseg nov : Nat)
    (tw : Nat → CxS K) (i j k : Nat) :
    (sdEstPer Yall Yref dt nxseg nov tw).e i j k
      = CxS.ofReal ((if k = 0 ∨ (nxseg % 2 = 0 ∧ k = nxseg / 2) then 1 else 2)
          * (1 / ((1 / dt) * ∑ t ∈ range nxseg, (1 / 2 - 1 / 2 * (tw t).re) * (1 / 2 - 1 / 2 * (tw t).re))
            * (((Yref.c - nov) / (nxseg - nov) : Nat) : K)⁻¹))
        * ∑ s ∈ range ((Yref.c - nov) / (nxseg - nov)),
            CxS.conj (∑ t ∈ range nxseg,
              CxS.ofReal ((1 / 2 - 1 / 2 * (tw t).re) * (Yall.e i (s * (nxseg - nov) + t)
                - (∑ u ∈ range nxseg, Yall.e i (s * (nxseg - nov) + u)) / (nxseg : K)))
                * tw (k * t))
            * ∑ t ∈ range nxseg,
              CxS.ofReal ((1 / 2 - 1 / 2 * (tw t).re) * (Yref.e j (s * (nxseg - nov) + t)
                - (∑ u ∈ range nxseg, Yref.e j (s * (nxseg - nov) + u)) / (nxseg : K)))
                * tw (k * t) := by
  rw [sd_pairing_per_entry, welchCsd_val]
  simp only [welchX_eq, segMean_eq, csdCoef, welchNseg, hann]
  norm_num

/-! ### 5. the correlogram chain (`method="cor"`) -/

/-- **Frequency sum of the correlogram estimate.** `SD_est(…, "cor")` returns the lines
    `0 … n2/2` of `rfft(Rxy·win)` (`n2 = 2·(nxseg//2)`) WITHOUT one-sided doubling.  Its
    Hermitian-completed frequency sum (interior lines counted twice, real parts) is `n2` times the
    lag-0 sample of the windowed correlation: `n2·win[0]·Rxy[0]`, `Rxy = irfft(Pxy)`. -/
theorem sd_cor_freq_sum [Field K] (Yall Yref : Mat K) (dt : K) (nxseg : Nat)
    (hpos : 0 < nxseg / 2) (tw tw2 : Nat → CxS K) (ew : Nat → K)
    (hmul2 : ∀ a b, tw2 (a + b) = tw2 a * tw2 b) (hn2 : tw2 (2 * (nxseg / 2)) = 1)
    (hunit2 : ∀ m, CxS.conj (tw2 m) * tw2 m = 1)
    (horth2 : ∀ m, 0 < m → m < 2 * (nxseg / 2) →
      ∑ k ∈ range (2 * (nxseg / 2)), tw2 (k * m) = 0) (i j : Nat) :
    let S := sdEstCor Yall Yref dt nxseg tw tw2 ew
    ∑ k ∈ range S.nf, (if k = 0 ∨ k = nxseg / 2 then (S.e i j k).re else 2 * (S.e i j k).re)
      = ((2 * (nxseg / 2) : Nat) : K)
          * (irfft (nxseg / 2 + 1) tw2 (corPxy Yall Yref nxseg tw i j) 0 * ew 0) := by
  intro S
  let a : Nat → K := fun t => irfft (nxseg / 2 + 1) tw2 (corPxy Yall Yref nxseg tw i j) t * ew t
  have hS : ∀ k, S.e i j k = dft (2 * (nxseg / 2)) tw2 (fun t => CxS.ofReal (a t)) k :=
    fun k => rfl
  have hnf : S.nf = 2 * (nxseg / 2) / 2 + 1 := rfl
  have hfold := fold_sum (2 * (nxseg / 2)) (by omega)
    (fun k => (dft (2 * (nxseg / 2)) tw2 (fun t => CxS.ofReal (a t)) k).re)
    (by
      intro k _ hk
      show (dft (2 * (nxseg / 2)) tw2 (fun t => CxS.ofReal (a t)) (2 * (nxseg / 2) - k)).re = _
      rw [dft_real_reflect _ _ tw2 hmul2 hn2 hunit2 a k (by omega)]; rfl)
  simp only [hS, hnf]
  have hcond : ∀ k, (k = 0 ∨ k = nxseg / 2)
      ↔ (k = 0 ∨ (2 * (nxseg / 2) % 2 = 0 ∧ k = 2 * (nxseg / 2) / 2)) := by
    intro k; omega
  simp only [hcond]
  rw [hfold, ← CxS.sum_re, dft_sum_lines _ (by omega) tw2 hmul2 hunit2 horth2,
    ← CxS.ofReal_natCast, ← CxS.ofReal_mul]
  rfl

/-- **What that lag-0 value is** (exact, all sizes `nxseg ≥ 2`).  The first stage is `csd` with a
    boxcar of length `h = nxseg//2`, no overlap, zero-padded to `nxseg`, ALREADY one-sided
    (interior lines doubled); `irfft` completes it as if it were two-sided, doubling the interior
    lines a second time.  Hence, with `x̃` the length-`h` segments minus their means and
    `nseg = Ndat//h`,

    `Σ'_k Re S[i,j,k] = win[0]·( 2·(nxseg/h)·(1/nseg)·Σ_s Σ_{t<h} x̃_{i,s,t}·x̃_{j,s,t} − Re Pxy[nxseg//2] )`

    (`Σ'` the Hermitian-completed sum of `sd_cor_freq_sum`; the DC line of `Pxy` vanishes through
    mean removal): twice the mean product of the detrended half-segments times `nxseg`, minus the
    last first-stage line — not a mean square; C13 does not claim one for `"cor"`. -/
theorem sd_cor_parseval [Field K] [CharZero K] (Yall Yref : Mat K) (dt : K) (nxseg : Nat)
    (hpos : 0 < nxseg / 2) (tw tw2 : Nat → CxS K) (ew : Nat → K)
    (hmul : ∀ a b, tw (a + b) = tw a * tw b) (hn : tw nxseg = 1)
    (hunit : ∀ m, CxS.conj (tw m) * tw m = 1)
    (horth : ∀ m, 0 < m → m < nxseg → ∑ k ∈ range nxseg, tw (k * m) = 0)
    (hmul2 : ∀ a b, tw2 (a + b) = tw2 a * tw2 b) (hn2 : tw2 (2 * (nxseg / 2)) = 1)
    (hunit2 : ∀ m, CxS.conj (tw2 m) * tw2 m = 1)
    (horth2 : ∀ m, 0 < m → m < 2 * (nxseg / 2) →
      ∑ k ∈ range (2 * (nxseg / 2)), tw2 (k * m) = 0) (i j : Nat) :
    let S := sdEstCor Yall Yref dt nxseg tw tw2 ew
    ∑ k ∈ range S.nf, (if k = 0 ∨ k = nxseg / 2 then (S.e i j k).re else 2 * (S.e i j k).re)
      = ew 0 * (2 * ((nxseg : K) / ((nxseg / 2 : Nat) : K))
            * (((welchNseg Yref.c (nxseg / 2) 0 : Nat) : K)⁻¹
              * ∑ s ∈ range (welchNseg Yref.c (nxseg / 2) 0), ∑ t ∈ range (nxseg / 2),
                  (Yall.e i (s * (nxseg / 2) + t) - segMean (Yall.e i) (nxseg / 2) (nxseg / 2) s)
                    * (Yref.e j (s * (nxseg / 2) + t)
                        - segMean (Yref.e j) (nxseg / 2) (nxseg / 2) s))
          - (corPxy Yall Yref nxseg tw i j (nxseg / 2)).re) := by
  intro S
  have h1 := sd_cor_freq_sum Yall Yref dt nxseg hpos tw tw2 ew hmul2 hn2 hunit2 horth2 i j
  simp only at h1
  rw [h1]
  set P := corPxy Yall Yref nxseg tw i j with hP
  have hne2 : (((2 * (nxseg / 2 + 1 - 1) : Nat)) : K) ≠ 0 := by
    exact_mod_cast (by omega : 2 * (nxseg / 2 + 1 - 1) ≠ 0)
  have hir := irfft_zero (nxseg / 2 + 1) tw2 (tw_zero tw2 hmul2 hunit2) hne2 P
  have hm2 : nxseg / 2 + 1 - 2 = nxseg / 2 - 1 := by omega
  have hm1 : nxseg / 2 + 1 - 1 = nxseg / 2 := by omega
  rw [hm2, hm1] at hir
  -- the one-sided sum of the first stage, split into DC + interior + last line
  have hsplit : ∑ k ∈ range (nxseg / 2 + 1), (P k).re
      = (P 0).re + ∑ k' ∈ range (nxseg / 2 - 1), (P (k' + 1)).re + (P (nxseg / 2)).re := by
    obtain ⟨h, hh⟩ : ∃ h, nxseg / 2 = h + 1 := ⟨nxseg / 2 - 1, by omega⟩
    rw [hh, sum_range_succ, sum_range_succ']
    simp only [Nat.add_sub_cancel]
    ring
  -- Parseval for the first stage
  have hpar := welch_parseval (Yall.e i) (Yref.e j) Yref.c 1 (fun _ => 1) (nxseg / 2) 0 nxseg
    (by omega) (by omega) tw hmul hn hunit horth
  rw [CxS.sum_re] at hpar
  have hPdef : ∀ k, P k
      = (welchCsd (Yall.e i) (Yref.e j) Yref.c 1 (fun _ => 1) (nxseg / 2) 0 nxseg tw).val k :=
    fun k => rfl
  simp only [← hPdef, Nat.sub_zero, one_mul, mul_one] at hpar
  -- the DC line vanishes
  have hdc : P 0 = 0 := by
    rw [hPdef, welchCsd_val]
    have : ∀ s, welchX (Yall.e i) (fun _ => (1 : K)) (nxseg / 2) (nxseg / 2) tw s 0 = 0 :=
      fun s => welchX_boxcar_dc _ _ _ hpos tw (tw_zero tw hmul hunit) s
    simp only [Nat.sub_zero, this, CxS.conj_zero, zero_mul, sum_const_zero, mul_zero]
  have hh : ((nxseg / 2 : Nat) : K) ≠ 0 := by exact_mod_cast (by omega : nxseg / 2 ≠ 0)
  have hcard : ∑ t ∈ range (nxseg / 2), (1 : K) = ((nxseg / 2 : Nat) : K) := by simp
  rw [hcard] at hpar
  have e2 : ∑ k' ∈ range (nxseg / 2 - 1), 2 * (P (k' + 1)).re
      = 2 * ∑ k' ∈ range (nxseg / 2 - 1), (P (k' + 1)).re := by rw [mul_sum]
  rw [e2] at hir
  rw [hdc] at hir hsplit
  simp only [CxS.zero_re, zero_add] at hir hsplit
  calc ((2 * (nxseg / 2) : Nat) : K) * (irfft (nxseg / 2 + 1) tw2 P 0 * ew 0)
      = ew 0 * (((2 * (nxseg / 2) : Nat) : K) * irfft (nxseg / 2 + 1) tw2 P 0) := by ring
    _ = ew 0 * (2 * (∑ k ∈ range (nxseg / 2 + 1), (P k).re) - (P (nxseg / 2)).re) := by
        rw [hir, hsplit]; ring
    _ = _ := by rw [hpar]; field_simp

/-! ### Non-vacuity: exact instances over `Rat` with `tw4`, and the complex roots of unity -/

-- the twiddle hypotheses hold for `tw4` (length 4) and, over `ℝ`, for every length
example : (∀ a b, tw4 (a + b) = tw4 a * tw4 b) ∧ tw4 4 = 1 ∧ (∀ m, CxS.conj (tw4 m) * tw4 m = 1)
    ∧ ∀ m, 0 < m → m < 4 → ∑ k ∈ range 4, tw4 (k * m) = 0 :=
  ⟨tw4_mul, tw4_period, tw4_unit, tw4_orth⟩
example : ∀ m, 0 < m → m < 1024 → ∑ k ∈ range 1024, twR 1024 (k * m) = 0 :=
  (parseval_hyps_roots_of_unity 1024 (by decide)).2.2.2.1
-- `orth_of_primitive`: `tw4 m ≠ 1` for `0 < m < 4`
example : ∀ m, 0 < m → m < 4 → tw4 m ≠ 1 := by
  intro m h0 h1; interval_cases m <;> decide +kernel
-- orthogonality / Parseval: a non-trivial instance (`Σ x·y = 1·(−15) + 3·(−3) + (−2)(−9) + 5·6 = 24`)
example : ∑ k ∈ range 4, CxS.conj (dft 4 tw4 (fun t => CxS.ofReal (exX t)) k)
      * dft 4 tw4 (fun t => CxS.ofReal (exYd t)) k = CxS.ofReal (4 * 24) := by
  rw [dft_parseval 4 4 (le_refl 4) tw4 tw4_mul tw4_unit tw4_orth exX exYd]
  decide +kernel
-- zero-padding `n = 3 < N = 4`
example : ∑ k ∈ range 4, CxS.conj (dft 3 tw4 (fun t => CxS.ofReal (exX t)) k)
      * dft 3 tw4 (fun t => CxS.ofReal (exYd t)) k = CxS.ofReal (4 * (-6)) := by
  rw [dft_parseval 3 4 (by decide) tw4 tw4_mul tw4_unit tw4_orth exX exYd]
  decide +kernel
-- folding: the one-sided sum of a CROSS spectrum has a non-zero imaginary part, the real part folds
example : (∑ k ∈ range (4 / 2 + 1), (welchCsd exX exYd 8 100 (hann tw4) 4 2 4 tw4).val k).im ≠ 0
    ∧ (∑ k ∈ range (4 / 2 + 1), (welchCsd exX exYd 8 100 (hann tw4) 4 2 4 tw4).val k).re
      = (∑ k ∈ range 4, welchTwoSided exX exYd 8 100 (hann tw4) 4 2 tw4 k).re
    ∧ (∑ k ∈ range 4, welchTwoSided exX exYd 8 100 (hann tw4) 4 2 tw4 k).re ≠ 0 := by
  decide +kernel
-- Parseval for the estimator on the two-channel record `exY` (dt = 1/100, nxseg 4, overlap 2):
-- the hypotheses hold and both sides are the same non-zero number
example : (1 / 100 : Rat) ≠ 0 ∧ 0 < 4 := by decide +kernel
example :
    (1 / (1 / 100 : Rat)) / ((4 : Nat) : Rat)
        * (∑ k ∈ range (sdEstPer exY exY (1 / 100) 4 2 tw4).nf,
            (sdEstPer exY exY (1 / 100) 4 2 tw4).e 0 1 k).re = 395 / 48
    ∧ (1 / (1 / 100 : Rat)) / ((4 : Nat) : Rat)
        * (∑ k ∈ range (sdEstPer exY exY (1 / 100) 4 2 tw4).nf,
            (sdEstPer exY exY (1 / 100) 4 2 tw4).e 0 0 k).re = 793 / 72 := by
  decide +kernel
-- flat window `w = −1, 1, 1, −1` (`c = 1`): the integral is the plain mean product
example : ∀ t, t < 4 → (fun t => if t = 0 ∨ t = 3 then (-1 : Rat) else 1) t
    * (fun t => if t = 0 ∨ t = 3 then (-1 : Rat) else 1) t = 1 * 1 := by
  intro t ht; interval_cases t <;> decide +kernel
example : (welchCsd exX exYd 8 100 (fun t => if t = 0 ∨ t = 3 then (-1 : Rat) else 1) 4 2 4 tw4).val 1
    ≠ 0 := by decide +kernel
-- odd transform length: `3 % 2 = 1`, `3 ≤ 3`; the fold hypotheses hold for the length-3 roots of unity
example : 3 % 2 = 1 ∧ 3 ≤ 3 := by decide
example (x y : Nat → ℝ) (w : Nat → ℝ) :
    (∑ k ∈ range (3 / 2 + 1), (welchCsd x y 9 100 w 3 1 3 (twR 3)).val k).re
      = (∑ k ∈ range 3, welchTwoSided x y 9 100 w 3 1 (twR 3) k).re :=
  one_sided_fold x y 9 100 w 3 1 3 (by decide) (twR 3) (twR_mul 3) (twR_period 3 (by decide)) (twR_unit 3)

/-! the theorems applied to the exact instances (the hypotheses are discharged, the conclusions
    are the non-trivial equalities evaluated above) -/
example := one_sided_fold exX exYd 8 100 (hann tw4) 4 2 4 (by decide) tw4 tw4_mul tw4_period tw4_unit
example := two_sided_sum_real exX exYd 8 100 (hann tw4) 4 2 4 (le_refl 4) tw4 tw4_mul tw4_unit tw4_orth
example := welch_parseval exX exYd 8 100 (hann tw4) 4 2 4 (by decide) (le_refl 4) tw4 tw4_mul
  tw4_period tw4_unit tw4_orth
-- zero-padded (`nperseg = 2 < nfft = 4`, the first stage of "cor")
example := welch_parseval exX exYd 8 1 (fun _ => 1) 2 0 4 (by decide) (by decide) tw4 tw4_mul
  tw4_period tw4_unit tw4_orth
example := sd_per_parseval exY exY (1 / 100) (by decide +kernel) 4 2 (by decide) tw4 tw4_mul
  tw4_period tw4_unit tw4_orth 0 1
example := sd_per_parseval_auto exY (1 / 100) (by decide +kernel) 4 2 (by decide) tw4 tw4_mul
  tw4_period tw4_unit tw4_orth 0
example := welch_parseval_flat exX exYd 8 100 1 (by decide +kernel) (by decide +kernel)
  (fun t => if t = 0 ∨ t = 3 then (-1 : Rat) else 1) 4 2 (by decide)
  (by intro t ht; interval_cases t <;> decide +kernel) tw4 tw4_mul tw4_period tw4_unit tw4_orth
-- with the complex roots of unity: every hypothesis discharged for every `nxseg ≥ 1`, `dt ≠ 0`
example (Y : Mat ℝ) (dt : ℝ) (hdt : dt ≠ 0) (nxseg nov : Nat) (hpos : 0 < nxseg) (i j : Nat) :=
  sd_per_parseval Y Y dt hdt nxseg nov hpos (twR nxseg) (twR_mul nxseg)
    (twR_period nxseg (by omega)) (twR_unit nxseg) (twR_orth nxseg) i j
-- "cor": nxseg = 4 (`tw = tw2 = tw4`), a stand-in window with `ew 0 = 1/2`; both sides are `729/16`
example : 0 < 4 / 2 ∧ tw4 (2 * (4 / 2)) = 1 := by decide +kernel
example := sd_cor_parseval exY exY (1 / 100) 4 (by decide) tw4 tw4 (fun t => 1 / ((t : Rat) + 2))
  tw4_mul tw4_period tw4_unit tw4_orth tw4_mul tw4_period tw4_unit tw4_orth 0 1
example :
    (∑ k ∈ range (sdEstCor exY exY (1 / 100) 4 tw4 tw4 (fun t => 1 / ((t : Rat) + 2))).nf,
      (if k = 0 ∨ k = 4 / 2
        then ((sdEstCor exY exY (1 / 100) 4 tw4 tw4 (fun t => 1 / ((t : Rat) + 2))).e 0 1 k).re
        else 2 * ((sdEstCor exY exY (1 / 100) 4 tw4 tw4 (fun t => 1 / ((t : Rat) + 2))).e 0 1 k).re))
      = 729 / 16 := by
  decide +kernel

end PV.C13
