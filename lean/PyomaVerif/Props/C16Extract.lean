import PyomaVerif.Props.C16
import PyomaVerif.Props.C11
import PyomaVerif.Lemmas.MpeSelf
/-!
# C16 ∘ C11 — "the modes extracted afterwards are those poles"

The last sentence of C16, stated over the extraction models of C11 (`PV.ssiMpe`, `PV.plscfMpe`, `order` a
list — the models the C11 correspondence compares with `ssi.SSI_mpe` / `plscf.pLSCF_mpe`), for every
pole table, every history of dialog events, every damping / mode-shape / covariance table and every
`rtol ≥ 0`: the `(sel_freq, pole_ind)` the dialog hands over come back as `Fn = sel_freq`,
`order_out = pole_ind`, and `Xi`, `Phi` and the covariances of the `k`-th mode are read from the very cell
`(row, pole_ind[k])` the `k`-th pick designated.

The property's premise "non-overlapping tolerance bands" is not needed: the closeness test compares the
selected pole with the request itself (`np.isclose(pole, fj, rtol)`), and the request IS a pole of its
column.  `0 ≤ rtol` is the only hypothesis; it is forced by the model's `isclose`
(`|a − b| ≤ 1e-8 + rtol·|b|`, `Model/NanTable.lean`), which for `rtol < 0` rejects `isclose f f` when
`|f| > 1e-8 / |rtol|`.  At that excluded point the real routines (tried: `rtol = -0.01`) still return the
handed-over poles, because numpy's `isclose` has the extra disjunct `| (x == y)`, which the model does not
mirror — a modelling gap of C11 for negative tolerances, not a defect of the library.
-/
namespace PV.C16
open PV PV.Pick

/-- one abstract step adds nothing but what a pick designates -/
theorem specStep_mem (p : Plot) (sh : Bool) (l : List (Rat × Nat)) (e : Event) (q : Rat × Nat)
    (hq : q ∈ (specStep p (sh, l) e).2) : q ∈ l ∨ ∃ x y, specPick p x y = some q := by
  cases e with
  | keyPress k => exact Or.inl (by simpa [specStep] using hq)
  | keyRelease k => exact Or.inl (by simpa [specStep] using hq)
  | click b pos =>
    cases sh with
    | false => exact Or.inl (by simpa [specStep] using hq)
    | true =>
      rcases b with _ | _ | _ | _ | b
      · exact Or.inl (by simpa [specStep] using hq)
      · cases pos with
        | none => exact Or.inl (by simpa [specStep] using hq)
        | some xy =>
          obtain ⟨x, y⟩ := xy
          cases hp : specPick p x y with
          | none => exact Or.inl (by simpa [specStep, hp] using hq)
          | some q' =>
            have hq' : q ∈ specInsert q' l := by simpa [specStep, hp] using hq
            rcases List.mem_cons.mp ((specInsert_perm q' l).mem_iff.mp hq') with rfl | h
            · exact Or.inr ⟨x, y, hp⟩
            · exact Or.inl h
      · cases pos with
        | none => exact Or.inl (by simpa [specStep] using hq)
        | some xy =>
          obtain ⟨x, y⟩ := xy
          cases hn : specNearest x l with
          | none => exact Or.inl (by simpa [specStep, hn] using hq)
          | some i =>
            have : q ∈ l.eraseIdx i := by simpa [specStep, hn] using hq
            exact Or.inl (List.mem_of_mem_eraseIdx this)
      · have : q ∈ l.dropLast := by simpa [specStep] using hq
        exact Or.inl (List.dropLast_subset _ this)
      · exact Or.inl (by simpa [specStep] using hq)

theorem specFold_mem (p : Plot) : ∀ (evs : List Event) (st : Bool × List (Rat × Nat)),
    (∀ q ∈ st.2, ∃ x y, specPick p x y = some q) →
    ∀ q ∈ (evs.foldl (specStep p) st).2, ∃ x y, specPick p x y = some q
  | [], _, h => h
  | e :: evs, st, h => by
    simp only [List.foldl_cons]
    apply specFold_mem p evs
    intro q hq
    rcases specStep_mem p st.1 st.2 e q hq with h' | h'
    · exact h q h'
    · exact h'

/-- **Nothing is handed over that was not picked.** After every history, every pair still selected is
    the pair some select click designates (`C16_pick` / `C16_pick_fdd` say which pole that is). -/
theorem C16_selected_were_picked (p : Plot) (evs : List Event) :
    ∀ q ∈ (specRun p evs).2, ∃ x y, specPick p x y = some q :=
  specFold_mem p evs (false, []) (by simp)

/-- **The row of a pick is the row extraction reads.** The pole `(f, o)` a click at `(x, y)` designates sits
    in an existing order column, and the row `r` of `C16_pick` (first row nearest to `x`) is the FIRST row
    of that column holding the frequency `f` — the row `np.nanargmin(np.abs(Fn_pol[:, o] - f))` returns. -/
theorem C16_pick_row (t : Mat NR) (x y f : Rat) (o : Nat) (h : pick t x y = some (f, o)) :
    PoleAt t (f, o) ∧ FirstRowOf t f o (hitRow t f o) ∧
      (∀ r' g, r' < t.r → t.e r' o = some g → |f - x| ≤ |g - x|) ∧
      (∀ r' g, r' < hitRow t f o → t.e r' o = some g → |f - x| < |g - x|) := by
  obtain ⟨ho, -, -, r, hr, hv, hmin, hfirst⟩ := C16_pick t x y f o h
  have hfr : FirstRowOf t f o r :=
    ⟨hr, hv, fun j hj hjv => lt_irrefl _ (hfirst j f hj hjv)⟩
  obtain ⟨-, hfr'⟩ := hitRow_of_mem t f o ⟨r, hr, hv⟩
  have : hitRow t f o = r := hfr'.unique hfr
  rw [this]
  exact ⟨⟨ho, r, hr, hv⟩, hfr, hmin, hfirst⟩

/-- every pair of a reachable state of a stabilisation-diagram dialog is a retained pole of an existing
    order column of the table -/
theorem reachable_poleAt (t : Mat NR) (s : State) (hreach : Reachable (.stab t) s) :
    ∀ q ∈ pairs s, PoleAt t q := by
  obtain ⟨evs, rfl⟩ := hreach
  obtain ⟨hz, -, -⟩ := C16_refine (.stab t) evs
  intro q hq
  have hq' : q ∈ (specRun (.stab t) evs).2 := by rw [← hz]; exact hq
  obtain ⟨x, y, hp⟩ := C16_selected_were_picked (.stab t) evs q hq'
  exact (C16_pick_row t x y q.1 q.2 hp).1

/-- the cells `(row, order)` extraction reads for the handed-over pairs: for each pair the first row of its
    order column holding its frequency -/
def handedCells (t : Mat NR) (s : State) : List (Nat × Nat) :=
  (pairs s).map fun q => (hitRow t q.1 q.2, q.2)

/-- **The modes extracted afterwards are those poles** (`SSI_mpe` and `pLSCF_mpe`, `order` = the list handed
    over).  For every history on a stabilisation diagram over the table `t = Fn_poles`, every `Xi`, `Phi`,
    covariances, `Lab`, `deltaf`, and `rtol ≥ 0`: both routines succeed, return all six lists read off the
    cells `handedCells t s` — the `k`-th cell is `(first row of column pole_ind[k] holding sel_freq[k],
    pole_ind[k])`, the cell the pick designated (`C16_pick_row`) — and `order_out = np.array(pole_ind)`. -/
theorem C16_extract (t Xi : Mat NR) (Phi : Ten3 (Option CQ)) (Lab : Option (Mat Int)) (deltaf rtol : Rat)
    (hr : 0 ≤ rtol) (cov : Option MpeCov) (s : State) (hreach : Reachable (.stab t) s) :
    ssiMpe s.result.1 t Xi Phi (.list s.result.2) Lab rtol cov
        = .ok ⟨accOfCells t Xi Phi cov (handedCells t s), .arr (s.result.2.map Int.ofNat)⟩ ∧
    plscfMpe s.result.1 t Xi Phi (.list s.result.2) Lab deltaf rtol
        = .ok ⟨accOfCells t Xi Phi none (handedCells t s), .arr (s.result.2.map Int.ofNat)⟩ := by
  have hp := reachable_poleAt t s hreach
  obtain ⟨evs, rfl⟩ := hreach
  obtain ⟨-, -, hlen⟩ := C16_refine (.stab t) evs
  exact ⟨ssiMpe_list_of_poles t Xi Phi Lab rtol hr cov _ _ hlen hp,
    plscfMpe_list_of_poles t Xi Phi Lab deltaf rtol hr _ _ hlen hp⟩

/-- **What the extracted lists are**, field by field: `Fn` is `sel_freq` itself; `Xi`, `Phi` and (if given)
    the three covariances of the `k`-th mode are the entries of the cell `(row_k, pole_ind[k])`, where `row_k`
    is the first row of the order column `pole_ind[k] < columns` with `Fn_poles[row_k, pole_ind[k]] = sel_freq[k]`. -/
theorem C16_extract_fields (t Xi : Mat NR) (Phi : Ten3 (Option CQ)) (cov : Option MpeCov) (s : State)
    (hreach : Reachable (.stab t) s) :
    (accOfCells t Xi Phi cov (handedCells t s)).fn = s.result.1.map some ∧
    (handedCells t s).map Prod.snd = s.result.2 ∧
    (handedCells t s).length = s.result.1.length ∧
    (∀ c ∈ handedCells t s, c.2 < t.c ∧ ∃ f, (f, c.2) ∈ pairs s ∧ FirstRowOf t f c.2 c.1) ∧
    (accOfCells t Xi Phi cov (handedCells t s)).xi = (handedCells t s).map (fun c => Xi.e c.1 c.2) ∧
    (accOfCells t Xi Phi cov (handedCells t s)).phi = (handedCells t s).map (fun c => ten3Row Phi c.1 c.2) ∧
    (∀ cv, cov = some cv →
      (accOfCells t Xi Phi cov (handedCells t s)).fnCov = (handedCells t s).map (fun c => cv.fn.e c.1 c.2) ∧
      (accOfCells t Xi Phi cov (handedCells t s)).xiCov = (handedCells t s).map (fun c => cv.xi.e c.1 c.2) ∧
      (accOfCells t Xi Phi cov (handedCells t s)).phiCov
        = (handedCells t s).map (fun c => ten3Row cv.phi c.1 c.2)) := by
  have hp := reachable_poleAt t s hreach
  obtain ⟨evs, rfl⟩ := hreach
  obtain ⟨-, -, hlen⟩ := C16_refine (.stab t) evs
  generalize run (.stab t) State.init evs = s at hp hlen
  have hcell : ∀ q ∈ pairs s, t.e (hitRow t q.1 q.2) q.2 = some q.1 := fun q hq =>
    (hitRow_of_mem t q.1 q.2 (hp q hq).2).2.2.1
  refine ⟨?_, ?_, ?_, ?_, rfl, rfl, ?_⟩
  · simp only [accOfCells, handedCells, List.map_map, State.result]
    have : s.selFreq = (pairs s).map Prod.fst := (List.map_fst_zip (by omega)).symm
    rw [this, List.map_map]
    apply List.map_congr_left
    intro q hq
    exact hcell q hq
  · simp only [handedCells, List.map_map, State.result]
    exact List.map_snd_zip (by omega)
  · simp [handedCells, pairs, List.length_zip, State.result, hlen]
  · intro c hc
    simp only [handedCells, List.mem_map] at hc
    obtain ⟨q, hq, rfl⟩ := hc
    exact ⟨(hp q hq).1, q.1, hq, (hitRow_of_mem t q.1 q.2 (hp q hq).2).2⟩
  · intro cv hcv; subst hcv; exact ⟨rfl, rfl, rfl⟩

/-! ## non-vacuity -/

def exXi : Mat NR := ⟨3, 4, fun r o => some (((r : Rat) + 1) / 100 + (o : Rat) / 1000)⟩
def exPhi : Ten3 (Option CQ) := ⟨3, 4, 2, fun r o k => some ((r : Rat) + k, (o : Rat))⟩
def exState : State :=
  run (.stab tbl) State.init [.keyPress "shift", .click 1 (some (43/8, 1)), .click 1 (some (7/8, 1/4))]

example : Reachable (.stab tbl) exState ∧ (0 : Rat) ≤ 1 / 100 := ⟨⟨_, rfl⟩, by decide +kernel⟩
example : exState.result = ([1, 11/2], [0, 1]) ∧ handedCells tbl exState = [(0, 0), (2, 1)] := by decide +kernel
/-- the two picked poles come back with their own damping: rows 0 and 2 of orders 0 and 1 -/
example : C11.outSummary (ssiMpe exState.result.1 tbl exXi exPhi (.list exState.result.2) none (1 / 100) none)
    = some ([some 1, some (11/2)], [some (1/100), some (31/1000)], .arr [0, 1]) := by decide +kernel
example : pick tbl (43/8) 1 = some (11/2, 1) ∧ hitRow tbl (11/2) 1 = 2 := by decide +kernel
example : (11/2, 1) ∈ (specRun (.stab tbl) [.keyPress "shift", .click 1 (some (43/8, 1))]).2 := by decide +kernel

end PV.C16
