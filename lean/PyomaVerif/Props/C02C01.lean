import PyomaVerif.Props.C02
import PyomaVerif.Props.C01
import PyomaVerif.Lemmas.PoserE2E
/-!
# C02 ∘ C01 — PoSER merging of mode shapes that come out of SSI runs

Second half of C02's quantifier: "end-to-end also for setups whose shapes come from SSI runs on
noise-free data of one global system recorded with different amplitudes".

`Props/C01.lean` ends with: the realised pair of a setup is `(T⁻¹·A·T, (a·C[rows])·T)` (`a` the
recording amplitude, `C01_realisation_*`, `C01_chain`).  Here:

* `C02C01_setup_shape` — for a simple eigenvalue the column of the model's `shapesOf` (`ac2mp`)
  is `normalise (G[rows, k])`, independent of `a`, `T` and the scaling of the eigenvector, and
  that is `s·G[rows, k]` with the explicit factor `s = 1 / (largest-magnitude component of
  G[rows, k])` (`unitSetup`, `unitSetup_phi`) — **complex** for complex shapes.
* `C02_merge` needs `re (s₀/sᵢ) = s₀/sᵢ` (`Good.real`): `gen.MSF` takes `.real` of the
  least-squares ratio.  For the unit-normalised setups `s₀/sᵢ = pivotᵢ/pivot₀`.
  `C02C01_good` derives the hypotheses of `C02_merge` exactly when those pivot ratios are real;
  that is the case for real (more generally monophase, `z_k·real`) shapes: `C02_e2e`,
  `C02_e2e_real`, `C02_e2e_monophase` are the end-to-end statements.
* For genuinely complex shapes the ratios are complex and the merged shape is **not** the global
  one: `C02_merge_complex` / `C02_e2e_mode_complex` say what the model (and the code) returns —
  the roving block of setup `i` is scaled by `Re(pivotᵢ/pivot₀)` instead of `pivotᵢ/pivot₀` —
  and `complex_not_global` is a kernel-checked two-setup instance (the one replayed on the real
  `SingleSetup`+`SSIcov`+`MultiSetup_PoSER` chain, MAC 769/925 ≈ 0.8314 with the global shape).
* `C02_e2e_stats` — every setup identifying the same `fn`/`xi`: merged value is that value,
  dispersion 0 (through `C02_stats`).
-/
namespace PV.C02C01
open PV PV.Merge PV.C02 PV.Cpx Matrix

/-- the numbers of the executable models of `ac2mp` and `merge_mode_shapes` -/
abbrev Q := Cpx Rat

/-! ## per-setup shapes are re-scaled restrictions -/

/-- the global mode shape belonging to the eigenvector `w` of the global system `(A, Cg)`:
    row `r` is `Cg[r, :]·w` -/
def gshape {n : ℕ} (Cg : ℕ → Fin n → Q) (w : Fin n → Q) : ℕ → Q := fun r => ∑ t, Cg r t * w t

/-- a setup that reports the unity-normalised restriction of `g` to its channels, as a C02
    setup: its scale factor is `1 / (largest-magnitude component of g[rows])` -/
def unitSetup (g : ℕ → Q) (rows ref : List Nat) : SetupD Q := ⟨rows, ref, 1 / pivotOf (rows.map g)⟩

/-- `normalise (g[rows]) = s·g[rows]` with `s = 1/pivot`: the shape of a `unitSetup` -/
theorem unitSetup_phi (g : ℕ → Q) (rows ref : List Nat) :
    SetupD.phi g (unitSetup g rows ref) = normalise (rows.map g) := by
  rw [normalise_eq_scale, List.map_map]
  rfl

/-- **C02C01_setup_shape.** C01's conclusion for one setup, one mode ⇒ the extracted shape is the
    re-scaled restriction C02 starts from.  `(A, Cg)` global system; the setup records the global
    rows `rows` with amplitude `amp ≠ 0`; `Ahat`, `Chat` realised matrices with
    `Ahat = T⁻¹·A·T`, `Chat = (amp·Cg[rows])·T` (conclusions of `C01_realisation_fast/legacy`
    and `C01_chain`); column `k` of `V` an eigenvector of `Ahat` for `lam`, a simple eigenvalue
    of `A` with eigenvector `w`.  Then column `k` of `shapesOf Chat V` is
    `s·G[rows]`, `G = Cg·w`, `s = 1/pivot` — whatever `amp`, `T` and the scaling of `V[:,k]`. -/
theorem C02C01_setup_shape {n : ℕ} (A T Tinv : Matrix (Fin n) (Fin n) Q)
    (Cg : ℕ → Fin n → Q) (rows ref : List Nat) (amp : Q) (hamp : amp ≠ 0)
    (Ahat Chat V : Mat Q) (hCr : Chat.r = rows.length) (hCc : Chat.c = n)
    (hT : T * Tinv = 1) (hA : toMx n n Ahat.e = Tinv * A * T)
    (hC : toMx rows.length n Chat.e = (amp • rowsMx Cg rows) * T)
    (k : Nat) (hk : k < V.c) (lam : Q) (w : Fin n → Q)
    (hv : (toMx n n Ahat.e).mulVec (fun t : Fin n => V.e t.1 k) = lam • (fun t : Fin n => V.e t.1 k))
    (hvne : (fun t : Fin n => V.e t.1 k) ≠ 0)
    (hsimple : ∀ u, A.mulVec u = lam • u → ∃ c : Q, u = c • w) :
    (shapesOf Chat V).getD k [] = SetupD.phi (gshape Cg w) (unitSetup (gshape Cg w) rows ref) := by
  rw [unitSetup_phi]
  exact setup_shape A T Tinv Cg rows amp hamp Ahat Chat V hCr hCc hT hA hC k hk lam w hv hvne hsimple

/-- "C01 holds for this setup and this mode": some record amplitude, similarity and eigenvector
    produce `phi` as a column of the model's `shapesOf`. -/
def Identified {n : ℕ} (A : Matrix (Fin n) (Fin n) Q) (Cg : ℕ → Fin n → Q) (lam : Q)
    (rows : List Nat) (phi : List Q) : Prop :=
  ∃ (amp : Q) (T Tinv : Matrix (Fin n) (Fin n) Q) (Ahat Chat V : Mat Q) (k : Nat),
    amp ≠ 0 ∧ Chat.r = rows.length ∧ Chat.c = n ∧ T * Tinv = 1 ∧
    toMx n n Ahat.e = Tinv * A * T ∧ toMx rows.length n Chat.e = (amp • rowsMx Cg rows) * T ∧
    k < V.c ∧
    (toMx n n Ahat.e).mulVec (fun t : Fin n => V.e t.1 k) = lam • (fun t : Fin n => V.e t.1 k) ∧
    (fun t : Fin n => V.e t.1 k) ≠ 0 ∧ phi = (shapesOf Chat V).getD k []

theorem identified_shape {n : ℕ} (A : Matrix (Fin n) (Fin n) Q) (Cg : ℕ → Fin n → Q) (lam : Q)
    (w : Fin n → Q) (hsimple : ∀ u, A.mulVec u = lam • u → ∃ c : Q, u = c • w)
    (rows : List Nat) (phi : List Q) (h : Identified A Cg lam rows phi) :
    phi = normalise (rows.map (gshape Cg w)) := by
  obtain ⟨amp, T, Tinv, Ahat, Chat, V, k, hamp, hCr, hCc, hT, hA, hC, hk, hv, hvne, rfl⟩ := h
  exact setup_shape A T Tinv Cg rows amp hamp Ahat Chat V hCr hCc hT hA hC k hk lam w hv hvne hsimple

/-! ### `Identified` from C01's own premises -/

/-- the output matrix of a setup as an entry function: global rows `rows`, amplitude `amp` -/
def setupC {n : ℕ} (Cg : ℕ → Fin n → Q) (rows : List Nat) (amp : Q) : ℕ → Fin n → Q :=
  fun a t => amp * Cg (rows.getD a 0) t

theorem obsFn_first {n : ℕ} (l : ℕ) (A : Matrix (Fin n) (Fin n) Q) (C : ℕ → Fin n → Q)
    (a : ℕ) (ha : a < l) (k : Fin n) : obsFn l A C a k = C a k := by
  unfold obsFn
  rw [Nat.mod_eq_of_lt ha, Nat.div_eq_of_lt ha, pow_zero]
  simp [Matrix.one_apply]

/-- the first block row of `O·T` is `(amp·Cg[rows])·T` -/
theorem outC_of_factor {n : ℕ} (A T : Matrix (Fin n) (Fin n) Q) (Cg : ℕ → Fin n → Q)
    (rows : List Nat) (amp : Q) (Obs : Mat Q)
    (hObs : ∀ i, i < Obs.r → ∀ j : Fin n,
      Obs.e i j.1 = ∑ k, obsFn rows.length A (setupC Cg rows amp) i k * T k j)
    (hrl : rows.length ≤ Obs.r) :
    toMx rows.length n (outC Obs rows.length n).e = (amp • rowsMx Cg rows) * T := by
  ext a t
  simp only [toMx, Matrix.mul_apply, C01.C01_outC]
  rw [hObs a.1 (lt_of_lt_of_le a.2 hrl) t]
  apply Finset.sum_congr rfl
  intro k _
  rw [obsFn_first rows.length A _ a.1 a.2 k]
  rfl

/-- **C02C01_identified_fast.** `Identified` is what C01 proves for `SSI_fast`: the factor
    `Obs = U·√S` the routine forms is `O·T` (`C01_chain`; `O` the block observability matrix of
    `(A, amp·Cg[rows])`, `T` invertible), QR contract for the upper part, `Rinv` the inverse of
    the leading block; then `fastA … n` and `outC Obs l n` are `T⁻¹·A·T` and `(amp·Cg[rows])·T`
    (`C01_realisation_fast`), so an eigenvector column of `eig` yields an `Identified` shape. -/
theorem C02C01_identified_fast {N n : ℕ} (hn : n ≤ N) (Obs Qm R Rinv V : Mat Q) (rows : List Nat)
    (hl : 0 < rows.length) (hrl : rows.length ≤ Obs.r)
    (hRc : Rinv.c = n) (hQr : Qm.r = Obs.r - rows.length)
    (hQR : toMx (Obs.r - rows.length) N (upPart Obs rows.length).e
        = toMx (Obs.r - rows.length) N Qm.e * toMx N N R.e)
    (hOrth : (toMx (Obs.r - rows.length) N Qm.e)ᵀ * toMx (Obs.r - rows.length) N Qm.e = 1)
    (hTri : ∀ i j, j < i → R.e i j = 0)
    (hRinv : toMx n n Rinv.e * toMx n n R.e = 1)
    (A T Tinv : Matrix (Fin n) (Fin n) Q) (hT : T * Tinv = 1)
    (Cg : ℕ → Fin n → Q) (amp : Q) (hamp : amp ≠ 0)
    (hObs : ∀ i, i < Obs.r → ∀ j : Fin n,
      Obs.e i j.1 = ∑ k, obsFn rows.length A (setupC Cg rows amp) i k * T k j)
    (k : Nat) (hk : k < V.c) (lam : Q)
    (hv : (toMx n n (fastA Rinv Qm (dnPart Obs rows.length) n).e).mulVec (fun t : Fin n => V.e t.1 k)
        = lam • (fun t : Fin n => V.e t.1 k))
    (hvne : (fun t : Fin n => V.e t.1 k) ≠ 0) :
    Identified A Cg lam rows ((shapesOf (outC Obs rows.length n) V).getD k []) := by
  let Oup : Matrix (Fin (Obs.r - rows.length)) (Fin n) Q :=
    Matrix.of fun i k => obsFn rows.length A (setupC Cg rows amp) i.1 k
  have h1 : toMx (Obs.r - rows.length) n (upPart Obs rows.length).e = Oup * T := by
    ext i j
    simp only [toMx, Matrix.mul_apply, Oup, Matrix.of_apply, C01.upPart_e]
    exact hObs i.1 (by have := i.2; omega) j
  have h2 : toMx (Obs.r - rows.length) n (dnPart Obs rows.length).e = Oup * A * T := by
    ext i j
    simp only [toMx, Matrix.mul_apply, Oup, Matrix.of_apply, C01.dnPart_e]
    rw [hObs (rows.length + i.1) (by have := i.2; omega) j]
    apply Finset.sum_congr rfl
    intro k _
    rw [Nat.add_comm, obs_shift rows.length hl A _ i.1 k]
  have hA := C01.C01_realisation_fast hn (upPart Obs rows.length) (dnPart Obs rows.length) Qm R Rinv
    hRc hQr hQR hOrth hTri hRinv Oup A T Tinv hT h1 h2
  exact ⟨amp, T, Tinv, fastA Rinv Qm (dnPart Obs rows.length) n, outC Obs rows.length n, V, k, hamp,
    rfl, rfl, hT, hA, outC_of_factor A T Cg rows amp Obs hObs hrl, hk, hv, hvne, rfl⟩

/-- **C02C01_identified_legacy.** The same for the legacy routine `SSI` (`pinv(O↑ₙ)·O↓ₙ`, the
    pseudo-inverse a left inverse of the upper part: `C01_realisation_legacy`). -/
theorem C02C01_identified_legacy {n : ℕ} (Obs Pinv V : Mat Q) (rows : List Nat)
    (hl : 0 < rows.length) (hrl : rows.length ≤ Obs.r)
    (hPc : Pinv.c = Obs.r - rows.length)
    (hP : toMx n (Obs.r - rows.length) Pinv.e * toMx (Obs.r - rows.length) n (upPart Obs rows.length).e = 1)
    (A T Tinv : Matrix (Fin n) (Fin n) Q) (hT : T * Tinv = 1)
    (Cg : ℕ → Fin n → Q) (amp : Q) (hamp : amp ≠ 0)
    (hObs : ∀ i, i < Obs.r → ∀ j : Fin n,
      Obs.e i j.1 = ∑ k, obsFn rows.length A (setupC Cg rows amp) i k * T k j)
    (k : Nat) (hk : k < V.c) (lam : Q)
    (hv : (toMx n n (legacyA Pinv Obs rows.length).e).mulVec (fun t : Fin n => V.e t.1 k)
        = lam • (fun t : Fin n => V.e t.1 k))
    (hvne : (fun t : Fin n => V.e t.1 k) ≠ 0) :
    Identified A Cg lam rows ((shapesOf (outC Obs rows.length n) V).getD k []) := by
  let Oup : Matrix (Fin (Obs.r - rows.length)) (Fin n) Q :=
    Matrix.of fun i k => obsFn rows.length A (setupC Cg rows amp) i.1 k
  have h1 : toMx (Obs.r - rows.length) n (upPart Obs rows.length).e = Oup * T := by
    ext i j
    simp only [toMx, Matrix.mul_apply, Oup, Matrix.of_apply, C01.upPart_e]
    exact hObs i.1 (by have := i.2; omega) j
  have h2 : toMx (Obs.r - rows.length) n (dnPart Obs rows.length).e = Oup * A * T := by
    ext i j
    simp only [toMx, Matrix.mul_apply, Oup, Matrix.of_apply, C01.dnPart_e]
    rw [hObs (rows.length + i.1) (by have := i.2; omega) j]
    apply Finset.sum_congr rfl
    intro k _
    rw [Nat.add_comm, obs_shift rows.length hl A _ i.1 k]
  have hA := C01.C01_realisation_legacy Obs Pinv hPc hP Oup A T Tinv hT h1 h2
  exact ⟨amp, T, Tinv, legacyA Pinv Obs rows.length, outC Obs rows.length n, V, k, hamp,
    rfl, rfl, hT, hA, outC_of_factor A T Cg rows amp Obs hObs hrl, hk, hv, hvne, rfl⟩

/-! ## the hypotheses of `C02_merge` for unit-normalised setups -/

theorem dot_zero_of_all_zero (v : List Q) (h : ∀ x ∈ v, x = 0) : dot v v = 0 := by
  have : v = v.map ((0 : Q) * ·) := by
    conv_lhs => rw [← List.map_id v]
    apply List.map_congr_left
    intro x hx; rw [h x hx]; simp
  rw [this, dot_scale]; ring

theorem mem_of_pick {rows ref refRows : List Nat} (hin : ∀ i ∈ ref, i < rows.length)
    (href : pick rows ref = refRows) : ∀ r ∈ refRows, r ∈ rows := by
  intro r hr
  rw [← href] at hr
  unfold pick at hr
  obtain ⟨i, hi, rfl⟩ := List.mem_map.mp hr
  have := hin i hi
  simp [List.getD_eq_getElem?_getD, List.getElem?_eq_getElem this]

/-- a setup that contains the reference rows, on which the shape is not isotropic-zero, has a
    non-zero pivot -/
theorem pivot_ne_zero (g : ℕ → Q) (refRows rows ref : List Nat)
    (hin : ∀ i ∈ ref, i < rows.length) (href : pick rows ref = refRows)
    (hg : dot (refRows.map g) (refRows.map g) ≠ 0) : pivotOf (rows.map g) ≠ 0 := by
  have hex : ∃ r ∈ refRows, g r ≠ 0 := by
    by_contra hc
    apply hg
    apply dot_zero_of_all_zero
    intro x hx
    obtain ⟨r, hr, rfl⟩ := List.mem_map.mp hx
    by_contra hne
    exact hc ⟨r, hr, hne⟩
  obtain ⟨r, hr, hr0⟩ := hex
  exact pivotOf_ne_zero _ (g r) (List.mem_map.mpr ⟨r, mem_of_pick hin href r hr, rfl⟩) hr0

/-- **C02C01_good.** The hypotheses of `C02_merge` for a unit-normalised setup, with the explicit
    factor `1/pivot`.  The one that is *not* automatic is `Good.real`: `gen.MSF` keeps the real
    part of the least-squares ratio, so the ratio of the two pivots has to be real. -/
theorem C02C01_good (g : ℕ → Q) (refRows rows0 rows ref : List Nat)
    (hin : ∀ i ∈ ref, i < rows.length) (href : pick rows ref = refRows)
    (hg : dot (refRows.map g) (refRows.map g) ≠ 0) (hp0 : pivotOf (rows0.map g) ≠ 0)
    (hratio : (pivotOf (rows.map g) / pivotOf (rows0.map g)).im = 0) :
    Good realPart g refRows (1 / pivotOf (rows0.map g)) (unitSetup g rows ref) := by
  have hp := pivot_ne_zero g refRows rows ref hin href hg
  refine ⟨hin, href, ?_, ?_⟩
  · exact one_div_ne_zero hp
  · have hX : 1 / pivotOf (rows0.map g) / (unitSetup g rows ref).s
        = pivotOf (rows.map g) / pivotOf (rows0.map g) := by
      show 1 / pivotOf (rows0.map g) / (1 / pivotOf (rows.map g)) = _
      field_simp
    rw [hX]
    exact (realPart_eq_self_iff _).mpr hratio

/-! ## end-to-end, one mode -/

/-- the layout of the later setups: (global row of every channel, reference positions) -/
abbrev Layout := List (List Nat × List Nat)

/-- **C02_e2e_mode.** One mode, shapes as extracted (unit-normalised restrictions of `g`), all
    setups listing the same global reference rows in the same order, pivot ratios real:
    the model of `merge_mode_shapes` returns `g[order]` in the scale of the first setup,
    `order` = reference rows (first setup's order) then every setup's roving rows in setup
    order. -/
theorem C02_e2e_mode (g : ℕ → Q) (refRows rows0 ref0 : List Nat) (rest : Layout)
    (h0in : ∀ i ∈ ref0, i < rows0.length) (h0ref : pick rows0 ref0 = refRows)
    (hin : ∀ p ∈ rest, ∀ i ∈ p.2, i < p.1.length) (href : ∀ p ∈ rest, pick p.1 p.2 = refRows)
    (hg : dot (refRows.map g) (refRows.map g) ≠ 0)
    (hratio : ∀ p ∈ rest, (pivotOf (p.1.map g) / pivotOf (rows0.map g)).im = 0) :
    mergedCol realPart (normalise (rows0.map g) :: rest.map (fun p => normalise (p.1.map g)))
        (ref0 :: rest.map (·.2))
      = (refRows ++ rovingConcat (rows0 :: rest.map (·.1)) (ref0 :: rest.map (·.2))).map
          (fun r => (1 / pivotOf (rows0.map g)) * g r) := by
  have hp0 := pivot_ne_zero g refRows rows0 ref0 h0in h0ref hg
  have key := C02_merge realPart g refRows (unitSetup g rows0 ref0)
    (rest.map (fun p => unitSetup g p.1 p.2)) h0in h0ref
    (by
      intro d hd
      obtain ⟨p, hp, rfl⟩ := List.mem_map.mp hd
      exact C02C01_good g refRows rows0 p.1 p.2 (hin p hp) (href p hp) hg hp0 (hratio p hp))
    hg
  simp only [List.map_cons, List.map_map] at key
  have e1 : (SetupD.phi g ∘ fun p : List Nat × List Nat => unitSetup g p.1 p.2)
      = fun p => normalise (p.1.map g) := by
    funext p; exact unitSetup_phi g p.1 p.2
  have e2 : ((fun d : SetupD Q => d.ref) ∘ fun p : List Nat × List Nat => unitSetup g p.1 p.2)
      = (·.2) := rfl
  have e3 : ((fun d : SetupD Q => d.rows) ∘ fun p : List Nat × List Nat => unitSetup g p.1 p.2)
      = (·.1) := rfl
  rw [e1, e2, e3, unitSetup_phi] at key
  exact key

/-- the pivot of a shape without imaginary parts has no imaginary part -/
theorem pivot_im_zero (v : List Q) (h : ∀ x ∈ v, x.im = 0) : (pivotOf v).im = 0 := by
  unfold pivotOf
  rw [List.getD_eq_getElem?_getD]
  cases hj : v[argmaxNormSq v]? with
  | none => rfl
  | some x => exact h x (List.mem_of_getElem? hj)

/-- **C02_e2e_mode_monophase.** Real mode shapes — more generally monophase ones, `g = z·x` with
    `x` real-valued and `z ≠ 0` any complex number (the scaling of the eigenvector is free) —
    always have real pivot ratios: the end-to-end statement holds for them unconditionally. -/
theorem C02_e2e_mode_monophase (g x : ℕ → Q) (z : Q) (hz : z ≠ 0) (hgx : ∀ r, g r = z * x r)
    (hx : ∀ r, (x r).im = 0)
    (refRows rows0 ref0 : List Nat) (rest : Layout)
    (h0in : ∀ i ∈ ref0, i < rows0.length) (h0ref : pick rows0 ref0 = refRows)
    (hin : ∀ p ∈ rest, ∀ i ∈ p.2, i < p.1.length) (href : ∀ p ∈ rest, pick p.1 p.2 = refRows)
    (hg : dot (refRows.map g) (refRows.map g) ≠ 0) :
    mergedCol realPart (normalise (rows0.map g) :: rest.map (fun p => normalise (p.1.map g)))
        (ref0 :: rest.map (·.2))
      = (refRows ++ rovingConcat (rows0 :: rest.map (·.1)) (ref0 :: rest.map (·.2))).map
          (fun r => (1 / pivotOf (rows0.map g)) * g r) := by
  apply C02_e2e_mode g refRows rows0 ref0 rest h0in h0ref hin href hg
  intro p _
  have hmap : ∀ rows : List Nat, rows.map g = (rows.map x).map (z * ·) := by
    intro rows; rw [List.map_map]; apply List.map_congr_left; intro r _; exact hgx r
  rw [hmap p.1, hmap rows0, pivotOf_scale z hz, pivotOf_scale z hz, mul_div_mul_left _ _ hz]
  apply div_im_zero
  · exact pivot_im_zero _ (by intro y hy; obtain ⟨r, _, rfl⟩ := List.mem_map.mp hy; exact hx r)
  · exact pivot_im_zero _ (by intro y hy; obtain ⟨r, _, rfl⟩ := List.mem_map.mp hy; exact hx r)

/-! ## what the model returns for arbitrary complex factors -/

section complex
variable {C : Type} [Field C] [Inhabited C]

/-- **C02_merge_complex.** `C02_merge` without the realness hypothesis: for arbitrary non-zero
    (complex) factors the roving block of setup `i` comes out as `re(s₀/sᵢ)·sᵢ·G[rovingᵢ]` —
    the global shape in the first setup's scale **iff** `re(s₀/sᵢ) = s₀/sᵢ` (on non-zero
    rows). -/
theorem C02_merge_complex (re : C → C) (G : Nat → C) (refRows : List Nat) (d0 : SetupD C)
    (ds : List (SetupD C))
    (h0in : ∀ i ∈ d0.ref, i < d0.rows.length) (h0ref : pick d0.rows d0.ref = refRows)
    (hds : ∀ d ∈ ds, (∀ i ∈ d.ref, i < d.rows.length) ∧ pick d.rows d.ref = refRows ∧ d.s ≠ 0)
    (hg : dot (refRows.map G) (refRows.map G) ≠ 0) :
    mergedCol re ((d0 :: ds).map (SetupD.phi G)) ((d0 :: ds).map (·.ref))
      = (refRows ++ delete d0.rows d0.ref).map (fun r => d0.s * G r) ++
        (ds.map fun d => (delete d.rows d.ref).map fun r => re (d0.s / d.s) * (d.s * G r)).flatten := by
  simp only [List.map_cons, mergedCol]
  have hpick0 : pick (SetupD.phi G d0) d0.ref = (refRows.map G).map (d0.s * ·) := by
    unfold SetupD.phi
    rw [pick_map _ _ _ h0in, h0ref, List.map_map]
    rfl
  rw [hpick0]
  have htail : ∀ ds : List (SetupD C),
      (∀ d ∈ ds, (∀ i ∈ d.ref, i < d.rows.length) ∧ pick d.rows d.ref = refRows ∧ d.s ≠ 0) →
      (List.zipWith (fun phi ref => (delete phi ref).map
          (fun x => msf re (pick phi ref) ((refRows.map G).map (d0.s * ·)) * x))
        (ds.map (SetupD.phi G)) (ds.map (·.ref))).flatten
      = (ds.map fun d => (delete d.rows d.ref).map fun r => re (d0.s / d.s) * (d.s * G r)).flatten := by
    intro ds
    induction ds with
    | nil => intro _; simp
    | cons d ds ih =>
      intro h
      obtain ⟨hdin, hdref, hds0⟩ := h d (by simp)
      have hrest := ih (fun d' hd' => h d' (by simp [hd']))
      simp only [List.map_cons, List.zipWith_cons_cons, List.flatten_cons]
      rw [hrest]
      congr 1
      have hpick : pick (SetupD.phi G d) d.ref = (refRows.map G).map (d.s * ·) := by
        unfold SetupD.phi
        rw [pick_map _ _ _ hdin, hdref, List.map_map]
        rfl
      rw [hpick, msf_scaled_general re (refRows.map G) d.s d0.s hds0 hg]
      unfold SetupD.phi
      rw [delete_map, List.map_map]
      rfl
  rw [htail ds hds]
  simp only [List.map_append, List.append_assoc]
  congr 1
  · rw [List.map_map]; rfl
  · congr 1
    unfold SetupD.phi
    rw [delete_map]

end complex

/-- **C02_e2e_mode_complex.** One mode, shapes as extracted, *any* (complex) global shape `g`:
    the references and the first setup's roving rows are `g/pivot₀`; the roving rows of a later
    setup are `Re(pivotᵢ/pivot₀)·g/pivotᵢ` — the real part where the global shape in the first
    setup's scale would need the complex ratio itself. -/
theorem C02_e2e_mode_complex (g : ℕ → Q) (refRows rows0 ref0 : List Nat) (rest : Layout)
    (h0in : ∀ i ∈ ref0, i < rows0.length) (h0ref : pick rows0 ref0 = refRows)
    (hin : ∀ p ∈ rest, ∀ i ∈ p.2, i < p.1.length) (href : ∀ p ∈ rest, pick p.1 p.2 = refRows)
    (hg : dot (refRows.map g) (refRows.map g) ≠ 0) :
    mergedCol realPart (normalise (rows0.map g) :: rest.map (fun p => normalise (p.1.map g)))
        (ref0 :: rest.map (·.2))
      = (refRows ++ delete rows0 ref0).map (fun r => (1 / pivotOf (rows0.map g)) * g r) ++
        (rest.map fun p => (delete p.1 p.2).map fun r =>
          realPart (pivotOf (p.1.map g) / pivotOf (rows0.map g)) * ((1 / pivotOf (p.1.map g)) * g r)).flatten := by
  have hp0 := pivot_ne_zero g refRows rows0 ref0 h0in h0ref hg
  have key := C02_merge_complex realPart g refRows (unitSetup g rows0 ref0)
    (rest.map (fun p => unitSetup g p.1 p.2)) h0in h0ref
    (by
      intro d hd
      obtain ⟨p, hp, rfl⟩ := List.mem_map.mp hd
      exact ⟨hin p hp, href p hp, one_div_ne_zero (pivot_ne_zero g refRows p.1 p.2 (hin p hp) (href p hp) hg)⟩)
    hg
  simp only [List.map_cons, List.map_map] at key
  have e1 : (SetupD.phi g ∘ fun p : List Nat × List Nat => unitSetup g p.1 p.2)
      = fun p => normalise (p.1.map g) := by
    funext p; exact unitSetup_phi g p.1 p.2
  have e2 : ((fun d : SetupD Q => d.ref) ∘ fun p : List Nat × List Nat => unitSetup g p.1 p.2)
      = (·.2) := rfl
  rw [e1, e2, unitSetup_phi] at key
  refine Eq.trans key ?_
  simp only [unitSetup]
  congr 2
  apply List.map_congr_left
  intro p hp
  have hpi := pivot_ne_zero g refRows p.1 p.2 (hin p hp) (href p hp) hg
  apply List.map_congr_left
  intro r _
  congr 2
  field_simp

/-! ## end-to-end, all modes, from C01's conclusion for every setup -/

/-- the loop over modes of `merge_mode_shapes` (as in the driver operation): per-setup shape
    matrices given by their columns -/
def mergedModes (Phis : List (Nat → List Q)) (refs : List (List Nat)) (nm : Nat) : List (List Q) :=
  (List.range nm).map fun k => mergedCol realPart (Phis.map (· k)) refs

/-- the global row order of the merged shape: reference rows in the first setup's order, then
    every setup's roving rows (ascending channel position) in setup order — by `C02_order` the
    order in which `flatten_sns_names` lists the names -/
def globalOrder (refRows rows0 ref0 : List Nat) (rest : Layout) : List Nat :=
  refRows ++ rovingConcat (rows0 :: rest.map (·.1)) (ref0 :: rest.map (·.2))

theorem forall2_columns {n : ℕ} (A : Matrix (Fin n) (Fin n) Q) (Cg : ℕ → Fin n → Q) (lam : Q)
    (w : Fin n → Q) (hsimple : ∀ u, A.mulVec u = lam • u → ∃ c : Q, u = c • w) (k : Nat) :
    ∀ (rest : Layout) (PhiRest : List (Nat → List Q)),
      List.Forall₂ (fun p Φ => Identified A Cg lam p.1 (Φ k)) rest PhiRest →
      PhiRest.map (· k) = rest.map (fun p => normalise (p.1.map (gshape Cg w))) := by
  intro rest PhiRest h
  induction h with
  | nil => rfl
  | cons hp _ ih =>
    simp only [List.map_cons]
    rw [ih, identified_shape A Cg lam w hsimple _ _ hp]

/-- **C02_e2e.** Global system `(A, Cg)` with `nm` modes (`lam k` simple eigenvalue of `A`,
    eigenvector `w k`, global shape `G k = Cg·w k`); every setup measures the global rows of its
    layout entry with its own amplitude and, for every mode, C01's conclusion holds for it
    (`Identified`: exact identification); all setups list the same global reference rows in
    the same order; the reference part of every global shape has a non-zero (unconjugated)
    square sum; the pivot ratios are real (`C02_e2e_real`, `C02_e2e_monophase`: automatic for
    real / monophase shapes).  Then the model of `merge_mode_shapes` applied to the per-setup
    extracted shape matrices returns, for every mode, `G[order, k]` in the scale of the first
    setup (`1/pivot` of the first setup's restriction). -/
theorem C02_e2e {n : ℕ} (A : Matrix (Fin n) (Fin n) Q) (Cg : ℕ → Fin n → Q) (nm : Nat)
    (lam : Nat → Q) (w : Nat → Fin n → Q)
    (hsimple : ∀ k, k < nm → ∀ u, A.mulVec u = lam k • u → ∃ c : Q, u = c • w k)
    (refRows rows0 ref0 : List Nat) (rest : Layout)
    (h0in : ∀ i ∈ ref0, i < rows0.length) (h0ref : pick rows0 ref0 = refRows)
    (hin : ∀ p ∈ rest, ∀ i ∈ p.2, i < p.1.length) (href : ∀ p ∈ rest, pick p.1 p.2 = refRows)
    (Phi0 : Nat → List Q) (PhiRest : List (Nat → List Q))
    (hid0 : ∀ k, k < nm → Identified A Cg (lam k) rows0 (Phi0 k))
    (hid : ∀ k, k < nm → List.Forall₂ (fun p Φ => Identified A Cg (lam k) p.1 (Φ k)) rest PhiRest)
    (hg : ∀ k, k < nm → dot (refRows.map (gshape Cg (w k))) (refRows.map (gshape Cg (w k))) ≠ 0)
    (hratio : ∀ k, k < nm → ∀ p ∈ rest,
      (pivotOf (p.1.map (gshape Cg (w k))) / pivotOf (rows0.map (gshape Cg (w k)))).im = 0) :
    mergedModes (Phi0 :: PhiRest) (ref0 :: rest.map (·.2)) nm
      = (List.range nm).map fun k => (globalOrder refRows rows0 ref0 rest).map
          (fun r => (1 / pivotOf (rows0.map (gshape Cg (w k)))) * gshape Cg (w k) r) := by
  unfold mergedModes
  apply List.map_congr_left
  intro k hk
  have hk' : k < nm := List.mem_range.mp hk
  simp only [List.map_cons]
  rw [forall2_columns A Cg (lam k) (w k) (hsimple k hk') k rest PhiRest (hid k hk'),
    identified_shape A Cg (lam k) (w k) (hsimple k hk') rows0 _ (hid0 k hk')]
  exact C02_e2e_mode (gshape Cg (w k)) refRows rows0 ref0 rest h0in h0ref hin href (hg k hk')
    (hratio k hk')

/-- **C02_e2e_monophase** (real mode shapes): as `C02_e2e`, the pivot-ratio hypothesis replaced by
    "every global shape is a complex multiple of a real-valued vector". -/
theorem C02_e2e_monophase {n : ℕ} (A : Matrix (Fin n) (Fin n) Q) (Cg : ℕ → Fin n → Q) (nm : Nat)
    (lam : Nat → Q) (w : Nat → Fin n → Q)
    (hsimple : ∀ k, k < nm → ∀ u, A.mulVec u = lam k • u → ∃ c : Q, u = c • w k)
    (refRows rows0 ref0 : List Nat) (rest : Layout)
    (h0in : ∀ i ∈ ref0, i < rows0.length) (h0ref : pick rows0 ref0 = refRows)
    (hin : ∀ p ∈ rest, ∀ i ∈ p.2, i < p.1.length) (href : ∀ p ∈ rest, pick p.1 p.2 = refRows)
    (Phi0 : Nat → List Q) (PhiRest : List (Nat → List Q))
    (hid0 : ∀ k, k < nm → Identified A Cg (lam k) rows0 (Phi0 k))
    (hid : ∀ k, k < nm → List.Forall₂ (fun p Φ => Identified A Cg (lam k) p.1 (Φ k)) rest PhiRest)
    (hg : ∀ k, k < nm → dot (refRows.map (gshape Cg (w k))) (refRows.map (gshape Cg (w k))) ≠ 0)
    (z : Nat → Q) (x : Nat → Nat → Q) (hz : ∀ k, k < nm → z k ≠ 0)
    (hgx : ∀ k, k < nm → ∀ r, gshape Cg (w k) r = z k * x k r)
    (hx : ∀ k, k < nm → ∀ r, (x k r).im = 0) :
    mergedModes (Phi0 :: PhiRest) (ref0 :: rest.map (·.2)) nm
      = (List.range nm).map fun k => (globalOrder refRows rows0 ref0 rest).map
          (fun r => (1 / pivotOf (rows0.map (gshape Cg (w k)))) * gshape Cg (w k) r) := by
  unfold mergedModes
  apply List.map_congr_left
  intro k hk
  have hk' : k < nm := List.mem_range.mp hk
  simp only [List.map_cons]
  rw [forall2_columns A Cg (lam k) (w k) (hsimple k hk') k rest PhiRest (hid k hk'),
    identified_shape A Cg (lam k) (w k) (hsimple k hk') rows0 _ (hid0 k hk')]
  exact C02_e2e_mode_monophase (gshape Cg (w k)) (x k) (z k) (hz k hk') (hgx k hk') (hx k hk')
    refRows rows0 ref0 rest h0in h0ref hin href (hg k hk')

/-- **C02_e2e_real**: global shapes without imaginary parts (`z = 1`). -/
theorem C02_e2e_real {n : ℕ} (A : Matrix (Fin n) (Fin n) Q) (Cg : ℕ → Fin n → Q) (nm : Nat)
    (lam : Nat → Q) (w : Nat → Fin n → Q)
    (hsimple : ∀ k, k < nm → ∀ u, A.mulVec u = lam k • u → ∃ c : Q, u = c • w k)
    (refRows rows0 ref0 : List Nat) (rest : Layout)
    (h0in : ∀ i ∈ ref0, i < rows0.length) (h0ref : pick rows0 ref0 = refRows)
    (hin : ∀ p ∈ rest, ∀ i ∈ p.2, i < p.1.length) (href : ∀ p ∈ rest, pick p.1 p.2 = refRows)
    (Phi0 : Nat → List Q) (PhiRest : List (Nat → List Q))
    (hid0 : ∀ k, k < nm → Identified A Cg (lam k) rows0 (Phi0 k))
    (hid : ∀ k, k < nm → List.Forall₂ (fun p Φ => Identified A Cg (lam k) p.1 (Φ k)) rest PhiRest)
    (hg : ∀ k, k < nm → dot (refRows.map (gshape Cg (w k))) (refRows.map (gshape Cg (w k))) ≠ 0)
    (hreal : ∀ k, k < nm → ∀ r, (gshape Cg (w k) r).im = 0) :
    mergedModes (Phi0 :: PhiRest) (ref0 :: rest.map (·.2)) nm
      = (List.range nm).map fun k => (globalOrder refRows rows0 ref0 rest).map
          (fun r => (1 / pivotOf (rows0.map (gshape Cg (w k)))) * gshape Cg (w k) r) :=
  C02_e2e_monophase A Cg nm lam w hsimple refRows rows0 ref0 rest h0in h0ref hin href Phi0 PhiRest
    hid0 hid hg (fun _ => 1) (fun k r => gshape Cg (w k) r) (fun _ _ => one_ne_zero)
    (fun _ _ _ => (one_mul _).symm) hreal

/-! ## merged frequencies and damping ratios -/

/-- **C02_e2e_stats.** Every setup identifies the same value `f ≠ 0` (C01: the continuous pole is
    recovered exactly in every setup, `pole_recovery`): the merged value (`mean`) is `f`, the
    population variance is 0 and the reported dispersion `σ/mean` is 0 (`σ` any root of the
    variance; the `(d·mean)² = var` identity of `C02_stats`). -/
theorem C02_e2e_stats {C : Type} [Field C] [CharZero C] (xs : List C) (f : C)
    (hne : xs ≠ []) (hall : ∀ x ∈ xs, x = f) (hf : f ≠ 0)
    (sigma : C) (hs : sigma * sigma = pvar xs) :
    mean xs = f ∧ pvar xs = 0 ∧ sigma / mean xs = 0 := by
  have hS : (xs.length : C) ≠ 0 := by
    have : xs.length ≠ 0 := fun h => hne (List.length_eq_zero_iff.mp h)
    exact_mod_cast this
  have hm := mean_const xs f hall hS
  have hv := pvar_const xs f hall hS
  refine ⟨hm, hv, ?_⟩
  have hm0 : mean xs ≠ 0 := by rw [hm]; exact hf
  have h := C02_stats xs sigma hs hm0
  rw [hv] at h
  have h1 : sigma / mean xs * mean xs = 0 := mul_self_eq_zero.mp h
  rcases mul_eq_zero.mp h1 with h2 | h2
  · exact h2
  · exact absurd h2 hm0

/-! ## non-vacuity: two setups, two modes, five global rows, rational numbers

global rows: 0 = reference; setup 0 measures rows `[0, 1, 2]` (reference at position 0), setup 1
measures rows `[3, 0, 4]` (reference at position 1).  Real shapes `exG`. -/

/-- two real global shapes on five rows -/
def exG : Nat → Nat → Q := fun k r =>
  match k, r with
  | 0, 0 => ⟨1, 0⟩ | 0, 1 => ⟨2, 0⟩ | 0, 2 => ⟨1/2, 0⟩ | 0, 3 => ⟨3, 0⟩ | 0, 4 => ⟨-1, 0⟩
  | 1, 0 => ⟨1, 0⟩ | 1, 1 => ⟨-1, 0⟩ | 1, 2 => ⟨1/2, 0⟩ | 1, 3 => ⟨3/10, 0⟩ | 1, 4 => ⟨3/2, 0⟩
  | _, _ => 0

/-- the layout hypotheses of `C02_e2e_mode` hold for the instance (both modes) … -/
example : (∀ i ∈ [0], i < [0, 1, 2].length) ∧ pick [0, 1, 2] [0] = [0] ∧
    (∀ p ∈ ([([3, 0, 4], [1])] : Layout), ∀ i ∈ p.2, i < p.1.length) ∧
    (∀ p ∈ ([([3, 0, 4], [1])] : Layout), pick p.1 p.2 = [0]) ∧
    (∀ k, k < 2 → dot ([0].map (exG k)) ([0].map (exG k)) ≠ 0) ∧
    (∀ k, k < 2 → ∀ p ∈ ([([3, 0, 4], [1])] : Layout),
      (pivotOf (p.1.map (exG k)) / pivotOf ([0, 1, 2].map (exG k))).im = 0) := by
  decide +kernel

/-- … the per-setup shapes are the unit-normalised restrictions (pivots 2 and 3 for mode 0) … -/
example : normalise ([0, 1, 2].map (exG 0)) = [⟨1/2, 0⟩, ⟨1, 0⟩, ⟨1/4, 0⟩] ∧
    normalise ([3, 0, 4].map (exG 0)) = [⟨1, 0⟩, ⟨1/3, 0⟩, ⟨-1/3, 0⟩] ∧
    pivotOf ([0, 1, 2].map (exG 0)) = ⟨2, 0⟩ ∧ pivotOf ([3, 0, 4].map (exG 0)) = ⟨3, 0⟩ := by
  decide +kernel

/-- … and the model of `merge_mode_shapes` returns `G[order]/pivot₀`, `order = [0, 1, 2, 3, 4]`:
    mode 0 in the scale `1/2`, mode 1 in the scale `1/1` (pivot is the first maximum). -/
example :
    mergedModes [fun k => normalise ([0, 1, 2].map (exG k)), fun k => normalise ([3, 0, 4].map (exG k))]
        [[0], [1]] 2
      = [[⟨1/2, 0⟩, ⟨1, 0⟩, ⟨1/4, 0⟩, ⟨3/2, 0⟩, ⟨-1/2, 0⟩],
         [⟨1, 0⟩, ⟨-1, 0⟩, ⟨1/2, 0⟩, ⟨3/10, 0⟩, ⟨3/2, 0⟩]] ∧
    globalOrder [0] [0, 1, 2] [0] [([3, 0, 4], [1])] = [0, 1, 2, 3, 4] := by
  decide +kernel

/-! ### `Identified` is satisfiable: a diagonal two-pole system, amplitude 7, eigenvector scaled by 3 -/

/-- two distinct poles -/
def exLam : Nat → Q := fun k => if k = 0 then ⟨1/2, 1/2⟩ else ⟨-1/3, 1/4⟩
/-- state matrix of the instance (already diagonal) as the model's `Mat` -/
def exAhat : Mat Q := ⟨2, 2, fun i j => if i = j then exLam i else 0⟩
/-- global output matrix: row `r` is `(G[r, 0], G[r, 1])` -/
def exCg : ℕ → Fin 2 → Q := fun r t => exG t.1 r
/-- output matrix of a setup recorded with amplitude 7 -/
def exChat (rows : List Nat) : Mat Q := ⟨rows.length, 2, fun i t => (⟨7, 0⟩ : Q) * exG t (rows.getD i 0)⟩
/-- eigenvector matrix, columns scaled by 3 -/
def exV : Mat Q := ⟨2, 2, fun t k => if t = k then ⟨3, 0⟩ else 0⟩

theorem exIdentified (rows : List Nat) (k : Fin 2) :
    Identified (toMx 2 2 exAhat.e) exCg (exLam k.1) rows ((shapesOf (exChat rows) exV).getD k.1 []) := by
  refine ⟨⟨7, 0⟩, 1, 1, exAhat, exChat rows, exV, k.1, by decide +kernel, rfl, rfl, by simp, by simp,
    ?_, k.2, ?_, ?_, rfl⟩
  · rw [Matrix.mul_one]
    ext a t
    rfl
  · ext t
    fin_cases k <;> fin_cases t <;>
      simp [Matrix.mulVec, dotProduct, Fin.sum_univ_two, toMx, exAhat, exV, exLam]
  · intro h
    have := congrFun h k
    fin_cases k <;> simp [exV] at this <;> exact absurd this (by decide +kernel)

/-- both poles of the instance are simple, with the unit vectors as eigenvectors, and the global
    shape of mode `k` is `exG k` -/
theorem exSimple (k : Fin 2) : ∀ u, (toMx 2 2 exAhat.e).mulVec u = exLam k.1 • u →
    ∃ c : Q, u = c • (fun t : Fin 2 => if t = k then (1 : Q) else 0) := by
  intro u hu
  refine ⟨u k, ?_⟩
  ext t
  by_cases htk : t = k
  · subst htk; simp
  · simp only [Pi.smul_apply, smul_eq_mul, if_neg htk, mul_zero]
    have h := congrFun hu t
    fin_cases k <;> fin_cases t <;> first | exact absurd rfl htk | skip
    · simp [Matrix.mulVec, dotProduct, Fin.sum_univ_two, toMx, exAhat] at h
      rcases h with h0 | h0
      · exact absurd h0 (by decide +kernel)
      · exact h0
    · simp [Matrix.mulVec, dotProduct, Fin.sum_univ_two, toMx, exAhat] at h
      rcases h with h0 | h0
      · exact absurd h0 (by decide +kernel)
      · exact h0

theorem ex_gshape (k : Fin 2) (r : Nat) :
    gshape exCg (fun t : Fin 2 => if t = k then (1 : Q) else 0) r = exG k.1 r := by
  fin_cases k <;> simp [gshape, exCg]

/-- the extracted shape of the instance (amplitude 7, eigenvector scaled by 3) is the
    unit-normalised restriction, as `C02C01_setup_shape` / `identified_shape` say -/
example : (shapesOf (exChat [3, 0, 4]) exV).getD 0 [] = normalise ([3, 0, 4].map (exG 0)) := by
  decide +kernel

/-! ### the premises of `C02C01_identified_fast` / `_legacy` are satisfiable

setup measuring global rows `[0, 1]` of the system `(diag(exLam), I)` with amplitude 7, two block
rows: `Obs = [7·I; 7·A]`, `Q = I`, `R = 7·I`, `R⁻¹ = pinv = I/7`, `T = I`, `eig` returning `3·I`. -/

/-- global output matrix of this instance: the identity -/
def idCg : ℕ → Fin 2 → Q := fun r t => if r = t.1 then ⟨1, 0⟩ else 0
/-- `Obs = [7·I; 7·A]` -/
def exObs : Mat Q :=
  ⟨4, 2, fun i j => if i < 2 then (if i = j then ⟨7, 0⟩ else 0)
    else (if i - 2 = j then (⟨7, 0⟩ : Q) * exLam j else 0)⟩
def exQ : Mat Q := ⟨2, 2, fun i j => if i = j then ⟨1, 0⟩ else 0⟩
def exR : Mat Q := ⟨2, 2, fun i j => if i = j then ⟨7, 0⟩ else 0⟩
def exRinv : Mat Q := ⟨2, 2, fun i j => if i = j then ⟨1/7, 0⟩ else 0⟩

example : Identified (toMx 2 2 exAhat.e) idCg (exLam 0) [0, 1]
    ((shapesOf (outC exObs [0, 1].length 2) exV).getD 0 []) :=
  C02C01_identified_fast (N := 2) (n := 2) (le_refl 2) exObs exQ exR exRinv exV [0, 1]
    (by decide) (by decide) rfl rfl (by decide +kernel) (by decide +kernel)
    (fun i j hji => by simp only [exR]; rw [if_neg (by omega)])
    (by decide +kernel) (toMx 2 2 exAhat.e) 1 1 (by simp) idCg ⟨7, 0⟩ (by decide +kernel)
    (by decide +kernel) 0 (by decide) (exLam 0) (by decide +kernel) (by decide +kernel)

example : Identified (toMx 2 2 exAhat.e) idCg (exLam 1) [0, 1]
    ((shapesOf (outC exObs [0, 1].length 2) exV).getD 1 []) :=
  C02C01_identified_legacy (n := 2) exObs exRinv exV [0, 1]
    (by decide) (by decide) rfl (by decide +kernel)
    (toMx 2 2 exAhat.e) 1 1 (by simp) idCg ⟨7, 0⟩ (by decide +kernel)
    (by decide +kernel) 1 (by decide) (exLam 1) (by decide +kernel) (by decide +kernel)

/-- eigenvectors of the instance, indexed by the mode number -/
def exW (k : Nat) : Fin 2 → Q := fun t => if t.1 = k then 1 else 0

theorem exW_eq (k : Nat) (hk : k < 2) :
    exW k = fun t : Fin 2 => if t = (⟨k, hk⟩ : Fin 2) then (1 : Q) else 0 := by
  funext t; simp [exW, Fin.ext_iff]

theorem ex_gshape' (k : Nat) (hk : k < 2) : gshape exCg (exW k) = exG k := by
  funext r; rw [exW_eq k hk]; exact ex_gshape ⟨k, hk⟩ r

theorem exG_real (k r : Nat) : (exG k r).im = 0 := by
  unfold exG; split <;> rfl

/-- **all hypotheses of `C02_e2e_real` hold together** for the instance: the shape matrices are
    the ones the model of `ac2mp` returns for records of amplitude 7 -/
example :
    mergedModes [fun k => (shapesOf (exChat [0, 1, 2]) exV).getD k [],
                 fun k => (shapesOf (exChat [3, 0, 4]) exV).getD k []] [[0], [1]] 2
      = (List.range 2).map fun k => (globalOrder [0] [0, 1, 2] [0] [([3, 0, 4], [1])]).map
          (fun r => (1 / pivotOf ([0, 1, 2].map (gshape exCg (exW k)))) * gshape exCg (exW k) r) :=
  C02_e2e_real (toMx 2 2 exAhat.e) exCg 2 exLam exW
    (fun k hk => by rw [exW_eq k hk]; exact exSimple ⟨k, hk⟩)
    [0] [0, 1, 2] [0] [([3, 0, 4], [1])] (by decide) (by decide +kernel) (by decide) (by decide +kernel)
    _ [fun k => (shapesOf (exChat [3, 0, 4]) exV).getD k []]
    (fun k hk => exIdentified [0, 1, 2] ⟨k, hk⟩)
    (fun k hk => List.Forall₂.cons (exIdentified [3, 0, 4] ⟨k, hk⟩) List.Forall₂.nil)
    (fun k hk => by
      rw [ex_gshape' k hk]
      obtain rfl | rfl : k = 0 ∨ k = 1 := by omega
      all_goals decide +kernel)
    (fun k hk r => by rw [ex_gshape' k hk]; exact exG_real k r)

/-! ## complex shapes: the merged shape is not the global one

The instance replayed on the real chain `SingleSetup` + `SSIcov` + `MultiSetup_PoSER.merge_results`
(noise-free free decay, fs = 100 Hz, fn = 8 Hz, xi = 2 %; second mode omitted here):
global shape `(1, 2+i, ½−½i, 1+3i, −1+i)`, setup 0 = rows `[0, 1, 2]`, setup 1 = rows `[0, 3, 4]`,
reference = row 0 in both.  Pivots `2+i` and `1+3i`, ratio `1+i`: the roving block of setup 1 is
scaled by `Re(1+i) = 1` where the global shape needs `1+i`. -/

/-- complex global shape of the instance -/
def exGc : Nat → Q := fun r =>
  match r with
  | 0 => ⟨1, 0⟩ | 1 => ⟨2, 1⟩ | 2 => ⟨1/2, -1/2⟩ | 3 => ⟨1, 3⟩ | 4 => ⟨-1, 1⟩ | _ => 0

/-- what the model of `merge_mode_shapes` returns for the extracted (unit-normalised) shapes -/
def exMergedC : List Q :=
  mergedCol realPart [normalise ([0, 1, 2].map exGc), normalise ([0, 3, 4].map exGc)] [[0], [0]]

/-- the value (the real chain returns these numbers to 3e-15) -/
example : exMergedC = [⟨2/5, -1/5⟩, ⟨1, 0⟩, ⟨1/10, -3/10⟩, ⟨1, 0⟩, ⟨1/5, 2/5⟩] ∧
    pivotOf ([0, 3, 4].map exGc) / pivotOf ([0, 1, 2].map exGc) = ⟨1, 1⟩ := by
  decide +kernel

/-- the hypotheses of `C02_e2e_mode_complex` hold for the instance (those of `C02_e2e_mode` do
    not: the pivot ratio is `1+i`) -/
example : (∀ i ∈ [0], i < [0, 1, 2].length) ∧ pick [0, 1, 2] [0] = [0] ∧
    (∀ p ∈ ([([0, 3, 4], [0])] : Layout), ∀ i ∈ p.2, i < p.1.length) ∧
    (∀ p ∈ ([([0, 3, 4], [0])] : Layout), pick p.1 p.2 = [0]) ∧
    dot ([0].map exGc) ([0].map exGc) ≠ 0 ∧
    (pivotOf ([0, 3, 4].map exGc) / pivotOf ([0, 1, 2].map exGc)).im ≠ 0 := by
  decide +kernel

/-- **complex_not_global.** For this complex global shape the merged shape is not a multiple of
    `G[order]` — for no factor `c` at all (so its MAC with the global shape is below 1). -/
theorem complex_not_global : ∀ c : Q, exMergedC ≠ [0, 1, 2, 3, 4].map (fun r => c * exGc r) := by
  intro c h
  have h0 : exMergedC.getD 0 0 = c * exGc 0 := by rw [h]; rfl
  have h3 : exMergedC.getD 3 0 = c * exGc 3 := by rw [h]; rfl
  have hx : exMergedC.getD 0 0 * exGc 3 = exMergedC.getD 3 0 * exGc 0 := by
    rw [h0, h3]; ring
  exact absurd hx (by decide +kernel)

/-- the exact MAC of the merged shape with the global one: `|mᴴg|² / (mᴴm · gᴴg) = 769/925`
    (the real chain: 0.8313513513513509) -/
example :
    let g := [0, 1, 2, 3, 4].map exGc
    normSq (dot (exMergedC.map conj) g)
        / ((dot (exMergedC.map conj) exMergedC).re * (dot (g.map conj) g).re) = 769 / 925 := by
  decide +kernel

/-- `C02_e2e_stats` on two setups that both identify 8 Hz: mean 8, variance 0, dispersion 0 -/
example : mean [(8 : Rat), 8] = 8 ∧ pvar [(8 : Rat), 8] = 0 ∧ (0 : Rat) / mean [(8 : Rat), 8] = 0 :=
  C02_e2e_stats [(8 : Rat), 8] 8 (by simp) (by simp) (by norm_num) 0 (by decide +kernel)

end PV.C02C01
