import PyomaVerif.Model.Wiring
/-!
# Wiring of the extraction methods (C11, C16, C06, C07): which run parameter / result table every
parameter of the extraction routine receives, and where its outputs are stored.  The tables are
regenerated from /repo on every run (`harness/translate_wiring.py`); the kernel evaluates the obligations.
-/
namespace PV.WiringMpe
open PV.Wiring

/-- `SSIdat.mpe` (inherited by SSIcov, SSIdat_MS, SSIcov_MS) hands the user's request and the stored
    (filtered) pole tables, labels and covariance tables to `ssi.SSI_mpe`, each under its own parameter. -/
theorem C11_ssi_mpe_args :
    args "SSIdat" "mpe" "ssi.SSI_mpe"
      [("freq_ref", "sel_freq"), ("order", "order"), ("rtol", "rtol"),
       ("Fn_pol", "self.result.Fn_poles"), ("Xi_pol", "self.result.Xi_poles"), ("Phi_pol", "self.result.Phi_poles"),
       ("Lab", "self.result.Lab"),
       ("Fn_cov", "self.result.Fn_poles_cov"), ("Xi_cov", "self.result.Xi_poles_cov"), ("Phi_cov", "self.result.Phi_poles_cov")] = true := by
  decide

/-- … and stores each output in the result field of the same name (positions follow the return
    statement `Fn, Xi, Phi, order_out, Fn_cov, Xi_cov, Phi_cov` of `SSI_mpe`). -/
theorem C11_ssi_mpe_stores :
    stored "SSIdat" "mpe"
      [("self.result.Fn", "ssi.SSI_mpe[0]#0"), ("self.result.Xi", "ssi.SSI_mpe[0]#1"), ("self.result.Phi", "ssi.SSI_mpe[0]#2"),
       ("self.result.order_out", "ssi.SSI_mpe[0]#3"), ("self.result.Fn_cov", "ssi.SSI_mpe[0]#4"),
       ("self.result.Xi_cov", "ssi.SSI_mpe[0]#5"), ("self.result.Phi_cov", "ssi.SSI_mpe[0]#6"),
       ("self.run_params.sel_freq", "sel_freq"), ("self.run_params.order_in", "order"), ("self.run_params.rtol", "rtol")] = true := by
  decide

/-- `pLSCF.mpe` (inherited by pLSCF_MS): the user's `rtol` reaches the parameter `rtol` (not `deltaf`),
    nothing is passed positionally beyond `order`. -/
theorem C11_plscf_mpe_args :
    args "pLSCF" "mpe" "plscf.pLSCF_mpe"
      [("sel_freq", "sel_freq"), ("order", "order"), ("rtol", "rtol"), ("Lab", "self.result.Lab"),
       ("Fn_pol", "self.result.Fn_poles"), ("Xi_pol", "self.result.Xi_poles"), ("Phi_pol", "self.result.Phi_poles")] = true
    ∧ onlyParams "pLSCF" "mpe" "plscf.pLSCF_mpe" ["sel_freq", "Fn_pol", "Xi_pol", "Phi_pol", "order", "Lab", "rtol"] = true := by
  decide

theorem C11_plscf_mpe_stores :
    stored "pLSCF" "mpe"
      [("self.result.Fn", "plscf.pLSCF_mpe[0]#0"), ("self.result.Xi", "plscf.pLSCF_mpe[0]#1"),
       ("self.result.Phi", "plscf.pLSCF_mpe[0]#2"), ("self.result.order_out", "plscf.pLSCF_mpe[0]#3")] = true := by
  decide

/-- **C16 hand-over.** `mpe_from_plot` passes the dialog's result pair — frequencies as the request,
    orders as the per-mode order list — with no stability labels, and the user's `rtol`. -/
theorem C16_handover_wiring :
    args "SSIdat" "mpe_from_plot" "ssi.SSI_mpe"
      [("freq_ref", "<SelFromPlot(algo=self, freqlim=freqlim, plot='SSI')>.result[0]"),
       ("order", "<SelFromPlot(algo=self, freqlim=freqlim, plot='SSI')>.result[1]"),
       ("Lab", "None"), ("rtol", "rtol"),
       ("Fn_pol", "self.result.Fn_poles"), ("Xi_pol", "self.result.Xi_poles"), ("Phi_pol", "self.result.Phi_poles")] = true
    ∧ args "pLSCF" "mpe_from_plot" "plscf.pLSCF_mpe"
      [("sel_freq", "<SelFromPlot(algo=self, freqlim=freqlim, plot='pLSCF')>.result[0]"),
       ("order", "<SelFromPlot(algo=self, freqlim=freqlim, plot='pLSCF')>.result[1]"),
       ("Lab", "None"), ("rtol", "rtol")] = true
    ∧ args "FDD" "mpe_from_plot" "fdd.FDD_mpe"
      [("sel_freq", "<SelFromPlot(algo=self, freqlim=freqlim, plot='FDD')>.result[0]"), ("DF", "DF")] = true := by
  decide

/-- **C06.** `FDD.mpe` (inherited by FDD_MS) searches the band the CALLER asked for (`DF` is the
    method's own argument, not a stored run parameter) in the stored singular values/vectors. -/
theorem C06_fdd_mpe_wiring :
    args "FDD" "mpe" "fdd.FDD_mpe"
      [("Sval", "self.result.S_val"), ("Svec", "self.result.S_vec"), ("freq", "self.result.freq"),
       ("sel_freq", "sel_freq"), ("DF", "DF")] = true
    ∧ stored "FDD" "mpe" [("self.result.Fn", "fdd.FDD_mpe[0]#0"), ("self.result.Phi", "fdd.FDD_mpe[0]#1")] = true := by
  decide

/-- **C07.** `EFDD.mpe` (inherited by FSDD, EFDD_MS) passes every fit parameter of THIS call
    (`DF1, DF2, cm, MAClim, sppk, npmax`), the spectral matrix and the spectral-estimator name. -/
theorem C07_efdd_mpe_wiring :
    args "EFDD" "mpe" "fdd.EFDD_mpe"
      [("Sy", "self.result.Sy"), ("freq", "self.result.freq"), ("dt", "self.dt"), ("sel_freq", "sel_freq"),
       ("methodSy", "self.run_params.method_SD"), ("method", "self.method"),
       ("DF1", "DF1"), ("DF2", "DF2"), ("cm", "cm"), ("MAClim", "MAClim"), ("sppk", "sppk"), ("npmax", "npmax")] = true
    ∧ stored "EFDD" "mpe"
      [("self.result.Fn", "fdd.EFDD_mpe[0]#0.reshape(-1)"), ("self.result.Xi", "fdd.EFDD_mpe[0]#1.reshape(-1)"), ("self.result.Phi", "fdd.EFDD_mpe[0]#2")] = true := by
  decide

/-- **C16 hand-over, EFDD / FSDD / EFDD_MS.** `EFDD.mpe_from_plot` hands the frequencies picked in the dialog
    (first component of the dialog's result) to `fdd.EFDD_mpe` as the request, with the stored spectrum and the
    fit parameters of THIS call; FDD's hand-over reads the stored singular values/vectors and grid; the pLSCF
    hand-over reads the three stored pole tables; nothing else is passed. -/
theorem C16_handover_wiring_efdd :
    args "EFDD" "mpe_from_plot" "fdd.EFDD_mpe"
      [("sel_freq", "<SelFromPlot(algo=self, freqlim=freqlim, plot='FDD')>.result[0]"),
       ("Sy", "self.result.Sy"), ("freq", "self.result.freq"), ("dt", "self.dt"),
       ("methodSy", "self.run_params.method_SD"), ("method", "self.method"),
       ("DF1", "DF1"), ("DF2", "DF2"), ("cm", "cm"), ("MAClim", "MAClim"), ("sppk", "sppk"), ("npmax", "npmax")] = true
    ∧ onlyParams "EFDD" "mpe_from_plot" "fdd.EFDD_mpe"
      ["Sy", "freq", "dt", "sel_freq", "methodSy", "method", "DF1", "DF2", "cm", "MAClim", "sppk", "npmax"] = true
    ∧ args "FDD" "mpe_from_plot" "fdd.FDD_mpe"
      [("Sval", "self.result.S_val"), ("Svec", "self.result.S_vec"), ("freq", "self.result.freq")] = true
    ∧ onlyParams "FDD" "mpe_from_plot" "fdd.FDD_mpe" ["Sval", "Svec", "freq", "sel_freq", "DF"] = true
    ∧ args "pLSCF" "mpe_from_plot" "plscf.pLSCF_mpe"
      [("Fn_pol", "self.result.Fn_poles"), ("Xi_pol", "self.result.Xi_poles"), ("Phi_pol", "self.result.Phi_poles")] = true
    ∧ onlyParams "pLSCF" "mpe_from_plot" "plscf.pLSCF_mpe" ["sel_freq", "Fn_pol", "Xi_pol", "Phi_pol", "order", "Lab", "rtol"] = true
    ∧ onlyParams "SSIdat" "mpe_from_plot" "ssi.SSI_mpe"
      ["freq_ref", "Fn_pol", "Xi_pol", "Phi_pol", "order", "Lab", "rtol", "Fn_cov", "Xi_cov", "Phi_cov"] = true := by
  decide

/-- **C16 stores.** every `mpe_from_plot` stores each output of the extraction routine in the result field of the
    same name (positions follow the routine's return statement) and the tolerances of the call in `run_params`;
    these are ALL its stores (each field once, no later overwrite). -/
theorem C16_from_plot_stores :
    storedExactly "SSIdat" "mpe_from_plot"
      [("self.run_params.rtol", "rtol"),
       ("self.result.Fn", "ssi.SSI_mpe[0]#0"), ("self.result.Xi", "ssi.SSI_mpe[0]#1"), ("self.result.Phi", "ssi.SSI_mpe[0]#2"),
       ("self.result.order_out", "ssi.SSI_mpe[0]#3"), ("self.result.Fn_cov", "ssi.SSI_mpe[0]#4"),
       ("self.result.Xi_cov", "ssi.SSI_mpe[0]#5"), ("self.result.Phi_cov", "ssi.SSI_mpe[0]#6")] = true
    ∧ storedExactly "pLSCF" "mpe_from_plot"
      [("self.run_params.rtol", "rtol"),
       ("self.result.Fn", "plscf.pLSCF_mpe[0]#0"), ("self.result.Xi", "plscf.pLSCF_mpe[0]#1"),
       ("self.result.Phi", "plscf.pLSCF_mpe[0]#2"), ("self.result.order_out", "plscf.pLSCF_mpe[0]#3")] = true
    ∧ storedExactly "FDD" "mpe_from_plot"
      [("self.run_params.DF", "DF"), ("self.result.Fn", "fdd.FDD_mpe[0]#0"), ("self.result.Phi", "fdd.FDD_mpe[0]#1")] = true
    ∧ storedExactly "EFDD" "mpe_from_plot"
      [("self.run_params.DF1", "DF1"), ("self.run_params.DF2", "DF2"), ("self.run_params.cm", "cm"),
       ("self.run_params.MAClim", "MAClim"), ("self.run_params.sppk", "sppk"), ("self.run_params.npmax", "npmax"),
       ("self.result.Fn", "fdd.EFDD_mpe[0]#0.reshape(-1)"), ("self.result.Xi", "fdd.EFDD_mpe[0]#1.reshape(-1)"),
       ("self.result.Phi", "fdd.EFDD_mpe[0]#2"), ("self.result.forPlot", "fdd.EFDD_mpe[0]#3")] = true := by
  decide

/-- **C11 / C06 (C07).** the `mpe` bodies store exactly these (target, value) pairs — the request in `run_params`, every
    output of the extraction routine in the result field of the same name — each once, nothing else, no later
    overwrite (strengthens `C11_*_stores`, `C06_fdd_mpe_wiring`, `C07_efdd_mpe_wiring`, which look a field up). -/
theorem C11_mpe_stores_exact :
    storedExactly "SSIdat" "mpe"
      [("self.run_params.sel_freq", "sel_freq"), ("self.run_params.order_in", "order"), ("self.run_params.rtol", "rtol"),
       ("self.result.Fn", "ssi.SSI_mpe[0]#0"), ("self.result.Xi", "ssi.SSI_mpe[0]#1"), ("self.result.Phi", "ssi.SSI_mpe[0]#2"),
       ("self.result.order_out", "ssi.SSI_mpe[0]#3"), ("self.result.Fn_cov", "ssi.SSI_mpe[0]#4"),
       ("self.result.Xi_cov", "ssi.SSI_mpe[0]#5"), ("self.result.Phi_cov", "ssi.SSI_mpe[0]#6")] = true
    ∧ storedExactly "pLSCF" "mpe"
      [("self.run_params.sel_freq", "sel_freq"), ("self.run_params.order_in", "order"), ("self.run_params.rtol", "rtol"),
       ("self.result.Fn", "plscf.pLSCF_mpe[0]#0"), ("self.result.Xi", "plscf.pLSCF_mpe[0]#1"),
       ("self.result.Phi", "plscf.pLSCF_mpe[0]#2"), ("self.result.order_out", "plscf.pLSCF_mpe[0]#3")] = true := by
  decide

theorem C06_mpe_stores_exact :
    storedExactly "FDD" "mpe"
      [("self.run_params.sel_freq", "sel_freq"), ("self.run_params.DF", "DF"),
       ("self.result.Fn", "fdd.FDD_mpe[0]#0"), ("self.result.Phi", "fdd.FDD_mpe[0]#1")] = true
    ∧ storedExactly "EFDD" "mpe"
      [("self.run_params.sel_freq", "sel_freq"), ("self.run_params.DF1", "DF1"), ("self.run_params.DF2", "DF2"),
       ("self.run_params.cm", "cm"), ("self.run_params.MAClim", "MAClim"), ("self.run_params.sppk", "sppk"),
       ("self.run_params.npmax", "npmax"),
       ("self.result.Fn", "fdd.EFDD_mpe[0]#0.reshape(-1)"), ("self.result.Xi", "fdd.EFDD_mpe[0]#1.reshape(-1)"),
       ("self.result.Phi", "fdd.EFDD_mpe[0]#2"), ("self.result.forPlot", "fdd.EFDD_mpe[0]#3")] = true := by
  decide

end PV.WiringMpe
