import PyomaVerif.Props.C06
import PyomaVerif.Props.C06Faithful
import PyomaVerif.Props.C13
import PyomaVerif.Model.FddAll
import Mathlib.Tactic.Linarith
import Mathlib.Tactic.IntervalCases
/-!
# C06 (depth 2) — non-empty band, frequency interval, composition with the stored decomposition

About the executable model functions `Fdd.fddPick` / `fddOne` / `fddMpe` (driver op `fdd_mpe`,
streams `fdd.FDD_mpe`, `fdd.FDD_mpe[ties]`) and the composed `Fdd.fddOfSpecOne` / `fddOfSpec`
(`SD_svalsvec` then `FDD_mpe`; driver op `fdd_of_spec`, stream `fdd.FDD_mpe[of spectrum]`).

* `UniformGrid`: the frequency vector of `fdd.SD_est` — `freq[i] = i·df`, `df > 0`
  (`C06_grid_of_sd_per`, `C06_grid_of_sd_cor`: derived from the C13 grid theorems, so the
  strictly-increasing-grid hypothesis `hmono` of `C06.C06_pick_in_band` is discharged).
* `C06_band_nonempty`: the property's premise — selected frequency inside the grid, half-width
  `DF` of at least one line spacing — gives `idxlim[0] < idxlim[1]`, for every first-minimum
  tie-break of the two `argmin`s (band edges exactly midway between two lines included).
* `C06_no_exception`, `C06_no_exception_all`: under the premise `FDD_mpe` returns (clause
  "premise ⇒ no exception"; `C06.C06_empty_band` only characterised the error branch).
* `C06_fn_interval`: the returned frequency is a grid line with `|fn − sel| ≤ DF + df/2`.
* `C06_pick_singular`: for `FDD_mpe ∘ SD_svalsvec` the picked line maximises the ratio `σ₁/σ₂`
  of the SINGULAR VALUES `np.linalg.svd` returned for the spectral matrix, first line on ties,
  and the shape is the normalised conjugate of the first left singular vector there: the
  hypotheses `h1/h2` of `C06.C06_pick_sqrt` (stored values are non-negative square roots) are
  derived from the contracts of `svd` and `sqrt`.
* `C06_zero_sigma2_outside`: a second singular value that is exactly zero in the band is the
  model's `outside-model` error (numpy: `inf`/`nan` ratio, no exception) — never an `.ok`.
-/
set_option linter.unusedSectionVars false
set_option linter.unusedVariables false
namespace PV.C06Band
open PV PV.Fdd PV.Efdd PV.C06 PV.C06Faithful

variable {K : Type} [Field K] [LinearOrder K] [IsStrictOrderedRing K]

/-- the frequency vector of `fdd.SD_est` (first `nf` lines): `freq[i] = i·df`, `df > 0` -/
def UniformGrid (nf : Nat) (freq : Nat → K) (df : K) : Prop :=
  0 < df ∧ ∀ i, i < nf → freq i = (i : K) * df

theorem UniformGrid.mono {nf : Nat} {freq : Nat → K} {df : K} (h : UniformGrid nf freq df) :
    ∀ i j, i < j → j < nf → freq i < freq j := by
  intro i j hij hj
  rw [h.2 i (lt_trans hij hj), h.2 j hj]
  exact mul_lt_mul_of_pos_right (Nat.cast_lt.mpr hij) h.1

theorem UniformGrid.lt_of_lt {nf : Nat} {freq : Nat → K} {df : K} (h : UniformGrid nf freq df)
    {a b : Nat} (ha : a < nf) (hb : b < nf) (hab : freq a < freq b) : a < b := by
  by_contra hc
  rcases Nat.eq_or_lt_of_le (not_lt.mp hc) with e | e
  · subst e; exact lt_irrefl _ hab
  · exact lt_asymm hab (h.mono b a e ha)

/-- **Grid ("per").** The frequency vector of `SD_est(method="per")` is uniform with
    `df = fs/nxseg`. -/
theorem C06_grid_of_sd_per (Yall Yref : Mat K) (dt : K) (nxseg nov : Nat) (tw : Nat → CxS K)
    (hdt : 0 < dt) (hn : 0 < nxseg) :
    UniformGrid (sdEstPer Yall Yref dt nxseg nov tw).nf (sdEstPer Yall Yref dt nxseg nov tw).freq
      (1 / dt / (nxseg : K)) := by
  refine ⟨div_pos (one_div_pos.mpr hdt) (Nat.cast_pos.mpr hn), ?_⟩
  intro i _
  rw [(PV.C13.sd_grid_per Yall Yref dt nxseg nov tw).2.2.2 i, mul_div_assoc]

/-- **Grid ("cor").** The same for the correlogram chain. -/
theorem C06_grid_of_sd_cor (Yall Yref : Mat K) (dt : K) (nxseg : Nat) (tw tw2 : Nat → CxS K)
    (ew : Nat → K) (hdt : 0 < dt) (hn : 0 < nxseg) :
    UniformGrid (sdEstCor Yall Yref dt nxseg tw tw2 ew).nf
      (sdEstCor Yall Yref dt nxseg tw tw2 ew).freq (1 / dt / (nxseg : K)) := by
  refine ⟨div_pos (one_div_pos.mpr hdt) (Nat.cast_pos.mpr hn), ?_⟩
  intro i _
  rw [(PV.C13.sd_grid_cor Yall Yref dt nxseg tw tw2 ew).2.2.2 i, mul_div_assoc]

/-! ### the nearest line of a uniform grid -/

/-- the first nearest line `L` to `x` is line 0 or lies below `x + df/2` -/
theorem near_upper {nf : Nat} {freq : Nat → K} {df : K} (h : UniformGrid nf freq df)
    (hnf : 0 < nf) (x : K) :
    argminTo nf (fun i => absK (freq i - x)) = 0 ∨
      freq (argminTo nf (fun i => absK (freq i - x))) < x + df / 2 := by
  set L := argminTo nf (fun i => absK (freq i - x)) with hLdef
  have hL : L < nf := argminTo_lt hnf _
  by_cases h0 : L = 0
  · exact Or.inl h0
  · right
    have h1 := argminTo_first (n := nf) (fun i => absK (freq i - x)) (L - 1) (by omega)
    change absK (freq L - x) < absK (freq (L - 1) - x) at h1
    rw [absK_eq_abs, absK_eq_abs] at h1
    have e : freq (L - 1) = freq L - df := by
      rw [h.2 _ (by omega), h.2 _ hL]
      have : ((L - 1 : Nat) : K) = (L : K) - 1 := by
        rw [Nat.cast_sub (by omega)]; simp
      rw [this]; ring
    rw [e] at h1
    by_contra hc
    have hc : x + df / 2 ≤ freq L := not_lt.mp hc
    have hd := h.1
    rcases abs_cases (freq L - x) with ⟨e1, _⟩ | ⟨e1, _⟩ <;>
    rcases abs_cases (freq L - df - x) with ⟨e2, _⟩ | ⟨e2, _⟩ <;>
    rw [e1, e2] at h1 <;> linarith

/-- the first nearest line `L` to `x` is the last line or lies above `x − df/2` -/
theorem near_lower {nf : Nat} {freq : Nat → K} {df : K} (h : UniformGrid nf freq df)
    (hnf : 0 < nf) (x : K) :
    argminTo nf (fun i => absK (freq i - x)) + 1 = nf ∨
      x - df / 2 ≤ freq (argminTo nf (fun i => absK (freq i - x))) := by
  set L := argminTo nf (fun i => absK (freq i - x)) with hLdef
  have hL : L < nf := argminTo_lt hnf _
  by_cases h0 : L + 1 = nf
  · exact Or.inl h0
  · right
    have h1 := argminTo_le (n := nf) (fun i => absK (freq i - x)) (L + 1) (by omega)
    change absK (freq L - x) ≤ absK (freq (L + 1) - x) at h1
    rw [absK_eq_abs, absK_eq_abs] at h1
    have e : freq (L + 1) = freq L + df := by
      rw [h.2 _ (by omega), h.2 _ hL]; push_cast; ring
    rw [e] at h1
    by_contra hc
    have hc : freq L < x - df / 2 := not_le.mp hc
    have hd := h.1
    rcases abs_cases (freq L - x) with ⟨e1, _⟩ | ⟨e1, _⟩ <;>
    rcases abs_cases (freq L + df - x) with ⟨e2, _⟩ | ⟨e2, _⟩ <;>
    rw [e1, e2] at h1 <;> linarith

/-- **C06_band_nonempty.**  On the grid `i·df` (at least two lines), for a selected frequency
    between the first and the last line and a half-width `DF ≥ df`, the slice
    `[idxlim[0], idxlim[1])` searched by `FDD_mpe` is never empty — whatever the first-minimum
    rule of `np.argmin` does when a band edge is exactly midway between two lines. -/
theorem C06_band_nonempty (nf : Nat) (hnf : 2 ≤ nf) (freq : Nat → K) (df sel DF : K)
    (hg : UniformGrid nf freq df) (hlo : freq 0 ≤ sel) (hhi : sel ≤ freq (nf - 1))
    (hDF : df ≤ DF) :
    bandLo nf freq sel DF < bandHi nf freq sel DF := by
  have hnf0 : 0 < nf := by omega
  have hL : bandLo nf freq sel DF < nf := argminTo_lt hnf0 _
  have hH : bandHi nf freq sel DF < nf := argminTo_lt hnf0 _
  have hd := hg.1
  have hU : bandLo nf freq sel DF = 0 ∨ freq (bandLo nf freq sel DF) < sel - DF + df / 2 :=
    near_upper hg hnf0 (sel - DF)
  have hW : bandHi nf freq sel DF + 1 = nf ∨ sel + DF - df / 2 ≤ freq (bandHi nf freq sel DF) :=
    near_lower hg hnf0 (sel + DF)
  rcases hU with hU | hU <;> rcases hW with hW | hW
  · omega
  · apply hg.lt_of_lt hL hH
    rw [hU]; linarith
  · apply hg.lt_of_lt hL hH
    have e : bandHi nf freq sel DF = nf - 1 := by omega
    rw [e]; linarith
  · apply hg.lt_of_lt hL hH
    linarith

/-- the two band-limit lines are within half a line spacing of the requested band -/
theorem C06_band_edges (nf : Nat) (hnf : 0 < nf) (freq : Nat → K) (df sel DF : K)
    (hg : UniformGrid nf freq df) (hlo : freq 0 ≤ sel) (hhi : sel ≤ freq (nf - 1))
    (hDF : 0 ≤ DF) :
    sel - DF - df / 2 ≤ freq (bandLo nf freq sel DF) ∧
      freq (bandHi nf freq sel DF) < sel + DF + df / 2 := by
  have hd := hg.1
  have hU : bandHi nf freq sel DF = 0 ∨ freq (bandHi nf freq sel DF) < sel + DF + df / 2 :=
    near_upper hg hnf (sel + DF)
  have hW : bandLo nf freq sel DF + 1 = nf ∨ sel - DF - df / 2 ≤ freq (bandLo nf freq sel DF) :=
    near_lower hg hnf (sel - DF)
  constructor
  · rcases hW with hW | hW
    · have e : bandLo nf freq sel DF = nf - 1 := by omega
      rw [e]; linarith
    · exact hW
  · rcases hU with hU | hU
    · rw [hU]; linarith
    · exact hU

/-- **C06_no_exception.**  Premise ⇒ no exception: with at least two channels and two
    references, on the grid `i·df`, for `sel` inside the grid and `DF ≥ df`, one pass of the loop
    of `FDD_mpe` returns. -/
theorem C06_no_exception (nch nref nf : Nat) (hch : 2 ≤ nch) (href : 2 ≤ nref) (hnf : 2 ≤ nf)
    (freq : Nat → K) (Sval : Nat → Nat → Nat → K) (Svec : Nat → Nat → Nat → Cx K) (df sel DF : K)
    (hg : UniformGrid nf freq df) (hlo : freq 0 ≤ sel) (hhi : sel ≤ freq (nf - 1))
    (hDF : df ≤ DF) :
    ∃ m, fddOne nch nref nf freq Sval Svec DF sel = .ok m := by
  have hne := C06_band_nonempty nf hnf freq df sel DF hg hlo hhi hDF
  cases hp : fddPick nch nref nf freq (Sval 0 0) (Sval 1 1) sel DF with
  | error e =>
    exfalso
    have := (C06_empty_band nch nref nf freq (Sval 0 0) (Sval 1 1) sel DF).mp ⟨e, hp⟩
    omega
  | ok p =>
    unfold fddOne
    rw [hp]
    exact ⟨_, rfl⟩

/-- the same for the whole list of selected frequencies: `FDD_mpe` returns one mode per
    selected frequency -/
theorem C06_no_exception_all (nch nref nf : Nat) (hch : 2 ≤ nch) (href : 2 ≤ nref) (hnf : 2 ≤ nf)
    (freq : Nat → K) (Sval : Nat → Nat → Nat → K) (Svec : Nat → Nat → Nat → Cx K) (df DF : K)
    (sel : List K) (hg : UniformGrid nf freq df)
    (hsel : ∀ s, s ∈ sel → freq 0 ≤ s ∧ s ≤ freq (nf - 1)) (hDF : df ≤ DF) :
    ∃ l, fddMpe nch nref nf freq Sval Svec sel DF = .ok l ∧ l.length = sel.length := by
  unfold fddMpe
  induction sel with
  | nil => exact ⟨[], rfl, rfl⟩
  | cons s t ih =>
    obtain ⟨l, hl, hlen⟩ := ih (fun x hx => hsel x (List.mem_cons_of_mem _ hx))
    obtain ⟨m, hm⟩ := C06_no_exception nch nref nf hch href hnf freq Sval Svec df s DF hg
      (hsel s (List.mem_cons_self ..)).1 (hsel s (List.mem_cons_self ..)).2 hDF
    refine ⟨m :: l, ?_, by simp [hlen]⟩
    rw [List.mapM_cons, hm, hl]
    rfl

/-- **C06_fn_interval.**  Whenever one pass of `FDD_mpe` returns on the grid `i·df` for a
    selected frequency inside the grid, the returned frequency is the grid line `k·df` of the
    picked index and lies within `DF + df/2` of the selected frequency (`hmono` of
    `C06.C06_pick_in_band` is derived from the grid). -/
theorem C06_fn_interval (nch nref nf : Nat) (freq : Nat → K) (Sval : Nat → Nat → Nat → K)
    (Svec : Nat → Nat → Nat → Cx K) (df sel DF : K) (m : ModeOut K)
    (hg : UniformGrid nf freq df) (hlo : freq 0 ≤ sel) (hhi : sel ≤ freq (nf - 1)) (hDF : 0 ≤ DF)
    (h : fddOne nch nref nf freq Sval Svec DF sel = .ok m) :
    m.pick.idx < nf ∧ m.fn = freq m.pick.idx ∧ m.fn = (m.pick.idx : K) * df ∧
      sel - DF - df / 2 ≤ m.fn ∧ m.fn < sel + DF + df / 2 ∧ |m.fn - sel| ≤ DF + df / 2 := by
  obtain ⟨hp, hfn, _⟩ := C06_mode nch nref nf freq Sval Svec DF sel m h
  obtain ⟨e1, e2, h3, h4, h5, _⟩ := C06_pick nch nref nf freq (Sval 0 0) (Sval 1 1) sel DF m.pick hp
  obtain ⟨b1, b2⟩ := C06_pick_in_band nch nref nf freq (Sval 0 0) (Sval 1 1) sel DF m.pick hp hg.mono
  have hnf : 0 < nf := by omega
  obtain ⟨c1, c2⟩ := C06_band_edges nf hnf freq df sel DF hg hlo hhi hDF
  rw [← e1] at c1
  rw [← e2] at c2
  have hidx : m.pick.idx < nf := lt_trans h4 h5
  have lo' : sel - DF - df / 2 ≤ m.fn := by rw [hfn]; linarith
  have hi' : m.fn < sel + DF + df / 2 := by rw [hfn]; linarith
  refine ⟨hidx, hfn, by rw [hfn, hg.2 _ hidx], lo', hi', ?_⟩
  rw [abs_le]; constructor <;> linarith

/-! ### `FDD_mpe ∘ SD_svalsvec` -/

theorem zeroInBand_false {s2 : Nat → K} {lo hi : Nat} (h : zeroInBand s2 lo hi = false) :
    ∀ k, lo ≤ k → k < hi → s2 k ≠ 0 := by
  intro k h1 h2
  unfold zeroInBand at h
  rw [List.any_eq_false] at h
  have := h (k - lo) (List.mem_range.mpr (by omega))
  rw [Nat.add_sub_cancel' h1] at this
  simpa using this

theorem zeroInBand_true {s2 : Nat → K} {lo hi : Nat} (k : Nat) (h1 : lo ≤ k) (h2 : k < hi)
    (hz : s2 k = 0) : zeroInBand s2 lo hi = true := by
  unfold zeroInBand
  rw [List.any_eq_true]
  exact ⟨k - lo, List.mem_range.mpr (by omega), by rw [Nat.add_sub_cancel' h1]; simpa using hz⟩

/-- **C06_pick_singular.**  `SD_svalsvec` followed by one pass of `FDD_mpe` on a spectral matrix
    sequence `Sy` (`nr × nc × nf`): whenever the composed model returns, under the contracts of
    `np.linalg.svd` and `np.sqrt` at the lines of the band (`SvdContract`, `SqrtOn` — recorded
    calls, checked by the harness), with `σᵢ(k)` the singular values the routine returned for
    `Sy[:, :, k]`:

    the band is `[lo, hi)` with `lo`, `hi` the nearest lines to `sel ∓ DF`; `σ₂ > 0` on the band;
    the picked line maximises `σ₁/σ₂` over the band and is the first line to do so; the returned
    frequency is `freq` of that line and the returned shape is the unity-normalised conjugate of
    the first left singular vector `U[:, 0]` at that line. -/
theorem C06_pick_singular (E : Ext K) (nr nc nf : Nat) (Sy : Nat → Nat → Nat → Cx K)
    (freq : Nat → K) (DF sel : K) (m : ModeOut K)
    (h : fddOfSpecOne E nr nc nf Sy freq DF sel = .ok m)
    (hsvd : ∀ k, m.pick.lo ≤ k → k < m.pick.hi →
      SvdContract nr nc (lineMat Sy k) (E.svd nr nc (lineMat Sy k)))
    (hsq : ∀ k, m.pick.lo ≤ k → k < m.pick.hi →
      SqrtOn E.sqrt (E.svd nr nc (lineMat Sy k)).S nc) :
    nc ≤ nr ∧ 2 ≤ nc ∧
    m.pick.lo = bandLo nf freq sel DF ∧ m.pick.hi = bandHi nf freq sel DF ∧
    m.pick.lo ≤ m.pick.idx ∧ m.pick.idx < m.pick.hi ∧ m.pick.hi < nf ∧
    (∀ k, m.pick.lo ≤ k → k < m.pick.hi → 0 < (E.svd nr nc (lineMat Sy k)).S 1) ∧
    (∀ k, m.pick.lo ≤ k → k < m.pick.hi →
      (E.svd nr nc (lineMat Sy k)).S 0 / (E.svd nr nc (lineMat Sy k)).S 1
        ≤ (E.svd nr nc (lineMat Sy m.pick.idx)).S 0 / (E.svd nr nc (lineMat Sy m.pick.idx)).S 1) ∧
    (∀ k, m.pick.lo ≤ k → k < m.pick.idx →
      (E.svd nr nc (lineMat Sy k)).S 0 / (E.svd nr nc (lineMat Sy k)).S 1
        < (E.svd nr nc (lineMat Sy m.pick.idx)).S 0 / (E.svd nr nc (lineMat Sy m.pick.idx)).S 1) ∧
    m.fn = freq m.pick.idx ∧
    m.phi = (normalise nr (fun i => Cx.conj ((E.svd nr nc (lineMat Sy m.pick.idx)).U i 0))).map
      (fun v => (List.range nr).map v) := by
  unfold fddOfSpecOne at h
  split_ifs at h with hshape h1
  have hshape : nf = 0 ∨ nc ≤ nr := by omega
  simp only at h
  split at h
  · cases h
  · rename_i p hp
    split_ifs at h with hz
    have hz : zeroInBand ((svalsvec E nr nc nf Sy).1 1 1) p.lo p.hi = false := by
      simpa using hz
    obtain ⟨hp', hfn, hphi⟩ := C06_mode nr nc nf freq _ _ DF sel m h
    have epm : p = m.pick := by
      rw [hp] at hp'; injection hp'
    subst epm
    obtain ⟨e1, e2, h3, h4, h5, _⟩ := C06_pick nr nc nf freq _ _ sel DF m.pick hp
    have hnc : 2 ≤ nc := by
      by_contra hc
      have := (C06_empty_band nr nc nf freq ((svalsvec E nr nc nf Sy).1 0 0)
        ((svalsvec E nr nc nf Sy).1 1 1) sel DF).mpr (Or.inr (Or.inr (Or.inl (by omega))))
      obtain ⟨e, he⟩ := this
      rw [hp] at he; cases he
    have hnr : nc ≤ nr := by
      rcases hshape with h0 | h0
      · omega
      · exact h0
    have hs2 := zeroInBand_false hz
    have f0 : ∀ k, m.pick.lo ≤ k → k < m.pick.hi →
        0 ≤ (svalsvec E nr nc nf Sy).1 0 0 k ∧
        (E.svd nr nc (lineMat Sy k)).S 0 = (svalsvec E nr nc nf Sy).1 0 0 k ^ 2 := by
      intro k k1 k2
      have := ((C06_sval_faithful E nr nc nf Sy k (hsq k k1 k2) (hsvd k k1 k2)).2.1 0 (by omega))
      exact ⟨this.2.1, this.2.2.symm⟩
    have f1 : ∀ k, m.pick.lo ≤ k → k < m.pick.hi →
        0 < (svalsvec E nr nc nf Sy).1 1 1 k ∧
        (E.svd nr nc (lineMat Sy k)).S 1 = (svalsvec E nr nc nf Sy).1 1 1 k ^ 2 := by
      intro k k1 k2
      have := ((C06_sval_faithful E nr nc nf Sy k (hsq k k1 k2) (hsvd k k1 k2)).2.1 1 (by omega))
      exact ⟨lt_of_le_of_ne this.2.1 (Ne.symm (hs2 k k1 k2)), this.2.2.symm⟩
    obtain ⟨g1, g2⟩ := C06_pick_sqrt nr nc nf freq _ _
      (fun k => (E.svd nr nc (lineMat Sy k)).S 0) (fun k => (E.svd nr nc (lineMat Sy k)).S 1)
      sel DF m.pick hp f0 f1
    refine ⟨hnr, hnc, e1, e2, h3, h4, h5, ?_, g1, g2, hfn, ?_⟩
    · intro k k1 k2
      rw [(f1 k k1 k2).2]
      exact pow_pos (f1 k k1 k2).1 2
    · rw [hphi]
      congr 2
      funext i
      exact svec_apply E nr nc nf Sy m.pick.idx 0 i

/-- whenever the composed model returns, it returns what one pass of `FDD_mpe` returns on the
    stored pair of `SD_svalsvec` (no reference to the contracts) -/
theorem C06_of_spec_ok_fdd_one (E : Ext K) (nr nc nf : Nat) (Sy : Nat → Nat → Nat → Cx K)
    (freq : Nat → K) (DF sel : K) (m : ModeOut K)
    (h : fddOfSpecOne E nr nc nf Sy freq DF sel = .ok m) :
    fddOne nr nc nf freq (svalsvec E nr nc nf Sy).1 (svalsvec E nr nc nf Sy).2 DF sel = .ok m := by
  unfold fddOfSpecOne at h
  split_ifs at h with hshape h1
  simp only at h
  split at h
  · cases h
  · split_ifs at h with hz
    exact h

/-- conversely: a pass of `FDD_mpe` on the stored pair of `SD_svalsvec` (`nc ≤ nr`) — e.g. the
    first stage of `Efdd.efddMpe`, which is `fddMpe nch nch nf freq sv.1 sv.2 sel DF1` — whose band
    holds no exactly-zero second stored value IS the composed model's result, so
    `C06_pick_singular` applies to it. -/
theorem C06_of_spec_eq_fdd_one (E : Ext K) (nr nc nf : Nat) (hnr : nc ≤ nr)
    (Sy : Nat → Nat → Nat → Cx K) (freq : Nat → K) (DF sel : K) (m : ModeOut K)
    (h : fddOne nr nc nf freq (svalsvec E nr nc nf Sy).1 (svalsvec E nr nc nf Sy).2 DF sel = .ok m)
    (hz : ∀ k, m.pick.lo ≤ k → k < m.pick.hi → (svalsvec E nr nc nf Sy).1 1 1 k ≠ 0) :
    fddOfSpecOne E nr nc nf Sy freq DF sel = .ok m := by
  obtain ⟨hp, _, _⟩ := C06_mode nr nc nf freq _ _ DF sel m h
  have hzb : zeroInBand ((svalsvec E nr nc nf Sy).1 1 1) m.pick.lo m.pick.hi = false := by
    cases hb : zeroInBand ((svalsvec E nr nc nf Sy).1 1 1) m.pick.lo m.pick.hi with
    | false => rfl
    | true =>
      exfalso
      unfold zeroInBand at hb
      rw [List.any_eq_true] at hb
      obtain ⟨i, hi, hi0⟩ := hb
      exact hz (m.pick.lo + i) (Nat.le_add_right _ _) (by have := List.mem_range.mp hi; omega)
        (by simpa using hi0)
  unfold fddOfSpecOne
  rw [if_neg (by omega)]
  simp only [hp]
  rw [hzb]
  exact h

/-- **Zero second singular value.**  If the line selection succeeds but `σ₂ = 0` at some line of
    the band (square-root contract at that line), the composed model is outside its domain
    (`.error "outside-model: …"`; numpy forms an `inf`/`nan` ratio there) — it never returns a
    mode. -/
theorem C06_zero_sigma2_outside (E : Ext K) (nr nc nf : Nat) (hnr : nc ≤ nr) (hnc : 2 ≤ nc)
    (Sy : Nat → Nat → Nat → Cx K) (freq : Nat → K) (DF sel : K) (p : Pick K)
    (hp : fddPick nr nc nf freq ((svalsvec E nr nc nf Sy).1 0 0) ((svalsvec E nr nc nf Sy).1 1 1)
      sel DF = .ok p)
    (k : Nat) (k1 : p.lo ≤ k) (k2 : k < p.hi)
    (hsq : SqrtOn E.sqrt (E.svd nr nc (lineMat Sy k)).S nc)
    (hz : (E.svd nr nc (lineMat Sy k)).S 1 = 0) :
    fddOfSpecOne E nr nc nf Sy freq DF sel =
      .error "outside-model: zero second singular value in the band (numpy: inf/nan ratio)" := by
  have hs : (svalsvec E nr nc nf Sy).1 1 1 k = 0 := by
    rw [sval_apply, if_pos rfl]
    have := (hsq 1 (by omega)).2
    rw [hz] at this ⊢
    exact mul_self_eq_zero.mp this
  unfold fddOfSpecOne
  rw [if_neg (by omega)]
  simp only [hp]
  rw [if_pos (zeroInBand_true k k1 k2 hs)]

/-! ### Non-vacuity -/

/-- grid `0, ½, 1, …, 5/2` (`df = ½`) -/
example : UniformGrid 6 C06.exFreq (1 / 2 : Rat) :=
  ⟨by norm_num, fun i _ => by simp [C06.exFreq, div_eq_mul_inv]⟩

/-- `sel = 1`, `DF = ½ = df`: premises of `C06_band_nonempty` / `C06_no_exception` / `C06_fn_interval` -/
example : C06.exFreq 0 ≤ (1 : Rat) ∧ (1 : Rat) ≤ C06.exFreq (6 - 1) ∧ (1 / 2 : Rat) ≤ 1 / 2 := by
  decide +kernel

/-- band edges exactly midway between two lines (`sel = 1`, `DF = ¾`: edges `¼`, `7/4`):
    first-minimum rule gives `[0, 3)` -/
example : (bandLo 6 C06.exFreq (1 : Rat) (3 / 4), bandHi 6 C06.exFreq (1 : Rat) (3 / 4)) = (0, 3) := by
  decide +kernel

/-- spectral lines `diag(s, 1)` with `s = 4` at line 2 and `s = 1` elsewhere -/
def exLine (b : Bool) : Nat → Nat → Cx Rat := fun i j =>
  if i = 0 ∧ j = 0 then (if b then ⟨4, 0⟩ else ⟨1, 0⟩) else if i = 1 ∧ j = 1 then ⟨1, 0⟩ else 0
def exSy : Nat → Nat → Nat → Cx Rat := fun i j k => exLine (k == 2) i j

theorem exLine_contract (b : Bool) :
    SvdContract 2 2 (exLine b) (C06Faithful.exE.svd 2 2 (exLine b)) := by
  cases b <;>
  · refine ⟨two_cases (by decide +kernel) (by decide +kernel) (by decide +kernel) (by decide +kernel),
      by decide +kernel, ?_,
      ⟨fun i j => if i = j then 1 else 0,
        two_cases (by decide +kernel) (by decide +kernel) (by decide +kernel) (by decide +kernel),
        two_cases (by decide +kernel) (by decide +kernel) (by decide +kernel) (by decide +kernel)⟩⟩
    intro i j hij hj
    obtain rfl | rfl : j = 0 ∨ j = 1 := by omega
    · obtain rfl : i = 0 := by omega
      decide +kernel
    · obtain rfl | rfl : i = 0 ∨ i = 1 := by omega
      · decide +kernel
      · decide +kernel

theorem exLine_sqrt (b : Bool) :
    SqrtOn C06Faithful.exE.sqrt (C06Faithful.exE.svd 2 2 (exLine b)).S 2 := by
  cases b <;> (unfold SqrtOn; decide +kernel)

/-- the composed model returns on `exSy`: band `[0, 4)`, line 2 picked -/
theorem ex_of_spec : (match fddOfSpecOne C06Faithful.exE 2 2 6 exSy C06.exFreq 1 1 with
    | .ok m => (m.pick.lo, m.pick.hi, m.pick.idx, m.fn) | .error _ => (9, 9, 9, 0)) = (0, 4, 2, 1) := by
  decide +kernel

/-- all hypotheses of `C06_pick_singular` hold jointly -/
example : ∃ m, fddOfSpecOne C06Faithful.exE 2 2 6 exSy C06.exFreq 1 1 = .ok m ∧
    (∀ k, m.pick.lo ≤ k → k < m.pick.hi →
      SvdContract 2 2 (lineMat exSy k) (C06Faithful.exE.svd 2 2 (lineMat exSy k))) ∧
    (∀ k, m.pick.lo ≤ k → k < m.pick.hi →
      SqrtOn C06Faithful.exE.sqrt (C06Faithful.exE.svd 2 2 (lineMat exSy k)).S 2) := by
  cases h : fddOfSpecOne C06Faithful.exE 2 2 6 exSy C06.exFreq 1 1 with
  | error e =>
    exfalso
    have := ex_of_spec
    rw [h] at this
    cases this
  | ok m =>
    exact ⟨m, rfl, fun k _ _ => exLine_contract (k == 2), fun k _ _ => exLine_sqrt (k == 2)⟩

/-- `C06_zero_sigma2_outside`: lines `diag(1, 0)` -/
def exSy0 : Nat → Nat → Nat → Cx Rat := fun i j _ => if i = 0 ∧ j = 0 then ⟨1, 0⟩ else 0
example : (match fddOfSpecOne C06Faithful.exE 2 2 6 exSy0 C06.exFreq 1 1 with
    | .ok _ => "ok" | .error e => e)
      = "outside-model: zero second singular value in the band (numpy: inf/nan ratio)" := by
  decide +kernel

end PV.C06Band
