import PyomaVerif.Props.C01E2E
import PyomaVerif.Props.C09Stored
/-!
# C01 ∘ C09 — identification composed with the hard criteria: the STORED tables

`Props/C01E2E.lean` ends at the raw pole table of `ssi.SSI_poles` (`Recovered`); the property is observed at
`result.Fn_poles / Xi_poles / Phi_poles / Lambds`, i.e. after the hard-criteria masks of `run()`.  Here the two
halves are composed, for every class program regenerated from `/repo` (`classes`) and every setting of the
conjugate criterion:

* `ssiRaw` — the four unfiltered tables as `SSI_poles` assembles them (model `polesTable`) from per-order
  outputs; `OrderFilled` — column `n` holds what the `ac2mp` model returns for the realised pair of order
  `n` (`fnOf`, `xiOf`, `shapesOf`, the recorded `λ_c`);
* `C01_stored` — if the mode is `Recovered` and passes the enabled criteria, the stored tables hold at
  `(k, n)` the recovered frequency, damping, the unity-normalised true shape `C·w` and the pole, and
  extraction (`SSI_mpe` relation `Extracted`) FROM THE STORED frequency table at order `n` returns a cell
  of column `n` holding that frequency;
* `C01_stored_neutral` — under the neutral limits of the class-level runs only `0 < ξ` and a non-zero shape
  with at least two channels remain to be assumed;
* `C01_stored_cov`, `C01_stored_dat` — closed from the record (hypotheses of `C01_e2e_cov` / `_dat`), the
  conjugate partner coming from `Mode.conj`;
* `Ex.stored` — all hypotheses hold jointly on the exact instance of `Props/C01E2E.lean`.

Hypotheses beyond `Recovered`, all on the mode: `0 < ξ < xi_max` for the damping value the model stores
(`xiOf` of the recorded `λ_c`, `|λ_c|` — its link to the system's ξ is the audit's C01 gap 3, not closed here),
`MPC ≥ mpc_lim`, `MPD ≤ mpd_lim` of the TRUE shape `normalise (C·w)`, and — only when `hc["conj"]` is on —
the recorded `λ_c` of the conjugate pole is the conjugate of the recorded `λ_c` (a contract of `np.log`).
-/
namespace PV.C01Stored
open PV PV.Mat PV.Cov PV.Hc PV.HcFn PV.C09 PV.C09C18 PV.C09All PV.Stored PV.C09Stored PV.FreeVib PV.C11 PV.C01E2E
open Matrix

/-- a complex number of the realisation model as one of the indicator model -/
def cx (z : Cpx ℚ) : Cx Rat := ⟨z.re, z.im⟩

/-- **the unfiltered solution of `ssi.SSI_poles`** (no uncertainties): the four tables assembled by the
    model `polesTable` from the per-order lists of frequencies, dampings, shapes and poles -/
def ssiRaw (ordmax : ℕ) (perFn perXi : ℕ → List ℚ) (perPhi : ℕ → List (List (Cpx ℚ)))
    (perLam : ℕ → List (Cpx ℚ)) : Raw where
  fn := polesTable ordmax perFn
  xi := polesTable ordmax perXi
  phi := polesTable ordmax (fun c => (perPhi c).map (·.map cx))
  lam := polesTable ordmax (fun c => (perLam c).map cx)

/-- column `n` of the four tables is what the `ac2mp` model returns for `(Â_n, Ĉ_n)`: `fn = |λ_c|/2π`,
    `xi = −Re λ_c/|λ_c|` on the recorded `λ_c = log(λ)/dt`, `|λ_c|`, `2π`; the normalised shapes `Ĉ_n·V` -/
structure OrderFilled (n : ℕ) (Chat : Mat ℚ) (V : Mat (Cpx ℚ)) (lamc : ℕ → Cpx ℚ) (absl : ℕ → ℚ)
    (twoPi : ℚ) (perFn perXi : ℕ → List ℚ) (perPhi : ℕ → List (List (Cpx ℚ)))
    (perLam : ℕ → List (Cpx ℚ)) : Prop where
  fn : perFn n = (List.range n).map fun j => fnOf (absl j) twoPi
  xi : perXi n = (List.range n).map fun j => xiOf (lamc j) (absl j)
  phi : perPhi n = (List.range n).map fun j => (shapesOf (cplx Chat) V).getD j []
  lam : perLam n = (List.range n).map lamc

theorem cellAt_polesTable {α : Type} (ordmax : ℕ) (per : ℕ → List α) (r c : ℕ) (hr : r < ordmax)
    (hc1 : 1 ≤ c) (hc : c ≤ ordmax) : cellAt (polesTable ordmax per) (r, c) = (per c)[r]? := by
  have hc' : c < ordmax + 1 := by omega
  simp [cellAt, polesTable, List.getElem?_map, List.getElem?_range hr, List.getElem?_range hc', hc1]

theorem cellAt_eq_getD {α : Type} (t : T α) (r c : ℕ) :
    cellAt t (r, c) = (t.getD r []).getD c none := by
  unfold cellAt
  simp only [List.getD_eq_getElem?_getD]
  cases h : t[r]? with
  | none => simp
  | some row => cases h2 : row[c]? <;> simp [h2]

/-- **the unfiltered frequency table the hard criteria start from is the `tableMat` of `Recovered`** -/
theorem toMat_ssiRaw_fn (ordmax : ℕ) (perFn perXi : ℕ → List ℚ) (perPhi : ℕ → List (List (Cpx ℚ)))
    (perLam : ℕ → List (Cpx ℚ)) :
    toMat ordmax (ordmax + 1) ((ssiRaw ordmax perFn perXi perPhi perLam).orig .fn) = tableMat ordmax perFn := by
  unfold toMat tableMat
  congr 1
  funext i o
  show ((cellAt (polesTable ordmax perFn) (i, o)).map Cell.real).bind Cell.real? = _
  rw [cellAt_eq_getD]
  cases ((polesTable ordmax perFn).getD i []).getD o none <;> rfl

section main
variable {n : ℕ} (A : Matrix (Fin n) (Fin n) ℚ) (C : ℕ → Fin n → ℚ) (l : ℕ) (dt : ℝ)
  (lam : Cpx ℚ) (w : Fin n → Cpx ℚ) (mu : ℂ) (Ahat Chat : Mat ℚ) (V : Mat (Cpx ℚ)) (lams : ℕ → Cpx ℚ)

/-- **C01_stored — the stored tables contain the recovered mode, and extraction from them returns it.**
    `cl` any of the six class programs (the SSI ones are the relevant ones; uncertainties off), `conjOn` the
    value of `hc["conj"]`, `(xiMax, mpcLim, mpdLim)` the limits, `ordmax ≥ n` the table size; the run's data
    `p` are the unfiltered tables `ssiRaw …` with `gen.HC_conj`'s model as conjugate test.  If pole `k` of the
    order-`n` column is the mode's (`lams k = lam`), its stored damping value lies in `(0, xi_max)`, the true
    shape passes MPC / MPD, and (with `conj` on) the recorded `λ_c` of some pole `k' < n` is the conjugate
    of that of `k`, then the run terminates and

    * `Fn_poles[k, n]`, `Xi_poles[k, n]`, `Phi_poles[k, n]` (and `Lambds[k, n]` for the SSI classes) hold
      `fnOf`, `xiOf` of the records, `normalise (C·w)` and `λ_c` — the values `Recovered` identifies with the
      system's (`fnR mu`, `xiR mu`, the unity-normalised true shape);
    * every stored table is the unfiltered one blanked at the poles failing a criterion (`FiltOf`);
    * extracting `fn_k` at order `n` from the STORED frequency table returns a cell `(r', n)` holding `fn_k`. -/
theorem C01_stored (hrec : Recovered A C l dt lam w mu Ahat Chat V lams)
    (ordmax : ℕ) (hno : n ≤ ordmax) (lamc : ℕ → Cpx ℚ) (absl : ℕ → ℚ) (twoPi : ℚ)
    (perFn perXi : ℕ → List ℚ) (perPhi : ℕ → List (List (Cpx ℚ))) (perLam : ℕ → List (Cpx ℚ))
    (hfill : OrderFilled n Chat V lamc absl twoPi perFn perXi perPhi perLam)
    (cl : ClassSpec) (hcl : cl ∈ classes) (conjOn : Bool) (xiMax mpcLim mpdLim covMax : ℚ)
    (dir : Nat → (Nat → Cx Rat) → ℝ × ℝ)
    (k : ℕ) (hk : k < n) (hlam : lams k = lam)
    (hdamp : 0 < xiOf (lamc k) (absl k) ∧ xiOf (lamc k) (absl k) < xiMax)
    (hshape : ShapeOk dir mpcLim mpdLim ((normalise (trueShape C l w)).map cx))
    (hconj : conjOn = true → ∃ k', k' < n ∧ lamc k' = Cpx.conj (lamc k)) :
    let p := (ssiRaw ordmax perFn perXi perPhi perLam).params ordmax (ordmax + 1) xiMax mpcLim mpdLim covMax dir
    ∃ e' Tf Tx Tp, runOf cl conjOn false p = some e' ∧
      e' (retVar cl.prog "Fn_poles") = some (CVal.tbl Tf) ∧ FiltOf p conjOn false .fn Tf ∧
      e' (retVar cl.prog "Xi_poles") = some (CVal.tbl Tx) ∧ FiltOf p conjOn false .xi Tx ∧
      e' (retVar cl.prog "Phi_poles") = some (CVal.tbl Tp) ∧ FiltOf p conjOn false .phi Tp ∧
      Kept p conjOn false (k, n) ∧
      Tf (k, n) = some (.real (fnOf (absl k) twoPi)) ∧
      Tx (k, n) = some (.real (xiOf (lamc k) (absl k))) ∧
      Tp (k, n) = some (shapeCell ((normalise (trueShape C l w)).map cx)) ∧
      (cl.hasCov = true → ∃ Tl, e' (retVar cl.prog "Lambds") = some (CVal.tbl Tl) ∧
        FiltOf p conjOn false .lam Tl ∧ Tl (k, n) = some (.cplx (cx (lamc k)))) ∧
      ∀ (rtol : ℚ) (reqs : List (ℚ × Option ℕ)) (cells : List (ℕ × ℕ)), 0 ≤ rtol →
        Extracted (toMat ordmax (ordmax + 1) Tf) rtol reqs cells →
        (fnOf (absl k) twoPi, some n) ∈ reqs →
        ∃ r', (r', n) ∈ cells ∧ (toMat ordmax (ordmax + 1) Tf).e r' n = some (fnOf (absl k) twoPi) := by
  intro p
  have hn1 : 1 ≤ n := by omega
  have hko : k < ordmax := by omega
  obtain ⟨_, _, _, hall⟩ := hrec
  obtain ⟨_, _, _, hsh, _⟩ := hall k hk hlam
  rw [List.getD_eq_getElem?_getD] at hsh
  -- the four unfiltered cells at `(k, n)`
  have cF : cellAt (ssiRaw ordmax perFn perXi perPhi perLam).fn (k, n) = some (fnOf (absl k) twoPi) := by
    show cellAt (polesTable ordmax perFn) (k, n) = _
    rw [cellAt_polesTable ordmax perFn k n hko hn1 hno, hfill.fn]
    simp [List.getElem?_range hk]
  have cX : cellAt (ssiRaw ordmax perFn perXi perPhi perLam).xi (k, n) = some (xiOf (lamc k) (absl k)) := by
    show cellAt (polesTable ordmax perXi) (k, n) = _
    rw [cellAt_polesTable ordmax perXi k n hko hn1 hno, hfill.xi]
    simp [List.getElem?_range hk]
  have cP : cellAt (ssiRaw ordmax perFn perXi perPhi perLam).phi (k, n)
      = some ((normalise (trueShape C l w)).map cx) := by
    show cellAt (polesTable ordmax fun c => (perPhi c).map (·.map cx)) (k, n) = _
    rw [cellAt_polesTable ordmax _ k n hko hn1 hno, hfill.phi]
    simp [List.getElem?_range hk, hsh]
  have cL : ∀ j, j < n → cellAt (ssiRaw ordmax perFn perXi perPhi perLam).lam (j, n) = some (cx (lamc j)) := by
    intro j hj
    show cellAt (polesTable ordmax fun c => (perLam c).map cx) (j, n) = _
    rw [cellAt_polesTable ordmax _ j n (by omega) hn1 hno, hfill.lam]
    simp [List.getElem?_range hj]
  obtain ⟨e', Tf, Tx, Tp, he', hTf, fF, hTx, fX, hTp, fP, hkept, eF, eX, eP, hL⟩ :=
    C09_raw_survives (ssiRaw ordmax perFn perXi perPhi perLam) ordmax (ordmax + 1) cl hcl conjOn xiMax mpcLim
      mpdLim covMax dir (k, n) ⟨hko, by show n < ordmax + 1; omega⟩ _ _ _ _ cF cX cP (cL k hk) hdamp hshape
      (fun hc => by
        obtain ⟨k', hk', hcj⟩ := hconj hc
        refine ⟨(k', n), by show k' < ordmax; omega, by show n < ordmax + 1; omega, _, cL k' hk', ?_, ?_⟩
        · rw [hcj]; rfl
        · rw [hcj]; rfl)
  refine ⟨e', Tf, Tx, Tp, he', hTf, fF, hTx, fX, hTp, fP, hkept, eF, eX, eP, hL, ?_⟩
  intro rtol reqs cells hr hex hreq
  refine C01C11.C01_extract _ rtol hr reqs cells hex _ n hreq ⟨k, hko, ?_⟩
  show (Tf (k, n)).bind Cell.real? = _
  rw [eF]; rfl

/-- **C01_stored_neutral — under the neutral limits of the class-level runs** (`conj` off, `mpc_lim ≤ 0`,
    `mpd_lim ≥ π/2`; `xi_max` above the mode's damping) the criteria hypotheses of `C01_stored` reduce to:
    the stored damping value is positive and the true shape `C·w` is not the zero vector and has at least two
    channels. -/
theorem C01_stored_neutral (hrec : Recovered A C l dt lam w mu Ahat Chat V lams)
    (ordmax : ℕ) (hno : n ≤ ordmax) (lamc : ℕ → Cpx ℚ) (absl : ℕ → ℚ) (twoPi : ℚ)
    (perFn perXi : ℕ → List ℚ) (perPhi : ℕ → List (List (Cpx ℚ))) (perLam : ℕ → List (Cpx ℚ))
    (hfill : OrderFilled n Chat V lamc absl twoPi perFn perXi perPhi perLam)
    (cl : ClassSpec) (hcl : cl ∈ classes) (xiMax mpcLim mpdLim covMax : ℚ)
    (dir : Nat → (Nat → Cx Rat) → ℝ × ℝ) (hmpc : mpcLim ≤ 0) (hmpd : Real.pi / 2 ≤ (mpdLim : ℝ))
    (k : ℕ) (hk : k < n) (hlam : lams k = lam)
    (hdamp : 0 < xiOf (lamc k) (absl k) ∧ xiOf (lamc k) (absl k) < xiMax)
    (hl : 2 ≤ l)
    (hnz : shapeNonZero l (fun j => ((normalise (trueShape C l w)).map cx).getD j ⟨0, 0⟩) = true) :
    let p := (ssiRaw ordmax perFn perXi perPhi perLam).params ordmax (ordmax + 1) xiMax mpcLim mpdLim covMax dir
    ∃ e' Tf Tx Tp, runOf cl false false p = some e' ∧
      e' (retVar cl.prog "Fn_poles") = some (CVal.tbl Tf) ∧
      e' (retVar cl.prog "Xi_poles") = some (CVal.tbl Tx) ∧
      e' (retVar cl.prog "Phi_poles") = some (CVal.tbl Tp) ∧
      Tf (k, n) = some (.real (fnOf (absl k) twoPi)) ∧
      Tx (k, n) = some (.real (xiOf (lamc k) (absl k))) ∧
      Tp (k, n) = some (shapeCell ((normalise (trueShape C l w)).map cx)) ∧
      ∀ (rtol : ℚ) (reqs : List (ℚ × Option ℕ)) (cells : List (ℕ × ℕ)), 0 ≤ rtol →
        Extracted (toMat ordmax (ordmax + 1) Tf) rtol reqs cells →
        (fnOf (absl k) twoPi, some n) ∈ reqs →
        ∃ r', (r', n) ∈ cells ∧ (toMat ordmax (ordmax + 1) Tf).e r' n = some (fnOf (absl k) twoPi) := by
  intro p
  have hlen : ((normalise (trueShape C l w)).map cx).length = l := by
    simp [normalise, trueShape]
  have hshape : ShapeOk dir mpcLim mpdLim ((normalise (trueShape C l w)).map cx) := by
    unfold ShapeOk
    rw [hlen]
    refine ⟨?_, hnz, ?_⟩
    · obtain ⟨q, hq, h0, _⟩ := PV.C18.C18_mpc_bounds (K := ℚ) l hl
        (fun j => ((normalise (trueShape C l w)).map cx).getD j ⟨0, 0⟩)
      exact ⟨q, hq, le_trans hmpc h0⟩
    · exact le_trans (PV.C18.C18_mpd_bounds l _ _ _).2 hmpd
  obtain ⟨e', Tf, Tx, Tp, he', hTf, _, hTx, _, hTp, _, _, eF, eX, eP, _, hex⟩ :=
    C01_stored A C l dt lam w mu Ahat Chat V lams hrec ordmax hno lamc absl twoPi perFn perXi perPhi perLam
      hfill cl hcl false xiMax mpcLim mpdLim covMax dir k hk hlam hdamp hshape (fun h => by cases h)
  exact ⟨e', Tf, Tx, Tp, he', hTf, hTx, hTp, eF, eX, eP, hex⟩

end main

/-! ## closed from the record -/

/-- **C01_stored_cov — covariance-driven SSI, from the free-vibration record to the stored tables.**
    Hypotheses of `C01_e2e_cov` (fast routine: the one `SSIcov.run` calls), the order-`n` column filled by the
    `ac2mp` model from the realised pair, the criteria on the mode as in `C01_stored`, and — for the conjugate
    criterion — the `np.log` contract `hlog`: poles that are conjugate get conjugate recorded `λ_c`.  The
    conjugate partner itself is derived (`Mode.conj` is a mode of the same system, hence recovered). -/
theorem C01_stored_cov {n : ℕ} (A : Matrix (Fin n) (Fin n) ℚ) (C : ℕ → Fin n → ℚ) (x0 : Fin n → ℚ)
    (Y Yref : Mat ℚ) (p : ℕ) (s : ℚ) (hl : 0 < Y.r) (hY : IsFreeResponse A C x0 Y)
    (Γr : Matrix (Fin ((p + 1) * Yref.r)) (Fin n) ℚ)
    (hΓ : gamMx A x0 Yref p s Y.c ((p + 1) * Yref.r) * Γr = 1)
    (Olp : Matrix (Fin n) (Fin (p * Y.r)) ℚ) (hObs : Olp * obsMx (p * Y.r) Y.r A C = 1)
    (U V : Mat ℚ) (S sq : ℕ → ℚ) (N : ℕ)
    (hsvd : SvdOf (hankMM Y Yref p s) U V S N) (hsq : SqrtOf sq S N)
    (Q R Rinv : Mat ℚ) (hqr : QrC (upPart (obsOf U sq N) Y.r) Q R Rinv (p * Y.r) N n)
    (Pinv : Mat ℚ) (hpinv : PinvC (obsOf U sq n) Pinv (p * Y.r) n Y.r)
    (Vf Vl : Mat (Cpx ℚ)) (lamf laml : ℕ → Cpx ℚ)
    (heigf : EigOf n (fastA Rinv Q (dnPart (obsOf U sq N) Y.r) n) Vf lamf)
    (heigl : EigOf n (legacyA Pinv (obsOf U sq n) Y.r) Vl laml)
    (dt : ℝ) (hdt : 0 < dt) (lam : Cpx ℚ) (w : Fin n → Cpx ℚ) (mu : ℂ) (hm : Mode A dt lam w mu)
    (ordmax : ℕ) (hno : n ≤ ordmax) (lamc : ℕ → Cpx ℚ) (absl : ℕ → ℚ) (twoPi : ℚ)
    (perFn perXi : ℕ → List ℚ) (perPhi : ℕ → List (List (Cpx ℚ))) (perLam : ℕ → List (Cpx ℚ))
    (hfill : OrderFilled n (outC (obsOf U sq N) Y.r n) Vf lamc absl twoPi perFn perXi perPhi perLam)
    (hlog : ∀ j j', j < n → j' < n → lamf j' = Cpx.conj (lamf j) → lamc j' = Cpx.conj (lamc j))
    (cl : ClassSpec) (hcl : cl ∈ classes) (conjOn : Bool) (xiMax mpcLim mpdLim covMax : ℚ)
    (dir : Nat → (Nat → Cx Rat) → ℝ × ℝ)
    (hdamp : ∀ k, k < n → lamf k = lam → 0 < xiOf (lamc k) (absl k) ∧ xiOf (lamc k) (absl k) < xiMax)
    (hshape : ShapeOk dir mpcLim mpdLim ((normalise (trueShape C Y.r w)).map C01Stored.cx)) :
    let P := (ssiRaw ordmax perFn perXi perPhi perLam).params ordmax (ordmax + 1) xiMax mpcLim mpdLim covMax dir
    ∃ k, k < n ∧ lamf k = lam ∧ ∃ e' Tf Tx Tp, runOf cl conjOn false P = some e' ∧
      e' (retVar cl.prog "Fn_poles") = some (CVal.tbl Tf) ∧
      e' (retVar cl.prog "Xi_poles") = some (CVal.tbl Tx) ∧
      e' (retVar cl.prog "Phi_poles") = some (CVal.tbl Tp) ∧
      Tf (k, n) = some (.real (fnOf (absl k) twoPi)) ∧
      Tx (k, n) = some (.real (xiOf (lamc k) (absl k))) ∧
      Tp (k, n) = some (shapeCell ((normalise (trueShape C Y.r w)).map C01Stored.cx)) ∧
      ∀ (rtol : ℚ) (reqs : List (ℚ × Option ℕ)) (cells : List (ℕ × ℕ)), 0 ≤ rtol →
        Extracted (toMat ordmax (ordmax + 1) Tf) rtol reqs cells →
        (fnOf (absl k) twoPi, some n) ∈ reqs →
        ∃ r', (r', n) ∈ cells ∧ (toMat ordmax (ordmax + 1) Tf).e r' n = some (fnOf (absl k) twoPi) := by
  intro P
  have h1 := (C01_e2e_cov A C x0 Y Yref p s hl hY Γr hΓ Olp hObs U V S sq N hsvd hsq Q R Rinv hqr Pinv hpinv
    Vf Vl lamf laml heigf heigl dt hdt lam w mu hm).2.1
  have h2 := (C01_e2e_cov A C x0 Y Yref p s hl hY Γr hΓ Olp hObs U V S sq N hsvd hsq Q R Rinv hqr Pinv hpinv
    Vf Vl lamf laml heigf heigl dt hdt _ _ _ hm.conj).2.1
  obtain ⟨k, hk, hlk⟩ := h1.2.2.1
  obtain ⟨k', hk', hlk'⟩ := h2.2.2.1
  obtain ⟨e', Tf, Tx, Tp, he', hTf, _, hTx, _, hTp, _, _, eF, eX, eP, _, hex⟩ :=
    C01_stored A C Y.r dt lam w mu _ _ Vf lamf h1 ordmax hno lamc absl twoPi perFn perXi perPhi perLam
      hfill cl hcl conjOn xiMax mpcLim mpdLim covMax dir k hk hlk (hdamp k hk hlk) hshape
      (fun _ => ⟨k', hk', hlog k k' hk hk' (by rw [hlk', hlk])⟩)
  exact ⟨k, hk, hlk, e', Tf, Tx, Tp, he', hTf, hTx, hTp, eF, eX, eP, hex⟩

/-- **C01_stored_dat — the same for the data-driven Hankel matrix** (hypotheses of `C01_e2e_dat`). -/
theorem C01_stored_dat {n : ℕ} (A : Matrix (Fin n) (Fin n) ℚ) (C : ℕ → Fin n → ℚ) (x0 : Fin n → ℚ)
    (Y Yref : Mat ℚ) (p : ℕ) (s : ℚ) (hl : 0 < Y.r) (hY : IsFreeResponse A C x0 Y)
    (Γr : Matrix (Fin ((p + 1) * Yref.r)) (Fin n) ℚ)
    (hΓ : gamMx A x0 Yref p s Y.c ((p + 1) * Yref.r) * Γr = 1)
    (Olp : Matrix (Fin n) (Fin (p * Y.r)) ℚ) (hObs : Olp * obsMx (p * Y.r) Y.r A C = 1)
    (Rf : Mat ℚ) (hRc : Rf.c = (Yref.r + Y.r) * (p + 1))
    (hdq : DatQr (hankYs Y Yref p s) Rf ((p + 1) * Yref.r) ((p + 1) * Y.r) (Y.c - p - (p + 1) - 1))
    (U V : Mat ℚ) (S sq : ℕ → ℚ) (N : ℕ)
    (hsvd : SvdOf (hankDatOfR Rf Yref.r p) U V S N) (hsq : SqrtOf sq S N)
    (Q R Rinv : Mat ℚ) (hqr : QrC (upPart (obsOf U sq N) Y.r) Q R Rinv (p * Y.r) N n)
    (Pinv : Mat ℚ) (hpinv : PinvC (obsOf U sq n) Pinv (p * Y.r) n Y.r)
    (Vf Vl : Mat (Cpx ℚ)) (lamf laml : ℕ → Cpx ℚ)
    (heigf : EigOf n (fastA Rinv Q (dnPart (obsOf U sq N) Y.r) n) Vf lamf)
    (heigl : EigOf n (legacyA Pinv (obsOf U sq n) Y.r) Vl laml)
    (dt : ℝ) (hdt : 0 < dt) (lam : Cpx ℚ) (w : Fin n → Cpx ℚ) (mu : ℂ) (hm : Mode A dt lam w mu)
    (ordmax : ℕ) (hno : n ≤ ordmax) (lamc : ℕ → Cpx ℚ) (absl : ℕ → ℚ) (twoPi : ℚ)
    (perFn perXi : ℕ → List ℚ) (perPhi : ℕ → List (List (Cpx ℚ))) (perLam : ℕ → List (Cpx ℚ))
    (hfill : OrderFilled n (outC (obsOf U sq N) Y.r n) Vf lamc absl twoPi perFn perXi perPhi perLam)
    (hlog : ∀ j j', j < n → j' < n → lamf j' = Cpx.conj (lamf j) → lamc j' = Cpx.conj (lamc j))
    (cl : ClassSpec) (hcl : cl ∈ classes) (conjOn : Bool) (xiMax mpcLim mpdLim covMax : ℚ)
    (dir : Nat → (Nat → Cx Rat) → ℝ × ℝ)
    (hdamp : ∀ k, k < n → lamf k = lam → 0 < xiOf (lamc k) (absl k) ∧ xiOf (lamc k) (absl k) < xiMax)
    (hshape : ShapeOk dir mpcLim mpdLim ((normalise (trueShape C Y.r w)).map C01Stored.cx)) :
    let P := (ssiRaw ordmax perFn perXi perPhi perLam).params ordmax (ordmax + 1) xiMax mpcLim mpdLim covMax dir
    ∃ k, k < n ∧ lamf k = lam ∧ ∃ e' Tf Tx Tp, runOf cl conjOn false P = some e' ∧
      e' (retVar cl.prog "Fn_poles") = some (CVal.tbl Tf) ∧
      e' (retVar cl.prog "Xi_poles") = some (CVal.tbl Tx) ∧
      e' (retVar cl.prog "Phi_poles") = some (CVal.tbl Tp) ∧
      Tf (k, n) = some (.real (fnOf (absl k) twoPi)) ∧
      Tx (k, n) = some (.real (xiOf (lamc k) (absl k))) ∧
      Tp (k, n) = some (shapeCell ((normalise (trueShape C Y.r w)).map C01Stored.cx)) ∧
      ∀ (rtol : ℚ) (reqs : List (ℚ × Option ℕ)) (cells : List (ℕ × ℕ)), 0 ≤ rtol →
        Extracted (toMat ordmax (ordmax + 1) Tf) rtol reqs cells →
        (fnOf (absl k) twoPi, some n) ∈ reqs →
        ∃ r', (r', n) ∈ cells ∧ (toMat ordmax (ordmax + 1) Tf).e r' n = some (fnOf (absl k) twoPi) := by
  intro P
  have h1 := (C01_e2e_dat A C x0 Y Yref p s hl hY Γr hΓ Olp hObs Rf hRc hdq U V S sq N hsvd hsq Q R Rinv hqr
    Pinv hpinv Vf Vl lamf laml heigf heigl dt hdt lam w mu hm).2.1
  have h2 := (C01_e2e_dat A C x0 Y Yref p s hl hY Γr hΓ Olp hObs Rf hRc hdq U V S sq N hsvd hsq Q R Rinv hqr
    Pinv hpinv Vf Vl lamf laml heigf heigl dt hdt _ _ _ hm.conj).2.1
  obtain ⟨k, hk, hlk⟩ := h1.2.2.1
  obtain ⟨k', hk', hlk'⟩ := h2.2.2.1
  obtain ⟨e', Tf, Tx, Tp, he', hTf, _, hTx, _, hTp, _, _, eF, eX, eP, _, hex⟩ :=
    C01_stored A C Y.r dt lam w mu _ _ Vf lamf h1 ordmax hno lamc absl twoPi perFn perXi perPhi perLam
      hfill cl hcl conjOn xiMax mpcLim mpdLim covMax dir k hk hlk (hdamp k hk hlk) hshape
      (fun _ => ⟨k', hk', hlog k k' hk hk' (by rw [hlk', hlk])⟩)
  exact ⟨k, hk, hlk, e', Tf, Tx, Tp, he', hTf, hTx, hTp, eF, eX, eP, hex⟩

/-! ## Non-vacuity: all hypotheses of `C01_stored` (conjugate criterion ON) hold jointly

The exact instance of `Props/C01E2E.lean` (`Ex`: damped rotation, poles `±¾i`, two channels, order 2).  Records of
`np.log(λ)/dt`, `|λ_c|`, `2π`: `λ_c = −28 ± 157i`, `|λ_c| = 160`, `2π = 157/25` (any rationals serve: they are
records).  Limits `xi_max = 1/5` (the stored damping is `7/40`), `mpc_lim = 7/10` (a two-channel shape has MPC 1:
two points are collinear), `mpd_lim = 2`.  Table size `ordmax = 2`. -/
namespace Ex
open C01E2E.Ex

def lamc : ℕ → Cpx ℚ := fun k => if k = 0 then ⟨-28, 157⟩ else ⟨-28, -157⟩
def absl : ℕ → ℚ := fun _ => 160
def twoPi : ℚ := 157 / 25
abbrev Chat : Mat ℚ := outC (obsOf U sq 2) Y.r 2
def perFn : ℕ → List ℚ := fun c => (List.range c).map fun j => fnOf (absl j) twoPi
def perXi : ℕ → List ℚ := fun c => (List.range c).map fun j => xiOf (lamc j) (absl j)
def perPhi : ℕ → List (List (Cpx ℚ)) := fun c => (List.range c).map fun j => (shapesOf (cplx Chat) Vec).getD j []
def perLam : ℕ → List (Cpx ℚ) := fun c => (List.range c).map lamc

theorem filled : OrderFilled 2 Chat Vec lamc absl twoPi perFn perXi perPhi perLam := ⟨rfl, rfl, rfl, rfl⟩

theorem shape_val : (normalise (trueShape C 2 w)).map cx = [⟨1, 0⟩, ⟨0, -1⟩] := by
  have h : normalise (trueShape C 2 w) = [⟨1, 0⟩, ⟨0, -1⟩] := by decide +kernel
  rw [h]; rfl

theorem shapeOk : ShapeOk (fun _ _ => (1, -1)) (7 / 10) 2 ((normalise (trueShape C 2 w)).map cx) := by
  rw [shape_val]
  refine ⟨⟨1, by decide +kernel, by decide +kernel⟩, by decide +kernel, ?_⟩
  have hb := (PV.C18.C18_mpd_bounds 2 (castShape fun k => ([⟨1, 0⟩, ⟨0, -1⟩] : List (Cx Rat)).getD k ⟨0, 0⟩)
    (1 : ℝ) (-1)).2
  have hpi : Real.pi / 2 ≤ 2 := by linarith [Real.pi_le_four]
  have h2 : ((2 : ℚ) : ℝ) = 2 := by norm_num
  rw [h2]
  exact le_trans hb hpi

/-- the run's data of the instance -/
noncomputable def P : Params (ℕ × ℕ) :=
  (ssiRaw 2 perFn perXi perPhi perLam).params 2 (2 + 1) (1 / 5) (7 / 10) 2 1 (fun _ _ => (1, -1))

/-- **the stored tables of every class hold the recovered mode of the instance** (`conj` on): frequency
    `160/(157/25)`, damping `7/40`, shape `(1, −i)`; the pole passes every enabled criterion (`Kept`). -/
theorem stored (cl : ClassSpec) (hcl : cl ∈ classes) :
    ∃ e' Tf Tx Tp, runOf cl true false P = some e' ∧
      e' (retVar cl.prog "Fn_poles") = some (CVal.tbl Tf) ∧
      e' (retVar cl.prog "Xi_poles") = some (CVal.tbl Tx) ∧
      e' (retVar cl.prog "Phi_poles") = some (CVal.tbl Tp) ∧
      Kept P true false (0, 2) ∧
      Tf (0, 2) = some (.real (160 / (157 / 25))) ∧ Tx (0, 2) = some (.real (7 / 40)) ∧
      Tp (0, 2) = some (shapeCell [⟨1, 0⟩, ⟨0, -1⟩]) := by
  obtain ⟨e', Tf, Tx, Tp, he', hTf, _, hTx, _, hTp, _, hk, eF, eX, eP, _, _⟩ :=
    C01_stored A C Y.r (1 / 100) lam w mu _ Chat Vec lams C01E2E.Ex.recovered.2.1 2 (le_refl _) lamc absl twoPi
      perFn perXi perPhi perLam filled cl hcl true (1 / 5) (7 / 10) 2 1 (fun _ _ => (1, -1)) 0 (by decide) rfl
      (by decide +kernel) shapeOk (fun _ => ⟨1, by decide, by decide +kernel⟩)
  refine ⟨e', Tf, Tx, Tp, he', hTf, hTx, hTp, hk, eF, ?_, ?_⟩
  · rw [eX]; congr 2; decide +kernel
  · rw [eP]
    have : (normalise (trueShape C Y.r w)).map cx = [⟨1, 0⟩, ⟨0, -1⟩] := shape_val
    rw [this]

/-- … and the hypotheses of `C01_stored_neutral` (class-level runs of the harness: `conj` off, `xi_max = 1`,
    `mpc_lim = 0`, `mpd_lim = 2 ≥ π/2`) -/
example (cl : ClassSpec) (hcl : cl ∈ classes) :=
  C01_stored_neutral A C Y.r (1 / 100) lam w mu _ Chat Vec lams C01E2E.Ex.recovered.2.1 2 (le_refl _) lamc absl
    twoPi perFn perXi perPhi perLam filled cl hcl 1 0 2 (10 ^ 9) (fun _ _ => (1, -1)) (le_refl _)
    (by
      have hpi : Real.pi / 2 ≤ 2 := by linarith [Real.pi_le_four]
      have h2 : ((2 : ℚ) : ℝ) = 2 := by norm_num
      rw [h2]; exact hpi)
    0 (by decide) rfl (by decide +kernel) (le_refl _)
    (by show shapeNonZero 2 (fun j => ((normalise (trueShape C 2 w)).map cx).getD j ⟨0, 0⟩) = true
        rw [shape_val]; decide +kernel)

end Ex

end PV.C01Stored
