import PyomaVerif.Model.GeoFile
import PyomaVerif.Props.C19
/-!
# C19 clause 1: the geometry defined "from tables as read from the Excel template"

Two kinds of statements.

* **Obligations over the source** (`decide` over `Generated/GeoWiring.lean`, regenerated from the tested tree by
  `harness/translate_geo.py`): which position of the result tuple of `check_on_geo1/2` reaches which field of the
  stored `Geometry1/2` object in `def_geo{1,2}_by_file` (the second copy of the field ← `res_ok[i]` tables, which no
  test and no stream executed), that the checker receives what `read_excel_file` returned and the setup's `ref_ind`,
  that the file path and the caller's keywords reach `read_excel_file`, and the same for `def_geo1/2` together with
  which argument feeds which sheet key.  They state which VALUE is bound, not how the call is spelled.
* **Theorems about the executed model** `Geo.defGeoByFile` (driver op `c19_by_file`, stream `def_geo{1,2}_by_file`):
  the file entry points accept, reject, align and shift exactly as `check_on_geo1/2` do, so every C19 theorem about
  `checkGeo1/2` is a theorem about a geometry defined from a file.
-/
namespace PV.C19
open PV.Geo PV.GeoWiring

/-! ## obligations over the source -/

/-- **File entry points, field by field.**  `def_geo1_by_file` stores exactly one `Geometry1` on `self.geo1`, every
    keyword of which is an element of the result of ONE call `check_on_geo1(file_dict = <what read_excel_file
    returned>, ref_ind = getattr(self, "ref_ind", None))`, with the field ← position table of the code: names,
    coordinates, directions from positions 0-2, and `sens_lines / bg_nodes / bg_lines / bg_surf` from the positions
    at which the checker returns the sheets `sensors lines / BG nodes / BG lines / BG surfaces`; likewise
    `def_geo2_by_file` with `Geometry2`, `check_on_geo2` and its ten positions (`pts_coord` through `.astype(float)`,
    `sens_lines` ← sheet `sensors lines`, `sens_surf` ← sheet `sensors surfaces`, …).  No other field, none twice. -/
theorem C19_by_file_wiring :
    sameSet (fieldMap "def_geo1_by_file") geo1Fields = true
    ∧ storesFrom "def_geo1_by_file" "geo1" "Geometry1" "check_on_geo1"
        [("file_dict", "<read_excel_file>"), ("ref_ind", refIndExpr)] = true
    ∧ sameSet (fieldMap "def_geo2_by_file") geo2Fields = true
    ∧ storesFrom "def_geo2_by_file" "geo2" "Geometry2" "check_on_geo2"
        [("file_dict", "<read_excel_file>"), ("ref_ind", refIndExpr)] = true := by
  decide

/-- the file path and the caller's extra keywords are what `read_excel_file` receives (nothing else is bound: sheet
    name, engine and index column stay at the defaults of `read_excel_file` unless the caller passes them) -/
theorem C19_by_file_reads_path :
    readCall "def_geo1_by_file" = some ([("path", "arg:path")], "arg:read_excel_file_kwargs")
    ∧ readCall "def_geo2_by_file" = some ([("path", "arg:path")], "arg:read_excel_file_kwargs") := by
  decide

/-- **One table, two copies.**  The file entry points fill the fields from the same positions as `def_geo1/2` (whose
    outcome the streams `def_geo{1,2}` compare with the model cell by cell). -/
theorem C19_by_file_same_as_def_geo :
    sameSet (fieldMap "def_geo1_by_file") (fieldMap "def_geo1") = true
    ∧ sameSet (fieldMap "def_geo2_by_file") (fieldMap "def_geo2") = true := by
  decide

/-- any other `geo_type` reaching `_def_geo_by_file`: `ValueError`, nothing stored, no checker called -/
theorem C19_by_file_other_raises :
    Gen.GeoWiring.raises.lookup "_def_geo_by_file[other]" = some "ValueError"
    ∧ Gen.GeoWiring.storeCount.lookup "_def_geo_by_file[other]" = some 0
    ∧ fieldsOf "_def_geo_by_file[other]" = []
    ∧ (Gen.GeoWiring.calls.filter fun c => c.entry == "_def_geo_by_file[other]" && c.callee != "read_excel_file") = [] := by
  decide

/-- **Argument entry points.**  `def_geo1/2` store one object built from one call of the checker on the dictionary
    they assemble (and the setup's `ref_ind`), with the field ← position tables of the code; the dictionary has exactly
    the sheet keys of the template, each computed from the argument of that name (`sensors names` from `sens_names`
    and the setup's `ref_ind`; `sensors directions` from `sens_dir` and — for the row labels of an array — `sens_coord`;
    `constraints` from `cstr`). -/
theorem C19_def_geo_wiring :
    sameSet (fieldMap "def_geo1") geo1Fields = true
    ∧ storesFrom "def_geo1" "geo1" "Geometry1" "check_on_geo1" [("file_dict", "<dict>"), ("ref_ind", refIndExpr)] = true
    ∧ dictExactly "def_geo1"
        [("sensors names", ["sens_names", "self.ref_ind"]), ("sensors coordinates", ["sens_coord"]),
         ("sensors directions", ["sens_dir", "sens_coord"]), ("sensors lines", ["sens_lines"]),
         ("BG nodes", ["bg_nodes"]), ("BG lines", ["bg_lines"]), ("BG surfaces", ["bg_surf"])] = true
    ∧ sameSet (fieldMap "def_geo2") geo2Fields = true
    ∧ storesFrom "def_geo2" "geo2" "Geometry2" "check_on_geo2" [("file_dict", "<dict>"), ("ref_ind", refIndExpr)] = true
    ∧ dictExactly "def_geo2"
        [("sensors names", ["sens_names", "self.ref_ind"]), ("points coordinates", ["pts_coord"]),
         ("mapping", ["sens_map"]), ("constraints", ["cstr"]), ("sensors sign", ["sens_sign"]),
         ("sensors lines", ["sens_lines"]), ("sensors surfaces", ["sens_surf"]), ("BG nodes", ["bg_nodes"]),
         ("BG lines", ["bg_lines"]), ("BG surfaces", ["bg_surf"])] = true := by
  decide

/-- the field tables index inside the result tuples, and cover every position of them exactly once: nothing the
    checker returns is dropped on the way to the object -/
theorem C19_by_file_covers_result :
    Gen.GeoWiring.retLen = [("check_on_geo1", 7), ("check_on_geo2", 10)]
    ∧ (geo1Fields.map (·.2.1)) = List.range 7 ∧ (geo2Fields.map (·.2.1)) = List.range 10 := by
  decide

/-! ## the executed model of the file entry points -/

/-- **Geometry 1 from a file = the checked tables.** -/
theorem C19_by_file_geo1 (fd : FileDict) (r : Option (List (List Nat))) :
    defGeo1ByFile fd r =
      match checkGeo1 fd r with
      | .ok o => .ok (.geo1 o)
      | .error e => .error (.geo e) := by
  unfold defGeo1ByFile defGeoByFile
  simp only [beq_self_eq_true, if_true]
  cases checkGeo1 fd r <;> rfl

theorem C19_by_file_geo1_ok_iff (fd : FileDict) (r : Option (List (List Nat))) (g : GeoObj) :
    defGeo1ByFile fd r = .ok g ↔ ∃ o, g = .geo1 o ∧ checkGeo1 fd r = .ok o := by
  rw [C19_by_file_geo1]
  cases h : checkGeo1 fd r with
  | error e => simp
  | ok o =>
    constructor
    · intro h'; cases h'; exact ⟨o, rfl, rfl⟩
    · rintro ⟨o', rfl, h'⟩; cases h'; rfl

/-- **Malformed file ⇒ `ValueError`, geometry 1** (the domain and the exclusions of `C19_reject_iff_geo1`): the file
    entry point raises `ValueError` exactly when the table set read from the file is not well-formed, and defines the
    geometry otherwise. -/
theorem C19_by_file_reject_iff_geo1 (fd : FileDict) (r : Option (List (List Nat))) (hd : Domain1 fd)
    (hfl : ∀ nm, fd.names = some nm →
      flattenNames nm r ≠ .error .attributeError ∧ flattenNames nm r ≠ .error .indexError ∧
      flattenNames nm r ≠ .error .keyError ∧ flattenNames nm r ≠ .error .typeError) :
    ((∃ w, defGeo1ByFile fd r = .error (.geo (.valueError w))) ↔ ¬ WellFormed1 fd r)
    ∧ ((∃ o, defGeo1ByFile fd r = .ok (.geo1 o)) ↔ WellFormed1 fd r) := by
  rw [← C19_reject_iff_geo1 fd r hd hfl, ← C19_accept_iff_geo1 fd r hd, C19_by_file_geo1]
  cases h : checkGeo1 fd r with
  | error e => simp
  | ok o => simp

/-- **One-based → zero-based and alignment through the file entry point, geometry 1**: the stored object holds the
    index sheets of the file minus one (absent / empty: `None`), `BG nodes` untouched, and the names are the flattened
    names of the file's name table. -/
theorem C19_by_file_zero_based_geo1 (fd : FileDict) (r : Option (List (List Nat))) (o : Out1)
    (h : defGeo1ByFile fd r = .ok (.geo1 o)) :
    o.lines = shifted (dropInfo fd.tbls) "sensors lines" ∧
    o.bgLines = shifted (dropInfo fd.tbls) "BG lines" ∧
    o.bgSurf = shifted (dropInfo fd.tbls) "BG surfaces" ∧
    o.bgNodes = plainArr (dropInfo fd.tbls) "BG nodes" ∧
    ∃ nm, fd.names = some nm ∧ flattenNames nm r = .ok o.names := by
  obtain ⟨o', ho, hc⟩ := (C19_by_file_geo1_ok_iff fd r _).1 h
  cases ho
  obtain ⟨nm, co, di, hn, _, _, hf, _⟩ := C19_align_geo1 fd r o hc
  obtain ⟨a, b, c, d⟩ := C19_zero_based_geo1 fd r o hc
  exact ⟨a, b, c, d, nm, hn, hf⟩

/-- a table without strings -/
def NumericTbl (t : Tbl) : Prop := ∀ row ∈ t.cells, ∀ x ∈ row, isStr x = false

theorem astypeFloat_numeric {t : Tbl} (h : NumericTbl t) : astypeFloat t = .ok t := by
  unfold astypeFloat
  have : t.cells.mapM (fun r => r.mapM floatCell) = .ok t.cells := by
    have hrow : ∀ row : List Cell, (∀ x ∈ row, isStr x = false) → row.mapM floatCell = .ok row := by
      intro row
      induction row with
      | nil => intro _; rfl
      | cons x xs ih =>
        intro hx
        have h1 : floatCell x = .ok x := by
          have := hx x (List.mem_cons_self)
          cases x <;> simp_all [floatCell, isStr]
        rw [List.mapM_cons, h1, ih (fun y hy => hx y (List.mem_cons_of_mem _ hy))]
        rfl
    have hall : ∀ cells : List (List Cell), (∀ row ∈ cells, ∀ x ∈ row, isStr x = false) →
        cells.mapM (fun r => r.mapM floatCell) = .ok cells := by
      intro cells
      induction cells with
      | nil => intro _; rfl
      | cons c cs ih =>
        intro hc
        rw [List.mapM_cons, hrow c (hc c List.mem_cons_self), ih (fun y hy => hc y (List.mem_cons_of_mem _ hy))]
        rfl
    exact hall t.cells h
  rw [this]

/-- **Geometry 2 from a file = the checked tables** when the points table holds numbers (what `.astype(float)`
    leaves as it is; a string cell there raises `ValueError`, an empty points table is refused by the checker). -/
theorem C19_by_file_geo2 (fd : FileDict) (r : Option (List (List Nat))) (o : Out2) (p : Tbl)
    (h : checkGeo2 fd r = .ok o) (hp : o.pts = some p) (hnum : NumericTbl p) :
    defGeo2ByFile fd r = .ok (.geo2 o) := by
  unfold defGeo2ByFile defGeoByFile
  have : ("geo2" == "geo1") = false := by decide
  simp only [this, beq_self_eq_true, if_true, h, storeGeo2, hp, astypeFloat_numeric hnum]
  simp only [Bool.false_eq_true, if_false]
  congr 2
  cases o
  simp_all

/-- an error of the checker is the error of the file entry point, geometry 2 -/
theorem C19_by_file_geo2_error (fd : FileDict) (r : Option (List (List Nat))) (e : GeoErr)
    (h : checkGeo2 fd r = .error e) : defGeo2ByFile fd r = .error (.geo e) := by
  unfold defGeo2ByFile defGeoByFile
  have : ("geo2" == "geo1") = false := by decide
  simp [this, h]

/-- **One-based → zero-based through the file entry point, geometry 2**: lines and surfaces of the stored object are
    the sheets `sensors lines` / `sensors surfaces` of the file minus one, each in its own field. -/
theorem C19_by_file_zero_based_geo2 (fd : FileDict) (r : Option (List (List Nat))) (o : Out2) (p : Tbl)
    (h : checkGeo2 fd r = .ok o) (hp : o.pts = some p) (hnum : NumericTbl p) :
    ∃ g, defGeo2ByFile fd r = .ok (.geo2 g) ∧
      g.lines = shifted (dropInfo fd.tbls) "sensors lines" ∧
      g.surf = shifted (dropInfo fd.tbls) "sensors surfaces" ∧
      g.bgLines = shifted (dropInfo fd.tbls) "BG lines" ∧
      g.bgSurf = shifted (dropInfo fd.tbls) "BG surfaces" ∧
      g.bgNodes = plainArr (dropInfo fd.tbls) "BG nodes" := by
  obtain ⟨a, b, c, d, e, _⟩ := C19_zero_based_geo2 fd r o h
  exact ⟨o, C19_by_file_geo2 fd r o p h hp hnum, a, b, c, d, e⟩

/-- **Another geometry type**: `ValueError("Invalid geometry type")`, whatever the file holds. -/
theorem C19_by_file_other (t : String) (fd : FileDict) (r : Option (List (List Nat)))
    (h1 : t ≠ "geo1") (h2 : t ≠ "geo2") : defGeoByFile t fd r = .error .invalidType := by
  unfold defGeoByFile
  simp [h1, h2]

/-! ## non-vacuity: concrete files (the table sets of `Props/C19.lean`) -/

/-- a geometry-1 file with lines 1-2, 2-3: accepted, lines stored zero-based (`C19_by_file_geo1_ok_iff`,
    `C19_by_file_zero_based_geo1`) -/
example : defGeo1ByFile exFd1 none = .ok (.geo1 exOut1) := by decide +kernel
example : exOut1.lines = some [[.num 0, .num 1], [.num 1, .num 2]] := by decide +kernel
/-- the hypotheses of `C19_by_file_reject_iff_geo1` hold jointly on that file … -/
example : Domain1 exFd1 ∧ (∀ nm, exFd1.names = some nm →
    flattenNames nm none ≠ .error .attributeError ∧ flattenNames nm none ≠ .error .indexError ∧
    flattenNames nm none ≠ .error .keyError ∧ flattenNames nm none ≠ .error .typeError) :=
  ⟨⟨fun nm h => by cases h; rfl, numericSheet_of_b (by decide +kernel), numericSheet_of_b (by decide +kernel),
    numericSheet_of_b (by decide +kernel)⟩, fun nm h => by cases h; decide⟩
/-- … and a malformed file (directions labelled differently) is a `ValueError` of the file entry point -/
example : defGeo1ByFile ⟨exFd1.names, [("sensors coordinates", exCo), ("sensors directions", { exDi with index := ["c", "a", "d"] })]⟩ none
    = .error (.geo (.valueError .indexMismatch)) := by decide +kernel
/-- a geometry-2 file with a surface sheet and no line sheet (`C19_by_file_geo2`, `C19_by_file_zero_based_geo2`):
    the surface lands in `surf`, zero-based, and `lines` stays `None` -/
example : checkGeo2 exFd2 none = .ok exOut2 ∧ exOut2.pts = some exPts ∧ NumericTbl exPts :=
  ⟨by decide +kernel, rfl, by intro row hr x hx; revert x; revert row; decide⟩
example : defGeo2ByFile exFd2 none = .ok (.geo2 exOut2) ∧ exOut2.surf = some [[.num 0, .num 1, .num 1]] ∧ exOut2.lines = none := by
  decide +kernel
/-- a string among the point coordinates: `.astype(float)` raises `ValueError` (why `C19_by_file_geo2` asks for numbers) -/
example : storeGeo2 { exOut2 with pts := some { exPts with cells := [[.num 1, .str "u", .num 3], [.num 4, .num 5, .num 6]] } }
    = .error (.valueError .mapUnknown) := by decide +kernel
/-- `C19_by_file_geo2_error`: the mapping sheet missing -/
example : checkGeo2 ⟨exFd2.names, [("points coordinates", exPts)]⟩ none = .error (.valueError .missingRequired) := by
  decide +kernel
/-- `C19_by_file_other` -/
example : "geo3" ≠ "geo1" ∧ "geo3" ≠ "geo2" ∧ defGeoByFile "geo3" exFd1 none = .error .invalidType := by decide +kernel

end PV.C19
