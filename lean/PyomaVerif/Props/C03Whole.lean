import PyomaVerif.Model.MultiSetup
import PyomaVerif.Props.C03Table
/-!
# C03 — `ssi.SSI_multi_setup` as one executed function (`Model/MultiSetup.lean`, op `ssi_multi_setup`)

* `ssiMultiSetup_eq` — whenever the executed model returns, what it returns IS the composition the C03 / C08
  theorems speak about: `Obs_all = msObsAll …` of the per-setup factors `obsOf (U kk) (sqrt S kk) ordmax`, the
  `pinv` argument of pass `kk` is `oRef …` of that factor, the `qr` argument is `upPart Obs_all n_DOF`, the `inv`
  arguments are the leading blocks of `R`, `(A, C) = fastLists … n_DOF ordmax step`, the `build_hank` arguments are
  `ssiMsHankArgs Y kk`, with the head of `ssiMsHead` — and the guards that let it return (`step > 0`, `br > 0`,
  at least `ordmax` singular values and columns of `U` per setup, a reference and a roving sensor per setup, every
  visited order within the rows of `R`).
* `ssiMultiSetup_returns` — the converse: those guards make it return (no other exception branch).
* `ssiMultiSetup_empty`, `ssiMultiSetup_step_zero`, `ssiMultiSetup_clip` — the exception branches.
* `C03_e2e_whole` — the `Conclusion` of `C03_e2e_cov` / `C03_e2e_dat` read off the OUTPUT of the executed function:
  list position `n` of the returned `A`, `C` (step 1) is the recovered global pair.
-/
namespace PV.C03Whole
open PV PV.Multi PV.MsGather PV.MsFreeVib PV.Poles PV.MultiSetup

set_option linter.unusedSectionVars false
section loop
variable {L K : Type} [Zero K] [Add K] [Mul K]

/-- the per-setup factor the model forms in pass `kk` -/
abbrev obFn (rc : MsRec K) (ordmax : ℕ) : ℕ → Mat K := fun kk => obsOf (rc.U kk) (sqFn rc kk) ordmax

/-- what lets pass `kk` of the setup loop return -/
structure PassOK (Y : List (Setup L)) (h : MsHead) (br ordmax : ℕ) (rc : MsRec K) (kk : ℕ) : Prop where
  hank : ∃ a, ssiMsHankArgs Y kk = some a ∧ a.2.r = h.n_ref
  sv : ordmax ≤ (rc.sq kk).length
  ucols : ordmax ≤ (rc.U kk).c
  nref : h.n_ref ≠ 0
  nmov : h.n_mov.getD kk 0 ≠ 0
  rows : ∀ i ∈ refRows br h.n_ref (h.n_mov.getD kk 0) ++ movRows br h.n_ref (h.n_mov.getD kk 0), i < (rc.U kk).r

theorem msObs_ok_iff (rc : MsRec K) (ordmax kk : ℕ) (O : Mat K) :
    msObs rc ordmax kk = .ok O ↔
      (ordmax ≤ (rc.sq kk).length ∧ ordmax ≤ (rc.U kk).c ∧ O = obsOf (rc.U kk) (sqFn rc kk) ordmax) := by
  unfold msObs
  constructor
  · intro h
    split at h
    · exact absurd h (by simp)
    · rename_i h1
      split at h
      · exact absurd h (by simp)
      · rename_i h2
        have h3 : ordmax ≤ (rc.sq kk).length := by omega
        refine ⟨h3, ?_, ?_⟩
        · have : min ordmax (rc.U kk).c = min ordmax (rc.sq kk).length := by
            by_contra hne; exact h1 hne
          rw [Nat.min_eq_left h3] at this
          omega
        · injection h with h; exact h.symm
  · rintro ⟨h1, h2, rfl⟩
    rw [if_neg (by rw [Nat.min_eq_left h1, Nat.min_eq_left h2]; simp), if_neg (by omega)]

/-- the setup loop returns exactly when every pass is `PassOK`, and then with the `build_hank` and `pinv`
    arguments of the passes in order -/
theorem msSetupLoop_ok_iff (Y : List (Setup L)) (h : MsHead) (br ordmax : ℕ) (rc : MsRec K) (kks : List ℕ)
    (ps : List ((Mat L × Mat L) × Mat K)) :
    msSetupLoop Y h br ordmax rc kks = .ok ps ↔
      ((∀ kk ∈ kks, PassOK Y h br ordmax rc kk)
        ∧ ps.map (fun p => some p.1) = kks.map (ssiMsHankArgs Y)
        ∧ ps.map (·.2) = kks.map fun kk => oRef br h.n_ref (h.n_mov.getD kk 0) (obFn rc ordmax kk)) := by
  induction kks generalizing ps with
  | nil =>
    simp only [msSetupLoop, List.not_mem_nil, false_imp_iff, implies_true, List.map_nil, true_and,
      List.map_eq_nil_iff, and_self]
    constructor
    · intro h; injection h with h; exact h.symm
    · rintro rfl; rfl
  | cons kk rest ih =>
    simp only [msSetupLoop, List.mem_cons, forall_eq_or_imp, List.map_cons]
    cases hk : ssiMsHankArgs Y kk with
    | none =>
      simp only [reduceCtorEq, false_iff, not_and]
      intro hp
      obtain ⟨a, ha, _⟩ := hp.1.hank
      rw [hk] at ha; exact absurd ha (by simp)
    | some a =>
      simp only []
      by_cases hr : a.2.r = h.n_ref
      swap
      · rw [if_pos hr]
        simp only [reduceCtorEq, false_iff, not_and]
        intro hp
        obtain ⟨a', ha', hr'⟩ := hp.1.hank
        rw [hk] at ha'; injection ha' with ha'; subst ha'
        exact absurd hr' hr
      rw [if_neg (not_not.mpr hr)]
      cases hO : msObs rc ordmax kk with
      | error e =>
        simp only [reduceCtorEq, false_iff, not_and]
        intro hp
        have := (msObs_ok_iff rc ordmax kk (obFn rc ordmax kk)).mpr ⟨hp.1.sv, hp.1.ucols, rfl⟩
        rw [hO] at this; exact absurd this (by simp)
      | ok O =>
        obtain ⟨hsv, huc, rfl⟩ := (msObs_ok_iff rc ordmax kk O).mp hO
        simp only []
        by_cases hz : h.n_ref = 0 ∨ h.n_mov.getD kk 0 = 0
        · rw [if_pos hz]
          simp only [reduceCtorEq, false_iff, not_and]
          intro hp
          rcases hz with hz | hz
          · exact absurd hz hp.1.nref
          · exact absurd hz hp.1.nmov
        rw [if_neg hz]
        rw [not_or] at hz
        by_cases hany : (refRows br h.n_ref (h.n_mov.getD kk 0) ++ movRows br h.n_ref (h.n_mov.getD kk 0)).any
            (fun i => decide ((obsOf (rc.U kk) (sqFn rc kk) ordmax).r ≤ i)) = true
        · rw [if_pos hany]
          simp only [reduceCtorEq, false_iff, not_and]
          intro hp
          rw [List.any_eq_true] at hany
          obtain ⟨i, hi, hle⟩ := hany
          have := hp.1.rows i hi
          have hle' : (rc.U kk).r ≤ i := of_decide_eq_true hle
          omega
        rw [if_neg hany]
        have hrows : ∀ i ∈ refRows br h.n_ref (h.n_mov.getD kk 0) ++ movRows br h.n_ref (h.n_mov.getD kk 0),
            i < (rc.U kk).r := by
          intro i hi
          by_contra hlt
          apply hany
          rw [List.any_eq_true]
          exact ⟨i, hi, decide_eq_true (show (rc.U kk).r ≤ i by omega)⟩
        have hpass : PassOK Y h br ordmax rc kk := ⟨⟨a, hk, hr⟩, hsv, huc, hz.1, hz.2, hrows⟩
        cases hrest : msSetupLoop Y h br ordmax rc rest with
        | error e =>
          simp only [reduceCtorEq, false_iff, not_and]
          intro hp
          cases ps with
          | nil => simp
          | cons p ps' =>
            intro h1 h2
            simp only [List.map_cons, List.cons.injEq] at h1 h2
            have := (ih ps').mpr ⟨hp.2, h1.2, h2.2⟩
            rw [hrest] at this; exact absurd this (by simp)
        | ok ps' =>
          obtain ⟨i1, i2, i3⟩ := (ih ps').mp hrest
          simp only [Except.ok.injEq]
          constructor
          · rintro rfl
            refine ⟨⟨hpass, i1⟩, ?_, ?_⟩
            · simp only [List.map_cons, i2]
            · simp only [List.map_cons, i3]
          · rintro ⟨_, h1, h2⟩
            cases ps with
            | nil => simp at h1
            | cons p ps'' =>
              simp only [List.map_cons, List.cons.injEq, Option.some.injEq] at h1 h2
              have hps : msSetupLoop Y h br ordmax rc rest = .ok ps'' := (ih ps'').mpr ⟨i1, h1.2, h2.2⟩
              rw [hrest] at hps
              injection hps with hps
              subst hps
              obtain ⟨p1, p2⟩ := p
              simp only at h1 h2
              rw [h1.1, h2.1]

end loop

section main
variable {L K : Type} [Zero K] [Add K] [Mul K]

/-- **`ssiMultiSetup_eq`.**  The executed model of `ssi.SSI_multi_setup` returns `out` exactly when `Y` has a head
    `h` (`Y ≠ []`), `br ≥ 1`, `step ≥ 1`, every pass is `PassOK`, and `out` is: the head; the `build_hank` arguments
    `ssiMsHankArgs Y kk` in setup order; the `pinv` arguments `O_ref = oRef …` of the per-setup factors
    `U1[:, :ordmax]·sqrt(S1)[:ordmax]`; `Obs_all = msObsAll …` of those factors and the recorded pseudo-inverses;
    the `qr` argument `Obs_all[:-n_DOF]`; the `inv` arguments `R[:k·step, :k·step]`; `(A, C) = fastLists` of
    `Obs_all` with `l = n_DOF` and the caller's `step`. -/
theorem ssiMultiSetup_eq (Y : List (Setup L)) (br ordmax step : ℕ) (rc : MsRec K) (out : MsOut L K) :
    ssiMultiSetup Y br ordmax step rc = .ok out ↔
      ∃ h, ssiMsHead Y = some h ∧ 0 < br ∧ 0 < step
        ∧ (∀ kk, kk < Y.length → PassOK Y h br ordmax rc kk)
        ∧ (∀ k, k < (ordmax + 1 + step - 1) / step → min (k * step) rc.R.r = min (k * step) rc.R.c)
        ∧ out.head = h
        ∧ out.hankArgs.map some = (List.range Y.length).map (ssiMsHankArgs Y)
        ∧ out.pinvArgs = (List.range Y.length).map
            (fun kk => oRef br h.n_ref (h.n_mov.getD kk 0) (obFn rc ordmax kk))
        ∧ out.obsAll = msObsAll br ordmax h.n_ref h.n_mov (obFn rc ordmax) rc.P
        ∧ out.qrArg = upPart out.obsAll h.n_DOF
        ∧ out.invArgs = (List.range ((ordmax + 1 + step - 1) / step)).map (fun k => leadBlock rc.R (k * step))
        ∧ (out.A, out.C) = fastLists rc.Rinv rc.Q out.obsAll h.n_DOF ordmax step := by
  unfold ssiMultiSetup
  cases hh : ssiMsHead Y with
  | none => simp
  | some h =>
    have hlen : h.n_setup = Y.length := by
      unfold ssiMsHead at hh
      cases Y with
      | nil => simp at hh
      | cons y ys => simp only [Option.some.injEq] at hh; rw [← hh]
    simp only [Option.some.injEq, exists_eq_left']
    by_cases hbr : br = 0
    · rw [if_pos hbr]; simp only [reduceCtorEq, false_iff, not_and]; intro h0; omega
    rw [if_neg hbr]
    cases hl : msSetupLoop Y h br ordmax rc (List.range h.n_setup) with
    | error e =>
      simp only [reduceCtorEq, false_iff, not_and]
      intro _ _ hp _ _ h1 h2
      have := (msSetupLoop_ok_iff Y h br ordmax rc (List.range h.n_setup)
        (List.zip out.hankArgs out.pinvArgs)).mpr ⟨?_, ?_, ?_⟩
      · rw [hl] at this; exact absurd this (by simp)
      · intro kk hkk; exact hp kk (by rw [← hlen]; exact List.mem_range.mp hkk)
      · have hlen2 : out.hankArgs.length = out.pinvArgs.length := by
          have a := congrArg List.length h1
          have b := congrArg List.length h2
          simp only [List.length_map, List.length_range] at a b
          omega
        rw [hlen, ← h1]
        have : (List.zip out.hankArgs out.pinvArgs).map (fun p => some p.1)
            = ((List.zip out.hankArgs out.pinvArgs).map Prod.fst).map some := by
          rw [List.map_map]; rfl
        rw [this, List.map_fst_zip (by omega)]
      · have hlen2 : out.pinvArgs.length = out.hankArgs.length := by
          have a := congrArg List.length h1
          have b := congrArg List.length h2
          simp only [List.length_map, List.length_range] at a b
          omega
        rw [hlen, ← h2]
        show (List.zip out.hankArgs out.pinvArgs).map Prod.snd = _
        rw [List.map_snd_zip (by omega)]
    | ok ps =>
      obtain ⟨i1, i2, i3⟩ := (msSetupLoop_ok_iff Y h br ordmax rc _ ps).mp hl
      simp only []
      by_cases hs : step = 0
      · rw [if_pos hs]; simp only [reduceCtorEq, false_iff, not_and]; intro _ h0; omega
      rw [if_neg hs]
      by_cases hsq : (List.range ((ordmax + 1 + step - 1) / step)).any
          (fun k => decide (min (k * step) rc.R.r ≠ min (k * step) rc.R.c)) = true
      · rw [if_pos hsq]
        simp only [reduceCtorEq, false_iff, not_and]
        intro _ _ _ hR
        rw [List.any_eq_true] at hsq
        obtain ⟨k, hk, hne⟩ := hsq
        exact absurd (hR k (List.mem_range.mp hk)) (of_decide_eq_true hne)
      rw [if_neg hsq]
      have hR : ∀ k, k < (ordmax + 1 + step - 1) / step → min (k * step) rc.R.r = min (k * step) rc.R.c := by
        intro k hk
        by_contra hne
        apply hsq
        rw [List.any_eq_true]
        exact ⟨k, List.mem_range.mpr hk, decide_eq_true hne⟩
      simp only [Except.ok.injEq]
      have hp : ∀ kk, kk < Y.length → PassOK Y h br ordmax rc kk := by
        intro kk hkk; exact i1 kk (List.mem_range.mpr (by rw [hlen]; exact hkk))
      have e2 : (ps.map (·.1)).map some = (List.range Y.length).map (ssiMsHankArgs Y) := by
        rw [← hlen, ← i2, List.map_map]; rfl
      constructor
      · rintro rfl
        exact ⟨by omega, by omega, hp, hR, rfl, e2, by rw [← hlen]; exact i3, rfl, rfl, rfl, rfl⟩
      · rintro ⟨_, _, _, _, h0, h1, h2, h3, h4, h5, h6⟩
        obtain ⟨oh, oha, opa, oo, oq, oi, oA, oC⟩ := out
        simp only at h0 h1 h2 h3 h4 h5 h6
        subst h0 h3 h4 h5
        have hA : oA = (fastLists rc.Rinv rc.Q
            (msObsAll br ordmax oh.n_ref oh.n_mov (obFn rc ordmax) rc.P) oh.n_DOF ordmax step).1 :=
          congrArg Prod.fst h6
        have hC : oC = (fastLists rc.Rinv rc.Q
            (msObsAll br ordmax oh.n_ref oh.n_mov (obFn rc ordmax) rc.P) oh.n_DOF ordmax step).2 :=
          congrArg Prod.snd h6
        subst hA hC
        have hha : oha = ps.map (·.1) := by
          have : oha.map some = (ps.map (·.1)).map some := by rw [h1, e2]
          exact List.map_injective_iff.mpr (Option.some_injective _) this
        have hpa : opa = ps.map (·.2) := by rw [h2, i3, hlen]
        subst hha hpa
        rfl

/-- an empty list of setups: `Y[0]` raises -/
theorem ssiMultiSetup_empty (br ordmax step : ℕ) (rc : MsRec K) :
    ssiMultiSetup ([] : List (Setup L)) br ordmax step rc = .error "IndexError" := rfl

/-- `step = 0`: the model never returns (`range(0, ordmax + 1, 0)` raises after the setup loop) -/
theorem ssiMultiSetup_step_zero (Y : List (Setup L)) (br ordmax : ℕ) (rc : MsRec K) (out : MsOut L K) :
    ssiMultiSetup Y br ordmax 0 rc ≠ .ok out := by
  intro h
  obtain ⟨_, _, _, h0, _⟩ := (ssiMultiSetup_eq Y br ordmax 0 rc out).mp h
  omega

/-- more orders requested than some setup's Hankel matrix has singular values: the model never returns
    (`np.dot` of the clipped slices raises, or the case is outside the model) -/
theorem ssiMultiSetup_clip (Y : List (Setup L)) (br ordmax step : ℕ) (rc : MsRec K) (out : MsOut L K)
    (kk : ℕ) (hkk : kk < Y.length) (hsv : (rc.sq kk).length < ordmax) :
    ssiMultiSetup Y br ordmax step rc ≠ .ok out := by
  intro h
  obtain ⟨_, _, _, _, hp, _⟩ := (ssiMultiSetup_eq Y br ordmax step rc out).mp h
  have := (hp kk hkk).sv
  omega

theorem filterMap_map_some {α β : Type} (f : α → Option β) (l : List α) (h : ∀ x ∈ l, (f x).isSome) :
    (l.filterMap f).map some = l.map f := by
  induction l with
  | nil => rfl
  | cons x xs ih =>
    have hx := h x (List.mem_cons_self)
    cases hq : f x with
    | none => rw [hq] at hx; exact absurd hx (by simp)
    | some b =>
      rw [List.filterMap_cons_some hq, List.map_cons, List.map_cons, hq,
        ih (fun y hy => h y (List.mem_cons_of_mem _ hy))]

/-- **`ssiMultiSetup_returns`**: for `br, step ≥ 1` and passes that are all `PassOK` the model returns. -/
theorem ssiMultiSetup_returns (Y : List (Setup L)) (br ordmax step : ℕ) (rc : MsRec K) (h : MsHead)
    (hh : ssiMsHead Y = some h) (hbr : 0 < br) (hs : 0 < step)
    (hp : ∀ kk, kk < Y.length → PassOK Y h br ordmax rc kk)
    (hR : ∀ k, k < (ordmax + 1 + step - 1) / step → min (k * step) rc.R.r = min (k * step) rc.R.c) :
    ∃ out, ssiMultiSetup Y br ordmax step rc = .ok out := by
  let Oa := msObsAll br ordmax h.n_ref h.n_mov (obFn rc ordmax) rc.P
  refine ⟨{ head := h,
            hankArgs := (List.range Y.length).filterMap (ssiMsHankArgs Y),
            pinvArgs := (List.range Y.length).map
              (fun kk => oRef br h.n_ref (h.n_mov.getD kk 0) (obFn rc ordmax kk)),
            obsAll := Oa, qrArg := upPart Oa h.n_DOF,
            invArgs := (List.range ((ordmax + 1 + step - 1) / step)).map (fun k => leadBlock rc.R (k * step)),
            A := (fastLists rc.Rinv rc.Q Oa h.n_DOF ordmax step).1,
            C := (fastLists rc.Rinv rc.Q Oa h.n_DOF ordmax step).2 }, ?_⟩
  rw [ssiMultiSetup_eq]
  refine ⟨h, hh, hbr, hs, hp, hR, rfl, ?_, rfl, rfl, rfl, rfl, rfl⟩
  apply filterMap_map_some
  intro kk hkk
  obtain ⟨a, ha, _⟩ := (hp kk (List.mem_range.mp hkk)).hank
  rw [ha]; rfl

end main

/-! ## the end-to-end conclusion read off the output of the executed function -/
section e2e
open PV.C03E2E PV.C01E2E PV.C03C11 PV.C01Table PV.FreeVib

theorem ssiMsHead_dof {L : Type} (Y : List (Setup L)) (h : MsHead) (hh : ssiMsHead Y = some h) :
    h.n_DOF = h.n_ref + h.n_mov.sum := by
  unfold ssiMsHead at hh
  cases Y with
  | nil => simp at hh
  | cons y ys => simp only [Option.some.injEq] at hh; rw [← hh]

/-- **C03_e2e_whole.**  `Conclusion` of `C03_e2e_cov` / `C03_e2e_dat` (for the recorded `U`, `sqrt S`, `pinv`, `Q`,
    `inv` results) and a returning run of the EXECUTED model `ssiMultiSetup Y br N 1 rc` on those records, whose
    head counts `refIds.length` references and `movIds[i].length` roving sensors.  Then the `Obs_all` the function
    returns is the matrix the conclusion speaks about, and list position `n` of the returned `A`, `C` holds the
    pair from which the global mode is `Recovered` (frequency, damping, shape over all sensors).
    Hypotheses beyond the property's premise: none new — `hcon` is the conclusion of the e2e theorems, the rest
    says which recorded result is which. -/
theorem C03_e2e_whole {n : ℕ} (A : Matrix (Fin n) (Fin n) ℚ) (Cg : ℕ → Fin n → ℚ) (br N : ℕ)
    (refIds : List ℕ) (movIds : List (List ℕ)) (hne : movIds ≠ [])
    (U : ℕ → Mat ℚ) (S sq : ℕ → ℕ → ℚ) (P : ℕ → Mat ℚ) (Q Rinv : Mat ℚ)
    (Vf : Mat (Cpx ℚ)) (lamf : ℕ → Cpx ℚ) (dt : ℝ) (lam : Cpx ℚ) (w : Fin n → Cpx ℚ) (mu : ℂ)
    (hcon : Conclusion A Cg br N refIds movIds U S sq P Q Rinv Vf lamf dt lam w mu)
    {L : Type} (Y : List (Setup L)) (rc : MsRec ℚ) (out : MsOut L ℚ)
    (hrun : ssiMultiSetup Y br N 1 rc = .ok out)
    (hr : out.head.n_ref = refIds.length) (hm : out.head.n_mov = movIds.map List.length)
    (hU : rc.U = U) (hsq : ∀ i, sqFn rc i = sq i) (hP : rc.P = P) (hQ : rc.Q = Q) (hRi : rc.Rinv n = Rinv) :
    out.obsAll = obsAllOf br N refIds movIds U sq P ∧
    ∃ An Cn, out.A[n]? = some An ∧ out.C[n]? = some Cn ∧
      Recovered A (msC Cg (orderOf refIds movIds)) (nDof refIds movIds) dt lam w mu An Cn Vf lamf := by
  obtain ⟨h, hh, _, _, _, _, hhead, _, _, hobs, _, _, hAC⟩ := (ssiMultiSetup_eq Y br N 1 rc out).mp hrun
  subst hhead
  have hdof : out.head.n_DOF = nDof refIds movIds := by
    rw [ssiMsHead_dof Y _ hh, hr, hm]
  have hob : obFn rc N = fun i => obsOf (U i) (sq i) N := by
    funext i; simp only [obFn, hsq i, hU]
  have hobs' : out.obsAll = obsAllOf br N refIds movIds U sq P := by
    rw [hobs, hr, hm, hob, hP]
  obtain ⟨hrank, _, hrec⟩ := hcon
  obtain ⟨m0, h0⟩ : ∃ m0, movIds[0]? = some m0 := by
    cases hmov : movIds with
    | nil => exact absurd hmov hne
    | cons x xs => exact ⟨x, rfl⟩
  have hn : n ≤ N := (hrank 0 m0 h0).1
  obtain ⟨g1, g2⟩ := fastLists_get rc.Rinv rc.Q out.obsAll out.head.n_DOF N n hn
  have hA : out.A = (fastLists rc.Rinv rc.Q out.obsAll out.head.n_DOF N 1).1 := congrArg Prod.fst hAC
  have hC : out.C = (fastLists rc.Rinv rc.Q out.obsAll out.head.n_DOF N 1).2 := congrArg Prod.snd hAC
  refine ⟨hobs', _, _, by rw [hA]; exact g1, by rw [hC]; exact g2, ?_⟩
  rw [hRi, hQ, hobs', hdof]
  exact hrec

end e2e

/-! ## Non-vacuity: the two-setup instance of `Props/C03E2E.lean` (`Ex`) run through the executed function -/
namespace Ex
open PV.C03E2E PV.C03E2E.Ex

/-- the per-setup records as `gen.pre_multisetup` hands them over: reference row, roving row -/
def Ys : List (Setup ℚ) :=
  [⟨Mat.rowSlice Y0 0 1, Mat.rowSlice Y0 1 2⟩, ⟨Mat.rowSlice Y1 0 1, Mat.rowSlice Y1 1 2⟩]

def rc : MsRec ℚ :=
  { U := U, sq := fun i => if i = 0 then [12, 12] else [24, 24], P := P, Q := Q, R := R, Rinv := fun _ => Rinv }

theorem sq_eq (i : ℕ) : sqFn rc i = C03E2E.Ex.sq i := by
  funext j
  by_cases hi : i = 0
  · subst hi
    simp only [sqFn, rc, C03E2E.Ex.sq, if_true, sq0]
    match j with
    | 0 => rfl
    | 1 => rfl
    | j + 2 => simp
  · simp only [sqFn, rc, C03E2E.Ex.sq, if_neg hi, sq1]
    match j with
    | 0 => rfl
    | 1 => rfl
    | j + 2 => simp

/-- the executed model returns on the instance (`ssiMultiSetup_returns`: all its hypotheses hold jointly) … -/
theorem returns : ∃ out, ssiMultiSetup Ys 3 2 1 rc = .ok out :=
  ssiMultiSetup_returns Ys 3 2 1 rc ⟨2, 1, [1, 1], 3⟩ rfl (by decide) (by decide)
    (fun kk hkk => by
      have : kk = 0 ∨ kk = 1 := by simp only [Ys, List.length_cons, List.length_nil] at hkk; omega
      rcases this with rfl | rfl
      · exact ⟨⟨_, rfl, rfl⟩, by decide, by decide, by decide, by decide, by decide⟩
      · exact ⟨⟨_, rfl, rfl⟩, by decide, by decide, by decide, by decide, by decide⟩)
    (by decide)

/-- … and what it returns holds the recovered global mode at list position 2 (`C03_e2e_whole` with the
    `Conclusion` proved in `C03E2E.Ex.recovered`) -/
theorem whole : ∃ out, ssiMultiSetup Ys 3 2 1 rc = .ok out ∧
    out.obsAll = obsAllOf 3 2 refIds movIds U C03E2E.Ex.sq P ∧
    ∃ An Cn, out.A[2]? = some An ∧ out.C[2]? = some Cn ∧
      C01E2E.Recovered A (MsFreeVib.msC Cg (C03C11.orderOf refIds movIds)) (nDof refIds movIds) (1 / 100)
        C01E2E.ExDat.lam C01E2E.ExDat.w C01E2E.ExDat.mu An Cn C01E2E.ExDat.Vec C01E2E.ExDat.lams := by
  obtain ⟨out, hout⟩ := returns
  obtain ⟨h, hh, _, _, _, _, hhead, _⟩ := (ssiMultiSetup_eq Ys 3 2 1 rc out).mp hout
  have hh' : h = ⟨2, 1, [1, 1], 3⟩ := by
    have : ssiMsHead Ys = some ⟨2, 1, [1, 1], 3⟩ := rfl
    rw [this] at hh; injection hh with hh; exact hh.symm
  refine ⟨out, hout, ?_⟩
  exact C03_e2e_whole A Cg 3 2 refIds movIds (by decide) U S C03E2E.Ex.sq P Q Rinv _ _ _ _ _ _ recovered Ys rc out hout
    (by rw [hhead, hh']; rfl) (by rw [hhead, hh']; rfl) rfl sq_eq rfl rfl rfl

end Ex

end PV.C03Whole
