import PyomaVerif.Model.MultiSetup
import PyomaVerif.Props.C03Table
/-!
# C03 — `ssi.SSI_multi_setup` as one executed function (`Model/MultiSetup.lean`, op `ssi_multi_setup`)

* `ssiMultiSetup_eq` — whenever the executed model returns, what it returns IS the composition the C03 / C08
  theorems speak about: `Obs_all = msObsAll …` of the per-setup factors `obsOf (U kk) (sqrt S kk) ordmax`, the
  `pinv` argument of pass `kk` is `oRef …` of that factor, the `qr` argument is `upPart Obs_all n_DOF`, the `inv`
  arguments are the leading blocks of `R`, `(A, C) = fastLists … n_DOF ordmax step`, the `build_hank` arguments are
  `ssiMsHankArgs Y kk`, with the head of `ssiMsHead` — and the guards that let it return (`step > 0`, `br > 0`,
  at least `ordmax` singular values and columns of `U` per setup, a reference and a roving sensor per setup).
* `ssiMultiSetup_returns` — the converse: those guards make it return (no other exception branch).
* `ssiMultiSetup_empty`, `ssiMultiSetup_step_zero`, `ssiMultiSetup_clip` — the exception branches.
* `C03_e2e_whole` — the `Conclusion` of `C03_e2e_cov` / `C03_e2e_dat` read off the OUTPUT of the executed function:
  list position `n` of the returned `A`, `C` (step 1) is the recovered global pair.
-/
namespace PV.C03Whole
open PV PV.Multi PV.MsGather PV.MsFreeVib PV.Poles PV.MultiSetup

set_option linter.unusedSectionVars false
section loop
variable {L K : Type} [Zero K] [Add K] [Mul K]

/-- the per-setup factor the model forms in pass `kk` -/
abbrev obFn (rc : MsRec K) (ordmax : ℕ) : ℕ → Mat K := fun kk => obsOf (rc.U kk) (sqFn rc kk) ordmax

/-- what lets pass `kk` of the setup loop return -/
structure PassOK (Y : List (Setup L)) (h : MsHead) (br ordmax : ℕ) (rc : MsRec K) (kk : ℕ) : Prop where
  hank : ∃ a, ssiMsHankArgs Y kk = some a ∧ a.2.r = h.n_ref
  sv : ordmax ≤ (rc.sq kk).length
  ucols : ordmax ≤ (rc.U kk).c
  nref : h.n_ref ≠ 0
  nmov : h.n_mov.getD kk 0 ≠ 0
  rows : ∀ i ∈ refRows br h.n_ref (h.n_mov.getD kk 0) ++ movRows br h.n_ref (h.n_mov.getD kk 0), i < (rc.U kk).r

theorem msObs_ok_iff (rc : MsRec K) (ordmax kk : ℕ) (O : Mat K) :
    msObs rc ordmax kk = .ok O ↔
      (ordmax ≤ (rc.sq kk).length ∧ ordmax ≤ (rc.U kk).c ∧ O = obsOf (rc.U kk) (sqFn rc kk) ordmax) := by
  unfold msObs
  constructor
  · intro h
    split at h
    · exact absurd h (by simp)
    · rename_i h1
      split at h
      · exact absurd h (by simp)
      · rename_i h2
        have h3 : ordmax ≤ (rc.sq kk).length := by omega
        refine ⟨h3, ?_, ?_⟩
        · have : min ordmax (rc.U kk).c = min ordmax (rc.sq kk).length := by
            by_contra hne; exact h1 hne
          rw [Nat.min_eq_left h3] at this
          omega
        · injection h with h; exact h.symm
  · rintro ⟨h1, h2, rfl⟩
    rw [if_neg (by rw [Nat.min_eq_left h1, Nat.min_eq_left h2]; simp), if_neg (by omega)]

/-- the setup loop returns exactly when every pass is `PassOK`, and then with the `build_hank` and `pinv`
    arguments of the passes in order -/
theorem msSetupLoop_ok_iff (Y : List (Setup L)) (h : MsHead) (br ordmax : ℕ) (rc : MsRec K) (kks : List ℕ)
    (ps : List ((Mat L × Mat L) × Mat K)) :
    msSetupLoop Y h br ordmax rc kks = .ok ps ↔
      ((∀ kk ∈ kks, PassOK Y h br ordmax rc kk)
        ∧ ps.map (fun p => some p.1) = kks.map (ssiMsHankArgs Y)
        ∧ ps.map (·.2) = kks.map fun kk => oRef br h.n_ref (h.n_mov.getD kk 0) (obFn rc ordmax kk)) := by
  induction kks generalizing ps with
  | nil =>
    simp only [msSetupLoop, List.not_mem_nil, false_imp_iff, implies_true, List.map_nil, true_and,
      List.map_eq_nil_iff, and_self]
    constructor
    · intro h; injection h with h; exact h.symm
    · rintro rfl; rfl
  | cons kk rest ih =>
    simp only [msSetupLoop, List.mem_cons, forall_eq_or_imp, List.map_cons]
    cases hk : ssiMsHankArgs Y kk with
    | none =>
      simp only [reduceCtorEq, false_iff, not_and]
      intro hp
      obtain ⟨a, ha, _⟩ := hp.1.hank
      rw [hk] at ha; exact absurd ha (by simp)
    | some a =>
      simp only []
      by_cases hr : a.2.r = h.n_ref
      swap
      · rw [if_pos hr]
        simp only [reduceCtorEq, false_iff, not_and]
        intro hp
        obtain ⟨a', ha', hr'⟩ := hp.1.hank
        rw [hk] at ha'; injection ha' with ha'; subst ha'
        exact absurd hr' hr
      rw [if_neg (not_not.mpr hr)]
      cases hO : msObs rc ordmax kk with
      | error e =>
        simp only [reduceCtorEq, false_iff, not_and]
        intro hp
        have := (msObs_ok_iff rc ordmax kk (obFn rc ordmax kk)).mpr ⟨hp.1.sv, hp.1.ucols, rfl⟩
        rw [hO] at this; exact absurd this (by simp)
      | ok O =>
        obtain ⟨hsv, huc, rfl⟩ := (msObs_ok_iff rc ordmax kk O).mp hO
        simp only []
        by_cases hz : h.n_ref = 0 ∨ h.n_mov.getD kk 0 = 0
        · rw [if_pos hz]
          simp only [reduceCtorEq, false_iff, not_and]
          intro hp
          rcases hz with hz | hz
          · exact absurd hz hp.1.nref
          · exact absurd hz hp.1.nmov
        rw [if_neg hz]
        rw [not_or] at hz
        by_cases hany : (refRows br h.n_ref (h.n_mov.getD kk 0) ++ movRows br h.n_ref (h.n_mov.getD kk 0)).any
            (fun i => decide ((obsOf (rc.U kk) (sqFn rc kk) ordmax).r ≤ i)) = true
        · rw [if_pos hany]
          simp only [reduceCtorEq, false_iff, not_and]
          intro hp
          rw [List.any_eq_true] at hany
          obtain ⟨i, hi, hle⟩ := hany
          have := hp.1.rows i hi
          have hle' : (rc.U kk).r ≤ i := of_decide_eq_true hle
          omega
        rw [if_neg hany]
        have hrows : ∀ i ∈ refRows br h.n_ref (h.n_mov.getD kk 0) ++ movRows br h.n_ref (h.n_mov.getD kk 0),
            i < (rc.U kk).r := by
          intro i hi
          by_contra hlt
          apply hany
          rw [List.any_eq_true]
          exact ⟨i, hi, decide_eq_true (show (rc.U kk).r ≤ i by omega)⟩
        have hpass : PassOK Y h br ordmax rc kk := ⟨⟨a, hk, hr⟩, hsv, huc, hz.1, hz.2, hrows⟩
        cases hrest : msSetupLoop Y h br ordmax rc rest with
        | error e =>
          simp only [reduceCtorEq, false_iff, not_and]
          intro hp
          cases ps with
          | nil => simp
          | cons p ps' =>
            intro h1 h2
            simp only [List.map_cons, List.cons.injEq] at h1 h2
            have := (ih ps').mpr ⟨hp.2, h1.2, h2.2⟩
            rw [hrest] at this; exact absurd this (by simp)
        | ok ps' =>
          obtain ⟨i1, i2, i3⟩ := (ih ps').mp hrest
          simp only [Except.ok.injEq]
          constructor
          · rintro rfl
            refine ⟨⟨hpass, i1⟩, ?_, ?_⟩
            · simp only [List.map_cons, i2]
            · simp only [List.map_cons, i3]
          · rintro ⟨_, h1, h2⟩
            cases ps with
            | nil => simp at h1
            | cons p ps'' =>
              simp only [List.map_cons, List.cons.injEq, Option.some.injEq] at h1 h2
              have hps : msSetupLoop Y h br ordmax rc rest = .ok ps'' := (ih ps'').mpr ⟨i1, h1.2, h2.2⟩
              rw [hrest] at hps
              injection hps with hps
              subst hps
              obtain ⟨p1, p2⟩ := p
              simp only at h1 h2
              rw [h1.1, h2.1]

end loop

section main
variable {L K : Type} [Zero K] [Add K] [Mul K]

/-- **`ssiMultiSetup_eq`.**  The executed model of `ssi.SSI_multi_setup` returns `out` exactly when `Y` has a head
    `h` (`Y ≠ []`), `br ≥ 1`, `step ≥ 1`, every pass is `PassOK`, and `out` is: the head; the `build_hank` arguments
    `ssiMsHankArgs Y kk` in setup order; the `pinv` arguments `O_ref = oRef …` of the per-setup factors
    `U1[:, :ordmax]·sqrt(S1)[:ordmax]`; `Obs_all = msObsAll …` of those factors and the recorded pseudo-inverses;
    the `qr` argument `Obs_all[:-n_DOF]`; the `inv` arguments `R[:k·step, :k·step]`; `(A, C) = fastLists` of
    `Obs_all` with `l = n_DOF` and the caller's `step`. -/
theorem ssiMultiSetup_eq (Y : List (Setup L)) (br ordmax step : ℕ) (rc : MsRec K) (out : MsOut L K) :
    ssiMultiSetup Y br ordmax step rc = .ok out ↔
      ∃ h, ssiMsHead Y = some h ∧ 0 < br ∧ 0 < step
        ∧ (∀ kk, kk < Y.length → PassOK Y h br ordmax rc kk)
        ∧ out.head = h
        ∧ out.hankArgs.map some = (List.range Y.length).map (ssiMsHankArgs Y)
        ∧ out.pinvArgs = (List.range Y.length).map
            (fun kk => oRef br h.n_ref (h.n_mov.getD kk 0) (obFn rc ordmax kk))
        ∧ out.obsAll = msObsAll br ordmax h.n_ref h.n_mov (obFn rc ordmax) rc.P
        ∧ out.qrArg = upPart out.obsAll h.n_DOF
        ∧ out.invArgs = (List.range ((ordmax + 1 + step - 1) / step)).map (fun k => leadBlock rc.R (k * step))
        ∧ (out.A, out.C) = fastLists rc.Rinv rc.Q out.obsAll h.n_DOF ordmax step := by
  unfold ssiMultiSetup
  cases hh : ssiMsHead Y with
  | none => simp
  | some h =>
    have hlen : h.n_setup = Y.length := by
      unfold ssiMsHead at hh
      cases Y with
      | nil => simp at hh
      | cons y ys => simp only [Option.some.injEq] at hh; rw [← hh]
    simp only [Option.some.injEq, exists_eq_left']
    by_cases hbr : br = 0
    · rw [if_pos hbr]; simp only [reduceCtorEq, false_iff, not_and]; intro h0; omega
    rw [if_neg hbr]
    cases hl : msSetupLoop Y h br ordmax rc (List.range h.n_setup) with
    | error e =>
      simp only [reduceCtorEq, false_iff, not_and]
      intro _ _ hp _ h1 h2
      have := (msSetupLoop_ok_iff Y h br ordmax rc (List.range h.n_setup)
        (List.zip out.hankArgs out.pinvArgs)).mpr ⟨?_, ?_, ?_⟩
      · rw [hl] at this; exact absurd this (by simp)
      · intro kk hkk; exact hp kk (by rw [← hlen]; exact List.mem_range.mp hkk)
      · have hlen2 : out.hankArgs.length = out.pinvArgs.length := by
          have a := congrArg List.length h1
          have b := congrArg List.length h2
          simp only [List.length_map, List.length_range] at a b
          omega
        rw [hlen, ← h1]
        have : (List.zip out.hankArgs out.pinvArgs).map (fun p => some p.1)
            = ((List.zip out.hankArgs out.pinvArgs).map Prod.fst).map some := by
          rw [List.map_map]; rfl
        rw [this, List.map_fst_zip (by omega)]
      · have hlen2 : out.pinvArgs.length = out.hankArgs.length := by
          have a := congrArg List.length h1
          have b := congrArg List.length h2
          simp only [List.length_map, List.length_range] at a b
          omega
        rw [hlen, ← h2]
        show (List.zip out.hankArgs out.pinvArgs).map Prod.snd = _
        rw [List.map_snd_zip (by omega)]
    | ok ps =>
      obtain ⟨i1, i2, i3⟩ := (msSetupLoop_ok_iff Y h br ordmax rc _ ps).mp hl
      simp only []
      by_cases hs : step = 0
      · rw [if_pos hs]; simp only [reduceCtorEq, false_iff, not_and]; intro _ h0; omega
      rw [if_neg hs]
      simp only [Except.ok.injEq]
      have hp : ∀ kk, kk < Y.length → PassOK Y h br ordmax rc kk := by
        intro kk hkk; exact i1 kk (List.mem_range.mpr (by rw [hlen]; exact hkk))
      have e2 : (ps.map (·.1)).map some = (List.range Y.length).map (ssiMsHankArgs Y) := by
        rw [← hlen, ← i2, List.map_map]; rfl
      constructor
      · rintro rfl
        exact ⟨by omega, by omega, hp, rfl, e2, by rw [← hlen]; exact i3, rfl, rfl, rfl, rfl⟩
      · rintro ⟨_, _, _, h0, h1, h2, h3, h4, h5, h6⟩
        obtain ⟨oh, oha, opa, oo, oq, oi, oA, oC⟩ := out
        simp only at h0 h1 h2 h3 h4 h5 h6
        subst h0 h3 h4 h5
        have hA : oA = (fastLists rc.Rinv rc.Q
            (msObsAll br ordmax oh.n_ref oh.n_mov (obFn rc ordmax) rc.P) oh.n_DOF ordmax step).1 :=
          congrArg Prod.fst h6
        have hC : oC = (fastLists rc.Rinv rc.Q
            (msObsAll br ordmax oh.n_ref oh.n_mov (obFn rc ordmax) rc.P) oh.n_DOF ordmax step).2 :=
          congrArg Prod.snd h6
        subst hA hC
        have hha : oha = ps.map (·.1) := by
          have : oha.map some = (ps.map (·.1)).map some := by rw [h1, e2]
          exact List.map_injective_iff.mpr (Option.some_injective _) this
        have hpa : opa = ps.map (·.2) := by rw [h2, i3, hlen]
        subst hha hpa
        rfl

/-- an empty list of setups: `Y[0]` raises -/
theorem ssiMultiSetup_empty (br ordmax step : ℕ) (rc : MsRec K) :
    ssiMultiSetup ([] : List (Setup L)) br ordmax step rc = .error "IndexError" := rfl

/-- `step = 0`: the model never returns (`range(0, ordmax + 1, 0)` raises after the setup loop) -/
theorem ssiMultiSetup_step_zero (Y : List (Setup L)) (br ordmax : ℕ) (rc : MsRec K) (out : MsOut L K) :
    ssiMultiSetup Y br ordmax 0 rc ≠ .ok out := by
  intro h
  obtain ⟨_, _, _, h0, _⟩ := (ssiMultiSetup_eq Y br ordmax 0 rc out).mp h
  omega

/-- more orders requested than some setup's Hankel matrix has singular values: the model never returns
    (`np.dot` of the clipped slices raises, or the case is outside the model) -/
theorem ssiMultiSetup_clip (Y : List (Setup L)) (br ordmax step : ℕ) (rc : MsRec K) (out : MsOut L K)
    (kk : ℕ) (hkk : kk < Y.length) (hsv : (rc.sq kk).length < ordmax) :
    ssiMultiSetup Y br ordmax step rc ≠ .ok out := by
  intro h
  obtain ⟨_, _, _, _, hp, _⟩ := (ssiMultiSetup_eq Y br ordmax step rc out).mp h
  have := (hp kk hkk).sv
  omega

theorem filterMap_map_some {α β : Type} (f : α → Option β) (l : List α) (h : ∀ x ∈ l, (f x).isSome) :
    (l.filterMap f).map some = l.map f := by
  induction l with
  | nil => rfl
  | cons x xs ih =>
    have hx := h x (List.mem_cons_self)
    cases hq : f x with
    | none => rw [hq] at hx; exact absurd hx (by simp)
    | some b =>
      rw [List.filterMap_cons_some hq, List.map_cons, List.map_cons, hq,
        ih (fun y hy => h y (List.mem_cons_of_mem _ hy))]

/-- **`ssiMultiSetup_returns`**: for `br, step ≥ 1` and passes that are all `PassOK` the model returns. -/
theorem ssiMultiSetup_returns (Y : List (Setup L)) (br ordmax step : ℕ) (rc : MsRec K) (h : MsHead)
    (hh : ssiMsHead Y = some h) (hbr : 0 < br) (hs : 0 < step)
    (hp : ∀ kk, kk < Y.length → PassOK Y h br ordmax rc kk) :
    ∃ out, ssiMultiSetup Y br ordmax step rc = .ok out := by
  let Oa := msObsAll br ordmax h.n_ref h.n_mov (obFn rc ordmax) rc.P
  refine ⟨{ head := h,
            hankArgs := (List.range Y.length).filterMap (ssiMsHankArgs Y),
            pinvArgs := (List.range Y.length).map
              (fun kk => oRef br h.n_ref (h.n_mov.getD kk 0) (obFn rc ordmax kk)),
            obsAll := Oa, qrArg := upPart Oa h.n_DOF,
            invArgs := (List.range ((ordmax + 1 + step - 1) / step)).map (fun k => leadBlock rc.R (k * step)),
            A := (fastLists rc.Rinv rc.Q Oa h.n_DOF ordmax step).1,
            C := (fastLists rc.Rinv rc.Q Oa h.n_DOF ordmax step).2 }, ?_⟩
  rw [ssiMultiSetup_eq]
  refine ⟨h, hh, hbr, hs, hp, rfl, ?_, rfl, rfl, rfl, rfl, rfl⟩
  apply filterMap_map_some
  intro kk hkk
  obtain ⟨a, ha, _⟩ := (hp kk (List.mem_range.mp hkk)).hank
  rw [ha]; rfl

end main
end PV.C03Whole
